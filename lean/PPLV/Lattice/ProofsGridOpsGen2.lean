import PPLV.Lattice.ProofsGridOpsGen1
import PPLV.Lattice.ProofsRedNorm
import PPLV.Lattice.ProofsRedGenBase

/-!
# Generator side of the `Grid` object, part 2 — `gensSet` (homogeneous lattice read at the divisor of the first point)
# is the PPL reading `gn_set` for the systems `Grid` keeps; `Hom` of an appended system
-/
namespace PPLV.Lattice.GO
open PPLV.Lattice PPLV.Lattice.Red

theorem gn_spaceDim_of_len {r : GRow} {n : Nat} (h : r.e.length = n + 2) : r.spaceDim = n := by
  simp [GRow.spaceDim, h]

theorem gn_isPt_iff (r : GRow) : gn_isPt r = true ↔ r.line = false ∧ get r.e 0 ≠ 0 := by
  simp [gn_isPt]
theorem gn_isPar_iff (r : GRow) : gn_isPar r = true ↔ r.line = false ∧ get r.e 0 = 0 := by
  simp [gn_isPar]

theorem gn_vecOf_pt {n : Nat} {r : GRow} (hlen : r.e.length = n + 2) (p : gn_isPt r = true) :
    gn_vecOf r = (r.coords n (get r.e 0 : ℚ)).toFun := by
  obtain ⟨hl, h0⟩ := (gn_isPt_iff r).mp p
  funext i
  rw [coords_toFun]
  simp [gn_vecOf, gn_spaceDim_of_len hlen, hl, divisor_point r h0]

theorem gn_vecOf_par {n : Nat} {r : GRow} (hlen : r.e.length = n + 2) (p : gn_isPar r = true) :
    gn_vecOf r = (r.coords n (get r.e (n + 1) : ℚ)).toFun := by
  obtain ⟨hl, h0⟩ := (gn_isPar_iff r).mp p
  funext i
  rw [coords_toFun]
  simp [gn_vecOf, gn_spaceDim_of_len hlen, hl, divisor_param n r hlen h0]

theorem gn_vecOf_line {n : Nat} {r : GRow} (hlen : r.e.length = n + 2) (hl : r.line = true) :
    gn_vecOf r = (r.coords n 1).toFun := by
  funext i
  rw [coords_toFun]
  simp [gn_vecOf, gn_spaceDim_of_len hlen, hl]

/-- a generated grid lives in the space of the rows -/
theorem gn_vecOf_supp {n : Nat} {r : GRow} (hlen : r.e.length = n + 2) : Supp n (gn_vecOf r) := by
  intro i hi
  simp [gn_vecOf, gn_spaceDim_of_len hlen]; omega

/-- in a normalised system the divisor of the first point is the common divisor -/
theorem gn_firstPointDiv {n : Nat} {D : Int} {rows : List GRow} (h : GNorm n D rows) : firstPointDiv rows = D := by
  unfold firstPointDiv
  cases hf : rows.find? (fun r => !r.line && get r.e 0 != 0) with
  | none =>
    obtain ⟨r, hr, hl, h0⟩ := h.pt
    have := List.find?_eq_none.mp hf r hr
    have hD : D ≠ 0 := ne_of_gt h.pos
    simp [hl, h0, hD] at this
  | some p =>
    have hp := List.find?_some hf
    have hm := List.mem_of_find?_eq_some hf
    simp only [Bool.and_eq_true, Bool.not_eq_true', bne_iff_ne, ne_eq] at hp
    rcases h.col0 p hm hp.1 with h0 | h0
    · exact absurd h0 hp.2
    · exact h0

/-! ### `shift` is linear -/

theorem gn_shift_zero : shift 0 = 0 := by
  funext i; cases i <;> simp [shift]
theorem gn_shift_add (v w : Pt) : shift (v + w) = shift v + shift w := by
  funext i; cases i <;> simp [shift]
theorem gn_shift_smul (c : ℚ) (v : Pt) : shift (c • v) = c • shift v := by
  funext i; cases i <;> simp [shift]

/-! ### the bridge -/

theorem gn_hom_of_dir {n : Nat} {D : Int} {rows : List GRow} (h : GNorm n D rows) (hw : GWf n rows) {v : Pt}
    (hv : gn_Dir rows v) : Hom n rows ((D : ℚ) • shift v) := by
  have hDne : D ≠ 0 := ne_of_gt h.pos
  have hDq : (D : ℚ) ≠ 0 := by exact_mod_cast hDne
  refine gn_dir_le (S := fun v => Hom n rows ((D : ℚ) • shift v)) ?_ ?_ ?_ ?_ ?_ ?_ hv
  · show Hom n rows ((D : ℚ) • shift 0)
    rw [gn_shift_zero, smul_zero]; exact hom_zero _ _
  · intro v w h1 h2
    show Hom n rows ((D : ℚ) • shift (v + w))
    rw [gn_shift_add, smul_add]; exact hom_add h1 h2
  · intro k v h1
    show Hom n rows ((D : ℚ) • shift ((k : ℚ) • v))
    rw [gn_shift_smul, smul_comm]; exact hom_zsmul k h1
  · intro r1 h1 p1 r2 h2 p2
    show Hom n rows ((D : ℚ) • shift (gn_vecOf r1 - gn_vecOf r2))
    obtain ⟨l1, z1⟩ := (gn_isPt_iff r1).mp p1
    obtain ⟨l2, z2⟩ := (gn_isPt_iff r2).mp p2
    have e1 : get r1.e 0 = D := by rcases h.col0 r1 h1 l1 with q | q; exact absurd q z1; exact q
    have e2 : get r2.e 0 = D := by rcases h.col0 r2 h2 l2 with q | q; exact absurd q z2; exact q
    rw [← homog_sub, gn_vecOf_pt (hw r1 h1) p1, gn_vecOf_pt (hw r2 h2) p2, e1, e2,
      ← hvec_point n r1 D hDne e1, ← hvec_point n r2 D hDne e2]
    exact hom_sub (hom_of_mem_pc h1 l1) (hom_of_mem_pc h2 l2)
  · intro r hr p
    show Hom n rows ((D : ℚ) • shift (gn_vecOf r))
    obtain ⟨l1, z1⟩ := (gn_isPar_iff r).mp p
    rw [gn_vecOf_par (hw r hr) p, h.par r hr l1 z1, ← hvec_dir n r (D : ℚ) hDq z1]
    exact hom_of_mem_pc hr l1
  · intro r hr hl c
    show Hom n rows ((D : ℚ) • shift (c • gn_vecOf r))
    have z1 := h.lin r hr hl
    have e := hvec_dir n r 1 one_ne_zero z1
    rw [one_smul] at e
    rw [gn_shift_smul, smul_smul, gn_vecOf_line (hw r hr) hl, ← e]
    exact hom_of_mem_line hr hl _

theorem gn_hom_of_mem {n : Nat} {D : Int} {rows : List GRow} (h : GNorm n D rows) (hw : GWf n rows) {x : Pt}
    (hx : gn_Mem rows x) : Hom n rows (homog (D : ℚ) x) := by
  have hDne : D ≠ 0 := ne_of_gt h.pos
  obtain ⟨r, hr, p, d⟩ := hx
  obtain ⟨l1, z1⟩ := (gn_isPt_iff r).mp p
  have e1 : get r.e 0 = D := by rcases h.col0 r hr l1 with q | q; exact absurd q z1; exact q
  have e : x = gn_vecOf r + (1 : ℚ) • (x - gn_vecOf r) := by module
  rw [e, homog_add_shift, one_mul]
  refine hom_add ?_ (gn_hom_of_dir h hw d)
  rw [gn_vecOf_pt (hw r hr) p, e1, ← hvec_point n r D hDne e1]
  exact hom_of_mem_pc hr l1

theorem gn_mem_of_hom {n : Nat} {D : Int} {rows : List GRow} (h : GNorm n D rows) (hw : GWf n rows) {x : Pt}
    (hx : Hom n rows (homog (D : ℚ) x)) : gn_Mem rows x := by
  obtain ⟨p, ps, hpts, hG⟩ := gensOf_eq n D rows h
  obtain ⟨G, hG', hsem⟩ := gensOf_gnorm n D rows h
  rw [hG] at hG'
  cases hG'
  have hx' := (hsem x).mpr hx
  clear hx
  have hpt_mem : ∀ r, r ∈ p :: ps → r ∈ rows ∧ gn_isPt r = true := by
    intro r hr
    rw [← hpts, List.mem_filter] at hr
    exact ⟨hr.1, hr.2⟩
  have hq_mem : ∀ r, r ∈ rows.filter (fun r => !r.line && get r.e 0 == 0) → r ∈ rows ∧ gn_isPar r = true := by
    intro r hr
    rw [List.mem_filter] at hr
    exact ⟨hr.1, hr.2⟩
  have hp := hpt_mem p (by simp)
  change Gens.Mem _ x at hx'
  induction hx' with
  | pt =>
    show gn_Mem rows (p.coords n (get p.e 0 : ℚ)).toFun
    rw [← gn_vecOf_pt (hw p hp.1) hp.2]; exact gn_mem_pt hp.1 hp.2
  | @param y q k hq _ ih =>
    rw [axpy_eq]
    refine gn_mem_add_dir ih (gn_dir_zsmul k ?_)
    simp only [List.mem_append, List.mem_map] at hq
    rcases hq with ⟨r, hr, rfl⟩ | ⟨r, hr, rfl⟩
    · have hr' := hpt_mem r (List.mem_cons_of_mem _ hr)
      rw [toFun_vsub, ← gn_vecOf_pt (hw r hr'.1) hr'.2, ← gn_vecOf_pt (hw p hp.1) hp.2]
      exact gn_dir_ptdiff hr'.1 hr'.2 hp.1 hp.2
    · have hr' := hq_mem r hr
      rw [← gn_vecOf_par (hw r hr'.1) hr'.2]
      exact gn_dir_par hr'.1 hr'.2
  | @line y l c hl _ ih =>
    rw [axpy_eq]
    refine gn_mem_add_dir ih ?_
    obtain ⟨r, hr, rfl⟩ := List.mem_map.mp hl
    rw [List.mem_filter] at hr
    have e : (r.coords n 1).toFun = (r.coords n (1 : ℚ)).toFun := rfl
    rw [e, ← gn_vecOf_line (hw r hr.1) hr.2]
    exact gn_dir_line hr.1 hr.2 c

/-- **the bridge**: for a well-formed system with normalised divisors the denotation used by `Grid.sem` is the PPL
    reading of the rows -/
theorem gn_bridge {n : Nat} {D : Int} {rows : List GRow} (h : GNorm n D rows) (hw : GWf n rows) :
    gensSet n rows = gn_set rows := by
  ext x
  show Hom n rows (homog ((firstPointDiv rows : Int) : ℚ) x) ↔ gn_Mem rows x
  rw [gn_firstPointDiv h]
  exact ⟨gn_mem_of_hom h hw, gn_hom_of_mem h hw⟩

example : GNorm 1 2 [⟨false, [2, 1, 0]⟩, ⟨false, [0, 3, 2]⟩, ⟨true, [0, 1, 0]⟩] ∧
    GWf 1 [⟨false, [2, 1, 0]⟩, ⟨false, [0, 3, 2]⟩, ⟨true, [0, 1, 0]⟩] := by
  refine ⟨⟨by decide, ⟨_, List.mem_cons_self, rfl, rfl⟩, by decide, by decide, by decide⟩, ?_⟩
  intro r hr
  simp only [List.mem_cons, List.not_mem_nil, or_false] at hr
  rcases hr with rfl | rfl | rfl <;> rfl

/-- members of a generated grid of well-formed rows are points of the space -/
theorem gn_mem_supp {n : Nat} {rows : List GRow} (hw : GWf n rows) {x : Pt} (hx : gn_Mem rows x) : Supp n x := by
  obtain ⟨r, hr, _, d⟩ := hx
  have key : Supp n (x - gn_vecOf r) := by
    refine gn_dir_le (S := fun v => Supp n v) ?_ ?_ ?_ ?_ ?_ ?_ d
    · intro i _; rfl
    · intro v w h1 h2 i hi; simp [h1 i hi, h2 i hi]
    · intro k v h1 i hi; simp [h1 i hi]
    · intro r1 h1 _ r2 h2 _ i hi
      simp [gn_vecOf_supp (hw r1 h1) i hi, gn_vecOf_supp (hw r2 h2) i hi]
    · intro r1 h1 _; exact gn_vecOf_supp (hw r1 h1)
    · intro r1 h1 _ c i hi; simp [gn_vecOf_supp (hw r1 h1) i hi]
  intro i hi
  have := key i hi
  have h2 := gn_vecOf_supp (hw r hr) i hi
  simp only [Pi.sub_apply, h2, sub_zero] at this
  exact this

/-! ### `Hom` of an appended system (item `gn_hom_append`) -/

theorem gn_hom_append (n : Nat) (rows rows' : List GRow) (v : Pt) :
    Hom n (rows ++ rows') v ↔ ∃ u w, Hom n rows u ∧ Hom n rows' w ∧ v = u + w := by
  constructor
  · intro h
    unfold Hom GDir at h
    induction h with
    | zero => exact ⟨0, 0, hom_zero _ _, hom_zero _ _, by simp⟩
    | @param y q k hq _ ih =>
      obtain ⟨u, w, hu, hw, rfl⟩ := ih
      simp only [pcVecs, List.filter_append, List.map_append, List.mem_append] at hq
      rcases hq with hq | hq
      · exact ⟨u + (k : ℚ) • q, w, Abs.Dir.param k hq hu, hw, by module⟩
      · exact ⟨u, w + (k : ℚ) • q, hu, Abs.Dir.param k hq hw, by module⟩
    | @line y l c hl _ ih =>
      obtain ⟨u, w, hu, hw, rfl⟩ := ih
      simp only [lineVecs, List.filter_append, List.map_append, List.mem_append] at hl
      rcases hl with hl | hl
      · exact ⟨u + c • l, w, Abs.Dir.line c hl hu, hw, by module⟩
      · exact ⟨u, w + c • l, hu, Abs.Dir.line c hl hw, by module⟩
  · rintro ⟨u, w, hu, hw, rfl⟩
    refine hom_add ?_ ?_
    · refine hom_le_idx1 (fun i hi => ?_) hu
      have hm : rowAt rows i ∈ rows ++ rows' := List.mem_append_left _ (rowAt_mem rows i hi)
      exact ⟨fun hl => hom_of_mem_pc hm hl, fun hl c => hom_of_mem_line hm hl c⟩
    · refine hom_le_idx1 (fun i hi => ?_) hw
      have hm : rowAt rows' i ∈ rows ++ rows' := List.mem_append_right _ (rowAt_mem rows' i hi)
      exact ⟨fun hl => hom_of_mem_pc hm hl, fun hl c => hom_of_mem_line hm hl c⟩

end PPLV.Lattice.GO
