import PPLV.Lattice.ProofsGridOpsGen8

/-!
# Generator side of the `Grid` object, part 9 — `operator=` on a non-empty argument, the join of two generated grids
-/
namespace PPLV.Lattice.GO
open PPLV.Lattice PPLV.Lattice.Red

/-! ### a state that copies the up-to-date parts of another -/

theorem gn_sem_pos {g : Grid} (he : g.st.empty = false) (hne : g.spaceDim ≠ 0) :
    g.sem = if g.st.gUp = true then gensSet g.spaceDim g.gen else consSet g.spaceDim g.con := by
  unfold Grid.sem
  rw [he, if_neg (by simp), if_neg hne]

theorem gn_sem_zeroDimUniv (g : Grid) : (setZeroDimUniv g).sem = {y | Supp 0 y} := by
  unfold Grid.sem
  rw [if_neg (by simp [setZeroDimUniv, Status.zeroDimUniv]), if_pos (show (setZeroDimUniv g).spaceDim = 0 from rfl)]

theorem gn_sem_dim0 {g : Grid} (he : g.st.empty = false) (h0 : g.spaceDim = 0) : g.sem = {y | Supp 0 y} := by
  unfold Grid.sem
  rw [he, if_neg (by simp), if_pos h0]

theorem gn_inv_transfer {z y : Grid} (h1 : z.spaceDim = y.spaceDim) (h2 : z.st = y.st) (h3 : z.dk = y.dk)
    (h4 : y.st.cUp = true → z.conDim = y.conDim ∧ z.con = y.con)
    (h5 : y.st.gUp = true → z.genDim = y.genDim ∧ z.gen = y.gen)
    (hpos : 0 < y.spaceDim) (hI : GridInv y) (he : y.st.empty = false) : GridInv z ∧ z.sem = y.sem := by
  have hne : y.spaceDim ≠ 0 := by omega
  refine ⟨⟨?_, ?_, ?_, ?_, ?_, ?_, ?_, ?_, ?_, ?_, ?_, ?_, ?_⟩, ?_⟩
  · intro h; rw [h2, he] at h; cases h
  · intro _ h; rw [h1] at h; exact absurd h hne
  · intro _; rw [h2]; exact hI.hi0 he
  · intro _ _; rw [h2]; exact hI.some he hpos
  · intro h; rw [h2] at h ⊢; exact hI.cminUp h
  · intro h; rw [h2] at h ⊢; exact hI.gminUp h
  · intro _ _ hc; rw [h2] at hc; rw [(h4 hc).1, (h4 hc).2, h1]; exact hI.cwf he hpos hc
  · intro _ _ hg; rw [h2] at hg; rw [(h5 hg).1, (h5 hg).2, h1]; exact hI.gwf he hpos hg
  · intro _ _ hc hg; rw [h2] at hc hg; rw [(h4 hc).2, (h5 hg).2, h1]; exact hI.agree he hpos hc hg
  · intro _ _ hm; rw [h2] at hm; rw [h3, h1, (h4 (hI.cminUp hm)).2]; exact hI.cmin he hpos hm
  · intro _ _ hm hg; rw [h2] at hm hg; rw [h3, h1, (h4 (hI.cminUp hm)).2]; exact hI.cminConv he hpos hm hg
  · intro _ _ hm; rw [h2] at hm; rw [h3, h1, (h5 (hI.gminUp hm)).2]; exact hI.gmin he hpos hm
  · intro _ _ hm hc; rw [h2] at hm hc; rw [h3, h1, (h5 (hI.gminUp hm)).2]; exact hI.gminConv he hpos hm hc
  · rw [gn_sem_pos (g := z) (by rw [h2]; exact he) (by rw [h1]; exact hne), gn_sem_pos he hne, h2, h1]
    cases hg : y.st.gUp with
    | true => rw [if_pos rfl, if_pos rfl, (h5 hg).2]
    | false =>
      rw [if_neg (by simp), if_neg (by simp)]
      rcases hI.some he hpos with hc | hc
      · rw [(h4 hc).2]
      · rw [hg] at hc; cases hc

/-- Grid_public.cc:255 `operator=` with an argument that is not marked empty -/
theorem gn_assign (x y : Grid) (hI : GridInv y) (he : y.st.empty = false) :
    GridInv (assign x y) ∧ (assign x y).sem = y.sem ∧ (assign x y).spaceDim = y.spaceDim := by
  have hme : y.markedEmpty = false := he
  by_cases h0 : y.spaceDim = 0
  · have e : assign x y = setZeroDimUniv { x with spaceDim := y.spaceDim, dk := y.dk } := by
      unfold assign; simp only [hme, h0, Bool.false_eq_true, if_false, if_true]
    rw [e]
    exact ⟨gn_inv_zeroDimUniv _, by rw [gn_sem_zeroDimUniv, gn_sem_dim0 he h0], h0.symm⟩
  · have hpos : 0 < y.spaceDim := by omega
    have f1 : (assign x y).spaceDim = y.spaceDim := by
      unfold assign; simp only [hme, h0, Bool.false_eq_true, if_false]
      cases y.congruencesAreUpToDate <;> cases y.generatorsAreUpToDate <;> rfl
    have f2 : (assign x y).st = y.st := by
      unfold assign; simp only [hme, h0, Bool.false_eq_true, if_false]
      cases y.congruencesAreUpToDate <;> cases y.generatorsAreUpToDate <;> rfl
    have f3 : (assign x y).dk = y.dk := by
      unfold assign; simp only [hme, h0, Bool.false_eq_true, if_false]
      cases y.congruencesAreUpToDate <;> cases y.generatorsAreUpToDate <;> rfl
    have f4 : y.st.cUp = true → (assign x y).conDim = y.conDim ∧ (assign x y).con = y.con := by
      intro hc
      have hc' : y.congruencesAreUpToDate = true := hc
      unfold assign; simp only [hme, h0, hc', Bool.false_eq_true, if_false, if_true]
      cases y.generatorsAreUpToDate <;> exact ⟨rfl, rfl⟩
    have f5 : y.st.gUp = true → (assign x y).genDim = y.genDim ∧ (assign x y).gen = y.gen := by
      intro hg
      have hg' : y.generatorsAreUpToDate = true := hg
      unfold assign; simp only [hme, h0, hg', Bool.false_eq_true, if_false, if_true]
      exact ⟨trivial, trivial⟩
    obtain ⟨a, b⟩ := gn_inv_transfer f1 f2 f3 f4 f5 hpos hI he
    exact ⟨a, b, f1⟩

/-! ### the join of two generated grids -/

/-- `S` is the least closed set (`gn_Closed`: closed under `a + k (b - c)`, as every grid is) containing `X` and `Y` -/
def gn_IsJoin (S X Y : Set Pt) : Prop :=
  X ⊆ S ∧ Y ⊆ S ∧ ∀ K : Set Pt, gn_Closed K → X ⊆ K → Y ⊆ K → S ⊆ K

/-- in terms of K2's generator form -/
theorem gn_IsJoin.least {S X Y : Set Pt} (h : gn_IsJoin S X Y) (K : GridGens) (hX : X ⊆ {p | Gen.sem K p})
    (hY : Y ⊆ {p | Gen.sem K p}) : S ⊆ {p | Gen.sem K p} := h.2.2 _ (gn_closed_sem K) hX hY

/-- a closed set containing a generated grid absorbs its parameters and lines -/
theorem gn_absorb {rows : List GRow} {K : Set Pt} (hK : gn_Closed K) (hsub : gn_set rows ⊆ K)
    (hpt : ∃ r ∈ rows, gn_isPt r = true) :
    (∀ r ∈ rows, gn_isPar r = true → ∀ a ∈ K, ∀ k : Int, a + (k : ℚ) • gn_vecOf r ∈ K) ∧
    (∀ r ∈ rows, r.line = true → ∀ a ∈ K, ∀ c : ℚ, a + c • gn_vecOf r ∈ K) := by
  obtain ⟨a0, ha0⟩ := gn_mem_nonempty hpt
  constructor
  · intro r hr p a ha k
    have := hK a ha _ (hsub (gn_mem_par_step hr p ha0 1)) _ (hsub ha0) k
    have e : a + (k : ℚ) • (a0 + ((1 : Int) : ℚ) • gn_vecOf r - a0) = a + (k : ℚ) • gn_vecOf r := by
      push_cast; module
    rwa [e] at this
  · intro r hr p a ha c
    have := hK a ha _ (hsub (gn_mem_line_step hr p ha0 c)) _ (hsub ha0) 1
    have e : a + ((1 : Int) : ℚ) • (a0 + c • gn_vecOf r - a0) = a + c • gn_vecOf r := by
      push_cast; module
    rwa [e] at this

/-- **the rows of two systems together generate the join of the two grids** -/
theorem gn_set_append_join {X Y : List GRow} (hX : ∃ r ∈ X, gn_isPt r = true) (hY : ∃ r ∈ Y, gn_isPt r = true) :
    gn_IsJoin (gn_set (X ++ Y)) (gn_set X) (gn_set Y) := by
  refine ⟨fun _ h => gn_mem_append_left h, fun _ h => gn_mem_append_right h, ?_⟩
  intro K hK h1 h2
  obtain ⟨px, lx⟩ := gn_absorb hK h1 hX
  obtain ⟨py, ly⟩ := gn_absorb hK h2 hY
  refine gn_mem_least hK ?_ ?_ ?_
  · intro r hr p
    rcases List.mem_append.mp hr with hr | hr
    · exact h1 (gn_mem_pt hr p)
    · exact h2 (gn_mem_pt hr p)
  · intro r hr p
    rcases List.mem_append.mp hr with hr | hr
    · exact px r hr p
    · exact py r hr p
  · intro r hr p
    rcases List.mem_append.mp hr with hr | hr
    · exact lx r hr p
    · exact ly r hr p

theorem gn_isJoin_empty_right (X : Set Pt) : gn_IsJoin X X ∅ :=
  ⟨fun _ h => h, fun _ h => absurd h (Set.notMem_empty _), fun _ _ h _ => h⟩
theorem gn_isJoin_empty_left (Y : Set Pt) : gn_IsJoin Y ∅ Y :=
  ⟨fun _ h => absurd h (Set.notMem_empty _), fun _ h => h, fun _ _ _ h => h⟩
theorem gn_isJoin_self (X : Set Pt) : gn_IsJoin X X X := ⟨fun _ h => h, fun _ h => h, fun _ _ h _ => h⟩

end PPLV.Lattice.GO
