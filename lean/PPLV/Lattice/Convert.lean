import PPLV.Lattice.Reduce
/-!
# `Grid::conversion` (both directions), `lower/upper_triangular`, `multiply_grid`,
# `Grid::normalize_divisors` — code-shaped model of /repo/src/Grid_conversion.cc (no Mathlib)

Same row representation as `PPLV/Lattice/Reduce.lean`.  `dim_kinds` is read with the generator
names when the source is a generator system and with the congruence names when the source is a
congruence system (the enumerators coincide: a parameter row ↔ a proper congruence, a line ↔ a
virtual congruence row, a virtual generator row ↔ an equality).
-/
namespace PPLV.Lattice.Red

/-- the dimensions `dims-1, …, 0` (`for (dim = dims; dim-- > 0; )`) -/
def dimsDown (dims : Nat) : List Nat := (List.range dims).reverse

/-! ### triangular forms (Grid_conversion.cc:37, :75) -/

/-- Grid_conversion.cc:37 `lower_triangular(sys, dim_kinds)`; `n` = space dimension -/
def lowerTriangular (n : Nat) (sys : List CRow) (dk : List Nat) : Bool :=
  let numColumns := n + 1
  if sys.length > numColumns then false
  else
    -- state: `(row, ok)`
    let r := (dimsDown numColumns).foldl (fun (st : Nat × Bool) dim =>
      if !st.2 then st
      else if kind dk dim = CON_VIRTUAL then st
      else
        let cg := rowAt sys st.1
        if get cg.e dim ≤ 0 then (st.1 + 1, false)
        else if !allZeroes cg.e (dim + 1) numColumns then (st.1 + 1, false)
        else (st.1 + 1, true)) (0, true)
    r.2 && r.1 == sys.length

/-- Grid_conversion.cc:75 `upper_triangular(sys, dim_kinds)` -/
def upperTriangular (n : Nat) (sys : List GRow) (dk : List Nat) : Bool :=
  let numColumns := n + 1
  if sys.length > numColumns then false
  else
    -- state: `(row, ok, underflow)`; `row` counts down from `sys.num_rows()`
    let r := (dimsDown numColumns).foldl (fun (st : Nat × Bool) dim =>
      if !st.2 then st
      else if kind dk dim = GEN_VIRTUAL then st
      else if st.1 = 0 then (0, false)          -- `sys[--row]` below row 0 (more non-virtual kinds than rows)
      else
        let gen := rowAt sys (st.1 - 1)
        if get gen.e dim ≤ 0 then (st.1 - 1, false)
        else if !allZeroes gen.e 0 dim then (st.1 - 1, false)
        else (st.1 - 1, true)) (sys.length, true)
    r.2 && r.1 == 0

/-! ### `multiply_grid` (Grid_conversion.cc:107, :132) -/

/-- Grid_conversion.cc:107 `multiply_grid(multiplier, gen, dest_rows, num_rows)` with `gen = dest[gi]` -/
def multiplyGridGen (multiplier : Int) (dest : List GRow) (gi numRows : Nat) : List GRow :=
  if multiplier = 1 then dest
  else
    let gen := rowAt dest gi
    if gen.isLine then dest.set gi { gen with e := mulAll gen.e multiplier }
    else dest.mapIdx fun i g =>
      if i < numRows ∧ g.isParameterOrPoint then { g with e := mulAll g.e multiplier } else g

/-- Grid_conversion.cc:132 `multiply_grid(multiplier, cg, dest, num_rows)` with `cg = dest[ci]` -/
def multiplyGridCg (multiplier : Int) (dest : List CRow) (ci numRows : Nat) : List CRow :=
  if multiplier = 1 then dest
  else
    let cg := rowAt dest ci
    if cg.isProperCongruence then dest.mapIdx fun i c =>
      if i < numRows ∧ c.isProperCongruence then c.scale multiplier else c
    else dest.set ci (cg.scale multiplier)

/-! ### generators → congruences (Grid_conversion.cc:160) -/

/-- first loop (Grid_conversion.cc:178-195): `(source_index, dest_num_rows, diagonal_lcm)` -/
def gcCount (source : List GRow) (dk : List Nat) (dims : Nat) : Nat × Nat × Int :=
  (dimsDown dims).foldl (fun (st : Nat × Nat × Int) dim =>
    if kind dk dim = GEN_VIRTUAL then (st.1, st.2.1 + 1, st.2.2)
    else
      let si := st.1 - 1
      if kind dk dim = PARAMETER then (si, st.2.1 + 1, lcmI st.2.2 (get (rowAt source si).e dim))
      else (si, st.2.1, st.2.2)) (source.length, 0, 1)

/-- second loop (Grid_conversion.cc:207-232): the initial `dest` rows; state `(source_index, dest)` -/
def gcInit (source : List GRow) (dk : List Nat) (dims : Nat) (diagonalLcm : Int) : List CRow :=
  ((dimsDown dims).foldl (fun (st : Nat × List CRow) dim =>
    if kind dk dim = LINE then (st.1 - 1, st.2)
    else
      let le : Row := List.replicate dims 0
      if kind dk dim = GEN_VIRTUAL then (st.1, st.2 ++ [{ e := le.set dim 1, m := 0 }])
      else
        let si := st.1 - 1
        (si, st.2 ++ [{ e := le.set dim (diagonalLcm / get (rowAt source si).e dim), m := 1 }]))
    (source.length, [])).2

/-- Grid_conversion.cc:255-266: one row of the loop dividing column `dim` by `source_dim` -/
def gcDivideRow (sourceDim : Int) (dim destNumRows : Nat) (dest : List CRow) (row : Nat) : List CRow :=
  let cg := rowAt dest row
  let multiplier := sourceDim / gcdI (get cg.e dim) sourceDim
  let dest1 := multiplyGridCg multiplier dest row destNumRows
  let cg1 := rowAt dest1 row
  dest1.set row { cg1 with e := exactDivAssign cg1.e sourceDim dim (dim + 1) }

/-- Grid_conversion.cc:293-299: `cg[dim_prec] -= source_dim * cg[dim]` for one row -/
def gcSubRow (sourceDim : Int) (dim dimPrec : Nat) (dest : List CRow) (row : Nat) : List CRow :=
  let cg := rowAt dest row
  dest.set row { cg with e := cg.e.set dimPrec (get cg.e dimPrec - sourceDim * get cg.e dim) }

structure GCSt where
  dest : List CRow
  sourceIndex : Nat
  destIndex : Nat
deriving Repr, Inhabited

/-- the body of the conversion loop for one `dim` (Grid_conversion.cc:248-302) -/
def gcDim (source : List GRow) (dk : List Nat) (destNumRows : Nat) (st : GCSt) (dim : Nat) : GCSt :=
  let r : List CRow × Nat :=
    if kind dk dim ≠ GEN_VIRTUAL then
      let si := st.sourceIndex - 1
      let sourceDim := get (rowAt source si).e dim
      ((dimsDown st.destIndex).foldl (gcDivideRow sourceDim dim destNumRows) st.dest, si)
    else (st.dest, st.sourceIndex)
  let destIndex := if kind dk dim ≠ LINE then st.destIndex + 1 else st.destIndex
  -- `for (dim_prec = dim; dim_prec-- > 0; )`, state `(tmp_source_index, dest)`
  let r2 := (dimsDown dim).foldl (fun (s : Nat × List CRow) dimPrec =>
    if kind dk dimPrec ≠ GEN_VIRTUAL then
      let tsi := s.1 - 1
      let sourceDim := get (rowAt source tsi).e dim
      (tsi, (dimsDown destIndex).foldl (gcSubRow sourceDim dim dimPrec) s.2)
    else s) (r.2, r.1)
  { dest := r2.2, sourceIndex := r.2, destIndex := destIndex }

/-- Grid_conversion.cc:304-311: the modulus of every proper congruence is the inhomogeneous term of the last row -/
def gcSetModulus (dest : List CRow) (destNumRows : Nat) : List CRow :=
  let modulus := get (rowAt dest (destNumRows - 1)).e 0
  dest.map fun cg => if cg.isProperCongruence then { cg with m := modulus } else cg

/-- Grid_conversion.cc:318-324: `reduce_reduced` for every non-virtual dimension; state `(i, dest)` -/
def gcReduce (dk : List Nat) (dims : Nat) (dest : List CRow) : List CRow :=
  ((dimsDown dims).foldl (fun (st : Nat × List CRow) dim =>
    if kind dk dim ≠ CON_VIRTUAL then (st.1 + 1, reduceReduced st.2 dim st.1 0 dim dk false) else st) (0, dest)).2

/-- Grid_conversion.cc:160 `conversion(Grid_Generator_System& source, Congruence_System& dest, dim_kinds)`;
    `n` = `source.space_dimension()` -/
def conversionGensToCgs (n : Nat) (source : List GRow) (dk : List Nat) : List CRow :=
  let dims := n + 1
  let cnt := gcCount source dk dims
  let destNumRows := cnt.2.1
  let dest0 := gcInit source dk dims cnt.2.2
  let st := (dimsDown dims).foldl (gcDim source dk destNumRows) { dest := dest0, sourceIndex := source.length, destIndex := 0 }
  gcReduce dk dims (gcSetModulus st.dest destNumRows)

/-! ### congruences → generators (Grid_conversion.cc:337) -/

/-- first loop (Grid_conversion.cc:351-369): `(source_num_rows, dest_num_rows, diagonal_lcm)` -/
def cgCount (source : List CRow) (dk : List Nat) (dims : Nat) : Nat × Nat × Int :=
  (dimsDown dims).foldl (fun (st : Nat × Nat × Int) dim =>
    if kind dk dim = CON_VIRTUAL then (st.1, st.2.1 + 1, st.2.2)
    else if kind dk dim = PROPER_CONGRUENCE then
      (st.1 + 1, st.2.1 + 1, lcmI st.2.2 (get (rowAt source st.1).e dim))
    else (st.1 + 1, st.2.1, st.2.2)) (0, 0, 1)

/-- second loop (Grid_conversion.cc:385-413): the initial `dest` rows; state `(source_index, dest)` -/
def cgInit (source : List CRow) (dk : List Nat) (dims : Nat) (sourceNumRows : Nat) (diagonalLcm : Int) : List GRow :=
  ((List.range dims).foldl (fun (st : Nat × List GRow) dim =>
    if kind dk dim = EQUALITY then (st.1 - 1, st.2)
    else
      let z : Row := List.replicate (dims + 1) 0
      if kind dk dim = CON_VIRTUAL then (st.1, st.2 ++ [{ line := true, e := (z.set 0 0).set dim 1 }])
      else
        let si := st.1 - 1
        (si, st.2 ++ [{ line := false, e := (z.set 0 0).set dim (diagonalLcm / get (rowAt source si).e dim) }]))
    (sourceNumRows, [])).2

/-- Grid_conversion.cc:439-452: one row of the loop dividing column `dim` by `source_dim` -/
def cgDivideRow (sourceDim : Int) (dim destNumRows : Nat) (dest : List GRow) (i : Nat) : List GRow :=
  let g := rowAt dest i
  let reducedSourceDim := sourceDim / gcdI (get g.e dim) sourceDim
  let dest1 := multiplyGridGen reducedSourceDim dest i destNumRows
  let g1 := rowAt dest1 i
  dest1.set i { g1 with e := exactDivAssign g1.e sourceDim dim (dim + 1) }

/-- Grid_conversion.cc:480-489: `row[dim_fol] -= source_dim * row[dim]` for one row -/
def cgSubRow (sourceDim : Int) (dim dimFol : Nat) (dest : List GRow) (i : Nat) : List GRow :=
  let row := rowAt dest i
  dest.set i { row with e := row.e.set dimFol (get row.e dimFol - sourceDim * get row.e dim) }

structure CGSt where
  dest : List GRow
  sourceIndex : Nat
  destIndex : Nat
deriving Repr, Inhabited

/-- the body of the conversion loop for one `dim` (Grid_conversion.cc:430-492) -/
def cgDim (source : List CRow) (dk : List Nat) (dims destNumRows : Nat) (st : CGSt) (dim : Nat) : CGSt :=
  let r : List GRow × Nat :=
    if kind dk dim ≠ CON_VIRTUAL then
      let si := st.sourceIndex - 1
      let sourceDim := get (rowAt source si).e dim
      ((dimsDown st.destIndex).foldl (cgDivideRow sourceDim dim destNumRows) st.dest, si)
    else (st.dest, st.sourceIndex)
  let destIndex := if kind dk dim ≠ EQUALITY then st.destIndex + 1 else st.destIndex
  -- `for (dim_fol = dim + 1; dim_fol < dims; ++dim_fol)`, state `(tmp_source_index, dest)`
  let r2 := (List.range' (dim + 1) (dims - (dim + 1))).foldl (fun (s : Nat × List GRow) dimFol =>
    if kind dk dimFol ≠ CON_VIRTUAL then
      let tsi := s.1 - 1
      let sourceDim := get (rowAt source tsi).e dim
      (tsi, (dimsDown destIndex).foldl (cgSubRow sourceDim dim dimFol) s.2)
    else s) (r.2, r.1)
  { dest := r2.2, sourceIndex := r.2, destIndex := destIndex }

/-- Grid_conversion.cc:499-505: `reduce_reduced` for every non-virtual dimension; state `(i, dest)` -/
def cgReduce (dk : List Nat) (dims : Nat) (dest : List GRow) : List GRow :=
  ((List.range dims).foldl (fun (st : Nat × List GRow) dim =>
    if kind dk dim ≠ GEN_VIRTUAL then (st.1 + 1, reduceReduced st.2 dim st.1 dim (dims - 1) dk) else st) (0, dest)).2

/-- Grid_conversion.cc:337 `conversion(Congruence_System& source, Grid_Generator_System& dest, dim_kinds)`;
    `n` = `source.space_dimension()` -/
def conversionCgsToGens (n : Nat) (source : List CRow) (dk : List Nat) : List GRow :=
  let dims := n + 1
  let cnt := cgCount source dk dims
  let sourceNumRows := cnt.1
  let destNumRows := cnt.2.1
  let dest0 := cgInit source dk dims sourceNumRows cnt.2.2
  let st := (List.range dims).foldl (cgDim source dk dims destNumRows) { dest := dest0, sourceIndex := sourceNumRows, destIndex := 0 }
  let dest1 := cgReduce dk dims st.dest
  let systemDivisor := get (rowAt dest1 0).e 0
  setDivisors dk systemDivisor (dims - 1) (dest1.length - 1) dest1

/-! ### `Grid::normalize_divisors(sys, divisor, first_point)` (Grid_nonpublic.cc:645) -/

/-- `Grid_Generator::divisor()` of a parameter or point (Grid_Generator_inlines.hh:241) -/
def GRow.divisor (r : GRow) : Int := if r.isLineOrParameter then get r.e (r.e.length - 1) else get r.e 0

/-- `Grid_Generator::scale_to_divisor(d)` (Grid_Generator.cc:304) -/
def GRow.scaleToDivisor (r : GRow) (d : Int) : GRow :=
  if r.isLine then r
  else
    let factor := d / r.divisor
    let r1 := r.setDivisor d
    if factor > 1 then { r1 with e := mulAssign r1.e factor 1 (r1.e.length - 1) } else r1

/-- Grid_nonpublic.cc:645 with `first_point = nullptr`; `n` = space dimension; returns the system and the new `divisor` -/
def normalizeDivisors (n : Nat) (sys : List GRow) (divisor : Int) : List GRow × Int :=
  if n > 0 ∧ divisor > 0 then
    if sys.all (·.isLine) then (sys, divisor)
    else
      -- from the first parameter or point on: lcm with every parameter-or-point divisor
      let d := (sys.dropWhile (·.isLine)).foldl (fun d g => if g.isParameterOrPoint then lcmI d g.divisor else d) divisor
      (sys.map (·.scaleToDivisor d), d)
  else (sys, divisor)

end PPLV.Lattice.Red
