import PPLV.Lattice.ProofsConvCGComplete
import PPLV.Lattice.ProofsConvCGTri
import PPLV.Lattice.ProofsRedCgTri

/-!
# The conversion congruences → generators on the output of `Grid::simplify(Congruence_System&)`

`Final n source dk` (`ProofsRedCgTail.lean`) — what `simplifyCgs` guarantees (`simplifyCgs_triangular`) — implies
all the hypotheses of `conversionCgsToGens_sound`.
-/
namespace PPLV.Lattice.Red
open PPLV.Lattice

theorem cgHyps_of_final (n : Nat) (source : List CRow) (dk : List Nat) (h : Final n source dk) :
    lowerTriangular n source dk = true ∧ dk.length = n + 1 ∧ kind dk 0 = PROPER_CONGRUENCE ∧ CgKindsOK n source dk := by
  obtain ⟨p, mm, hinv, hmm, hlast, h0⟩ := h
  have hlt := lowerTriangular_of_inv hinv
  have hs := lowerTriangular_spec n source dk hlt
  obtain ⟨M, hM, hsame⟩ := hinv.mod
  -- the row of dimension `d` is the pivot row of `d`
  have hrow : ∀ d, d < n + 1 → nlB dk d = true →
      KindOK (rowAt source (pos dk (n + 1) d)) (kind dk d) := by
    intro d hd hl
    have hi : pos dk (n + 1) d < source.length := by rw [hs.len]; exact pos_lt dk (n + 1) d hd hl
    have hpiv := hinv.piv _ hi
    have hrng := (hinv.kinv.rng _ hi).2
    have hdiag := hs.diag d hd hl
    have hpd : p (pos dk (n + 1) d) = d := by
      rcases Nat.lt_trichotomy (p (pos dk (n + 1) d)) d with h1 | h1 | h1
      · have := hpiv.zero d h1
        simp only [cEnt] at hdiag; omega
      · exact h1
      · have := hs.zeros d hd hl _ h1 hrng
        have h2 := hpiv.pos
        simp only [cEnt] at this; omega
    rw [hpd] at hpiv
    exact hpiv.kindok
  have hl0 : nlB dk 0 = true := by simp [nlB, h0, PROPER_CONGRUENCE, LINE]
  have hpos0 : pos dk (n + 1) 0 = source.length - 1 := by
    have e1 := cntBelow_succ_pos (nlB dk) 0 hl0
    have e2 : cntBelow (nlB dk) 0 = 0 := rfl
    rw [hs.len]
    simp only [pos, nl] at *
    omega
  have hmodM : ∀ d, d < n + 1 → nlB dk d = true → 0 < (rowAt source (pos dk (n + 1) d)).m →
      (rowAt source (pos dk (n + 1) d)).m = M := by
    intro d hd hl hpos
    have hi : pos dk (n + 1) d < source.length := by rw [hs.len]; exact pos_lt dk (n + 1) d hd hl
    rcases hsame _ hi with h | h
    · omega
    · exact h
  refine ⟨hlt, hinv.dklen, h0, M, fun d hd => ?_, ?_⟩
  · by_cases hl : nlB dk d = true
    · rcases hrow d hd hl with ⟨h1, h2⟩ | ⟨h1, h2⟩
      · exact Or.inr (Or.inl ⟨h2, h1⟩)
      · exact Or.inr (Or.inr ⟨h2, hmodM d hd hl h1⟩)
    · left
      simpa [nlB, LINE, CON_VIRTUAL] using hl
  · have hm0 : (rowAt source (pos dk (n + 1) 0)).m = M := by
      rcases hrow 0 (by omega) hl0 with ⟨_, h2⟩ | ⟨h1, _⟩
      · rw [h0] at h2; exact absurd h2 (by decide)
      · exact hmodM 0 (by omega) hl0 h1
    rw [hpos0, hlast] at hm0
    rw [hlast]
    simp only [integralityRow] at hm0 ⊢
    rw [← hm0]; rfl

/-- **Soundness of the conversion on a simplified congruence system.** -/
theorem conversionCgsToGens_sound_of_final (n : Nat) (source : List CRow) (dk : List Nat) (hc : CWf n source)
    (h : Final n source dk) :
    let dest := conversionCgsToGens n source dk
    cgCertB n source dest = true ∧ GWf n dest ∧
      ∀ x, Hom n dest (homog ((get (rowAt dest 0).e 0 : Int) : ℚ) x) → cgsSem n source x := by
  obtain ⟨h1, h2, h3, h4⟩ := cgHyps_of_final n source dk h
  exact ⟨conversionCgsToGens_cert n source dk hc h1 h2 h3 h4, conversionCgsToGens_sound n source dk hc h1 h2 h3 h4⟩

theorem cwf_of_final (n : Nat) (source : List CRow) (dk : List Nat) (h : Final n source dk) : CWf n source := by
  obtain ⟨p, mm, hinv, _⟩ := h
  intro r hr
  obtain ⟨i, hi, rfl⟩ := (gc_mem_iff_rowAt _ _).mp hr
  exact hinv.wf i hi

/-- **The conversion of a simplified congruence system is exact.** -/
theorem conversionCgsToGens_correct_of_final (n : Nat) (source : List CRow) (dk : List Nat) (h : Final n source dk) :
    let dest := conversionCgsToGens n source dk
    GWf n dest ∧ upperTriangular n dest dk = true ∧
      ∀ x, Hom n dest (homog ((get (rowAt dest 0).e 0 : Int) : ℚ) x) ↔ cgsSem n source x := by
  obtain ⟨h1, h2, h3, h4⟩ := cgHyps_of_final n source dk h
  have hc := cwf_of_final n source dk h
  obtain ⟨a, b⟩ := conversionCgsToGens_correct n source dk hc h1 h2 h3 h4
  exact ⟨a, conversionCgsToGens_triangular n source dk h1 h3 h4.kinds, b⟩

/-- **`Grid::simplify` followed by `Grid::conversion`** (what `Grid::update_generators` does with a congruence system):
    when `simplify` does not report emptiness, the generator system produced denotes the solution set of the
    original congruence system. -/
theorem simplify_conversionCgsToGens_correct (n : Nat) (rows : List CRow) (dk : List Nat) (hwf : CWf n rows) :
    let r := simplifyCgs n rows dk
    r.2.2 = false →
      let dest := conversionCgsToGens n r.1 r.2.1
      GWf n dest ∧ upperTriangular n dest r.2.1 = true ∧
        ∀ x, Hom n dest (homog ((get (rowAt dest 0).e 0 : Int) : ℚ) x) ↔ cgsSem n rows x := by
  intro r hf dest
  have hfin := simplifyCgs_triangular n rows dk hwf hf
  obtain ⟨a, b, c⟩ := conversionCgsToGens_correct_of_final n r.1 r.2.1 hfin
  exact ⟨a, b, fun x => (c x).trans ((simplifyCgs_preserves n rows dk hwf).1 hf x)⟩

/-- the hypothesis is satisfiable: the simplified form of `x ≡ 1 (mod 2)`, `x + y = 0`, `y ≡ 0 (mod 3)` (`exRows`,
    `ProofsRedCgLoop.lean`) is `Final`; the conversion of it passes the certificate -/
example :
    let r := simplifyCgs 2 exRows []
    Final 2 r.1 r.2.1 ∧ cgCertB 2 r.1 (conversionCgsToGens 2 r.1 r.2.1) = true :=
  ⟨simplifyCgs_triangular 2 exRows [] (by
      intro r hr
      simp only [exRows, List.mem_cons, List.not_mem_nil, or_false] at hr
      rcases hr with rfl | rfl | rfl <;> exact ⟨rfl, by decide⟩) (by decide +kernel),
    by decide +kernel⟩

end PPLV.Lattice.Red
