import PPLV.Lattice.ProofsConvCGMain
import PPLV.Lattice.ProofsRedCgTri

/-!
# The conversion congruences → generators on the output of `Grid::simplify(Congruence_System&)`

`Final n source dk` (`ProofsRedCgTail.lean`) — what `simplifyCgs` guarantees (`simplifyCgs_triangular`) — implies
all the hypotheses of `conversionCgsToGens_sound`.
-/
namespace PPLV.Lattice.Red
open PPLV.Lattice

theorem cgHyps_of_final (n : Nat) (source : List CRow) (dk : List Nat) (h : Final n source dk) :
    lowerTriangular n source dk = true ∧ dk.length = n + 1 ∧ kind dk 0 = PROPER_CONGRUENCE ∧ CgKindsOK n source dk := by
  obtain ⟨p, mm, hinv, hmm, hlast, h0⟩ := h
  have hlt := lowerTriangular_of_inv hinv
  have hs := lowerTriangular_spec n source dk hlt
  obtain ⟨M, hM, hsame⟩ := hinv.mod
  -- the row of dimension `d` is the pivot row of `d`
  have hrow : ∀ d, d < n + 1 → nlB dk d = true →
      KindOK (rowAt source (pos dk (n + 1) d)) (kind dk d) := by
    intro d hd hl
    have hi : pos dk (n + 1) d < source.length := by rw [hs.len]; exact pos_lt dk (n + 1) d hd hl
    have hpiv := hinv.piv _ hi
    have hrng := (hinv.kinv.rng _ hi).2
    have hdiag := hs.diag d hd hl
    have hpd : p (pos dk (n + 1) d) = d := by
      rcases Nat.lt_trichotomy (p (pos dk (n + 1) d)) d with h1 | h1 | h1
      · have := hpiv.zero d h1
        simp only [cEnt] at hdiag; omega
      · exact h1
      · have := hs.zeros d hd hl _ h1 hrng
        have h2 := hpiv.pos
        simp only [cEnt] at this; omega
    rw [hpd] at hpiv
    exact hpiv.kindok
  have hl0 : nlB dk 0 = true := by simp [nlB, h0, PROPER_CONGRUENCE, LINE]
  have hpos0 : pos dk (n + 1) 0 = source.length - 1 := by
    have e1 := cntBelow_succ_pos (nlB dk) 0 hl0
    have e2 : cntBelow (nlB dk) 0 = 0 := rfl
    rw [hs.len]
    simp only [pos, nl] at *
    omega
  have hmodM : ∀ d, d < n + 1 → nlB dk d = true → 0 < (rowAt source (pos dk (n + 1) d)).m →
      (rowAt source (pos dk (n + 1) d)).m = M := by
    intro d hd hl hpos
    have hi : pos dk (n + 1) d < source.length := by rw [hs.len]; exact pos_lt dk (n + 1) d hd hl
    rcases hsame _ hi with h | h
    · omega
    · exact h
  refine ⟨hlt, hinv.dklen, h0, M, fun d hd => ?_, ?_⟩
  · by_cases hl : nlB dk d = true
    · rcases hrow d hd hl with ⟨h1, h2⟩ | ⟨h1, h2⟩
      · exact Or.inr (Or.inl ⟨h2, h1⟩)
      · exact Or.inr (Or.inr ⟨h2, hmodM d hd hl h1⟩)
    · left
      simpa [nlB, LINE, CON_VIRTUAL] using hl
  · have hm0 : (rowAt source (pos dk (n + 1) 0)).m = M := by
      rcases hrow 0 (by omega) hl0 with ⟨_, h2⟩ | ⟨h1, _⟩
      · rw [h0] at h2; exact absurd h2 (by decide)
      · exact hmodM 0 (by omega) hl0 h1
    rw [hpos0, hlast] at hm0
    rw [hlast]
    simp only [integralityRow] at hm0 ⊢
    rw [← hm0]; rfl

/-- **Soundness of the conversion on a simplified congruence system.** -/
theorem conversionCgsToGens_sound_of_final (n : Nat) (source : List CRow) (dk : List Nat) (hc : CWf n source)
    (h : Final n source dk) :
    let dest := conversionCgsToGens n source dk
    cgCertB n source dest = true ∧ GWf n dest ∧
      ∀ x, Hom n dest (homog ((get (rowAt dest 0).e 0 : Int) : ℚ) x) → cgsSem n source x := by
  obtain ⟨h1, h2, h3, h4⟩ := cgHyps_of_final n source dk h
  exact ⟨conversionCgsToGens_cert n source dk hc h1 h2 h3 h4, conversionCgsToGens_sound n source dk hc h1 h2 h3 h4⟩

end PPLV.Lattice.Red
