import PPLV.Lattice.ProofsGridOpsGen15
import PPLV.Lattice.ProofsGridOpsCon2

/-!
# Generator side of the `Grid` object, part 17 — `Grid_Generator::is_equivalent_to` rows denote the same generator;
# systems that are `operator==` generate the same grid
-/
namespace PPLV.Lattice.GO
open PPLV.Lattice PPLV.Lattice.Red

/-- `normalize()` divides by a non-zero integer -/
theorem gn_normalizeRow_factor (e : Row) : ∃ g : Int, g ≠ 0 ∧ ∀ i, get e i = g * get (normalizeRow e) i := by
  unfold normalizeRow
  by_cases h : rowGcd e = 0 ∨ rowGcd e = 1
  · simp only [h, if_true]; exact ⟨1, one_ne_zero, fun i => by simp⟩
  · simp only [h, if_false]
    rw [not_or] at h
    refine ⟨rowGcd e, h.1, fun i => ?_⟩
    rw [cn_get_map _ _ (by simp)]
    exact (Int.mul_ediv_cancel' (cn_rowGcd_dvd e i)).symm

/-- kinds from the line flag and the inhomogeneous term -/
theorem gn_kind_congr {x y : GRow} (hl : y.line = x.line) (h0 : get y.e 0 = 0 ↔ get x.e 0 = 0) :
    gn_isPt y = gn_isPt x ∧ gn_isPar y = gn_isPar x := by
  by_cases hz : get x.e 0 = 0
  · simp [gn_isPt, gn_isPar, hl, hz, h0.mpr hz]
  · have hz' : get y.e 0 ≠ 0 := fun q => hz (h0.mp q)
    have a1 : (get x.e 0 != 0) = true := bne_iff_ne.mpr hz
    have a2 : (get y.e 0 != 0) = true := bne_iff_ne.mpr hz'
    have a3 : (get x.e 0 == 0) = false := beq_eq_false_iff_ne.mpr hz
    have a4 : (get y.e 0 == 0) = false := beq_eq_false_iff_ne.mpr hz'
    simp only [gn_isPt, gn_isPar, hl, a1, a2, a3, a4, and_self]

/-- two parameters or points that `is_equivalent_to` each other have the same kind and the same rational vector -/
theorem gn_equiv_rows {n : Nat} {x y : GRow} (hx : x.e.length = n + 2) (hy : y.e.length = n + 2) (hlx : x.line = false)
    (h : x.isEquivalentTo y = true) :
    y.line = false ∧ (get y.e 0 = 0 ↔ get x.e 0 = 0) ∧ gn_vecOf y = gn_vecOf x := by
  unfold GRow.isEquivalentTo at h
  simp only [Bool.and_eq_true, beq_iff_eq] at h
  obtain ⟨⟨⟨_, hl⟩, hp⟩, hN⟩ := h
  have hly : y.line = false := by rw [← hl]; exact hlx
  refine ⟨hly, ?_, ?_⟩
  · have e1 : x.isParameter = true ↔ get x.e 0 = 0 := by simp [GRow.isParameter, hlx]
    have e2 : y.isParameter = true ↔ get y.e 0 = 0 := by simp [GRow.isParameter, hly]
    rw [← e1, ← e2, hp]
  · rw [gn_vecOf_nonline hy hly, gn_vecOf_nonline hx hlx]
    funext i
    rw [coords_toFun, coords_toFun]
    by_cases hi : i < n
    · rw [if_pos hi, if_pos hi]
      cases hpx : x.isParameter with
      | true =>
        have hpy : y.isParameter = true := by rw [← hp]; exact hpx
        rw [hpx, hpy] at hN
        simp only [if_true] at hN
        obtain ⟨gx, hgx, fx⟩ := gn_normalizeRow_factor x.e
        obtain ⟨gy, hgy, fy⟩ := gn_normalizeRow_factor y.e
        rw [← hN] at fy
        have hgxq : (gx : ℚ) ≠ 0 := by exact_mod_cast hgx
        have hgyq : (gy : ℚ) ≠ 0 := by exact_mod_cast hgy
        have zx : get x.e 0 = 0 := by simpa [GRow.isParameter, hlx] using hpx
        have zy : get y.e 0 = 0 := by simpa [GRow.isParameter, hly] using hpy
        rw [divisor_param n x hx zx, divisor_param n y hy zy, fx (i + 1), fx (n + 1), fy (i + 1), fy (n + 1)]
        push_cast
        rw [mul_div_mul_left _ _ hgyq, mul_div_mul_left _ _ hgxq]
      | false =>
        have hpy : y.isParameter = false := by rw [← hp]; exact hpx
        rw [hpx, hpy] at hN
        simp only [Bool.false_eq_true, if_false] at hN
        obtain ⟨gx, hgx, fx⟩ := gn_normalizeRow_factor (x.e.set (x.e.length - 1) 0)
        obtain ⟨gy, hgy, fy⟩ := gn_normalizeRow_factor (y.e.set (y.e.length - 1) 0)
        rw [← hN] at fy
        have hgxq : (gx : ℚ) ≠ 0 := by exact_mod_cast hgx
        have hgyq : (gy : ℚ) ≠ 0 := by exact_mod_cast hgy
        have zx : get x.e 0 ≠ 0 := by simpa [GRow.isParameter, hlx] using hpx
        have zy : get y.e 0 ≠ 0 := by simpa [GRow.isParameter, hly] using hpy
        rw [divisor_point x zx, divisor_point y zy]
        have ax : ∀ j, j ≤ n → get x.e j = gx * get (normalizeRow (x.e.set (x.e.length - 1) 0)) j := by
          intro j hj; rw [← fx j, get_set, if_neg (by omega)]
        have ay : ∀ j, j ≤ n → get y.e j = gy * get (normalizeRow (x.e.set (x.e.length - 1) 0)) j := by
          intro j hj; rw [← fy j, get_set, if_neg (by omega)]
        rw [ax (i + 1) (by omega), ax 0 (by omega), ay (i + 1) (by omega), ay 0 (by omega)]
        push_cast
        rw [mul_div_mul_left _ _ hgyq, mul_div_mul_left _ _ hgxq]
    · rw [if_neg hi, if_neg hi]

/-! ### lists compared pairwise -/

theorem gn_zip_mem_left {α β : Type} : ∀ (X : List α) (Y : List β), X.length = Y.length → ∀ a ∈ X,
    ∃ b ∈ Y, (a, b) ∈ X.zip Y
  | [], _, _, _, h => by cases h
  | a :: X, [], hl, _, _ => by simp at hl
  | a :: X, b :: Y, hl, c, hc => by
    rcases List.mem_cons.mp hc with rfl | hc
    · exact ⟨b, by simp, by simp⟩
    · obtain ⟨d, hd, hz⟩ := gn_zip_mem_left X Y (by simpa using hl) c hc
      exact ⟨d, List.mem_cons_of_mem _ hd, by simp [hz]⟩

theorem gn_zip_mem_right {α β : Type} : ∀ (X : List α) (Y : List β), X.length = Y.length → ∀ b ∈ Y,
    ∃ a ∈ X, (a, b) ∈ X.zip Y
  | _, [], _, _, h => by cases h
  | [], b :: Y, hl, _, _ => by simp at hl
  | a :: X, b :: Y, hl, c, hc => by
    rcases List.mem_cons.mp hc with rfl | hc
    · exact ⟨a, by simp, by simp⟩
    · obtain ⟨d, hd, hz⟩ := gn_zip_mem_right X Y (by simpa using hl) c hc
      exact ⟨d, List.mem_cons_of_mem _ hd, by simp [hz]⟩

/-- every row of `X` has a twin (same kind, same vector) in `Y`: the grid of `X` is inside the grid of `Y` -/
theorem gn_set_sub_of_twins {X Y : List GRow}
    (h : ∀ r ∈ X, ∃ r' ∈ Y, r'.line = r.line ∧ gn_isPt r' = gn_isPt r ∧ gn_isPar r' = gn_isPar r ∧
      gn_vecOf r' = gn_vecOf r) : gn_set X ⊆ gn_set Y := by
  refine gn_mem_least (gn_closed_set Y) ?_ ?_ ?_
  · intro r hr p
    obtain ⟨r', hr', _, b, _, d⟩ := h r hr
    rw [← d]; exact gn_mem_pt hr' (by rw [b]; exact p)
  · intro r hr p a ha k
    obtain ⟨r', hr', _, _, c, d⟩ := h r hr
    rw [← d]; exact gn_mem_par_step hr' (by rw [c]; exact p) ha k
  · intro r hr p a ha c
    obtain ⟨r', hr', a', _, _, d⟩ := h r hr
    rw [← d]; exact gn_mem_line_step hr' (by rw [a']; exact p) ha c

/-- **`Grid_Generator_System::operator==` on two normalised systems without lines: the same grid** -/
theorem gn_gsysEq_set {n : Nat} {X Y : List GRow} (hwX : GWf n X) (hwY : GWf n Y) (hnl : ∀ r ∈ X, r.line = false) (h : gsysEq (GSys.mk n X) (GSys.mk n Y) = true) :
    gn_set X = gn_set Y := by
  unfold gsysEq at h
  simp only [Bool.and_eq_true, beq_iff_eq, List.all_eq_true] at h
  obtain ⟨⟨_, hlen⟩, hall⟩ := h
  have key : ∀ x ∈ X, ∀ y ∈ Y, (x, y) ∈ X.zip Y →
      y.line = x.line ∧ gn_isPt y = gn_isPt x ∧ gn_isPar y = gn_isPar x ∧ gn_vecOf y = gn_vecOf x := by
    intro x hx y hy hz
    have hlx := hnl x hx
    have heq := hall (x, y) hz
    obtain ⟨a, b, c⟩ := gn_equiv_rows (hwX x hx) (hwY y hy) hlx heq
    have hk := gn_kind_congr (x := x) (y := y) (by rw [a, hlx]) b
    exact ⟨by rw [a, hlx], hk.1, hk.2, c⟩
  apply Set.Subset.antisymm
  · refine gn_set_sub_of_twins fun x hx => ?_
    obtain ⟨y, hy, hz⟩ := gn_zip_mem_left X Y hlen x hx
    exact ⟨y, hy, key x hx y hy hz⟩
  · refine gn_set_sub_of_twins fun y hy => ?_
    obtain ⟨x, hx, hz⟩ := gn_zip_mem_right X Y hlen y hy
    obtain ⟨a, b, c, d⟩ := key x hx y hy hz
    exact ⟨x, hx, a.symm, b.symm, c.symm, d.symm⟩

/-- the hypotheses are satisfiable: `{1/2 + k}` written with divisors 2 and 4 -/
example : gsysEq (GSys.mk 1 [⟨false, [2, 1, 0]⟩, ⟨false, [0, 2, 2]⟩]) (GSys.mk 1 [⟨false, [4, 2, 0]⟩, ⟨false, [0, 4, 4]⟩]) = true := by
  decide

end PPLV.Lattice.GO
