import PPLV.Lattice.ProofsGridOpsDefs
import PPLV.Lattice.ProofsRedGenBridge
import PPLV.Lattice.ProofsRedCgTail

/-!
# The `Grid` object, lazy machinery — part 1: small facts

Unfolding lemmas for `Grid.sem` per flag case, `firstPointDiv` of a normalised system, `GridInv` of a state of
positive dimension from its field facts, `set_empty`, `set_zero_dim_univ`, the inconsistent system.
-/
namespace PPLV.Lattice.GO
open PPLV.Lattice PPLV.Lattice.Red

/-! ### `Grid.sem` per flag case -/

theorem lz_sem_of_empty {g : Grid} (h : g.st.empty = true) : g.sem = ∅ := by
  unfold Grid.sem; simp [h]

theorem lz_sem_of_zdim {g : Grid} (h : g.st.empty = false) (h0 : g.spaceDim = 0) : g.sem = {x | Supp 0 x} := by
  unfold Grid.sem; simp [h, h0]

theorem lz_sem_of_gUp {g : Grid} (h : g.st.empty = false) (h0 : 0 < g.spaceDim) (hg : g.st.gUp = true) :
    g.sem = gensSet g.spaceDim g.gen := by
  unfold Grid.sem
  have : g.spaceDim ≠ 0 := by omega
  simp [h, this, hg]

theorem lz_sem_of_not_gUp {g : Grid} (h : g.st.empty = false) (h0 : 0 < g.spaceDim) (hg : g.st.gUp = false) :
    g.sem = consSet g.spaceDim g.con := by
  unfold Grid.sem
  have : g.spaceDim ≠ 0 := by omega
  simp [h, this, hg]

/-- with up-to-date congruences the denotation is their solution set, whatever the other flags say -/
theorem lz_sem_of_cUp {g : Grid} (hI : GridInv g) (h : g.st.empty = false) (h0 : 0 < g.spaceDim)
    (hc : g.st.cUp = true) : g.sem = consSet g.spaceDim g.con := by
  cases hg : g.st.gUp
  · exact lz_sem_of_not_gUp h h0 hg
  · rw [lz_sem_of_gUp h h0 hg, hI.agree h h0 hc hg]

/-! ### the divisor of the first point of a normalised system -/

theorem lz_firstPointDiv_of_gnorm {n : Nat} {D : Int} {rows : List GRow} (h : GNorm n D rows) :
    firstPointDiv rows = D := by
  unfold firstPointDiv
  cases hf : rows.find? (fun r => !r.line && get r.e 0 != 0) with
  | none =>
    obtain ⟨r, hr, hl, h0⟩ := h.pt
    have h1 := List.find?_eq_none.mp hf r hr
    have hp := h.pos
    simp [hl, h0] at h1
    omega
  | some p =>
    have hp := List.mem_of_find?_eq_some hf
    have hpp := List.find?_some hf
    simp only [Bool.and_eq_true, Bool.not_eq_eq_eq_not, Bool.not_true, bne_iff_ne, ne_eq] at hpp
    rcases h.col0 p hp hpp.1 with h0 | h0
    · exact absurd h0 hpp.2
    · exact h0

theorem lz_gensSet_eq {n : Nat} {D : Int} {rows : List GRow} (h : GNorm n D rows) :
    gensSet n rows = {x | Hom n rows (homog ((D : Int) : ℚ) x)} := by
  unfold gensSet; rw [lz_firstPointDiv_of_gnorm h]

theorem lz_gnorm_firstPointDiv {n : Nat} {D : Int} {rows : List GRow} (h : GNorm n D rows) :
    GNorm n (firstPointDiv rows) rows := by
  rw [lz_firstPointDiv_of_gnorm h]; exact h

/-- a normalised system denotes a non-empty set: its point -/
theorem lz_gensSet_nonempty {n : Nat} {D : Int} {rows : List GRow} (h : GNorm n D rows) :
    (gensSet n rows).Nonempty := by
  obtain ⟨r, hr, hl, h0⟩ := h.pt
  refine ⟨(r.coords n (D : ℚ)).toFun, ?_⟩
  rw [lz_gensSet_eq h]
  show Hom n rows _
  rw [← hv_point (ne_of_gt h.pos) h0]
  exact hom_of_mem_pc hr hl

/-! ### `GridInv` of a state of positive dimension that is not marked empty -/

theorem lz_inv_of_pos (r : Grid) (he : r.st.empty = false) (hpos : 0 < r.spaceDim) (hhi : r.st.hi = 0)
    (hsome : r.st.cUp = true ∨ r.st.gUp = true)
    (hcm : r.st.cMin = true → r.st.cUp = true) (hgm : r.st.gMin = true → r.st.gUp = true)
    (hcwf : r.st.cUp = true → r.conDim = r.spaceDim ∧ CWf r.spaceDim r.con)
    (hgwf : r.st.gUp = true → r.genDim = r.spaceDim ∧ GWf r.spaceDim r.gen ∧
      GNorm r.spaceDim (firstPointDiv r.gen) r.gen)
    (hag : r.st.cUp = true → r.st.gUp = true → consSet r.spaceDim r.con = gensSet r.spaceDim r.gen)
    (hcmin : r.st.cMin = true → r.dk.length = r.spaceDim + 1 ∧ lowerTriangular r.spaceDim r.con r.dk = true ∧
      kind r.dk 0 = PROPER_CONGRUENCE)
    (hcc : r.st.cMin = true → r.st.gUp = false → CgKindsOK r.spaceDim r.con r.dk)
    (hgmin : r.st.gMin = true → r.dk.length = r.spaceDim + 1 ∧ upperTriangular r.spaceDim r.gen r.dk = true ∧
      kind r.dk 0 = PARAMETER)
    (hgc : r.st.gMin = true → r.st.cUp = false → ConvG r.spaceDim r.gen r.dk) : GridInv r where
  emp := fun h => by rw [he] at h; exact absurd h (by decide)
  zdim := fun _ h => by omega
  hi0 := fun _ => hhi
  some := fun _ _ => hsome
  cminUp := hcm
  gminUp := hgm
  cwf := fun _ _ => hcwf
  gwf := fun _ _ => hgwf
  agree := fun _ _ => hag
  cmin := fun _ _ => hcmin
  cminConv := fun _ _ => hcc
  gmin := fun _ _ => hgmin
  gminConv := fun _ _ => hgc

/-- both descriptions up to date and minimized -/
theorem lz_inv_of_both (r : Grid) (he : r.st.empty = false) (hpos : 0 < r.spaceDim) (hhi : r.st.hi = 0)
    (hc : r.st.cUp = true) (hg : r.st.gUp = true)
    (hcd : r.conDim = r.spaceDim) (hcwf : CWf r.spaceDim r.con)
    (hgd : r.genDim = r.spaceDim) (hgwf : GWf r.spaceDim r.gen) {D : Int} (hgn : GNorm r.spaceDim D r.gen)
    (hag : consSet r.spaceDim r.con = gensSet r.spaceDim r.gen)
    (hdk : r.dk.length = r.spaceDim + 1) (hlt : lowerTriangular r.spaceDim r.con r.dk = true)
    (hut : upperTriangular r.spaceDim r.gen r.dk = true) (hk0 : kind r.dk 0 = 0) : GridInv r :=
  lz_inv_of_pos r he hpos hhi (Or.inl hc) (fun _ => hc) (fun _ => hg) (fun _ => ⟨hcd, hcwf⟩)
    (fun _ => ⟨hgd, hgwf, lz_gnorm_firstPointDiv hgn⟩) (fun _ _ => hag) (fun _ => ⟨hdk, hlt, hk0⟩)
    (fun _ h => by rw [hg] at h; exact absurd h (by decide)) (fun _ => ⟨hdk, hut, hk0⟩)
    (fun _ h => by rw [hc] at h; exact absurd h (by decide))

/-! ### the inconsistent system, `set_empty`, `set_zero_dim_univ` -/

theorem lz_single_zeroDimFalse : CSys.single zeroDimFalse = { dim := 0, rows := [{ e := [1], m := 0 }] } := by
  decide

theorem lz_falseCSys_dim (n : Nat) : (falseCSys n).dim = n := by
  unfold falseCSys CSys.setSpaceDim
  split
  · rfl
  · rename_i h; exact not_not.mp h

theorem lz_resizeRow_one (n : Nat) : resizeRow [1] (n + 1) = 1 :: List.replicate n 0 := by
  unfold resizeRow
  apply List.ext_getElem
  · simp
  · intro i h1 h2
    simp only [List.getElem_map, List.getElem_range]
    cases i with
    | zero => rfl
    | succ i =>
      simp only [List.getElem_cons_succ, List.getElem_replicate]
      unfold Red.get; simp

theorem lz_falseCSys_rows (n : Nat) : (falseCSys n).rows = [{ e := 1 :: List.replicate n 0, m := 0 }] := by
  unfold falseCSys
  rw [lz_single_zeroDimFalse]
  unfold CSys.setSpaceDim
  split
  · simp [CRow.setSpaceDim, lz_resizeRow_one]
  · rename_i h
    have : n = 0 := (not_not.mp h).symm
    subst this; rfl

/-- `1 = 0` has no solution -/
theorem lz_falseCSys_sem (n : Nat) : consSet n (falseCSys n).rows = ∅ := by
  ext x
  simp only [consSet, Set.mem_ofPred_eq, Set.mem_empty_iff_false, iff_false]
  rw [cgsSem_iff, lz_falseCSys_rows]
  rintro ⟨_, hs⟩
  obtain ⟨t, ht⟩ := hs 0 (by simp)
  have hc : evalRow (1 :: List.replicate n 0) x = ((get (1 :: List.replicate n 0) 0 : Int) : ℚ) := by
    refine evalRow_const _ x (fun i hi => ?_)
    cases i with
    | zero => omega
    | succ i => rw [get_cons_succ, get_replicate_zero]
  change evalRow (1 :: List.replicate n 0) x = (t : ℚ) * ((0 : Int) : ℚ) at ht
  rw [hc] at ht
  simp [get_cons_zero] at ht

theorem lz_setEmpty_inv (g : Grid) : GridInv (setEmpty g) where
  emp := fun _ => ⟨rfl, rfl, rfl, lz_falseCSys_dim _, rfl⟩
  zdim := fun h => by simp [setEmpty, Status.setEmpty] at h
  hi0 := fun h => by simp [setEmpty, Status.setEmpty] at h
  some := fun h => by simp [setEmpty, Status.setEmpty] at h
  cminUp := fun h => by simp [setEmpty, Status.setEmpty] at h
  gminUp := fun h => by simp [setEmpty, Status.setEmpty] at h
  cwf := fun h => by simp [setEmpty, Status.setEmpty] at h
  gwf := fun h => by simp [setEmpty, Status.setEmpty] at h
  agree := fun h => by simp [setEmpty, Status.setEmpty] at h
  cmin := fun h => by simp [setEmpty, Status.setEmpty] at h
  cminConv := fun h => by simp [setEmpty, Status.setEmpty] at h
  gmin := fun h => by simp [setEmpty, Status.setEmpty] at h
  gminConv := fun h => by simp [setEmpty, Status.setEmpty] at h

theorem lz_setEmpty_sem (g : Grid) : (setEmpty g).sem = ∅ := lz_sem_of_empty rfl
theorem lz_setEmpty_spaceDim (g : Grid) : (setEmpty g).spaceDim = g.spaceDim := rfl
theorem lz_setEmpty_empty (g : Grid) : (setEmpty g).st.empty = true := rfl

theorem lz_setZeroDimUniv_inv (g : Grid) : GridInv (setZeroDimUniv g) where
  emp := fun h => by simp [setZeroDimUniv, Status.zeroDimUniv] at h
  zdim := fun _ _ => ⟨rfl, rfl, rfl, rfl, rfl⟩
  hi0 := fun _ => rfl
  some := fun _ h => by simp [setZeroDimUniv] at h
  cminUp := fun h => by simp [setZeroDimUniv, Status.zeroDimUniv] at h
  gminUp := fun h => by simp [setZeroDimUniv, Status.zeroDimUniv] at h
  cwf := fun _ h => by simp [setZeroDimUniv] at h
  gwf := fun _ h => by simp [setZeroDimUniv] at h
  agree := fun _ h => by simp [setZeroDimUniv] at h
  cmin := fun _ h => by simp [setZeroDimUniv] at h
  cminConv := fun _ h => by simp [setZeroDimUniv] at h
  gmin := fun _ h => by simp [setZeroDimUniv] at h
  gminConv := fun _ h => by simp [setZeroDimUniv] at h

theorem lz_setZeroDimUniv_sem (g : Grid) : (setZeroDimUniv g).sem = {x | Supp 0 x} := lz_sem_of_zdim rfl rfl
theorem lz_setZeroDimUniv_spaceDim (g : Grid) : (setZeroDimUniv g).spaceDim = 0 := rfl

/-- an invariant state that is marked empty is `setEmpty` of itself -/
theorem lz_eq_setEmpty_of_empty {g : Grid} (hI : GridInv g) (he : g.st.empty = true) : setEmpty g = g := by
  obtain ⟨h1, h2, h3, h4, h5⟩ := hI.emp he
  cases g
  simp only [setEmpty] at *
  subst h1 h2 h3 h5
  simp [lz_falseCSys_dim, h4]

example : GridInv (setEmpty (blank 2)) ∧ (setEmpty (blank 2)).con = [{ e := [1, 0, 0], m := 0 }] :=
  ⟨lz_setEmpty_inv _, by decide⟩

end PPLV.Lattice.GO
