import PPLV.Lattice.ProofsRedCgTail

/-!
# `Grid::simplify(Congruence_System&)`: every step keeps the solution set (summary)

`Sol rows x ↔ ∀ r ∈ rows, (r.toCg).sem x` (`Sol_iff_toCg`).  Each statement below says that one operation of
the function does not change `{x | Sol rows x}`, under the facts the loop invariant provides at that point.
(`reduce_congruence_with_equality`: `reduceCongruenceWithEquality_sol` in `ProofsRedCgStep.lean`.)
-/
namespace PPLV.Lattice.Red

/-- `normalize_moduli` -/
theorem normalizeModuli_sol (n : Nat) (rows : List CRow) (hwf : CWf n rows) (x : Pt) :
    Sol (normalizeModuli rows) x ↔ Sol rows x :=
  (normalizeModuli_spec n rows (RWf_of_CWf n rows hwf)).2.2.2 x

/-- after `normalize_moduli` all proper congruences have one modulus -/
theorem normalizeModuli_sameMod (n : Nat) (rows : List CRow) (hwf : CWf n rows) :
    ∃ M : Int, 0 < M ∧ ∀ r ∈ normalizeModuli rows, r.m = 0 ∨ r.m = M := by
  obtain ⟨M, hM1, hM2⟩ := (normalizeModuli_spec n rows (RWf_of_CWf n rows hwf)).2.2.1
  refine ⟨M, hM1, ?_⟩
  intro r hr
  obtain ⟨i, hi, rfl⟩ := List.getElem_of_mem hr
  have := hM2 i hi
  rwa [rowAt_eq_getElem _ _ hi] at this

/-- `swap(rows[i], rows[j])` -/
theorem swapRows_sol (rows : List CRow) (i j : Nat) (hi : i < rows.length) (hj : j < rows.length) (x : Pt) :
    Sol (swapRows rows i j) x ↔ Sol rows x := Sol_swapRows rows i j hi hj x

/-- `reduce_equality_with_equality(rows[ri], rows[pi], dim)` on two equalities that vanish after column `dim` -/
theorem reduceEqualityWithEquality_sol (rows : List CRow) (ri pi dim : Nat)
    (hpi : pi < rows.length) (hne : pi ≠ ri)
    (hl : (rowAt rows pi).e.length = (rowAt rows ri).e.length)
    (hrm : (rowAt rows ri).m = 0) (hpm : (rowAt rows pi).m = 0)
    (hrz : ∀ j, dim < j → get (rowAt rows ri).e j = 0) (hpz : ∀ j, dim < j → get (rowAt rows pi).e j = 0)
    (hpc : get (rowAt rows pi).e dim ≠ 0) (x : Pt) :
    Sol (rows.set ri (reduceEqualityWithEquality (rowAt rows ri) (rowAt rows pi) dim)) x ↔ Sol rows x := by
  obtain ⟨hm, hl', a, c, ha, hent, _⟩ :=
    reduceEqualityWithEquality_spec (rowAt rows ri) (rowAt rows pi) dim hl hrz hpz hpc
  apply Sol_set_iff rows ri pi _ x hpi hne
  intro hp
  exact rsem_eq_comb (rowAt rows ri) (rowAt rows pi) _ a c x ha
    (evalRow_lin _ _ _ a c x hl' hl hent) (by rw [hm]; exact hrm) hrm hpm hp

/-- `reduce_pc_with_pc(rows[ri], rows[pi], dim, 0, dim + 1)` on two proper congruences with the same modulus
    that vanish after column `dim` -/
theorem reducePcWithPc_sol (rows : List CRow) (ri pi dim : Nat)
    (hri : ri < rows.length) (hpi : pi < rows.length) (hne : pi ≠ ri)
    (hl : (rowAt rows pi).e.length = (rowAt rows ri).e.length)
    (hmm : (rowAt rows pi).m = (rowAt rows ri).m)
    (hrz : ∀ j, dim < j → get (rowAt rows ri).e j = 0) (hpz : ∀ j, dim < j → get (rowAt rows pi).e j = 0)
    (hpc : get (rowAt rows pi).e dim ≠ 0) (hrc : get (rowAt rows ri).e dim ≠ 0) (x : Pt) :
    Sol ((rows.set ri (reducePcWithPc (rowAt rows ri) (rowAt rows pi) dim 0 (dim + 1)).1).set pi
      (reducePcWithPc (rowAt rows ri) (rowAt rows pi) dim 0 (dim + 1)).2) x ↔ Sol rows x := by
  obtain ⟨hm1, hm2, hl1, hl2, s, t, c, d, hdet, hpe, hre, _, _⟩ :=
    reducePcWithPc_spec (rowAt rows ri) (rowAt rows pi) dim hl hrz hpz hpc hrc
  apply Sol_set2_iff rows ri pi _ _ x hri hpi hne
  exact rsem_unimodular (rowAt rows ri) (rowAt rows pi) _ _ s t c d x hdet
    (evalRow_lin _ _ _ s t x hl2 hl.symm hpe)
    (evalRow_lin _ _ _ c d x (by rw [hl1, hl]) hl.symm hre)
    hm1 (by rw [hm2, hmm]) hmm

/-- `pivot.expr.negate(0, dim + 1)` on a row that vanishes after column `dim` -/
theorem negPivot_sol (n : Nat) (rows : List CRow) (k dim : Nat) (hk : k < rows.length)
    (hl : (rowAt rows k).e.length = n + 1) (hz : ∀ j, dim < j → get (rowAt rows k).e j = 0)
    (hnz : get (rowAt rows k).e dim ≠ 0) (x : Pt) :
    Sol (negPivot rows k dim) x ↔ Sol rows x :=
  (negPivot_spec n rows k dim hk hl hz hnz).2.2.2.2.2.2 x

/-- `reduce_reduced(rows, dim, k, 0, dim, dim_kinds, false)`: legitimate because `dim_kinds` records the kinds
    of the rows `0..k-1` in order (`KInv`, `KindOK`) and the proper congruences have one modulus -/
theorem reduceReduced_sol (n : Nat) (dk : List Nat) (p : Nat → Nat) (k dim : Nat) (M : Int) (rows : List CRow)
    (hK : KInv dk p k (dim + 1) (n + 1)) (hdk : dk.length = n + 1) (hk : k < rows.length) (hwf : RWf n rows)
    (hkinds : ∀ i, i < k → KindOK (rowAt rows i) (kind dk (p i)))
    (hpk : KindOK (rowAt rows k) (kind dk dim)) (hpz : ∀ j, dim < j → get (rowAt rows k).e j = 0)
    (hmod : SameMod rows M) (x : Pt) :
    Sol (reduceReduced rows dim k 0 dim dk false) x ↔ Sol rows x :=
  (reduceReduced_rel n dk p k dim M rows hK hdk hk hwf hkinds hpk hpz hmod).sol x

/-- `cgs.remove_trailing_rows(num_rows - pivot_index)`: the dropped rows are zero -/
theorem dropZeroRows_sol (rows : List CRow) (k : Nat) (x : Pt)
    (hz : ∀ i, k ≤ i → i < rows.length → ∀ j, get (rowAt rows i).e j = 0) :
    Sol (rows.take k) x ↔ Sol rows x := Sol_take rows k x hz

/-- the tail (integrality congruence, `reduce_reduced` for column 0) -/
theorem simplifyCgsTail_sol {n : Nat} {rows : List CRow} {dk : List Nat} {p : Nat → Nat}
    (h : Inv n rows dk p rows.length 0)
    (h0 : kind dk 0 ≠ CON_VIRTUAL → kind dk 0 = PROPER_CONGRUENCE ∧ ∀ x, rsem (rowAt rows (rows.length - 1)) x)
    (x : Pt) : Sol (simplifyCgsTail n rows dk).1 x ↔ Sol rows x :=
  (simplifyCgsTail_spec h h0).2.2 x

end PPLV.Lattice.Red
