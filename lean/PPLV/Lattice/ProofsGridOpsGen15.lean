import PPLV.Lattice.ProofsGridOpsGen14

/-!
# Generator side of the `Grid` object, part 15 — `Grid::contains(y)` (Grid_public.cc:2808), modulo the soundness of
# `quick_equivalence_test`
-/
namespace PPLV.Lattice.GO
open PPLV.Lattice PPLV.Lattice.Red

/-- what `contains` needs of `Grid::quick_equivalence_test` (Grid_nonpublic.cc:181): the answer `TVB_TRUE` is right.
    NOT PROVED here (it needs the uniqueness of the minimized forms compared syntactically by `gsysEq` / `csysEq`). -/
def gn_QuickTrueSound : Prop :=
  ∀ x y : Grid, GridInv x → GridInv y → x.st.empty = false → y.st.empty = false → 0 < x.spaceDim →
    x.spaceDim = y.spaceDim → quickEquivalenceTest x y = TVB_TRUE → x.sem = y.sem

/-- **`Grid::contains(y)`** for grids of one dimension: invariants and denotations are kept and the answer is `y ⊆ x`.
    `_partial`: `hQ : gn_QuickTrueSound` (soundness of the answer `TVB_TRUE` of `quick_equivalence_test`) is assumed. -/
theorem gn_contains_partial (hUG : UpdateGeneratorsSpec) (hUC : UpdateCongruencesSpec) (hIE : IsEmptySpec)
    (hQ : gn_QuickTrueSound) (x y : Grid) (hIx : GridInv x) (hIy : GridInv y) (hd : x.spaceDim = y.spaceDim) :
    GridInv (contains x y).1 ∧ GridInv (contains x y).2.1 ∧ (contains x y).1.sem = x.sem ∧
    (contains x y).2.1.sem = y.sem ∧ (contains x y).1.spaceDim = x.spaceDim ∧ (contains x y).2.1.spaceDim = y.spaceDim ∧
    ∃ b, (contains x y).2.2 = some b ∧ (b = true ↔ y.sem ⊆ x.sem) := by
  unfold contains
  rw [if_neg (not_not.mpr hd)]
  cases hy : y.markedEmpty with
  | true =>
    rw [if_pos rfl]
    exact ⟨hIx, hIy, rfl, rfl, rfl, rfl, true, rfl,
      ⟨fun _ => by rw [gn_sem_of_empty (g := y) hy]; exact Set.empty_subset _, fun _ => rfl⟩⟩
  | false =>
  rw [if_neg (by simp)]
  cases hx : x.markedEmpty with
  | true =>
    rw [if_pos rfl]
    obtain ⟨a, b, c, d, _, _⟩ := hIE y hIy
    refine ⟨hIx, a, rfl, b, rfl, c, _, rfl, ?_⟩
    rw [gn_sem_of_empty (g := x) hx, Set.subset_empty_iff]
    exact d
  | false =>
  rw [if_neg (by simp)]
  by_cases h0 : y.spaceDim = 0
  · rw [if_pos h0]
    refine ⟨hIx, hIy, rfl, rfl, rfl, rfl, true, rfl, ⟨fun _ => ?_, fun _ => rfl⟩⟩
    rw [gn_sem_dim0 (g := y) hy h0, gn_sem_dim0 (g := x) hx (by rw [hd]; exact h0)]
  · rw [if_neg h0]
    have hn : 0 < x.spaceDim := by omega
    by_cases hq : quickEquivalenceTest x y = TVB_TRUE
    · rw [if_pos hq]
      refine ⟨hIx, hIy, rfl, rfl, rfl, rfl, true, rfl, ⟨fun _ => ?_, fun _ => rfl⟩⟩
      rw [hQ x y hIx hIy hx hy hn hd hq]
    · rw [if_neg hq]
      obtain ⟨a, b, c, d, e, f, g⟩ := gn_isIncludedIn hUG hUC y x hIy hIx hy hx (by omega) hd.symm
      exact ⟨b, a, d, c, f, e, _, rfl, g⟩

end PPLV.Lattice.GO
