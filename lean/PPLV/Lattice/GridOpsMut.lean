import PPLV.Lattice.GridOpsObs
/-!
# The `Grid` object, part 3 — mutators (code-shaped, no Mathlib)

`add_congruence(s)` / `refine_with_congruence(s)` / `add_constraint(s)` / `refine_with_constraint(s)`,
`add_grid_generator(s)`, `unconstrain`, `intersection_assign`, `upper_bound_assign`, `difference_assign`,
`time_elapse_assign`, `is_disjoint_from`, `contains_integer_point`, `upper_bound_assign_if_exact` of
/repo/src/Grid_public.cc, Grid_nonpublic.cc, Grid_inlines.hh.

`R.thrown`: the call threw `std::invalid_argument` (the object is as the model says at the throw).
-/
namespace PPLV.Lattice.GO
open PPLV.Lattice.Red

structure R where
  g : Grid
  thrown : Bool := false
deriving Repr, Inhabited

/-- a binary operation: receiver, argument (its lazy state may change), thrown -/
structure R2 where
  x : Grid
  y : Grid
  thrown : Bool := false
deriving Repr, Inhabited

/-! ### congruences and constraints -/

/-- Grid_nonpublic.cc:688 `add_congruence_no_check(cg)` -/
def addCongruenceNoCheck (g : Grid) (cg : CRow) : Grid :=
  if g.spaceDim = 0 then (if cg.isInconsistent then setEmpty g else g)
  else
    let g1 := if !g.congruencesAreUpToDate then updateCongruences g else g
    let g2 := g1.withCs (g1.cs.insert cg)
    ((g2.clearCongruencesMinimized).setCongruencesUpToDate).clearGeneratorsUpToDate

/-- Grid_inlines.hh `add_congruence(cg)` (= `refine_with_congruence`) -/
def addCongruence (g : Grid) (cg : CRow) : R :=
  if g.spaceDim < cg.spaceDim then { g := g, thrown := true }
  else if !g.markedEmpty then { g := addCongruenceNoCheck g cg } else { g := g }

/-- Grid_public.cc:1333 `add_recycled_congruences(cgs)` -/
def addRecycledCongruences (g : Grid) (cgs : CSys) : R :=
  if g.spaceDim < cgs.dim then { g := g, thrown := true }
  else if cgs.rows.isEmpty then { g := g }
  else if g.markedEmpty then { g := g }
  else if g.spaceDim = 0 then
    -- `cgs.begin() != cgs.end()`: some row is not tautological
    { g := if cgs.rows.any (fun r => !r.isTautological) then setEmpty g else g }
  else
    let g1 := if !g.congruencesAreUpToDate then updateCongruences g else g
    let g2 := g1.withCs (g1.cs.insertSys cgs)
    { g := (g2.clearCongruencesMinimized).clearGeneratorsUpToDate }

/-- Grid_inlines.hh `add_congruences(cgs)` (= `refine_with_congruences`) -/
def addCongruences (g : Grid) (cgs : CSys) : R :=
  if g.spaceDim < cgs.dim then { g := g, thrown := true }
  else if !g.markedEmpty then addRecycledCongruences g cgs else { g := g }

/-- Grid_nonpublic.cc:716 `add_constraint_no_check(c)` -/
def addConstraintNoCheck (g : Grid) (c : Con) : R :=
  if !c.isEquality then
    if c.inconsistent then { g := setEmpty g }
    else if c.tautological then { g := g }
    else { g := g, thrown := true }
  else { g := addCongruenceNoCheck g c.toCg }

/-- a non-trivial inequality: neither an equality nor flagged inconsistent / tautological -/
def Con.isHardInequality (c : Con) : Bool := !c.isEquality && !c.inconsistent && !c.tautological

/-- Grid_inlines.hh `add_constraint(c)` (680f35a: a non-trivial inequality is rejected also by a marked-empty grid) -/
def addConstraint (g : Grid) (c : Con) : R :=
  if g.spaceDim < c.spaceDim then { g := g, thrown := true }
  else if !g.markedEmpty then addConstraintNoCheck g c
  else if c.isHardInequality then { g := g, thrown := true }
  else { g := g }

/-- Grid_public.cc:1266 `add_constraints(cs)`; `csDim` = `cs.space_dimension()`; first the loop that adds them -/
def addConstraintsLoop : Grid → List Con → R
  | g, [] => { g := g }
  | g, c :: cs =>
    let r := addConstraintNoCheck g c
    if r.thrown then r else if r.g.markedEmpty then r else addConstraintsLoop r.g cs
def addConstraints (g : Grid) (csDim : Nat) (cs : List Con) : R :=
  if g.spaceDim < csDim then { g := g, thrown := true }
  -- 7218b6b: the whole system is validated first, so that a rejected call leaves the object unchanged (before the
  -- repair the constraints preceding a non-trivial inequality were applied, and a marked-empty grid did not throw)
  else if cs.any Con.isHardInequality then { g := g, thrown := true }
  else if g.markedEmpty then { g := g } else addConstraintsLoop g cs

/-- Grid_nonpublic.cc:739 `refine_no_check(c)` -/
def refineNoCheck (g : Grid) (c : Con) : Grid :=
  if c.isEquality then addCongruenceNoCheck g c.toCg
  else if c.inconsistent then setEmpty g else g

/-- Grid_public.cc:1448 `refine_with_constraint(c)` -/
def refineWithConstraint (g : Grid) (c : Con) : R :=
  if g.spaceDim < c.spaceDim then { g := g, thrown := true }
  else if g.markedEmpty then { g := g } else { g := refineNoCheck g c }

/-- Grid_public.cc:1460 `refine_with_constraints(cs)` -/
def refineWithConstraintsLoop : Grid → List Con → Grid
  | g, [] => g
  | g, c :: cs => if g.markedEmpty then g else refineWithConstraintsLoop (refineNoCheck g c) cs
def refineWithConstraints (g : Grid) (csDim : Nat) (cs : List Con) : R :=
  if g.spaceDim < csDim then { g := g, thrown := true } else { g := refineWithConstraintsLoop g cs }

/-! ### generators -/

/-- `generators_are_up_to_date() || update_generators()` as used by the mutators -/
def ensureGenerators (g : Grid) : Grid × Bool :=
  if g.generatorsAreUpToDate then (g, true) else updateGenerators g

/-- Grid_public.cc:1285 `add_grid_generator(g)` -/
def addGridGenerator (g : Grid) (x : GRow) : R :=
  if g.spaceDim < x.spaceDim then { g := g, thrown := true }
  else if g.spaceDim = 0 then
    if g.markedEmpty then
      if x.isParameter then { g := g, thrown := true } else { g := setZeroDimUniv g }
    else { g := g }
  else
    let r : Grid × Bool := if g.markedEmpty then (g, false) else ensureGenerators g
    let g1 := r.1
    if !r.2 then
      if x.isLineOrParameter then { g := g1, thrown := true }
      else
        let g2 := (g1.withGs (g1.gs.insert x)).clearEmpty
        { g := ((g2.clearCongruencesUpToDate).clearGeneratorsMinimized).setGeneratorsUpToDate }
    else
      let gs1 := g1.gs.insert x
      let gs2 := if x.isParameterOrPoint then normalizeDivisors1 gs1 else gs1
      { g := (((g1.withGs gs2).clearCongruencesUpToDate).clearGeneratorsMinimized).setGeneratorsUpToDate }

/-- Grid_public.cc:1378 `add_recycled_grid_generators(gs)` (`add_grid_generators` copies and calls it) -/
def addRecycledGridGenerators (g : Grid) (gs : GSys) : R :=
  if g.spaceDim < gs.dim then { g := g, thrown := true }
  else if gs.rows.isEmpty then { g := g }
  else if g.spaceDim = 0 then { g := if g.markedEmpty then setZeroDimUniv g else g }
  else
    let r : Grid × Bool := if g.markedEmpty then (g, false) else ensureGenerators g
    let g1 := r.1
    if r.2 then
      -- `gs.set_space_dimension(space_dim)` first (repair of KF-C05-24: the divisors of a 0-dimensional system
      -- were not normalised)
      let p := normalizeDivisors2 (gs.setSpaceDim g1.spaceDim) g1.gs
      let gs2 := p.2.insertSys p.1
      { g := ((g1.withGs gs2).clearCongruencesUpToDate).clearGeneratorsMinimized }
    else if !gs.hasPoints then { g := g1, thrown := true }
    else
      let gs1 := normalizeDivisors1 (gs.setSpaceDim g1.spaceDim)
      { g := ((g1.withGs gs1).setGeneratorsUpToDate).clearEmpty }

/-- Grid_public.cc:1473 `unconstrain(var)` -/
def unconstrainVar (g : Grid) (v : Nat) : R :=
  if g.spaceDim < v + 1 then { g := g, thrown := true }
  else
    let r : Grid × Bool := if g.markedEmpty then (g, false) else ensureGenerators g
    if !r.2 then { g := r.1 }
    else
      let g1 := r.1.withGs (r.1.gs.sysInsert (gridLineVar v))
      { g := (g1.clearCongruencesUpToDate).clearGeneratorsMinimized }

/-- Grid_public.cc:1495 `unconstrain(vars)`; `vars` increasing -/
def unconstrainSet (g : Grid) (vars : List Nat) : R :=
  if vars.isEmpty then { g := g }
  else if g.spaceDim < vars.foldl (fun m v => max m (v + 1)) 0 then { g := g, thrown := true }
  else
    let r : Grid × Bool := if g.markedEmpty then (g, false) else ensureGenerators g
    if !r.2 then { g := r.1 }
    else
      let gs := vars.foldl (fun s v => s.sysInsert (gridLineVar v)) r.1.gs
      { g := ((r.1.withGs gs).clearGeneratorsMinimized).clearCongruencesUpToDate }

/-! ### binary operations -/

/-- Grid_public.cc:1530 `intersection_assign(y)` -/
def intersectionAssign (x y : Grid) : R2 :=
  if x.spaceDim ≠ y.spaceDim then { x := x, y := y, thrown := true }
  else if x.markedEmpty then { x := x, y := y }
  else if y.markedEmpty then { x := setEmpty x, y := y }
  else if x.spaceDim = 0 then { x := x, y := y }
  else
    let x1 := if !x.congruencesAreUpToDate then updateCongruences x else x
    let y1 := if !y.congruencesAreUpToDate then updateCongruences y else y
    if !y1.con.isEmpty then
      let x2 := x1.withCs (x1.cs.insertSys y1.cs)
      { x := (x2.clearGeneratorsUpToDate).clearCongruencesMinimized, y := y1 }
    else { x := x1, y := y1 }

/-- Grid_public.cc:1571 `upper_bound_assign(y)` -/
def upperBoundAssign (x y : Grid) : R2 :=
  if x.spaceDim ≠ y.spaceDim then { x := x, y := y, thrown := true }
  else if y.markedEmpty then { x := x, y := y }
  else if x.markedEmpty then { x := assign x y, y := y }
  else if x.spaceDim = 0 then { x := x, y := y }
  else
    let rx := ensureGenerators x
    if !rx.2 then { x := assign rx.1 y, y := y }
    else
      let ry := ensureGenerators y
      if !ry.2 then { x := rx.1, y := ry.1 }
      else
        let p := normalizeDivisors2 rx.1.gs ry.1.gs      -- `normalize_divisors(x.gen_sys, gs)`, `gs` a copy of `y.gen_sys`
        let gs2 := p.1.insertSys p.2
        { x := ((rx.1.withGs gs2).clearCongruencesUpToDate).clearGeneratorsMinimized, y := ry.1 }

/-- Grid_public.cc:2686 `time_elapse_assign(y)` -/
def timeElapseAssign (x y : Grid) : R2 :=
  if x.spaceDim ≠ y.spaceDim then { x := x, y := y, thrown := true }
  else if x.spaceDim = 0 then { x := if y.markedEmpty then setEmpty x else x, y := y }
  else if x.markedEmpty then { x := x, y := y }
  else if y.markedEmpty then { x := setEmpty x, y := y }
  else
    let rx := ensureGenerators x
    if !rx.2 then { x := setEmpty rx.1, y := y }
    else
      let ry := ensureGenerators y
      if !ry.2 then { x := setEmpty rx.1, y := ry.1 }
      else
        let p := normalizeDivisors2 ry.1.gs rx.1.gs      -- `normalize_divisors(gs, gen_sys)`
        let gs : GSys := { p.1 with rows := p.1.rows.map fun r => if r.isPoint then r.setIsParameter else r }
        if gs.rows.isEmpty then { x := rx.1.withGs p.2, y := ry.1 }
        else
          let gs2 := p.2.insertSys gs
          { x := ((rx.1.withGs gs2).clearCongruencesUpToDate).clearGeneratorsMinimized, y := ry.1 }

/-- `(2*e %= 0) / m` and `(2*e %= m) / (2*m)` for `e = cg.expression()`, `m = cg.modulus()` (Grid_public.cc:1704, :1707) -/
def twoCompl0 (cg : CRow) : CRow := { e := mulAll cg.e 2, m := cg.m }
def twoCompl (cg : CRow) : CRow := { e := (mulAll cg.e 2).set 0 (2 * get cg.e 0 - cg.m), m := 2 * cg.m }

/-- the loop of `difference_assign` over the non-tautological congruences of `y`: `(x, new_grid)`; `none` = the
    early `return` (the receiver keeps its points) -/
def differenceLoop : Grid → Grid → List CRow → Grid × Option Grid
  | x, ng, [] => (x, some ng)
  | x, ng, cg :: rest =>
    let r1 := relationWithCg x cg
    if (r1.2.getD {}).included then differenceLoop r1.1 ng rest
    else if cg.isProperCongruence then
      let r2 := relationWithCg r1.1 (twoCompl0 cg)
      if (r2.2.getD {}).included then
        let z := addCongruenceNoCheck (copyCtor r2.1) (twoCompl cg)
        let ub := upperBoundAssign ng z
        differenceLoop r2.1 ub.x rest
      else (r2.1, none)
    else (r1.1, none)

/-- Grid_public.cc:1649 `difference_assign(y)` -/
def differenceAssign (x y : Grid) : R2 :=
  if x.spaceDim ≠ y.spaceDim then { x := x, y := y, thrown := true }
  else if y.markedEmpty ∨ x.markedEmpty then { x := x, y := y }
  else if x.spaceDim = 0 then { x := setEmpty x, y := y }
  else
    let c := contains y x
    let y1 := c.1
    let x1 := c.2.1
    if c.2.2 = some true then { x := setEmpty x1, y := y1 }
    else
      let y2 := congruences y1
      let r := differenceLoop x1 (constructDeg x1.spaceDim false) (y2.con.filter fun cg => !cg.isTautological)
      match r.2 with
      | none => { x := r.1, y := y2 }
      | some ng => { x := assign r.1 ng, y := y2 }

/-- Grid_public.cc:2832 `is_disjoint_from(y)`: works on a copy of `*this`; `y` may be updated -/
def isDisjointFrom (x y : Grid) : Grid × Grid × Option Bool :=
  if x.spaceDim ≠ y.spaceDim then (x, y, none)
  else
    let r := intersectionAssign (copyCtor x) y
    (x, r.y, some (isEmpty r.x).2)

/-- Grid_public.cc:906 `contains_integer_point()`: works on a copy -/
def containsIntegerPoint (g : Grid) : Bool :=
  if g.markedEmpty then false
  else if g.spaceDim = 0 then true
  else
    let cgs := (List.range g.spaceDim).reverse.foldl
      (fun (s : CSys) v => s.insert { e := (List.replicate (v + 2) 0).set (v + 1) 1, m := 1 }) { dim := 0, rows := [] }
    !(isEmpty (addRecycledCongruences (copyCtor g) cgs).g).2

/-- Grid_public.cc:1616 `upper_bound_assign_if_exact(y)` -/
def upperBoundAssignIfExact (x y : Grid) : R2 × Bool :=
  if x.spaceDim ≠ y.spaceDim then ({ x := x, y := y, thrown := true }, false)
  else if x.markedEmpty ∨ y.markedEmpty ∨ x.spaceDim = 0 then (upperBoundAssign x y, true)
  else
    let i1 := isIncludedIn x y
    if i1.2.2 then (upperBoundAssign i1.1 i1.2.1, true)
    else
      let i2 := isIncludedIn i1.2.1 i1.1
      let x1 := i2.2.1
      let y1 := i2.1
      if i2.2.2 then (upperBoundAssign x1 y1, true)
      else
        let u := upperBoundAssign (copyCtor x1) y1
        let d := differenceAssign u.x u.y
        let inc := isIncludedIn d.x x1
        if inc.2.2 then (upperBoundAssign inc.2.1 d.y, true)
        else ({ x := inc.2.1, y := d.y }, false)

end PPLV.Lattice.GO
