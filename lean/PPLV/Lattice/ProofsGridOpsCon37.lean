import PPLV.Lattice.ProofsGridOpsCon18

/-!
# `Grid` stage 3, part 37: `add_space_dimensions_and_project` with MINIMIZED congruences — the system with the unit
# equalities in front is lower triangular for `dim_kinds` resized with `EQUALITY`, and carries `CgKindsOK`
# (closes `hTri` of `cn_project_con_partial` / `cn_project_both_partial`)
-/
namespace PPLV.Lattice.GO
open PPLV.Lattice PPLV.Lattice.Red

/-- the rows `add_unit_rows_and_space_dimensions` writes -/
def cn_projRows (n m : Nat) (rows : List CRow) : List CRow :=
  (List.range m).map (fun row => cn_unitRow (n + m) (n + m - row - 1)) ++ rows.map (·.setSpaceDim (n + m))

theorem cn_projRows_length (n m : Nat) (rows : List CRow) : (cn_projRows n m rows).length = m + rows.length := by
  simp [cn_projRows]

theorem cn_projRows_unit (n m : Nat) (rows : List CRow) (i : Nat) (hi : i < m) :
    rowAt (cn_projRows n m rows) i = cn_unitRow (n + m) (n + m - i - 1) := by
  unfold rowAt cn_projRows
  rw [List.getD_eq_getElem?_getD, List.getElem?_append_left (by simpa using hi), List.getElem?_map,
    List.getElem?_range hi]
  rfl

theorem cn_projRows_old (n m : Nat) (rows : List CRow) (i : Nat) :
    rowAt (cn_projRows n m rows) (i + m) = rowAt (rows.map (·.setSpaceDim (n + m))) i := by
  unfold rowAt cn_projRows
  rw [List.getD_eq_getElem?_getD, List.getD_eq_getElem?_getD, List.getElem?_append_right (by simp)]
  simp

theorem cn_unitRow_get (dim j i : Nat) (hj : j < dim) : Red.get (cn_unitRow dim j).e i = if i = j + 1 then 1 else 0 := by
  unfold cn_unitRow
  simp only
  rw [get_set]
  by_cases h : i = j + 1
  · rw [if_pos ⟨h, by simp; omega⟩, if_pos h]
  · rw [if_neg (fun hc => h hc.1), if_neg h]
    unfold Red.get
    simp [List.getD_eq_getElem?_getD, List.getElem?_replicate]
    split <;> rfl

/-- the step on an old dimension, for the padded rows and ANY resizing value -/
theorem cn_ltStep_pad' (n m val : Nat) (rows : List CRow) (dk : List Nat) (hw : CWf n rows) (hdk : dk.length = n + 1)
    (st : Nat × Bool) (d : Nat) (hd : d < n + 1) :
    cn_ltStep (n + m + 1) (rows.map (·.setSpaceDim (n + m))) (resizeKindsWith dk (n + m + 1) val) st d =
      cn_ltStep (n + 1) rows dk st d := by
  unfold cn_ltStep
  rw [cn_resizeKindsWith_kind dk _ _ d (by omega) (by omega)]
  rcases cn_rowAt_map_pad rows (n + m) st.1 with ⟨hi, h⟩ | ⟨_, h1, h2⟩
  · rw [h]
    have hl := (hw _ (rowAt_mem rows st.1 hi)).1
    have hget : Red.get ((rowAt rows st.1).setSpaceDim (n + m)).e d = Red.get (rowAt rows st.1).e d := by
      show Red.get (resizeRow _ _) d = _
      rw [cn_get_resizeRow, if_pos (by omega)]
    have hall : allZeroes ((rowAt rows st.1).setSpaceDim (n + m)).e (d + 1) (n + m + 1) =
        allZeroes (rowAt rows st.1).e (d + 1) (n + 1) := cn_allZeroes_pad _ n m d hl
    simp only [hget, hall]
  · rw [h1, h2]
    have : Red.get (default : CRow).e d ≤ 0 := by
      show Red.get [] d ≤ 0; rw [get_of_length_le [] d (by simp)]
    simp only [if_pos this]

/-- the step on the system with `m` rows in front is the step on the rest, the row counter shifted by `m` -/
theorem cn_ltStep_shift (n m nc : Nat) (rows : List CRow) (dk' : List Nat) (a : Nat) (b : Bool) (d : Nat) :
    cn_ltStep nc (cn_projRows n m rows) dk' (a + m, b) d =
      ((cn_ltStep nc (rows.map (·.setSpaceDim (n + m))) dk' (a, b) d).1 + m,
        (cn_ltStep nc (rows.map (·.setSpaceDim (n + m))) dk' (a, b) d).2) := by
  unfold cn_ltStep
  simp only [cn_projRows_old]
  split
  · rfl
  · split
    · rfl
    · split
      · simp only; congr 1; omega
      · split
        · simp only; congr 1; omega
        · simp only; congr 1; omega

theorem cn_lt_fold_shift (n m nc : Nat) (rows : List CRow) (dk' : List Nat) (L : List Nat) : ∀ (a : Nat) (b : Bool),
    L.foldl (cn_ltStep nc (cn_projRows n m rows) dk') (a + m, b) =
      ((L.foldl (cn_ltStep nc (rows.map (·.setSpaceDim (n + m))) dk') (a, b)).1 + m,
        (L.foldl (cn_ltStep nc (rows.map (·.setSpaceDim (n + m))) dk') (a, b)).2) := by
  induction L with
  | nil => intro a b; rfl
  | cons d L ih =>
    intro a b
    rw [List.foldl_cons, List.foldl_cons, cn_ltStep_shift]
    exact ih _ _

/-- the step on a new dimension: the unit row of that dimension is accepted -/
theorem cn_ltStep_unit (n m : Nat) (rows : List CRow) (dk : List Nat) (hdk : dk.length = n + 1) (i : Nat) (hi : i < m) :
    cn_ltStep (n + m + 1) (cn_projRows n m rows) (resizeKindsWith dk (n + m + 1) EQUALITY) (i, true) (n + m - i) =
      (i + 1, true) := by
  unfold cn_ltStep
  have hk : kind (resizeKindsWith dk (n + m + 1) EQUALITY) (n + m - i) = EQUALITY :=
    cn_resizeKindsWith_kind_new dk _ _ _ (by omega) (by omega)
  have hne : ¬ (EQUALITY = CON_VIRTUAL) := by decide
  simp only [Bool.not_true, Bool.false_eq_true, if_false, hk, if_neg hne, cn_projRows_unit n m rows i hi]
  have hg : Red.get (cn_unitRow (n + m) (n + m - i - 1)).e (n + m - i) = 1 := by
    rw [cn_unitRow_get _ _ _ (by omega), if_pos (by omega)]
  have hz : allZeroes (cn_unitRow (n + m) (n + m - i - 1)).e (n + m - i + 1) (n + m + 1) = true := by
    rw [cn_allZeroes_iff]
    intro k _ h1 _
    rw [cn_unitRow_get _ _ _ (by omega), if_neg (by omega)]
  rw [hg, hz]
  simp

theorem cn_lowerTriangular_proj (n m : Nat) (rows : List CRow) (dk : List Nat) (hw : CWf n rows) (hdk : dk.length = n + 1)
    (h : lowerTriangular n rows dk = true) :
    lowerTriangular (n + m) (cn_projRows n m rows) (resizeKindsWith dk (n + m + 1) EQUALITY) = true := by
  rw [cn_lowerTriangular_eq] at h ⊢
  have hlen : ¬ rows.length > n + 1 := by
    intro hc; rw [if_pos hc] at h; cases h
  rw [if_neg hlen] at h
  rw [if_neg (by rw [cn_projRows_length]; omega)]
  -- phase 1: the new dimensions
  have key : ∀ j, j ≤ m → (dimsDown (n + 1 + j)).foldl (cn_ltStep (n + m + 1) (cn_projRows n m rows)
        (resizeKindsWith dk (n + m + 1) EQUALITY)) (m - j, true) =
      (dimsDown (n + 1)).foldl (cn_ltStep (n + m + 1) (cn_projRows n m rows)
        (resizeKindsWith dk (n + m + 1) EQUALITY)) (m, true) := by
    intro j
    induction j with
    | zero => intro _; rfl
    | succ j ih =>
      intro hj
      have e1 : n + 1 + (j + 1) = (n + 1 + j) + 1 := by omega
      have e2 : n + 1 + j = n + m - (m - (j + 1)) := by omega
      rw [e1, gc_dimsDown_succ, List.foldl_cons, e2, cn_ltStep_unit n m rows dk hdk (m - (j + 1)) (by omega), ← e2,
        show m - (j + 1) + 1 = m - j by omega]
      exact ih (by omega)
  have k1 := key m (le_refl _)
  rw [show n + 1 + m = n + m + 1 by omega, Nat.sub_self] at k1
  rw [k1]
  -- phase 2: the old dimensions, shifted
  have k2 := cn_lt_fold_shift n m (n + m + 1) rows (resizeKindsWith dk (n + m + 1) EQUALITY) (dimsDown (n + 1)) 0 true
  rw [Nat.zero_add] at k2
  rw [k2]
  have k3 : (dimsDown (n + 1)).foldl (cn_ltStep (n + m + 1) (rows.map (·.setSpaceDim (n + m)))
      (resizeKindsWith dk (n + m + 1) EQUALITY)) (0, true) =
      (dimsDown (n + 1)).foldl (cn_ltStep (n + 1) rows dk) (0, true) :=
    cn_foldl_ext _ _ _ _ (fun a b hb => cn_ltStep_pad' n m EQUALITY rows dk hw hdk a b ((cn_mem_dimsDown _ _).mp hb))
  rw [k3, cn_projRows_length]
  simp only [Bool.and_eq_true, beq_iff_eq] at h ⊢
  exact ⟨h.1, by omega⟩

/-! ### `CgKindsOK` -/

theorem cn_nl_proj (dk : List Nat) (n m k : Nat) (hdk : dk.length = n + 1) (hk : k ≤ n + m + 1) :
    nl (resizeKindsWith dk (n + m + 1) EQUALITY) k = nl dk (min k (n + 1)) + (k - (n + 1)) := by
  unfold nl
  induction k with
  | zero => simp [cntBelow]
  | succ k ih =>
    by_cases hkn : k < n + 1
    · rw [show min (k + 1) (n + 1) = k + 1 by omega]
      simp only [cntBelow]
      have hb : nlB (resizeKindsWith dk (n + m + 1) EQUALITY) k = nlB dk k := by
        unfold nlB; rw [cn_resizeKindsWith_kind dk _ _ k (by omega) (by omega)]
      rw [ih (by omega), show min k (n + 1) = k by omega, hb]; omega
    · have hb : nlB (resizeKindsWith dk (n + m + 1) EQUALITY) k = true := by
        unfold nlB; rw [cn_resizeKindsWith_kind_new dk _ _ k (by omega) (by omega)]; rfl
      rw [cntBelow_succ_pos _ k hb, ih (by omega), show min k (n + 1) = n + 1 by omega,
        show min (k + 1) (n + 1) = n + 1 by omega]
      omega

theorem cn_CgKindsOK_proj (n m : Nat) (rows : List CRow) (dk : List Nat) (hdk : dk.length = n + 1) (hm : 0 < m)
    (h : CgKindsOK n rows dk) :
    CgKindsOK (n + m) (cn_projRows n m rows) (resizeKindsWith dk (n + m + 1) EQUALITY) := by
  obtain ⟨M, h1, h2⟩ := h
  have hmm : ∀ i, (rowAt (rows.map (fun r : CRow => r.setSpaceDim (n + m))) i).m = (rowAt rows i).m := by
    intro i
    rcases cn_rowAt_map_pad rows (n + m) i with ⟨_, h⟩ | ⟨_, h1, h2⟩
    · rw [h]; rfl
    · rw [h1, h2]
  have hnlmono : ∀ d, d < n + 1 → nl dk (d + 1) ≤ nl dk (n + 1) := fun d hd => cntBelow_mono _ (by omega)
  refine ⟨M, fun d hd => ?_, ?_⟩
  · by_cases hdn : d < n + 1
    · have hpos : pos (resizeKindsWith dk (n + m + 1) EQUALITY) (n + m + 1) d = pos dk (n + 1) d + m := by
        unfold pos
        rw [cn_nl_proj dk n m _ hdk (le_refl _), cn_nl_proj dk n m _ hdk (by omega),
          show min (n + m + 1) (n + 1) = n + 1 by omega, show min (d + 1) (n + 1) = d + 1 by omega]
        have := hnlmono d hdn
        omega
      rw [cn_resizeKindsWith_kind dk _ _ d (by omega) (by omega), hpos, cn_projRows_old, hmm]
      exact h1 d hdn
    · have hpos : pos (resizeKindsWith dk (n + m + 1) EQUALITY) (n + m + 1) d = n + m - d := by
        unfold pos
        rw [cn_nl_proj dk n m _ hdk (le_refl _), cn_nl_proj dk n m _ hdk (by omega),
          show min (n + m + 1) (n + 1) = n + 1 by omega, show min (d + 1) (n + 1) = n + 1 by omega]
        omega
      refine Or.inr (Or.inl ⟨cn_resizeKindsWith_kind_new dk _ _ d (by omega) (by omega), ?_⟩)
      rw [hpos, cn_projRows_unit n m rows _ (by omega)]; rfl
  · rw [cn_projRows_length]
    by_cases hr : rows.length = 0
    · have hnil : rows = [] := List.eq_nil_of_length_eq_zero hr
      rw [hr, Nat.add_zero, cn_projRows_unit n m rows (m - 1) (by omega), cn_unitRow_get _ _ _ (by omega),
        if_neg (by omega)]
      rw [hnil] at h2
      exact h2
    · rw [show m + rows.length - 1 = (rows.length - 1) + m by omega, cn_projRows_old]
      rcases cn_rowAt_map_pad rows (n + m) (rows.length - 1) with ⟨_, h⟩ | ⟨hc, _, _⟩
      · rw [h]
        show Red.get (resizeRow _ _) 0 = M
        rw [cn_get_resizeRow, if_pos (by omega)]; exact h2
      · omega

/-- the rows of `add_unit_rows_and_space_dimensions` are `cn_projRows` -/
theorem cn_addUnitRows_projRows (s : CSys) (m : Nat) (hm : 0 < m) :
    (s.addUnitRowsAndSpaceDimensions m).rows = cn_projRows s.dim m s.rows := (cn_addUnitRows_eq s m hm).2

/-- what `cn_project_con_partial`, `cn_project_both_partial` and `addSpaceDimensionsAndProject_partial` ask for -/
theorem cn_project_tri (g : Grid) (m : Nat) (hI : GridInv g) (hm : 0 < m) (he : g.st.empty = false) (hpos : 0 < g.spaceDim)
    (hcm : g.st.cMin = true) :
    lowerTriangular (g.spaceDim + m) (g.cs.addUnitRowsAndSpaceDimensions m).rows
        (resizeKindsWith g.dk (g.spaceDim + m + 1) EQUALITY) = true ∧
    (g.st.gUp = false → CgKindsOK (g.spaceDim + m) (g.cs.addUnitRowsAndSpaceDimensions m).rows
        (resizeKindsWith g.dk (g.spaceDim + m + 1) EQUALITY)) := by
  have hc := hI.cminUp hcm
  obtain ⟨hcd, hw⟩ := hI.cwf he hpos hc
  obtain ⟨hlen, htri, _⟩ := hI.cmin he hpos hcm
  have hcsd : g.cs.dim = g.spaceDim := hcd
  have hrows : (g.cs.addUnitRowsAndSpaceDimensions m).rows = cn_projRows g.spaceDim m g.con := by
    rw [cn_addUnitRows_projRows g.cs m hm, hcsd]; rfl
  rw [hrows]
  exact ⟨cn_lowerTriangular_proj g.spaceDim m g.con g.dk hw hlen htri,
    fun hg => cn_CgKindsOK_proj g.spaceDim m g.con g.dk hlen hm (hI.cminConv he hpos hcm hg)⟩

/-- project with only the (possibly minimized) congruences up to date: hypothesis-free -/
theorem cn_project_con_full (g : Grid) (m : Nat) (hI : GridInv g) (hm : 0 < m) (he : g.st.empty = false)
    (hpos : 0 < g.spaceDim) (hc : g.st.cUp = true) (hg : g.st.gUp = false) :
    GridInv (addSpaceDimensionsAndProject g m) ∧ (addSpaceDimensionsAndProject g m).sem = g.sem ∧
      (addSpaceDimensionsAndProject g m).spaceDim = g.spaceDim + m :=
  cn_project_con_partial g m hI hm he hpos hc hg (fun hcm =>
    ⟨(cn_project_tri g m hI hm he hpos hcm).1, (cn_project_tri g m hI hm he hpos hcm).2 hg⟩)

end PPLV.Lattice.GO
