import PPLV.Lattice.ProofsGridOpsGen39

/-!
# Generator side of the `Grid` object, part 40 — `Grid::is_universe()` (Grid_public.cc:802)
-/
namespace PPLV.Lattice.GO
open PPLV.Lattice PPLV.Lattice.Red

theorem gn_space_nonempty (n : Nat) : ({x | Supp n x} : Set Pt).Nonempty := ⟨0, fun _ _ => rfl⟩

/-- the test on congruences that are up to date but not minimized: the lines `grid_line(Variable(i))` and the origin
    satisfy all the congruences iff these describe the whole space -/
theorem gn_univ_test {n : Nat} (s : CSys) (hc : CWf n s.rows) :
    (((List.range n).reverse.all fun i => s.satisfiesAll (lineOfDim n i)) && s.satisfiesAll (originOfDim n)) = true ↔
      consSet n s.rows = {x | Supp n x} := by
  obtain ⟨o1, o2, o3, o4, o5⟩ := gn_originOfDim_ok n
  have olen : (originOfDim n).e.length = n + 2 := by rw [o1.len, o2]
  have opt : gn_isPt (originOfDim n) = true := (gn_isPt_iff _).mpr ⟨o3, by rw [o4]; decide⟩
  rw [Bool.and_eq_true, List.all_reverse, List.all_eq_true]
  constructor
  · rintro ⟨hl, ho⟩
    have h0 : (0 : Pt) ∈ consSet n s.rows := by
      rw [cn_mem_consSet]
      refine ⟨fun _ _ => rfl, fun c hc' => ?_⟩
      have := (gn_satisfiesAll_iff (n := n) (D := (originOfDim n).divisor) s _ olen (fun _ => rfl)).mp ho c hc'
      rw [divisor_point _ (by rw [o4]; decide)] at this
      have := (gn_cert_pt c (hc c hc').1 _ olen opt).mp this
      rw [o5] at this; exact this
    have hne : (consSet n s.rows).Nonempty := ⟨0, h0⟩
    apply Set.Subset.antisymm (cn_consSet_subset_space n s.rows)
    refine gn_space_of_units h0 (fun i hi a ha q => ?_)
    obtain ⟨l1, l2, l3, l4⟩ := gn_lineOfDim_ok n i hi
    have := (gn_satisfiesAll_subsumes s hc hne _ l1 (by rw [l2])).mp (hl i (List.mem_range.mpr hi))
    unfold gn_Subsumes at this
    rw [if_pos l3, l4] at this
    exact this.2 a ha q
  · intro hU
    have hne : (consSet n s.rows).Nonempty := by rw [hU]; exact gn_space_nonempty n
    constructor
    · intro i hi
      have hi' : i < n := List.mem_range.mp hi
      obtain ⟨l1, l2, l3, l4⟩ := gn_lineOfDim_ok n i hi'
      refine (gn_satisfiesAll_subsumes s hc hne _ l1 (by rw [l2])).mpr ?_
      unfold gn_Subsumes
      rw [if_pos l3, l4, hU]
      exact ⟨gn_space_nonempty n, fun a ha q => gn_space_closed_units n i hi' a ha q⟩
    · refine (gn_satisfiesAll_subsumes s hc hne _ o1 (by rw [o2])).mpr ?_
      unfold gn_Subsumes
      rw [if_neg (by rw [o3]; simp), if_neg (by rw [o4]; decide), o5, hU]
      exact fun _ _ => rfl

/-- one tautological row describes the whole space -/
theorem gn_univ_of_taut {n : Nat} {cs : List CRow} (h : (cs.length == 1 && (rowAt cs 0).isTautological) = true) :
    consSet n cs = {x | Supp n x} := by
  rw [Bool.and_eq_true, beq_iff_eq] at h
  obtain ⟨r, hr⟩ := List.length_eq_one_iff.mp h.1
  rw [hr] at h ⊢
  ext x
  rw [cn_mem_consSet]
  constructor
  · exact fun hx => hx.1
  · intro hx
    refine ⟨hx, fun r' hr' => ?_⟩
    rw [List.mem_singleton.mp hr']
    exact gn_taut_mem r h.2 x

/-- **`Grid::is_universe()`**: the invariant and the denotation are kept, the answer `true` is right.  `_partial`: for the
    answer `false` on MINIMIZED congruences the statement takes `hmin` — a minimized congruence system of the whole space
    consists of one tautological row — as a hypothesis; on congruences that are not minimized the answer is proved right
    in both directions. -/
theorem gn_isUniverse_partial
    (hmin : ∀ g : Grid, GridInv g → g.st.empty = false → 0 < g.spaceDim → g.st.cMin = true →
      g.sem = {x | Supp g.spaceDim x} → (g.con.length == 1 && (rowAt g.con 0).isTautological) = true)
    (g : Grid) (hI : GridInv g) :
    GridInv (isUniverse g).1 ∧ (isUniverse g).1.sem = g.sem ∧ (isUniverse g).1.spaceDim = g.spaceDim ∧
    ((isUniverse g).2 = true ↔ g.sem = {x | Supp g.spaceDim x}) := by
  have hminIff : ∀ g : Grid, GridInv g → g.st.empty = false → 0 < g.spaceDim → g.st.cMin = true →
      ((g.con.length == 1 && (rowAt g.con 0).isTautological) = true ↔ g.sem = {x | Supp g.spaceDim x}) := by
    intro g hI he hn hm
    obtain ⟨_, _, s⟩ := gn_sem_of_cUp hI hn he (hI.cminUp hm)
    exact ⟨fun h => by rw [s]; exact gn_univ_of_taut h, hmin g hI he hn hm⟩
  unfold isUniverse
  cases he : g.markedEmpty with
  | true =>
    rw [if_pos rfl]
    refine ⟨hI, rfl, rfl, ⟨fun h => (by cases h), fun h => ?_⟩⟩
    rw [gn_sem_of_empty (g := g) he] at h
    exact absurd h.symm (Set.nonempty_iff_ne_empty.mp (gn_space_nonempty _))
  | false =>
  have he' : g.st.empty = false := he
  rw [if_neg (by simp)]
  by_cases h0 : g.spaceDim = 0
  · rw [if_pos h0]
    exact ⟨hI, rfl, rfl, ⟨fun _ => by rw [gn_sem_dim0 he' h0, h0], fun _ => rfl⟩⟩
  · rw [if_neg h0]
    have hn : 0 < g.spaceDim := by omega
    by_cases hcm : g.congruencesAreUpToDate = true ∧ g.congruencesAreMinimized = true
    · rw [if_pos hcm]
      exact ⟨hI, rfl, rfl, hminIff g hI he' hn hcm.2⟩
    · rw [if_neg hcm]
      cases hcu : g.congruencesAreUpToDate with
      | false =>
        rw [if_pos (by simp)]
        have hc' : g.st.cUp = false := hcu
        have hg : g.st.gUp = true := by
          rcases hI.some he' hn with h | h
          · rw [hc'] at h; cases h
          · exact h
        obtain ⟨a, b, c, d, _, _, _, f⟩ := updateCongruences_spec g hI he' hn hg hc'
        refine ⟨a, b, c, ?_⟩
        have := hminIff (updateCongruences g) a d (by rw [c]; exact hn) f
        rw [b, c] at this
        exact this
      | true =>
        rw [if_neg (by simp)]
        have hc' : g.st.cUp = true := hcu
        obtain ⟨_, w, s⟩ := gn_sem_of_cUp hI hn he' hc'
        refine ⟨hI, rfl, rfl, ?_⟩
        rw [s]
        exact gn_univ_test g.cs w

end PPLV.Lattice.GO
