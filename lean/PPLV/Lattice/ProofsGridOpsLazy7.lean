import PPLV.Lattice.ProofsGridOpsLazy1
import PPLV.Lattice.ProofsRedCgStepSol

/-!
# The `Grid` object — part 7: the constructors, the copy constructor, `operator=`
# (Grid_nonpublic.cc:51-179, Grid_public.cc:38, :255)
-/
namespace PPLV.Lattice.GO
open PPLV.Lattice PPLV.Lattice.Red

/-! ### copying the up-to-date descriptions of an invariant state -/

/-- a state with the status word, dimension and `dim_kinds` of `y` and (at least) the up-to-date systems of `y` -/
theorem lz_inv_of_copy {y r : Grid} (hI : GridInv y) (he : y.st.empty = false) (hpos : 0 < y.spaceDim)
    (hst : r.st = y.st) (hsd : r.spaceDim = y.spaceDim) (hdk : r.dk = y.dk)
    (hc : y.st.cUp = true → r.con = y.con ∧ r.conDim = y.conDim)
    (hg : y.st.gUp = true → r.gen = y.gen ∧ r.genDim = y.genDim) : GridInv r ∧ r.sem = y.sem := by
  have he' : r.st.empty = false := by rw [hst]; exact he
  have hpos' : 0 < r.spaceDim := by omega
  have hI' : GridInv r := by
    refine lz_inv_of_pos r he' hpos' (by rw [hst]; exact hI.hi0 he) (by rw [hst]; exact hI.some he hpos)
      (by rw [hst]; exact hI.cminUp) (by rw [hst]; exact hI.gminUp) (fun h => ?_) (fun h => ?_) (fun h1 h2 => ?_)
      (fun h => ?_) (fun h1 h2 => ?_) (fun h => ?_) (fun h1 h2 => ?_)
    · rw [hst] at h
      obtain ⟨e1, e2⟩ := hc h
      rw [e1, e2, hsd]; exact hI.cwf he hpos h
    · rw [hst] at h
      obtain ⟨e1, e2⟩ := hg h
      rw [e1, e2, hsd]; exact hI.gwf he hpos h
    · rw [hst] at h1 h2
      rw [(hc h1).1, (hg h2).1, hsd]; exact hI.agree he hpos h1 h2
    · rw [hst] at h
      rw [(hc (hI.cminUp h)).1, hdk, hsd]; exact hI.cmin he hpos h
    · rw [hst] at h1 h2
      rw [(hc (hI.cminUp h1)).1, hdk, hsd]; exact hI.cminConv he hpos h1 h2
    · rw [hst] at h
      rw [(hg (hI.gminUp h)).1, hdk, hsd]; exact hI.gmin he hpos h
    · rw [hst] at h1 h2
      rw [(hg (hI.gminUp h1)).1, hdk, hsd]; exact hI.gminConv he hpos h1 h2
  refine ⟨hI', ?_⟩
  cases hgu : y.st.gUp
  · have hcu : y.st.cUp = true := by
      rcases hI.some he hpos with h | h
      · exact h
      · rw [hgu] at h; exact absurd h (by decide)
    rw [lz_sem_of_not_gUp he' hpos' (by rw [hst]; exact hgu), lz_sem_of_not_gUp he hpos hgu, (hc hcu).1, hsd]
  · rw [lz_sem_of_gUp he' hpos' (by rw [hst]; exact hgu), lz_sem_of_gUp he hpos hgu, (hg hgu).1, hsd]

/-! ### the copy constructor -/

theorem copyCtor_spec (y : Grid) (hI : GridInv y) :
    GridInv (copyCtor y) ∧ (copyCtor y).sem = y.sem ∧ (copyCtor y).spaceDim = y.spaceDim ∧ (copyCtor y).st = y.st := by
  cases he : y.st.empty
  swap
  · have hU : copyCtor y = setEmpty { spaceDim := y.spaceDim, st := y.st, conDim := 0, con := [], genDim := 0, gen := [], dk := y.dk } := by
      simp [copyCtor, Grid.markedEmpty, he]
    rw [hU]
    exact ⟨lz_setEmpty_inv _, by rw [lz_setEmpty_sem, lz_sem_of_empty he], rfl, ((hI.emp he).1).symm⟩
  by_cases h0 : y.spaceDim = 0
  · have hU : copyCtor y = y := by
      simp [copyCtor, Grid.markedEmpty, he, h0]
      cases y; simp_all
    rw [hU]
    exact ⟨hI, rfl, rfl, rfl⟩
  have hpos : 0 < y.spaceDim := by omega
  have hf : (copyCtor y).st = y.st ∧ (copyCtor y).spaceDim = y.spaceDim ∧ (copyCtor y).dk = y.dk ∧
      (y.st.cUp = true → (copyCtor y).con = y.con ∧ (copyCtor y).conDim = y.conDim) ∧
      (y.st.gUp = true → (copyCtor y).gen = y.gen ∧ (copyCtor y).genDim = y.genDim) := by
    cases hc : y.st.cUp <;> cases hg : y.st.gUp <;>
      simp [copyCtor, Grid.markedEmpty, he, h0, Grid.congruencesAreUpToDate, Grid.generatorsAreUpToDate, hc, hg]
  obtain ⟨f1, f2, f3, f4, f5⟩ := hf
  have key := lz_inv_of_copy hI he hpos f1 f2 f3 f4 f5
  exact ⟨key.1, key.2, f2, f1⟩

theorem copyCtor_inv (y : Grid) (hI : GridInv y) : GridInv (copyCtor y) := (copyCtor_spec y hI).1
theorem copyCtor_sem (y : Grid) (hI : GridInv y) : (copyCtor y).sem = y.sem := (copyCtor_spec y hI).2.1

/-! ### `operator=` (the target `x` is arbitrary) -/

theorem assign_spec (x y : Grid) (hI : GridInv y) :
    GridInv (assign x y) ∧ (assign x y).sem = y.sem ∧ (assign x y).spaceDim = y.spaceDim := by
  cases he : y.st.empty
  swap
  · have hU : assign x y = setEmpty { x with spaceDim := y.spaceDim, dk := y.dk } := by
      simp [assign, Grid.markedEmpty, he]
    rw [hU]
    exact ⟨lz_setEmpty_inv _, by rw [lz_setEmpty_sem, lz_sem_of_empty he], rfl⟩
  by_cases h0 : y.spaceDim = 0
  · have hU : assign x y = setZeroDimUniv { x with spaceDim := y.spaceDim, dk := y.dk } := by
      simp [assign, Grid.markedEmpty, he, h0]
    rw [hU]
    exact ⟨lz_setZeroDimUniv_inv _, by rw [lz_setZeroDimUniv_sem, lz_sem_of_zdim he h0], h0.symm⟩
  have hpos : 0 < y.spaceDim := by omega
  have hf : (assign x y).st = y.st ∧ (assign x y).spaceDim = y.spaceDim ∧ (assign x y).dk = y.dk ∧
      (y.st.cUp = true → (assign x y).con = y.con ∧ (assign x y).conDim = y.conDim) ∧
      (y.st.gUp = true → (assign x y).gen = y.gen ∧ (assign x y).genDim = y.genDim) := by
    cases hc : y.st.cUp <;> cases hg : y.st.gUp <;>
      simp [assign, Grid.markedEmpty, he, h0, Grid.congruencesAreUpToDate, Grid.generatorsAreUpToDate, hc, hg]
  obtain ⟨f1, f2, f3, f4, f5⟩ := hf
  have key := lz_inv_of_copy hI he hpos f1 f2 f3 f4 f5
  exact ⟨key.1, key.2, f2⟩

theorem assign_inv (x y : Grid) (hI : GridInv y) : GridInv (assign x y) := (assign_spec x y hI).1
theorem assign_sem (x y : Grid) (hI : GridInv y) : (assign x y).sem = y.sem := (assign_spec x y hI).2.1

/-! ### `construct(num_dimensions, EMPTY)` and the 0-dimensional universe -/

theorem lz_constructDeg_empty (n : Nat) : constructDeg n false = setEmpty (blank n) := rfl

theorem lz_constructDeg_zdim : constructDeg 0 true = setZeroDimUniv (blank 0) := rfl

theorem constructDeg_empty_inv (n : Nat) : GridInv (constructDeg n false) := lz_setEmpty_inv _
theorem constructDeg_empty_sem (n : Nat) : (constructDeg n false).sem = ∅ := lz_setEmpty_sem _
theorem constructDeg_zdim_inv : GridInv (constructDeg 0 true) := lz_setZeroDimUniv_inv _
theorem constructDeg_zdim_sem : (constructDeg 0 true).sem = {x | Supp 0 x} := lz_setZeroDimUniv_sem _
theorem constructDeg_spaceDim (n : Nat) (u : Bool) : (constructDeg n u).spaceDim = n := by
  unfold constructDeg
  cases u
  · rfl
  · by_cases h : n = 0
    · subst h; rfl
    · simp [h, blank, Grid.setCongruencesMinimized, Grid.setGeneratorsMinimized]

/-! ### `construct(Congruence_System&)` -/

theorem lz_normalizeModuli_cwf {n : Nat} {rows : List CRow} (h : CWf n rows) : CWf n (normalizeModuli rows) := by
  have h2 := (normalizeModuli_spec n rows (RWf_of_CWf n rows h)).2.1
  intro r hr
  obtain ⟨i, hi, rfl⟩ := (gc_mem_iff_rowAt _ _).mp hr
  exact h2 i hi

theorem lz_normalizeModuli_consSet {n : Nat} {rows : List CRow} (h : CWf n rows) :
    consSet n (normalizeModuli rows) = consSet n rows := by
  ext x
  simp only [consSet, Set.mem_ofPred_eq]
  rw [cgsSem_iff, cgsSem_iff, normalizeModuli_sol n rows h x]

/-- positive dimension: the congruences (with normalised moduli) are the only description -/
theorem constructCgs_pos (cgs : CSys) (hw : CWf cgs.dim cgs.rows) (hpos : 0 < cgs.dim) :
    GridInv (constructCgs cgs) ∧ (constructCgs cgs).sem = consSet cgs.dim cgs.rows ∧
    (constructCgs cgs).spaceDim = cgs.dim ∧ (constructCgs cgs).st = { cUp := true } := by
  have hU : constructCgs cgs =
      ({ ({ blank cgs.dim with conDim := cgs.dim } : Grid) with conDim := cgs.dim, con := normalizeModuli cgs.rows }).setCongruencesUpToDate := by
    simp [constructCgs, hpos, CSys.normalizeModuli]
  rw [hU]
  have hI : GridInv (({ ({ blank cgs.dim with conDim := cgs.dim } : Grid) with conDim := cgs.dim, con := normalizeModuli cgs.rows }).setCongruencesUpToDate) := by
    refine lz_inv_of_pos _ rfl hpos rfl (Or.inl rfl) (fun h => by simp [Grid.setCongruencesUpToDate, blank] at h)
      (fun h => by simp [Grid.setCongruencesUpToDate, blank] at h) (fun _ => ⟨rfl, lz_normalizeModuli_cwf hw⟩)
      (fun h => by simp [Grid.setCongruencesUpToDate, blank] at h)
      (fun _ h => by simp [Grid.setCongruencesUpToDate, blank] at h)
      (fun h => by simp [Grid.setCongruencesUpToDate, blank] at h)
      (fun h => by simp [Grid.setCongruencesUpToDate, blank] at h)
      (fun h => by simp [Grid.setCongruencesUpToDate, blank] at h)
      (fun h => by simp [Grid.setCongruencesUpToDate, blank] at h)
  refine ⟨hI, ?_, rfl, rfl⟩
  rw [lz_sem_of_not_gUp (g := _) rfl hpos rfl]
  exact lz_normalizeModuli_consSet hw

/-- dimension 0: marked empty exactly when some congruence is inconsistent, else the 0-dimensional universe -/
theorem constructCgs_zdim (cgs : CSys) (h0 : cgs.dim = 0) :
    GridInv (constructCgs cgs) ∧ (constructCgs cgs).spaceDim = 0 ∧
    (cgs.rows.any (·.isInconsistent) = true → (constructCgs cgs).sem = ∅) ∧
    (cgs.rows.any (·.isInconsistent) = false → (constructCgs cgs).sem = {x | Supp 0 x}) := by
  cases ha : cgs.rows.any (·.isInconsistent)
  · have hU : constructCgs cgs = setZeroDimUniv ({ blank cgs.dim with conDim := cgs.dim } : Grid) := by
      simp only [constructCgs, h0, ha]; simp
    rw [hU]
    exact ⟨lz_setZeroDimUniv_inv _, rfl, fun h => by simp at h, fun _ => lz_setZeroDimUniv_sem _⟩
  · have hU : constructCgs cgs = setEmpty (blank 0) := by
      simp only [constructCgs, h0, ha]
      rw [if_neg (Nat.lt_irrefl 0)]
      rfl
    rw [hU]
    exact ⟨lz_setEmpty_inv _, rfl, fun _ => lz_setEmpty_sem _, fun h => by simp at h⟩

theorem constructCgs_inv (cgs : CSys) (hw : CWf cgs.dim cgs.rows) : GridInv (constructCgs cgs) := by
  by_cases h0 : cgs.dim = 0
  · exact (constructCgs_zdim cgs h0).1
  · exact (constructCgs_pos cgs hw (by omega)).1

/-- `x ≡ 0 (mod 2)`, `y ≡ 0 (mod 3)`: the moduli become 6 -/
example : CWf 2 [⟨[0, 1, 0], 2⟩, ⟨[0, 0, 1], 3⟩] ∧
    (constructCgs ⟨2, [⟨[0, 1, 0], 2⟩, ⟨[0, 0, 1], 3⟩]⟩).con = [⟨[0, 3, 0], 6⟩, ⟨[0, 0, 2], 6⟩] := by
  refine ⟨?_, by decide +kernel⟩
  intro r hr
  simp only [List.mem_cons, List.not_mem_nil, or_false] at hr
  rcases hr with rfl | rfl <;> exact ⟨rfl, by decide⟩

/-! ### `construct(Grid_Generator_System&)` -/

/-- `none` (`throw_invalid_generators`) exactly when there are rows but no point -/
theorem constructGgs_none_iff (ggs : GSys) :
    constructGgs ggs = none ↔ (ggs.rows ≠ [] ∧ ggs.hasPoints = false) := by
  unfold constructGgs
  cases hr : ggs.rows with
  | nil => simp
  | cons a l =>
    cases hp : ggs.hasPoints
    · simp
    · simp only [List.isEmpty_cons, Bool.false_eq_true, if_false, Bool.not_true]
      by_cases h0 : ggs.dim = 0 <;> simp [h0]

/-- no rows: the empty grid -/
theorem constructGgs_nil (ggs : GSys) (h : ggs.rows = []) :
    ∃ r, constructGgs ggs = some r ∧ GridInv r ∧ r.sem = ∅ ∧ r.spaceDim = ggs.dim := by
  have hcs : (CSys.mk ggs.dim []).insert zeroDimFalse = falseCSys ggs.dim := by
    unfold falseCSys
    rw [lz_single_zeroDimFalse]
    simp only [CSys.insert, CSys.insertVerbatim, CSys.setSpaceDim, CRow.spaceDim]
    have e : zeroDimFalse.strongNormalize = ⟨[1], 0⟩ := by decide
    rw [e]
    by_cases h0 : ggs.dim = 0
    · simp [h0]
    · have : ¬ ([1] : Row).length - 1 ≥ ggs.dim := by simp; omega
      simp [h0, Ne.symm h0]
  refine ⟨setEmpty (blank ggs.dim), ?_, lz_setEmpty_inv _, lz_setEmpty_sem _, rfl⟩
  simp only [constructGgs, h, List.isEmpty_nil, if_true, hcs]
  rfl

/-- dimension 0 with a point: the 0-dimensional universe -/
theorem constructGgs_zdim (ggs : GSys) (hr : ggs.rows ≠ []) (hp : ggs.hasPoints = true) (h0 : ggs.dim = 0) :
    ∃ r, constructGgs ggs = some r ∧ GridInv r ∧ r.sem = {x | Supp 0 x} ∧ r.spaceDim = 0 := by
  refine ⟨setZeroDimUniv ({ blank ggs.dim with conDim := ggs.dim } : Grid), ?_, lz_setZeroDimUniv_inv _,
    lz_setZeroDimUniv_sem _, rfl⟩
  cases hrows : ggs.rows with
  | nil => exact absurd hrows hr
  | cons a l => simp [constructGgs, hrows, hp, h0]

/-- positive dimension with a point: the generators with normalised divisors are the only description.  The facts
    about `normalize_divisors(sys)` belong to the generator family (`gn_normalizeDivisors1` of
    `ProofsGridOpsGen3.lean`: for a well-formed system with a point the output is `GWf` and `GNorm`); they are taken as
    the hypothesis `hnd`. -/
theorem constructGgs_pos (ggs : GSys) (hr : ggs.rows ≠ []) (hp : ggs.hasPoints = true) (hpos : 0 < ggs.dim)
    (hnd : GWf ggs.dim (normalizeDivisors1 ggs).rows ∧
      GNorm ggs.dim (firstPointDiv (normalizeDivisors1 ggs).rows) (normalizeDivisors1 ggs).rows) :
    ∃ r, constructGgs ggs = some r ∧ GridInv r ∧ r.sem = gensSet ggs.dim (normalizeDivisors1 ggs).rows ∧
      r.spaceDim = ggs.dim ∧ r.st = { gUp := true } := by
  have h0 : ggs.dim ≠ 0 := by omega
  refine ⟨(({ ({ blank ggs.dim with conDim := ggs.dim } : Grid) with
      genDim := (normalizeDivisors1 ggs).dim, gen := (normalizeDivisors1 ggs).rows }).setGeneratorsUpToDate), ?_, ?_, ?_, rfl, rfl⟩
  · cases hrows : ggs.rows with
    | nil => exact absurd hrows hr
    | cons a l => simp [constructGgs, hrows, hp, h0]
  · refine lz_inv_of_pos _ rfl hpos rfl (Or.inr rfl) (fun h => by simp [Grid.setGeneratorsUpToDate, blank] at h)
      (fun h => by simp [Grid.setGeneratorsUpToDate, blank] at h)
      (fun h => by simp [Grid.setGeneratorsUpToDate, blank] at h) (fun _ => ⟨rfl, hnd.1, hnd.2⟩)
      (fun h => by simp [Grid.setGeneratorsUpToDate, blank] at h)
      (fun h => by simp [Grid.setGeneratorsUpToDate, blank] at h)
      (fun h => by simp [Grid.setGeneratorsUpToDate, blank] at h)
      (fun h => by simp [Grid.setGeneratorsUpToDate, blank] at h)
      (fun h => by simp [Grid.setGeneratorsUpToDate, blank] at h)
  · exact lz_sem_of_gUp (g := _) rfl hpos rfl

/-- points `1/2` and `1/3`: the common divisor becomes 6 -/
example : (constructGgs ⟨1, [⟨false, [2, 1, 0]⟩, ⟨false, [3, 1, 0]⟩]⟩).map (·.gen)
    = some [⟨false, [6, 3, 0]⟩, ⟨false, [6, 2, 0]⟩] := by decide +kernel

end PPLV.Lattice.GO
