import PPLV.Lattice.ProofsGridOpsCon18
import PPLV.Lattice.ProofsGridOpsLazy6

/-!
# `Grid` stage 3, part 27: `expand_space_dimension(var, m)` (Grid_chdims.cc:402), row and system level

Every non-tautological congruence of the embedded system whose coefficient of `var` is not zero is repeated with that
coefficient moved to each new dimension (`cn_moved`); the rows are collected by `insert_verbatim` into a fresh system.
-/
namespace PPLV.Lattice.GO
open PPLV.Lattice PPLV.Lattice.Red

/-- a tautological congruence holds everywhere -/
theorem cn_isTautological_rsem (cg : CRow) (h : cg.isTautological = true) (x : Pt) : rsem cg x := by
  unfold CRow.isTautological at h
  rw [Bool.and_eq_true] at h
  have hz : ∀ i, 0 < i → Red.get cg.e i = 0 := by
    intro i hi
    by_cases hl : i < cg.e.length
    · have := h.2
      unfold allZ at this
      rw [List.all_eq_true] at this
      have := this i (by rw [List.mem_range']; exact ⟨i - 1, by omega, by omega⟩)
      simpa using this
    · exact get_of_length_le _ _ (by omega)
  unfold rsem
  rw [evalRow_const cg.e x hz]
  obtain ⟨t, ht⟩ := (cn_const_flag _ _).mp h.1
  exact ⟨t, by exact_mod_cast ht⟩

/-- the congruence with the coefficient of `v` moved to `dst` -/
def cn_moved (v dst : Nat) (cg : CRow) : CRow :=
  { cg with e := (cg.e.set (v + 1) 0).set (dst + 1) (Red.get cg.e (dst + 1) + Red.get cg.e (v + 1)) }

theorem cn_moved_length (v dst : Nat) (cg : CRow) : (cn_moved v dst cg).e.length = cg.e.length := by simp [cn_moved]

theorem cn_rsem_moved (v dst : Nat) (cg : CRow) (hv : v + 1 < cg.e.length) (hd : dst + 1 < cg.e.length) (hne : v ≠ dst)
    (y : Pt) : rsem (cn_moved v dst cg) y ↔ rsem cg (cn_upd y v (y dst)) := by
  have h1 := cn_evalRow_set cg.e y v 0 hv
  have hg : Red.get (cg.e.set (v + 1) 0) (dst + 1) = Red.get cg.e (dst + 1) := by
    rw [get_set, if_neg (by omega)]
  have h2 := cn_evalRow_set (cg.e.set (v + 1) 0) y dst (Red.get cg.e (dst + 1) + Red.get cg.e (v + 1)) (by simpa using hd)
  rw [hg, h1] at h2
  unfold rsem cn_moved
  simp only
  rw [h2, cn_evalRow_upd]
  have : evalRow cg.e y + ((0 : Int) - (Red.get cg.e (v + 1) : ℚ)) * y v +
      (((Red.get cg.e (dst + 1) + Red.get cg.e (v + 1) : Int) : ℚ) - (Red.get cg.e (dst + 1) : ℚ)) * y dst =
      evalRow cg.e y + (Red.get cg.e (v + 1) : ℚ) * (y dst - y v) := by push_cast; ring
  rw [this]

/-! ### the collected system -/

/-- the system `insert_verbatim` builds from rows of dimension `N`, starting from the empty system of dimension 0 -/
def cn_st (N : Nat) (acc : List CRow) : CSys := if acc = [] then { dim := 0, rows := [] } else { dim := N, rows := acc }

theorem cn_st_insert (N : Nat) (acc : List CRow) (cg : CRow) (hl : cg.e.length = N + 1) (hN : 0 < N) :
    (cn_st N acc).insertVerbatim cg = cn_st N (acc ++ [cg]) := by
  have hsd : cg.spaceDim = N := by unfold CRow.spaceDim; omega
  have hr : cn_st N (acc ++ [cg]) = ⟨N, acc ++ [cg]⟩ := by unfold cn_st; rw [if_neg (by simp)]
  rw [hr]
  by_cases ha : acc = []
  · subst ha
    have h0 : cn_st N [] = ⟨0, []⟩ := rfl
    rw [h0]
    unfold CSys.insertVerbatim
    rw [if_pos (show cg.spaceDim ≥ (⟨0, []⟩ : CSys).dim from Nat.zero_le _), hsd]
    unfold CSys.setSpaceDim
    rw [if_pos (show (⟨0, []⟩ : CSys).dim ≠ N from by show 0 ≠ N; omega)]
    rfl
  · have h0 : cn_st N acc = ⟨N, acc⟩ := by unfold cn_st; rw [if_neg ha]
    rw [h0]
    unfold CSys.insertVerbatim
    rw [if_pos (show cg.spaceDim ≥ (⟨N, acc⟩ : CSys).dim from by rw [hsd]), hsd,
      cn_CSys_setSpaceDim_same ⟨N, acc⟩]

theorem cn_st_foldl (N : Nat) (hN : 0 < N) (L : List CRow) : ∀ acc, (∀ r ∈ L, r.e.length = N + 1) →
    L.foldl CSys.insertVerbatim (cn_st N acc) = cn_st N (acc ++ L) := by
  induction L with
  | nil => intro acc _; simp
  | cons r L ih =>
    intro acc h
    rw [List.foldl_cons, cn_st_insert N acc r (h r (List.mem_cons_self ..)) hN,
      ih _ (fun r' hr' => h r' (List.mem_cons_of_mem _ hr'))]
    simp

/-- the rows `expand_space_dimension` adds for one congruence -/
def cn_expandRows (oldDim v m : Nat) (cg : CRow) : List CRow :=
  if Red.get cg.e (v + 1) = 0 then [] else (List.range' oldDim m).map (fun dst => cn_moved v dst cg)

/-- the new system of `expand_space_dimension` -/
def cn_expandCgs (oldDim v m : Nat) (con : List CRow) : CSys :=
  (con.filter fun cg => !cg.isTautological).foldl (fun (s : CSys) cg =>
      let coeff := Red.get cg.e (v + 1)
      if coeff = 0 then s
      else (List.range' oldDim m).foldl (fun (s : CSys) dst =>
        s.insertVerbatim { cg with e := (cg.e.set (v + 1) 0).set (dst + 1) (Red.get cg.e (dst + 1) + coeff) }) s)
      { dim := 0, rows := [] }

theorem cn_expandCgs_eq (N oldDim v m : Nat) (hN : 0 < N) (con : List CRow) (hw : ∀ r ∈ con, r.e.length = N + 1) :
    cn_expandCgs oldDim v m con =
      cn_st N ((con.filter fun cg => !cg.isTautological).flatMap (cn_expandRows oldDim v m)) := by
  unfold cn_expandCgs
  have hw' : ∀ r ∈ con.filter (fun cg => !cg.isTautological), r.e.length = N + 1 :=
    fun r hr => hw r (List.mem_of_mem_filter hr)
  generalize con.filter (fun cg => !cg.isTautological) = F at hw'
  have key : ∀ acc, F.foldl (fun (s : CSys) cg =>
      let coeff := Red.get cg.e (v + 1)
      if coeff = 0 then s
      else (List.range' oldDim m).foldl (fun (s : CSys) dst =>
        s.insertVerbatim { cg with e := (cg.e.set (v + 1) 0).set (dst + 1) (Red.get cg.e (dst + 1) + coeff) }) s)
      (cn_st N acc) = cn_st N (acc ++ F.flatMap (cn_expandRows oldDim v m)) := by
    induction F with
    | nil => intro acc; simp
    | cons cg F ih =>
      intro acc
      rw [List.foldl_cons, List.flatMap_cons]
      have hstep : (let coeff := Red.get cg.e (v + 1)
          if coeff = 0 then cn_st N acc
          else (List.range' oldDim m).foldl (fun (s : CSys) dst =>
            s.insertVerbatim { cg with e := (cg.e.set (v + 1) 0).set (dst + 1) (Red.get cg.e (dst + 1) + coeff) })
            (cn_st N acc)) = cn_st N (acc ++ cn_expandRows oldDim v m cg) := by
        unfold cn_expandRows
        by_cases hc : Red.get cg.e (v + 1) = 0
        · simp only [hc, if_true]; simp
        · simp only [if_neg hc]
          have := cn_st_foldl N hN ((List.range' oldDim m).map (fun dst => cn_moved v dst cg)) acc (fun r hr => by
            obtain ⟨d, _, rfl⟩ := List.mem_map.mp hr
            rw [cn_moved_length]; exact hw' cg (List.mem_cons_self ..))
          rw [List.foldl_map] at this
          exact this
      rw [hstep, ih (fun r hr => hw' r (List.mem_cons_of_mem _ hr)), List.append_assoc]
  have := key []
  simpa [cn_st] using this

end PPLV.Lattice.GO
