import PPLV.Lattice.ProofsGridOpsGen31

/-!
# Generator side of the `Grid` object, part 32 — `GridInv` does not make the answer `TVB_FALSE` of
# `quick_equivalence_test` right: two triangular generator systems of `ℤ²`

`GridInv` says that a system flagged minimized is triangular (`upper_triangular`), which leaves the entries after the
pivots free; `Grid::simplify` also reduces them, and `quick_equivalence_test` relies on that.  The second state below
is not one the library builds.
-/
namespace PPLV.Lattice.GO
open PPLV.Lattice PPLV.Lattice.Red

/-- a state that is described by minimized generators only -/
theorem gn_inv_gens_min {g : Grid} (hn : 0 < g.spaceDim) (he : g.st.empty = false) (hcu : g.st.cUp = false)
    (hgu : g.st.gUp = true) (hcm : g.st.cMin = false) (hhi : g.st.hi = 0)
    (hgd : g.genDim = g.spaceDim) (hw : GWf g.spaceDim g.gen) {D : Int} (hN : GNorm g.spaceDim D g.gen)
    (hdk : g.dk.length = g.spaceDim + 1) (hut : upperTriangular g.spaceDim g.gen g.dk = true)
    (hk0 : kind g.dk 0 = PARAMETER) (hconv : ConvG g.spaceDim g.gen g.dk) :
    GridInv g ∧ g.sem = gn_set g.gen := by
  have hne : g.spaceDim ≠ 0 := by omega
  refine ⟨⟨?_, ?_, ?_, ?_, ?_, ?_, ?_, ?_, ?_, ?_, ?_, ?_, ?_⟩, ?_⟩
  · intro h; rw [he] at h; cases h
  · intro _ h; exact absurd h hne
  · intro _; exact hhi
  · intro _ _; exact Or.inr hgu
  · intro h; rw [hcm] at h; cases h
  · intro _; exact hgu
  · intro _ _ h; rw [hcu] at h; cases h
  · intro _ _ _; exact ⟨hgd, hw, by rw [gn_firstPointDiv hN]; exact hN⟩
  · intro _ _ h; rw [hcu] at h; cases h
  · intro _ _ h; rw [hcm] at h; cases h
  · intro _ _ h; rw [hcm] at h; cases h
  · intro _ _ _; exact ⟨hdk, hut, hk0⟩
  · intro _ _ _ _; exact hconv
  · unfold Grid.sem
    rw [he, if_neg (by simp), if_neg hne, hgu, if_pos rfl]
    exact gn_bridge hN hw

theorem gn_vecOf_par2 (a b : Int) : gn_vecOf ⟨false, [0, a, b, 1]⟩ = fun i => if i = 0 then (a : ℚ) else if i = 1 then (b : ℚ) else 0 := by
  funext i
  rcases i with _ | _ | i
  · simp [gn_vecOf, GRow.spaceDim, GRow.divisor, GRow.isLineOrParameter, Red.get]
  · simp [gn_vecOf, GRow.spaceDim, GRow.divisor, GRow.isLineOrParameter, Red.get]
  · simp [gn_vecOf, GRow.spaceDim]

def gn_cexX : Grid := Grid.mk 2 { gUp := true, gMin := true } 2 [] 2
  [⟨false, [1, 0, 0, 0]⟩, ⟨false, [0, 1, 0, 1]⟩, ⟨false, [0, 0, 1, 1]⟩] [0, 0, 0]
def gn_cexY : Grid := Grid.mk 2 { gUp := true, gMin := true } 2 [] 2
  [⟨false, [1, 0, 0, 0]⟩, ⟨false, [0, 1, 1, 1]⟩, ⟨false, [0, 0, 1, 1]⟩] [0, 0, 0]

theorem gn_cex_inv (rows : List GRow) (hrows : rows = gn_cexX.gen ∨ rows = gn_cexY.gen) :
    GridInv (Grid.mk 2 { gUp := true, gMin := true } 2 [] 2 rows [0, 0, 0]) ∧
    (Grid.mk 2 { gUp := true, gMin := true } 2 [] 2 rows [0, 0, 0]).sem = gn_set rows := by
  refine gn_inv_gens_min (D := 1) (show 0 < 2 by decide) rfl rfl rfl rfl rfl rfl ?_ ?_ rfl ?_ rfl ⟨?_, ?_, ?_⟩
  · rcases hrows with rfl | rfl <;>
    · intro r hr
      simp only [gn_cexX, gn_cexY, List.mem_cons, List.not_mem_nil, or_false] at hr
      rcases hr with rfl | rfl | rfl <;> rfl
  · rcases hrows with rfl | rfl <;>
    exact ⟨by decide, ⟨_, List.mem_cons_self, rfl, rfl⟩, by decide, by decide, by decide⟩
  · rcases hrows with rfl | rfl <;> decide
  · intro d hd
    have hd' : d < 3 := hd
    have : d = 0 ∨ d = 1 ∨ d = 2 := by omega
    rcases this with rfl | rfl | rfl <;> (show kind [0, 0, 0] _ ≤ 2; decide)
  · rcases hrows with rfl | rfl <;>
    · intro r hr hl
      simp only [gn_cexX, gn_cexY, List.mem_cons, List.not_mem_nil, or_false] at hr
      rcases hr with rfl | rfl | rfl <;> cases hl
  · intro r _ _ d hd _ _
    have hd' : d < 3 := hd
    have : d = 0 ∨ d = 1 ∨ d = 2 := by omega
    rcases this with rfl | rfl | rfl <;> (show kind [0, 0, 0] _ = PARAMETER; rfl)

theorem gn_cex_sem : gn_set gn_cexX.gen = gn_set gn_cexY.gen := by
  have eA : gn_vecOf ⟨false, [0, 1, 0, 1]⟩ = gn_vecOf ⟨false, [0, 1, 1, 1]⟩ - gn_vecOf ⟨false, [0, 0, 1, 1]⟩ := by
    rw [gn_vecOf_par2, gn_vecOf_par2, gn_vecOf_par2]
    funext i
    rcases i with _ | _ | i <;> simp
  have eA' : gn_vecOf ⟨false, [0, 1, 1, 1]⟩ = gn_vecOf ⟨false, [0, 1, 0, 1]⟩ + gn_vecOf ⟨false, [0, 0, 1, 1]⟩ := by
    rw [eA]; module
  apply Set.Subset.antisymm
  · refine gn_mem_least (gn_closed_set _) ?_ ?_ ?_
    · intro r hr p
      simp only [gn_cexX, List.mem_cons, List.not_mem_nil, or_false] at hr
      rcases hr with rfl | rfl | rfl
      · exact gn_mem_pt (by simp [gn_cexY]) rfl
      · cases p
      · cases p
    · intro r hr p a ha k
      simp only [gn_cexX, List.mem_cons, List.not_mem_nil, or_false] at hr
      rcases hr with rfl | rfl | rfl
      · cases p
      · have h1 := gn_mem_par_step (rows := gn_cexY.gen) (r := ⟨false, [0, 1, 1, 1]⟩) (by simp [gn_cexY]) rfl ha k
        have h2 := gn_mem_par_step (rows := gn_cexY.gen) (r := ⟨false, [0, 0, 1, 1]⟩) (by simp [gn_cexY]) rfl h1 (-k)
        have e : a + (k : ℚ) • gn_vecOf ⟨false, [0, 1, 0, 1]⟩ =
            a + (k : ℚ) • gn_vecOf ⟨false, [0, 1, 1, 1]⟩ + ((-k : Int) : ℚ) • gn_vecOf ⟨false, [0, 0, 1, 1]⟩ := by
          rw [eA]; push_cast; module
        rw [e]; exact h2
      · exact gn_mem_par_step (rows := gn_cexY.gen) (by simp [gn_cexY]) rfl ha k
    · intro r hr p
      simp only [gn_cexX, List.mem_cons, List.not_mem_nil, or_false] at hr
      rcases hr with rfl | rfl | rfl <;> cases p
  · refine gn_mem_least (gn_closed_set _) ?_ ?_ ?_
    · intro r hr p
      simp only [gn_cexY, List.mem_cons, List.not_mem_nil, or_false] at hr
      rcases hr with rfl | rfl | rfl
      · exact gn_mem_pt (by simp [gn_cexX]) rfl
      · cases p
      · cases p
    · intro r hr p a ha k
      simp only [gn_cexY, List.mem_cons, List.not_mem_nil, or_false] at hr
      rcases hr with rfl | rfl | rfl
      · cases p
      · have h1 := gn_mem_par_step (rows := gn_cexX.gen) (r := ⟨false, [0, 1, 0, 1]⟩) (by simp [gn_cexX]) rfl ha k
        have h2 := gn_mem_par_step (rows := gn_cexX.gen) (r := ⟨false, [0, 0, 1, 1]⟩) (by simp [gn_cexX]) rfl h1 k
        have e : a + (k : ℚ) • gn_vecOf ⟨false, [0, 1, 1, 1]⟩ =
            a + (k : ℚ) • gn_vecOf ⟨false, [0, 1, 0, 1]⟩ + (k : ℚ) • gn_vecOf ⟨false, [0, 0, 1, 1]⟩ := by
          rw [eA']; module
        rw [e]; exact h2
      · exact gn_mem_par_step (rows := gn_cexX.gen) (by simp [gn_cexX]) rfl ha k
    · intro r hr p
      simp only [gn_cexY, List.mem_cons, List.not_mem_nil, or_false] at hr
      rcases hr with rfl | rfl | rfl <;> cases p

/-- **`gn_QuickFalseSound` is false**: both states satisfy `GridInv`, denote `ℤ²`, and `quick_equivalence_test` answers
    `TVB_FALSE` (so `operator==` answers `false`) -/
theorem gn_quickFalseSound_fails : ¬ gn_QuickFalseSound := by
  intro h
  obtain ⟨ix, sx⟩ := gn_cex_inv gn_cexX.gen (Or.inl rfl)
  obtain ⟨iy, sy⟩ := gn_cex_inv gn_cexY.gen (Or.inr rfl)
  have := h gn_cexX gn_cexY ix iy rfl rfl (by decide) rfl (by decide)
  apply this
  show Grid.sem gn_cexX = Grid.sem gn_cexY
  rw [show gn_cexX.sem = gn_set gn_cexX.gen from sx, show gn_cexY.sem = gn_set gn_cexY.gen from sy]
  exact gn_cex_sem

end PPLV.Lattice.GO
