import PPLV.Lattice.ProofsGridOpsDefs

/-!
# Histories of `Grid` operations: from per-operation correctness to whole sequences

An operation is presented by what it does to the raw object (`run`), the condition on its arguments (`pre`, relative to
the receiver), and its *reference*: the relation `post S S'` between the set denoted before and the set denoted after
(for the functional operations `S' = f S` with `f` the documented set transformer, for join / time-elapse "the least grid
containing …").  `OpSem.Correct` is the conjunction of `grid_inv_step` and `grid_ops_refine_reference` for that operation.
-/
namespace PPLV.Lattice.GO
open PPLV.Lattice

structure OpSem where
  run : Grid → Grid
  pre : Grid → Prop
  post : Nat → Set Pt → Set Pt → Prop
  dim : Nat → Nat

/-- the operation keeps the invariant and refines its reference -/
def OpSem.Correct (o : OpSem) : Prop :=
  ∀ g, GridInv g → o.pre g →
    GridInv (o.run g) ∧ o.post g.spaceDim g.sem (o.run g).sem ∧ (o.run g).spaceDim = o.dim g.spaceDim

/-- the raw objects met along a history -/
def runHist : List OpSem → Grid → List Grid
  | [], g => [g]
  | o :: os, g => g :: runHist os (o.run g)

/-- the arguments are admissible at every step -/
def HistPre : List OpSem → Grid → Prop
  | [], _ => True
  | o :: os, g => o.pre g ∧ HistPre os (o.run g)

/-- a chain of denoted sets and dimensions related by the references of the operations -/
def RefChain : List OpSem → Nat → Set Pt → List (Nat × Set Pt) → Prop
  | [], n, S, l => l = [(n, S)]
  | o :: os, n, S, l => ∃ S' l', l = (n, S) :: l' ∧ o.post n S S' ∧ RefChain os (o.dim n) S' l'

theorem runHist_ne_nil (os : List OpSem) (g : Grid) : runHist os g ≠ [] := by
  cases os <;> simp [runHist]

/-- **histories**: if every operation of a history is correct, then from an object satisfying the invariant every object
    met along the history satisfies the invariant, and the sets they denote form a chain of the reference relations -/
theorem hist_correct (os : List OpSem) (hc : ∀ o ∈ os, o.Correct) (g : Grid) (hg : GridInv g) (hp : HistPre os g) :
    (∀ x ∈ runHist os g, GridInv x) ∧
    RefChain os g.spaceDim g.sem ((runHist os g).map fun x => (x.spaceDim, x.sem)) := by
  induction os generalizing g with
  | nil =>
    refine ⟨?_, ?_⟩
    · intro x hx
      simp [runHist] at hx
      subst hx
      exact hg
    · simp [runHist, RefChain]
  | cons o os ih =>
    obtain ⟨hpo, hrest⟩ := hp
    obtain ⟨hinv, hpost, hdim⟩ := hc o (List.mem_cons_self) g hg hpo
    obtain ⟨h1, h2⟩ := ih (fun o' ho' => hc o' (List.mem_cons_of_mem _ ho')) (o.run g) hinv hrest
    refine ⟨?_, ?_⟩
    · intro x hx
      simp only [runHist, List.mem_cons] at hx
      rcases hx with rfl | hx
      · exact hg
      · exact h1 x hx
    · simp only [runHist, List.map_cons, RefChain]
      refine ⟨(o.run g).sem, _, rfl, hpost, ?_⟩
      rw [← hdim]
      exact h2

end PPLV.Lattice.GO
