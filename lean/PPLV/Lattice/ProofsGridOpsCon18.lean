import PPLV.Lattice.ProofsGridOpsCon15

/-!
# `Grid` stage 3, congruence side, part 18: `add_space_dimensions_and_embed` with MINIMIZED congruences only — the padded
# rows are in the triangular form of `dim_kinds` resized with `CON_VIRTUAL` (closes the hypothesis of
# `cn_embed_con_partial`)
-/
namespace PPLV.Lattice.GO
open PPLV.Lattice PPLV.Lattice.Red

theorem cn_resizeKindsWith_kind_new (dk : List Nat) (k val i : Nat) (hi : dk.length ≤ i) (hk : i < k) :
    kind (resizeKindsWith dk k val) i = val := by
  unfold resizeKindsWith kind
  rw [List.take_of_length_le (by omega), List.getD_eq_getElem?_getD, List.getElem?_append_right hi,
    List.getElem?_replicate, if_pos (by omega)]
  rfl

theorem cn_foldl_ext {α β : Type} (f g : α → β → α) (l : List β) (a : α) (h : ∀ a, ∀ b ∈ l, f a b = g a b) :
    l.foldl f a = l.foldl g a := by
  induction l generalizing a with
  | nil => rfl
  | cons b l ih =>
    simp only [List.foldl_cons]
    rw [h a b (List.mem_cons_self ..)]
    exact ih _ (fun a b' hb' => h a b' (List.mem_cons_of_mem _ hb'))

theorem cn_mem_dimsDown (k d : Nat) : d ∈ dimsDown k ↔ d < k := by simp [dimsDown]

/-- the step of `lower_triangular` -/
def cn_ltStep (numColumns : Nat) (sys : List CRow) (dk : List Nat) (st : Nat × Bool) (dim : Nat) : Nat × Bool :=
  if !st.2 then st
  else if kind dk dim = CON_VIRTUAL then st
  else
    let cg := rowAt sys st.1
    if Red.get cg.e dim ≤ 0 then (st.1 + 1, false)
    else if !allZeroes cg.e (dim + 1) numColumns then (st.1 + 1, false)
    else (st.1 + 1, true)

theorem cn_lowerTriangular_eq (n : Nat) (sys : List CRow) (dk : List Nat) :
    lowerTriangular n sys dk =
      if sys.length > n + 1 then false
      else ((dimsDown (n + 1)).foldl (cn_ltStep (n + 1) sys dk) (0, true)).2 &&
        ((dimsDown (n + 1)).foldl (cn_ltStep (n + 1) sys dk) (0, true)).1 == sys.length := rfl

theorem cn_allZeroes_iff (x : Row) (s t : Nat) :
    allZeroes x s t = true ↔ ∀ i, i < x.length → s ≤ i → i < t → Red.get x i = 0 := by
  unfold allZeroes
  simp only [List.all_eq_true, List.mem_range, Bool.or_eq_true, Bool.not_eq_true', decide_eq_false_iff_not, beq_iff_eq]
  constructor
  · intro h i hi hs ht
    rcases h i hi with h' | h'
    · exact absurd ⟨hs, ht⟩ h'
    · exact h'
  · intro h i hi
    by_cases hc : s ≤ i ∧ i < t
    · exact Or.inr (h i hi hc.1 hc.2)
    · exact Or.inl hc

/-- padding a row with zeros does not change the "all zeroes to the right" test -/
theorem cn_allZeroes_pad (e : Row) (n m d : Nat) (hl : e.length = n + 1) :
    allZeroes (resizeRow e (n + m + 1)) (d + 1) (n + m + 1) = allZeroes e (d + 1) (n + 1) := by
  rw [Bool.eq_iff_iff, cn_allZeroes_iff, cn_allZeroes_iff, cn_resizeRow_length]
  constructor
  · intro h i hi hs _
    have := h i (by omega) hs (by omega)
    rwa [cn_get_resizeRow, if_pos (by omega)] at this
  · intro h i hi hs _
    rw [cn_get_resizeRow, if_pos hi]
    by_cases hin : i < n + 1
    · exact h i (by omega) hs hin
    · exact get_of_length_le e i (by omega)

theorem cn_rowAt_map_pad (rows : List CRow) (k i : Nat) :
    (i < rows.length ∧ rowAt (rows.map (·.setSpaceDim k)) i = (rowAt rows i).setSpaceDim k) ∨
    (rows.length ≤ i ∧ rowAt (rows.map (·.setSpaceDim k)) i = default ∧ rowAt rows i = default) := by
  by_cases hi : i < rows.length
  · exact Or.inl ⟨hi, rowAt_map rows _ i hi⟩
  · refine Or.inr ⟨by omega, ?_, ?_⟩
    · unfold rowAt; rw [List.getD_eq_getElem?_getD, List.getElem?_eq_none (by simp; omega)]; rfl
    · unfold rowAt; rw [List.getD_eq_getElem?_getD, List.getElem?_eq_none (by omega)]; rfl

/-- on the old dimensions the step on the padded system is the step on the original one -/
theorem cn_ltStep_pad (n m : Nat) (rows : List CRow) (dk : List Nat) (hw : CWf n rows) (hdk : dk.length = n + 1)
    (st : Nat × Bool) (d : Nat) (hd : d < n + 1) :
    cn_ltStep (n + m + 1) (rows.map (·.setSpaceDim (n + m))) (resizeKindsWith dk (n + m + 1) CON_VIRTUAL) st d =
      cn_ltStep (n + 1) rows dk st d := by
  unfold cn_ltStep
  rw [cn_resizeKindsWith_kind dk _ _ d (by omega) (by omega)]
  rcases cn_rowAt_map_pad rows (n + m) st.1 with ⟨hi, h⟩ | ⟨_, h1, h2⟩
  · rw [h]
    have hl := (hw _ (rowAt_mem rows st.1 hi)).1
    have hget : Red.get ((rowAt rows st.1).setSpaceDim (n + m)).e d = Red.get (rowAt rows st.1).e d := by
      show Red.get (resizeRow _ _) d = _
      rw [cn_get_resizeRow, if_pos (by omega)]
    have hall : allZeroes ((rowAt rows st.1).setSpaceDim (n + m)).e (d + 1) (n + m + 1) =
        allZeroes (rowAt rows st.1).e (d + 1) (n + 1) := cn_allZeroes_pad _ n m d hl
    simp only [hget, hall]
  · rw [h1, h2]
    have : Red.get (default : CRow).e d ≤ 0 := by
      show Red.get [] d ≤ 0; rw [get_of_length_le [] d (by simp)]
    simp only [if_pos this]

/-- on a new dimension (`CON_VIRTUAL`) the step does nothing -/
theorem cn_ltStep_virtual (nc : Nat) (sys : List CRow) (dk : List Nat) (st : Nat × Bool) (d : Nat)
    (h : kind dk d = CON_VIRTUAL) : cn_ltStep nc sys dk st d = st := by
  unfold cn_ltStep; split
  · rfl
  · rfl

theorem cn_lt_fold_pad (n : Nat) (rows : List CRow) (dk : List Nat) (hw : CWf n rows) (hdk : dk.length = n + 1) (m : Nat) :
    (dimsDown (n + m + 1)).foldl (cn_ltStep (n + m + 1) (rows.map (·.setSpaceDim (n + m)))
        (resizeKindsWith dk (n + m + 1) CON_VIRTUAL)) (0, true) =
      (dimsDown (n + 1)).foldl (cn_ltStep (n + 1) rows dk) (0, true) := by
  have key : ∀ j, j ≤ m → (dimsDown (n + 1 + j)).foldl (cn_ltStep (n + m + 1) (rows.map (·.setSpaceDim (n + m)))
        (resizeKindsWith dk (n + m + 1) CON_VIRTUAL)) (0, true) =
      (dimsDown (n + 1)).foldl (cn_ltStep (n + 1) rows dk) (0, true) := by
    intro j
    induction j with
    | zero =>
      intro _
      exact cn_foldl_ext _ _ _ _ (fun a b hb => cn_ltStep_pad n m rows dk hw hdk a b ((cn_mem_dimsDown _ _).mp hb))
    | succ j ih =>
      intro hj
      have : n + 1 + (j + 1) = (n + 1 + j) + 1 := by omega
      rw [this, gc_dimsDown_succ, List.foldl_cons,
        cn_ltStep_virtual _ _ _ _ _ (cn_resizeKindsWith_kind_new dk _ _ _ (by omega) (by omega))]
      exact ih (by omega)
  have := key m (le_refl _)
  rwa [show n + 1 + m = n + m + 1 by omega] at this

/-- `lower_triangular` of the padded system with the resized `dim_kinds` -/
theorem cn_lowerTriangular_pad (n m : Nat) (rows : List CRow) (dk : List Nat) (hw : CWf n rows) (hdk : dk.length = n + 1)
    (h : lowerTriangular n rows dk = true) :
    lowerTriangular (n + m) (rows.map (·.setSpaceDim (n + m))) (resizeKindsWith dk (n + m + 1) CON_VIRTUAL) = true := by
  rw [cn_lowerTriangular_eq] at h ⊢
  have hlen : ¬ rows.length > n + 1 := by
    intro hc; rw [if_pos hc] at h; cases h
  rw [if_neg hlen] at h
  rw [if_neg (by simp; omega), cn_lt_fold_pad n rows dk hw hdk m, List.length_map]
  exact h

/-! ### `CgKindsOK` -/

theorem cn_cntBelow_congr (P Q : Nat → Bool) (k : Nat) (h : ∀ i, i < k → P i = Q i) : cntBelow P k = cntBelow Q k := by
  induction k with
  | zero => rfl
  | succ k ih => simp only [cntBelow]; rw [ih (fun i hi => h i (by omega)), h k (by omega)]

theorem cn_nlB_pad_old (dk : List Nat) (n m i : Nat) (hdk : dk.length = n + 1) (hi : i < n + 1) :
    nlB (resizeKindsWith dk (n + m + 1) CON_VIRTUAL) i = nlB dk i := by
  unfold nlB; rw [cn_resizeKindsWith_kind dk _ _ i (by omega) (by omega)]

theorem cn_nlB_pad_new (dk : List Nat) (n m i : Nat) (hdk : dk.length = n + 1) (hi : n + 1 ≤ i) (hi2 : i < n + m + 1) :
    nlB (resizeKindsWith dk (n + m + 1) CON_VIRTUAL) i = false := by
  unfold nlB; rw [cn_resizeKindsWith_kind_new dk _ _ i (by omega) hi2]; rfl

theorem cn_nl_pad (dk : List Nat) (n m k : Nat) (hdk : dk.length = n + 1) (hk : k ≤ n + m + 1) :
    nl (resizeKindsWith dk (n + m + 1) CON_VIRTUAL) k = nl dk (min k (n + 1)) := by
  unfold nl
  induction k with
  | zero => rfl
  | succ k ih =>
    by_cases hkn : k < n + 1
    · rw [show min (k + 1) (n + 1) = k + 1 by omega]
      simp only [cntBelow]
      rw [ih (by omega), show min k (n + 1) = k by omega, cn_nlB_pad_old dk n m k hdk hkn]
    · rw [cntBelow_succ_neg _ k (cn_nlB_pad_new dk n m k hdk (by omega) (by omega)), ih (by omega),
        show min k (n + 1) = n + 1 by omega, show min (k + 1) (n + 1) = n + 1 by omega]

theorem cn_pos_pad (dk : List Nat) (n m d : Nat) (hdk : dk.length = n + 1) (hd : d < n + 1) :
    pos (resizeKindsWith dk (n + m + 1) CON_VIRTUAL) (n + m + 1) d = pos dk (n + 1) d := by
  unfold pos
  rw [cn_nl_pad dk n m _ hdk (le_refl _), cn_nl_pad dk n m _ hdk (by omega),
    show min (n + m + 1) (n + 1) = n + 1 by omega, show min (d + 1) (n + 1) = d + 1 by omega]

theorem cn_CgKindsOK_pad (n m : Nat) (rows : List CRow) (dk : List Nat) (hdk : dk.length = n + 1)
    (h : CgKindsOK n rows dk) :
    CgKindsOK (n + m) (rows.map (·.setSpaceDim (n + m))) (resizeKindsWith dk (n + m + 1) CON_VIRTUAL) := by
  obtain ⟨M, h1, h2⟩ := h
  have hm : ∀ i, (rowAt (rows.map (fun r : CRow => r.setSpaceDim (n + m))) i).m = (rowAt rows i).m := by
    intro i
    rcases cn_rowAt_map_pad rows (n + m) i with ⟨_, h⟩ | ⟨_, h1, h2⟩
    · rw [h]; rfl
    · rw [h1, h2]
  refine ⟨M, fun d hd => ?_, ?_⟩
  · by_cases hdn : d < n + 1
    · rw [cn_resizeKindsWith_kind dk _ _ d (by omega) (by omega), cn_pos_pad dk n m d hdk hdn, hm]
      exact h1 d hdn
    · exact Or.inl (cn_resizeKindsWith_kind_new dk _ _ d (by omega) (by omega))
  · rw [List.length_map]
    rcases cn_rowAt_map_pad rows (n + m) (rows.length - 1) with ⟨_, h⟩ | ⟨_, h1', h2'⟩
    · rw [h]
      show Red.get (resizeRow _ _) 0 = M
      rw [cn_get_resizeRow, if_pos (by omega)]; exact h2
    · rw [h1']; rw [h2'] at h2; exact h2

/-- embed with only the (possibly minimized) congruences up to date: hypothesis-free -/
theorem cn_embed_con_full (g : Grid) (m : Nat) (hI : GridInv g) (hm : 0 < m) (he : g.st.empty = false)
    (hpos : 0 < g.spaceDim) (hc : g.st.cUp = true) (hg : g.st.gUp = false) :
    GridInv (addSpaceDimensionsAndEmbed g m) ∧
      (addSpaceDimensionsAndEmbed g m).sem = cn_embedSet g.spaceDim m g.sem ∧
      (addSpaceDimensionsAndEmbed g m).spaceDim = g.spaceDim + m := by
  refine cn_embed_con_partial g m hI hm he hpos hc hg (fun hcm => ?_)
  obtain ⟨hlen, htri, _⟩ := hI.cmin he hpos hcm
  obtain ⟨_, hw⟩ := hI.cwf he hpos hc
  exact ⟨cn_lowerTriangular_pad g.spaceDim m g.con g.dk hw hlen htri,
    cn_CgKindsOK_pad g.spaceDim m g.con g.dk hlen (hI.cminConv he hpos hcm hg)⟩

end PPLV.Lattice.GO
