import PPLV.Lattice.ProofsGridOpsGen29

/-!
# Generator side of the `Grid` object, part 30 — `Grid::relation_with(const Constraint&)` (repaired code) for an inequality on
# a grid whose generator system has exactly one point; for an equality through `relation_with(const Congruence&)`
-/
namespace PPLV.Lattice.GO
open PPLV.Lattice PPLV.Lattice.Red

/-- the decisions after the loop (Grid_public.cc:760) -/
def gn_conAnswer (st : RelConSt) : Rel :=
  if st.pointSaturates = true then { included := true, saturates := true }
  else if st.pointIsIncluded = true then { included := true } else { disjoint := true }

/-- what the answer says about the grid `S` and an inequality `c` -/
def gn_ConRelOK (rel : Rel) (S : Set Pt) (c : Con) : Prop :=
  gn_RelOK rel S (cn_conSet c) ∧ (rel.saturates = true → ∀ x ∈ S, evalRow c.e x = 0) ∧
  (c.isStrict = false → S.Nonempty → (∀ x ∈ S, evalRow c.e x = 0) → rel.saturates = true)

theorem gn_relCon_rows {n : Nat} {D : Int} {rows : List GRow} (hN : GNorm n D rows) (hw : GWf n rows) (c : Con)
    (hd : c.e.length ≤ n + 1) (hk : c.isEquality = false) (h1 : (rows.filter gn_isPt).length = 1) :
    ∃ rel, (relConLoop true c {} [] rows = .inr rows ∧ rel = Rel.si ∨
        ∃ st, relConLoop true c {} [] rows = .inl (st, rows) ∧ rel = gn_conAnswer st) ∧
      gn_ConRelOK rel (gn_set rows) c := by
  have hDpos : (0 : ℚ) < (D : ℚ) := by exact_mod_cast hN.pos
  obtain ⟨a0, ha0⟩ := gn_mem_nonempty (gn_wf_of_gnorm hN hw).pt
  have hne : (gn_set rows).Nonempty := ⟨a0, ha0⟩
  obtain ⟨p, hp, pp, huniq, eloop⟩ := gn_relConLoop_one c rows h1
  by_cases hz : ∀ r ∈ rows, gn_isPt r = false → sp c.e r.e = 0
  · rw [if_pos hz] at eloop
    have hconst := gn_con_const hN hw c hd hp pp huniq hz
    refine ⟨gn_conAnswer (gn_conSt c p), Or.inr ⟨_, eloop, rfl⟩, ?_⟩
    -- the sign of the expression on the grid is the sign of the product with the point
    have hsign : ∀ x ∈ gn_set rows, (0 < evalRow c.e x ↔ 0 < sp c.e p.e) ∧ (evalRow c.e x = 0 ↔ sp c.e p.e = 0) := by
      intro x hx
      have h := hconst x hx
      constructor
      · constructor
        · intro h'
          have : (0 : ℚ) < ((sp c.e p.e : Int) : ℚ) := by rw [← h]; exact mul_pos hDpos h'
          exact_mod_cast this
        · intro h'
          have h2 : (0 : ℚ) < ((sp c.e p.e : Int) : ℚ) := by exact_mod_cast h'
          rw [← h] at h2
          exact (mul_pos_iff_of_pos_left hDpos).mp h2
      · constructor
        · intro h'
          rw [h', mul_zero] at h
          exact_mod_cast h.symm
        · intro h'
          rw [h'] at h
          simp only [Int.cast_zero, mul_eq_zero] at h
          rcases h with h | h
          · exact absurd h (ne_of_gt hDpos)
          · exact h
    unfold gn_conSt
    by_cases hs0 : sp c.e p.e = 0
    · have e0 : ∀ x ∈ gn_set rows, evalRow c.e x = 0 := fun x hx => (hsign x hx).2.mpr hs0
      rw [if_pos ((gn_sgnI_zero _).mpr hs0)]
      cases hst : c.isStrict with
      | true =>
        have hdisj : gn_set rows ∩ cn_conSet c = ∅ := by
          ext x
          constructor
          · rintro ⟨hx, hc⟩
            rw [gn_mem_conSet_ineq c hk, if_pos hst, e0 x hx] at hc
            exact absurd hc (lt_irrefl 0)
          · intro h; cases h
        exact ⟨gn_relOK_disj hne hdisj, fun h => (by cases h), fun h => (by rw [hst] at h; cases h)⟩
      | false =>
        have hincl : gn_set rows ⊆ cn_conSet c := by
          intro x hx
          rw [gn_mem_conSet_ineq c hk, if_neg (by rw [hst]; simp), e0 x hx]
        exact ⟨gn_relOK_incl hne hincl true, fun _ => e0, fun _ _ _ => rfl⟩
    · rw [if_neg (by rw [gn_sgnI_zero]; exact hs0)]
      have hne0 : ∀ x ∈ gn_set rows, evalRow c.e x ≠ 0 := fun x hx h => hs0 ((hsign x hx).2.mp h)
      by_cases hsp : sp c.e p.e > 0
      · rw [if_pos ((gn_sgnI_pos _).mpr hsp)]
        have hincl : gn_set rows ⊆ cn_conSet c := by
          intro x hx
          have hpos := (hsign x hx).1.mpr hsp
          rw [gn_mem_conSet_ineq c hk]
          split_ifs
          · exact hpos
          · exact le_of_lt hpos
        have : (gn_conAnswer { pointIsIncluded := !c.isEquality, firstPoint := some p }) = { included := true } := by
          simp [gn_conAnswer, hk]
        rw [this]
        exact ⟨gn_relOK_incl hne hincl false, fun h => (by cases h), fun _ _ h => absurd (h a0 ha0) (hne0 a0 ha0)⟩
      · rw [if_neg (by rw [gn_sgnI_pos]; exact hsp)]
        have hdisj : gn_set rows ∩ cn_conSet c = ∅ := by
          ext x
          constructor
          · rintro ⟨hx, hc⟩
            exfalso
            rw [gn_mem_conSet_ineq c hk] at hc
            have hnpos : ¬ 0 < evalRow c.e x := fun h => hsp ((hsign x hx).1.mp h)
            split_ifs at hc
            · exact hnpos hc
            · exact hnpos (lt_of_le_of_ne hc (Ne.symm (hne0 x hx)))
          · intro h; cases h
        exact ⟨gn_relOK_disj hne hdisj, fun h => (by cases h), fun _ _ h => absurd (h a0 ha0) (hne0 a0 ha0)⟩
  · rw [if_neg hz] at eloop
    refine ⟨Rel.si, Or.inl ⟨eloop, rfl⟩, ?_⟩
    have : ∃ r ∈ rows, gn_isPt r = false ∧ sp c.e r.e ≠ 0 := by
      by_contra h
      apply hz
      intro r hr hnp
      by_contra h0
      exact h ⟨r, hr, hnp, h0⟩
    obtain ⟨r, hr, hnp, h0⟩ := this
    obtain ⟨⟨x, hx, h1x⟩, ⟨y, hy, h1y⟩⟩ := gn_con_unbounded hN hw c hd hr hnp h0
    have hin : (gn_set rows ∩ cn_conSet c).Nonempty := by
      refine ⟨x, hx, ?_⟩
      rw [gn_mem_conSet_ineq c hk]
      split_ifs <;> linarith
    have hout : ¬ gn_set rows ⊆ cn_conSet c := by
      intro hs
      have := hs hy
      rw [gn_mem_conSet_ineq c hk] at this
      split_ifs at this <;> linarith
    exact ⟨gn_relOK_si hin hout, fun h => (by cases h), fun _ _ h => by have := h x hx; linarith⟩

end PPLV.Lattice.GO
