import Mathlib.Algebra.Module.LinearMap.Defs
import Mathlib.Algebra.Module.Rat
import Mathlib.Tactic.Linarith
import Mathlib.Tactic.Ring
import Mathlib.Tactic.FieldSimp
import Mathlib.Tactic.Module
import Mathlib.Data.Rat.Cast.Defs

/-!
# K2, abstract part: grids in generator form over an arbitrary ℚ-module

Membership is inductive (`Mem`); `Dir` is the set of directions (differences of members).
The three structural theorems (`lineCase_spec`, `pair_step` in the form `Dir.mono`,
`reducedCase_spec`) are independent of any coordinate representation.
-/
namespace PPLV.Lattice.Abs
variable {V : Type} [AddCommGroup V] [Module ℚ V]

structure Grid (V : Type) where
  pt : V
  params : List V
  lines : List V

inductive Mem (G : Grid V) : V → Prop
  | pt : Mem G G.pt
  | param {x q : V} (k : ℤ) : q ∈ G.params → Mem G x → Mem G (x + (k : ℚ) • q)
  | line {x l : V} (c : ℚ) : l ∈ G.lines → Mem G x → Mem G (x + c • l)

/-- congruence `α x + b ≡ 0 (mod f)` (`f = 0`: equality) -/
def SatCg (α : V →ₗ[ℚ] ℚ) (b f : ℚ) (x : V) : Prop := ∃ t : ℤ, α x + b = t * f

/-- directions of a grid with parameters `P` and lines `L` -/
inductive Dir (P L : List V) : V → Prop
  | zero : Dir P L 0
  | param {v q : V} (k : ℤ) : q ∈ P → Dir P L v → Dir P L (v + (k : ℚ) • q)
  | line {v l : V} (c : ℚ) : l ∈ L → Dir P L v → Dir P L (v + c • l)

/-! ### monotonicity -/

theorem mem_mono (G₁ G₂ : Grid V) (hpt : Mem G₂ G₁.pt)
    (hpar : ∀ q ∈ G₁.params, ∀ x (k : ℤ), Mem G₂ x → Mem G₂ (x + (k:ℚ) • q))
    (hlin : ∀ l ∈ G₁.lines, ∀ x (c : ℚ), Mem G₂ x → Mem G₂ (x + c • l))
    (x : V) (h : Mem G₁ x) : Mem G₂ x := by
  induction h with
  | pt => exact hpt
  | param k hq _ ih => exact hpar _ hq _ k ih
  | line c hl _ ih => exact hlin _ hl _ c ih

namespace Dir
variable {P L P' L' : List V}

theorem add {v w : V} (hv : Dir P L v) (hw : Dir P L w) : Dir P L (v + w) := by
  induction hw with
  | zero => simpa using hv
  | @param w q k hq _ ih =>
    have : v + (w + (k:ℚ) • q) = (v + w) + (k:ℚ) • q := by module
    rw [this]; exact Dir.param k hq ih
  | @line w l c hl _ ih =>
    have : v + (w + c • l) = (v + w) + c • l := by module
    rw [this]; exact Dir.line c hl ih

theorem zsmul {v : V} (j : ℤ) (hv : Dir P L v) : Dir P L ((j:ℚ) • v) := by
  induction hv with
  | zero => simpa using Dir.zero
  | @param w q k hq _ ih =>
    have : (j:ℚ) • (w + (k:ℚ) • q) = (j:ℚ) • w + ((j * k : ℤ):ℚ) • q := by push_cast; module
    rw [this]; exact Dir.param _ hq ih
  | @line w l c hl _ ih =>
    have : (j:ℚ) • (w + c • l) = (j:ℚ) • w + ((j:ℚ) * c) • l := by module
    rw [this]; exact Dir.line _ hl ih

theorem neg {v : V} (hv : Dir P L v) : Dir P L (-v) := by
  have := zsmul (-1) hv
  simpa using this

theorem sub {v w : V} (hv : Dir P L v) (hw : Dir P L w) : Dir P L (v - w) := by
  rw [sub_eq_add_neg]; exact add hv (neg hw)

theorem of_param {q : V} (hq : q ∈ P) : Dir P L q := by
  have := Dir.param (L := L) 1 hq Dir.zero
  simpa using this

theorem of_line {l : V} (c : ℚ) (hl : l ∈ L) : Dir P L (c • l) := by
  have := Dir.line (P := P) c hl Dir.zero
  simpa using this

/-- if every generator of `(P, L)` is a direction of `(P', L')`, so is every direction -/
theorem mono (hp : ∀ q ∈ P, Dir P' L' q) (hl : ∀ l ∈ L, ∀ c : ℚ, Dir P' L' (c • l))
    {v : V} (hv : Dir P L v) : Dir P' L' v := by
  induction hv with
  | zero => exact Dir.zero
  | param k hq _ ih => exact add ih (zsmul k (hp _ hq))
  | line c hl' _ ih => exact add ih (hl _ hl' c)

theorem mono_subset (hp : ∀ q ∈ P, q ∈ P') (hl : ∀ l ∈ L, l ∈ L') {v : V} (hv : Dir P L v) :
    Dir P' L' v :=
  mono (fun q hq => of_param (hp q hq)) (fun l h c => of_line c (hl l h)) hv

/-- zero vectors may be dropped -/
theorem mono_subset0 (hp : ∀ q ∈ P, q = 0 ∨ q ∈ P') (hl : ∀ l ∈ L, l = 0 ∨ l ∈ L') {v : V}
    (hv : Dir P L v) : Dir P' L' v := by
  refine mono ?_ ?_ hv
  · intro q hq; rcases hp q hq with h | h
    · rw [h]; exact Dir.zero
    · exact of_param h
  · intro l hl' c; rcases hl l hl' with h | h
    · rw [h]; simpa using Dir.zero
    · exact of_line c h

end Dir

theorem mem_iff_dir (G : Grid V) (x : V) : Mem G x ↔ Dir G.params G.lines (x - G.pt) := by
  constructor
  · intro h
    induction h with
    | pt => simpa using Dir.zero
    | @param y q k hq _ ih =>
      have : y + (k:ℚ) • q - G.pt = (y - G.pt) + (k:ℚ) • q := by module
      rw [this]; exact Dir.param k hq ih
    | @line y l c hl _ ih =>
      have : y + c • l - G.pt = (y - G.pt) + c • l := by module
      rw [this]; exact Dir.line c hl ih
  · intro h
    generalize hv : x - G.pt = v at h
    induction h generalizing x with
    | zero =>
      have : x = G.pt := by rwa [sub_eq_zero] at hv
      rw [this]; exact Mem.pt
    | @param w q k hq _ ih =>
      have h1 : x = (x - (k:ℚ) • q) + (k:ℚ) • q := by module
      rw [h1]
      refine Mem.param k hq (ih _ ?_)
      rw [sub_right_comm, hv]; module
    | @line w l c hl _ ih =>
      have h1 : x = (x - c • l) + c • l := by module
      rw [h1]
      refine Mem.line c hl (ih _ ?_)
      rw [sub_right_comm, hv]; module

/-- a grid is closed under `x + k (y - z)` for members `x y z`, `k ∈ ℤ` -/
theorem mem_affine (G : Grid V) {x y z : V} (k : ℤ) (hx : Mem G x) (hy : Mem G y) (hz : Mem G z) :
    Mem G (x + (k:ℚ) • (y - z)) := by
  rw [mem_iff_dir] at *
  have : x + (k:ℚ) • (y - z) - G.pt = (x - G.pt) + (k:ℚ) • ((y - G.pt) - (z - G.pt)) := by module
  rw [this]
  exact Dir.add hx (Dir.zsmul k (Dir.sub hy hz))

/-- same point, direction sets included -/
theorem mem_of_dir_sub (G₁ G₂ : Grid V) (hpt : Mem G₂ G₁.pt)
    (h : ∀ v, Dir G₁.params G₁.lines v → Dir G₂.params G₂.lines v) (x : V) (hx : Mem G₁ x) :
    Mem G₂ x := by
  rw [mem_iff_dir] at *
  have : x - G₂.pt = (G₁.pt - G₂.pt) + (x - G₁.pt) := by module
  rw [this]; exact Dir.add hpt (h _ hx)

/-! ### values of a linear form on a grid -/
variable (α : V →ₗ[ℚ] ℚ)

theorem alpha_dir_one (qs : V) (rest L : List V) (hL : ∀ l ∈ L, α l = 0) (hrest : ∀ r ∈ rest, α r = 0)
    {v : V} (h : Dir (qs :: rest) L v) : ∃ k : ℤ, α v = k * α qs := by
  induction h with
  | zero => exact ⟨0, by simp⟩
  | @param w q k hq _ ih =>
    obtain ⟨j, hj⟩ := ih
    simp only [List.mem_cons] at hq
    rcases hq with hq | hq
    · exact ⟨j + k, by rw [hq]; simp [map_add, map_smul, hj]; ring⟩
    · exact ⟨j, by simp [map_add, map_smul, hrest _ hq, hj]⟩
  | @line w l c hl _ ih =>
    obtain ⟨j, hj⟩ := ih
    exact ⟨j, by simp [map_add, map_smul, hL _ hl, hj]⟩

theorem alpha_dir_zero (P L : List V) (hL : ∀ l ∈ L, α l = 0) (hP : ∀ r ∈ P, α r = 0)
    {v : V} (h : Dir P L v) : α v = 0 := by
  induction h with
  | zero => simp
  | param k hq _ ih => simp [map_add, map_smul, hP _ hq, ih]
  | line c hl _ ih => simp [map_add, map_smul, hL _ hl, ih]

/-! ### line case -/
variable (b f : ℚ) (l0 : V)

/-- projection along l0 onto the hyperplane α + b = 0 -/
noncomputable def projAff (x : V) : V := x - ((α x + b) / α l0) • l0
/-- projection of a direction along l0 onto ker α -/
noncomputable def projLin (g : V) : V := g - (α g / α l0) • l0

noncomputable def lineCase (G : Grid V) : Grid V :=
  { pt := projAff α b l0 G.pt
    params := G.params.map (projLin α l0) ++ (if f = 0 then [] else [(f / α l0) • l0])
    lines := G.lines.map (projLin α l0) }

theorem alpha_projLin (hβ : α l0 ≠ 0) (g : V) : α (projLin α l0 g) = 0 := by
  simp [projLin, map_sub, map_smul]; field_simp; ring

theorem alpha_projAff (hβ : α l0 ≠ 0) (x : V) : α (projAff α b l0 x) + b = 0 := by
  simp [projAff, map_sub, map_smul]; field_simp; ring

theorem lineCase_sub (G : Grid V) (hl0 : l0 ∈ G.lines) (x : V)
    (h : Mem (lineCase α b f l0 G) x) : Mem G x := by
  induction h with
  | pt =>
    have : (lineCase α b f l0 G).pt = G.pt + (-((α G.pt + b) / α l0)) • l0 := by
      simp [lineCase, projAff, sub_eq_add_neg]
    rw [this]; exact Mem.line _ hl0 Mem.pt
  | @param x q k hq _ ih =>
    simp only [lineCase, List.mem_append, List.mem_map] at hq
    rcases hq with ⟨g, hg, rfl⟩ | hq
    · have : x + (k:ℚ) • projLin α l0 g = (x + (k:ℚ) • g) + (-((k:ℚ) * (α g / α l0))) • l0 := by
        simp only [projLin]; module
      rw [this]; exact Mem.line _ hl0 (Mem.param k hg ih)
    · split at hq
      · simp at hq
      · simp only [List.mem_singleton] at hq
        subst hq
        have : x + (k:ℚ) • ((f / α l0) • l0) = x + ((k:ℚ) * (f / α l0)) • l0 := by module
        rw [this]; exact Mem.line _ hl0 ih
  | @line x l c hl _ ih =>
    simp only [lineCase, List.mem_map] at hl
    obtain ⟨g, hg, rfl⟩ := hl
    have : x + c • projLin α l0 g = (x + c • g) + (-(c * (α g / α l0))) • l0 := by
      simp only [projLin]; module
    rw [this]; exact Mem.line _ hl0 (Mem.line c hg ih)

theorem lineCase_sat (hβ : α l0 ≠ 0) (G : Grid V) (x : V)
    (h : Mem (lineCase α b f l0 G) x) : SatCg α b f x := by
  induction h with
  | pt => exact ⟨0, by simp [lineCase, alpha_projAff α b l0 hβ]⟩
  | @param x q k hq _ ih =>
    obtain ⟨t, ht⟩ := ih
    simp only [lineCase, List.mem_append, List.mem_map] at hq
    rcases hq with ⟨g, _, rfl⟩ | hq
    · exact ⟨t, by simp [map_add, map_smul, alpha_projLin α l0 hβ, ht]⟩
    · split at hq
      · simp at hq
      · simp only [List.mem_singleton] at hq
        subst hq
        refine ⟨t + k, ?_⟩
        simp only [map_add, map_smul, smul_eq_mul, Int.cast_add]
        have : α x = t * f - b := by linarith
        rw [this]; field_simp; ring
  | @line x l c hl _ ih =>
    obtain ⟨t, ht⟩ := ih
    simp only [lineCase, List.mem_map] at hl
    obtain ⟨g, _, rfl⟩ := hl
    exact ⟨t, by simp [map_add, map_smul, alpha_projLin α l0 hβ, ht]⟩

theorem proj_mem (hβ : α l0 ≠ 0) (G : Grid V) (x : V) (h : Mem G x) :
    Mem (lineCase α b f l0 G) (projAff α b l0 x) := by
  induction h with
  | pt => exact Mem.pt
  | @param x q k hq _ ih =>
    have : projAff α b l0 (x + (k:ℚ) • q) = projAff α b l0 x + (k:ℚ) • projLin α l0 q := by
      simp only [projAff, projLin, map_add, map_smul, smul_eq_mul]
      have : (α x + (k:ℚ) * α q + b) / α l0 = (α x + b) / α l0 + (k:ℚ) * (α q / α l0) := by
        field_simp; ring
      rw [this]; module
    rw [this]
    exact Mem.param k (by simp [lineCase]; exact Or.inl ⟨q, hq, rfl⟩) ih
  | @line x l c hl _ ih =>
    have : projAff α b l0 (x + c • l) = projAff α b l0 x + c • projLin α l0 l := by
      simp only [projAff, projLin, map_add, map_smul, smul_eq_mul]
      have : (α x + c * α l + b) / α l0 = (α x + b) / α l0 + c * (α l / α l0) := by
        field_simp; ring
      rw [this]; module
    rw [this]
    exact Mem.line c (by simp [lineCase]; exact ⟨l, hl, rfl⟩) ih

/-- K2, line case: the new grid is exactly the old grid intersected with the congruence. -/
theorem lineCase_spec (hβ : α l0 ≠ 0) (G : Grid V) (hl0 : l0 ∈ G.lines) (x : V) :
    Mem (lineCase α b f l0 G) x ↔ Mem G x ∧ SatCg α b f x := by
  constructor
  · intro h; exact ⟨lineCase_sub α b f l0 G hl0 x h, lineCase_sat α b f l0 hβ G x h⟩
  · rintro ⟨hx, t, ht⟩
    have hp := proj_mem α b f l0 hβ G x hx
    by_cases hf : f = 0
    · have : projAff α b l0 x = x := by
        simp [projAff, ht, hf]
      rw [this] at hp; exact hp
    · have hx' : x = projAff α b l0 x + (t:ℚ) • ((f / α l0) • l0) := by
        simp only [projAff, ht]
        have : ((t:ℚ) * f / α l0) = (t:ℚ) * (f / α l0) := by ring
        rw [this]; module
      rw [hx']
      exact Mem.param t (by simp [lineCase, hf]) hp

/-! ### reduced case: exactly one parameter `qs` outside `ker α` -/

theorem reducedCase_spec (p qs : V) (rest lines : List V) (k0 m : ℤ)
    (hlines : ∀ l ∈ lines, α l = 0) (hrest : ∀ r ∈ rest, α r = 0)
    (hk0 : SatCg α b f (p + (k0:ℚ) • qs))
    (hm : ∃ t : ℤ, (m:ℚ) * α qs = t * f)
    (hmin : ∀ k : ℤ, (∃ t : ℤ, (k:ℚ) * α qs = t * f) → ∃ j : ℤ, k = j * m)
    (x : V) :
    Mem ⟨p + (k0:ℚ) • qs, ((m:ℚ) • qs) :: rest, lines⟩ x ↔
      Mem ⟨p, qs :: rest, lines⟩ x ∧ SatCg α b f x := by
  constructor
  · intro h
    constructor
    · refine mem_mono _ _ (Mem.param k0 (by simp) Mem.pt) ?_ ?_ x h
      · intro q hq y k hy
        simp only [List.mem_cons] at hq
        rcases hq with hq | hq
        · have : y + (k:ℚ) • q = y + ((k * m : ℤ):ℚ) • qs := by rw [hq]; push_cast; module
          rw [this]; exact Mem.param _ (by simp) hy
        · exact Mem.param k (by simp [hq]) hy
      · intro l hl y c hy; exact Mem.line c hl hy
    · induction h with
      | pt => exact hk0
      | @param y q k hq _ ih =>
        obtain ⟨t, ht⟩ := ih
        simp only [List.mem_cons] at hq
        rcases hq with hq | hq
        · obtain ⟨s, hs⟩ := hm
          refine ⟨t + k * s, ?_⟩
          rw [hq]
          simp only [map_add, map_smul, smul_eq_mul]
          push_cast
          have : α y = t * f - b := by linarith
          rw [this]
          have : (k:ℚ) * ((m:ℚ) * α qs) = (k:ℚ) * (s * f) := by rw [hs]
          linarith
        · exact ⟨t, by simp [map_add, map_smul, hrest _ hq, ht]⟩
      | @line y l c hl _ ih =>
        obtain ⟨t, ht⟩ := ih
        exact ⟨t, by simp [map_add, map_smul, hlines _ hl, ht]⟩
  · rintro ⟨hx, hsat⟩
    have hker : ∀ z, Mem ⟨p + (k0:ℚ) • qs, rest, lines⟩ z → α z = α (p + (k0:ℚ) • qs) := by
      intro z hz
      induction hz with
      | pt => rfl
      | @param y q k hq _ ih => simp [map_add, map_smul, hrest _ hq, ih]
      | @line y l c hl _ ih => simp [map_add, map_smul, hlines _ hl, ih]
    have decomp : ∀ x, Mem ⟨p, qs :: rest, lines⟩ x →
        ∃ k : ℤ, Mem ⟨p + (k0:ℚ) • qs, rest, lines⟩ (x - ((k - k0 : ℤ):ℚ) • qs) := by
      intro x hx
      induction hx with
      | pt => exact ⟨0, by
          have : p - ((0 - k0 : ℤ):ℚ) • qs = p + (k0:ℚ) • qs := by push_cast; module
          rw [this]; exact Mem.pt⟩
      | @param y q k1 hq _ ih =>
        obtain ⟨k, hk⟩ := ih
        simp only [List.mem_cons] at hq
        rcases hq with hq | hq
        · refine ⟨k + k1, ?_⟩
          have : y + (k1:ℚ) • q - ((k + k1 - k0 : ℤ):ℚ) • qs = y - ((k - k0 : ℤ):ℚ) • qs := by
            rw [hq]; push_cast; module
          rw [this]; exact hk
        · refine ⟨k, ?_⟩
          have : y + (k1:ℚ) • q - ((k - k0 : ℤ):ℚ) • qs = (y - ((k - k0 : ℤ):ℚ) • qs) + (k1:ℚ) • q := by
            module
          rw [this]; exact Mem.param k1 hq hk
      | @line y l c hl _ ih =>
        obtain ⟨k, hk⟩ := ih
        refine ⟨k, ?_⟩
        have : y + c • l - ((k - k0 : ℤ):ℚ) • qs = (y - ((k - k0 : ℤ):ℚ) • qs) + c • l := by module
        rw [this]; exact Mem.line c hl hk
    obtain ⟨k, hz⟩ := decomp x hx
    obtain ⟨t, ht⟩ := hsat
    obtain ⟨t0, ht0⟩ := hk0
    have hαz := hker _ hz
    have hshift : ((k - k0 : ℤ):ℚ) * α qs = ((t - t0 : ℤ):ℚ) * f := by
      have e1 : α (x - ((k - k0 : ℤ):ℚ) • qs) = α x - ((k - k0 : ℤ):ℚ) * α qs := by
        simp [map_sub, map_smul]
      push_cast at *
      linarith
    obtain ⟨j, hj⟩ := hmin (k - k0) ⟨t - t0, hshift⟩
    have hxz : x = (x - ((k - k0 : ℤ):ℚ) • qs) + (j:ℚ) • ((m:ℚ) • qs) := by
      rw [hj]; push_cast; module
    rw [hxz]
    refine Mem.param j (by simp) ?_
    exact mem_mono ⟨p + (k0:ℚ) • qs, rest, lines⟩ ⟨p + (k0:ℚ) • qs, ((m:ℚ) • qs) :: rest, lines⟩ Mem.pt
      (fun q hq y k hy => Mem.param k (by simp [hq]) hy)
      (fun l hl y c hy => Mem.line c hl hy) _ hz

end PPLV.Lattice.Abs
