import PPLV.Lattice.RedSem
import PPLV.Lattice.ProofsVec
/-!
# The homogeneous lattice of a generator system (`Hom`)
-/
namespace PPLV.Lattice.Red

/-- `ℤ-span(parameter/point rows) + ℚ-span(line rows)` in homogeneous coordinates -/
def Hom (n : Nat) (rows : List GRow) (v : Pt) : Prop := GDir (pcVecs n rows) (lineVecs n rows) v

/-- the grid denoted by a generator system whose points have divisor `D` -/
def gensSem (n : Nat) (D : Rat) (rows : List GRow) (x : Pt) : Prop := Hom n rows (homog D x)

end PPLV.Lattice.Red
