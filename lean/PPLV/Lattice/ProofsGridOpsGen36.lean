import PPLV.Lattice.ProofsGridOpsGen35

/-!
# Generator side of the `Grid` object, part 36 — ingredients of `add_recycled_grid_generators`: rows that keep kind and vector
# (`gn_Twin`), `scale_to_divisor` row by row, `normalize_divisors` on a system that need not have a point
-/
namespace PPLV.Lattice.GO
open PPLV.Lattice PPLV.Lattice.Red

/-- same kind, same rational vector -/
def gn_Twin (r' r : GRow) : Prop :=
  r'.line = r.line ∧ gn_isPt r' = gn_isPt r ∧ gn_isPar r' = gn_isPar r ∧ gn_vecOf r' = gn_vecOf r

theorem gn_Twin.refl (r : GRow) : gn_Twin r r := ⟨rfl, rfl, rfl, rfl⟩
theorem gn_Twin.trans {a b c : GRow} (h1 : gn_Twin a b) (h2 : gn_Twin b c) : gn_Twin a c :=
  ⟨h1.1.trans h2.1, h1.2.1.trans h2.2.1, h1.2.2.1.trans h2.2.2.1, h1.2.2.2.trans h2.2.2.2⟩

/-- the rows of `A` may be replaced by any system of the same grid, the rows of `B` by twins -/
theorem gn_set_append_congr {A A' B : List GRow} (f : GRow → GRow) (hA : gn_set A = gn_set A')
    (hpA : ∃ r ∈ A, gn_isPt r = true) (hpA' : ∃ r ∈ A', gn_isPt r = true) (hf : ∀ r ∈ B, gn_Twin (f r) r) :
    gn_set (A ++ B.map f) = gn_set (A' ++ B) := by
  apply Set.Subset.antisymm
  · have hsub : gn_set A ⊆ gn_set (A' ++ B) := by rw [hA]; exact fun _ h => gn_mem_append_left h
    obtain ⟨pa, la⟩ := gn_absorb (gn_closed_set (A' ++ B)) hsub hpA
    refine gn_mem_least (gn_closed_set _) ?_ ?_ ?_
    · intro r hr p
      rcases List.mem_append.mp hr with hr | hr
      · exact hsub (gn_mem_pt hr p)
      · obtain ⟨r0, hr0, rfl⟩ := List.mem_map.mp hr
        obtain ⟨_, b, _, d⟩ := hf r0 hr0
        rw [d]; exact gn_mem_pt (List.mem_append_right _ hr0) (by rw [← b]; exact p)
    · intro r hr p
      rcases List.mem_append.mp hr with hr | hr
      · exact pa r hr p
      · obtain ⟨r0, hr0, rfl⟩ := List.mem_map.mp hr
        obtain ⟨_, _, c, d⟩ := hf r0 hr0
        intro a ha k
        rw [d]; exact gn_mem_par_step (List.mem_append_right _ hr0) (by rw [← c]; exact p) ha k
    · intro r hr p
      rcases List.mem_append.mp hr with hr | hr
      · exact la r hr p
      · obtain ⟨r0, hr0, rfl⟩ := List.mem_map.mp hr
        obtain ⟨a', _, _, d⟩ := hf r0 hr0
        intro a ha c
        rw [d]; exact gn_mem_line_step (List.mem_append_right _ hr0) (by rw [← a']; exact p) ha c
  · have hsub : gn_set A' ⊆ gn_set (A ++ B.map f) := by rw [← hA]; exact fun _ h => gn_mem_append_left h
    obtain ⟨pa, la⟩ := gn_absorb (gn_closed_set (A ++ B.map f)) hsub hpA'
    refine gn_mem_least (gn_closed_set _) ?_ ?_ ?_
    · intro r hr p
      rcases List.mem_append.mp hr with hr | hr
      · exact hsub (gn_mem_pt hr p)
      · obtain ⟨_, b, _, d⟩ := hf r hr
        rw [← d]
        exact gn_mem_pt (List.mem_append_right _ (List.mem_map_of_mem hr)) (by rw [b]; exact p)
    · intro r hr p
      rcases List.mem_append.mp hr with hr | hr
      · exact pa r hr p
      · obtain ⟨_, _, c, d⟩ := hf r hr
        intro a ha k
        rw [← d]
        exact gn_mem_par_step (List.mem_append_right _ (List.mem_map_of_mem hr)) (by rw [c]; exact p) ha k
    · intro r hr p
      rcases List.mem_append.mp hr with hr | hr
      · exact la r hr p
      · obtain ⟨a', _, _, d⟩ := hf r hr
        intro a ha c
        rw [← d]
        exact gn_mem_line_step (List.mem_append_right _ (List.mem_map_of_mem hr)) (by rw [a']; exact p) ha c

/-- a row as the library builds it, of dimension `n` -/
def gn_RowN (n : Nat) (r : GRow) : Prop :=
  r.e.length = n + 2 ∧ (r.line = false → 0 < r.divisor) ∧ (r.line = true → get r.e 0 = 0)

/-- what a row of a system normalised to the divisor `d` looks like -/
def gn_RowD (n : Nat) (d : Int) (r : GRow) : Prop :=
  r.e.length = n + 2 ∧ (r.line = false → get r.e 0 = 0 ∨ get r.e 0 = d) ∧
  (r.line = false → get r.e 0 = 0 → get r.e (n + 1) = d) ∧ (r.line = true → get r.e 0 = 0)

theorem gn_scaleRow {n : Nat} {r : GRow} {d : Int} (h : gn_RowN n r) (hd : 0 < d) (hdv : r.line = false → r.divisor ∣ d) :
    gn_Twin (r.scaleToDivisor d) r ∧ gn_RowD n d (r.scaleToDivisor d) := by
  obtain ⟨hlen, hpos, hlin⟩ := h
  cases hl : r.line with
  | true =>
    have e : r.scaleToDivisor d = r := by simp [GRow.scaleToDivisor, GRow.isLine, hl]
    rw [e]
    exact ⟨gn_Twin.refl r, hlen, fun h => (by rw [hl] at h; cases h), fun h => (by rw [hl] at h; cases h), fun _ => hlin hl⟩
  | false =>
    obtain ⟨s1, s2, s3, s4, s5⟩ := scaleToDivisor_spec n r d hlen hl (hpos hl) (hdv hl) hd
    have hk := gn_kind_congr (x := r) (y := r.scaleToDivisor d) (by rw [s1, hl]) s3
    refine ⟨⟨by rw [s1, hl], hk.1, hk.2, ?_⟩, s2, fun _ => ?_, fun _ hz => ?_, fun h => (by rw [s1] at h; cases h)⟩
    · rw [gn_vecOf_nonline s2 s1, gn_vecOf_nonline hlen hl, s5]
    · by_cases hz : get (r.scaleToDivisor d).e 0 = 0
      · exact Or.inl hz
      · right; rw [← divisor_point _ hz]; exact s4
    · rw [← divisor_param n _ s2 hz]; exact s4

/-- `normalize_divisors(sys, divisor)` on rows that need not contain a point: a row-wise map to the new divisor -/
theorem gn_normalizeDivisors0 {n : Nat} {rows : List GRow} (h : ∀ r ∈ rows, gn_RowN n r) (hn : 0 < n) (d : Int)
    (hd : 0 < d) :
    ∃ f : GRow → GRow, (normalizeDivisors n rows d).1 = rows.map f ∧ 0 < (normalizeDivisors n rows d).2 ∧
      d ∣ (normalizeDivisors n rows d).2 ∧
      ∀ r ∈ rows, gn_Twin (f r) r ∧ gn_RowD n (normalizeDivisors n rows d).2 (f r) := by
  unfold normalizeDivisors
  rw [if_pos ⟨hn, hd⟩]
  by_cases hall : rows.all (·.isLine) = true
  · rw [if_pos hall]
    refine ⟨id, by simp, hd, dvd_refl d, fun r hr => ⟨gn_Twin.refl r, ?_⟩⟩
    have hl : r.line = true := by
      have := List.all_eq_true.mp hall r hr
      simpa [GRow.isLine] using this
    exact ⟨(h r hr).1, fun h' => (by change r.line = false at h'; rw [hl] at h'; cases h'),
      fun h' => (by change r.line = false at h'; rw [hl] at h'; cases h'), fun _ => (h r hr).2.2 hl⟩
  · rw [if_neg hall]
    have hpos : ∀ r ∈ rows.dropWhile (·.isLine), r.line = false → 0 < r.divisor :=
      fun r hr hl => (h r (List.dropWhile_subset _ hr)).2.1 hl
    obtain ⟨h1, h2, h3⟩ := lcmFold_spec (rows.dropWhile (·.isLine)) hpos d hd
    refine ⟨fun r => r.scaleToDivisor
      ((rows.dropWhile (·.isLine)).foldl (fun d g => if g.isParameterOrPoint then lcmI d g.divisor else d) d),
      rfl, h1, h2, fun r hr => ?_⟩
    exact gn_scaleRow (h r hr) h1
      (fun hl => h3 r (mem_dropWhile_of_not _ rows r hr (by simpa [GRow.isLine] using hl)) hl)

end PPLV.Lattice.GO
