import PPLV.Lattice.Convert
/-!
# What the raw rows of `Grid::simplify` / `Grid::conversion` denote (executable part, no Mathlib)

* a congruence row `(e, m)` denotes the K2 congruence `Σ e[i+1] xᵢ + e[0] ≡ 0 (mod m)` (`CRow.toCg`);
  a system denotes `CgSys.sem n` of these (`cgsSem`);
* a generator row is read in homogeneous coordinates: its vector is the columns `0..n` (`GRow.hvec`;
  the parameter divisor column `n+1` is bookkeeping).  A system denotes the set
  `ℤ-span(parameter/point rows) + ℚ-span(line rows)` of `ℚ^{n+1}` (`Hom`, in `ProofsRedSem.lean`), and the
  grid is `{ x | (D, D·x) ∈ Hom }` for the system divisor `D` (`homog`);
* `gensOf` is the PPL reading of a generator system (point `e[1..n]/e[0]`, parameter `e[1..n]/e[n+1]`,
  line `e[1..n]`) as a K2 generator form — used by the driver to hand real outputs to the K2 deciders.
-/
namespace PPLV.Lattice.Red

def ratRow (e : Row) : Vec := e.map (fun (z : Int) => (z : Rat))

/-- the congruence denoted by a row -/
def CRow.toCg (r : CRow) : Cg := { a := (ratRow r.e).tail, b := (get r.e 0 : Rat), f := (r.m : Rat) }

def cgsOf (rows : List CRow) : List Cg := rows.map CRow.toCg

/-- point set of a congruence system given by its rows (dimension `n`) -/
def cgsSem (n : Nat) (rows : List CRow) (x : Pt) : Prop := CgSys.sem n (cgsOf rows) x

/-- homogeneous vector of a generator row: columns `0..n` -/
def GRow.hvec (n : Nat) (r : GRow) : Vec := ratRow (r.e.take (n + 1))

def pcVecs (n : Nat) (rows : List GRow) : List Vec := (rows.filter (fun r => !r.line)).map (GRow.hvec n)
def lineVecs (n : Nat) (rows : List GRow) : List Vec := (rows.filter (fun r => r.line)).map (GRow.hvec n)

/-- `(D, D·x)` -/
def homog (D : Rat) (x : Pt) : Pt := fun i => match i with
  | 0 => D
  | i + 1 => D * x i

/-- coordinates `e[1..n]` divided by `d` -/
def GRow.coords (n : Nat) (r : GRow) (d : Rat) : Vec := ((ratRow r.e).tail.take n).map (· / d)

/-- the PPL reading of a generator system; `none`: no point, or a zero divisor -/
def gensOf (n : Nat) (rows : List GRow) : Option GridGens :=
  let pts := rows.filter (fun r => !r.line && get r.e 0 != 0)
  let qs := rows.filter (fun r => !r.line && get r.e 0 == 0)
  let ls := rows.filter (fun r => r.line)
  if qs.any (fun r => get r.e (n + 1) == 0) then none else
  match pts with
  | [] => none
  | p :: ps =>
    let pv := p.coords n (get p.e 0 : Rat)
    some (.gens { pt := pv,
                  params := ps.map (fun r => vsub (r.coords n (get r.e 0 : Rat)) pv)
                            ++ qs.map (fun r => r.coords n (get r.e (n + 1) : Rat)),
                  lines := ls.map (fun r => r.coords n 1) })

/-- rows have the sizes the library gives them -/
def GWf (n : Nat) (rows : List GRow) : Prop := ∀ r ∈ rows, r.e.length = n + 2
def CWf (n : Nat) (rows : List CRow) : Prop := ∀ r ∈ rows, r.e.length = n + 1 ∧ 0 ≤ r.m

/-- the divisors of a generator system are normalised (decidable form of `GNorm`, `ProofsRedBridge.lean`): row 0 is a
    point with divisor `D > 0`; every other parameter/point row has `e[0] = D`, or `e[0] = 0` and `D` in the parameter
    divisor column; lines have `e[0] = 0` -/
def gnormB (n : Nat) (rows : List GRow) : Bool :=
  let D := get (rowAt rows 0).e 0
  decide (0 < D) && decide (0 < rows.length) && !(rowAt rows 0).line &&
    rows.all fun r => if r.line then get r.e 0 == 0 else (get r.e 0 == D) || (get r.e 0 == 0 && get r.e (n + 1) == D)

end PPLV.Lattice.Red
