import PPLV.Lattice.ProofsGridOpsGen9

/-!
# Generator side of the `Grid` object, part 10 — `Grid::upper_bound_assign(y)` (Grid_public.cc:1571): the join
-/
namespace PPLV.Lattice.GO
open PPLV.Lattice PPLV.Lattice.Red

theorem gn_ens_of_not_marked {x : Grid} (h : x.markedEmpty = false) : ensureGenerators x = gn_ens x := by
  unfold gn_ens; rw [h, if_neg (by simp)]

theorem gn_upperBoundAssign_eq (x y : Grid) (hd : x.spaceDim = y.spaceDim) (hx : x.markedEmpty = false)
    (hy : y.markedEmpty = false) (hn : 0 < x.spaceDim) :
    upperBoundAssign x y =
      if (gn_ens x).2 = false then { x := assign (gn_ens x).1 y, y := y }
      else if (gn_ens y).2 = false then { x := (gn_ens x).1, y := (gn_ens y).1 }
      else { x := (((gn_ens x).1.withGs ((normalizeDivisors2 (gn_ens x).1.gs (gn_ens y).1.gs).1.insertSys
                    (normalizeDivisors2 (gn_ens x).1.gs (gn_ens y).1.gs).2)).clearCongruencesUpToDate
                  ).clearGeneratorsMinimized,
             y := (gn_ens y).1 } := by
  unfold upperBoundAssign
  rw [if_neg (not_not.mpr hd), hy, if_neg (by simp), hx, if_neg (by simp), if_neg (by omega),
    gn_ens_of_not_marked hx, gn_ens_of_not_marked hy]
  cases h1 : (gn_ens x).2 <;> cases h2 : (gn_ens y).2 <;> simp [h1, h2]

/-- the generator systems of two non-empty grids of one dimension after `normalize_divisors(x.gen_sys, gs)` and
    `x.gen_sys.insert(gs)` -/
theorem gn_join_rows {n : Nat} (hn : 0 < n) {X Y : List GRow} {DX DY : Int} (hwX : GWf n X) (hNX : GNorm n DX X)
    (hwY : GWf n Y) (hNY : GNorm n DY Y) :
    ∃ rows D', (normalizeDivisors2 (GSys.mk n X) (GSys.mk n Y)).1.insertSys (normalizeDivisors2 (GSys.mk n X) (GSys.mk n Y)).2
        = GSys.mk n rows ∧ GWf n rows ∧ GNorm n D' rows ∧ gn_IsJoin (gn_set rows) (gn_set X) (gn_set Y) := by
  obtain ⟨D', d1, d2, w1, n1, w2, n2, s1, s2⟩ :=
    gn_normalizeDivisors2 (sys := GSys.mk n X) (genSys := GSys.mk n Y) hn rfl rfl (gn_wf_of_gnorm hNX hwX) hNY hwY
  rw [gn_insertSys _ _ (by rw [d1, d2]) (by rw [d1]; exact w2)]
  refine ⟨_, D', ?_, gn_gwf_append w1 w2, gn_gnorm_append_gnorm n1 n2, ?_⟩
  · exact congrArg (fun d => GSys.mk d _) d1
  · have hj := gn_set_append_join (X := (normalizeDivisors2 (GSys.mk n X) (GSys.mk n Y)).1.rows)
      (Y := (normalizeDivisors2 (GSys.mk n X) (GSys.mk n Y)).2.rows)
      (gn_wf_of_gnorm n1 w1).pt (gn_wf_of_gnorm n2 w2).pt
    rw [s1, s2] at hj
    exact hj

/-- **`Grid::upper_bound_assign(y)`** for grids of one dimension: both invariants are kept, nothing is thrown, `y` denotes
    what it denoted, and the receiver becomes the join: it contains both grids and is contained in every closed set
    (in particular every grid `Gen.sem K`, see `gn_IsJoin.least`) that contains both -/
theorem gn_upperBoundAssign (hEG : EnsureGeneratorsSpec) (x y : Grid) (hIx : GridInv x) (hIy : GridInv y)
    (hd : x.spaceDim = y.spaceDim) :
    GridInv (upperBoundAssign x y).x ∧ GridInv (upperBoundAssign x y).y ∧ (upperBoundAssign x y).thrown = false ∧
    (upperBoundAssign x y).x.spaceDim = x.spaceDim ∧ (upperBoundAssign x y).y.spaceDim = y.spaceDim ∧
    (upperBoundAssign x y).y.sem = y.sem ∧ gn_IsJoin (upperBoundAssign x y).x.sem x.sem y.sem := by
  cases hy : y.markedEmpty with
  | true =>
    have e : upperBoundAssign x y = { x := x, y := y } := by
      unfold upperBoundAssign; rw [if_neg (not_not.mpr hd), hy, if_pos rfl]
    rw [e, gn_sem_of_empty (g := y) hy]
    exact ⟨hIx, hIy, rfl, rfl, rfl, rfl, gn_isJoin_empty_right _⟩
  | false =>
  cases hx : x.markedEmpty with
  | true =>
    have e : upperBoundAssign x y = { x := assign x y, y := y } := by
      unfold upperBoundAssign; rw [if_neg (not_not.mpr hd), hy, if_neg (by simp), hx, if_pos rfl]
    obtain ⟨a, b, c⟩ := gn_assign x y hIy hy
    rw [e, gn_sem_of_empty (g := x) hx]
    refine ⟨a, hIy, rfl, by rw [hd]; exact c, rfl, rfl, ?_⟩
    show gn_IsJoin (assign x y).sem ∅ y.sem
    rw [b]; exact gn_isJoin_empty_left _
  | false =>
  by_cases h0 : x.spaceDim = 0
  · have e : upperBoundAssign x y = { x := x, y := y } := by
      unfold upperBoundAssign; rw [if_neg (not_not.mpr hd), hy, if_neg (by simp), hx, if_neg (by simp), if_pos h0]
    rw [e]
    refine ⟨hIx, hIy, rfl, rfl, rfl, rfl, ?_⟩
    show gn_IsJoin x.sem x.sem y.sem
    rw [gn_sem_dim0 (g := y) hy (by rw [← hd]; exact h0), gn_sem_dim0 (g := x) hx h0]
    exact gn_isJoin_self _
  · have hn : 0 < x.spaceDim := by omega
    have hny : 0 < y.spaceDim := by omega
    rw [gn_upperBoundAssign_eq x y hd hx hy hn]
    cases h1 : (gn_ens x).2 with
    | false =>
      obtain ⟨_, _, _, _, ex⟩ := gn_ens_false hEG x hIx hn h1
      obtain ⟨a, b, c⟩ := gn_assign (gn_ens x).1 y hIy hy
      rw [if_pos rfl, ex]
      refine ⟨a, hIy, rfl, by rw [hd]; exact c, rfl, rfl, ?_⟩
      show gn_IsJoin (assign (gn_ens x).1 y).sem ∅ y.sem
      rw [b]; exact gn_isJoin_empty_left _
    | true =>
      rw [if_neg (by simp)]
      obtain ⟨ax, bx, cx, dx, ex, fx, wx, nx, sx⟩ := gn_ens_true hEG x hIx hn h1
      cases h2 : (gn_ens y).2 with
      | false =>
        obtain ⟨ay, by', _, dy, ey⟩ := gn_ens_false hEG y hIy hny h2
        obtain ⟨_, sx', _⟩ := gn_ens_spec hEG x hIx hn
        rw [if_pos rfl]
        refine ⟨ax, ay, rfl, bx, by', by rw [ey]; exact dy, ?_⟩
        show gn_IsJoin (gn_ens x).1.sem x.sem y.sem
        rw [sx', ey]; exact gn_isJoin_empty_right _
      | true =>
        rw [if_neg (by simp)]
        obtain ⟨ay, by', cy, dy, ey, fy, wy, ny, sy⟩ := gn_ens_true hEG y hIy hny h2
        obtain ⟨_, sy', _⟩ := gn_ens_spec hEG y hIy hny
        have hgx : (gn_ens x).1.gs = GSys.mk x.spaceDim (gn_ens x).1.gen := by
          show GSys.mk (gn_ens x).1.genDim (gn_ens x).1.gen = _
          rw [fx]
        have hgy : (gn_ens y).1.gs = GSys.mk x.spaceDim (gn_ens y).1.gen := by
          show GSys.mk (gn_ens y).1.genDim (gn_ens y).1.gen = _
          rw [fy, hd]
        rw [← hd] at wy ny
        obtain ⟨rows, D', e1, a1, b1, c1⟩ := gn_join_rows hn wx nx wy ny
        rw [hgx, hgy, e1]
        have key := gn_inv_gens
          (g := ((((gn_ens x).1.withGs (GSys.mk x.spaceDim rows)).clearCongruencesUpToDate).clearGeneratorsMinimized))
          (by show 0 < (gn_ens x).1.spaceDim; rw [bx]; exact hn) cx rfl dx rfl rfl ex
          (by show x.spaceDim = (gn_ens x).1.spaceDim; rw [bx])
          (by show GWf (gn_ens x).1.spaceDim rows; rw [bx]; exact a1)
          (D := D') (by show GNorm (gn_ens x).1.spaceDim _ rows; rw [bx]; exact b1)
        refine ⟨key.1, ay, rfl, bx, by', sy', ?_⟩
        show gn_IsJoin (Grid.sem _) x.sem y.sem
        rw [key.2, ← sx, ← sy]
        exact c1

/-- the same, against K2's generator forms: the result is the least grid containing both -/
theorem gn_upperBoundAssign_least (hEG : EnsureGeneratorsSpec) (x y : Grid) (hIx : GridInv x) (hIy : GridInv y)
    (hd : x.spaceDim = y.spaceDim) :
    x.sem ⊆ (upperBoundAssign x y).x.sem ∧ y.sem ⊆ (upperBoundAssign x y).x.sem ∧
    ∀ K : GridGens, x.sem ⊆ {p | Gen.sem K p} → y.sem ⊆ {p | Gen.sem K p} →
      (upperBoundAssign x y).x.sem ⊆ {p | Gen.sem K p} := by
  obtain ⟨_, _, _, _, _, _, h⟩ := gn_upperBoundAssign hEG x y hIx hIy hd
  exact ⟨h.1, h.2.1, fun K => h.least K⟩

/-- the hypotheses are satisfiable: the grids `{0}` and `{1/2}` of the line -/
example : ∃ x y : Grid, GridInv x ∧ GridInv y ∧ x.spaceDim = y.spaceDim ∧ 0 < x.spaceDim :=
  ⟨{ spaceDim := 1, st := { gUp := true }, conDim := 1, con := [], genDim := 1, gen := [⟨false, [1, 0, 0]⟩], dk := [] },
   { spaceDim := 1, st := { gUp := true }, conDim := 1, con := [], genDim := 1, gen := [⟨false, [2, 1, 0]⟩], dk := [] },
   (gn_inv_gens (D := 1) (by decide) rfl rfl rfl rfl rfl rfl rfl (by intro r hr; rw [List.mem_singleton.mp hr]; rfl)
      ⟨by decide, ⟨_, List.mem_singleton.mpr rfl, rfl, rfl⟩, by decide, by decide, by decide⟩).1,
   (gn_inv_gens (D := 2) (by decide) rfl rfl rfl rfl rfl rfl rfl (by intro r hr; rw [List.mem_singleton.mp hr]; rfl)
      ⟨by decide, ⟨_, List.mem_singleton.mpr rfl, rfl, rfl⟩, by decide, by decide, by decide⟩).1,
   rfl, by decide⟩

end PPLV.Lattice.GO
