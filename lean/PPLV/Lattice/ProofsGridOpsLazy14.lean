import PPLV.Lattice.ProofsGridOpsLazy13
import PPLV.Lattice.ProofsGridOpsCon13

/-!
# Generator side of the affine transformers — part 14: `remove_invalid_lines_and_parameters`, the whole
# `Grid_Generator_System::affine_image`, `genAffineImagePos`, the inverse map, `affine_preimage` unconditional
-/
namespace PPLV.Lattice.GO
open PPLV.Lattice PPLV.Lattice.Red

/-! ### `remove_invalid_lines_and_parameters` (Grid_Generator_System.cc:223) -/

/-- the rows it removes: inhomogeneous term 0 and all homogeneous terms 0 -/
def lz_bad (g : GRow) : Bool := g.isLineOrParameter && g.allHomZero

theorem lz_rowAt_take {rows : List GRow} {k j : Nat} (h : j < k) : rowAt (rows.take k) j = rowAt rows j := by
  simp [rowAt, h]

/-- swap-with-last removal: nothing new appears, every other row stays -/
theorem lz_removeInvalidAux_spec : ∀ (fuel i : Nat) (rows : List GRow),
    (∀ r, r ∈ removeInvalidAux fuel i rows → r ∈ rows) ∧
    (∀ r, r ∈ rows → lz_bad r = false → r ∈ removeInvalidAux fuel i rows)
  | 0, _, rows => ⟨fun _ h => h, fun _ h _ => h⟩
  | fuel + 1, i, rows => by
    unfold removeInvalidAux
    by_cases hi : i < rows.length
    · rw [if_pos hi]
      by_cases hb : ((rowAt rows i).isLineOrParameter && (rowAt rows i).allHomZero) = true
      · rw [if_pos hb]
        obtain ⟨ih1, ih2⟩ := lz_removeInvalidAux_spec fuel i ((rows.set i (rowAt rows (rows.length - 1))).take (rows.length - 1))
        have hlast : rowAt rows (rows.length - 1) ∈ rows := rowAt_mem rows _ (by omega)
        constructor
        · intro r hr
          have h1 := List.mem_of_mem_take (ih1 r hr)
          rcases List.mem_or_eq_of_mem_set h1 with h | h
          · exact h
          · rw [h]; exact hlast
        · intro r hr hgood
          apply ih2 r _ hgood
          obtain ⟨j, hj, rfl⟩ := (gc_mem_iff_rowAt _ _).mp hr
          have hji : j ≠ i := by
            intro h; subst h
            unfold lz_bad at hgood; rw [hb] at hgood; exact absurd hgood (by decide)
          by_cases hjl : j < rows.length - 1
          · have : rowAt ((rows.set i (rowAt rows (rows.length - 1))).take (rows.length - 1)) j = rowAt rows j := by
              rw [lz_rowAt_take hjl, rowAt_set, if_neg (fun h => hji h.1)]
            rw [← this]
            exact rowAt_mem _ _ (by simp; omega)
          · have hjeq : j = rows.length - 1 := by omega
            have hil : i < rows.length - 1 := by omega
            have : rowAt ((rows.set i (rowAt rows (rows.length - 1))).take (rows.length - 1)) i = rowAt rows j := by
              rw [lz_rowAt_take hil, rowAt_set, if_pos ⟨rfl, hi⟩, hjeq]
            rw [← this]
            exact rowAt_mem _ _ (by simp; omega)
      · rw [if_neg hb]
        exact lz_removeInvalidAux_spec fuel (i + 1) rows
    · rw [if_neg hi]; exact ⟨fun _ h => h, fun _ h _ => h⟩

theorem lz_allZ_iff (e : Row) (s t : Nat) : allZ e s t = true ↔ ∀ i, s ≤ i → i < t → get e i = 0 := by
  unfold allZ
  simp only [List.all_eq_true, List.mem_range'_1, beq_iff_eq, and_imp]
  constructor
  · intro h i h1 h2; exact h i h1 (by omega)
  · intro h i h1 h2; exact h i h1 (by omega)

/-- a removed row has the zero vector -/
theorem lz_bad_hv {n : Nat} {r : GRow} (hl : r.e.length = n + 2) (hb : lz_bad r = true) : hv n r = 0 := by
  unfold lz_bad at hb
  rw [Bool.and_eq_true] at hb
  obtain ⟨h0, hz⟩ := hb
  have h0' : get r.e 0 = 0 := by simpa [GRow.isLineOrParameter] using h0
  unfold GRow.allHomZero at hz
  rw [lz_allZ_iff, hl] at hz
  apply hv_zero
  intro i hi
  cases i with
  | zero => exact h0'
  | succ i => exact hz (i + 1) (by omega) (by omega)

theorem lz_removeInvalid_hom {n : Nat} {rows : List GRow} (hw : GWf n rows) (w : Pt) :
    Hom n (removeInvalidAux rows.length 0 rows) w ↔ Hom n rows w := by
  obtain ⟨h1, h2⟩ := lz_removeInvalidAux_spec rows.length 0 rows
  constructor
  · intro h
    have := hom_le (n := n) (rows := removeInvalidAux rows.length 0 rows) (rows' := rows) 1
      (fun r hr hl => by rw [one_smul]; exact hom_of_mem_pc (h1 r hr) hl)
      (fun r hr hl c => hom_of_mem_line (h1 r hr) hl c) h
    simpa using this
  · intro h
    have key : ∀ r ∈ rows, r ∈ removeInvalidAux rows.length 0 rows ∨ hv n r = 0 := by
      intro r hr
      cases hb : lz_bad r
      · exact Or.inl (h2 r hr hb)
      · exact Or.inr (lz_bad_hv (hw r hr) hb)
    have := hom_le (n := n) (rows := rows) (rows' := removeInvalidAux rows.length 0 rows) 1
      (fun r hr hl => by
        rw [one_smul]
        rcases key r hr with h' | h'
        · exact hom_of_mem_pc h' hl
        · rw [h']; exact hom_zero _ _)
      (fun r hr hl c => by
        rcases key r hr with h' | h'
        · exact hom_of_mem_line h' hl c
        · rw [h']; simpa using hom_zero n _) h
    simpa using this

theorem lz_removeInvalid_facts {n : Nat} {D : Int} {rows : List GRow} (hw : GWf n rows) (hN : GNorm n D rows) :
    GWf n (removeInvalidAux rows.length 0 rows) ∧ GNorm n D (removeInvalidAux rows.length 0 rows) ∧
    gensSet n (removeInvalidAux rows.length 0 rows) = gensSet n rows := by
  obtain ⟨h1, h2⟩ := lz_removeInvalidAux_spec rows.length 0 rows
  have hN' : GNorm n D (removeInvalidAux rows.length 0 rows) := by
    refine ⟨hN.pos, ?_, fun r hr => hN.col0 r (h1 r hr), fun r hr => hN.par r (h1 r hr), fun r hr => hN.lin r (h1 r hr)⟩
    obtain ⟨r, hr, hl, h0⟩ := hN.pt
    refine ⟨r, h2 r hr ?_, hl, h0⟩
    have : get r.e 0 ≠ 0 := by rw [h0]; exact ne_of_gt hN.pos
    simp [lz_bad, GRow.isLineOrParameter, this]
  refine ⟨fun r hr => hw r (h1 r hr), hN', ?_⟩
  rw [lz_gensSet_eq hN', lz_gensSet_eq hN]
  ext x
  exact lz_removeInvalid_hom hw _

/-! ### the whole `affine_image` -/

/-- **`Grid_Generator_System::affine_image(v, expr, den)`**, `den > 0`: sizes kept, divisors normalised with `den·D`, the
    grid is the image under `x ↦ x[v := (⟨e,x⟩ + e₀)/den]` -/
theorem lz_GSys_affineImage (n v : Nat) (e : LinExpr) (den : Int) (rows : List GRow) (D : Int) (hden : 0 < den)
    (hvn : v < n) (he : e.spaceDim ≤ n) (hw : GWf n rows) (hN : GNorm n D rows) :
    (GSys.affineImage ⟨n, rows⟩ v e den).dim = n ∧ GWf n (GSys.affineImage ⟨n, rows⟩ v e den).rows ∧
    GNorm n (den * D) (GSys.affineImage ⟨n, rows⟩ v e den).rows ∧
    gensSet n (GSys.affineImage ⟨n, rows⟩ v e den).rows = lzF v e den '' gensSet n rows := by
  have a := lz_aiRows_gwf v e den hw
  have b := lz_aiRows_gnorm v e den hden hvn hw hN
  have c := lz_aiRows_gensSet v e den hden hvn he hw hN
  rw [lz_affineImage_eq]
  split
  · obtain ⟨a', b', c'⟩ := lz_removeInvalid_facts a b
    exact ⟨rfl, a', b', c'.trans c⟩
  · exact ⟨rfl, a, b, c⟩

/-- the same on the PPL reading `gn_set` -/
theorem lz_GSys_affineImage_gn (n v : Nat) (e : LinExpr) (den : Int) (rows : List GRow) (D : Int) (hden : 0 < den)
    (hvn : v < n) (he : e.spaceDim ≤ n) (hw : GWf n rows) (hN : GNorm n D rows) :
    gn_set (GSys.affineImage ⟨n, rows⟩ v e den).rows = lzF v e den '' gn_set rows := by
  obtain ⟨_, a, b, c⟩ := lz_GSys_affineImage n v e den rows D hden hvn he hw hN
  rw [← gn_bridge b a, ← gn_bridge hN hw]; exact c

theorem lzF_neg (v : Nat) (e : LinExpr) (den : Int) : lzF v (negExpr e) (-den) = lzF v e den := by
  funext x
  unfold lzF
  rw [cn_negExpr_eval]; push_cast; rw [neg_div_neg_eq]

/-- **`genAffineImagePos`** (either sign of the denominator) -/
theorem lz_genAffineImagePos (n v : Nat) (e : LinExpr) (den : Int) (rows : List GRow) (D : Int) (hden : den ≠ 0)
    (hvn : v < n) (he : e.spaceDim ≤ n) (hw : GWf n rows) (hN : GNorm n D rows) :
    (genAffineImagePos ⟨n, rows⟩ v e den).dim = n ∧ GWf n (genAffineImagePos ⟨n, rows⟩ v e den).rows ∧
    (∃ D', GNorm n D' (genAffineImagePos ⟨n, rows⟩ v e den).rows) ∧
    gensSet n (genAffineImagePos ⟨n, rows⟩ v e den).rows = lzF v e den '' gensSet n rows := by
  unfold genAffineImagePos
  split
  · rename_i h
    obtain ⟨a, b, c, d⟩ := lz_GSys_affineImage n v e den rows D h hvn he hw hN
    exact ⟨a, b, ⟨_, c⟩, d⟩
  · obtain ⟨a, b, c, d⟩ := lz_GSys_affineImage n v (negExpr e) (-den) rows D (by omega) hvn
      (by rw [cn_negExpr_spaceDim]; exact he) hw hN
    exact ⟨a, b, ⟨_, c⟩, by rw [d, lzF_neg]⟩

/-! ### the inverse map (Grid_public.cc:1980) -/

theorem lz_get_negExpr (e : LinExpr) (i : Nat) : get (negExpr e) i = - get e i := by
  unfold negExpr
  by_cases h : i < e.length
  · rw [cn_get_map _ _ (by simp)]
  · rw [get_of_length_le _ _ (by simp; omega), get_of_length_le _ _ (by omega)]; simp

/-- the value of the inverse expression -/
theorem lz_inverseOf_eval (e : LinExpr) (v : Nat) (den : Int) (hv1 : v + 1 ≤ e.spaceDim) (hev : e.coeff v ≠ 0) (x : Pt) :
    0 < (inverseOf e v den).2 ∧ (inverseOf e v den).1.spaceDim = e.spaceDim ∧
    evalRow (inverseOf e v den).1 x / ((inverseOf e v den).2 : ℚ) =
      (- evalRow e x + ((den : ℚ) + (e.coeff v : ℚ)) * x v) / (e.coeff v : ℚ) := by
  have hlen : v + 1 < e.length := by unfold LinExpr.spaceDim at hv1; omega
  have hq : (e.coeff v : ℚ) ≠ 0 := by exact_mod_cast hev
  unfold inverseOf
  by_cases hpos : e.coeff v > 0
  · simp only [hpos, if_true]
    refine ⟨trivial, by simp [setCoeff, LinExpr.spaceDim, negExpr], ?_⟩
    unfold setCoeff
    rw [cn_evalRow_set _ x v _ (by rw [cn_negExpr_length]; exact hlen), cn_negExpr_eval, lz_get_negExpr, ← cn_coeff_eq]
    push_cast; ring
  · simp only [hpos, if_false]
    have hneg : e.coeff v < 0 := by omega
    refine ⟨by omega, by simp [setCoeff, LinExpr.spaceDim], ?_⟩
    unfold setCoeff
    rw [cn_evalRow_set _ x v _ hlen, ← cn_coeff_eq]
    push_cast
    rw [div_eq_div_iff (by simpa using hq) hq]
    ring

/-- the two maps are inverse to each other -/
theorem lzF_inverse_left (e : LinExpr) (v : Nat) (den : Int) (hden : den ≠ 0) (hv1 : v + 1 ≤ e.spaceDim)
    (hev : e.coeff v ≠ 0) (x : Pt) :
    lzF v e den (lzF v (inverseOf e v den).1 (inverseOf e v den).2 x) = x := by
  have hq : (e.coeff v : ℚ) ≠ 0 := by exact_mod_cast hev
  have hd : (den : ℚ) ≠ 0 := by exact_mod_cast hden
  funext i
  unfold lzF
  rw [(lz_inverseOf_eval e v den hv1 hev x).2.2]
  unfold cn_upd
  by_cases hi : i = v
  · subst hi
    rw [if_pos rfl]
    have := cn_evalRow_upd e x i ((- evalRow e x + ((den : ℚ) + (e.coeff i : ℚ)) * x i) / (e.coeff i : ℚ))
    unfold cn_upd at this
    rw [this, ← cn_coeff_eq]
    field_simp
    ring
  · rw [if_neg hi, if_neg hi]

theorem lzF_inverse_right (e : LinExpr) (v : Nat) (den : Int) (hden : den ≠ 0) (hv1 : v + 1 ≤ e.spaceDim)
    (hev : e.coeff v ≠ 0) (x : Pt) :
    lzF v (inverseOf e v den).1 (inverseOf e v den).2 (lzF v e den x) = x := by
  have hq : (e.coeff v : ℚ) ≠ 0 := by exact_mod_cast hev
  have hd : (den : ℚ) ≠ 0 := by exact_mod_cast hden
  funext i
  have h1 : lzF v (inverseOf e v den).1 (inverseOf e v den).2 (lzF v e den x) =
      cn_upd (lzF v e den x) v ((- evalRow e (lzF v e den x) + ((den : ℚ) + (e.coeff v : ℚ)) * (lzF v e den x) v) / (e.coeff v : ℚ)) := by
    unfold lzF
    rw [(lz_inverseOf_eval e v den hv1 hev _).2.2]
  rw [h1]
  unfold cn_upd
  by_cases hi : i = v
  · subst hi
    rw [if_pos rfl]
    have h2 : lzF i e den x i = evalRow e x / (den : ℚ) := by unfold lzF cn_upd; rw [if_pos rfl]
    have h3 : evalRow e (lzF i e den x) = evalRow e x + (e.coeff i : ℚ) * (evalRow e x / (den : ℚ) - x i) := by
      unfold lzF; rw [cn_evalRow_upd, ← cn_coeff_eq]
    rw [h2, h3]
    field_simp
    ring
  · rw [if_neg hi]
    unfold lzF cn_upd
    rw [if_neg hi]

/-- the image under the inverse map is the preimage -/
theorem lz_image_inverse (n v : Nat) (e : LinExpr) (den : Int) (hden : den ≠ 0) (hvn : v < n) (hv1 : v + 1 ≤ e.spaceDim)
    (hev : e.coeff v ≠ 0) (S : Set Pt) (hS : ∀ x ∈ S, Supp n x) :
    lzF v (inverseOf e v den).1 (inverseOf e v den).2 '' S = cn_preSet n v e den S := by
  ext x
  simp only [Set.mem_image, cn_preSet, Set.mem_ofPred_eq]
  constructor
  · rintro ⟨y, hy, rfl⟩
    refine ⟨cn_upd_supp n v y _ hvn (hS y hy), ?_⟩
    have := lzF_inverse_left e v den hden hv1 hev y
    have h2 : cn_upd (lzF v (inverseOf e v den).1 (inverseOf e v den).2 y) v
        (evalRow e (lzF v (inverseOf e v den).1 (inverseOf e v den).2 y) / (den : ℚ)) = y := this
    rw [h2]; exact hy
  · rintro ⟨_, hx⟩
    exact ⟨_, hx, lzF_inverse_right e v den hden hv1 hev x⟩

/-- **the generator-side fact of `affine_preimage`** (`ProofsGridOpsCon13.lean`) -/
theorem genAffineImageInv_spec : cn_GenAffineImageInvSpec := by
  intro n v e den rows _ hvn he hden hv1 hev hw hN
  obtain ⟨hp, hsd, _⟩ := lz_inverseOf_eval e v den hv1 hev 0
  obtain ⟨_, a, b, c⟩ := lz_GSys_affineImage n v (inverseOf e v den).1 (inverseOf e v den).2 rows _ hp hvn
    (by rw [hsd]; exact he) hw hN
  refine ⟨a, lz_gnorm_firstPointDiv b, ?_⟩
  rw [c]
  exact lz_image_inverse n v e den hden hvn hv1 hev _ (fun x hx => lz_gensSet_supp hN hx)

/-- **`affine_preimage(var, expr, denominator)`** (Grid_public.cc:2023) on a grid that is not marked empty, all paths,
    no hypothesis left -/
theorem affinePreimage_full (g : Grid) (v : Nat) (e : LinExpr) (den : Int) (hI : GridInv g) (hne : g.st.empty = false)
    (hden : den ≠ 0) (hed : e.spaceDim ≤ g.spaceDim) (hv : v + 1 ≤ g.spaceDim) :
    (affinePreimage g v e den).thrown = false ∧ GridInv (affinePreimage g v e den).g ∧
      (affinePreimage g v e den).g.sem = cn_preSet g.spaceDim v e den g.sem ∧
      (affinePreimage g v e den).g.spaceDim = g.spaceDim :=
  cn_affinePreimage_partial minimize_spec genAffineImageInv_spec g v e den hI hne hden hed hv

/-- point `1/2`, parameter `3/2` under `x := 2x + 1`: point `2`, parameter `3`, in the raw form the library leaves -/
example : (GSys.affineImage ⟨1, [⟨false, [2, 1, 0]⟩, ⟨false, [0, 3, 2]⟩]⟩ 0 [1, 2] 1).rows =
    [⟨false, [2, 4, 0]⟩, ⟨false, [0, 6, 2]⟩] := by decide

/-- `x := 5` (not invertible): the parameter becomes the zero row and is removed -/
example : (GSys.affineImage ⟨1, [⟨false, [2, 1, 0]⟩, ⟨false, [0, 3, 2]⟩]⟩ 0 [5, 0] 1).rows = [⟨false, [2, 10, 0]⟩] := by
  decide

end PPLV.Lattice.GO
