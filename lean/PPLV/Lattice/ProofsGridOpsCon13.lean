import PPLV.Lattice.ProofsGridOpsCon4
import PPLV.Lattice.ProofsGridOpsCon12

/-!
# `Grid` stage 3, congruence side, part 13: `affine_preimage(var, expr, denominator)` (Grid_public.cc:2023)

* throws / marked empty: hypothesis-free;
* the non-invertible path (`minimize` if the congruences are not up to date, then the congruences only): from `MinimizeSpec`;
* the invertible path: the congruence side is `conAffinePreimagePos`; when the generators are up to date they are
  transformed by `Grid_Generator_System::affine_image` with the inverse map — the one generator-side fact needed is the
  explicit hypothesis `cn_GenAffineImageInvAt` (so `cn_affinePreimage_inv_partial`); without up-to-date generators the
  statement is hypothesis-free (`cn_affinePreimage_inv_con`).
-/
namespace PPLV.Lattice.GO
open PPLV.Lattice PPLV.Lattice.Red

/-- a state without minimized descriptions -/
theorem cn_inv_of_noMin (r : Grid) (hpos : 0 < r.spaceDim) (he : r.st.empty = false) (hcm : r.st.cMin = false)
    (hgm : r.st.gMin = false) (hhi : r.st.hi = 0) (hsome : r.st.cUp = true ∨ r.st.gUp = true)
    (hcwf : r.st.cUp = true → r.conDim = r.spaceDim ∧ CWf r.spaceDim r.con)
    (hgwf : r.st.gUp = true → r.genDim = r.spaceDim ∧ GWf r.spaceDim r.gen ∧ GNorm r.spaceDim (firstPointDiv r.gen) r.gen)
    (hag : r.st.cUp = true → r.st.gUp = true → consSet r.spaceDim r.con = gensSet r.spaceDim r.gen) : GridInv r where
  emp := fun h => by rw [he] at h; cases h
  zdim := fun _ h0 => by omega
  hi0 := fun _ => hhi
  some := fun _ _ => hsome
  cminUp := fun h => by rw [hcm] at h; cases h
  gminUp := fun h => by rw [hgm] at h; cases h
  cwf := fun _ _ h => hcwf h
  gwf := fun _ _ h => hgwf h
  agree := fun _ _ h1 h2 => hag h1 h2
  cmin := fun _ _ h => by rw [hcm] at h; cases h
  cminConv := fun _ _ h => by rw [hcm] at h; cases h
  gmin := fun _ _ h => by rw [hgm] at h; cases h
  gminConv := fun _ _ h => by rw [hgm] at h; cases h

theorem cn_preSet_empty (n v : Nat) (e : LinExpr) (den : Int) : cn_preSet n v e den ∅ = ∅ := by
  ext x; simp [cn_preSet]

theorem cn_preSet_subset_space (n v : Nat) (e : LinExpr) (den : Int) (S : Set Pt) : cn_preSet n v e den S ⊆ spaceSet n :=
  fun _ hx => hx.1

/-! ### throws, marked empty -/

theorem cn_affinePreimage_thrown (g : Grid) (v : Nat) (e : LinExpr) (den : Int) :
    ((affinePreimage g v e den).thrown = true ↔ (den = 0 ∨ g.spaceDim < e.spaceDim ∨ g.spaceDim < v + 1)) ∧
    ((affinePreimage g v e den).thrown = true → (affinePreimage g v e den).g = g) ∧
    (g.st.empty = true → (affinePreimage g v e den).g = g) := by
  unfold affinePreimage
  by_cases hd : den = 0
  · rw [if_pos hd]; exact ⟨⟨fun _ => Or.inl hd, fun _ => rfl⟩, fun _ => rfl, fun _ => rfl⟩
  · rw [if_neg hd]
    by_cases hdim : g.spaceDim < e.spaceDim ∨ g.spaceDim < v + 1
    · rw [if_pos hdim]; exact ⟨⟨fun _ => Or.inr hdim, fun _ => rfl⟩, fun _ => rfl, fun _ => rfl⟩
    · rw [if_neg hdim]
      have hno : ¬ (den = 0 ∨ g.spaceDim < e.spaceDim ∨ g.spaceDim < v + 1) := fun h => h.elim hd hdim
      by_cases hemp : g.st.empty = true
      · rw [if_pos (show g.markedEmpty = true from hemp)]
        exact ⟨⟨(fun h => by cases h), fun h => absurd h hno⟩, fun _ => rfl, fun _ => rfl⟩
      · rw [if_neg (show ¬ (g.markedEmpty = true) from hemp)]
        refine ⟨⟨?_, fun h => absurd h hno⟩, ?_, fun h => absurd h hemp⟩
        · intro h; split at h <;> cases h
        · intro h; split at h <;> cases h

/-! ### the non-invertible path -/

/-- the receiver of the non-invertible path after `minimize` -/
def cn_apBody (g1 : Grid) (v : Nat) (e : LinExpr) (den : Int) : Grid :=
  ((g1.withCs (conAffinePreimagePos g1.cs v e den)).clearGeneratorsUpToDate).clearCongruencesMinimized

theorem cn_apBody_spec (g1 : Grid) (v : Nat) (e : LinExpr) (den : Int) (hI : GridInv g1) (hne : g1.st.empty = false)
    (hc : g1.st.cUp = true) (hden : den ≠ 0) (hed : e.spaceDim ≤ g1.spaceDim) (hv : v + 1 ≤ g1.spaceDim) :
    GridInv (cn_apBody g1 v e den) ∧ (cn_apBody g1 v e den).sem = cn_preSet g1.spaceDim v e den g1.sem ∧
      (cn_apBody g1 v e den).spaceDim = g1.spaceDim := by
  have hpos : 0 < g1.spaceDim := by omega
  obtain ⟨hcd, hw⟩ := hI.cwf hne hpos hc
  have hcsd : g1.cs.dim = g1.spaceDim := hcd
  have hw' : CWf g1.cs.dim g1.cs.rows := by rw [hcsd]; exact hw
  have hdim := cn_conAffinePreimagePos_dim g1.cs v e den
  have hcwf := cn_conAffinePreimagePos_CWf g1.cs v e den hden hw'
  have hcons := cn_conAffinePreimagePos_consSet g1.cs v e den hden (by omega) (by omega) hw'
  rw [hcsd] at hdim hcwf hcons
  have := cn_inv_of_conOnly (cn_apBody g1 v e den) hpos hne hc rfl rfl rfl (hI.hi0 hne) hdim hcwf
  refine ⟨this.1, ?_, rfl⟩
  rw [this.2]
  show consSet g1.spaceDim (conAffinePreimagePos g1.cs v e den).rows = _
  rw [hcons, cn_sem_of_cUp g1 hI hne hpos hc]; rfl

theorem cn_falseCSys_rows (n : Nat) : (falseCSys n).rows = [{ e := resizeRow [1] (n + 1), m := 0 }] := by
  unfold falseCSys
  rw [cn_single_zeroDimFalse]
  unfold CSys.setSpaceDim
  by_cases h : 0 = n
  · subst h; rfl
  · simp only [if_pos (show (0 : Nat) ≠ n from h)]; rfl

/-- the system `1 = 0` is not changed by `affine_preimage` -/
theorem cn_falseCSys_affinePreimage (n v : Nat) (e : LinExpr) (den : Int) :
    (conAffinePreimagePos ⟨n, (falseCSys n).rows⟩ v e den) = ⟨n, (falseCSys n).rows⟩ := by
  have hrow : ∀ (e' : LinExpr) (d' : Int),
      (CRow.mk (resizeRow [1] (n + 1)) 0).affinePreimage v e' d' = CRow.mk (resizeRow [1] (n + 1)) 0 := by
    intro e' d'
    unfold CRow.affinePreimage
    have : Red.get (resizeRow [1] (n + 1)) (v + 1) = 0 := by
      rw [cn_get_resizeRow]; split
      · exact get_of_length_le _ _ (by simp)
      · rfl
    simp only [if_pos this]
  unfold conAffinePreimagePos CSys.affinePreimage
  rw [cn_falseCSys_rows]
  split <;> simp [hrow]

/-- on a marked-empty object the non-invertible path changes nothing -/
theorem cn_apBody_empty (g1 : Grid) (v : Nat) (e : LinExpr) (den : Int) (hI : GridInv g1) (he : g1.st.empty = true) :
    cn_apBody g1 v e den = g1 := by
  obtain ⟨hst, _, _, hcd, hcon⟩ := hI.emp he
  have hcs : g1.cs = ⟨g1.spaceDim, (falseCSys g1.spaceDim).rows⟩ := by
    show CSys.mk g1.conDim g1.con = _; rw [hcd, hcon]
  unfold cn_apBody
  rw [hcs, cn_falseCSys_affinePreimage, ← hcs]
  obtain ⟨sd, st, cd, con, gd, gen, dk⟩ := g1
  simp only at hst
  subst hst
  rfl

/-- Grid_public.cc:2023, the non-invertible path (`expr` does not mention `var`): the preimage; `minimize` may find the
    grid empty, the object is then the marked-empty one `minimize` left -/
theorem cn_affinePreimage_noninv (hMin : MinimizeSpec) (g : Grid) (v : Nat) (e : LinExpr) (den : Int) (hI : GridInv g)
    (hne : g.st.empty = false) (hden : den ≠ 0) (hed : e.spaceDim ≤ g.spaceDim) (hv : v + 1 ≤ g.spaceDim)
    (hninv : ¬ (v + 1 ≤ e.spaceDim ∧ e.coeff v ≠ 0)) :
    (affinePreimage g v e den).thrown = false ∧ GridInv (affinePreimage g v e den).g ∧
      (affinePreimage g v e den).g.sem = cn_preSet g.spaceDim v e den g.sem ∧
      (affinePreimage g v e den).g.spaceDim = g.spaceDim := by
  unfold affinePreimage
  rw [if_neg hden, if_neg (show ¬ (g.spaceDim < e.spaceDim ∨ g.spaceDim < v + 1) by omega),
    if_neg (show ¬ (g.markedEmpty = true) by simpa [Grid.markedEmpty] using hne), if_neg hninv]
  show _ ∧ GridInv (cn_apBody _ v e den) ∧ (cn_apBody _ v e den).sem = _ ∧ (cn_apBody _ v e den).spaceDim = _
  by_cases hc : g.st.cUp = true
  · have : (if (!g.congruencesAreUpToDate) = true then (minimize g).1 else g) = g := by
      simp [Grid.congruencesAreUpToDate, hc]
    rw [this]
    exact ⟨rfl, cn_apBody_spec g v e den hI hne hc hden hed hv⟩
  · have : (if (!g.congruencesAreUpToDate) = true then (minimize g).1 else g) = (minimize g).1 := by
      simp [Grid.congruencesAreUpToDate, hc]
    rw [this]
    obtain ⟨m1, m2, m3, m4, m5, m6⟩ := hMin g hI
    by_cases hb : (minimize g).2 = true
    · obtain ⟨n1, _, n3⟩ := m6 hb (by omega)
      obtain ⟨b1, b2, b3⟩ := cn_apBody_spec (minimize g).1 v e den m1 n1 (m1.cminUp n3) hden (by omega) (by omega)
      exact ⟨rfl, b1, by rw [b2, m2, m3], b3.trans m3⟩
    · have hemp := m5 (by simpa using hb)
      rw [cn_apBody_empty _ v e den m1 hemp]
      refine ⟨rfl, m1, ?_, m3⟩
      have hge : g.sem = ∅ := by
        by_contra hne'
        exact hb (m4.mpr (Set.nonempty_iff_ne_empty.mpr hne'))
      rw [m2, hge, cn_preSet_empty]

/-! ### the invertible path -/

/-- what the invertible path needs of the generator side: `gen_sys.affine_image(var, inverse, inverse_denominator)` keeps
    the shape and yields the preimage.  GENERATOR-SIDE FACT, not proved here. -/
def cn_GenAffineImageInvAt (n v : Nat) (e : LinExpr) (den : Int) (rows : List GRow) : Prop :=
  GWf n (GSys.affineImage ⟨n, rows⟩ v (inverseOf e v den).1 (inverseOf e v den).2).rows ∧
  GNorm n (firstPointDiv (GSys.affineImage ⟨n, rows⟩ v (inverseOf e v den).1 (inverseOf e v den).2).rows)
    (GSys.affineImage ⟨n, rows⟩ v (inverseOf e v den).1 (inverseOf e v den).2).rows ∧
  gensSet n (GSys.affineImage ⟨n, rows⟩ v (inverseOf e v den).1 (inverseOf e v den).2).rows =
    cn_preSet n v e den (gensSet n rows)

/-- … for every well-formed generator system and invertible map -/
def cn_GenAffineImageInvSpec : Prop :=
  ∀ (n v : Nat) (e : LinExpr) (den : Int) (rows : List GRow), 0 < n → v < n → e.spaceDim ≤ n → den ≠ 0 →
    v + 1 ≤ e.spaceDim → e.coeff v ≠ 0 → GWf n rows → GNorm n (firstPointDiv rows) rows →
    cn_GenAffineImageInvAt n v e den rows

theorem cn_GSys_affineImage_dim (s : GSys) (v : Nat) (e : LinExpr) (den : Int) : (s.affineImage v e den).dim = s.dim := by
  unfold GSys.affineImage; simp only; split <;> rfl

/-- the two steps of the invertible path -/
def cn_apInvCon (g : Grid) (v : Nat) (e : LinExpr) (den : Int) : Grid :=
  if g.congruencesAreUpToDate then (g.withCs (conAffinePreimagePos g.cs v e den)).clearCongruencesMinimized else g
def cn_apInvGen (g1 : Grid) (v : Nat) (e : LinExpr) (den : Int) : Grid :=
  if g1.generatorsAreUpToDate then
    (g1.withGs (g1.gs.affineImage v (inverseOf e v den).1 (inverseOf e v den).2)).clearGeneratorsMinimized
  else g1

theorem cn_sem_of_gUp (r : Grid) (he : r.st.empty = false) (hpos : 0 < r.spaceDim) (hg : r.st.gUp = true) :
    r.sem = gensSet r.spaceDim r.gen := by
  unfold Grid.sem
  rw [if_neg (show ¬ (r.st.empty = true) by rw [he]; simp), if_neg (show ¬ (r.spaceDim = 0) by omega), if_pos hg]

/-- the results of the invertible path by what is up to date -/
def cn_apCon (g : Grid) (v : Nat) (e : LinExpr) (den : Int) : Grid :=
  (g.withCs (conAffinePreimagePos g.cs v e den)).clearCongruencesMinimized
def cn_apGen (g : Grid) (v : Nat) (e : LinExpr) (den : Int) : Grid :=
  (g.withGs (g.gs.affineImage v (inverseOf e v den).1 (inverseOf e v den).2)).clearGeneratorsMinimized
def cn_apBoth (g : Grid) (v : Nat) (e : LinExpr) (den : Int) : Grid :=
  ((cn_apCon g v e den).withGs (g.gs.affineImage v (inverseOf e v den).1 (inverseOf e v den).2)).clearGeneratorsMinimized

theorem cn_apInv_eq (g : Grid) (v : Nat) (e : LinExpr) (den : Int) :
    cn_apInvGen (cn_apInvCon g v e den) v e den =
      if g.st.cUp = true then (if g.st.gUp = true then cn_apBoth g v e den else cn_apCon g v e den)
      else (if g.st.gUp = true then cn_apGen g v e den else g) := by
  unfold cn_apInvGen cn_apInvCon Grid.congruencesAreUpToDate
  by_cases hc : g.st.cUp = true <;> by_cases hg : g.st.gUp = true
  · rw [if_pos hc, if_pos hc, if_pos hg]; exact (if_pos hg).trans rfl
  · rw [if_pos hc, if_pos hc, if_neg hg]; exact (if_neg hg).trans rfl
  · rw [if_neg hc, if_neg hc, if_pos hg, if_pos (show g.generatorsAreUpToDate = true from hg)]; rfl
  · rw [if_neg hc, if_neg hc, if_neg hg, if_neg (show ¬ (g.generatorsAreUpToDate = true) from hg)]

/-- Grid_public.cc:2023, the invertible path; `hGen` is only used when the generators are up to date -/
theorem cn_affinePreimage_inv_partial (g : Grid) (v : Nat) (e : LinExpr) (den : Int) (hI : GridInv g)
    (hne : g.st.empty = false) (hden : den ≠ 0) (hed : e.spaceDim ≤ g.spaceDim) (hv : v + 1 ≤ g.spaceDim)
    (hinv : v + 1 ≤ e.spaceDim ∧ e.coeff v ≠ 0)
    (hGen : g.st.gUp = true → cn_GenAffineImageInvAt g.spaceDim v e den g.gen) :
    (affinePreimage g v e den).thrown = false ∧ GridInv (affinePreimage g v e den).g ∧
      (affinePreimage g v e den).g.sem = cn_preSet g.spaceDim v e den g.sem ∧
      (affinePreimage g v e den).g.spaceDim = g.spaceDim := by
  have hunf : affinePreimage g v e den = { g := cn_apInvGen (cn_apInvCon g v e den) v e den } := by
    unfold affinePreimage
    rw [if_neg hden, if_neg (show ¬ (g.spaceDim < e.spaceDim ∨ g.spaceDim < v + 1) by omega),
      if_neg (show ¬ (g.markedEmpty = true) by simpa [Grid.markedEmpty] using hne), if_pos hinv]
    rfl
  rw [hunf, cn_apInv_eq]
  have hpos : 0 < g.spaceDim := by omega
  refine ⟨rfl, ?_⟩
  show GridInv (if g.st.cUp = true then _ else _) ∧ (if g.st.cUp = true then _ else _ : Grid).sem = _ ∧
    (if g.st.cUp = true then _ else _ : Grid).spaceDim = _
  -- the congruence side
  have hC : g.st.cUp = true → (conAffinePreimagePos g.cs v e den).dim = g.spaceDim ∧
      CWf g.spaceDim (conAffinePreimagePos g.cs v e den).rows ∧
      consSet g.spaceDim (conAffinePreimagePos g.cs v e den).rows = cn_preSet g.spaceDim v e den (consSet g.spaceDim g.con) := by
    intro hc
    obtain ⟨hcd, hw⟩ := hI.cwf hne hpos hc
    have hcsd : g.cs.dim = g.spaceDim := hcd
    have hw' : CWf g.cs.dim g.cs.rows := by rw [hcsd]; exact hw
    have h1 := cn_conAffinePreimagePos_dim g.cs v e den
    have h2 := cn_conAffinePreimagePos_CWf g.cs v e den hden hw'
    have h3 := cn_conAffinePreimagePos_consSet g.cs v e den hden (by omega) (by omega) hw'
    rw [hcsd] at h1 h2 h3
    exact ⟨h1, h2, h3⟩
  -- the generator side
  have hG : g.st.gUp = true → (g.gs.affineImage v (inverseOf e v den).1 (inverseOf e v den).2).dim = g.spaceDim ∧
      GWf g.spaceDim (g.gs.affineImage v (inverseOf e v den).1 (inverseOf e v den).2).rows ∧
      GNorm g.spaceDim (firstPointDiv (g.gs.affineImage v (inverseOf e v den).1 (inverseOf e v den).2).rows)
        (g.gs.affineImage v (inverseOf e v den).1 (inverseOf e v den).2).rows ∧
      gensSet g.spaceDim (g.gs.affineImage v (inverseOf e v den).1 (inverseOf e v den).2).rows =
        cn_preSet g.spaceDim v e den (gensSet g.spaceDim g.gen) := by
    intro hg
    obtain ⟨hgd, _, _⟩ := hI.gwf hne hpos hg
    have hgs : (⟨g.spaceDim, g.gen⟩ : GSys) = g.gs := by show _ = GSys.mk g.genDim g.gen; rw [hgd]
    have hh := hGen hg
    unfold cn_GenAffineImageInvAt at hh
    rw [hgs] at hh
    exact ⟨by rw [cn_GSys_affineImage_dim]; exact hgd, hh⟩
  by_cases hc : g.st.cUp = true <;> by_cases hg : g.st.gUp = true
  · -- both up to date
    rw [if_pos hc, if_pos hg]
    obtain ⟨c1, c2, c3⟩ := hC hc
    obtain ⟨g1, g2, g3, g4⟩ := hG hg
    have hag : consSet g.spaceDim (conAffinePreimagePos g.cs v e den).rows =
        gensSet g.spaceDim (g.gs.affineImage v (inverseOf e v den).1 (inverseOf e v den).2).rows := by
      rw [c3, g4, hI.agree hne hpos hc hg]
    refine ⟨cn_inv_of_noMin (cn_apBoth g v e den) hpos hne rfl rfl (hI.hi0 hne) (Or.inl hc) (fun _ => ⟨c1, c2⟩)
      (fun _ => ⟨g1, g2, g3⟩) (fun _ _ => hag), ?_, rfl⟩
    rw [cn_sem_of_gUp (cn_apBoth g v e den) hne hpos hg, cn_sem_of_gUp g hne hpos hg]
    exact g4
  · -- congruences only
    rw [if_pos hc, if_neg hg]
    obtain ⟨c1, c2, c3⟩ := hC hc
    have hgf : g.st.gUp = false := by simpa using hg
    have hgm : g.st.gMin = false := by
      by_contra h; exact hg (hI.gminUp (by simpa using h))
    have := cn_inv_of_conOnly (cn_apCon g v e den) hpos hne hc hgf rfl hgm (hI.hi0 hne) c1 c2
    refine ⟨this.1, ?_, rfl⟩
    rw [this.2, cn_sem_of_cUp g hI hne hpos hc]
    exact c3
  · -- generators only
    rw [if_neg hc, if_pos hg]
    obtain ⟨g1, g2, g3, g4⟩ := hG hg
    have hcm : g.st.cMin = false := by
      by_contra h; exact hc (hI.cminUp (by simpa using h))
    refine ⟨cn_inv_of_noMin (cn_apGen g v e den) hpos hne hcm rfl (hI.hi0 hne) (Or.inr hg) (fun h => absurd h hc)
      (fun _ => ⟨g1, g2, g3⟩) (fun h => absurd h hc), ?_, rfl⟩
    rw [cn_sem_of_gUp (cn_apGen g v e den) hne hpos hg, cn_sem_of_gUp g hne hpos hg]
    exact g4
  · exact absurd (hI.some hne hpos) (by simp [hc, hg])

/-- Grid_public.cc:2023, the invertible path when only the congruences are up to date: hypothesis-free -/
theorem cn_affinePreimage_inv_con (g : Grid) (v : Nat) (e : LinExpr) (den : Int) (hI : GridInv g)
    (hne : g.st.empty = false) (hden : den ≠ 0) (hed : e.spaceDim ≤ g.spaceDim) (hv : v + 1 ≤ g.spaceDim)
    (hinv : v + 1 ≤ e.spaceDim ∧ e.coeff v ≠ 0) (hg : g.st.gUp = false) :
    (affinePreimage g v e den).thrown = false ∧ GridInv (affinePreimage g v e den).g ∧
      (affinePreimage g v e den).g.sem = cn_preSet g.spaceDim v e den g.sem ∧
      (affinePreimage g v e den).g.spaceDim = g.spaceDim :=
  cn_affinePreimage_inv_partial g v e den hI hne hden hed hv hinv (fun h => by rw [hg] at h; cases h)

/-- `affine_preimage` on a grid that is not marked empty, all paths; generator-side fact: `cn_GenAffineImageInvSpec` -/
theorem cn_affinePreimage_partial (hMin : MinimizeSpec) (hGen : cn_GenAffineImageInvSpec) (g : Grid) (v : Nat)
    (e : LinExpr) (den : Int) (hI : GridInv g) (hne : g.st.empty = false) (hden : den ≠ 0)
    (hed : e.spaceDim ≤ g.spaceDim) (hv : v + 1 ≤ g.spaceDim) :
    (affinePreimage g v e den).thrown = false ∧ GridInv (affinePreimage g v e den).g ∧
      (affinePreimage g v e den).g.sem = cn_preSet g.spaceDim v e den g.sem ∧
      (affinePreimage g v e den).g.spaceDim = g.spaceDim := by
  by_cases hinv : v + 1 ≤ e.spaceDim ∧ e.coeff v ≠ 0
  · refine cn_affinePreimage_inv_partial g v e den hI hne hden hed hv hinv (fun hg => ?_)
    have hpos : 0 < g.spaceDim := by omega
    obtain ⟨_, hgw, hgn⟩ := hI.gwf hne hpos hg
    exact hGen g.spaceDim v e den g.gen hpos (by omega) hed hden hinv.1 hinv.2 hgw hgn
  · exact cn_affinePreimage_noninv hMin g v e den hI hne hden hed hv hinv

/-- `x ≡ 0 (mod 2)` in dimension 1 under `x := 3x + 1` (invertible) and `x := 1` (not invertible; `cUp` holds) -/
example : (affinePreimage cn_exGrid 0 [1, 3] 1).g.con = [{ e := [1, 3], m := 2 }] ∧
    (affinePreimage cn_exGrid 0 [1, 0] 1).g.con = [{ e := [1, 0], m := 2 }] ∧
    (affinePreimage cn_exGrid 0 [1, 3] 0).thrown = true := by decide

end PPLV.Lattice.GO
