import PPLV.Lattice.ProofsConvGCRowOps

/-!
# `Grid::conversion` (generators → congruences): the loop invariant on the matrix of products

`Qd d c p = (p < d ? c[p] : 0) + Σ_{d ≤ k < dims} c[k]·source[nv p][k]`: the product of the dest row `c` with the
source row of dimension `p`, where the columns `< d` (not yet treated) of the source are still the identity.
After the dimensions `≥ d` have been treated, `Qd d (dest row of q) p = λ·[p = q]` for every treated row
(`q ≥ d`), the rows `q < d` are still multiples of unit vectors.  At `d = 0`, `Qd` is the full product.
-/
namespace PPLV.Lattice.Red

theorem pos_lt_iff' (dk : List Nat) (dims q d : Nat) (hq : q < dims) (hd : d ≤ dims) (h : nlB dk q = true) :
    pos dk dims q < nl dk dims - nl dk d ↔ d ≤ q := by
  have a1 := cntBelow_mono (nlB dk) (show q + 1 ≤ dims from hq)
  have a2 := cntBelow_mono (nlB dk) hd
  have b1 := cntBelow_succ_pos (nlB dk) q h
  constructor
  · intro hlt
    by_contra hc
    have := cntBelow_mono (nlB dk) (show q + 1 ≤ d by omega)
    simp only [pos, nl] at *; omega
  · intro hlt
    have := cntBelow_mono (nlB dk) hlt
    simp only [pos, nl] at *; omega

def Qd (source : List GRow) (dk : List Nat) (dims d : Nat) (c : Row) (p : Nat) : Int :=
  (if p < d then get c p else 0) +
    (dotUpto c (rowAt source (nv dk p)).e dims - dotUpto c (rowAt source (nv dk p)).e d)

section
variable (source : List GRow) (dk : List Nat) (dims : Nat)

/-- the column operations of one `dim = e` on one row -/
theorem colop_Q (hs : SrcOK dims source dk) (e : Nat) (he : e < dims) (c1 c2 : Row)
    (hcol : ∀ k, get c2 k = if k < e ∧ nvB dk k = true then get c1 k - sEnt source (nv dk k) e * get c1 e else get c1 k)
    (p : Nat) (hp : p < dims) (hpv : nvB dk p = true) :
    Qd source dk dims e c2 p = if p = e then Qd source dk dims e c1 e else Qd source dk dims (e + 1) c1 p := by
  have h1 := dotUpto_congr_from c1 c2 (rowAt source (nv dk p)).e e dims
    (fun k hk _ => by rw [hcol k, if_neg (by omega)]) (by omega)
  have h2 := dotUpto_succ c1 (rowAt source (nv dk p)).e e
  unfold Qd
  rcases Nat.lt_trichotomy p e with hlt | heq | hgt
  · rw [if_pos hlt, if_neg (by omega : ¬ p = e), if_pos (by omega : p < e + 1), hcol p, if_pos ⟨hlt, hpv⟩]
    simp only [sEnt]
    linear_combination h1 + h2
  · subst heq
    rw [if_neg (Nat.lt_irrefl _), if_pos rfl, if_neg (Nat.lt_irrefl _)]
    linear_combination h1
  · have hz : get (rowAt source (nv dk p)).e e = 0 := hs.zeros p hp hpv e hgt
    rw [if_neg (by omega), if_neg (by omega : ¬ p = e), if_neg (by omega : ¬ p < e + 1)]
    linear_combination h1 + h2 + get c1 e * hz

/-- scaling by `f` and dividing column `e` by the diagonal entry of the source row of `e` -/
theorem div_Q (e : Nat) (he : e < dims) (c0 c1 : Row) (f : Int) (hsc : ∀ k, k ≠ e → get c1 k = get c0 k * f) (p : Nat) :
    (p ≠ e → Qd source dk dims (e + 1) c1 p = Qd source dk dims (e + 1) c0 p * f) ∧
    (p = e → get c1 e * sEnt source (nv dk e) e = get c0 e * f →
      Qd source dk dims e c1 e = Qd source dk dims (e + 1) c0 e * f) := by
  have h := dotUpto_scale_from c0 c1 (rowAt source (nv dk p)).e f (e + 1) dims
    (fun k hk _ => hsc k (by omega)) (by omega)
  constructor
  · intro hpe
    unfold Qd
    by_cases hlt : p < e + 1
    · rw [if_pos hlt, if_pos hlt, hsc p hpe]
      linear_combination h
    · rw [if_neg hlt, if_neg hlt]
      linear_combination h
  · intro hpe hdiv
    subst hpe
    have h2 := dotUpto_succ c1 (rowAt source (nv dk p)).e p
    unfold Qd
    rw [if_neg (Nat.lt_irrefl _), if_pos (by omega : p < p + 1)]
    simp only [sEnt] at hdiv
    linear_combination h + h2 + hdiv

/-- a row of a dimension above `e` -/
theorem rowstep_old (hs : SrcOK dims source dk) (e : Nat) (he : e < dims) (c0 c1 c2 : Row) (f : Int)
    (hsc : ∀ k, k ≠ e → get c1 k = get c0 k * f)
    (hdiv : nvB dk e = true → get c1 e * sEnt source (nv dk e) e = get c0 e * f)
    (hcol : ∀ k, get c2 k = if k < e ∧ nvB dk k = true then get c1 k - sEnt source (nv dk k) e * get c1 e else get c1 k)
    (p : Nat) (hp : p < dims) (hpv : nvB dk p = true) :
    Qd source dk dims e c2 p = Qd source dk dims (e + 1) c0 p * f := by
  rw [colop_Q source dk dims hs e he c1 c2 hcol p hp hpv]
  obtain ⟨d1, d2⟩ := div_Q source dk dims e he c0 c1 f hsc p
  by_cases hpe : p = e
  · rw [if_pos hpe]
    have := d2 hpe (hdiv (hpe ▸ hpv))
    rw [this, hpe]
  · rw [if_neg hpe]; exact d1 hpe

/-- the row of the dimension `e` itself -/
theorem rowstep_new (hs : SrcOK dims source dk) (e : Nat) (he : e < dims) (c1 c2 : Row)
    (hz : ∀ k, k ≠ e → get c1 k = 0)
    (hcol : ∀ k, get c2 k = if k < e ∧ nvB dk k = true then get c1 k - sEnt source (nv dk k) e * get c1 e else get c1 k)
    (p : Nat) (hp : p < dims) (hpv : nvB dk p = true) :
    Qd source dk dims e c2 p = if p = e then get c1 e * sEnt source (nv dk e) e else 0 := by
  rw [colop_Q source dk dims hs e he c1 c2 hcol p hp hpv]
  have h0 := dotUpto_zero_from c1 (rowAt source (nv dk p)).e (e + 1) dims (fun k hk _ => hz k (by omega)) (by omega)
  by_cases hpe : p = e
  · subst hpe
    rw [if_pos rfl, if_pos rfl]
    unfold Qd
    rw [if_neg (Nat.lt_irrefl _)]
    have h2 := dotUpto_succ c1 (rowAt source (nv dk p)).e p
    simp only [sEnt]
    linear_combination h0 + h2
  · rw [if_neg hpe, if_neg hpe]
    unfold Qd
    by_cases hlt : p < e + 1
    · rw [if_pos hlt, hz p hpe]; linear_combination h0
    · rw [if_neg hlt]; linear_combination h0

/-! ### the invariant -/

structure RowInv (d : Nat) (L : Int) (q : Nat) (c : CRow) : Prop where
  len : c.e.length = dims
  mv : nvB dk q = false → c.m = 0
  mp : nvB dk q = true → 0 < c.m
  tri : ∀ k, q < k → get c.e k = 0
  diag : 0 < get c.e q
  ex : ∃ lam : Int, 0 < lam ∧ (nvB dk q = true → lam = L) ∧
    (d ≤ q → ∀ p, p < dims → nvB dk p = true → Qd source dk dims d c.e p = if p = q then lam else 0) ∧
    (q < d → (∀ k, k ≠ q → get c.e k = 0) ∧ (nvB dk q = true → get c.e q * sEnt source (nv dk q) q = lam) ∧
      (nvB dk q = false → get c.e q = lam))

/-- the rows after the scaling/division phase of `dim = e` (`K` rows treated, `a` the divisor) -/
structure PhaseA (e K : Nat) (a : Int) (T T1 : List CRow) : Prop where
  len : T1.length = T.length
  ex : ∃ f : Int, 0 < f ∧ ∀ i, i < T.length → ∃ fi : Int, 0 < fi ∧ (0 < (rowAt T i).m → fi = f) ∧
    (rowAt T1 i).m = (rowAt T i).m * fi ∧ (rowAt T1 i).e.length = (rowAt T i).e.length ∧
    (∀ k, k ≠ e → ent T1 i k = ent T i k * fi) ∧
    (i < K → nvB dk e = true → ent T1 i e * a = ent T i e * fi) ∧
    (¬(i < K ∧ nvB dk e = true) → ent T1 i e = ent T i e * fi)

theorem step_rows (hs : SrcOK dims source dk) (e : Nat) (he : e < dims) (T T1 T2 : List CRow) (K K' : Nat)
    (hK : K = nl dk dims - nl dk (e + 1)) (hK' : K' = nl dk dims - nl dk e) (hlen : T.length = nl dk dims)
    (L : Int) (hL : 0 < L)
    (hrows : ∀ q, q < dims → nlB dk q = true → RowInv source dk dims (e + 1) L q (rowAt T (pos dk dims q)))
    (hA : PhaseA dk e K (sEnt source (nv dk e) e) T T1) (hC : ColSpec source dk e K' T1 T2) :
    ∃ L' : Int, 0 < L' ∧ ∀ q, q < dims → nlB dk q = true → RowInv source dk dims e L' q (rowAt T2 (pos dk dims q)) := by
  obtain ⟨hl1, f, hf, hrowA⟩ := hA
  refine ⟨L * f, Int.mul_pos hL hf, fun q hq hql => ?_⟩
  have hi : pos dk dims q < T.length := by rw [hlen]; exact pos_lt dk dims q hq hql
  obtain ⟨fi, hfi, a1, a2, a3, a4, a5, a6⟩ := hrowA _ hi
  have R := hrows q hq hql
  have iK : pos dk dims q < K ↔ e + 1 ≤ q := by rw [hK]; exact pos_lt_iff' dk dims q (e + 1) hq he hql
  have iK' : pos dk dims q < K' ↔ e ≤ q := by rw [hK']; exact pos_lt_iff' dk dims q e hq (by omega) hql
  have hi1 : pos dk dims q < T1.length := by rw [hl1]; exact hi
  have hcol := hC.ent _ hi1
  simp only [ent] at hcol a4 a5 a6
  -- entries of the intermediate row
  have hsc : ∀ k, (k ≠ e ∨ q ≤ e) → get (rowAt T1 (pos dk dims q)).e k = get (rowAt T (pos dk dims q)).e k * fi := by
    intro k hk
    by_cases hke : k = e
    · subst hke
      apply a6
      intro hc
      have := iK.mp hc.1
      omega
    · exact a4 k hke
  refine ⟨?_, ?_, ?_, ?_, ?_, ?_⟩
  · rw [hC.elen _ hi1, a3]; exact R.len
  · intro hv; rw [hC.m _ hi1, a2, R.mv hv]; ring
  · intro hv; rw [hC.m _ hi1, a2]; exact Int.mul_pos (R.mp hv) hfi
  · intro k hk
    rw [hcol k]
    by_cases hc : pos dk dims q < K' ∧ k < e ∧ nvB dk k = true
    · have := iK'.mp hc.1; omega
    · rw [if_neg hc, hsc k (by omega), R.tri k hk]; ring
  · rw [hcol q, if_neg (fun hc => by have := iK'.mp hc.1; omega), hsc q (by omega)]
    exact Int.mul_pos R.diag hfi
  · obtain ⟨lam, hlam, hlL, hQ, hB⟩ := R.ex
    refine ⟨lam * fi, Int.mul_pos hlam hfi, fun hv => ?_, fun heq => ?_, fun hqe => ?_⟩
    · rw [hlL hv, a1 (R.mp hv)]
    · -- treated rows
      have hcol' : ∀ k, get (rowAt T2 (pos dk dims q)).e k =
          if k < e ∧ nvB dk k = true then
            get (rowAt T1 (pos dk dims q)).e k - sEnt source (nv dk k) e * get (rowAt T1 (pos dk dims q)).e e
          else get (rowAt T1 (pos dk dims q)).e k := by
        intro k
        rw [hcol k]
        by_cases hc : k < e ∧ nvB dk k = true
        · rw [if_pos ⟨iK'.mpr heq, hc⟩, if_pos hc]
        · rw [if_neg (fun h => hc h.2), if_neg hc]
      intro p hp hpv
      rcases Nat.lt_or_ge e q with hlt | hge
      · rw [rowstep_old source dk dims hs e he _ _ _ fi (fun k hk => hsc k (Or.inl hk))
          (fun hv => a5 (iK.mpr hlt) hv) hcol' p hp hpv, hQ (by omega) p hp hpv]
        split <;> ring
      · have hqe : q = e := by omega
        subst hqe
        obtain ⟨b1, b2, b3⟩ := hB (by omega)
        rw [rowstep_new source dk dims hs q he _ _ (fun k hk => by rw [hsc k (Or.inl hk), b1 k hk]; ring) hcol' p hp hpv]
        by_cases hpq : p = q
        · subst hpq
          rw [if_pos rfl, if_pos rfl, hsc p (Or.inr (Nat.le_refl _)), ← b2 hpv]; ring
        · rw [if_neg hpq, if_neg hpq]
    · obtain ⟨b1, b2, b3⟩ := hB (by omega)
      have hnot : ¬ pos dk dims q < K' := fun h => by have := iK'.mp h; omega
      have hent : ∀ k, get (rowAt T2 (pos dk dims q)).e k = get (rowAt T (pos dk dims q)).e k * fi := by
        intro k
        rw [hcol k, if_neg (fun h => hnot h.1), hsc k (Or.inr (by omega))]
      refine ⟨fun k hk => by rw [hent k, b1 k hk]; ring, fun hv => ?_, fun hv => ?_⟩
      · rw [hent q, ← b2 hv]; ring
      · rw [hent q, b3 hv]

end

end PPLV.Lattice.Red
