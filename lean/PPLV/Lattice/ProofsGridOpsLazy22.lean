import PPLV.Lattice.ProofsGridOpsLazy21

/-!
# Adding dimensions — part 22: `add_space_dimensions_and_project` (Grid_chdims.cc:148) with up-to-date generators
-/
namespace PPLV.Lattice.GO
open PPLV.Lattice PPLV.Lattice.Red

theorem lz_gs_projRows (g : Grid) (m : Nat) (_hgd : g.genDim = g.spaceDim) :
    normalizeDivisors1 (g.gs.setSpaceDim (g.spaceDim + m)) =
      normalizeDivisors1 ⟨g.spaceDim + m, g.gen.map (·.setSpaceDim (g.spaceDim + m))⟩ := rfl

/-- **project, both descriptions up to date**.  What is left is the congruence-side fact that is open in
    `ProofsGridOpsCon15/17`: with minimized congruences the system with the new unit equalities in front is lower
    triangular for the resized `dim_kinds` (`hTriC`). -/
theorem project_both_partial (g : Grid) (m : Nat) (hI : GridInv g) (hm : 0 < m) (he : g.st.empty = false)
    (hpos : 0 < g.spaceDim) (hc : g.st.cUp = true) (hg : g.st.gUp = true)
    (hTriC : g.st.cMin = true → lowerTriangular (g.spaceDim + m) (g.cs.addUnitRowsAndSpaceDimensions m).rows
        (resizeKindsWith g.dk (g.spaceDim + m + 1) EQUALITY) = true) :
    GridInv (addSpaceDimensionsAndProject g m) ∧ (addSpaceDimensionsAndProject g m).sem = g.sem ∧
      (addSpaceDimensionsAndProject g m).spaceDim = g.spaceDim + m := by
  obtain ⟨hgd, hgw, hgn⟩ := hI.gwf he hpos hg
  obtain ⟨_, a, b, c⟩ := lz_project_gen m hpos hgw hgn
  refine cn_project_both_partial g m hI hm he hpos hc hg ?_ hTriC (fun hgm => ?_)
  · rw [lz_gs_projRows g m hgd]
    exact ⟨a, b, c⟩
  · obtain ⟨hlen, htri, _⟩ := hI.gmin he hpos hgm
    rw [lz_gs_projRows g m hgd]
    exact lz_upperTriangular_project m g.dk hpos hm hgw hgn hlen htri

/-- project, both up to date, congruences not minimized: no hypothesis -/
theorem project_both_full (g : Grid) (m : Nat) (hI : GridInv g) (hm : 0 < m) (he : g.st.empty = false)
    (hpos : 0 < g.spaceDim) (hc : g.st.cUp = true) (hg : g.st.gUp = true) (hcm : g.st.cMin = false) :
    GridInv (addSpaceDimensionsAndProject g m) ∧ (addSpaceDimensionsAndProject g m).sem = g.sem ∧
      (addSpaceDimensionsAndProject g m).spaceDim = g.spaceDim + m :=
  project_both_partial g m hI hm he hpos hc hg (fun h => by rw [hcm] at h; cases h)

/-- the result of project when only the generators are up to date -/
def lz_projectGen (g : Grid) (m : Nat) : Grid :=
  { ({ g.withGs (normalizeDivisors1 (g.gs.setSpaceDim (g.spaceDim + m))) with
        dk := if g.generatorsAreMinimized then
            resizeKindsWith g.dk ((normalizeDivisors1 (g.gs.setSpaceDim (g.spaceDim + m))).dim + 1) EQUALITY else g.dk } : Grid)
    with spaceDim := g.spaceDim + m }

theorem lz_project_eq_gen (g : Grid) (m : Nat) (hm : 0 < m) (he : g.st.empty = false) (hpos : 0 < g.spaceDim)
    (hc : g.st.cUp = false) : addSpaceDimensionsAndProject g m = lz_projectGen g m := by
  unfold addSpaceDimensionsAndProject
  rw [if_neg (by omega), if_neg (show ¬ (g.markedEmpty = true) by simpa [Grid.markedEmpty] using he),
    if_neg (by omega)]
  dsimp only
  rw [if_neg (show ¬ (g.congruencesAreUpToDate = true) by simpa [Grid.congruencesAreUpToDate] using hc)]
  rfl

/-- **project, generators only** (minimized or not) -/
theorem project_gen_full (g : Grid) (m : Nat) (hI : GridInv g) (hm : 0 < m) (he : g.st.empty = false)
    (hpos : 0 < g.spaceDim) (hc : g.st.cUp = false) :
    GridInv (addSpaceDimensionsAndProject g m) ∧ (addSpaceDimensionsAndProject g m).sem = g.sem ∧
      (addSpaceDimensionsAndProject g m).spaceDim = g.spaceDim + m := by
  have hg := lz_gUp_of_not_cUp hI he hpos hc
  rw [lz_project_eq_gen g m hm he hpos hc]
  obtain ⟨hgd, hgw, hgn⟩ := hI.gwf he hpos hg
  obtain ⟨d0, a, b, c⟩ := lz_project_gen m hpos hgw hgn
  have hcm : g.st.cMin = false := by
    cases h : g.st.cMin
    · rfl
    · have := hI.cminUp h; rw [hc] at this; cases this
  have hgen : (lz_projectGen g m).gen = lz_projRows g.spaceDim m g.gen := rfl
  have hgdim : (lz_projectGen g m).genDim = g.spaceDim + m := by
    show (normalizeDivisors1 (g.gs.setSpaceDim (g.spaceDim + m))).dim = _
    rw [lz_gs_projRows g m hgd]; exact d0
  have hdk : g.st.gMin = true → (lz_projectGen g m).dk = resizeKindsWith g.dk (g.spaceDim + m + 1) GEN_VIRTUAL := by
    intro hgm
    show (if g.generatorsAreMinimized = true then _ else _) = _
    rw [if_pos (show g.generatorsAreMinimized = true from hgm)]
    rfl
  have hpos' : 0 < (lz_projectGen g m).spaceDim := by show 0 < g.spaceDim + m; omega
  have hI' : GridInv (lz_projectGen g m) := by
    refine lz_inv_of_pos _ he hpos' (hI.hi0 he) (Or.inr hg)
      (fun h => by rw [show (lz_projectGen g m).st.cMin = g.st.cMin from rfl, hcm] at h; cases h)
      (fun _ => hg) (fun h => by rw [show (lz_projectGen g m).st.cUp = g.st.cUp from rfl, hc] at h; cases h)
      (fun _ => ?_) (fun h => by rw [show (lz_projectGen g m).st.cUp = g.st.cUp from rfl, hc] at h; cases h)
      (fun h => by rw [show (lz_projectGen g m).st.cMin = g.st.cMin from rfl, hcm] at h; cases h)
      (fun h => by rw [show (lz_projectGen g m).st.cMin = g.st.cMin from rfl, hcm] at h; cases h)
      (fun hgm => ?_) (fun hgm _ => ?_)
    · show _ = g.spaceDim + m ∧ GWf (g.spaceDim + m) _ ∧ GNorm (g.spaceDim + m) _ _
      rw [hgdim, hgen]
      exact ⟨rfl, a, b⟩
    · have hgm' : g.st.gMin = true := hgm
      obtain ⟨hlen, htri, hk0⟩ := hI.gmin he hpos hgm'
      show _ = g.spaceDim + m + 1 ∧ upperTriangular (g.spaceDim + m) _ _ = true ∧ _
      rw [hdk hgm', hgen]
      refine ⟨cn_resizeKindsWith_length _ _ _, lz_upperTriangular_project m g.dk hpos hm hgw hgn hlen htri, ?_⟩
      rw [lz_kind_old g.spaceDim m g.dk hlen GEN_VIRTUAL 0 (by omega)]; exact hk0
    · have hgm' : g.st.gMin = true := hgm
      obtain ⟨hlen, _, _⟩ := hI.gmin he hpos hgm'
      show ConvG (g.spaceDim + m) _ _
      rw [hdk hgm', hgen]
      exact lz_convG_project m g.dk hpos hm hgw hgn hlen (hI.gminConv he hpos hgm' hc)
  refine ⟨hI', ?_, rfl⟩
  rw [lz_sem_of_gUp (g := lz_projectGen g m) he hpos' hg, lz_sem_of_gUp he hpos hg]
  show gensSet (g.spaceDim + m) (lz_projectGen g m).gen = _
  rw [hgen]; exact c

/-- point `1/2`, parameter `3/2` (minimized generators only) projected into dimension 2 -/
example :
    let g : Grid := Grid.mk 1 { gUp := true, gMin := true } 1 [] 1 [⟨false, [2, 1, 0]⟩, ⟨false, [0, 3, 2]⟩] [0, 0]
    invB g = true ∧ (addSpaceDimensionsAndProject g 1).gen = [⟨false, [2, 1, 0, 0]⟩, ⟨false, [0, 3, 0, 2]⟩] ∧
      (addSpaceDimensionsAndProject g 1).dk = [0, 0, 2] ∧ invB (addSpaceDimensionsAndProject g 1) = true := by decide +kernel

end PPLV.Lattice.GO
