import PPLV.Lattice.ProofsRedGenStep

/-!
# `reduce_parameter_with_line`: both branches keep the lattice up to the positive scale `reduced_pivot_col`
-/
namespace PPLV.Lattice.Red
open PPLV.Lattice

/-- what the scaling loop of `reduce_parameter_with_line` does to one row -/
def scaleRow (k : Int) (m : Nat) (gen : GRow) : GRow :=
  if gen.isParameterOrPoint then { gen with e := mulAssign gen.e k 0 m } else gen

theorem scaleRow_line (k : Int) (m : Nat) (gen : GRow) : (scaleRow k m gen).line = gen.line := by
  unfold scaleRow; split <;> rfl

theorem scaleRow_len (k : Int) (m : Nat) (gen : GRow) : (scaleRow k m gen).e.length = gen.e.length := by
  unfold scaleRow; split <;> simp

theorem scaleRow_get (k : Int) (m : Nat) (gen : GRow) (c : Nat) :
    get (scaleRow k m gen).e c = if gen.line = false ∧ c < m then get gen.e c * k else get gen.e c := by
  unfold scaleRow GRow.isParameterOrPoint
  cases h : gen.line <;> simp [get_mulAssign]

/-- `reduced_pivot_col` after the sign normalisation -/
def plK (pc rc : Int) : Int := if pc / gcdI pc rc < 0 then -(pc / gcdI pc rc) else pc / gcdI pc rc
/-- `reduced_row_col` after the sign normalisation -/
def plC (pc rc : Int) : Int := if pc / gcdI pc rc < 0 then -(rc / gcdI pc rc) else rc / gcdI pc rc

theorem plK_pos (pc rc : Int) (hpc : pc ≠ 0) : 0 < plK pc rc := by
  obtain ⟨P, R, hP, hR, hP0, -, -, -, -⟩ := red_cols pc rc hpc
  unfold plK; rw [hP]; split <;> omega

theorem plK_plC (pc rc : Int) (hpc : pc ≠ 0) : rc * plK pc rc + (-(plC pc rc)) * pc = 0 := by
  obtain ⟨P, R, hP, hR, hP0, hPR, -, -, -⟩ := red_cols pc rc hpc
  unfold plK plC; rw [hP, hR]; split <;> linarith

theorem rPL_eq (rows : List GRow) (ri p dim n : Nat) :
    reduceParameterWithLine rows ri p dim (n + 1 + 1) =
      if get (rowAt rows ri).e dim = get (rowAt rows p).e dim then
        rows.set ri { rowAt rows ri with e := linearCombine (rowAt rows ri).e (rowAt rows p).e 1 (-1) 0 (n + 1) }
      else
        (rows.map (scaleRow (plK (get (rowAt rows p).e dim) (get (rowAt rows ri).e dim)) (n + 1))).set ri
          { rowAt (rows.map (scaleRow (plK (get (rowAt rows p).e dim) (get (rowAt rows ri).e dim)) (n + 1))) ri with
            e := linearCombine
              (rowAt (rows.map (scaleRow (plK (get (rowAt rows p).e dim) (get (rowAt rows ri).e dim)) (n + 1))) ri).e
              (rowAt rows p).e 1 (-(plC (get (rowAt rows p).e dim) (get (rowAt rows ri).e dim))) dim (n + 1) } := rfl

/-- the general branch, for any positive multiplier `k` and any `cc` that cancel column `dim` -/
theorem step_PL_gen {n p dim ri : Nat} {rows : List GRow} (k cc : Int) (hk : 0 < k)
    (hri : ri < rows.length) (hp : p < rows.length) (hne : ri ≠ p) (hpr : p ≤ ri)
    (hwf : WfI n rows) (hz : ZeroPre p dim rows) (hdim : dim ≤ n)
    (hpc : get (rowAt rows p).e dim ≠ 0) (hl1 : (rowAt rows ri).line = false) (hl2 : (rowAt rows p).line = true)
    (hkc : get (rowAt rows ri).e dim * k + (-cc) * get (rowAt rows p).e dim = 0) :
    IStep n p dim ri rows ((rows.map (scaleRow k (n + 1))).set ri
      { rowAt (rows.map (scaleRow k (n + 1))) ri with
        e := linearCombine (rowAt (rows.map (scaleRow k (n + 1))) ri).e (rowAt rows p).e 1 (-cc) dim (n + 1) }) ∧
    (rowAt ((rows.map (scaleRow k (n + 1))).set ri
      { rowAt (rows.map (scaleRow k (n + 1))) ri with
        e := linearCombine (rowAt (rows.map (scaleRow k (n + 1))) ri).e (rowAt rows p).e 1 (-cc) dim (n + 1) }) p).line
      = true := by
  have hzr := hz ri hpr hri
  have hzp := hz p (Nat.le_refl _) hp
  have h1 : rowAt (rows.map (scaleRow k (n + 1))) ri = scaleRow k (n + 1) (rowAt rows ri) := rowAt_mapG _ _ _ hri
  rw [h1]
  generalize hR' : ({ scaleRow k (n + 1) (rowAt rows ri) with
      e := linearCombine (scaleRow k (n + 1) (rowAt rows ri)).e (rowAt rows p).e 1 (-cc) dim (n + 1) } : GRow) = R'
  have hR'l : R'.line = (rowAt rows ri).line := by rw [← hR']; exact scaleRow_line _ _ _
  have hR'e : R'.e = linearCombine (scaleRow k (n + 1) (rowAt rows ri)).e (rowAt rows p).e 1 (-cc) dim (n + 1) := by
    rw [← hR']
  have hslen : (scaleRow k (n + 1) (rowAt rows ri)).e.length = n + 2 := by rw [scaleRow_len]; exact hwf ri hri
  have hR'ent : ∀ c, c ≤ n → get R'.e c = get (rowAt rows ri).e c * k + (-cc) * get (rowAt rows p).e c := by
    intro c hc
    rw [hR'e, get_lc_one (-cc) hslen hzp c hc, scaleRow_get, if_pos ⟨hl1, by omega⟩]
  have hrow : ∀ i, i < rows.length → rowAt ((rows.map (scaleRow k (n + 1))).set ri R') i
      = if i = ri then R' else scaleRow k (n + 1) (rowAt rows i) := by
    intro i hi
    rw [rowAt_set]
    by_cases h : i = ri
    · rw [if_pos ⟨h, by simpa using hri⟩, if_pos h]
    · rw [if_neg (fun h' => h h'.1), if_neg h, rowAt_mapG _ _ _ hi]
  have hlen : ((rows.map (scaleRow k (n + 1))).set ri R').length = rows.length := by simp
  have hsk : k.sign = 1 := Int.sign_eq_one_of_pos hk
  refine ⟨⟨hlen, ?_, ?_, ?_, ⟨k, hk, ?_⟩, ?_, ?_⟩, ?_⟩
  · intro i hi
    rw [hlen] at hi
    rw [hrow i hi]; split
    · rw [hR'e, length_linearCombine]; exact hslen
    · rw [scaleRow_len]; exact hwf i hi
  · intro i hpi hi c hc
    rw [hlen] at hi
    rw [hrow i hi]; split
    · rw [hR'ent c (by omega), hzr c hc, hzp c hc]; simp
    · rw [scaleRow_get]; split
      · rw [hz i hpi hi c hc]; simp
      · exact hz i hpi hi c hc
  · intro i hi h1' _
    rw [hrow i hi, if_neg h1']
    refine ⟨scaleRow_line _ _ _, fun c => ?_⟩
    rw [scaleRow_get]; split
    · rw [Int.sign_mul, hsk, mul_one]
    · rfl
  · refine hom_iff_scale ri p k hk (-cc) hlen hri hp hl2 hl1 ?_ ?_ ?_ ?_
    · intro i hi
      rw [hrow i hi]; split
      · rename_i h; rw [h]; exact hR'l
      · exact scaleRow_line _ _ _
    · intro i hi hl
      have hne' : i ≠ ri := fun h => by rw [h, hl1] at hl; cases hl
      rw [hrow i hi, if_neg hne']
      refine hv_congr fun c _ => ?_
      rw [scaleRow_get, if_neg (fun h => by rw [hl] at h; cases h.1)]
    · intro i hi hne' hl
      rw [hrow i hi, if_neg hne']
      refine hv_smul k fun c hc => ?_
      rw [scaleRow_get, if_pos ⟨hl, by omega⟩]; ring
    · rw [hrow ri hri, if_pos rfl]
      refine hv_comb k (-cc) fun c hc => ?_
      rw [hR'ent c hc]; ring
  · rw [hrow p hp, if_neg (fun h => hne h.symm), scaleRow_get, if_neg (fun h => by rw [hl2] at h; cases h.1)]
    exact hpc
  · rw [hrow ri hri, if_pos rfl, hR'ent dim hdim]; exact hkc
  · rw [hrow p hp, if_neg (fun h => hne h.symm), scaleRow_line]; exact hl2

/-- `reduce_parameter_with_line(row = rows[ri], pivot = rows[p], dim, rows, n + 2)`, `row` a parameter/point,
    `pivot` a line, the pivot zero before `dim` -/
theorem step_PL {n p dim ri : Nat} {rows : List GRow}
    (hri : ri < rows.length) (hp : p < rows.length) (hne : ri ≠ p) (hpr : p ≤ ri)
    (hwf : WfI n rows) (hz : ZeroPre p dim rows) (hdim : dim ≤ n)
    (hpc : get (rowAt rows p).e dim ≠ 0) (hl1 : (rowAt rows ri).line = false) (hl2 : (rowAt rows p).line = true) :
    IStep n p dim ri rows (reduceParameterWithLine rows ri p dim (n + 1 + 1)) ∧
    (rowAt (reduceParameterWithLine rows ri p dim (n + 1 + 1)) p).line = true := by
  rw [rPL_eq]
  split
  · rename_i heq
    have hzr := hz ri hpr hri
    have hzp := hz p (Nat.le_refl _) hp
    generalize hR' : ({ rowAt rows ri with
      e := linearCombine (rowAt rows ri).e (rowAt rows p).e 1 (-1) 0 (n + 1) } : GRow) = R'
    have hR'l : R'.line = (rowAt rows ri).line := by rw [← hR']
    have hR'e : R'.e = linearCombine (rowAt rows ri).e (rowAt rows p).e 1 (-1) 0 (n + 1) := by rw [← hR']
    have hent : ∀ c, c ≤ n → get R'.e c = get (rowAt rows ri).e c + (-1) * get (rowAt rows p).e c := by
      intro c hc
      rw [hR'e]
      exact get_lc_one (-1) (hwf ri hri) (fun c hc => absurd hc (Nat.not_lt_zero c)) c hc
    refine ⟨istep_set_one R' hri hne hwf hz ?_ ?_ ?_ hpc (HomSim.of_iff ?_), ?_⟩
    · rw [hR'e, length_linearCombine]; exact hwf ri hri
    · intro c hc; rw [hent c (by omega), hzr c hc, hzp c hc]; simp
    · rw [hent dim hdim, heq]; ring
    · refine hom_iff_comb ri p 1 (-1) (by simp) hri hp hne ?_ ?_ ?_
        (fun h => by rw [hl1] at h; cases h) (fun _ => rfl)
      · intro i hi; rw [rowAt_set, if_neg (fun h => hi h.1)]
      · rw [rowAt_set, if_pos ⟨rfl, hri⟩]; exact hR'l
      · rw [rowAt_set, if_pos ⟨rfl, hri⟩]
        refine hv_comb 1 (-1) fun c hc => ?_
        rw [hent c hc]; ring
    · rw [rowAt_set, if_neg (fun h => hne h.1.symm)]; exact hl2
  · exact step_PL_gen _ _ (plK_pos _ _ hpc) hri hp hne hpr hwf hz hdim hpc hl1 hl2 (plK_plC _ _ hpc)

/-- `reduce_parameter_with_line` keeps the lattice up to a positive integer scale -/
theorem reduceParameterWithLine_homSim {n p dim ri : Nat} {rows : List GRow}
    (hri : ri < rows.length) (hp : p < rows.length) (hne : ri ≠ p) (hpr : p ≤ ri)
    (hwf : WfI n rows) (hz : ZeroPre p dim rows) (hdim : dim ≤ n)
    (hpc : get (rowAt rows p).e dim ≠ 0) (hl1 : (rowAt rows ri).line = false) (hl2 : (rowAt rows p).line = true) :
    HomSim n rows (reduceParameterWithLine rows ri p dim (n + 1 + 1)) :=
  (step_PL hri hp hne hpr hwf hz hdim hpc hl1 hl2).1.hom

end PPLV.Lattice.Red
