import PPLV.Lattice.ProofsGridOpsCon15

/-!
# `Grid` stage 3, congruence side, part 17: `add_space_dimensions_and_embed/project` when BOTH descriptions are up to
# date — the congruence side and the agreement of the two descriptions are proved; what the generator rows become
# (`add_universe_rows_and_columns`, `set_space_dimension` + `normalize_divisors`) and the triangular forms of the
# resized `dim_kinds` are explicit hypotheses (`_partial`).
-/
namespace PPLV.Lattice.GO
open PPLV.Lattice PPLV.Lattice.Red

/-- a state with both descriptions up to date -/
theorem cn_inv_of_both (r : Grid) (hpos : 0 < r.spaceDim) (he : r.st.empty = false) (hc : r.st.cUp = true)
    (hg : r.st.gUp = true) (hhi : r.st.hi = 0) (hcd : r.conDim = r.spaceDim) (hw : CWf r.spaceDim r.con)
    (hgd : r.genDim = r.spaceDim) (hgw : GWf r.spaceDim r.gen) (hgn : GNorm r.spaceDim (firstPointDiv r.gen) r.gen)
    (hag : consSet r.spaceDim r.con = gensSet r.spaceDim r.gen)
    (hcmin : r.st.cMin = true → r.dk.length = r.spaceDim + 1 ∧ lowerTriangular r.spaceDim r.con r.dk = true ∧
      kind r.dk 0 = PROPER_CONGRUENCE)
    (hgmin : r.st.gMin = true → r.dk.length = r.spaceDim + 1 ∧ upperTriangular r.spaceDim r.gen r.dk = true ∧
      kind r.dk 0 = PARAMETER) : GridInv r ∧ r.sem = gensSet r.spaceDim r.gen := by
  refine ⟨?_, cn_sem_of_gUp r he hpos hg⟩
  exact {
    emp := fun h => by rw [he] at h; cases h
    zdim := fun _ h0 => by omega
    hi0 := fun _ => hhi
    some := fun _ _ => Or.inl hc
    cminUp := fun _ => hc
    gminUp := fun _ => hg
    cwf := fun _ _ _ => ⟨hcd, hw⟩
    gwf := fun _ _ _ => ⟨hgd, hgw, hgn⟩
    agree := fun _ _ _ _ => hag
    cmin := fun _ _ h => hcmin h
    cminConv := fun _ _ _ h => by rw [hg] at h; cases h
    gmin := fun _ _ h => hgmin h
    gminConv := fun _ _ _ h => by rw [hc] at h; cases h }

/-! ### embed -/

def cn_embedBoth (g : Grid) (m : Nat) : Grid :=
  { spaceDim := g.spaceDim + m, st := g.st, conDim := (g.cs.setSpaceDim (g.spaceDim + m)).dim,
    con := (g.cs.setSpaceDim (g.spaceDim + m)).rows, genDim := (g.gs.addUniverseRowsAndColumns m).dim,
    gen := (g.gs.addUniverseRowsAndColumns m).rows,
    dk := if g.congruencesAreMinimized ∨ g.generatorsAreMinimized then
            resizeKindsWith g.dk (g.conDim + 1 + m) CON_VIRTUAL else g.dk }

theorem cn_embed_eq_both (g : Grid) (m : Nat) (hm : 0 < m) (he : g.st.empty = false) (hpos : 0 < g.spaceDim)
    (hc : g.st.cUp = true) (hg : g.st.gUp = true) : addSpaceDimensionsAndEmbed g m = cn_embedBoth g m := by
  unfold addSpaceDimensionsAndEmbed
  rw [if_neg (by omega), if_neg (show ¬ (g.markedEmpty = true) by simpa [Grid.markedEmpty] using he),
    if_neg (by omega)]
  dsimp only
  rw [if_pos (show g.congruencesAreUpToDate = true from hc), if_pos (show g.generatorsAreUpToDate = true from hg)]
  rfl

/-- embed, both descriptions up to date.  Generator-side hypotheses (not proved here): `hGen` —
    `add_universe_rows_and_columns(m)` keeps the shape and generates the embedding; `hTriC` / `hTriG` — the triangular
    forms for the resized `dim_kinds` when the descriptions are minimized -/
theorem cn_embed_both_partial (g : Grid) (m : Nat) (hI : GridInv g) (hm : 0 < m) (he : g.st.empty = false)
    (hpos : 0 < g.spaceDim) (hc : g.st.cUp = true) (hg : g.st.gUp = true)
    (hGen : GWf (g.spaceDim + m) (g.gs.addUniverseRowsAndColumns m).rows ∧
      GNorm (g.spaceDim + m) (firstPointDiv (g.gs.addUniverseRowsAndColumns m).rows) (g.gs.addUniverseRowsAndColumns m).rows ∧
      gensSet (g.spaceDim + m) (g.gs.addUniverseRowsAndColumns m).rows = cn_embedSet g.spaceDim m (gensSet g.spaceDim g.gen))
    (hTriC : g.st.cMin = true → lowerTriangular (g.spaceDim + m) (g.con.map (·.setSpaceDim (g.spaceDim + m)))
        (resizeKindsWith g.dk (g.spaceDim + 1 + m) CON_VIRTUAL) = true)
    (hTriG : g.st.gMin = true → upperTriangular (g.spaceDim + m) (g.gs.addUniverseRowsAndColumns m).rows
        (resizeKindsWith g.dk (g.spaceDim + 1 + m) CON_VIRTUAL) = true) :
    GridInv (addSpaceDimensionsAndEmbed g m) ∧
      (addSpaceDimensionsAndEmbed g m).sem = cn_embedSet g.spaceDim m g.sem ∧
      (addSpaceDimensionsAndEmbed g m).spaceDim = g.spaceDim + m := by
  rw [cn_embed_eq_both g m hm he hpos hc hg]
  obtain ⟨hcd, hw⟩ := hI.cwf he hpos hc
  obtain ⟨hgd, _, _⟩ := hI.gwf he hpos hg
  have hcsd : g.cs.dim = g.spaceDim := hcd
  have hcd' : g.conDim = g.spaceDim := hcd
  have hw' : CWf g.cs.dim g.cs.rows := by rw [hcsd]; exact hw
  have hrows : (g.cs.setSpaceDim (g.spaceDim + m)).rows = g.con.map (·.setSpaceDim (g.spaceDim + m)) := by
    rw [cn_CSys_setSpaceDim_rows g.cs _ (by rw [hcsd]; omega)]; rfl
  have hcons : consSet (g.spaceDim + m) (g.cs.setSpaceDim (g.spaceDim + m)).rows =
      cn_embedSet g.spaceDim m (consSet g.spaceDim g.con) := by
    have := cn_CSys_embed_consSet g.cs m hm hw'
    rw [hcsd] at this; exact this
  obtain ⟨hg1, hg2, hg3⟩ := hGen
  have hdk : ∀ (_ : g.st.cMin = true ∨ g.st.gMin = true),
      (cn_embedBoth g m).dk = resizeKindsWith g.dk (g.spaceDim + 1 + m) CON_VIRTUAL ∧ g.dk.length = g.spaceDim + 1 ∧
        kind g.dk 0 = 0 := by
    intro h
    refine ⟨?_, ?_, ?_⟩
    · show (if g.congruencesAreMinimized = true ∨ g.generatorsAreMinimized = true then _ else _) = _
      rw [if_pos (show g.congruencesAreMinimized = true ∨ g.generatorsAreMinimized = true from h), hcd']
    · rcases h with h | h
      · exact (hI.cmin he hpos h).1
      · exact (hI.gmin he hpos h).1
    · rcases h with h | h
      · exact (hI.cmin he hpos h).2.2
      · exact (hI.gmin he hpos h).2.2
  have := cn_inv_of_both (cn_embedBoth g m) (show 0 < g.spaceDim + m by omega) he hc hg (hI.hi0 he)
    (cn_CSys_setSpaceDim_dim _ _) (cn_CSys_setSpaceDim_CWf g.cs _ hw')
    (show g.genDim + m = g.spaceDim + m by rw [hgd]) hg1 hg2
    (by show consSet (g.spaceDim + m) (g.cs.setSpaceDim (g.spaceDim + m)).rows = _
        rw [hcons, hI.agree he hpos hc hg]; exact hg3.symm)
    (fun hcm => by
      obtain ⟨d1, d2, d3⟩ := hdk (Or.inl hcm)
      rw [d1]
      refine ⟨by rw [cn_resizeKindsWith_length]; show g.spaceDim + 1 + m = g.spaceDim + m + 1; omega, ?_, ?_⟩
      · show lowerTriangular (g.spaceDim + m) (g.cs.setSpaceDim (g.spaceDim + m)).rows _ = true
        rw [hrows]; exact hTriC hcm
      · rw [cn_resizeKindsWith_kind _ _ _ _ (by omega) (by omega)]; exact d3)
    (fun hgm => by
      obtain ⟨d1, d2, d3⟩ := hdk (Or.inr hgm)
      rw [d1]
      refine ⟨by rw [cn_resizeKindsWith_length]; show g.spaceDim + 1 + m = g.spaceDim + m + 1; omega, hTriG hgm, ?_⟩
      rw [cn_resizeKindsWith_kind _ _ _ _ (by omega) (by omega)]; exact d3)
  refine ⟨this.1, ?_, rfl⟩
  rw [this.2, cn_sem_of_gUp g he hpos hg]
  exact hg3

/-! ### project -/

def cn_projectBoth (g : Grid) (m : Nat) : Grid :=
  { spaceDim := g.spaceDim + m, st := g.st, conDim := (g.cs.addUnitRowsAndSpaceDimensions m).dim,
    con := (g.cs.addUnitRowsAndSpaceDimensions m).rows,
    genDim := (normalizeDivisors1 (g.gs.setSpaceDim (g.spaceDim + m))).dim,
    gen := (normalizeDivisors1 (g.gs.setSpaceDim (g.spaceDim + m))).rows,
    dk := resizeKindsWith g.dk ((g.cs.addUnitRowsAndSpaceDimensions m).dim + 1) EQUALITY }

theorem cn_project_eq_both (g : Grid) (m : Nat) (hm : 0 < m) (he : g.st.empty = false) (hpos : 0 < g.spaceDim)
    (hc : g.st.cUp = true) (hg : g.st.gUp = true) : addSpaceDimensionsAndProject g m = cn_projectBoth g m := by
  unfold addSpaceDimensionsAndProject
  rw [if_neg (by omega), if_neg (show ¬ (g.markedEmpty = true) by simpa [Grid.markedEmpty] using he),
    if_neg (by omega)]
  dsimp only
  rw [if_pos (show g.congruencesAreUpToDate = true from hc), if_pos (show g.generatorsAreUpToDate = true from hg)]
  rfl

/-- project, both descriptions up to date; generator-side hypotheses as for embed (here the generator rows are resized
    and `normalize_divisors` is run) -/
theorem cn_project_both_partial (g : Grid) (m : Nat) (hI : GridInv g) (hm : 0 < m) (he : g.st.empty = false)
    (hpos : 0 < g.spaceDim) (hc : g.st.cUp = true) (hg : g.st.gUp = true)
    (hGen : GWf (g.spaceDim + m) (normalizeDivisors1 (g.gs.setSpaceDim (g.spaceDim + m))).rows ∧
      GNorm (g.spaceDim + m) (firstPointDiv (normalizeDivisors1 (g.gs.setSpaceDim (g.spaceDim + m))).rows)
        (normalizeDivisors1 (g.gs.setSpaceDim (g.spaceDim + m))).rows ∧
      gensSet (g.spaceDim + m) (normalizeDivisors1 (g.gs.setSpaceDim (g.spaceDim + m))).rows = gensSet g.spaceDim g.gen)
    (hTriC : g.st.cMin = true → lowerTriangular (g.spaceDim + m) (g.cs.addUnitRowsAndSpaceDimensions m).rows
        (resizeKindsWith g.dk (g.spaceDim + m + 1) EQUALITY) = true)
    (hTriG : g.st.gMin = true → upperTriangular (g.spaceDim + m) (normalizeDivisors1 (g.gs.setSpaceDim (g.spaceDim + m))).rows
        (resizeKindsWith g.dk (g.spaceDim + m + 1) EQUALITY) = true) :
    GridInv (addSpaceDimensionsAndProject g m) ∧ (addSpaceDimensionsAndProject g m).sem = g.sem ∧
      (addSpaceDimensionsAndProject g m).spaceDim = g.spaceDim + m := by
  rw [cn_project_eq_both g m hm he hpos hc hg]
  obtain ⟨hcd, hw⟩ := hI.cwf he hpos hc
  have hcsd : g.cs.dim = g.spaceDim := hcd
  have hw' : CWf g.cs.dim g.cs.rows := by rw [hcsd]; exact hw
  have hdim : (g.cs.addUnitRowsAndSpaceDimensions m).dim = g.spaceDim + m := by
    rw [(cn_addUnitRows_eq g.cs m hm).1, hcsd]
  have hcwf : CWf (g.spaceDim + m) (g.cs.addUnitRowsAndSpaceDimensions m).rows := by
    have := cn_addUnitRows_CWf g.cs m hm hw'; rwa [hcsd] at this
  have hcons : consSet (g.spaceDim + m) (g.cs.addUnitRowsAndSpaceDimensions m).rows = consSet g.spaceDim g.con := by
    have := cn_addUnitRows_consSet g.cs m hm hw'
    rw [hcsd] at this; exact this
  obtain ⟨hg1, hg2, hg3⟩ := hGen
  have hdk : (cn_projectBoth g m).dk = resizeKindsWith g.dk (g.spaceDim + m + 1) EQUALITY := by
    show resizeKindsWith g.dk ((g.cs.addUnitRowsAndSpaceDimensions m).dim + 1) EQUALITY = _
    rw [hdim]
  have := cn_inv_of_both (cn_projectBoth g m) (show 0 < g.spaceDim + m by omega) he hc hg (hI.hi0 he)
    hdim hcwf (show (normalizeDivisors1 (g.gs.setSpaceDim (g.spaceDim + m))).dim = g.spaceDim + m from rfl) hg1 hg2
    (by show consSet (g.spaceDim + m) (g.cs.addUnitRowsAndSpaceDimensions m).rows = _
        rw [hcons, hI.agree he hpos hc hg]; exact hg3.symm)
    (fun hcm => by
      obtain ⟨l1, _, l3⟩ := hI.cmin he hpos hcm
      rw [hdk]
      refine ⟨cn_resizeKindsWith_length _ _ _, hTriC hcm, ?_⟩
      rw [cn_resizeKindsWith_kind _ _ _ _ (by omega) (by omega)]; exact l3)
    (fun hgm => by
      obtain ⟨l1, _, l3⟩ := hI.gmin he hpos hgm
      rw [hdk]
      refine ⟨cn_resizeKindsWith_length _ _ _, hTriG hgm, ?_⟩
      rw [cn_resizeKindsWith_kind _ _ _ _ (by omega) (by omega)]; exact l3)
  refine ⟨this.1, ?_, rfl⟩
  rw [this.2, cn_sem_of_gUp g he hpos hg]
  exact hg3

end PPLV.Lattice.GO
