import PPLV.Lattice.ProofsOps

/-!
# K2: dimension-changing operators are images under coordinate maps
-/
set_option linter.unusedSimpArgs false
namespace PPLV.Lattice
open List

/-- the linear map `x ↦ (j ↦ x (f j))`, `0` where `f j = none` -/
def coordMap (f : Nat → Option Nat) : Pt →ₗ[ℚ] Pt where
  toFun x j := match f j with | some i => x i | none => 0
  map_add' x y := by
    funext j; simp only [Pi.add_apply]; cases f j <;> simp
  map_smul' c x := by
    funext j; simp only [Pi.smul_apply, smul_eq_mul, RingHom.id_apply]; cases f j <;> simp

theorem coordMap_apply (f : Nat → Option Nat) (x : Pt) (j : Nat) :
    coordMap f x j = match f j with | some i => x i | none => 0 := rfl

/-- `remove_space_dimensions`, `remove_higher_space_dimensions`: keep the listed coordinates -/
theorem selectCoords_represents (keep : List Nat) :
    Represents (selectCoords keep) (coordMap (fun j => keep[j]?)) := by
  intro v
  funext j
  rw [coordMap_apply]
  simp only [selectCoords, Vec.toFun, List.getD_eq_getElem?_getD, List.getElem?_map]
  cases h : keep[j]? with
  | none => simp
  | some i => simp

/-- `map_space_dimensions` with the partial injection `pf` (`pf[i] = some j`: `i ↦ j`) into `m` dimensions -/
theorem mapCoords_represents (m : Nat) (pf : List (Option Nat)) :
    Represents (mapCoords m pf) (coordMap (fun j => if j < m then pf.idxOf? (some j) else none)) := by
  intro v
  funext j
  rw [coordMap_apply]
  simp only [mapCoords, toFun_vecOfFn]
  by_cases hj : j < m
  · simp only [hj, if_true]
    cases pf.idxOf? (some j) <;> rfl
  · simp [hj]

/-- `padTo n`: truncation to the first `n` coordinates -/
theorem padTo_represents (n : Nat) : Represents (padTo n) (coordMap (fun j => if j < n then some j else none)) := by
  intro v
  funext j
  rw [coordMap_apply, toFun_padTo]
  by_cases hj : j < n <;> simp [hj]

/-- image of a grid under a coordinate map -/
theorem mapCoord_sem (M : Vec → Vec) (f : Nat → Option Nat) (hM : Represents M (coordMap f)) (G : GridGens) (y : Pt) :
    Gen.sem (mapG M [] G) y ↔ ∃ x, Gen.sem G x ∧ y = coordMap f x := by
  rw [mapG_sem M _ hM]
  simp

/-! ### adding dimensions -/

theorem addLines_sem_mono (G : GridGens) (ls : List Vec) (x : Pt) (h : Gen.sem G x) : Gen.sem (addLines G ls) x := by
  induction ls generalizing G with
  | nil => exact h
  | cons l ls ih =>
    simp only [addLines, List.foldl_cons]
    apply ih
    rw [addLine_sem]
    exact ⟨x, 0, h, by simp⟩

/-- `add_space_dimensions_and_embed`: the points whose first `n` coordinates form a point of `G`
    (for a grid `G` of dimension `n`) -/
theorem embed_sem (n m : Nat) (G : GridGens) (hG : ∀ x, Gen.sem G x → Supp n x) (y : Pt) :
    Gen.sem (addLines G ((List.range m).map (fun j => unit (n + j)))) y ↔
      Supp (n + m) y ∧ Gen.sem G (fun j => if j < n then y j else 0) := by
  induction m generalizing y with
  | zero =>
    simp only [List.range_zero, List.map_nil, addLines, List.foldl_nil, Nat.add_zero]
    constructor
    · intro h
      have hs := hG y h
      refine ⟨hs, ?_⟩
      have : (fun j => if j < n then y j else 0) = y := by
        funext j; by_cases hj : j < n
        · simp [hj]
        · simp [hj, hs j (by omega)]
      rwa [this]
    · rintro ⟨hs, h⟩
      have : (fun j => if j < n then y j else 0) = y := by
        funext j; by_cases hj : j < n
        · simp [hj]
        · simp [hj, hs j (by omega)]
      rwa [this] at h
  | succ m ih =>
    rw [List.range_succ, List.map_append, addLines, List.foldl_append]
    simp only [List.map_cons, List.map_nil, List.foldl_cons, List.foldl_nil]
    rw [addLine_sem]
    constructor
    · rintro ⟨x, c, hx, rfl⟩
      have hx' : Gen.sem (addLines G ((List.range m).map (fun j => unit (n + j)))) x := hx
      obtain ⟨hs, hg⟩ := (ih x).mp hx'
      constructor
      · intro i hi
        simp only [Pi.add_apply, Pi.smul_apply, smul_eq_mul, toFun_unit]
        rw [hs i (by omega)]
        have : i ≠ n + m := by omega
        simp [this]
      · have : (fun j => if j < n then (x + c • (unit (n + m)).toFun) j else 0) = (fun j => if j < n then x j else 0) := by
          funext j
          by_cases hj : j < n
          · have : j ≠ n + m := by omega
            simp [hj, toFun_unit, this]
          · simp [hj]
        rw [this]; exact hg
    · rintro ⟨hs, hg⟩
      refine ⟨Function.update y (n + m) 0, y (n + m), ?_, ?_⟩
      · show Gen.sem (addLines G ((List.range m).map (fun j => unit (n + j)))) _
        rw [ih]
        constructor
        · intro i hi
          by_cases h : i = n + m
          · subst h; simp
          · rw [Function.update_of_ne h]; exact hs i (by omega)
        · have : (fun j => if j < n then Function.update y (n + m) 0 j else 0) = (fun j => if j < n then y j else 0) := by
            funext j
            by_cases hj : j < n
            · have : j ≠ n + m := by omega
              simp [hj, Function.update_of_ne this]
            · simp [hj]
          rw [this]; exact hg
      · funext j
        by_cases h : j = n + m
        · subst h; simp [toFun_unit]
        · simp [Function.update_of_ne h, toFun_unit, h]

end PPLV.Lattice
