import PPLV.Lattice.ProofsGridOpsGen27
import PPLV.Lattice.ProofsGridOpsCon6

/-!
# Generator side of the `Grid` object, part 28 — `Grid::relation_with(const Constraint&)` (Grid_public.cc:654, repaired
# code): the loop on a generator system with exactly one point (no row is rewritten)
-/
namespace PPLV.Lattice.GO
open PPLV.Lattice PPLV.Lattice.Red

theorem gn_sgnI_zero (z : Int) : sgnI z = 0 ↔ z = 0 := by
  unfold sgnI
  constructor
  · intro h; split_ifs at h <;> omega
  · intro h; subst h; rfl
theorem gn_sgnI_pos (z : Int) : sgnI z > 0 ↔ z > 0 := by
  unfold sgnI
  constructor
  · intro h; split_ifs at h <;> omega
  · intro h; rw [if_neg (by omega), if_neg (by omega)]; omega

/-- the rows after the point (or before it): no row is a point -/
theorem gn_relConLoop_nopt (c : Con) : ∀ (gs : List GRow) (st : RelConSt) (done : List GRow),
    (∀ g ∈ gs, g.isPoint = false) →
    relConLoop true c st done gs =
      if (gs.all fun g => sp c.e g.e == 0) = true then .inl (st, done ++ gs) else .inr (done ++ gs)
  | [], st, done, _ => by simp [relConLoop]
  | g :: gs, st, done, h => by
    have hg : g.isPoint = false := h g (by simp)
    unfold relConLoop
    rw [if_neg (by rw [hg]; simp)]
    simp only [hg, Bool.false_eq_true, if_false]
    by_cases hz : sp c.e g.e = 0
    · rw [if_neg (by rw [hz]; simp [sgnI]),
        gn_relConLoop_nopt c gs st (done ++ [g]) (fun g' hg' => h g' (List.mem_cons_of_mem _ hg'))]
      simp [hz]
    · rw [if_pos (by rw [Ne, gn_sgnI_zero]; exact hz)]
      simp [hz]

/-- the state after the first point -/
def gn_conSt (c : Con) (p : GRow) : RelConSt :=
  if sgnI (sp c.e p.e) = 0 then { pointSaturates := !c.isStrict, firstPoint := some p }
  else if sgnI (sp c.e p.e) > 0 then { pointIsIncluded := !c.isEquality, firstPoint := some p }
  else { firstPoint := some p }

/-- the loop on `A ++ p :: B`, `p` the only point -/
theorem gn_relConLoop_onept (c : Con) (p : GRow) (hp : p.isPoint = true) (B : List GRow)
    (hB : ∀ g ∈ B, g.isPoint = false) : ∀ (A done : List GRow), (∀ g ∈ A, g.isPoint = false) →
    relConLoop true c {} done (A ++ p :: B) =
      if ((A ++ B).all fun g => sp c.e g.e == 0) = true then .inl (gn_conSt c p, done ++ (A ++ p :: B))
      else .inr (done ++ (A ++ p :: B))
  | [], done, _ => by
    rw [List.nil_append, List.nil_append]
    unfold relConLoop
    rw [if_pos ⟨hp, rfl⟩]
    simp only [if_true]
    have e : (if sgnI (sp c.e p.e) = 0 then
          ({ ({} : RelConSt) with pointSaturates := !c.isStrict, firstPoint := some p } : RelConSt)
        else if sgnI (sp c.e p.e) > 0 then { ({} : RelConSt) with pointIsIncluded := !c.isEquality, firstPoint := some p }
        else { ({} : RelConSt) with firstPoint := some p }) = gn_conSt c p := rfl
    rw [e, gn_relConLoop_nopt c B _ _ hB]
    simp
  | g :: A, done, h => by
    have hg : g.isPoint = false := h g (by simp)
    rw [List.cons_append]
    unfold relConLoop
    rw [if_neg (by rw [hg]; simp)]
    simp only [hg, Bool.false_eq_true, if_false]
    by_cases hz : sp c.e g.e = 0
    · rw [if_neg (by rw [hz]; simp [sgnI]),
        gn_relConLoop_onept c p hp B hB A (done ++ [g]) (fun g' hg' => h g' (List.mem_cons_of_mem _ hg'))]
      simp [hz]
    · rw [if_pos (by rw [Ne, gn_sgnI_zero]; exact hz)]
      simp [hz]

/-- a list with exactly one element satisfying `q` -/
theorem gn_split_one {α : Type} (q : α → Bool) : ∀ l : List α, (l.filter q).length = 1 →
    ∃ A p B, l = A ++ p :: B ∧ q p = true ∧ (∀ a ∈ A, q a = false) ∧ (∀ b ∈ B, q b = false)
  | [], h => by simp at h
  | a :: l, h => by
    cases ha : q a with
    | true =>
      rw [List.filter_cons_of_pos ha] at h
      have hl : (l.filter q).length = 0 := by simpa using h
      have hnil : l.filter q = [] := List.length_eq_zero_iff.mp hl
      refine ⟨[], a, l, rfl, ha, fun _ h' => (by cases h'), fun b hb => ?_⟩
      cases hb' : q b with
      | false => rfl
      | true =>
        have : b ∈ l.filter q := List.mem_filter.mpr ⟨hb, hb'⟩
        rw [hnil] at this; cases this
    | false =>
      rw [List.filter_cons_of_neg (by rw [ha]; simp)] at h
      obtain ⟨A, p, B, e, hp, hA, hB⟩ := gn_split_one q l h
      refine ⟨a :: A, p, B, by rw [e]; rfl, hp, fun x hx => ?_, hB⟩
      rcases List.mem_cons.mp hx with rfl | hx
      · exact ha
      · exact hA x hx

/-- **the loop of `relation_with(const Constraint&)` on a system with exactly one point**: the rows are not touched; the
    answer is "strictly intersects" when some other row has a non-zero product, else the state fixed by the point -/
theorem gn_relConLoop_one (c : Con) (rows : List GRow) (h1 : (rows.filter gn_isPt).length = 1) :
    ∃ p ∈ rows, gn_isPt p = true ∧ (∀ r ∈ rows, gn_isPt r = true → r = p) ∧
      relConLoop true c {} [] rows =
        if (∀ r ∈ rows, gn_isPt r = false → sp c.e r.e = 0) then .inl (gn_conSt c p, rows) else .inr rows := by
  obtain ⟨A, p, B, e, hp, hA, hB⟩ := gn_split_one gn_isPt rows h1
  have hmem : ∀ r, r ∈ rows ↔ r ∈ A ∨ r = p ∨ r ∈ B := by
    intro r; rw [e]; simp
  refine ⟨p, (hmem p).mpr (Or.inr (Or.inl rfl)), hp, ?_, ?_⟩
  · intro r hr pr
    rcases (hmem r).mp hr with h | h | h
    · rw [hA r h] at pr; cases pr
    · exact h
    · rw [hB r h] at pr; cases pr
  · rw [e, gn_relConLoop_onept c p hp B hB A [] hA, List.nil_append, ← e]
    have hiff : ((A ++ B).all fun g => sp c.e g.e == 0) = true ↔ ∀ r ∈ rows, gn_isPt r = false → sp c.e r.e = 0 := by
      rw [List.all_eq_true]
      constructor
      · intro h r hr pr
        rcases (hmem r).mp hr with h' | h' | h'
        · simpa using h r (List.mem_append_left _ h')
        · rw [h', hp] at pr; cases pr
        · simpa using h r (List.mem_append_right _ h')
      · intro h r hr
        rcases List.mem_append.mp hr with h' | h'
        · simpa using h r ((hmem r).mpr (Or.inl h')) (hA r h')
        · simpa using h r ((hmem r).mpr (Or.inr (Or.inr h'))) (hB r h')
    by_cases hz : ∀ r ∈ rows, gn_isPt r = false → sp c.e r.e = 0
    · rw [if_pos (hiff.mpr hz), if_pos hz]
    · rw [if_neg (fun h => hz (hiff.mp h)), if_neg hz]

end PPLV.Lattice.GO
