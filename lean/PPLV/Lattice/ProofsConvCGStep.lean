import PPLV.Lattice.ProofsConvCGRowOps

/-!
# `Grid::conversion` (congruences → generators): the loop invariant on the matrix of products

`Qu d g p = (d ≤ p ? g[p] : 0) + Σ_{k < d} g[k]·source[pos p][k]`: the product of the dest (generator) row `g` with
the source (congruence) row of dimension `p`, where the columns `≥ d` (not yet treated) of the source are still the
identity.  After the dimensions `< d` have been treated, `Qu d (dest row of q) p = λ·[p = q]` for every treated row
(`q < d`), the rows `q ≥ d` are still multiples of unit vectors.  At `d = dims`, `Qu` is the full product.
-/
namespace PPLV.Lattice.Red

theorem cg_dotUpto_comm (c g : Row) (m : Nat) : dotUpto c g m = dotUpto g c m := by
  induction m with
  | zero => rfl
  | succ m ih => simp only [dotUpto, ih]; ring

theorem cg_dotUpto_congr0 (c c' g : Row) (m : Nat) (h : ∀ k, k < m → get c' k = get c k) :
    dotUpto c' g m = dotUpto c g m := by
  have := dotUpto_congr_from c c' g 0 m (fun k _ hk => h k hk) (Nat.zero_le _)
  simp only [dotUpto] at this
  linear_combination this

theorem cg_dotUpto_scale0 (c c' g : Row) (f : Int) (m : Nat) (h : ∀ k, k < m → get c' k = get c k * f) :
    dotUpto c' g m = dotUpto c g m * f := by
  have := dotUpto_scale_from c c' g f 0 m (fun k _ hk => h k hk) (Nat.zero_le _)
  simp only [dotUpto] at this
  linear_combination this

theorem cg_dotUpto_zero0 (c g : Row) (m : Nat) (h : ∀ k, k < m → get c k = 0) : dotUpto c g m = 0 := by
  have := dotUpto_zero_from c g 0 m (fun k _ hk => h k hk) (Nat.zero_le _)
  simpa [dotUpto] using this

def Qu (source : List CRow) (dk : List Nat) (dims d : Nat) (g : Row) (p : Nat) : Int :=
  (if d ≤ p then get g p else 0) + dotUpto g (rowAt source (pos dk dims p)).e d

section
variable (source : List CRow) (dk : List Nat) (dims : Nat)

/-- the column operations of one `dim = e` on one row -/
theorem colop_Qu (hs : CSrcOK dims source dk) (e : Nat) (he : e < dims) (c1 c2 : Row)
    (hcol : ∀ k, get c2 k =
      if e < k ∧ k < dims ∧ nlB dk k = true then get c1 k - cEnt source (pos dk dims k) e * get c1 e else get c1 k)
    (p : Nat) (hp : p < dims) (hpv : nlB dk p = true) :
    Qu source dk dims (e + 1) c2 p = if p = e then Qu source dk dims (e + 1) c1 e else Qu source dk dims e c1 p := by
  have h1 := cg_dotUpto_congr0 c1 c2 (rowAt source (pos dk dims p)).e (e + 1)
    (fun k hk => by rw [hcol k, if_neg (by omega)])
  have h2 := dotUpto_succ c1 (rowAt source (pos dk dims p)).e e
  unfold Qu
  rcases Nat.lt_trichotomy p e with hlt | heq | hgt
  · have hz : get (rowAt source (pos dk dims p)).e e = 0 := hs.zeros p hp hpv e hlt he
    rw [if_neg (by omega), if_neg (by omega : ¬ p = e), if_neg (by omega : ¬ e ≤ p)]
    linear_combination h1 + h2 + get c1 e * hz
  · subst heq
    rw [if_pos rfl, h1, if_neg (by omega), if_neg (by omega)]
  · rw [if_pos (by omega : e + 1 ≤ p), if_neg (by omega : ¬ p = e), if_pos (by omega : e ≤ p), hcol p,
      if_pos ⟨hgt, hp, hpv⟩]
    simp only [cEnt]
    linear_combination h1 + h2

/-- scaling by `f` and dividing column `e` by the diagonal entry of the source row of `e` -/
theorem div_Qu (e : Nat) (c0 c1 : Row) (f : Int) (hsc : ∀ k, k ≠ e → get c1 k = get c0 k * f) (p : Nat) :
    (p ≠ e → Qu source dk dims e c1 p = Qu source dk dims e c0 p * f) ∧
    (p = e → get c1 e * cEnt source (pos dk dims e) e = get c0 e * f →
      Qu source dk dims (e + 1) c1 e = Qu source dk dims e c0 e * f) := by
  have h := cg_dotUpto_scale0 c0 c1 (rowAt source (pos dk dims p)).e f e (fun k hk => hsc k (by omega))
  constructor
  · intro hpe
    unfold Qu
    by_cases hlt : e ≤ p
    · rw [if_pos hlt, if_pos hlt, hsc p hpe]
      linear_combination h
    · rw [if_neg hlt, if_neg hlt]
      linear_combination h
  · intro hpe hdiv
    subst hpe
    have h2 := dotUpto_succ c1 (rowAt source (pos dk dims p)).e p
    unfold Qu
    rw [if_neg (by omega : ¬ p + 1 ≤ p), if_pos (Nat.le_refl _)]
    simp only [cEnt] at hdiv
    linear_combination h + h2 + hdiv

/-- a row of a dimension below `e` -/
theorem rowstep_oldU (hs : CSrcOK dims source dk) (e : Nat) (he : e < dims) (c0 c1 c2 : Row) (f : Int)
    (hsc : ∀ k, k ≠ e → get c1 k = get c0 k * f)
    (hdiv : nlB dk e = true → get c1 e * cEnt source (pos dk dims e) e = get c0 e * f)
    (hcol : ∀ k, get c2 k =
      if e < k ∧ k < dims ∧ nlB dk k = true then get c1 k - cEnt source (pos dk dims k) e * get c1 e else get c1 k)
    (p : Nat) (hp : p < dims) (hpv : nlB dk p = true) :
    Qu source dk dims (e + 1) c2 p = Qu source dk dims e c0 p * f := by
  rw [colop_Qu source dk dims hs e he c1 c2 hcol p hp hpv]
  obtain ⟨d1, d2⟩ := div_Qu source dk dims e c0 c1 f hsc p
  by_cases hpe : p = e
  · rw [if_pos hpe]
    have := d2 hpe (hdiv (hpe ▸ hpv))
    rw [this, hpe]
  · rw [if_neg hpe]; exact d1 hpe

/-- the row of the dimension `e` itself -/
theorem rowstep_newU (hs : CSrcOK dims source dk) (e : Nat) (he : e < dims) (c1 c2 : Row)
    (hz : ∀ k, k ≠ e → get c1 k = 0)
    (hcol : ∀ k, get c2 k =
      if e < k ∧ k < dims ∧ nlB dk k = true then get c1 k - cEnt source (pos dk dims k) e * get c1 e else get c1 k)
    (p : Nat) (hp : p < dims) (hpv : nlB dk p = true) :
    Qu source dk dims (e + 1) c2 p = if p = e then get c1 e * cEnt source (pos dk dims e) e else 0 := by
  rw [colop_Qu source dk dims hs e he c1 c2 hcol p hp hpv]
  have h0 := cg_dotUpto_zero0 c1 (rowAt source (pos dk dims p)).e e (fun k hk => hz k (by omega))
  by_cases hpe : p = e
  · subst hpe
    rw [if_pos rfl, if_pos rfl]
    unfold Qu
    rw [if_neg (by omega : ¬ p + 1 ≤ p)]
    have h2 := dotUpto_succ c1 (rowAt source (pos dk dims p)).e p
    simp only [cEnt]
    linear_combination h0 + h2
  · rw [if_neg hpe, if_neg hpe]
    unfold Qu
    by_cases hlt : e ≤ p
    · rw [if_pos hlt, hz p hpe]; linear_combination h0
    · rw [if_neg hlt]; linear_combination h0

/-! ### the invariant -/

structure GRowInv (d : Nat) (L : Int) (q : Nat) (g : GRow) : Prop where
  len : g.e.length = dims + 1
  lnv : nlB dk q = false → g.line = true
  lnp : nlB dk q = true → g.line = false
  tri : ∀ k, k < q → get g.e k = 0
  diag : 0 < get g.e q
  ex : ∃ lam : Int, 0 < lam ∧ (nlB dk q = true → lam = L) ∧
    (q < d → ∀ p, p < dims → nlB dk p = true → Qu source dk dims d g.e p = if p = q then lam else 0) ∧
    (d ≤ q → (∀ k, k ≠ q → get g.e k = 0) ∧ (nlB dk q = true → get g.e q * cEnt source (pos dk dims q) q = lam) ∧
      (nlB dk q = false → get g.e q = lam))

/-- the rows after the scaling/division phase of `dim = e` (`K` rows treated, `a` the divisor) -/
structure GPhaseA (e K : Nat) (a : Int) (T T1 : List GRow) : Prop where
  len : T1.length = T.length
  ex : ∃ f : Int, 0 < f ∧ ∀ i, i < T.length → ∃ fi : Int, 0 < fi ∧ ((rowAt T i).line = false → fi = f) ∧
    (rowAt T1 i).line = (rowAt T i).line ∧ (rowAt T1 i).e.length = (rowAt T i).e.length ∧
    (∀ k, k ≠ e → gEnt T1 i k = gEnt T i k * fi) ∧
    (i < K → nlB dk e = true → gEnt T1 i e * a = gEnt T i e * fi) ∧
    (¬(i < K ∧ nlB dk e = true) → gEnt T1 i e = gEnt T i e * fi)

theorem cgStep_rows (hs : CSrcOK dims source dk) (e : Nat) (he : e < dims) (T T1 T2 : List GRow) (K K' : Nat)
    (hK : K = nv dk e) (hK' : K' = nv dk (e + 1)) (hlen : T.length = nv dk dims)
    (L : Int) (hL : 0 < L)
    (hrows : ∀ q, q < dims → nvB dk q = true → GRowInv source dk dims e L q (rowAt T (nv dk q)))
    (hA : GPhaseA dk e K (cEnt source (pos dk dims e) e) T T1) (hC : GColSpec source dk dims e K' T1 T2) :
    ∃ L' : Int, 0 < L' ∧ ∀ q, q < dims → nvB dk q = true → GRowInv source dk dims (e + 1) L' q (rowAt T2 (nv dk q)) := by
  obtain ⟨hl1, f, hf, hrowA⟩ := hA
  refine ⟨L * f, Int.mul_pos hL hf, fun q hq hql => ?_⟩
  have hi : nv dk q < T.length := by rw [hlen]; exact (cg_nv_lt_iff dk q dims hql).mpr hq
  obtain ⟨fi, hfi, a1, a2, a3, a4, a5, a6⟩ := hrowA _ hi
  have R := hrows q hq hql
  have iK : nv dk q < K ↔ q < e := by rw [hK]; exact cg_nv_lt_iff dk q e hql
  have iK' : nv dk q < K' ↔ q < e + 1 := by rw [hK']; exact cg_nv_lt_iff dk q (e + 1) hql
  have hi1 : nv dk q < T1.length := by rw [hl1]; exact hi
  have hcol := hC.ent _ hi1
  simp only [gEnt] at hcol a4 a5 a6
  -- entries of the intermediate row
  have hsc : ∀ k, (k ≠ e ∨ e ≤ q) → get (rowAt T1 (nv dk q)).e k = get (rowAt T (nv dk q)).e k * fi := by
    intro k hk
    by_cases hke : k = e
    · subst hke
      apply a6
      intro hc
      have := iK.mp hc.1
      omega
    · exact a4 k hke
  refine ⟨?_, ?_, ?_, ?_, ?_, ?_⟩
  · rw [hC.elen _ hi1, a3]; exact R.len
  · intro hv; rw [hC.line _ hi1, a2]; exact R.lnv hv
  · intro hv; rw [hC.line _ hi1, a2]; exact R.lnp hv
  · intro k hk
    rw [hcol k]
    by_cases hc : nv dk q < K' ∧ e < k ∧ k < dims ∧ nlB dk k = true
    · have := iK'.mp hc.1; omega
    · rw [if_neg hc, hsc k (by omega), R.tri k hk]; ring
  · rw [hcol q, if_neg (fun hc => by have := iK'.mp hc.1; omega), hsc q (by omega)]
    exact Int.mul_pos R.diag hfi
  · obtain ⟨lam, hlam, hlL, hQ, hB⟩ := R.ex
    refine ⟨lam * fi, Int.mul_pos hlam hfi, fun hv => ?_, fun heq => ?_, fun hqe => ?_⟩
    · rw [hlL hv, a1 (R.lnp hv)]
    · -- treated rows
      have hcol' : ∀ k, get (rowAt T2 (nv dk q)).e k =
          if e < k ∧ k < dims ∧ nlB dk k = true then
            get (rowAt T1 (nv dk q)).e k - cEnt source (pos dk dims k) e * get (rowAt T1 (nv dk q)).e e
          else get (rowAt T1 (nv dk q)).e k := by
        intro k
        rw [hcol k]
        by_cases hc : e < k ∧ k < dims ∧ nlB dk k = true
        · rw [if_pos ⟨iK'.mpr heq, hc⟩, if_pos hc]
        · rw [if_neg (fun h => hc h.2), if_neg hc]
      intro p hp hpv
      rcases Nat.lt_or_ge q e with hlt | hge
      · rw [rowstep_oldU source dk dims hs e he _ _ _ fi (fun k hk => hsc k (Or.inl hk))
          (fun hv => a5 (iK.mpr hlt) hv) hcol' p hp hpv, hQ hlt p hp hpv]
        split <;> ring
      · have hqe : q = e := by omega
        subst hqe
        obtain ⟨b1, b2, b3⟩ := hB (Nat.le_refl _)
        rw [rowstep_newU source dk dims hs q he _ _ (fun k hk => by rw [hsc k (Or.inl hk), b1 k hk]; ring) hcol' p hp hpv]
        by_cases hpq : p = q
        · subst hpq
          rw [if_pos rfl, if_pos rfl, hsc p (Or.inr (Nat.le_refl _)), ← b2 hpv]; ring
        · rw [if_neg hpq, if_neg hpq]
    · obtain ⟨b1, b2, b3⟩ := hB (by omega)
      have hnot : ¬ nv dk q < K' := fun h => by have := iK'.mp h; omega
      have hent : ∀ k, get (rowAt T2 (nv dk q)).e k = get (rowAt T (nv dk q)).e k * fi := by
        intro k
        rw [hcol k, if_neg (fun h => hnot h.1), hsc k (Or.inr (by omega))]
      refine ⟨fun k hk => by rw [hent k, b1 k hk]; ring, fun hv => ?_, fun hv => ?_⟩
      · rw [hent q, ← b2 hv]; ring
      · rw [hent q, b3 hv]

end

end PPLV.Lattice.Red
