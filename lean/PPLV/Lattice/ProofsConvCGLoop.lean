import PPLV.Lattice.ProofsConvCGStep

/-!
# `Grid::conversion` (congruences → generators): the main loop and the matrix of products it leaves
-/
namespace PPLV.Lattice.Red

section
variable (source : List CRow) (dk : List Nat) (dims : Nat)

structure CGInv (d : Nat) (st : CGSt) : Prop where
  si : st.sourceIndex = nl dk dims - nl dk d
  di : st.destIndex = nv dk d
  len : st.dest.length = nv dk dims
  rows : ∃ L : Int, 0 < L ∧ ∀ q, q < dims → nvB dk q = true →
    GRowInv source dk dims d L q (rowAt st.dest (nv dk q))

def cgDimA (N : Nat) (st : CGSt) (dim : Nat) : List GRow × Nat :=
  if kind dk dim ≠ CON_VIRTUAL then
    ((dimsDown st.destIndex).foldl (cgDivideRow (get (rowAt source (st.sourceIndex - 1)).e dim) dim N) st.dest,
      st.sourceIndex - 1)
  else (st.dest, st.sourceIndex)

def cgDimK (st : CGSt) (dim : Nat) : Nat := if kind dk dim ≠ EQUALITY then st.destIndex + 1 else st.destIndex

theorem cgDim_eq (N : Nat) (st : CGSt) (dim : Nat) :
    cgDim source dk dims N st dim =
      { dest := ((List.range' (dim + 1) (dims - (dim + 1))).foldl (cgColStep source dk dim (cgDimK dk st dim))
          ((cgDimA source dk N st dim).2, (cgDimA source dk N st dim).1)).2,
        sourceIndex := (cgDimA source dk N st dim).2,
        destIndex := cgDimK dk st dim } := rfl

theorem cgDimA_spec (hs : CSrcOK dims source dk) (e : Nat) (he : e < dims) (st : CGSt)
    (h : CGInv source dk dims e st) :
    (cgDimA source dk (nv dk dims) st e).2 = nl dk dims - nl dk (e + 1) ∧
      GPhaseA dk e st.destIndex (cEnt source (pos dk dims e) e) st.dest (cgDimA source dk (nv dk dims) st e).1 := by
  obtain ⟨hsi, hdi, hlen, _⟩ := h
  have hm := cntBelow_mono (nlB dk) (show e + 1 ≤ dims from he)
  unfold cgDimA
  by_cases hv : kind dk e = CON_VIRTUAL
  · have hvb : nlB dk e = false := by simp [nlB, hv, CON_VIRTUAL, LINE]
    have e1 := cntBelow_succ_neg (nlB dk) e hvb
    simp only [hv, ne_eq, not_true_eq_false, if_false]
    refine ⟨by simp only [nl] at *; omega, rfl, 1, by omega, fun i _ => ?_⟩
    refine ⟨1, by omega, fun _ => rfl, rfl, rfl, fun k _ => by simp, fun _ hc => ?_, fun _ => by simp⟩
    rw [hvb] at hc; exact absurd hc (by simp)
  · have hvb : nlB dk e = true := by simpa [nlB, CON_VIRTUAL, LINE] using hv
    have e1 := cntBelow_succ_pos (nlB dk) e hvb
    have hsi' : st.sourceIndex - 1 = pos dk dims e := by simp only [pos, nl] at *; omega
    simp only [hv, ne_eq, not_false_eq_true, if_true]
    rw [hsi']
    refine ⟨rfl, ?_⟩
    have ha := hs.diag e he hvb
    obtain ⟨d1, f, hf, d2⟩ := cgDivPhase_spec (cEnt source (pos dk dims e) e) ha e st.destIndex (nv dk dims) st.dest hlen
      (by rw [hdi]; exact cntBelow_mono (nvB dk) (by omega))
    refine ⟨d1, f, hf, fun i hi => ?_⟩
    obtain ⟨fi, hfi, c1, c2, c3, c4, c5⟩ := d2 i hi
    refine ⟨fi, hfi, c1, c2, c3, fun k hk => c4 k (Or.inl hk), fun h1 _ => c5 (Nat.zero_le _) h1, fun hc => ?_⟩
    exact c4 e (Or.inr (fun h => hc ⟨h.2, hvb⟩))

theorem cgDimK_spec (e : Nat) (st : CGSt) (hdi : st.destIndex = nv dk e) :
    cgDimK dk st e = nv dk (e + 1) := by
  unfold cgDimK
  by_cases hl : kind dk e = EQUALITY
  · have hlb : nvB dk e = false := by simp [nvB, hl, EQUALITY, GEN_VIRTUAL]
    have e1 := cntBelow_succ_neg (nvB dk) e hlb
    simp only [hl, ne_eq, not_true_eq_false, if_false]
    simp only [nv] at *; omega
  · have hlb : nvB dk e = true := by simpa [nvB, EQUALITY, GEN_VIRTUAL] using hl
    have e1 := cntBelow_succ_pos (nvB dk) e hlb
    simp only [hl, ne_eq, not_false_eq_true, if_true]
    simp only [nv] at *; omega

/-- one turn of the conversion loop keeps the invariant -/
theorem cgDim_inv (hs : CSrcOK dims source dk) (e : Nat) (he : e < dims) (st : CGSt)
    (h : CGInv source dk dims e st) : CGInv source dk dims (e + 1) (cgDim source dk dims (nv dk dims) st e) := by
  obtain ⟨hA2, hA⟩ := cgDimA_spec source dk dims hs e he st h
  obtain ⟨hsi, hdi, hlen, L, hL, hrows⟩ := h
  have hK' := cgDimK_spec dk e st hdi
  have hrowlen : ∀ i, i < st.dest.length → (rowAt st.dest i).e.length = dims + 1 := by
    intro i hi
    obtain ⟨q, hq, hql, rfl⟩ := cntBelow_surj (nvB dk) dims i (by simp only [nv] at hlen; omega)
    exact (hrows q hq hql).len
  have hrowlen1 : ∀ i, i < (cgDimA source dk (nv dk dims) st e).1.length →
      (rowAt (cgDimA source dk (nv dk dims) st e).1 i).e.length = dims + 1 := by
    intro i hi
    rw [hA.len] at hi
    obtain ⟨f, _, hf⟩ := hA.ex
    obtain ⟨fi, _, _, _, c3, _⟩ := hf i hi
    rw [c3]; exact hrowlen i hi
  rw [cgDim_eq, hA2]
  have hC := cgColPhase_spec source dk dims e (cgDimK dk st e) (cgDimA source dk (nv dk dims) st e).1 he hrowlen1
  refine ⟨rfl, hK', ?_, ?_⟩
  · exact hC.len.trans (hA.len.trans hlen)
  · exact cgStep_rows source dk dims hs e he st.dest _ _ st.destIndex (cgDimK dk st e) hdi hK' hlen L hL hrows hA hC

end

/-! ### the whole loop -/

/-- the state after the conversion loop -/
def cgLoop (n : Nat) (source : List CRow) (dk : List Nat) : CGSt :=
  (List.range (n + 1)).foldl (cgDim source dk (n + 1) (cgCount source dk (n + 1)).2.1)
    { dest := cgInit source dk (n + 1) (cgCount source dk (n + 1)).1 (cgCount source dk (n + 1)).2.2,
      sourceIndex := (cgCount source dk (n + 1)).1, destIndex := 0 }

/-- the rows before the parameter divisors are written -/
def cgPreDiv (n : Nat) (source : List CRow) (dk : List Nat) : List GRow := cgReduce dk (n + 1) (cgLoop n source dk).dest

theorem conversionCgsToGens_eq (n : Nat) (source : List CRow) (dk : List Nat) :
    conversionCgsToGens n source dk =
      setDivisors dk (get (rowAt (cgPreDiv n source dk) 0).e 0) n ((cgPreDiv n source dk).length - 1)
        (cgPreDiv n source dk) := rfl

theorem cg_nvB_nlB_proper (dk : List Nat) (dims : Nat) (hk : ∀ d, d < dims → kind dk d ≤ 2) (q : Nat) (hq : q < dims)
    (hl : nvB dk q = true) :
    (nlB dk q = true ↔ kind dk q = PROPER_CONGRUENCE) ∧ (nlB dk q = false ↔ kind dk q = CON_VIRTUAL) := by
  have h2 := hk q hq
  have hne : kind dk q ≠ 2 := by simpa [nvB, GEN_VIRTUAL] using hl
  constructor
  · simp only [nlB, LINE, PROPER_CONGRUENCE, bne_iff_ne, ne_eq]; omega
  · simp only [nlB, LINE, CON_VIRTUAL, bne_eq_false_iff_eq]

theorem cgLoop_inv (n : Nat) (source : List CRow) (dk : List Nat) (hs : CSrcOK (n + 1) source dk)
    (hk : ∀ d, d < n + 1 → kind dk d ≤ 2) : CGInv source dk (n + 1) (n + 1) (cgLoop n source dk) := by
  obtain ⟨c0, c1, c2, c3⟩ := cgCount_spec source dk (n + 1) hs hk
  obtain ⟨i1, i2⟩ := cgInit_spec source dk (n + 1) (cgCount source dk (n + 1)).2.2 hk
  unfold cgLoop
  rw [c1, c0]
  refine cg_foldl_range_inv (cgDim source dk (n + 1) (nv dk (n + 1))) (fun d st => CGInv source dk (n + 1) d st) (n + 1) _ ?_ ?_
  · refine ⟨by simp [nl, cntBelow], rfl, i1, (cgCount source dk (n + 1)).2.2, c2, fun q hq hql => ?_⟩
    obtain ⟨k1, k2⟩ := cg_nvB_nlB_proper dk (n + 1) hk q hq hql
    obtain ⟨u1, u2⟩ := i2 q hq hql
    by_cases hv : nlB dk q = true
    · obtain ⟨m1, m2, m3⟩ := u2 (k1.mp hv)
      have hdiv := c3 q hq (k1.mp hv)
      have hSpos := hs.diag q hq hv
      have hquot : 0 < (cgCount source dk (n + 1)).2.2 / cEnt source (pos dk (n + 1) q) q := by
        have e := Int.ediv_mul_cancel hdiv
        by_contra hc
        have h1 : (cgCount source dk (n + 1)).2.2 / cEnt source (pos dk (n + 1) q) q ≤ 0 := by omega
        have := Int.mul_nonpos_of_nonpos_of_nonneg h1 (Int.le_of_lt hSpos)
        omega
      refine ⟨m2, fun h => by rw [hv] at h; exact absurd h (by simp), fun _ => m1, fun k hk' => ?_, ?_, ?_⟩
      · rw [m3 k, if_neg (by omega)]
      · rw [m3 q, if_pos rfl]; exact hquot
      · refine ⟨(cgCount source dk (n + 1)).2.2, c2, fun _ => rfl, fun h => by omega, fun _ => ⟨fun k hk' => ?_, fun _ => ?_, fun h => ?_⟩⟩
        · rw [m3 k, if_neg hk']
        · rw [m3 q, if_pos rfl]
          exact Int.ediv_mul_cancel (c3 q hq (k1.mp hv))
        · rw [hv] at h; exact absurd h (by simp)
    · have hv' : nlB dk q = false := by simpa using hv
      obtain ⟨m1, m2, m3⟩ := u1 (k2.mp hv')
      refine ⟨m2, fun _ => m1, fun h => absurd h hv, fun k hk' => ?_, ?_, ?_⟩
      · rw [m3 k, if_neg (by omega)]
      · rw [m3 q, if_pos rfl]; decide
      · refine ⟨1, by omega, fun h => absurd h hv, fun h => by omega, fun _ => ⟨fun k hk' => ?_, fun h => absurd h hv, fun _ => ?_⟩⟩
        · rw [m3 k, if_neg hk']
        · rw [m3 q, if_pos rfl]
  · intro d st hd h
    exact cgDim_inv source dk (n + 1) hs d hd st h

/-! ### the final rows -/

/-- a generator row of the result: `L` the common diagonal product, `D0` the inhomogeneous term of the point.
    `prod`: the products `g·source[pos p]` with the rows of the source. -/
structure GFinRow (source : List CRow) (dk : List Nat) (dims : Nat) (L D0 : Int) (q : Nat) (g : GRow) : Prop where
  len : g.e.length = dims + 1
  lnv : nlB dk q = false → g.line = true
  lnp : nlB dk q = true → g.line = false
  tri : ∀ k, k < q → get g.e k = 0
  diag : 0 < get g.e q
  c0 : q = 0 → get g.e 0 = D0
  prod : ∀ p, p < dims → nlB dk p = true →
    (kind dk p = EQUALITY → dotUpto g.e (rowAt source (pos dk dims p)).e dims = 0) ∧
    (nlB dk q = false → dotUpto g.e (rowAt source (pos dk dims p)).e dims = 0) ∧
    L ∣ dotUpto g.e (rowAt source (pos dk dims p)).e dims

structure GFinalOK (source : List CRow) (dk : List Nat) (dims : Nat) (L D0 : Int) (T : List GRow) : Prop where
  len : T.length = nv dk dims
  rows : ∀ q, q < dims → nvB dk q = true → GFinRow source dk dims L D0 q (rowAt T (nv dk q))

/-- after the conversion loop the matrix of products is `L` times the identity; `L = D0 · source[last][0]` with
    `D0 = dest[0][0]` -/
theorem cgLoop_diagFinal (n : Nat) (source : List CRow) (dk : List Nat) (hs : CSrcOK (n + 1) source dk)
    (hk : ∀ d, d < n + 1 → kind dk d ≤ 2) (h0 : kind dk 0 = PROPER_CONGRUENCE) :
    ∃ L D0 : Int, 0 < D0 ∧ D0 * cEnt source (pos dk (n + 1) 0) 0 = L ∧
      GFinalOK source dk (n + 1) L D0 (cgLoop n source dk).dest ∧ 0 < L ∧
      ∀ q, q < n + 1 → nvB dk q = true → ∀ p, p < n + 1 → nlB dk p = true →
        dotUpto (rowAt (cgLoop n source dk).dest (nv dk q)).e (rowAt source (pos dk (n + 1) p)).e (n + 1) =
          if p = q then L else 0 := by
  obtain ⟨_, _, hlen, L, hL, hrows⟩ := cgLoop_inv n source dk hs hk
  have hl0 : nlB dk 0 = true := by simp [nlB, h0, PROPER_CONGRUENCE, LINE]
  have hv0 : nvB dk 0 = true := by simp [nvB, h0, PROPER_CONGRUENCE, GEN_VIRTUAL]
  have hnv0 : nv dk 0 = 0 := rfl
  -- the products of the rows
  have hprods : ∀ q, q < n + 1 → nvB dk q = true → ∀ p, p < n + 1 → nlB dk p = true →
      dotUpto (rowAt (cgLoop n source dk).dest (nv dk q)).e (rowAt source (pos dk (n + 1) p)).e (n + 1) =
        if p = q then L else 0 := by
    intro q hq hql p hp hpv
    obtain ⟨lam, _, hlamL, hQ, _⟩ := (hrows q hq hql).ex
    have := hQ hq p hp hpv
    unfold Qu at this
    rw [if_neg (by omega)] at this
    by_cases hpq : p = q
    · subst hpq
      rw [if_pos rfl] at this ⊢
      rw [← hlamL hpv]
      linear_combination this
    · rw [if_neg hpq] at this ⊢
      linear_combination this
  have R0 := hrows 0 (by omega) hv0
  refine ⟨L, get (rowAt (cgLoop n source dk).dest (nv dk 0)).e 0, R0.diag, ?_, ⟨hlen, fun q hq hql => ?_⟩, hL, hprods⟩
  · have hp := hprods 0 (by omega) hv0 0 (by omega) hl0
    rw [if_pos rfl] at hp
    rw [← hp, cg_dotUpto_comm]
    -- the source row of column 0 vanishes after column 0
    have hz : ∀ m, m ≤ n → dotUpto (rowAt source (pos dk (n + 1) 0)).e (rowAt (cgLoop n source dk).dest (nv dk 0)).e (m + 1) =
        get (rowAt source (pos dk (n + 1) 0)).e 0 * get (rowAt (cgLoop n source dk).dest (nv dk 0)).e 0 := by
      intro m
      induction m with
      | zero => intro _; simp [dotUpto]
      | succ m ih =>
        intro hm
        rw [dotUpto_succ, ih (by omega)]
        have := hs.zeros 0 (by omega) hl0 (m + 1) (by omega) (by omega)
        simp only [cEnt] at this
        rw [this]; ring
    rw [hz n (Nat.le_refl _)]
    simp only [cEnt]; ring
  · have R := hrows q hq hql
    refine ⟨R.len, R.lnv, R.lnp, R.tri, R.diag, fun h => by subst h; rfl, fun p hp hpv => ?_⟩
    rw [hprods q hq hql p hp hpv]
    refine ⟨fun heq => ?_, fun hqv => ?_, ?_⟩
    · rw [if_neg]
      intro hpq; subst hpq
      simp [nvB, heq, EQUALITY, GEN_VIRTUAL] at hql
    · rw [if_neg]
      intro hpq; subst hpq
      rw [hpv] at hqv; exact absurd hqv (by simp)
    · by_cases hpq : p = q
      · rw [if_pos hpq]
      · rw [if_neg hpq]; exact Int.dvd_zero _

theorem cgLoop_final (n : Nat) (source : List CRow) (dk : List Nat) (hs : CSrcOK (n + 1) source dk)
    (hk : ∀ d, d < n + 1 → kind dk d ≤ 2) (h0 : kind dk 0 = PROPER_CONGRUENCE) :
    ∃ L D0 : Int, 0 < D0 ∧ D0 * cEnt source (pos dk (n + 1) 0) 0 = L ∧
      GFinalOK source dk (n + 1) L D0 (cgLoop n source dk).dest := by
  obtain ⟨L, D0, h1, h2, h3, _⟩ := cgLoop_diagFinal n source dk hs hk h0
  exact ⟨L, D0, h1, h2, h3⟩

end PPLV.Lattice.Red
