import PPLV.Lattice.ProofsGridOpsGen19

/-!
# Generator side of the `Grid` object, part 20 — one generator against a congruence system: `satisfies_all_congruences(g)`
# says that the solution set contains the point / absorbs the parameter / absorbs the line
-/
namespace PPLV.Lattice.GO
open PPLV.Lattice PPLV.Lattice.Red

theorem gn_alpha_shift (c : Row) (hc : 0 < c.length) (v : Pt) :
    alphaOf (ratRow c) (shift v) = dotF (ratRow c).tail v := by
  cases c with
  | nil => simp at hc
  | cons a c =>
    have : ratRow (a :: c) = (a : ℚ) :: ratRow c := rfl
    rw [alphaOf_apply, this, dotF_cons, List.tail_cons]
    have e : Pt.tail (shift v) = v := by funext i; rfl
    rw [e]; simp [shift]

theorem gn_toCg_sem_iff (c : CRow) (x : Pt) :
    c.toCg.sem x ↔ ∃ t : Int, dotF (ratRow c.e).tail x + (get c.e 0 : ℚ) = (t : ℚ) * (c.m : ℚ) := Iff.rfl

/-- if every rational multiple of `β` is an integer multiple of `m`, then `β = 0` -/
theorem gn_half_trick (β m : ℚ) (h : ∀ q : ℚ, ∃ t : Int, q * β = (t : ℚ) * m) : β = 0 := by
  by_contra hβ
  by_cases hm : m = 0
  · obtain ⟨t, ht⟩ := h 1
    rw [hm] at ht; simp at ht; exact hβ ht
  · obtain ⟨t, ht⟩ := h (m / (2 * β))
    have e : m / (2 * β) * β = m / 2 := by field_simp
    rw [e] at ht
    have h3 : m * (1 - 2 * (t : ℚ)) = 0 := by linear_combination 2 * ht
    rcases mul_eq_zero.mp h3 with q | q
    · exact hm q
    · have h2 : (2 : ℚ) * (t : ℚ) = 1 := by linarith
      have h4 : (2 : Int) * t = 1 := by exact_mod_cast h2
      omega

/-- a point row against one congruence row -/
theorem gn_cert_pt {n : Nat} (c : CRow) (hc : c.e.length = n + 1) (g : GRow) (hlen : g.e.length = n + 2)
    (hp : gn_isPt g = true) : CertPair n (get g.e 0) c g ↔ c.toCg.sem (gn_vecOf g) := by
  obtain ⟨hl, h0⟩ := (gn_isPt_iff g).mp hp
  have hDq : ((get g.e 0 : Int) : ℚ) ≠ 0 := by exact_mod_cast h0
  have key : ((dotRow c.e g.e n : Int) : ℚ) =
      ((get g.e 0 : Int) : ℚ) * (dotF (ratRow c.e).tail (gn_vecOf g) + (get c.e 0 : ℚ)) := by
    rw [← alphaOf_hvec n c.e hc, hvec_point n g (get g.e 0) h0 rfl, alphaOf_homog c.e (by omega), gn_vecOf_pt hlen hp]
  unfold CertPair
  rw [if_neg (by rw [hl]; simp), gn_toCg_sem_iff]
  constructor
  · rintro ⟨t, ht⟩
    refine ⟨t, ?_⟩
    have : ((dotRow c.e g.e n : Int) : ℚ) = ((get g.e 0 * c.m * t : Int) : ℚ) := by rw [ht]
    rw [key] at this
    push_cast at this
    have h2 : ((get g.e 0 : Int) : ℚ) * (dotF (ratRow c.e).tail (gn_vecOf g) + (get c.e 0 : ℚ))
        = ((get g.e 0 : Int) : ℚ) * ((t : ℚ) * (c.m : ℚ)) := by rw [this]; ring
    exact mul_left_cancel₀ hDq h2
  · rintro ⟨t, ht⟩
    refine ⟨t, ?_⟩
    have : ((dotRow c.e g.e n : Int) : ℚ) = ((get g.e 0 * c.m * t : Int) : ℚ) := by
      rw [key, ht]; push_cast; ring
    exact_mod_cast this

/-- a parameter row against one congruence row: the value of the homogeneous form on the vector is in `m ℤ` -/
theorem gn_cert_par {n : Nat} (c : CRow) (hc : c.e.length = n + 1) (g : GRow) (hlen : g.e.length = n + 2)
    (hp : gn_isPar g = true) (hd : g.divisor ≠ 0) :
    CertPair n g.divisor c g ↔ ∃ t : Int, dotF (ratRow c.e).tail (gn_vecOf g) = (t : ℚ) * (c.m : ℚ) := by
  obtain ⟨hl, h0⟩ := (gn_isPar_iff g).mp hp
  have hdv := divisor_param n g hlen h0
  have hDq : ((g.divisor : Int) : ℚ) ≠ 0 := by exact_mod_cast hd
  have key : ((dotRow c.e g.e n : Int) : ℚ) = ((g.divisor : Int) : ℚ) * dotF (ratRow c.e).tail (gn_vecOf g) := by
    rw [← alphaOf_hvec n c.e hc, hvec_dir n g ((g.divisor : Int) : ℚ) hDq h0, map_smul, smul_eq_mul,
      gn_alpha_shift c.e (by omega), gn_vecOf_par hlen hp, hdv]
  unfold CertPair
  rw [if_neg (by rw [hl]; simp)]
  constructor
  · rintro ⟨t, ht⟩
    refine ⟨t, ?_⟩
    have : ((dotRow c.e g.e n : Int) : ℚ) = ((g.divisor * c.m * t : Int) : ℚ) := by rw [ht]
    rw [key] at this
    push_cast at this
    have h2 : ((g.divisor : Int) : ℚ) * dotF (ratRow c.e).tail (gn_vecOf g)
        = ((g.divisor : Int) : ℚ) * ((t : ℚ) * (c.m : ℚ)) := by rw [this]; ring
    exact mul_left_cancel₀ hDq h2
  · rintro ⟨t, ht⟩
    refine ⟨t, ?_⟩
    have : ((dotRow c.e g.e n : Int) : ℚ) = ((g.divisor * c.m * t : Int) : ℚ) := by
      rw [key, ht]; push_cast; ring
    exact_mod_cast this

/-- a line row against one congruence row: the homogeneous form vanishes on the vector -/
theorem gn_cert_line {n : Nat} (D : Int) (c : CRow) (hc : c.e.length = n + 1) (g : GRow) (hlen : g.e.length = n + 2)
    (hl : g.line = true) (h0 : get g.e 0 = 0) :
    CertPair n D c g ↔ dotF (ratRow c.e).tail (gn_vecOf g) = 0 := by
  have key : ((dotRow c.e g.e n : Int) : ℚ) = dotF (ratRow c.e).tail (gn_vecOf g) := by
    have e := hvec_dir n g 1 one_ne_zero h0
    rw [one_smul] at e
    rw [← alphaOf_hvec n c.e hc, e, gn_alpha_shift c.e (by omega), gn_vecOf_line hlen hl]
  unfold CertPair
  rw [if_pos hl, ← key]
  exact ⟨fun h => by rw [h]; simp, fun h => by exact_mod_cast h⟩

/-! ### against the whole solution set -/

/-- a non-empty solution set absorbs the integer multiples of `v` iff every homogeneous form has a value in `m ℤ` on `v` -/
theorem gn_absorb_par_iff {n : Nat} {cs : List CRow} (hne : (consSet n cs).Nonempty) (v : Pt) (hv : Supp n v) :
    (∀ c ∈ cs, ∃ t : Int, dotF (ratRow c.e).tail v = (t : ℚ) * (c.m : ℚ)) ↔
    ∀ a ∈ consSet n cs, ∀ k : Int, a + (k : ℚ) • v ∈ consSet n cs := by
  constructor
  · intro h a ha k
    rw [cn_mem_consSet] at ha ⊢
    refine ⟨fun i hi => by simp [ha.1 i hi, hv i hi], fun c hc => ?_⟩
    obtain ⟨t0, ht0⟩ := (gn_toCg_sem_iff c a).mp (ha.2 c hc)
    obtain ⟨t, ht⟩ := h c hc
    refine (gn_toCg_sem_iff c _).mpr ⟨t0 + k * t, ?_⟩
    rw [dotF_add, dotF_smul, ht]; push_cast; linear_combination ht0
  · intro h c hc
    obtain ⟨a, ha⟩ := hne
    have h1 := h a ha 1
    rw [cn_mem_consSet] at ha h1
    obtain ⟨t0, ht0⟩ := (gn_toCg_sem_iff c a).mp (ha.2 c hc)
    obtain ⟨t1, ht1⟩ := (gn_toCg_sem_iff c _).mp (h1.2 c hc)
    refine ⟨t1 - t0, ?_⟩
    rw [dotF_add, dotF_smul] at ht1
    push_cast at ht1 ⊢
    linear_combination ht1 - ht0

/-- … the rational multiples iff every homogeneous form vanishes on `v` -/
theorem gn_absorb_line_iff {n : Nat} {cs : List CRow} (hne : (consSet n cs).Nonempty) (v : Pt) (hv : Supp n v) :
    (∀ c ∈ cs, dotF (ratRow c.e).tail v = 0) ↔ ∀ a ∈ consSet n cs, ∀ q : ℚ, a + q • v ∈ consSet n cs := by
  constructor
  · intro h a ha q
    rw [cn_mem_consSet] at ha ⊢
    refine ⟨fun i hi => by simp [ha.1 i hi, hv i hi], fun c hc => ?_⟩
    obtain ⟨t0, ht0⟩ := (gn_toCg_sem_iff c a).mp (ha.2 c hc)
    refine (gn_toCg_sem_iff c _).mpr ⟨t0, ?_⟩
    rw [dotF_add, dotF_smul, h c hc]; linear_combination ht0
  · intro h c hc
    obtain ⟨a, ha⟩ := hne
    refine gn_half_trick _ (c.m : ℚ) fun q => ?_
    have h1 := h a ha q
    rw [cn_mem_consSet] at ha h1
    obtain ⟨t0, ht0⟩ := (gn_toCg_sem_iff c a).mp (ha.2 c hc)
    obtain ⟨t1, ht1⟩ := (gn_toCg_sem_iff c _).mp (h1.2 c hc)
    refine ⟨t1 - t0, ?_⟩
    rw [dotF_add, dotF_smul] at ht1
    push_cast
    linear_combination ht1 - ht0

end PPLV.Lattice.GO
