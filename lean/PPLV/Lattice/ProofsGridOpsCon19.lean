import PPLV.Lattice.ProofsGridOpsGen6
import PPLV.Lattice.ProofsDims

/-!
# `Grid` stage 3, part 19: a row-wise map of a generator system that acts on the vectors as a linear map yields the image
# of the grid; `Grid_Generator_System::remove_space_dimensions(vars)` erases columns = the coordinate selection
# `coordMap (fun j => keep[j]?)` (K2's `selectCoords keep`)
-/
namespace PPLV.Lattice.GO
open PPLV.Lattice PPLV.Lattice.Red

/-! ### images -/

theorem cn_gn_set_image (rows : List GRow) (f : GRow → GRow) (π : Pt →ₗ[ℚ] Pt)
    (hpt : ∀ r ∈ rows, gn_isPt (f r) = gn_isPt r) (hpar : ∀ r ∈ rows, gn_isPar (f r) = gn_isPar r)
    (hline : ∀ r ∈ rows, (f r).line = r.line) (hv : ∀ r ∈ rows, gn_vecOf (f r) = π (gn_vecOf r)) :
    gn_set (rows.map f) = π '' gn_set rows := by
  have fwd : ∀ w, gn_Dir (rows.map f) w → ∃ v, gn_Dir rows v ∧ w = π v := by
    intro w hw
    refine gn_dir_le (S := fun w => ∃ v, gn_Dir rows v ∧ w = π v) ⟨0, gn_dir_zero _, by simp⟩ ?_ ?_ ?_ ?_ ?_ hw
    · rintro _ _ ⟨v1, h1, rfl⟩ ⟨v2, h2, rfl⟩; exact ⟨v1 + v2, gn_dir_add h1 h2, by simp⟩
    · rintro k _ ⟨v, h, rfl⟩; exact ⟨(k : ℚ) • v, gn_dir_zsmul k h, by simp⟩
    · intro r1' h1 p1 r2' h2 p2
      obtain ⟨r1, m1, rfl⟩ := List.mem_map.mp h1
      obtain ⟨r2, m2, rfl⟩ := List.mem_map.mp h2
      rw [hpt r1 m1] at p1; rw [hpt r2 m2] at p2
      exact ⟨_, gn_dir_ptdiff m1 p1 m2 p2, by rw [hv r1 m1, hv r2 m2]; simp⟩
    · intro r' h p
      obtain ⟨r, m, rfl⟩ := List.mem_map.mp h
      rw [hpar r m] at p
      exact ⟨_, gn_dir_par m p, hv r m⟩
    · intro r' h p c
      obtain ⟨r, m, rfl⟩ := List.mem_map.mp h
      rw [hline r m] at p
      exact ⟨_, gn_dir_line m p c, by rw [hv r m]; simp⟩
  have bwd : ∀ v, gn_Dir rows v → gn_Dir (rows.map f) (π v) := by
    intro v hv'
    refine gn_dir_le (S := fun v => gn_Dir (rows.map f) (π v)) (by simpa using gn_dir_zero _) ?_ ?_ ?_ ?_ ?_ hv'
    · intro v w h1 h2; simpa using gn_dir_add h1 h2
    · intro k v h; simpa using gn_dir_zsmul k h
    · intro r1 m1 p1 r2 m2 p2
      have := gn_dir_ptdiff (List.mem_map_of_mem m1) (by rw [hpt r1 m1]; exact p1) (List.mem_map_of_mem m2)
        (by rw [hpt r2 m2]; exact p2) (rows := rows.map f) (r1 := f r1) (r2 := f r2)
      rw [hv r1 m1, hv r2 m2] at this; simpa using this
    · intro r m p
      have := gn_dir_par (List.mem_map_of_mem m) (by rw [hpar r m]; exact p) (rows := rows.map f) (r := f r)
      rwa [hv r m] at this
    · intro r m p c
      have := gn_dir_line (List.mem_map_of_mem m) (by rw [hline r m]; exact p) c (rows := rows.map f) (r := f r)
      rw [hv r m] at this; simpa using this
  ext y
  simp only [gn_set, Set.mem_image, Set.mem_ofPred_eq]
  constructor
  · rintro ⟨r', h, p, d⟩
    obtain ⟨r, m, rfl⟩ := List.mem_map.mp h
    rw [hpt r m] at p
    obtain ⟨v, dv, e⟩ := fwd _ d
    refine ⟨gn_vecOf r + v, gn_mem_add_dir (gn_mem_pt m p) dv, ?_⟩
    rw [map_add, ← hv r m, ← e]; module
  · rintro ⟨x, ⟨r, m, p, d⟩, rfl⟩
    refine ⟨f r, List.mem_map_of_mem m, by rw [hpt r m]; exact p, ?_⟩
    have := bwd _ d
    rwa [map_sub, ← hv r m] at this

/-! ### the kept coordinates -/

/-- the coordinates that survive `remove_space_dimensions(vars)`, in order -/
def cn_keep (n : Nat) (vars : List Nat) : List Nat := (List.range n).filter fun k => !vars.contains k

/-- the coordinate selection (K2's `selectCoords (cn_keep n vars)`) -/
noncomputable def cn_sel (n : Nat) (vars : List Nat) : Pt →ₗ[ℚ] Pt := coordMap (fun j => (cn_keep n vars)[j]?)

theorem cn_keep_lt (n : Nat) (vars : List Nat) (k : Nat) (h : k ∈ cn_keep n vars) : k < n := by
  unfold cn_keep at h; exact List.mem_range.mp (List.mem_of_mem_filter h)

theorem cn_keep_length (n : Nat) (vars : List Nat) (hnd : vars.Nodup) (hlt : ∀ v ∈ vars, v < n) :
    (cn_keep n vars).length = n - vars.length := by
  have h1 := List.length_eq_length_filter_add (l := List.range n) (fun k => vars.contains k)
  have h2 : ((List.range n).filter fun k => vars.contains k).length = vars.length := by
    apply List.Perm.length_eq
    rw [List.perm_ext_iff_of_nodup (List.Nodup.filter _ List.nodup_range) hnd]
    intro a
    simp only [List.mem_filter, List.mem_range, List.contains_iff_mem]
    exact ⟨fun h => h.2, fun h => ⟨hlt a h, h⟩⟩
  rw [List.length_range, h2] at h1
  unfold cn_keep
  omega

theorem cn_keep_nil (n : Nat) : cn_keep n [] = List.range n := by
  unfold cn_keep; simp

theorem cn_sel_nil (n : Nat) (x : Pt) (hx : Supp n x) : cn_sel n [] x = x := by
  funext j
  unfold cn_sel
  rw [coordMap_apply, cn_keep_nil]
  by_cases hj : j < n
  · simp [hj]
  · simp [hj, hx j (by omega)]

theorem cn_sel_supp (n : Nat) (vars : List Nat) (x : Pt) : Supp (cn_keep n vars).length (cn_sel n vars x) := by
  intro j hj
  unfold cn_sel
  rw [coordMap_apply, List.getElem?_eq_none hj]

/-! ### `Grid_Generator_System::remove_space_dimensions` on one row -/

/-- the row with the columns of `vars` erased -/
def cn_rmRow (vars : List Nat) (g : GRow) : GRow :=
  { g with e := ((List.range g.e.length).filter fun i => !(i ≥ 1 ∧ vars.contains (i - 1))).map (Red.get g.e) }

theorem cn_GSys_remove_eq (s : GSys) (vars : List Nat) :
    s.removeSpaceDimensions vars = { dim := s.dim - vars.length, rows := s.rows.map (cn_rmRow vars) } := rfl

theorem cn_rmRow_e (vars : List Nat) (g : GRow) (n : Nat) (hlen : g.e.length = n + 2) (hlt : ∀ v ∈ vars, v < n) :
    (cn_rmRow vars g).e = Red.get g.e 0 :: ((cn_keep n vars).map (fun k => Red.get g.e (k + 1)) ++ [Red.get g.e (n + 1)]) := by
  unfold cn_rmRow cn_keep
  simp only [hlen]
  have hn : n ∉ vars := fun h => absurd (hlt n h) (by omega)
  rw [show n + 2 = (n + 1) + 1 by omega, List.range_succ_eq_map, List.filter_cons_of_pos (by simp), List.map_cons,
    List.filter_map, List.map_map, List.range_succ, List.filter_append, List.map_append]
  congr 1
  congr 1
  · rw [List.map_filter_eq_foldr, List.map_filter_eq_foldr]
    congr 1
    funext k acc
    simp [Function.comp]
  · simp [Function.comp, hn]

theorem cn_rmRow_length (vars : List Nat) (g : GRow) (n : Nat) (hlen : g.e.length = n + 2) (hlt : ∀ v ∈ vars, v < n) :
    (cn_rmRow vars g).e.length = (cn_keep n vars).length + 2 := by
  rw [cn_rmRow_e vars g n hlen hlt]; simp

theorem cn_rmRow_get0 (vars : List Nat) (g : GRow) (n : Nat) (hlen : g.e.length = n + 2) (hlt : ∀ v ∈ vars, v < n) :
    Red.get (cn_rmRow vars g).e 0 = Red.get g.e 0 := by
  rw [cn_rmRow_e vars g n hlen hlt]; rfl

theorem cn_rmRow_getMid (vars : List Nat) (g : GRow) (n : Nat) (hlen : g.e.length = n + 2) (hlt : ∀ v ∈ vars, v < n)
    (j : Nat) (hj : j < (cn_keep n vars).length) :
    Red.get (cn_rmRow vars g).e (j + 1) = Red.get g.e ((cn_keep n vars)[j] + 1) := by
  rw [cn_rmRow_e vars g n hlen hlt, get_cons_succ]
  unfold Red.get
  rw [List.getD_eq_getElem?_getD, List.getElem?_append_left (by simpa using hj), List.getElem?_map,
    List.getElem?_eq_getElem hj]
  rfl

theorem cn_rmRow_getLast (vars : List Nat) (g : GRow) (n : Nat) (hlen : g.e.length = n + 2) (hlt : ∀ v ∈ vars, v < n) :
    Red.get (cn_rmRow vars g).e ((cn_keep n vars).length + 1) = Red.get g.e (n + 1) := by
  rw [cn_rmRow_e vars g n hlen hlt, get_cons_succ]
  unfold Red.get
  rw [List.getD_eq_getElem?_getD, List.getElem?_append_right (by simp)]
  simp

theorem cn_rmRow_divisor (vars : List Nat) (g : GRow) (n : Nat) (hlen : g.e.length = n + 2) (hlt : ∀ v ∈ vars, v < n) :
    (cn_rmRow vars g).divisor = g.divisor := by
  have hl' := cn_rmRow_length vars g n hlen hlt
  have h0 := cn_rmRow_get0 vars g n hlen hlt
  by_cases hz : Red.get g.e 0 = 0
  · rw [divisor_param _ _ hl' (by rw [h0]; exact hz), divisor_param n g hlen hz, cn_rmRow_getLast vars g n hlen hlt]
  · rw [divisor_point _ (by rw [h0]; exact hz), divisor_point g hz, h0]

/-- on the vectors, erasing the columns is the coordinate selection -/
theorem cn_rmRow_vecOf (vars : List Nat) (g : GRow) (n : Nat) (hlen : g.e.length = n + 2) (hlt : ∀ v ∈ vars, v < n) :
    gn_vecOf (cn_rmRow vars g) = cn_sel n vars (gn_vecOf g) := by
  have hl' := cn_rmRow_length vars g n hlen hlt
  funext j
  unfold cn_sel
  rw [coordMap_apply]
  unfold gn_vecOf
  rw [gn_spaceDim_of_len hl', gn_spaceDim_of_len hlen, cn_rmRow_divisor vars g n hlen hlt]
  have hline : (cn_rmRow vars g).line = g.line := rfl
  rw [hline]
  by_cases hj : j < (cn_keep n vars).length
  · rw [if_pos hj, List.getElem?_eq_getElem hj]
    simp only
    rw [if_pos (cn_keep_lt n vars _ (List.getElem_mem hj)), cn_rmRow_getMid vars g n hlen hlt j hj]
  · rw [if_neg hj, List.getElem?_eq_none (by omega)]

/-- the system after `remove_space_dimensions(vars)`: shape, normalised divisors, the selected grid -/
theorem cn_rm_rows (n : Nat) (D : Int) (rows : List GRow) (vars : List Nat) (hw : GWf n rows) (hN : GNorm n D rows)
    (hlt : ∀ v ∈ vars, v < n) :
    GWf (cn_keep n vars).length (rows.map (cn_rmRow vars)) ∧ GNorm (cn_keep n vars).length D (rows.map (cn_rmRow vars)) ∧
    gn_set (rows.map (cn_rmRow vars)) = cn_sel n vars '' gn_set rows := by
  have h0 : ∀ r ∈ rows, Red.get (cn_rmRow vars r).e 0 = Red.get r.e 0 := fun r hr => cn_rmRow_get0 vars r n (hw r hr) hlt
  refine ⟨?_, ?_, ?_⟩
  · intro r' hr'
    obtain ⟨r, hr, rfl⟩ := List.mem_map.mp hr'
    exact cn_rmRow_length vars r n (hw r hr) hlt
  · refine ⟨hN.pos, ?_, ?_, ?_, ?_⟩
    · obtain ⟨r, hr, hl, h⟩ := hN.pt
      exact ⟨_, List.mem_map_of_mem hr, hl, by rw [h0 r hr]; exact h⟩
    · intro r' hr' hl
      obtain ⟨r, hr, rfl⟩ := List.mem_map.mp hr'
      rw [h0 r hr]; exact hN.col0 r hr hl
    · intro r' hr' hl hz
      obtain ⟨r, hr, rfl⟩ := List.mem_map.mp hr'
      rw [h0 r hr] at hz
      rw [cn_rmRow_getLast vars r n (hw r hr) hlt]; exact hN.par r hr hl hz
    · intro r' hr' hl
      obtain ⟨r, hr, rfl⟩ := List.mem_map.mp hr'
      rw [h0 r hr]; exact hN.lin r hr hl
  · refine cn_gn_set_image rows (cn_rmRow vars) (cn_sel n vars) ?_ ?_ (fun _ _ => rfl)
      (fun r hr => cn_rmRow_vecOf vars r n (hw r hr) hlt)
    · intro r hr
      have hl : (cn_rmRow vars r).line = r.line := rfl
      unfold gn_isPt; rw [h0 r hr, hl]
    · intro r hr
      have hl : (cn_rmRow vars r).line = r.line := rfl
      unfold gn_isPar; rw [h0 r hr, hl]

example : (GSys.mk 3 [⟨false, [2, 1, 3, 5, 0]⟩, ⟨true, [0, 0, 1, 0, 0]⟩]).removeSpaceDimensions [1] =
    GSys.mk 2 [⟨false, [2, 1, 5, 0]⟩, ⟨true, [0, 0, 0, 0]⟩] ∧ cn_keep 3 [1] = [0, 2] := by decide

end PPLV.Lattice.GO
