import PPLV.Lattice.ProofsGridOpsCon28
import PPLV.Lattice.ProofsGridOpsLazy23

/-!
# `Grid` stage 3, part 36: `expand_space_dimension(var, m)` on every invariant state (with
# `addSpaceDimensionsAndEmbed_full` of the lazy family)
-/
namespace PPLV.Lattice.GO
open PPLV.Lattice PPLV.Lattice.Red

/-- Grid_chdims.cc:402 `expand_space_dimension(var, m)`: throws exactly when `var` is not a dimension of the grid (object
    unchanged); `m = 0` changes nothing; otherwise the grid becomes `cn_expandSet n var m g.sem` in dimension `n + m` -/
theorem cn_expandSpaceDimension (g : Grid) (v m : Nat) (hI : GridInv g) :
    ((expandSpaceDimension g v m).thrown = true ↔ g.spaceDim < v + 1) ∧
    ((expandSpaceDimension g v m).thrown = true → (expandSpaceDimension g v m).g = g) ∧
    (v < g.spaceDim → m = 0 → (expandSpaceDimension g v m).g = g) ∧
    (v < g.spaceDim → 0 < m → GridInv (expandSpaceDimension g v m).g ∧
      (expandSpaceDimension g v m).g.spaceDim = g.spaceDim + m ∧
      (expandSpaceDimension g v m).g.sem = cn_expandSet g.spaceDim v m g.sem) := by
  by_cases hv : g.spaceDim < v + 1
  · obtain ⟨a, b⟩ := cn_expand_thrown g v m hv
    exact ⟨⟨fun _ => hv, fun _ => a⟩, fun _ => b, (fun h => by omega), (fun h => by omega)⟩
  · have hv' : v < g.spaceDim := by omega
    by_cases hm : m = 0
    · subst hm
      obtain ⟨a, b⟩ := cn_expand_zero g v hv'
      exact ⟨⟨(fun h => by rw [a] at h; cases h), fun h => absurd h hv⟩, fun _ => b, fun _ _ => b, (fun _ h => by omega)⟩
    · obtain ⟨a, b, c, d⟩ := cn_expandSpaceDimension_partial g v m hv' (by omega) (addSpaceDimensionsAndEmbed_full g m hI)
      exact ⟨⟨(fun h => by rw [a] at h; cases h), fun h => absurd h hv⟩, (fun h => by rw [a] at h; cases h),
        fun _ h => absurd h hm, fun _ _ => ⟨b, c, d⟩⟩

end PPLV.Lattice.GO
