import PPLV.Lattice.ProofsGridOpsLazy2
import PPLV.Lattice.ProofsGridOpsLazy3

/-!
# The `Grid` object, lazy machinery — part 4: `simplify` of one description while the other one stays

`dim_kinds` is SHARED by the two descriptions.  When one of them is flagged minimized and `simplify` runs on the other
one, `dim_kinds` is overwritten with the kinds computed from the other description, and the class keeps relying on it
for the first one.  This is sound because the kinds of the two (dual) triangular forms of one grid coincide; that
duality fact is isolated in `DkCompatG` / `DkCompatC` below.
-/
namespace PPLV.Lattice.GO
open PPLV.Lattice PPLV.Lattice.Red

/-- **duality of the triangular forms, generator side computed**: a congruence system in lower triangular form for
    some `dim_kinds` is also in lower triangular form for the `dim_kinds` that `simplify` computes from generators of
    the same grid (mathematical content: `d` is a `CON_VIRTUAL` dimension of the triangular congruence system iff the
    line space of the grid has a vector whose first non-zero coordinate is `d` iff `d` is a `LINE` dimension of the
    triangular generator system). -/
def DkCompatG : Prop :=
  ∀ (n : Nat) (con : List CRow) (dkc : List Nat) (gen : List GRow) (dk0 : List Nat) (D : Int),
    0 < n → CWf n con → dkc.length = n + 1 → lowerTriangular n con dkc = true → kind dkc 0 = PROPER_CONGRUENCE →
    GWf n gen → GNorm n D gen → consSet n con = gensSet n gen →
    lowerTriangular n con (simplifyGens n gen dk0).2 = true

/-- **duality of the triangular forms, congruence side computed**: a generator system in upper triangular form for
    some `dim_kinds` is also in upper triangular form for the `dim_kinds` that `simplify` computes from congruences of
    the same grid (`d` is a `GEN_VIRTUAL` dimension iff no vector of the homogeneous lattice has its first non-zero
    coordinate at `d` iff `d` is an `EQUALITY` dimension of the triangular congruence system). -/
def DkCompatC : Prop :=
  ∀ (n : Nat) (con : List CRow) (dk0 : List Nat) (gen : List GRow) (dkg : List Nat) (D : Int),
    0 < n → CWf n con → (simplifyCgs n con dk0).2.2 = false →
    GWf n gen → GNorm n D gen → dkg.length = n + 1 → upperTriangular n gen dkg = true → kind dkg 0 = PARAMETER →
    consSet n con = gensSet n gen →
    upperTriangular n gen (simplifyCgs n con dk0).2.1 = true

/-- `simplify(con_sys, dim_kinds)` answered "consistent", then `set_congruences_minimized()`; when the generators
    are flagged minimized they have to be triangular for the new `dim_kinds` -/
theorem lz_simplifyCon_post (g : Grid) (hI : GridInv g) (he : g.st.empty = false) (hpos : 0 < g.spaceDim)
    (hc : g.st.cUp = true) (hf : (simplifyCgs g.spaceDim g.con g.dk).2.2 = false)
    (hut : g.st.gMin = true → upperTriangular g.spaceDim g.gen (simplifyCgs g.spaceDim g.con g.dk).2.1 = true) :
    let r := ({ g with con := (simplifyCgs g.spaceDim g.con g.dk).1,
                       dk := (simplifyCgs g.spaceDim g.con g.dk).2.1 } : Grid).setCongruencesMinimized
    GridInv r ∧ r.sem = g.sem ∧ (g.sem).Nonempty := by
  intro r
  obtain ⟨hcd, hcwf⟩ := hI.cwf he hpos hc
  have hfin := simplifyCgs_triangular g.spaceDim g.con g.dk hcwf hf
  obtain ⟨hkm, hk0, hdk, hlt⟩ := final_cgKindsOK _ _ _ hfin
  have hpres := (simplifyCgs_preserves g.spaceDim g.con g.dk hcwf).1 hf
  have hcs : consSet g.spaceDim (simplifyCgs g.spaceDim g.con g.dk).1 = consSet g.spaceDim g.con := by
    ext x; exact hpres x
  have hne : (consSet g.spaceDim g.con).Nonempty := by
    rw [← hcs]
    obtain ⟨_, hn, _, hag⟩ := lz_conversionCgs_facts g.spaceDim _ _ (cgc_final_cwf hfin) hlt hdk hk0 hkm
    rw [hag]; exact lz_gensSet_nonempty hn
  have hIr : GridInv r := by
    refine lz_inv_of_pos r he hpos (hI.hi0 he) (Or.inl rfl) (fun _ => rfl) (fun h => hI.gminUp h)
      (fun _ => ⟨hcd, cgc_final_cwf hfin⟩) (fun h => hI.gwf he hpos h) (fun _ h => ?_) (fun _ => ⟨hdk, hlt, hk0⟩)
      (fun _ _ => hkm) (fun h => ⟨hdk, hut h, hk0⟩) (fun _ h => by simp [r, Grid.setCongruencesMinimized] at h)
    show consSet g.spaceDim (simplifyCgs g.spaceDim g.con g.dk).1 = gensSet g.spaceDim g.gen
    rw [hcs]; exact hI.agree he hpos hc h
  refine ⟨hIr, ?_, ?_⟩
  · rw [lz_sem_of_cUp hIr he hpos rfl, lz_sem_of_cUp hI he hpos hc]; exact hcs
  · rw [lz_sem_of_cUp hI he hpos hc]; exact hne

/-- the flag of `simplify(con_sys, dim_kinds)` is exact -/
theorem lz_simplifyCon_flag (g : Grid) (hI : GridInv g) (he : g.st.empty = false) (hpos : 0 < g.spaceDim)
    (hc : g.st.cUp = true) : (simplifyCgs g.spaceDim g.con g.dk).2.2 = true ↔ g.sem = ∅ := by
  obtain ⟨_, hcwf⟩ := hI.cwf he hpos hc
  rw [simplifyCgs_flag_iff g.spaceDim g.con g.dk hcwf, lz_sem_of_cUp hI he hpos hc]
  constructor
  · intro h; ext x; simp only [consSet, Set.mem_ofPred_eq, Set.mem_empty_iff_false, iff_false]; exact h x
  · intro h x hx
    have : x ∈ consSet g.spaceDim g.con := hx
    rw [h] at this; exact this

/-- `simplify(gen_sys, dim_kinds)`, then `set_generators_minimized()`; when the congruences are flagged minimized
    they have to be triangular for the new `dim_kinds` -/
theorem lz_simplifyGen_post (g : Grid) (hI : GridInv g) (he : g.st.empty = false) (hpos : 0 < g.spaceDim)
    (hg : g.st.gUp = true)
    (hlt : g.st.cMin = true → lowerTriangular g.spaceDim g.con (simplifyGens g.spaceDim g.gen g.dk).2 = true) :
    let r := (simplifyGenSys g).setGeneratorsMinimized
    GridInv r ∧ r.sem = g.sem ∧ r.spaceDim = g.spaceDim ∧ r.st.empty = false ∧ r.st.gUp = true ∧ r.st.gMin = true ∧
      r.st.cUp = g.st.cUp ∧ r.st.cMin = g.st.cMin := by
  intro r
  obtain ⟨hgd, hgwf, hgn⟩ := hI.gwf he hpos hg
  obtain ⟨hs, ⟨D', hN'⟩, hw', hut, hdk, hk0, hcv⟩ := lz_simplifyGens_facts g.dk hgwf hgn
  have hr : r = ({ g with gen := (simplifyGens g.spaceDim g.gen g.dk).1,
                          dk := (simplifyGens g.spaceDim g.gen g.dk).2 } : Grid).setGeneratorsMinimized := by
    simp only [r, simplifyGenSys, hgd]
  have hIr : GridInv r := by
    rw [hr]
    refine lz_inv_of_pos _ he hpos (hI.hi0 he) (Or.inr rfl) (fun h => hI.cminUp h) (fun _ => rfl)
      (fun h => hI.cwf he hpos h) (fun _ => ⟨hgd, hw', lz_gnorm_firstPointDiv hN'⟩) (fun h _ => ?_)
      (fun h => ⟨hdk, hlt h, hk0⟩) (fun _ h => by simp [Grid.setGeneratorsMinimized] at h)
      (fun _ => ⟨hdk, hut, hk0⟩) (fun _ _ => hcv)
    show consSet g.spaceDim g.con = gensSet g.spaceDim (simplifyGens g.spaceDim g.gen g.dk).1
    rw [hs]; exact hI.agree he hpos h hg
  refine ⟨hIr, ?_, ?_, ?_, ?_, ?_, ?_, ?_⟩
  · rw [lz_sem_of_gUp (g := r) (by rw [hr]; exact he) (by rw [hr]; exact hpos) (by rw [hr]; rfl), lz_sem_of_gUp he hpos hg, hr]
    exact hs
  all_goals rw [hr]
  · rfl
  · exact he
  · rfl
  · rfl
  · rfl
  · rfl

/-- a state of positive dimension whose generators are up to date is not empty -/
theorem lz_nonempty_of_gUp {g : Grid} (hI : GridInv g) (he : g.st.empty = false) (hpos : 0 < g.spaceDim)
    (hg : g.st.gUp = true) : (g.sem).Nonempty := by
  rw [lz_sem_of_gUp he hpos hg]
  exact lz_gensSet_nonempty (hI.gwf he hpos hg).2.2

/-- the 0-dimensional universe is not empty -/
theorem lz_nonempty_of_zdim {g : Grid} (he : g.st.empty = false) (h0 : g.spaceDim = 0) : (g.sem).Nonempty := by
  rw [lz_sem_of_zdim he h0]
  exact ⟨fun _ => 0, fun _ _ => rfl⟩

/-- minimized congruences that are the only description: the grid is not empty -/
theorem lz_nonempty_of_cMin {g : Grid} (hI : GridInv g) (he : g.st.empty = false) (hpos : 0 < g.spaceDim)
    (hcm : g.st.cMin = true) (hg : g.st.gUp = false) : (g.sem).Nonempty := by
  have hc := hI.cminUp hcm
  obtain ⟨_, hcwf⟩ := hI.cwf he hpos hc
  obtain ⟨hdk, hlt, hk0⟩ := hI.cmin he hpos hcm
  obtain ⟨_, hn, _, hag⟩ := lz_conversionCgs_facts g.spaceDim _ _ hcwf hlt hdk hk0 (hI.cminConv he hpos hcm hg)
  rw [lz_sem_of_not_gUp he hpos hg, hag]
  exact lz_gensSet_nonempty hn

/-! ### the same on the model's own terms `simplifyConSys g` -/

theorem lz_simplifyConSys_eq (g : Grid) (hcd : g.conDim = g.spaceDim) :
    simplifyConSys g = (({ g with con := (simplifyCgs g.spaceDim g.con g.dk).1, dk := (simplifyCgs g.spaceDim g.con g.dk).2.1 } : Grid), (simplifyCgs g.spaceDim g.con g.dk).2.2) := by
  simp only [simplifyConSys, hcd]

theorem lz_simplifyConSys_flag (g : Grid) (hI : GridInv g) (he : g.st.empty = false) (hpos : 0 < g.spaceDim)
    (hc : g.st.cUp = true) : (simplifyConSys g).2 = true ↔ g.sem = ∅ := by
  rw [lz_simplifyConSys_eq g (hI.cwf he hpos hc).1]
  exact lz_simplifyCon_flag g hI he hpos hc

theorem lz_simplifyConSys_post (g : Grid) (hI : GridInv g) (he : g.st.empty = false) (hpos : 0 < g.spaceDim)
    (hc : g.st.cUp = true) (hf : (simplifyConSys g).2 = false)
    (hut : g.st.gMin = true → upperTriangular g.spaceDim g.gen (simplifyConSys g).1.dk = true) :
    let r := (simplifyConSys g).1.setCongruencesMinimized
    GridInv r ∧ r.sem = g.sem ∧ (g.sem).Nonempty ∧ r.spaceDim = g.spaceDim ∧ r.st.empty = false ∧
      r.st.cUp = true ∧ r.st.cMin = true ∧ r.st.gUp = g.st.gUp ∧ r.st.gMin = g.st.gMin := by
  intro r
  have hr : r = ({ g with con := (simplifyCgs g.spaceDim g.con g.dk).1, dk := (simplifyCgs g.spaceDim g.con g.dk).2.1 } : Grid).setCongruencesMinimized := by
    simp only [r, lz_simplifyConSys_eq g (hI.cwf he hpos hc).1]
  rw [lz_simplifyConSys_eq g (hI.cwf he hpos hc).1] at hf hut
  obtain ⟨h1, h2, h3⟩ := lz_simplifyCon_post g hI he hpos hc hf hut
  rw [hr]
  exact ⟨h1, h2, h3, rfl, he, rfl, rfl, rfl, rfl⟩

end PPLV.Lattice.GO
