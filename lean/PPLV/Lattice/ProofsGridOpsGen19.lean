import PPLV.Lattice.ProofsGridOpsGen18

/-!
# Generator side of the `Grid` object, part 19 — `operator==(x, y)` (Grid_public.cc:2775), modulo the answer `TVB_FALSE`
# of `quick_equivalence_test`
-/
namespace PPLV.Lattice.GO
open PPLV.Lattice PPLV.Lattice.Red

/-- the answer `TVB_FALSE` of `Grid::quick_equivalence_test` (Grid_nonpublic.cc:181) is right for ALL pairs of states that
    satisfy `GridInv`.  This is FALSE (`gn_quickFalseSound_fails` in `ProofsGridOpsGen32.lean`): `GridInv` records that a
    minimized system is triangular, not that its off-diagonal entries are reduced, so two different triangular generator
    systems of `ℤ²` both pass; the library only ever builds the reduced one.  `gn_equals_partial` therefore takes
    the rightness of the answer for the two operands at hand as its hypothesis.  Each of the six sources of `TVB_FALSE`
    is an instance of the uniqueness of the (reduced) minimized forms: equal grids have minimized congruence systems
    with the same number of rows and of equalities, minimized generator systems with the same number of rows and of
    lines, and, without lines (resp. equalities), `operator==` minimized generator (resp. congruence) systems. -/
def gn_QuickFalseSound : Prop :=
  ∀ x y : Grid, GridInv x → GridInv y → x.st.empty = false → y.st.empty = false → 0 < x.spaceDim →
    x.spaceDim = y.spaceDim → quickEquivalenceTest x y = TVB_FALSE → x.sem ≠ y.sem

theorem gn_incX_false (x : Grid) (hI : GridInv x) (he : x.st.empty = false) (hn : 0 < x.spaceDim)
    (h2 : (gn_incX x).2 = false) : (gn_incX x).1.st.empty = true := by
  unfold gn_incX at h2 ⊢
  cases hg : x.generatorsAreUpToDate with
  | true => rw [hg] at h2; simp at h2
  | false =>
    rw [hg] at h2
    rw [if_pos (by simp)] at h2 ⊢
    have hg' : x.st.gUp = false := hg
    have hc : x.st.cUp = true := by
      rcases hI.some he hn with h | h
      · exact h
      · rw [hg'] at h; cases h
    exact (updateGenerators_spec x hI he hn hc hg').2.2.2.2.2 h2

/-- the lazy states after `is_included_in` -/
theorem gn_isIncludedIn_states (x y : Grid) (hIx : GridInv x) (hIy : GridInv y) (hex : x.st.empty = false)
    (hey : y.st.empty = false) (hn : 0 < x.spaceDim) (hd : x.spaceDim = y.spaceDim) :
    ((isIncludedIn x y).1.st.empty = true → x.sem = ∅) ∧
    ((isIncludedIn x y).1.st.empty = false → (isIncludedIn x y).2.1.st.empty = false) := by
  obtain ⟨a, b, c, d, e⟩ := gn_incX_spec updateGenerators_spec x hIx hex hn
  rw [gn_isIncludedIn_eq]
  cases h2 : (gn_incX x).2 with
  | false =>
    rw [if_pos rfl]
    refine ⟨fun _ => e h2, fun h => ?_⟩
    have := gn_incX_false x hIx hex hn h2
    rw [this] at h; cases h
  | true =>
    rw [if_neg (by simp)]
    refine ⟨fun h => ?_, fun _ => ?_⟩
    · rw [(d h2).1] at h; cases h
    · exact (gn_incY_spec updateCongruences_spec y hIy hey (by omega)).2.2.2.1

/-- **`operator==(x, y)`** for grids of one dimension: invariants and denotations are kept and the answer is
    `x.sem = y.sem`.  `_partial`: `hF` (the answer `TVB_FALSE` of `quick_equivalence_test` on these two operands is right)
    is assumed; everything else (the emptiness tests, the answer `TVB_TRUE`, the two inclusion tests) is proved. -/
theorem gn_equals_partial (x y : Grid) (hIx : GridInv x) (hIy : GridInv y) (hd : x.spaceDim = y.spaceDim)
    (hF : quickEquivalenceTest x y = TVB_FALSE → x.sem ≠ y.sem) :
    GridInv (equals x y).1 ∧ GridInv (equals x y).2.1 ∧ (equals x y).1.sem = x.sem ∧ (equals x y).2.1.sem = y.sem ∧
    (equals x y).1.spaceDim = x.spaceDim ∧ (equals x y).2.1.spaceDim = y.spaceDim ∧
    ((equals x y).2.2 = true ↔ x.sem = y.sem) := by
  unfold equals
  rw [if_neg (not_not.mpr hd)]
  cases hx : x.markedEmpty with
  | true =>
    rw [if_pos rfl]
    obtain ⟨a, b, c, d, _, _⟩ := isEmpty_spec y hIy
    refine ⟨hIx, a, rfl, b, rfl, c, ?_⟩
    rw [gn_sem_of_empty (g := x) hx]
    exact d.trans eq_comm
  | false =>
  rw [if_neg (by simp)]
  cases hy : y.markedEmpty with
  | true =>
    rw [if_pos rfl]
    obtain ⟨a, b, c, d, _, _⟩ := isEmpty_spec x hIx
    refine ⟨a, hIy, b, rfl, c, rfl, ?_⟩
    rw [gn_sem_of_empty (g := y) hy]
    exact d
  | false =>
  rw [if_neg (by simp)]
  by_cases h0 : x.spaceDim = 0
  · rw [if_pos h0]
    refine ⟨hIx, hIy, rfl, rfl, rfl, rfl, ⟨fun _ => ?_, fun _ => rfl⟩⟩
    rw [gn_sem_dim0 (g := x) hx h0, gn_sem_dim0 (g := y) hy (by rw [← hd]; exact h0)]
  · rw [if_neg h0]
    have hn : 0 < x.spaceDim := by omega
    simp only []
    by_cases hq : quickEquivalenceTest x y = TVB_TRUE
    · rw [if_pos hq]
      exact ⟨hIx, hIy, rfl, rfl, rfl, rfl, ⟨fun _ => gn_quickTrueSound x y hIx hIy hx hy hn hd hq, fun _ => rfl⟩⟩
    · rw [if_neg hq]
      by_cases hq2 : quickEquivalenceTest x y = TVB_FALSE
      · rw [if_pos hq2]
        refine ⟨hIx, hIy, rfl, rfl, rfl, rfl, ⟨fun h => (by cases h), fun h => absurd h (hF hq2)⟩⟩
      · rw [if_neg hq2]
        obtain ⟨a, b, c, d, e, f, g⟩ := gn_isIncludedIn' x y hIx hIy hx hy hn hd
        obtain ⟨s1, s2⟩ := gn_isIncludedIn_states x y hIx hIy hx hy hn hd
        cases hinc : (isIncludedIn x y).2.2 with
        | false =>
          rw [if_neg (by simp)]
          refine ⟨a, b, c, d, e, f, ⟨fun h => (by cases h), fun h => ?_⟩⟩
          have : x.sem ⊆ y.sem := by rw [h]
          rw [g.mpr this] at hinc; cases hinc
        | true =>
          rw [if_pos rfl]
          have hsub := g.mp hinc
          cases hm : (isIncludedIn x y).1.markedEmpty with
          | true =>
            rw [if_pos rfl]
            obtain ⟨a', b', c', d', _, _⟩ := isEmpty_spec _ b
            refine ⟨a, a', c, by rw [b', d], e, by rw [c', f], ?_⟩
            rw [s1 hm]
            rw [d] at d'
            exact d'.trans eq_comm
          | false =>
            rw [if_neg (by simp)]
            obtain ⟨a', b', c', d', e', f', g'⟩ := gn_isIncludedIn' _ _ b a (s2 hm) hm (by rw [f, ← hd]; exact hn)
              (by rw [f, e, hd])
            refine ⟨b', a', by rw [d', c], by rw [c', d], by rw [f', e], by rw [e', f], ?_⟩
            rw [g', d, c]
            exact ⟨fun h => Set.Subset.antisymm hsub h, fun h => by rw [h]⟩

end PPLV.Lattice.GO
