import PPLV.Lattice.ProofsGridOpsGen3

/-!
# Generator side of the `Grid` object, part 16 — scaling the divisors of a normalised system at the level of the
# homogeneous lattice (`gn_scale`): `Hom rows v ↔ Hom rows' (k • v)`
-/
namespace PPLV.Lattice.GO
open PPLV.Lattice PPLV.Lattice.Red

/-- the homogeneous vector of a parameter or point of a normalised system after `scale_to_divisor(k·D)` -/
theorem gn_hv_scale {n : Nat} {D : Int} {rows : List GRow} (hN : GNorm n D rows) (hw : GWf n rows) (k : Int) (hk : 0 < k)
    {r : GRow} (hr : r ∈ rows) (hl : r.line = false) :
    hv n (r.scaleToDivisor (k * D)) = (k : ℚ) • hv n r := by
  have hwf := gn_wf_of_gnorm hN hw
  have hdiv : r.divisor = D := by
    rcases hN.col0 r hr hl with h0 | h0
    · rw [divisor_param n r (hw r hr) h0, hN.par r hr hl h0]
    · have : get r.e 0 ≠ 0 := by rw [h0]; exact ne_of_gt hN.pos
      rw [divisor_point r this, h0]
  have hd : 0 < k * D := Int.mul_pos hk hN.pos
  obtain ⟨s1, s2, s3, s4, s5⟩ := scaleToDivisor_spec n r (k * D) (hw r hr) hl ((hwf.shape r hr).2 hl)
    (by rw [hdiv]; exact Dvd.intro_left k rfl) hd
  have hDq : (D : ℚ) ≠ 0 := by exact_mod_cast ne_of_gt hN.pos
  have hkq : (k : ℚ) ≠ 0 := by exact_mod_cast ne_of_gt hk
  funext i
  simp only [Pi.smul_apply, smul_eq_mul, hv_apply]
  by_cases hi : i ≤ n
  · rw [if_pos hi, if_pos hi]
    cases i with
    | zero =>
      by_cases h0 : get r.e 0 = 0
      · rw [h0, s3.mpr h0]; simp
      · have h0' : get (r.scaleToDivisor (k * D)).e 0 ≠ 0 := fun q => h0 (s3.mp q)
        rw [← divisor_point _ h0', s4, ← divisor_point r h0, hdiv]; push_cast; ring
    | succ j =>
      have hj : j < n := by omega
      have e := congrFun (congrArg Vec.toFun s5) j
      rw [coords_toFun, coords_toFun, if_pos hj, if_pos hj, s4, hdiv] at e
      push_cast at e
      field_simp at e
      linarith
  · rw [if_neg hi, if_neg hi]; ring

/-- **`gn_scale`**: scaling every parameter and point of a normalised system to the divisor `k·D` scales the homogeneous
    lattice by `k` -/
theorem gn_scale {n : Nat} {D : Int} {rows : List GRow} (hN : GNorm n D rows) (hw : GWf n rows) (k : Int) (hk : 0 < k)
    (v : Pt) : Hom n rows v ↔ Hom n (rows.map (·.scaleToDivisor (k * D))) ((k : ℚ) • v) := by
  have hkq : (k : ℚ) ≠ 0 := by exact_mod_cast ne_of_gt hk
  have hlineS : ∀ r : GRow, r.line = true → r.scaleToDivisor (k * D) = r := by
    intro r hl; simp [GRow.scaleToDivisor, GRow.isLine, hl]
  have hlineF : ∀ r ∈ rows, r.line = false → (r.scaleToDivisor (k * D)).line = false := by
    intro r hr hl
    have hwf := gn_wf_of_gnorm hN hw
    have hdiv := (hwf.shape r hr).2 hl
    have hdv : r.divisor ∣ k * D := by
      have : r.divisor = D := by
        rcases hN.col0 r hr hl with h0 | h0
        · rw [divisor_param n r (hw r hr) h0, hN.par r hr hl h0]
        · have : get r.e 0 ≠ 0 := by rw [h0]; exact ne_of_gt hN.pos
          rw [divisor_point r this, h0]
      rw [this]; exact Dvd.intro_left k rfl
    exact (scaleToDivisor_spec n r (k * D) (hw r hr) hl hdiv hdv (Int.mul_pos hk hN.pos)).1
  constructor
  · refine hom_le (k : ℚ) ?_ ?_
    · intro r hr hl
      rw [← gn_hv_scale hN hw k hk hr hl]
      exact hom_of_mem_pc (List.mem_map_of_mem hr) (hlineF r hr hl)
    · intro r hr hl c
      have : r ∈ rows.map (·.scaleToDivisor (k * D)) := by
        have := List.mem_map_of_mem (f := (·.scaleToDivisor (k * D))) hr
        rwa [hlineS r hl] at this
      exact hom_of_mem_line this hl c
  · intro h
    have key := hom_le (n := n) (rows := rows.map (·.scaleToDivisor (k * D))) (rows' := rows) (1 / (k : ℚ)) ?_ ?_ h
    · have e : (1 / (k : ℚ)) • ((k : ℚ) • v) = v := by
        rw [smul_smul]; field_simp; simp
      rwa [e] at key
    · intro r' hr' hl'
      obtain ⟨r, hr, rfl⟩ := List.mem_map.mp hr'
      cases hl : r.line with
      | true => rw [hlineS r hl] at hl'; rw [hl] at hl'; cases hl'
      | false =>
        rw [gn_hv_scale hN hw k hk hr hl, smul_smul]
        have : 1 / (k : ℚ) * (k : ℚ) = 1 := by field_simp
        rw [this, one_smul]
        exact hom_of_mem_pc hr hl
    · intro r' hr' hl' c
      obtain ⟨r, hr, rfl⟩ := List.mem_map.mp hr'
      cases hl : r.line with
      | true => rw [hlineS r hl]; exact hom_of_mem_line hr hl c
      | false => rw [hlineF r hr hl] at hl'; cases hl'

/-- in the form of `HomSim` -/
theorem gn_scale_homSim {n : Nat} {D : Int} {rows : List GRow} (hN : GNorm n D rows) (hw : GWf n rows) (k : Int)
    (hk : 0 < k) : HomSim n rows (rows.map (·.scaleToDivisor (k * D))) := ⟨k, hk, gn_scale hN hw k hk⟩

end PPLV.Lattice.GO
