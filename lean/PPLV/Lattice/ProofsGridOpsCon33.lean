import PPLV.Lattice.ProofsGridOpsCon32

/-!
# `Grid` stage 3, part 33: minimized generators with as many lines as dimensions generate the whole space — closes the
# hypothesis of `cn_constrains_partial`: `cn_constrains`
-/
namespace PPLV.Lattice.GO
open PPLV.Lattice PPLV.Lattice.Red

theorem cn_cntBelow_le (P : Nat → Bool) (m : Nat) : cntBelow P m ≤ m := by
  induction m with
  | zero => exact Nat.le_refl _
  | succ m ih => simp only [cntBelow]; split <;> omega

theorem cn_cntBelow_full (P : Nat → Bool) (m : Nat) (h : cntBelow P m = m) : ∀ d, d < m → P d = true ∧ cntBelow P d = d := by
  induction m with
  | zero => intro d hd; omega
  | succ m ih =>
    intro d hd
    simp only [cntBelow] at h
    have hle := cn_cntBelow_le P m
    have hm : cntBelow P m = m ∧ P m = true := by
      by_cases hp : P m = true
      · rw [if_pos hp] at h; exact ⟨by omega, hp⟩
      · rw [if_neg hp] at h; omega
    by_cases hdm : d = m
    · subst hdm; exact ⟨hm.2, hm.1⟩
    · exact ih hm.1 d (by omega)

/-- an upper triangular system of `n` lines (and the point) generates the whole `n`-space -/
theorem cn_full_lines {n : Nat} {D : Int} {gen : List GRow} {dk : List Nat} (hw : GWf n gen) (hN : GNorm n D gen)
    (hut : upperTriangular n gen dk = true) (h0 : kind dk 0 = PARAMETER)
    (hnl : (gen.filter (·.line)).length = n) : gn_set gen = spaceSet n := by
  have hs := upperTriangular_spec n gen dk hut
  obtain ⟨p, rest, hg, hp, hpD, hrest⟩ := cn_min_shape hN hut h0
  have hlen := hs.len
  have hle := cn_cntBelow_le (nvB dk) (n + 1)
  have hfl : (rest.filter (·.line)).length = n := by
    rw [hg, List.filter_cons_of_neg (by simp [hp])] at hnl; exact hnl
  have hfle := List.length_filter_le (·.line) rest
  have hrl : rest.length = n := by
    rw [hg] at hlen; simp only [List.length_cons] at hlen; unfold nv at hlen; omega
  have hall : ∀ r ∈ rest, r.line = true := by
    have : (rest.filter (·.line)).length = rest.length := by rw [hfl, hrl]
    exact (List.length_filter_eq_length_iff.mp this)
  have hfull := cn_cntBelow_full (nvB dk) (n + 1) (by
    rw [hg] at hlen; simp only [List.length_cons] at hlen; unfold nv at hlen; omega)
  -- the line of dimension `d`
  have hrow : ∀ d, 1 ≤ d → d ≤ n → rowAt gen d ∈ rest := by
    intro d h1 h2
    have : rowAt gen d = rowAt rest (d - 1) := by
      rw [hg]; unfold rowAt
      rw [show d = (d - 1) + 1 by omega, List.getD_cons_succ]; simp
    rw [this]; exact rowAt_mem rest (d - 1) (by omega)
  have hlead : ∀ d, 1 ≤ d → d ≤ n → (∀ k, k + 1 < d → gn_vecOf (rowAt gen d) k = 0) ∧ gn_vecOf (rowAt gen d) (d - 1) ≠ 0 := by
    intro d h1 h2
    have hmem := hrow d h1 h2
    have hgm : rowAt gen d ∈ gen := by have := List.mem_cons_of_mem p hmem; rwa [← hg] at this
    obtain ⟨hv, hc⟩ := hfull d (by omega)
    have hdiag := hs.diag d (by omega) hv
    have hzero := hs.zeros d (by omega) hv
    unfold nv at hdiag hzero
    rw [hc] at hdiag hzero
    unfold sEnt at hdiag hzero
    have hline := hall _ hmem
    constructor
    · intro k hk
      unfold gn_vecOf
      rw [gn_spaceDim_of_len (hw _ hgm), hline]
      split
      · rw [hzero (k + 1) (by omega)]; simp
      · rfl
    · unfold gn_vecOf
      rw [gn_spaceDim_of_len (hw _ hgm), hline, if_pos (by omega), show d - 1 + 1 = d by omega]
      simp only [if_true, div_one]
      have : Red.get (rowAt gen d).e d ≠ 0 := by omega
      exact_mod_cast this
  -- every vector supported on the coordinates `[j, n)` is a direction
  have hC : ∀ t j, n - j = t → j ≤ n → ∀ w : Pt, Supp n w → (∀ k, k < j → w k = 0) → gn_Dir gen w := by
    intro t
    induction t with
    | zero =>
      intro j hj hjn w hw1 hw2
      have : w = 0 := by
        funext k
        by_cases hk : k < n
        · exact hw2 k (by omega)
        · exact hw1 k (by omega)
      rw [this]; exact gn_dir_zero _
    | succ t ih =>
      intro j hj hjn w hw1 hw2
      obtain ⟨hz, ha⟩ := hlead (j + 1) (by omega) (by omega)
      have hmem := hrow (j + 1) (by omega) (by omega)
      have hgm : rowAt gen (j + 1) ∈ gen := by have := List.mem_cons_of_mem p hmem; rwa [← hg] at this
      simp only [Nat.add_sub_cancel] at ha
      have hd := ih (j + 1) (by omega) (by omega)
        (w - (w j / gn_vecOf (rowAt gen (j + 1)) j) • gn_vecOf (rowAt gen (j + 1)))
        (fun k hk => by
          simp only [Pi.sub_apply, Pi.smul_apply, smul_eq_mul]
          rw [hw1 k hk, gn_vecOf_supp (hw _ hgm) k hk]; simp)
        (fun k hk => by
          simp only [Pi.sub_apply, Pi.smul_apply, smul_eq_mul]
          by_cases hkj : k = j
          · subst hkj; field_simp; ring
          · rw [hw2 k (by omega), hz k (by omega)]; simp)
      have := gn_dir_add hd (gn_dir_line hgm (hall _ hmem) (w j / gn_vecOf (rowAt gen (j + 1)) j))
      simpa using this
  have hpm : p ∈ gen := by rw [hg]; exact List.mem_cons_self ..
  have hpp : gn_isPt p = true := (gn_isPt_iff p).mpr ⟨hp, by rw [hpD]; exact ne_of_gt hN.pos⟩
  ext x
  constructor
  · intro hx; exact gn_mem_supp hw hx
  · intro hx
    refine ⟨p, hpm, hpp, hC n 0 (by omega) (Nat.zero_le _) _ (fun k hk => ?_) (fun k hk => by omega)⟩
    simp only [Pi.sub_apply]
    rw [hx k hk, gn_vecOf_supp (hw p hpm) k hk]; simp

/-- Grid_public.cc:931 `constrains(var)`: `none` exactly on a dimension mismatch; the answer is `false` iff the grid is
    not empty and coordinate `var` is free; the object keeps its grid -/
theorem cn_constrains (g : Grid) (v : Nat) (hI : GridInv g) :
    ((constrains g v).2 = none ↔ g.spaceDim < v + 1) ∧ GridInv (constrains g v).1 ∧ (constrains g v).1.sem = g.sem ∧
    (constrains g v).1.spaceDim = g.spaceDim ∧
    (∀ b, (constrains g v).2 = some b → (b = false ↔ cn_Unconstrained v g.sem)) := by
  refine cn_constrains_partial g v hI (fun he hg _ hm hl => ?_)
  by_cases hpos : 0 < g.spaceDim
  · obtain ⟨_, hgw, hgn, hgs⟩ := gn_sem_of_gUp hI hpos he hg
    obtain ⟨_, hut, hk0⟩ := hI.gmin he hpos hm
    rw [hgs]
    exact cn_full_lines hgw hgn hut hk0 hl
  · have h0 : g.spaceDim = 0 := by omega
    rw [lz_sem_of_zdim he h0, h0]; rfl

end PPLV.Lattice.GO
