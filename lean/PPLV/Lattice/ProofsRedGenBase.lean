import PPLV.Lattice.ProofsRedSem
import PPLV.Lattice.ProofsRedRow
import Mathlib.Tactic.Module
import Mathlib.Tactic.FieldSimp
import Mathlib.Tactic.LinearCombination

/-!
# `Grid::simplify(Grid_Generator_System&)`: the homogeneous lattice `Hom` — generic tools

`hv n r` is the homogeneous vector (columns `0..n`) of a row as a valuation; `HomSim n rows rows'` says
that `rows'` generates the lattice of `rows` scaled by a positive integer.  The generic lemmas describe
how `Hom` reacts to replacing one row, two rows, scaling all parameter rows, permuting and clipping.
-/
namespace PPLV.Lattice.Red
open PPLV.Lattice

/-- homogeneous vector of a row as a valuation -/
def hv (n : Nat) (r : GRow) : Pt := (GRow.hvec n r).toFun

theorem hv_apply (n : Nat) (r : GRow) (i : Nat) :
    hv n r i = if i ≤ n then ((get r.e i : Int) : Rat) else 0 := by
  unfold hv GRow.hvec ratRow Vec.toFun get
  by_cases h : i ≤ n
  · have h' : i < n + 1 := by omega
    rw [if_pos h, List.getD_eq_getElem?_getD, List.getD_eq_getElem?_getD, List.getElem?_map, List.getElem?_take,
      if_pos h']
    cases r.e[i]? <;> simp
  · have h' : ¬ i < n + 1 := by omega
    rw [if_neg h, List.getD_eq_getElem?_getD, List.getElem?_map, List.getElem?_take, if_neg h']
    simp

theorem hv_congr {n : Nat} {r r1 : GRow} (h : ∀ i ≤ n, get r.e i = get r1.e i) : hv n r = hv n r1 := by
  funext i
  rw [hv_apply, hv_apply]
  by_cases hi : i ≤ n
  · rw [if_pos hi, if_pos hi, h i hi]
  · rw [if_neg hi, if_neg hi]

theorem hv_comb {n : Nat} {r r1 r2 : GRow} (a b : Int)
    (h : ∀ i ≤ n, get r.e i = a * get r1.e i + b * get r2.e i) :
    hv n r = (a : Rat) • hv n r1 + (b : Rat) • hv n r2 := by
  funext i
  simp only [Pi.add_apply, Pi.smul_apply, smul_eq_mul, hv_apply]
  by_cases hi : i ≤ n
  · rw [if_pos hi, if_pos hi, if_pos hi, h i hi]; push_cast; ring
  · rw [if_neg hi, if_neg hi, if_neg hi]; ring

theorem hv_smul {n : Nat} {r r1 : GRow} (a : Int) (h : ∀ i ≤ n, get r.e i = a * get r1.e i) :
    hv n r = (a : Rat) • hv n r1 := by
  funext i
  simp only [Pi.smul_apply, smul_eq_mul, hv_apply]
  by_cases hi : i ≤ n
  · rw [if_pos hi, if_pos hi, h i hi]; push_cast; ring
  · rw [if_neg hi, if_neg hi]; ring

theorem hv_zero {n : Nat} {r : GRow} (h : ∀ i ≤ n, get r.e i = 0) : hv n r = 0 := by
  funext i
  rw [hv_apply]
  by_cases hi : i ≤ n
  · rw [if_pos hi, h i hi]; simp
  · rw [if_neg hi]; rfl

/-! ### closure properties of `Hom` -/

theorem hom_zero (n : Nat) (rows : List GRow) : Hom n rows 0 := Abs.Dir.zero

theorem hom_add {n : Nat} {rows : List GRow} {v w : Pt} (h1 : Hom n rows v) (h2 : Hom n rows w) :
    Hom n rows (v + w) := Abs.Dir.add h1 h2

theorem hom_zsmul {n : Nat} {rows : List GRow} {v : Pt} (j : Int) (h : Hom n rows v) :
    Hom n rows ((j : Rat) • v) := Abs.Dir.zsmul j h

theorem hom_neg {n : Nat} {rows : List GRow} {v : Pt} (h : Hom n rows v) : Hom n rows (-v) := Abs.Dir.neg h

theorem hom_sub {n : Nat} {rows : List GRow} {v w : Pt} (h1 : Hom n rows v) (h2 : Hom n rows w) :
    Hom n rows (v - w) := Abs.Dir.sub h1 h2

theorem hom_of_mem_pc {n : Nat} {rows : List GRow} {r : GRow} (hr : r ∈ rows) (hl : r.line = false) :
    Hom n rows (hv n r) := by
  refine Abs.Dir.of_param ?_
  exact List.mem_map_of_mem (List.mem_map_of_mem (List.mem_filter.mpr ⟨hr, by simp [hl]⟩))

theorem hom_of_mem_line {n : Nat} {rows : List GRow} {r : GRow} (hr : r ∈ rows) (hl : r.line = true) (c : Rat) :
    Hom n rows (c • hv n r) := by
  refine Abs.Dir.of_line c ?_
  exact List.mem_map_of_mem (List.mem_map_of_mem (List.mem_filter.mpr ⟨hr, by simp [hl]⟩))

theorem hom_pc {n : Nat} {rows : List GRow} {i : Nat} (hi : i < rows.length) (hl : (rowAt rows i).line = false) :
    Hom n rows (hv n (rowAt rows i)) := hom_of_mem_pc (rowAt_mem rows i hi) hl

theorem hom_line {n : Nat} {rows : List GRow} {i : Nat} (hi : i < rows.length) (hl : (rowAt rows i).line = true)
    (c : Rat) : Hom n rows (c • hv n (rowAt rows i)) := hom_of_mem_line (rowAt_mem rows i hi) hl c

/-- integer multiples of any row -/
theorem hom_int {n : Nat} {rows : List GRow} {i : Nat} (hi : i < rows.length) (b : Int) :
    Hom n rows ((b : Rat) • hv n (rowAt rows i)) := by
  cases hl : (rowAt rows i).line
  · exact hom_zsmul b (hom_pc hi hl)
  · exact hom_line hi hl _

theorem mem_iff_rowAt (rows : List GRow) (r : GRow) : r ∈ rows ↔ ∃ i, i < rows.length ∧ r = rowAt rows i := by
  constructor
  · intro h
    obtain ⟨i, hi, rfl⟩ := List.getElem_of_mem h
    exact ⟨i, hi, (rowAt_eq_getElem rows i hi).symm⟩
  · rintro ⟨i, hi, rfl⟩; exact rowAt_mem rows i hi

/-- the key tool: if every generator of `rows`, scaled by `k`, is in the lattice of `rows'`, so is every
    element scaled by `k` -/
theorem hom_le {n : Nat} {rows rows' : List GRow} (k : Rat)
    (hp : ∀ r ∈ rows, r.line = false → Hom n rows' (k • hv n r))
    (hl : ∀ r ∈ rows, r.line = true → ∀ c : Rat, Hom n rows' (c • hv n r)) {v : Pt} (h : Hom n rows v) :
    Hom n rows' (k • v) := by
  unfold Hom GDir at h
  induction h with
  | zero => simpa using hom_zero n rows'
  | @param w q j hq _ ih =>
    obtain ⟨u, hu, rfl⟩ := List.mem_map.mp hq
    obtain ⟨r, hr, rfl⟩ := List.mem_map.mp hu
    have hr' := List.mem_filter.mp hr
    have e : k • (w + (j : Rat) • (GRow.hvec n r).toFun) = k • w + (j : Rat) • (k • hv n r) := by
      unfold hv; module
    rw [e]
    exact hom_add ih (hom_zsmul j (hp r hr'.1 (by simpa using hr'.2)))
  | @line w l c hl' _ ih =>
    obtain ⟨u, hu, rfl⟩ := List.mem_map.mp hl'
    obtain ⟨r, hr, rfl⟩ := List.mem_map.mp hu
    have hr' := List.mem_filter.mp hr
    have e : k • (w + c • (GRow.hvec n r).toFun) = k • w + (k * c) • hv n r := by
      unfold hv; module
    rw [e]
    exact hom_add ih (hl r hr'.1 (by simpa using hr'.2) _)

theorem hom_le_idx {n : Nat} {rows rows' : List GRow} (k : Rat)
    (h : ∀ i, i < rows.length →
      ((rowAt rows i).line = false → Hom n rows' (k • hv n (rowAt rows i))) ∧
      ((rowAt rows i).line = true → ∀ c : Rat, Hom n rows' (c • hv n (rowAt rows i)))) {v : Pt}
    (hv' : Hom n rows v) : Hom n rows' (k • v) := by
  refine hom_le k ?_ ?_ hv'
  · intro r hr hl
    obtain ⟨i, hi, rfl⟩ := (mem_iff_rowAt rows r).mp hr
    exact (h i hi).1 hl
  · intro r hr hl c
    obtain ⟨i, hi, rfl⟩ := (mem_iff_rowAt rows r).mp hr
    exact (h i hi).2 hl c

theorem hom_le_idx1 {n : Nat} {rows rows' : List GRow}
    (h : ∀ i, i < rows.length →
      ((rowAt rows i).line = false → Hom n rows' (hv n (rowAt rows i))) ∧
      ((rowAt rows i).line = true → ∀ c : Rat, Hom n rows' (c • hv n (rowAt rows i)))) {v : Pt}
    (hv' : Hom n rows v) : Hom n rows' v := by
  have := hom_le_idx (n := n) (rows := rows) (rows' := rows') 1
    (fun i hi => ⟨fun hl => by simpa using (h i hi).1 hl, (h i hi).2⟩) hv'
  simpa using this

/-! ### `HomSim` -/

/-- `rows'` generates the lattice of `rows` scaled by a positive integer -/
def HomSim (n : Nat) (rows rows' : List GRow) : Prop :=
  ∃ k : Int, 0 < k ∧ ∀ v, Hom n rows v ↔ Hom n rows' ((k : Rat) • v)

theorem HomSim.of_iff {n : Nat} {rows rows' : List GRow} (h : ∀ v, Hom n rows v ↔ Hom n rows' v) :
    HomSim n rows rows' := ⟨1, by decide, fun v => by simpa using h v⟩

theorem HomSim.refl (n : Nat) (rows : List GRow) : HomSim n rows rows := HomSim.of_iff fun _ => Iff.rfl

theorem HomSim.trans {n : Nat} {r1 r2 r3 : List GRow} (h1 : HomSim n r1 r2) (h2 : HomSim n r2 r3) :
    HomSim n r1 r3 := by
  obtain ⟨k1, hk1, e1⟩ := h1
  obtain ⟨k2, hk2, e2⟩ := h2
  refine ⟨k2 * k1, Int.mul_pos hk2 hk1, fun v => ?_⟩
  rw [e1 v, e2]
  have : ((k2 * k1 : Int) : Rat) • v = (k2 : Rat) • ((k1 : Rat) • v) := by push_cast; module
  rw [this]

/-! ### generic replacement lemmas -/

/-- same line flags and homogeneous vectors, row by row -/
theorem hom_iff_of_hv {n : Nat} {rows rows' : List GRow} (hlen : rows'.length = rows.length)
    (h : ∀ i, i < rows.length → (rowAt rows' i).line = (rowAt rows i).line ∧ hv n (rowAt rows' i) = hv n (rowAt rows i))
    (v : Pt) : Hom n rows v ↔ Hom n rows' v := by
  constructor
  · refine hom_le_idx1 fun i hi => ⟨fun hl => ?_, fun hl c => ?_⟩
    · rw [← (h i hi).2]; exact hom_pc (by omega) (by rw [(h i hi).1]; exact hl)
    · rw [← (h i hi).2]; exact hom_line (by omega) (by rw [(h i hi).1]; exact hl) c
  · refine hom_le_idx1 fun i hi => ⟨fun hl => ?_, fun hl c => ?_⟩
    · have hi' : i < rows.length := by omega
      rw [(h i hi').2]; exact hom_pc hi' (by rw [← (h i hi').1]; exact hl)
    · have hi' : i < rows.length := by omega
      rw [(h i hi').2]; exact hom_line hi' (by rw [← (h i hi').1]; exact hl) c

/-- one row replaced -/
theorem hom_iff_one_row {n : Nat} {rows rows' : List GRow} (j : Nat) (hlen : rows'.length = rows.length)
    (hsame : ∀ i, i ≠ j → rowAt rows' i = rowAt rows i)
    (hline : (rowAt rows' j).line = (rowAt rows j).line)
    (hL : (rowAt rows j).line = true →
      (∀ c : Rat, Hom n rows' (c • hv n (rowAt rows j))) ∧ (∀ c : Rat, Hom n rows (c • hv n (rowAt rows' j))))
    (hP : (rowAt rows j).line = false → Hom n rows' (hv n (rowAt rows j)) ∧ Hom n rows (hv n (rowAt rows' j)))
    (v : Pt) : Hom n rows v ↔ Hom n rows' v := by
  constructor
  · refine hom_le_idx1 fun i hi => ?_
    by_cases e : i = j
    · subst e; exact ⟨fun hl => (hP hl).1, fun hl c => (hL hl).1 c⟩
    · rw [← hsame i e]
      exact ⟨fun hl => hom_pc (by omega) hl, fun hl c => hom_line (by omega) hl c⟩
  · refine hom_le_idx1 fun i hi => ?_
    by_cases e : i = j
    · subst e
      exact ⟨fun hl => (hP (by rw [← hline]; exact hl)).2, fun hl c => (hL (by rw [← hline]; exact hl)).2 c⟩
    · rw [hsame i e]
      exact ⟨fun hl => hom_pc (by omega) hl, fun hl c => hom_line (by omega) hl c⟩

/-- two parameter rows replaced by two parameter rows -/
theorem hom_iff_two_rows {n : Nat} {rows rows' : List GRow} (j p : Nat) (hlen : rows'.length = rows.length)
    (hsame : ∀ i, i ≠ j → i ≠ p → rowAt rows' i = rowAt rows i)
    (l1 : (rowAt rows j).line = false) (l2 : (rowAt rows p).line = false)
    (l3 : (rowAt rows' j).line = false) (l4 : (rowAt rows' p).line = false)
    (f1 : Hom n rows' (hv n (rowAt rows j))) (f2 : Hom n rows' (hv n (rowAt rows p)))
    (b1 : Hom n rows (hv n (rowAt rows' j))) (b2 : Hom n rows (hv n (rowAt rows' p)))
    (v : Pt) : Hom n rows v ↔ Hom n rows' v := by
  constructor
  · refine hom_le_idx1 fun i hi => ?_
    by_cases e : i = j
    · subst e; exact ⟨fun _ => f1, fun hl => by rw [l1] at hl; cases hl⟩
    · by_cases e2 : i = p
      · subst e2; exact ⟨fun _ => f2, fun hl => by rw [l2] at hl; cases hl⟩
      · rw [← hsame i e e2]
        exact ⟨fun hl => hom_pc (by omega) hl, fun hl c => hom_line (by omega) hl c⟩
  · refine hom_le_idx1 fun i hi => ?_
    by_cases e : i = j
    · subst e; exact ⟨fun _ => b1, fun hl => by rw [l3] at hl; cases hl⟩
    · by_cases e2 : i = p
      · subst e2; exact ⟨fun _ => b2, fun hl => by rw [l4] at hl; cases hl⟩
      · rw [hsame i e e2]
        exact ⟨fun hl => hom_pc (by omega) hl, fun hl c => hom_line (by omega) hl c⟩

/-- every parameter row scaled by `k > 0`, then a multiple of the line `p` added to the parameter `j` -/
theorem hom_iff_scale {n : Nat} {rows rows' : List GRow} (j p : Nat) (k : Int) (hk : 0 < k) (b : Int)
    (hlen : rows'.length = rows.length) (hj : j < rows.length) (hp : p < rows.length)
    (hpl : (rowAt rows p).line = true) (hjl : (rowAt rows j).line = false)
    (hline : ∀ i, i < rows.length → (rowAt rows' i).line = (rowAt rows i).line)
    (hLs : ∀ i, i < rows.length → (rowAt rows i).line = true → hv n (rowAt rows' i) = hv n (rowAt rows i))
    (hPs : ∀ i, i < rows.length → i ≠ j → (rowAt rows i).line = false →
      hv n (rowAt rows' i) = (k : Rat) • hv n (rowAt rows i))
    (hjs : hv n (rowAt rows' j) = (k : Rat) • hv n (rowAt rows j) + (b : Rat) • hv n (rowAt rows p))
    (v : Pt) : Hom n rows v ↔ Hom n rows' ((k : Rat) • v) := by
  have hk0 : (k : Rat) ≠ 0 := by exact_mod_cast (ne_of_gt hk)
  constructor
  · refine hom_le_idx (k : Rat) fun i hi => ⟨fun hl => ?_, fun hl c => ?_⟩
    · by_cases e : i = j
      · subst e
        have e1 : (k : Rat) • hv n (rowAt rows i) = hv n (rowAt rows' i) + ((-b : Int) : Rat) • hv n (rowAt rows' p) := by
          rw [hjs, hLs p hp hpl]; push_cast; module
        rw [e1]
        exact hom_add (hom_pc (by omega) (by rw [hline i hi]; exact hl)) (hom_int (by omega) _)
      · rw [← hPs i hi e hl]
        exact hom_pc (by omega) (by rw [hline i hi]; exact hl)
    · rw [← hLs i hi hl]
      exact hom_line (by omega) (by rw [hline i hi]; exact hl) c
  · intro h
    have key := hom_le_idx (n := n) (rows := rows') (rows' := rows) (1 / (k : Rat)) (fun i hi => ?_) h
    · have e : (1 / (k : Rat)) • ((k : Rat) • v) = v := by
        rw [smul_smul]; field_simp; simp
      rwa [e] at key
    · have hi' : i < rows.length := by omega
      refine ⟨fun hl => ?_, fun hl c => ?_⟩
      · have hl' : (rowAt rows i).line = false := by rw [← hline i hi']; exact hl
        by_cases e : i = j
        · subst e
          have e1 : (1 / (k : Rat)) • hv n (rowAt rows' i)
              = hv n (rowAt rows i) + ((b : Rat) / k) • hv n (rowAt rows p) := by
            rw [hjs, smul_add, smul_smul, smul_smul]
            congr 1
            · have : 1 / (k : Rat) * k = 1 := by field_simp
              rw [this, one_smul]
            · congr 1; field_simp
          rw [e1]
          exact hom_add (hom_pc hi' hl') (hom_line hp hpl _)
        · have e1 : (1 / (k : Rat)) • hv n (rowAt rows' i) = hv n (rowAt rows i) := by
            rw [hPs i hi' e hl', smul_smul]
            have : 1 / (k : Rat) * k = 1 := by field_simp
            rw [this, one_smul]
          rw [e1]; exact hom_pc hi' hl'
      · have hl' : (rowAt rows i).line = true := by rw [← hline i hi']; exact hl
        rw [hLs i hi' hl']
        exact hom_line hi' hl' c

/-- the rows are permuted -/
theorem hom_iff_perm {n : Nat} {rows rows' : List GRow} (h : ∀ r, r ∈ rows' ↔ r ∈ rows) (v : Pt) :
    Hom n rows v ↔ Hom n rows' v := by
  constructor
  · refine hom_le_idx1 fun i hi => ⟨fun hl => ?_, fun hl c => ?_⟩
    · exact hom_of_mem_pc ((h _).mpr (rowAt_mem rows i hi)) hl
    · exact hom_of_mem_line ((h _).mpr (rowAt_mem rows i hi)) hl c
  · refine hom_le_idx1 fun i hi => ⟨fun hl => ?_, fun hl c => ?_⟩
    · exact hom_of_mem_pc ((h _).mp (rowAt_mem rows' i hi)) hl
    · exact hom_of_mem_line ((h _).mp (rowAt_mem rows' i hi)) hl c

/-- zero rows at the end are clipped -/
theorem hom_iff_take {n : Nat} {rows : List GRow} (p : Nat)
    (hz : ∀ i, p ≤ i → i < rows.length → hv n (rowAt rows i) = 0) (v : Pt) :
    Hom n rows v ↔ Hom n (rows.take p) v := by
  constructor
  · refine hom_le_idx1 fun i hi => ?_
    by_cases hip : i < p
    · have hm : rowAt rows i ∈ rows.take p := by
        rw [rowAt_eq_getElem rows i hi]
        have : i < (rows.take p).length := by simp; omega
        have e : (rows.take p)[i] = rows[i] := by simp
        rw [← e]; exact List.getElem_mem this
      exact ⟨fun hl => hom_of_mem_pc hm hl, fun hl c => hom_of_mem_line hm hl c⟩
    · rw [hz i (by omega) hi]
      exact ⟨fun _ => hom_zero _ _, fun _ c => by simpa using hom_zero n (rows.take p)⟩
  · refine hom_le_idx1 fun i hi => ?_
    have hm : rowAt (rows.take p) i ∈ rows := List.mem_of_mem_take (rowAt_mem _ i hi)
    exact ⟨fun hl => hom_of_mem_pc hm hl, fun hl c => hom_of_mem_line hm hl c⟩

end PPLV.Lattice.Red
