import PPLV.Lattice.ProofsGridOpsLazy5

/-!
# The `Grid` object, lazy machinery — part 6: `congruences()`, `minimized_congruences()`, `grid_generators()`,
# `minimized_grid_generators()` (Grid_public.cc:304-380)
-/
namespace PPLV.Lattice.GO
open PPLV.Lattice PPLV.Lattice.Red

/-- a flag other than `EMPTY` is set: not marked empty, positive dimension -/
theorem lz_pos_of_cUp {g : Grid} (hI : GridInv g) (hc : g.st.cUp = true) : g.st.empty = false ∧ 0 < g.spaceDim := by
  cases he : g.st.empty
  · refine ⟨rfl, ?_⟩
    by_contra h
    have h0 : g.spaceDim = 0 := by omega
    have := (hI.zdim he h0).1
    rw [this] at hc; exact absurd hc (by decide)
  · have := (hI.emp he).1
    rw [this] at hc; exact absurd hc (by decide)

theorem lz_pos_of_gUp {g : Grid} (hI : GridInv g) (hg : g.st.gUp = true) : g.st.empty = false ∧ 0 < g.spaceDim := by
  cases he : g.st.empty
  · refine ⟨rfl, ?_⟩
    by_contra h
    have h0 : g.spaceDim = 0 := by omega
    have := (hI.zdim he h0).1
    rw [this] at hg; exact absurd hg (by decide)
  · have := (hI.emp he).1
    rw [this] at hg; exact absurd hg (by decide)

theorem lz_gUp_of_not_cUp {g : Grid} (hI : GridInv g) (he : g.st.empty = false) (hpos : 0 < g.spaceDim)
    (hc : g.st.cUp = false) : g.st.gUp = true := by
  rcases hI.some he hpos with h | h
  · rw [hc] at h; exact absurd h (by decide)
  · exact h

theorem lz_cUp_of_not_gUp {g : Grid} (hI : GridInv g) (he : g.st.empty = false) (hpos : 0 < g.spaceDim)
    (hg : g.st.gUp = false) : g.st.cUp = true := by
  rcases hI.some he hpos with h | h
  · exact h
  · rw [hg] at h; exact absurd h (by decide)

/-! ### `congruences()` -/

/-- `congruences()`: invariant, grid and dimension kept; afterwards the congruences are up to date unless the object
    is marked empty or 0-dimensional; a state whose congruences are up to date is returned unchanged -/
theorem congruences_spec (g : Grid) (hI : GridInv g) :
    GridInv (congruences g) ∧ (congruences g).sem = g.sem ∧ (congruences g).spaceDim = g.spaceDim ∧
    (congruences g).st.empty = g.st.empty ∧
    (g.st.empty = false → 0 < g.spaceDim → (congruences g).st.cUp = true) ∧
    (g.st.cUp = true → congruences g = g) ∧ (g.st.cMin = true → (congruences g).st.cMin = true) := by
  cases he : g.st.empty
  swap
  · have hU : congruences g = g := by simp [congruences, Grid.markedEmpty, he]
    rw [hU]
    exact ⟨hI, rfl, rfl, he, fun h => by simp at h, fun _ => rfl, fun h => h⟩
  by_cases h0 : g.spaceDim = 0
  · have hU : congruences g = g := by simp [congruences, Grid.markedEmpty, he, h0]
    rw [hU]
    exact ⟨hI, rfl, rfl, he, fun _ h => by omega, fun _ => rfl, fun h => h⟩
  have hpos : 0 < g.spaceDim := by omega
  cases hc : g.st.cUp
  · have hU : congruences g = updateCongruences g := by
      simp [congruences, Grid.markedEmpty, he, h0, Grid.congruencesAreUpToDate, hc]
    obtain ⟨k1, k2, k3, k4, k5, k6, k7, k8⟩ :=
      updateCongruences_spec g hI he hpos (lz_gUp_of_not_cUp hI he hpos hc) hc
    rw [hU]
    exact ⟨k1, k2, k3, k4, fun _ _ => k7, fun h => by simp at h, fun _ => k8⟩
  · have hU : congruences g = g := by
      simp [congruences, Grid.markedEmpty, he, h0, Grid.congruencesAreUpToDate, hc]
    rw [hU]
    exact ⟨hI, rfl, rfl, he, fun _ _ => hc, fun _ => rfl, fun h => h⟩

theorem congruences_lazy : LazyOK congruences := fun g hI =>
  ⟨(congruences_spec g hI).1, (congruences_spec g hI).2.1, (congruences_spec g hI).2.2.1⟩

/-! ### `grid_generators()` -/

/-- `grid_generators()`: afterwards marked empty, or 0-dimensional, or the generators are up to date -/
theorem gridGenerators_spec (g : Grid) (hI : GridInv g) :
    GridInv (gridGenerators g) ∧ (gridGenerators g).sem = g.sem ∧ (gridGenerators g).spaceDim = g.spaceDim ∧
    ((gridGenerators g).st.empty = true ↔ g.sem = ∅) ∧
    ((gridGenerators g).st.empty = false → 0 < g.spaceDim → (gridGenerators g).st.gUp = true) ∧
    (g.st.gUp = true → gridGenerators g = g) := by
  by_cases h0 : g.spaceDim = 0
  · have hU : gridGenerators g = g := by simp [gridGenerators, h0]
    rw [hU]
    refine ⟨hI, rfl, rfl, ?_, fun _ h => by omega, fun _ => rfl⟩
    cases he : g.st.empty
    · simp [lz_ne_empty_of_nonempty (lz_nonempty_of_zdim he h0)]
    · simp [lz_sem_of_empty he]
  have hpos : 0 < g.spaceDim := by omega
  cases he : g.st.empty
  swap
  · have hU : gridGenerators g = g := by simp [gridGenerators, Grid.markedEmpty, he, h0]
    rw [hU]
    exact ⟨hI, rfl, rfl, by simp [he, lz_sem_of_empty he], fun h => by rw [he] at h; exact absurd h (by decide),
      fun _ => rfl⟩
  cases hg : g.st.gUp
  · have hU : gridGenerators g = if (updateGenerators g).2 = true then (updateGenerators g).1
        else setEmpty (updateGenerators g).1 := by
      simp [gridGenerators, Grid.markedEmpty, he, h0, Grid.generatorsAreUpToDate, hg]
      cases (updateGenerators g).2 <;> simp
    obtain ⟨k1, k2, k3, k4, k5, k6⟩ := updateGenerators_spec g hI he hpos (lz_cUp_of_not_gUp hI he hpos hg) hg
    cases hb : (updateGenerators g).2
    · have hemp : g.sem = ∅ := by
        by_contra hne
        have := k4.mpr (Set.nonempty_iff_ne_empty.mpr hne)
        rw [hb] at this; exact absurd this (by decide)
      rw [hU, hb]
      exact ⟨lz_setEmpty_inv _, by rw [if_neg (by decide), lz_setEmpty_sem, hemp], k3, by simp [hemp, lz_setEmpty_empty],
        fun h => by simp [setEmpty, Status.setEmpty] at h, fun h => by simp at h⟩
    · have hne : (g.sem).Nonempty := k4.mp hb
      rw [hU, hb]
      exact ⟨k1, k2, k3, by simp [(k5 hb).1, lz_ne_empty_of_nonempty hne], fun _ _ => (k5 hb).2.1, fun h => by simp at h⟩
  · have hU : gridGenerators g = g := by
      simp [gridGenerators, Grid.markedEmpty, he, h0, Grid.generatorsAreUpToDate, hg]
    rw [hU]
    exact ⟨hI, rfl, rfl, by simp [he, lz_ne_empty_of_nonempty (lz_nonempty_of_gUp hI he hpos hg)], fun _ _ => hg,
      fun _ => rfl⟩

theorem gridGenerators_lazy : LazyOK gridGenerators := fun g hI =>
  ⟨(gridGenerators_spec g hI).1, (gridGenerators_spec g hI).2.1, (gridGenerators_spec g hI).2.2.1⟩

/-! ### `minimized_congruences()` -/

/-- `minimized_congruences()`; `DkCompatC` is used in one case only: congruences up to date and not minimized while the
    generators are flagged minimized -/
theorem minimizedCongruences_spec_partial (hC : DkCompatC) (g : Grid) (hI : GridInv g) :
    GridInv (minimizedCongruences g) ∧ (minimizedCongruences g).sem = g.sem ∧
    (minimizedCongruences g).spaceDim = g.spaceDim ∧
    ((minimizedCongruences g).st.empty = false → 0 < g.spaceDim →
      (minimizedCongruences g).st.cUp = true ∧ (minimizedCongruences g).st.cMin = true) := by
  by_cases hcase : g.st.cUp = true ∧ g.st.cMin = false
  · obtain ⟨hc, hcm⟩ := hcase
    obtain ⟨he, hpos⟩ := lz_pos_of_cUp hI hc
    obtain ⟨hcd, hcwf⟩ := hI.cwf he hpos hc
    have hU : minimizedCongruences g = congruences (if (simplifyConSys g).2 = true then setEmpty (simplifyConSys g).1
        else (simplifyConSys g).1.setCongruencesMinimized) := by
      simp [minimizedCongruences, Grid.congruencesAreUpToDate, hc, Grid.congruencesAreMinimized, hcm]
    cases hf : (simplifyConSys g).2
    · have hfc : (simplifyCgs g.spaceDim g.con g.dk).2.2 = false := by
        rw [lz_simplifyConSys_eq g hcd] at hf; exact hf
      obtain ⟨j1, j2, _, e2, e1, e6, e4, e3, e5⟩ := lz_simplifyConSys_post g hI he hpos hc hf
        (fun hgm => by
          have hg := hI.gminUp hgm
          obtain ⟨hgd, hgwf, hgn⟩ := hI.gwf he hpos hg
          obtain ⟨hdk, hut, hk0⟩ := hI.gmin he hpos hgm
          rw [lz_simplifyConSys_eq g hcd]
          exact hC g.spaceDim g.con g.dk g.gen g.dk _ hpos hcwf hfc hgwf hgn hdk hut hk0 (hI.agree he hpos hc hg))
      rw [hU, hf, if_neg (by decide), (congruences_spec _ j1).2.2.2.2.2.1 e6]
      exact ⟨j1, j2, e2, fun _ _ => ⟨e6, e4⟩⟩
    · have hemp := (lz_simplifyConSys_flag g hI he hpos hc).mp hf
      have hcg : ∀ x : Grid, congruences (setEmpty x) = setEmpty x := by
        intro x; simp [congruences, Grid.markedEmpty, setEmpty, Status.setEmpty]
      rw [hU, hf, if_pos rfl, hcg]
      exact ⟨lz_setEmpty_inv _, by rw [lz_setEmpty_sem, hemp], rfl, fun h => by simp [setEmpty, Status.setEmpty] at h⟩
  · have hU : minimizedCongruences g = congruences g := by
      have hb : (g.st.cUp && !g.st.cMin) = false := by
        cases hc : g.st.cUp <;> cases hcm : g.st.cMin <;> simp_all
      simp only [minimizedCongruences, Grid.congruencesAreUpToDate, Grid.congruencesAreMinimized, hb]
      simp
    obtain ⟨k1, k2, k3, k4, k5, k6, k7⟩ := congruences_spec g hI
    rw [hU]
    refine ⟨k1, k2, k3, fun h hpos => ?_⟩
    have he : g.st.empty = false := by rw [← k4]; exact h
    refine ⟨k5 he hpos, ?_⟩
    cases hc : g.st.cUp
    · -- computed by `update_congruences`
      have hU2 : congruences g = updateCongruences g := by
        have h0 : g.spaceDim ≠ 0 := by omega
        simp [congruences, Grid.markedEmpty, he, h0, Grid.congruencesAreUpToDate, hc]
      rw [hU2]
      exact (updateCongruences_spec g hI he hpos (lz_gUp_of_not_cUp hI he hpos hc) hc).2.2.2.2.2.2.2
    · have hcm : g.st.cMin = true := by
        cases h' : g.st.cMin
        · exact absurd ⟨hc, h'⟩ hcase
        · rfl
      exact k7 hcm

theorem minimizedCongruences_lazy_partial (hC : DkCompatC) : LazyOK minimizedCongruences := fun g hI =>
  ⟨(minimizedCongruences_spec_partial hC g hI).1, (minimizedCongruences_spec_partial hC g hI).2.1,
    (minimizedCongruences_spec_partial hC g hI).2.2.1⟩

/-- without the duality fact: every state whose generators are not flagged minimized -/
theorem minimizedCongruences_spec_noGMin (g : Grid) (hI : GridInv g) (hgm : g.st.gMin = false ∨ g.st.cMin = true ∨ g.st.cUp = false) :
    GridInv (minimizedCongruences g) ∧ (minimizedCongruences g).sem = g.sem ∧
    (minimizedCongruences g).spaceDim = g.spaceDim ∧
    ((minimizedCongruences g).st.empty = false → 0 < g.spaceDim →
      (minimizedCongruences g).st.cUp = true ∧ (minimizedCongruences g).st.cMin = true) := by
  by_cases hcase : g.st.cUp = true ∧ g.st.cMin = false
  · obtain ⟨hc, hcm⟩ := hcase
    have hgm' : g.st.gMin = false := by
      rcases hgm with h | h | h
      · exact h
      · rw [hcm] at h; exact absurd h (by decide)
      · rw [hc] at h; exact absurd h (by decide)
    obtain ⟨he, hpos⟩ := lz_pos_of_cUp hI hc
    have hU : minimizedCongruences g = congruences (if (simplifyConSys g).2 = true then setEmpty (simplifyConSys g).1
        else (simplifyConSys g).1.setCongruencesMinimized) := by
      simp [minimizedCongruences, Grid.congruencesAreUpToDate, hc, Grid.congruencesAreMinimized, hcm]
    cases hf : (simplifyConSys g).2
    · obtain ⟨j1, j2, _, e2, e1, e6, e4, e3, e5⟩ := lz_simplifyConSys_post g hI he hpos hc hf
        (fun h => by rw [hgm'] at h; exact absurd h (by decide))
      rw [hU, hf, if_neg (by decide), (congruences_spec _ j1).2.2.2.2.2.1 e6]
      exact ⟨j1, j2, e2, fun _ _ => ⟨e6, e4⟩⟩
    · have hemp := (lz_simplifyConSys_flag g hI he hpos hc).mp hf
      have hcg : ∀ x : Grid, congruences (setEmpty x) = setEmpty x := by
        intro x; simp [congruences, Grid.markedEmpty, setEmpty, Status.setEmpty]
      rw [hU, hf, if_pos rfl, hcg]
      exact ⟨lz_setEmpty_inv _, by rw [lz_setEmpty_sem, hemp], rfl, fun h => by simp [setEmpty, Status.setEmpty] at h⟩
  · -- no `simplify`: the proof of the general statement does not use the duality fact here
    have hU : minimizedCongruences g = congruences g := by
      have hb : (g.st.cUp && !g.st.cMin) = false := by
        cases hc : g.st.cUp <;> cases hcm : g.st.cMin <;> simp_all
      simp only [minimizedCongruences, Grid.congruencesAreUpToDate, Grid.congruencesAreMinimized, hb]
      simp
    obtain ⟨k1, k2, k3, k4, k5, k6, k7⟩ := congruences_spec g hI
    rw [hU]
    refine ⟨k1, k2, k3, fun h hpos => ?_⟩
    have he : g.st.empty = false := by rw [← k4]; exact h
    refine ⟨k5 he hpos, ?_⟩
    cases hc : g.st.cUp
    · have hU2 : congruences g = updateCongruences g := by
        have h0 : g.spaceDim ≠ 0 := by omega
        simp [congruences, Grid.markedEmpty, he, h0, Grid.congruencesAreUpToDate, hc]
      rw [hU2]
      exact (updateCongruences_spec g hI he hpos (lz_gUp_of_not_cUp hI he hpos hc) hc).2.2.2.2.2.2.2
    · have hcm : g.st.cMin = true := by
        cases h' : g.st.cMin
        · exact absurd ⟨hc, h'⟩ hcase
        · rfl
      exact k7 hcm

/-! ### `minimized_grid_generators()` -/

/-- `minimized_grid_generators()`; `DkCompatG` is used in one case only: generators up to date and not minimized while
    the congruences are flagged minimized -/
theorem minimizedGridGenerators_spec_partial (hG : DkCompatG) (g : Grid) (hI : GridInv g) :
    GridInv (minimizedGridGenerators g) ∧ (minimizedGridGenerators g).sem = g.sem ∧
    (minimizedGridGenerators g).spaceDim = g.spaceDim ∧
    ((minimizedGridGenerators g).st.empty = true ↔ g.sem = ∅) ∧
    ((minimizedGridGenerators g).st.empty = false → 0 < g.spaceDim →
      (minimizedGridGenerators g).st.gUp = true ∧ (minimizedGridGenerators g).st.gMin = true) := by
  by_cases h0 : g.spaceDim = 0
  · have hU : minimizedGridGenerators g = g := by simp [minimizedGridGenerators, h0]
    rw [hU]
    refine ⟨hI, rfl, rfl, ?_, fun _ h => by omega⟩
    cases he : g.st.empty
    · simp [lz_ne_empty_of_nonempty (lz_nonempty_of_zdim he h0)]
    · simp [lz_sem_of_empty he]
  have hpos : 0 < g.spaceDim := by omega
  cases he : g.st.empty
  swap
  · have hU : minimizedGridGenerators g = g := by simp [minimizedGridGenerators, Grid.markedEmpty, he, h0]
    rw [hU]
    exact ⟨hI, rfl, rfl, by simp [he, lz_sem_of_empty he], fun h => by rw [he] at h; exact absurd h (by decide)⟩
  cases hg : g.st.gUp
  · have hU : minimizedGridGenerators g = if (updateGenerators g).2 = true then (updateGenerators g).1
        else setEmpty (updateGenerators g).1 := by
      simp [minimizedGridGenerators, Grid.markedEmpty, he, h0, Grid.generatorsAreUpToDate, hg]
      cases (updateGenerators g).2 <;> simp
    obtain ⟨k1, k2, k3, k4, k5, k6⟩ := updateGenerators_spec g hI he hpos (lz_cUp_of_not_gUp hI he hpos hg) hg
    cases hb : (updateGenerators g).2
    · have hemp : g.sem = ∅ := by
        by_contra hne
        have := k4.mpr (Set.nonempty_iff_ne_empty.mpr hne)
        rw [hb] at this; exact absurd this (by decide)
      rw [hU, hb]
      exact ⟨lz_setEmpty_inv _, by rw [if_neg (by decide), lz_setEmpty_sem, hemp], k3, by simp [hemp, lz_setEmpty_empty],
        fun h => by simp [setEmpty, Status.setEmpty] at h⟩
    · have hne : (g.sem).Nonempty := k4.mp hb
      rw [hU, hb]
      exact ⟨k1, k2, k3, by simp [(k5 hb).1, lz_ne_empty_of_nonempty hne], fun _ _ => ⟨(k5 hb).2.1, (k5 hb).2.2.1⟩⟩
  · have hne := lz_nonempty_of_gUp hI he hpos hg
    cases hgm : g.st.gMin
    · have hU : minimizedGridGenerators g = (simplifyGenSys g).setGeneratorsMinimized := by
        simp [minimizedGridGenerators, Grid.markedEmpty, he, h0, Grid.generatorsAreUpToDate, hg,
          Grid.generatorsAreMinimized, hgm]
      obtain ⟨k1, k2, k3, k4, k5, k6, k7, k8⟩ := lz_simplifyGen_post g hI he hpos hg (fun hcm => by
        have hc := hI.cminUp hcm
        obtain ⟨_, hcwf⟩ := hI.cwf he hpos hc
        obtain ⟨hdk, hlt, hk0⟩ := hI.cmin he hpos hcm
        obtain ⟨_, hgwf, hgn⟩ := hI.gwf he hpos hg
        exact hG g.spaceDim g.con g.dk g.gen g.dk _ hpos hcwf hdk hlt hk0 hgwf hgn (hI.agree he hpos hc hg))
      rw [hU]
      exact ⟨k1, k2, k3, by simp [k4, lz_ne_empty_of_nonempty hne], fun _ _ => ⟨k5, k6⟩⟩
    · have hU : minimizedGridGenerators g = g := by
        simp [minimizedGridGenerators, Grid.markedEmpty, he, h0, Grid.generatorsAreUpToDate, hg,
          Grid.generatorsAreMinimized, hgm]
      rw [hU]
      exact ⟨hI, rfl, rfl, by simp [he, lz_ne_empty_of_nonempty hne], fun _ _ => ⟨hg, hgm⟩⟩

theorem minimizedGridGenerators_lazy_partial (hG : DkCompatG) : LazyOK minimizedGridGenerators := fun g hI =>
  ⟨(minimizedGridGenerators_spec_partial hG g hI).1, (minimizedGridGenerators_spec_partial hG g hI).2.1,
    (minimizedGridGenerators_spec_partial hG g hI).2.2.1⟩

/-- `grid_generators()` on `x ≡ 1 (mod 2)` given by congruences only -/
example :
    let g : Grid := Grid.mk 1 { cUp := true } 1 [⟨[-1, 1], 2⟩] 1 [] []
    invB g = true ∧ (gridGenerators g).gen = [⟨false, [1, 1, 0]⟩, ⟨false, [0, 2, 1]⟩] ∧
      (minimizedCongruences g).con = [⟨[1, 1], 2⟩, ⟨[2, 0], 2⟩] := by decide +kernel

end PPLV.Lattice.GO
