import PPLV.Lattice.ProofsGridOpsGen33

/-!
# Generator side of the `Grid` object, part 34 — the loop of `Grid::difference_assign` (Grid_public.cc:1690)
-/
namespace PPLV.Lattice.GO
open PPLV.Lattice PPLV.Lattice.Red

/-- what `relation_with(cg).implies(is_included())` says -/
theorem gn_relCg_included (x : Grid) (hI : GridInv x) (cg : CRow) (hd : cg.spaceDim ≤ x.spaceDim) (hm : 0 ≤ cg.m) :
    GridInv (relationWithCg x cg).1 ∧ (relationWithCg x cg).1.sem = x.sem ∧
    (relationWithCg x cg).1.spaceDim = x.spaceDim ∧
    (((relationWithCg x cg).2.getD {}).included = true ↔ x.sem ⊆ CRow.set cg) := by
  obtain ⟨a, b, c, rel, e, ok, _⟩ := gn_relationWithCg x hI cg hd hm
  refine ⟨a, b, c, ?_⟩
  rw [e]; exact ok.2.1

/-- **the loop of `difference_assign`**: the receiver keeps its points; if the loop runs to its end, the new grid lies
    inside the receiver, contains the old new grid and every point of the receiver that violates one of the
    congruences of the list -/
theorem gn_differenceLoop : ∀ (L : List CRow) (x ng : Grid), GridInv x → GridInv ng → ng.spaceDim = x.spaceDim →
    (∀ cg ∈ L, cg.spaceDim ≤ x.spaceDim ∧ 0 ≤ cg.m ∧ cg.e ≠ []) → ng.sem ⊆ x.sem →
    GridInv (differenceLoop x ng L).1 ∧ (differenceLoop x ng L).1.sem = x.sem ∧
    (differenceLoop x ng L).1.spaceDim = x.spaceDim ∧
    ∀ ng', (differenceLoop x ng L).2 = some ng' → GridInv ng' ∧ ng'.spaceDim = x.spaceDim ∧ ng'.sem ⊆ x.sem ∧
      ng.sem ⊆ ng'.sem ∧ ∀ p ∈ x.sem, (∃ cg ∈ L, p ∉ CRow.set cg) → p ∈ ng'.sem
  | [], x, ng, hIx, hIn, hd, _, hsub => by
    refine ⟨hIx, rfl, rfl, fun ng' h => ?_⟩
    have : ng = ng' := by simpa [differenceLoop] using h
    subst this
    exact ⟨hIn, hd, hsub, fun _ h => h, fun p _ ⟨cg, hc, _⟩ => by cases hc⟩
  | cg :: rest, x, ng, hIx, hIn, hd, hL, hsub => by
    obtain ⟨hcd, hcm, hce⟩ := hL cg (by simp)
    obtain ⟨a1, b1, c1, i1⟩ := gn_relCg_included x hIx cg hcd hcm
    have hrest : ∀ g' : Grid, g'.spaceDim = x.spaceDim →
        ∀ cg' ∈ rest, cg'.spaceDim ≤ g'.spaceDim ∧ 0 ≤ cg'.m ∧ cg'.e ≠ [] := by
      intro g' hg' cg' hc'
      rw [hg']; exact hL cg' (List.mem_cons_of_mem _ hc')
    rw [differenceLoop]
    simp only []
    by_cases hi : ((relationWithCg x cg).2.getD {}).included = true
    · rw [if_pos hi]
      obtain ⟨p1, p2, p3, p4⟩ := gn_differenceLoop rest (relationWithCg x cg).1 ng a1 hIn (by rw [hd, c1])
        (hrest _ c1) (by rw [b1]; exact hsub)
      refine ⟨p1, by rw [p2, b1], by rw [p3, c1], fun ng' h => ?_⟩
      obtain ⟨q1, q2, q3, q4, q5⟩ := p4 ng' h
      refine ⟨q1, by rw [q2, c1], by rw [← b1]; exact q3, q4, fun p hp ⟨cg', hc', hv⟩ => ?_⟩
      rcases List.mem_cons.mp hc' with rfl | hc'
      · exact absurd (i1.mp hi hp) hv
      · exact q5 p (by rw [b1]; exact hp) ⟨cg', hc', hv⟩
    · rw [if_neg hi]
      by_cases hpr : cg.isProperCongruence = true
      · rw [if_pos hpr]
        obtain ⟨d0, d1, d2, d3, d4⟩ := gn_twoCompl_dims cg
        obtain ⟨a2, b2, c2, i2⟩ := gn_relCg_included (relationWithCg x cg).1 a1 (twoCompl0 cg)
          (by rw [d0, c1]; exact hcd) (by rw [d2]; exact hcm)
        by_cases hi2 : ((relationWithCg (relationWithCg x cg).1 (twoCompl0 cg)).2.getD {}).included = true
        · rw [if_pos hi2]
          -- `x` is not empty: it is not included in `cg`
          have hxne : x.sem.Nonempty := by
            by_contra h
            rw [Set.not_nonempty_iff_eq_empty] at h
            exact hi (i1.mpr (by rw [h]; exact Set.empty_subset _))
          obtain ⟨k1, k2, k3⟩ := cn_copyCtor (relationWithCg (relationWithCg x cg).1 (twoCompl0 cg)).1 a2
          have hcne : (copyCtor (relationWithCg (relationWithCg x cg).1 (twoCompl0 cg)).1).st.empty = false :=
            gn_not_marked_of_nonempty (by rw [k2, b2, b1]; exact hxne)
          obtain ⟨z1, z2, z3⟩ := cn_addCongruenceNoCheck updateCongruences_spec _ (twoCompl cg) k1 hcne
            (by rw [d1, k3, c2, c1]; exact hcd) (by rw [d3]; omega) (d4 hce)
          rw [k2, b2, b1] at z2
          rw [k3, c2, c1] at z3
          obtain ⟨u1, _, _, u4, _, _, u7⟩ := gn_upperBoundAssign ensureGenerators_spec ng _ hIn z1 (by rw [hd, z3])
          have hub : (upperBoundAssign ng (addCongruenceNoCheck
              (copyCtor (relationWithCg (relationWithCg x cg).1 (twoCompl0 cg)).1) (twoCompl cg))).x.sem ⊆ x.sem :=
            u7.2.2 _ (gn_closed_grid x hIx) hsub (by rw [z2]; exact Set.inter_subset_left)
          obtain ⟨p1, p2, p3, p4⟩ := gn_differenceLoop rest (relationWithCg (relationWithCg x cg).1 (twoCompl0 cg)).1 _
            a2 u1 (by rw [u4, hd, c2, c1]) (hrest _ (by rw [c2, c1])) (by rw [b2, b1]; exact hub)
          refine ⟨p1, by rw [p2, b2, b1], by rw [p3, c2, c1], fun ng' h => ?_⟩
          obtain ⟨q1, q2, q3, q4, q5⟩ := p4 ng' h
          refine ⟨q1, by rw [q2, c2, c1], by rw [← b1, ← b2]; exact q3, fun p hp => q4 (u7.1 hp),
            fun p hp ⟨cg', hc', hv⟩ => ?_⟩
          rcases List.mem_cons.mp hc' with rfl | hc'
          · apply q4
            apply u7.2.1
            rw [z2]
            refine ⟨hp, gn_twoCompl_of_violates _ hce p ?_ hv⟩
            exact i2.mp hi2 (by rw [b1]; exact hp)
          · exact q5 p (by rw [b2, b1]; exact hp) ⟨cg', hc', hv⟩
        · rw [if_neg hi2]
          exact ⟨a2, by rw [b2, b1], by rw [c2, c1], fun ng' h => by cases h⟩
      · rw [if_neg hpr]
        exact ⟨a1, b1, c1, fun ng' h => by cases h⟩

end PPLV.Lattice.GO
