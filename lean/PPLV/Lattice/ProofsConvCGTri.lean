import PPLV.Lattice.ProofsConvCGMain

/-!
# The result of `Grid::conversion` (congruences → generators) is upper triangular
(`PPL_ASSERT(upper_triangular(dest, dim_kinds))`, Grid_conversion.cc:494, and after the final reduction)
-/
namespace PPLV.Lattice.Red

def cgUtStep (sys : List GRow) (dk : List Nat) (st : Nat × Bool) (dim : Nat) : Nat × Bool :=
  if !st.2 then st
  else if kind dk dim = GEN_VIRTUAL then st
  else if st.1 = 0 then (0, false)
  else
    let gen := rowAt sys (st.1 - 1)
    if get gen.e dim ≤ 0 then (st.1 - 1, false)
    else if !allZeroes gen.e 0 dim then (st.1 - 1, false)
    else (st.1 - 1, true)

theorem cgUpperTriangular_eq (n : Nat) (sys : List GRow) (dk : List Nat) :
    upperTriangular n sys dk =
      (if sys.length > n + 1 then false
       else
        let r := (dimsDown (n + 1)).foldl (cgUtStep sys dk) (sys.length, true)
        r.2 && r.1 == 0) := rfl

theorem cg_cntBelow_le (P : Nat → Bool) (d : Nat) : cntBelow P d ≤ d := by
  induction d with
  | zero => simp [cntBelow]
  | succ d ih => simp only [cntBelow]; split <;> omega

/-- rows with positive diagonal and zeros before it, one per non-virtual dimension, are upper triangular -/
theorem cg_upperTriangular_of_rows (n : Nat) (dk : List Nat) (T : List GRow) (hlen : T.length = nv dk (n + 1))
    (hrows : ∀ q, q < n + 1 → nvB dk q = true →
      0 < get (rowAt T (nv dk q)).e q ∧ ∀ k, k < q → get (rowAt T (nv dk q)).e k = 0) :
    upperTriangular n T dk = true := by
  rw [cgUpperTriangular_eq]
  have hle : ¬ T.length > n + 1 := by
    rw [hlen]; have := cg_cntBelow_le (nvB dk) (n + 1); simp only [nv]; omega
  rw [if_neg hle]
  have key := foldl_dimsDown_inv (cgUtStep T dk)
    (fun d st => st.2 = true ∧ st.1 = nv dk d) (n + 1) (T.length, true) ⟨rfl, hlen⟩ ?_
  · obtain ⟨k1, k2⟩ := key
    simp only [k1, k2, Bool.true_and, beq_iff_eq]
    rfl
  · rintro d st hd ⟨h1, h2⟩
    unfold cgUtStep
    simp only [h1, Bool.not_true, Bool.false_eq_true, if_false]
    by_cases hl : kind dk d = GEN_VIRTUAL
    · have hlb : nvB dk d = false := by simp [nvB, hl]
      have e1 := cntBelow_succ_neg (nvB dk) d hlb
      rw [if_pos hl]
      exact ⟨h1, by simp only [nv] at *; omega⟩
    · have hlb : nvB dk d = true := by simp [nvB, hl]
      have e1 := cntBelow_succ_pos (nvB dk) d hlb
      rw [if_neg hl]
      have hne : ¬ st.1 = 0 := by simp only [nv] at *; omega
      have hpos : st.1 - 1 = nv dk d := by simp only [nv] at *; omega
      obtain ⟨r1, r2⟩ := hrows d hd hlb
      rw [← hpos] at r1 r2
      have hdiag : ¬ get (rowAt T (st.1 - 1)).e d ≤ 0 := by omega
      have hz : allZeroes (rowAt T (st.1 - 1)).e 0 d = true :=
        (allZeroes_iff _ _ _).mpr (fun i _ h => r2 i h)
      simp only [hne, hdiag, if_false, hz, Bool.not_true, Bool.false_eq_true]
      exact ⟨trivial, hpos⟩

/-- **The result of the conversion is in upper triangular form** w.r.t. the same `dim_kinds`. -/
theorem conversionCgsToGens_triangular (n : Nat) (source : List CRow) (dk : List Nat)
    (hlt : lowerTriangular n source dk = true) (h0 : kind dk 0 = PROPER_CONGRUENCE)
    (hk : ∀ d, d < n + 1 → kind dk d ≤ 2) :
    upperTriangular n (conversionCgsToGens n source dk) dk = true := by
  obtain ⟨L, D0, _, _, hfin⟩ := cgPreDiv_final n source dk hlt h0 hk
  have hsame := conversionCgsToGens_same n source dk L D0 hfin
  refine cg_upperTriangular_of_rows n dk _ (hsame.len.trans hfin.len) (fun q hq hql => ?_)
  have R := hfin.rows q hq hql
  obtain ⟨_, _, hget⟩ := hsame.row (nv dk q)
  exact ⟨by rw [hget q (by omega)]; exact R.diag, fun k hk' => by rw [hget k (by omega)]; exact R.tri k hk'⟩

/-- also before the final reduction and the last loop (the assertion at Grid_conversion.cc:494) -/
theorem cgLoop_triangular (n : Nat) (source : List CRow) (dk : List Nat)
    (hlt : lowerTriangular n source dk = true) (h0 : kind dk 0 = PROPER_CONGRUENCE)
    (hk : ∀ d, d < n + 1 → kind dk d ≤ 2) :
    upperTriangular n (cgLoop n source dk).dest dk = true := by
  obtain ⟨L, D0, _, _, hfin⟩ := cgLoop_final n source dk (lowerTriangular_spec n source dk hlt) hk h0
  exact cg_upperTriangular_of_rows n dk _ hfin.len (fun q hq hql => ⟨(hfin.rows q hq hql).diag, (hfin.rows q hq hql).tri⟩)

/-- satisfiable hypotheses -/
example :
    let source : List CRow := [{ e := [-1, 2], m := 3 }, { e := [3, 0], m := 3 }]
    let dk : List Nat := [PROPER_CONGRUENCE, PROPER_CONGRUENCE]
    lowerTriangular 1 source dk = true ∧ kind dk 0 = PROPER_CONGRUENCE ∧ (∀ d, d < 1 + 1 → kind dk d ≤ 2) ∧
      upperTriangular 1 (conversionCgsToGens 1 source dk) dk = true := by
  refine ⟨by decide, rfl, ?_, by decide⟩
  intro d hd
  have : d = 0 ∨ d = 1 := by omega
  rcases this with rfl | rfl <;> decide

end PPLV.Lattice.Red
