import PPLV.Lattice.ProofsConvGCMain

/-!
# The checker `gcCertB` accepts every result of `Grid::conversion` (generators → congruences)

`conversionGensToCgs_cert`: on a valid input the executable certificate `gcCertB n source dest` evaluates to
`true` on `dest = conversionGensToCgs n source dk`; soundness of the conversion is then the corollary
`conversionGensToCgs_sound'` through `gcCert_sound`.
-/
namespace PPLV.Lattice.Red
open PPLV.Lattice

theorem gensShapeB_of (n : Nat) (source : List GRow) (dk : List Nat) (hs : SrcOK (n + 1) source dk)
    (h0 : kind dk 0 = PARAMETER) (hla : LinesAgree n source dk) : gensShapeB source = true := by
  have hv0 : nvB dk 0 = true := by simp [nvB, h0, PARAMETER, GEN_VIRTUAL]
  have hD := hs.diag 0 (by omega) hv0
  have hnv0 : nv dk 0 = 0 := rfl
  rw [hnv0] at hD
  have hlen : 0 < source.length := by
    rw [hs.len]
    have := cntBelow_lt (nvB dk) (show 0 < n + 1 by omega) hv0
    simp only [nv]; omega
  simp only [gensShapeB, Bool.and_eq_true, decide_eq_true_eq, Bool.not_eq_true', List.all_eq_true, beq_iff_eq]
  refine ⟨⟨⟨hlen, ?_⟩, hD⟩, ?_⟩
  · by_contra hc
    have hline : (rowAt source 0).line = true := by simpa using hc
    have := hla _ (rowAt_mem source 0 hlen) hline 0 (by omega) (fun k hk => by omega) (by simp only [sEnt] at hD; omega)
    rw [h0] at this
    exact absurd this (by simp [PARAMETER, LINE])
  · intro g hg
    obtain ⟨i, hi, rfl⟩ := List.getElem_of_mem hg
    rw [List.getElem_drop]
    have hj : 1 + i < source.length := by simp at hi; omega
    rw [← rowAt_eq_getElem source (1 + i) hj]
    rw [hs.len] at hj
    obtain ⟨p, hp, hpv, hpj⟩ := cntBelow_surj (nvB dk) (n + 1) (1 + i) hj
    have hp0 : 0 < p := by
      rcases Nat.eq_zero_or_pos p with h | h
      · subst h; simp [cntBelow] at hpj; omega
      · exact h
    have := hs.zeros p hp hpv 0 hp0
    simp only [sEnt, nv] at this
    rw [hpj] at this
    exact this

/-- **The executable certificate accepts the result of the conversion.** -/
theorem conversionGensToCgs_cert (n : Nat) (source : List GRow) (dk : List Nat)
    (hut : upperTriangular n source dk = true) (hdk : dk.length = n + 1) (h0 : kind dk 0 = PARAMETER)
    (hk : KindsOK n dk) (hla : LinesAgree n source dk) :
    gcCertB n source (conversionGensToCgs n source dk) = true := by
  rw [gcCertB_iff]
  exact ⟨gensShapeB_of n source dk (upperTriangular_spec n source dk hut) h0 hla,
    (conversionGensToCgs_certP n source dk hut hdk h0 hk hla).2.2⟩

/-- soundness of the conversion as the corollary of the certificate through `gcCert_sound` -/
theorem conversionGensToCgs_sound' (n : Nat) (source : List GRow) (dk : List Nat) (hw : GWf n source)
    (hut : upperTriangular n source dk = true) (hdk : dk.length = n + 1) (h0 : kind dk 0 = PARAMETER)
    (hk : KindsOK n dk) (hla : LinesAgree n source dk) (x : Pt)
    (hx : Hom n source (homog ((get (rowAt source 0).e 0 : Int) : ℚ) x)) :
    cgsSem n (conversionGensToCgs n source dk) x :=
  gcCert_sound n source _ hw (conversionGensToCgs_certP n source dk hut hdk h0 hk hla).2.1
    (conversionGensToCgs_cert n source dk hut hdk h0 hk hla) x hx

end PPLV.Lattice.Red
