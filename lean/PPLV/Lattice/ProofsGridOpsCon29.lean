import PPLV.Lattice.ProofsGridOpsCon20

/-!
# `Grid` stage 3, part 29: `map_space_dimensions(pfunc)` (Grid_templates.hh:114), the degenerate cases

`cn_pfMap pf n`: the coordinate map of the partial function (`y_k = x_j` where `pf j = k`, `0` when no `j < n` maps to `k`;
K2: `mapCoords`).  Cases here: dimension 0 (nothing happens), empty codomain (the empty grid of dimension 0 or the
0-dimensional universe), the identity permutation (nothing happens).
-/
namespace PPLV.Lattice.GO
open PPLV.Lattice PPLV.Lattice.Red

/-- the coordinate map of a partial function on the first `n` coordinates -/
noncomputable def cn_pfMap (pf : PFunc) (n : Nat) : Pt →ₗ[ℚ] Pt :=
  coordMap (fun k => (List.range n).find? (fun j => pf.maps j = some k))

theorem cn_pfMap_apply (pf : PFunc) (n : Nat) (x : Pt) (k : Nat) :
    cn_pfMap pf n x k = match (List.range n).find? (fun j => pf.maps j = some k) with | some j => x j | none => 0 := rfl

theorem cn_mapSD_zdim (g : Grid) (pf : PFunc) (h0 : g.spaceDim = 0) : mapSpaceDimensions g pf = { g := g } := by
  unfold mapSpaceDimensions; rw [if_pos h0]

theorem cn_maps_none_of_empty (pf : PFunc) (h : pf.hasEmptyCodomain = true) (j : Nat) : pf.maps j = none := by
  unfold PFunc.hasEmptyCodomain at h
  rw [List.all_eq_true] at h
  unfold PFunc.maps
  by_cases hj : j < pf.length
  · have := h pf[j] (List.getElem_mem hj)
    rw [List.getD_eq_getElem?_getD, List.getElem?_eq_getElem hj]
    simpa using this
  · rw [List.getD_eq_getElem?_getD, List.getElem?_eq_none (by omega)]; rfl

theorem cn_pfMap_empty (pf : PFunc) (n : Nat) (h : pf.hasEmptyCodomain = true) (x : Pt) : cn_pfMap pf n x = 0 := by
  funext k
  rw [cn_pfMap_apply]
  have : (List.range n).find? (fun j => pf.maps j = some k) = none := by
    rw [List.find?_eq_none]; intro j _; simp [cn_maps_none_of_empty pf h j]
  rw [this]; rfl

/-- empty codomain: every dimension is dropped — the empty grid of dimension 0, or the 0-dimensional universe -/
theorem cn_mapSD_emptyCodomain (g : Grid) (pf : PFunc) (hI : GridInv g) (hpos : 0 < g.spaceDim)
    (h : pf.hasEmptyCodomain = true) :
    (mapSpaceDimensions g pf).thrown = false ∧ GridInv (mapSpaceDimensions g pf).g ∧
      (mapSpaceDimensions g pf).g.spaceDim = 0 ∧
      (mapSpaceDimensions g pf).g.sem = cn_pfMap pf g.spaceDim '' g.sem := by
  have heq : mapSpaceDimensions g pf =
      if (gn_ens g).2 = false then { g := setEmpty { (gn_ens g).1 with spaceDim := 0 } }
      else { g := setZeroDimUniv (gn_ens g).1 } := by
    unfold mapSpaceDimensions
    rw [if_neg (by omega), if_pos h]
    show (if (!(gn_ens g).2) = true then _ else _) = _
    cases (gn_ens g).2 <;> rfl
  rw [heq]
  by_cases h2 : (gn_ens g).2 = false
  · rw [if_pos h2]
    obtain ⟨_, _, _, _, hge⟩ := gn_ens_false ensureGenerators_spec g hI hpos h2
    exact ⟨rfl, cn_setEmpty_inv _, rfl, by rw [cn_setEmpty_sem, hge, Set.image_empty]⟩
  · rw [if_neg h2]
    have hne : g.sem.Nonempty := ((gn_ens_spec ensureGenerators_spec g hI hpos).2.2.2.1).mp (by simpa using h2)
    obtain ⟨a, b, c⟩ := cn_setZeroDimUniv_inv (gn_ens g).1
    refine ⟨rfl, a, c, ?_⟩
    rw [b]
    ext y
    simp only [spaceSet, Set.mem_ofPred_eq, Set.mem_image]
    constructor
    · intro hy
      obtain ⟨x, hx⟩ := hne
      exact ⟨x, hx, by rw [cn_pfMap_empty pf _ h]; funext i; exact (hy i (Nat.zero_le _)).symm⟩
    · rintro ⟨x, _, rfl⟩; rw [cn_pfMap_empty pf _ h]; exact fun i _ => rfl

/-- the identity on the first `n` coordinates -/
theorem cn_pfMap_id (pf : PFunc) (n : Nat) (hid : ∀ j, j < n → pf.maps j = some j) (x : Pt) (hx : Supp n x) :
    cn_pfMap pf n x = x := by
  funext k
  rw [cn_pfMap_apply]
  by_cases hk : k < n
  · have : (List.range n).find? (fun j => pf.maps j = some k) = some k := by
      rw [List.find?_eq_some_iff_getElem]
      refine ⟨by simp [hid k hk], k, by simpa using hk, by simp, ?_⟩
      intro j hj
      have hjn : j < n := by omega
      simp only [List.getElem_range]
      rw [hid j hjn]; simp; omega
    rw [this]
  · have : (List.range n).find? (fun j => pf.maps j = some k) = none := by
      rw [List.find?_eq_none]; intro j hj
      rw [hid j (List.mem_range.mp hj)]; simp; exact fun h => hk (h ▸ List.mem_range.mp hj)
    rw [this]; exact (hx k (by omega)).symm

/-- a "permutation" that moves nothing: the object is not touched -/
theorem cn_mapSD_identity (g : Grid) (pf : PFunc) (hI : GridInv g) (hpos : 0 < g.spaceDim)
    (hne : pf.hasEmptyCodomain = false) (hdim : pf.maxInCodomain + 1 = g.spaceDim)
    (hid : ∀ j, j < g.spaceDim → pf.maps j = some j) :
    mapSpaceDimensions g pf = { g := g } ∧ cn_pfMap pf g.spaceDim '' g.sem = g.sem := by
  constructor
  · unfold mapSpaceDimensions
    rw [if_neg (by omega), if_neg (by rw [hne]; simp)]
    simp only [hdim, if_true]
    have : ((List.range g.spaceDim).any fun j => pf.maps j ≠ some j) = false := by
      rw [List.any_eq_false]; intro j hj
      simp [hid j (List.mem_range.mp hj)]
    simp only [this]
    rfl
  · ext y
    simp only [Set.mem_image]
    constructor
    · rintro ⟨x, hx, rfl⟩; rwa [cn_pfMap_id pf _ hid x (cn_sem_subset_space g hI hx)]
    · intro hy; exact ⟨y, hy, cn_pfMap_id pf _ hid y (cn_sem_subset_space g hI hy)⟩

example : (mapSpaceDimensions cn_exGrid [none]).g.spaceDim = 0 ∧ (mapSpaceDimensions cn_exGrid [some 0]).g = cn_exGrid := by
  decide +kernel

end PPLV.Lattice.GO
