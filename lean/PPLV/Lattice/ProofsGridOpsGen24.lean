import PPLV.Lattice.ProofsGridOpsGen23

/-!
# Generator side of the `Grid` object, part 24 — `relation_with(const Congruence&)`: the body of the loop on a point, the loop
-/
namespace PPLV.Lattice.GO
open PPLV.Lattice PPLV.Lattice.Red

theorem gn_relCgStep_pt (cg : CRow) (st : RelSt) (r : GRow) (hl : r.line = false) (hp : r.isPoint = true) :
    relCgStep cg st r =
      if gn_red cg.isProperCongruence (sp cg.e r.e) st.div = 0 then
        if st.pointSp = 0 then
          if st.parameterFails = true then .inr Rel.si else .inl { st with knownToIntersect := true }
        else .inr Rel.si
      else if st.pointSp = 0 then
        if st.knownToIntersect = true then .inr Rel.si
        else if st.div ≠ 0 ∧ Int.tmod (gn_red cg.isProperCongruence (sp cg.e r.e) st.div) st.div = 0 then .inr Rel.si
        else .inl { st with pointSp := gn_red cg.isProperCongruence (sp cg.e r.e) st.div }
      else
        if gn_red cg.isProperCongruence (sp cg.e r.e) st.div - st.pointSp ≠ 0 then
          if Int.tmod st.pointSp (gcdI st.div (gn_red cg.isProperCongruence (sp cg.e r.e) st.div - st.pointSp)) = 0 then
            .inr Rel.si
          else .inl { st with div := gcdI st.div (gn_red cg.isProperCongruence (sp cg.e r.e) st.div - st.pointSp) }
        else .inl st := by
  unfold relCgStep gn_red
  simp only [hl, hp, Bool.false_eq_true, if_false, if_true]

theorem gn_step_pt (C : gn_RelCtx) (cg : CRow) (hpr : cg.isProperCongruence = false → C.M = 0) (st : RelSt)
    (pre : List GRow) (hpre : ∀ r' ∈ pre, r' ∈ C.rows) (r : GRow) (hr : r ∈ C.rows) (hsp : sp cg.e r.e = C.spf r)
    (hl : r.line = false) (hp : r.isPoint = true) (hI : gn_RInv C st pre) :
    gn_StepOK C pre r (relCgStep cg st r) := by
  have hpt : gn_isPt r = true := hp
  have hnpar : gn_isPar r = false := by
    have := (gn_isPt_iff r).mp hpt
    simp [gn_isPar, this.2]
  have hmemr : r ∈ pre ++ [r] := List.mem_append_right _ (List.mem_singleton.mpr rfl)
  have hlines : ∀ r' ∈ pre ++ [r], r'.line = true → C.spf r' = 0 :=
    gn_forall_snoc hI.lines (fun h => by rw [hl] at h; cases h)
  rw [gn_relCgStep_pt cg st r hl hp, hsp]
  have hsub := gn_red_dvd_sub cg.isProperCongruence (C.spf r) st.div
  by_cases h1 : gn_red cg.isProperCongruence (C.spf r) st.div = 0
  · -- the point satisfies the congruence modulo `div`
    rw [if_pos h1]
    have hdv : st.div ∣ C.spf r := gn_red_zero h1
    by_cases h2 : st.pointSp = 0
    · rw [if_pos h2]
      by_cases h3 : st.parameterFails = true
      · rw [if_pos h3]
        rcases hI.kind with ⟨_, _, _, _, e⟩ | ⟨_, _, c, _⟩ | ⟨a, _⟩
        · obtain ⟨q, hq, pq, nq⟩ := e h3
          have hin := C.in_of_R hI.reach hr hpt hdv
          exact ⟨rfl, hin, C.out_of_in_par hin (hpre q hq) pq nq⟩
        · rw [h3] at c; cases c
        · exact absurd h2 a
      · rw [if_neg h3]
        have h3' : st.parameterFails = false := by simpa using h3
        show gn_RInv C _ (pre ++ [r])
        refine ⟨hI.dvdM, hI.reach, hlines,
          gn_forall_snoc hI.pars (fun h => by rw [hnpar] at h; cases h), ?_⟩
        rcases hI.kind with ⟨a, _, c, d, _⟩ | ⟨a, _, c, d, e, f⟩ | ⟨a, _⟩
        · refine Or.inr (Or.inl ⟨a, rfl, h3', d h3', ⟨r, hmemr, hpt⟩, ?_⟩)
          refine gn_forall_snoc (fun q hq pq => ?_) (fun _ => by rw [← d h3']; exact hdv)
          rw [c q hq] at pq; cases pq
        · refine Or.inr (Or.inl ⟨a, rfl, c, d, gn_exists_snoc r e, ?_⟩)
          exact gn_forall_snoc f (fun _ => by rw [← d]; exact hdv)
        · exact absurd h2 a
    · rw [if_neg h2]
      rcases hI.kind with ⟨a, _⟩ | ⟨a, _⟩ | ⟨_, _, p0, hp0, pp, c, d, _⟩
      · exact absurd a h2
      · exact absurd a h2
      · exact ⟨rfl, C.in_of_R hI.reach hr hpt hdv, gn_out_of_p0 C hI.dvdM (hpre p0 hp0) pp c d⟩
  · rw [if_neg h1]
    have hnM : ¬ C.M ∣ C.spf r := gn_red_ne h1 hI.dvdM hpr
    have hrr : ∀ h : Int.tmod (gn_red cg.isProperCongruence (C.spf r) st.div) st.div = 0, st.div ∣ C.spf r :=
      gn_red_red _ _ _
    generalize hs1 : gn_red cg.isProperCongruence (C.spf r) st.div = s1 at h1 hsub hrr ⊢
    by_cases h2 : st.pointSp = 0
    · rw [if_pos h2]
      by_cases hk : st.knownToIntersect = true
      · rw [if_pos hk]
        rcases hI.kind with ⟨_, b, _⟩ | ⟨_, _, _, _, ⟨p, hp', pp⟩, f⟩ | ⟨a, _⟩
        · rw [hk] at b; cases b
        · exact ⟨rfl, C.in_of_pt (hpre p hp') pp (f p hp' pp), C.out_of_pt hr hpt hnM⟩
        · exact absurd h2 a
      · rw [if_neg hk]
        by_cases hc : st.div ≠ 0 ∧ Int.tmod s1 st.div = 0
        · rw [if_pos hc]
          exact ⟨rfl, C.in_of_R hI.reach hr hpt (hrr hc.2), C.out_of_pt hr hpt hnM⟩
        · rw [if_neg hc]
          show gn_RInv C _ (pre ++ [r])
          refine ⟨hI.dvdM, hI.reach, hlines,
            gn_forall_snoc hI.pars (fun h => by rw [hnpar] at h; cases h), ?_⟩
          rcases hI.kind with ⟨_, b, c, _, _⟩ | ⟨_, b, _⟩ | ⟨a, _⟩
          · refine Or.inr (Or.inr ⟨h1, b, r, hmemr, hpt, hsub, ?_, ?_⟩)
            · intro hdv
              by_cases hz : st.div = 0
              · rw [hz] at hdv; exact h1 (zero_dvd_iff.mp hdv)
              · exact hc ⟨hz, Int.tmod_eq_zero_of_dvd hdv⟩
            · refine gn_forall_snoc (fun q hq pq => ?_) (fun _ => by simp)
              rw [c q hq] at pq; cases pq
          · exact absurd b hk
          · exact absurd h2 a
    · rw [if_neg h2]
      rcases hI.kind with ⟨a, _⟩ | ⟨a, _⟩ | ⟨_, b, p0, hp0, pp, c, d, f⟩
      · exact absurd a h2
      · exact absurd a h2
      · -- `spf r - spf p0 = (s1 - pointSp) + (spf r - s1) - (spf p0 - pointSp)`
        have hdecomp : C.spf r - C.spf p0 = (s1 - st.pointSp) + (C.spf r - s1) - (C.spf p0 - st.pointSp) := by ring
        by_cases h3 : s1 - st.pointSp ≠ 0
        · rw [if_pos h3]
          have hd1 : gcdI st.div (s1 - st.pointSp) ∣ st.div := Int.gcd_dvd_left _ _
          have hd2 : gcdI st.div (s1 - st.pointSp) ∣ s1 - st.pointSp := Int.gcd_dvd_right _ _
          have hRsp2 : C.R (s1 - st.pointSp) := by
            have e : s1 - st.pointSp = (C.spf r - C.spf p0) - (C.spf r - s1) + (C.spf p0 - st.pointSp) := by ring
            rw [e]
            exact C.R_add (C.R_sub (C.R_of_pts hr hpt (hpre p0 hp0) pp) (C.R_of_dvd hI.reach hsub))
              (C.R_of_dvd hI.reach c)
          have hRd : C.R (gcdI st.div (s1 - st.pointSp)) := C.R_gcd hI.reach hRsp2
          have hdr : gcdI st.div (s1 - st.pointSp) ∣ C.spf r - C.spf p0 := by
            rw [hdecomp]
            exact dvd_sub (dvd_add hd2 (dvd_trans hd1 hsub)) (dvd_trans hd1 c)
          by_cases h4 : Int.tmod st.pointSp (gcdI st.div (s1 - st.pointSp)) = 0
          · rw [if_pos h4]
            have hdp : gcdI st.div (s1 - st.pointSp) ∣ C.spf p0 := by
              have := dvd_add (dvd_trans hd1 c) (Int.dvd_of_tmod_eq_zero h4)
              simpa using this
            exact ⟨rfl, C.in_of_R hRd (hpre p0 hp0) pp hdp, gn_out_of_p0 C hI.dvdM (hpre p0 hp0) pp c d⟩
          · rw [if_neg h4]
            show gn_RInv C _ (pre ++ [r])
            refine ⟨dvd_trans hd1 hI.dvdM, hRd, hlines,
              gn_forall_snoc (fun q hq pq => dvd_trans hd1 (hI.pars q hq pq)) (fun h => by rw [hnpar] at h; cases h), ?_⟩
            refine Or.inr (Or.inr ⟨h2, b, p0, List.mem_append_left _ hp0, pp, dvd_trans hd1 c, ?_, ?_⟩)
            · intro hdv; exact h4 (Int.tmod_eq_zero_of_dvd hdv)
            · exact gn_forall_snoc (fun q hq pq => dvd_trans hd1 (f q hq pq)) (fun _ => hdr)
        · rw [if_neg h3]
          have h3' : s1 - st.pointSp = 0 := by simpa using h3
          show gn_RInv C _ (pre ++ [r])
          refine ⟨hI.dvdM, hI.reach, hlines,
            gn_forall_snoc hI.pars (fun h => by rw [hnpar] at h; cases h), ?_⟩
          refine Or.inr (Or.inr ⟨h2, b, p0, List.mem_append_left _ hp0, pp, c, d, ?_⟩)
          refine gn_forall_snoc f (fun _ => ?_)
          rw [hdecomp, h3', zero_add]
          exact dvd_sub hsub c

/-- **one pass through the body of the loop keeps the invariant or rightly answers "strictly intersects"** -/
theorem gn_step (C : gn_RelCtx) (hne : C.S.Nonempty) (cg : CRow) (hpr : cg.isProperCongruence = false → C.M = 0)
    (st : RelSt) (pre : List GRow) (hpre : ∀ r' ∈ pre, r' ∈ C.rows) (r : GRow) (hr : r ∈ C.rows)
    (hsp : sp cg.e r.e = C.spf r) (hI : gn_RInv C st pre) : gn_StepOK C pre r (relCgStep cg st r) := by
  cases hl : r.line with
  | true => exact gn_step_line C hne cg st pre r hr hsp hl hI
  | false =>
    cases hp : r.isPoint with
    | true => exact gn_step_pt C cg hpr st pre hpre r hr hsp hl hp hI
    | false => exact gn_step_par C cg hpr st pre hpre r hr hsp hl hp hI

/-- the loop: either the invariant for all rows, or a right "strictly intersects" -/
theorem gn_loop (C : gn_RelCtx) (hne : C.S.Nonempty) (cg : CRow) (hpr : cg.isProperCongruence = false → C.M = 0)
    (hsp : ∀ r ∈ C.rows, sp cg.e r.e = C.spf r) :
    ∀ (suf pre : List GRow) (st : RelSt), pre ++ suf = C.rows → gn_RInv C st pre →
      match relCgLoop cg st suf with
      | .inl st' => gn_RInv C st' C.rows
      | .inr rel => rel = Rel.si ∧ C.In ∧ C.Out
  | [], pre, st, he, hI => by
    rw [List.append_nil] at he
    show gn_RInv C st C.rows
    rw [← he]; exact hI
  | r :: suf, pre, st, he, hI => by
    have hr : r ∈ C.rows := by rw [← he]; simp
    have hpre : ∀ r' ∈ pre, r' ∈ C.rows := fun r' h => by rw [← he]; exact List.mem_append_left _ h
    have hs := gn_step C hne cg hpr st pre hpre r hr (hsp r hr) hI
    unfold relCgLoop
    cases hstep : relCgStep cg st r with
    | inl st' =>
      rw [hstep] at hs
      exact gn_loop C hne cg hpr hsp suf (pre ++ [r]) st' (by rw [← he]; simp) hs
    | inr rel =>
      rw [hstep] at hs
      exact hs

end PPLV.Lattice.GO
