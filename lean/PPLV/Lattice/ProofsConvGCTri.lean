import PPLV.Lattice.ProofsConvGCMain

/-!
# The result of `Grid::conversion` (generators → congruences) is lower triangular
(`PPL_ASSERT(lower_triangular(dest, dim_kinds))`, Grid_conversion.cc:313, and after the final reduction)
-/
namespace PPLV.Lattice.Red

def gcLtStep (n : Nat) (sys : List CRow) (dk : List Nat) (st : Nat × Bool) (dim : Nat) : Nat × Bool :=
  if !st.2 then st
  else if kind dk dim = CON_VIRTUAL then st
  else
    let cg := rowAt sys st.1
    if get cg.e dim ≤ 0 then (st.1 + 1, false)
    else if !allZeroes cg.e (dim + 1) (n + 1) then (st.1 + 1, false)
    else (st.1 + 1, true)

theorem gc_lowerTriangular_eq (n : Nat) (sys : List CRow) (dk : List Nat) :
    lowerTriangular n sys dk =
      (if sys.length > n + 1 then false
       else
        let r := (dimsDown (n + 1)).foldl (gcLtStep n sys dk) (0, true)
        r.2 && r.1 == sys.length) := rfl

theorem cntBelow_le (P : Nat → Bool) (d : Nat) : cntBelow P d ≤ d := by
  induction d with
  | zero => simp [cntBelow]
  | succ d ih => simp only [cntBelow]; split <;> omega

/-- final rows are lower triangular -/
theorem lowerTriangular_of_final (n : Nat) (source : List GRow) (dk : List Nat) (M L : Int) (T : List CRow)
    (hT : FinalOK source dk (n + 1) M L T) : lowerTriangular n T dk = true := by
  rw [gc_lowerTriangular_eq]
  have hle : ¬ T.length > n + 1 := by
    rw [hT.len]; have := cntBelow_le (nlB dk) (n + 1); simp only [nl]; omega
  rw [if_neg hle]
  have key := foldl_dimsDown_inv (gcLtStep n T dk)
    (fun d st => st.2 = true ∧ st.1 = nl dk (n + 1) - nl dk d) (n + 1) (0, true) ⟨rfl, by simp⟩ ?_
  · obtain ⟨k1, k2⟩ := key
    simp only [k1, k2, hT.len, Bool.true_and, beq_iff_eq]
    simp [nl, cntBelow]
  · rintro d st hd ⟨h1, h2⟩
    have hm := cntBelow_mono (nlB dk) (show d + 1 ≤ n + 1 from hd)
    unfold gcLtStep
    simp only [h1, Bool.not_true, Bool.false_eq_true, if_false]
    by_cases hl : kind dk d = CON_VIRTUAL
    · have hlb : nlB dk d = false := by simp [nlB, hl, CON_VIRTUAL, LINE]
      have e1 := cntBelow_succ_neg (nlB dk) d hlb
      rw [if_pos hl]
      exact ⟨h1, by simp only [nl] at *; omega⟩
    · have hlb : nlB dk d = true := by simpa [nlB, CON_VIRTUAL, LINE] using hl
      have e1 := cntBelow_succ_pos (nlB dk) d hlb
      rw [if_neg hl]
      have hpos : st.1 = pos dk (n + 1) d := by rw [h2]; rfl
      have R := hT.rows d hd hlb
      rw [← hpos] at R
      have hdiag : ¬ get (rowAt T st.1).e d ≤ 0 := by have := R.diag; omega
      have hz : allZeroes (rowAt T st.1).e (d + 1) (n + 1) = true :=
        (allZeroes_iff _ _ _).mpr (fun i h1 _ => R.tri i (by omega))
      simp only [hdiag, if_false, hz, Bool.not_true, Bool.false_eq_true]
      exact ⟨trivial, by simp only [nl] at *; omega⟩

/-- **The result of the conversion is in lower triangular form** w.r.t. the same `dim_kinds`. -/
theorem conversionGensToCgs_triangular (n : Nat) (source : List GRow) (dk : List Nat)
    (hut : upperTriangular n source dk = true) (hdk : dk.length = n + 1) (h0 : kind dk 0 = PARAMETER)
    (hk : KindsOK n dk) : lowerTriangular n (conversionGensToCgs n source dk) dk = true := by
  have hs := upperTriangular_spec n source dk hut
  obtain ⟨M, L, _, _, hfin0⟩ := gcSetModulus_final n source dk hs hk h0
  have hfin := gcReduce_final source dk (n + 1) hdk M L _ hfin0
  rw [← conversionGensToCgs_eq] at hfin
  exact lowerTriangular_of_final n source dk M L _ hfin

/-- also before the final reduction (the assertion at Grid_conversion.cc:313) -/
theorem gcSetModulus_triangular (n : Nat) (source : List GRow) (dk : List Nat)
    (hut : upperTriangular n source dk = true) (h0 : kind dk 0 = PARAMETER) (hk : KindsOK n dk) :
    lowerTriangular n (gcSetModulus (gcLoop n source dk).dest (gcCount source dk (n + 1)).2.1) dk = true := by
  have hs := upperTriangular_spec n source dk hut
  obtain ⟨M, L, _, _, hfin0⟩ := gcSetModulus_final n source dk hs hk h0
  exact lowerTriangular_of_final n source dk M L _ hfin0

/-- satisfiable hypotheses -/
example :
    let source : List GRow := [{ line := false, e := [2, 1, 0] }, { line := false, e := [0, 3, 2] }]
    let dk : List Nat := [PARAMETER, PARAMETER]
    upperTriangular 1 source dk = true ∧ dk.length = 1 + 1 ∧ kind dk 0 = PARAMETER ∧ KindsOK 1 dk ∧
      lowerTriangular 1 (conversionGensToCgs 1 source dk) dk = true := by
  refine ⟨by decide, rfl, rfl, ?_, by decide⟩
  intro d hd
  have : d = 0 ∨ d = 1 := by omega
  rcases this with rfl | rfl <;> decide

end PPLV.Lattice.Red
