import PPLV.Lattice.ProofsGridOpsLazy1
import PPLV.Lattice.ProofsRedGenConv

/-!
# The `Grid` object, lazy machinery — part 3: `update_congruences()` (Grid_nonpublic.cc:493)

The congruences are out of date (every call site tests this; with congruences up to date and generators flagged
minimized the statement is false, see the counterexample at the end).
-/
namespace PPLV.Lattice.GO
open PPLV.Lattice PPLV.Lattice.Red

theorem lz_normalised_of_gnorm {n : Nat} {D : Int} {rows : List GRow} (h : GNorm n D rows) : Normalised n D rows :=
  ⟨h.pos, h.col0, h.pt, h.par, h.lin⟩

theorem lz_gnorm_of_normalised {n : Nat} {D : Int} {rows : List GRow} (h : Normalised n D rows) : GNorm n D rows :=
  ⟨h.Dpos, h.pt, h.pc, h.par, h.ln⟩

theorem lz_homog_mul (k D : Int) (x : Pt) : homog ((k * D : Int) : ℚ) x = (k : ℚ) • homog (D : ℚ) x := by
  funext i
  cases i with
  | zero => simp [homog]
  | succ i => simp [homog]; ring

/-- `simplify(gen_sys, dim_kinds)` on a normalised system: the grid is kept, the output is normalised, triangular
    and carries what the conversion needs -/
theorem lz_simplifyGens_facts {n : Nat} {D : Int} {rows : List GRow} (dk : List Nat) (hwf : GWf n rows)
    (hN : GNorm n D rows) :
    gensSet n (simplifyGens n rows dk).1 = gensSet n rows ∧
    (∃ D', GNorm n D' (simplifyGens n rows dk).1) ∧ GWf n (simplifyGens n rows dk).1 ∧
    upperTriangular n (simplifyGens n rows dk).1 (simplifyGens n rows dk).2 = true ∧
    (simplifyGens n rows dk).2.length = n + 1 ∧ kind (simplifyGens n rows dk).2 0 = PARAMETER ∧
    ConvG n (simplifyGens n rows dk).1 (simplifyGens n rows dk).2 := by
  obtain ⟨k, hk, hN', hH⟩ := simplifyGens_normalised dk hwf (lz_normalised_of_gnorm hN)
  have hN'' := lz_gnorm_of_normalised hN'
  refine ⟨?_, ⟨_, hN''⟩, simplifyGens_wf n rows dk hwf, simplifyGens_triangular n rows dk hwf,
    simplifyGens_dk_length n rows dk hwf, (simplifyGens_kind0 dk hwf (lz_normalised_of_gnorm hN)).1,
    tri_agree (simplifyGens_tri n rows dk hwf)⟩
  rw [lz_gensSet_eq hN'', lz_gensSet_eq hN]
  ext x
  simp only [Set.mem_ofPred_eq]
  rw [lz_homog_mul, hH]

/-- row 0 of an upper-triangular normalised system is the point: its inhomogeneous term is the divisor -/
theorem lz_row0_div {n : Nat} {D : Int} {gen : List GRow} {dk : List Nat} (hN : GNorm n D gen)
    (hut : upperTriangular n gen dk = true) (hdk : dk.length = n + 1) (h0 : kind dk 0 = PARAMETER)
    (hk : KindsOK n dk) (hla : LinesAgree n gen dk) : get (rowAt gen 0).e 0 = D := by
  have hp := (conversionGensToCgs_certP n gen dk hut hdk h0 hk hla).1
  obtain ⟨r, hr, _, _⟩ := hN.pt
  have hlen : 0 < gen.length := List.length_pos_of_mem hr
  have hm := rowAt_mem gen 0 hlen
  cases hl : (rowAt gen 0).line
  · rcases hN.col0 _ hm hl with h | h
    · omega
    · exact h
  · have := hN.lin _ hm hl; omega

/-- the rows `Grid::conversion` produces from generators have the right size and non-negative moduli -/
theorem lz_conversionGens_cwf (n : Nat) (source : List GRow) (dk : List Nat)
    (hut : upperTriangular n source dk = true) (hdk : dk.length = n + 1) (h0 : kind dk 0 = PARAMETER)
    (hk : KindsOK n dk) : CWf n (conversionGensToCgs n source dk) := by
  have hs := upperTriangular_spec n source dk hut
  obtain ⟨M, L, hM, _, hfin0⟩ := gcSetModulus_final n source dk hs hk h0
  have hfin := gcReduce_final source dk (n + 1) hdk M L _ hfin0
  rw [← conversionGensToCgs_eq] at hfin
  intro c hc
  obtain ⟨i, hi, rfl⟩ := (gc_mem_iff_rowAt _ _).mp hc
  rw [hfin.len] at hi
  obtain ⟨q, hq, hql, rfl⟩ := pos_surj dk (n + 1) i hi
  have R := hfin.rows q hq hql
  refine ⟨R.len, ?_⟩
  cases hv : nvB dk q
  · rw [R.mv hv]
  · rw [R.mp hv]; omega

/-- the state `update_congruences` leaves -/
theorem lz_updateCongruences_post (g : Grid) (gen : List GRow) (dk : List Nat) (he : g.st.empty = false)
    (hpos : 0 < g.spaceDim) (hhi : g.st.hi = 0) (hgd : g.genDim = g.spaceDim) (hw : GWf g.spaceDim gen)
    {D : Int} (hN : GNorm g.spaceDim D gen)
    (hut : upperTriangular g.spaceDim gen dk = true) (hdk : dk.length = g.spaceDim + 1)
    (h0 : kind dk 0 = PARAMETER) (hcv : ConvG g.spaceDim gen dk) :
    let g1 : Grid := { g with gen := gen, dk := dk }
    let r := (({ g1 with conDim := g1.genDim, con := conversionGensToCgs g1.genDim g1.gen g1.dk
                }).setCongruencesMinimized).setGeneratorsMinimized
    GridInv r ∧ r.sem = gensSet g.spaceDim gen := by
  intro g1 r
  obtain ⟨hk, hla, hpa⟩ := hcv
  have hI : GridInv r := by
    refine lz_inv_of_both r he hpos hhi rfl rfl hgd ?_ hgd hw hN ?_ hdk ?_ hut h0
    · show CWf g.spaceDim (conversionGensToCgs g.genDim gen dk); rw [hgd]
      exact lz_conversionGens_cwf _ _ _ hut hdk h0 hk
    · show consSet g.spaceDim (conversionGensToCgs g.genDim gen dk) = gensSet g.spaceDim gen
      rw [hgd, lz_gensSet_eq hN]
      ext x
      simp only [consSet, Set.mem_ofPred_eq]
      rw [conversionGensToCgs_exact _ _ _ hw hut hdk h0 hk hla hpa x, lz_row0_div hN hut hdk h0 hk hla]
    · show lowerTriangular g.spaceDim (conversionGensToCgs g.genDim gen dk) dk = true; rw [hgd]
      exact conversionGensToCgs_triangular _ _ _ hut hdk h0 hk
  exact ⟨hI, lz_sem_of_gUp he hpos rfl⟩

/-- **`update_congruences()`** under its precondition (generators up to date, congruences not) -/
theorem updateCongruences_spec' (g : Grid) (hI : GridInv g) (he : g.st.empty = false) (hpos : 0 < g.spaceDim)
    (hg : g.st.gUp = true) (hc : g.st.cUp = false) :
    GridInv (updateCongruences g) ∧ (updateCongruences g).sem = g.sem ∧
    (updateCongruences g).spaceDim = g.spaceDim ∧ (updateCongruences g).st.empty = false ∧
    (updateCongruences g).st.gUp = true ∧ (updateCongruences g).st.gMin = true ∧
    (updateCongruences g).st.cUp = true ∧ (updateCongruences g).st.cMin = true := by
  obtain ⟨hgd, hgwf, hgn⟩ := hI.gwf he hpos hg
  have hsem : g.sem = gensSet g.spaceDim g.gen := lz_sem_of_gUp he hpos hg
  have hhi := hI.hi0 he
  cases hgm : g.st.gMin
  · -- `simplify(gen_sys, dim_kinds)` first
    obtain ⟨hs, ⟨D', hN'⟩, hw', hut, hdk, hk0, hcv⟩ := lz_simplifyGens_facts g.dk hgwf hgn
    obtain ⟨h1, h2⟩ := lz_updateCongruences_post g _ _ he hpos hhi hgd hw' hN' hut hdk hk0 hcv
    have hU : updateCongruences g =
        (({ ({ g with gen := (simplifyGens g.spaceDim g.gen g.dk).1, dk := (simplifyGens g.spaceDim g.gen g.dk).2 } : Grid) with
            conDim := g.genDim,
            con := conversionGensToCgs g.genDim (simplifyGens g.spaceDim g.gen g.dk).1
              (simplifyGens g.spaceDim g.gen g.dk).2 }).setCongruencesMinimized).setGeneratorsMinimized := by
      simp only [updateCongruences, Grid.generatorsAreMinimized, hgm, simplifyGenSys]
      simp [hgd]
    rw [hU]
    refine ⟨h1, ?_, rfl, he, rfl, rfl, rfl, rfl⟩
    rw [h2, hs, hsem]
  · -- already minimized: conversion only
    obtain ⟨hdk, hut, hk0⟩ := hI.gmin he hpos hgm
    have hcv := hI.gminConv he hpos hgm hc
    obtain ⟨h1, h2⟩ := lz_updateCongruences_post g g.gen g.dk he hpos hhi hgd hgwf hgn hut hdk hk0 hcv
    have hU : updateCongruences g =
        (({ ({ g with gen := g.gen, dk := g.dk } : Grid) with
            conDim := g.genDim, con := conversionGensToCgs g.genDim g.gen g.dk }).setCongruencesMinimized).setGeneratorsMinimized := by
      simp only [updateCongruences, Grid.generatorsAreMinimized, hgm]
      simp
    rw [hU]
    refine ⟨h1, ?_, rfl, he, rfl, rfl, rfl, rfl⟩
    rw [h2, hsem]

theorem updateCongruences_spec : UpdateCongruencesSpec := fun g hI he hpos hg hc =>
  updateCongruences_spec' g hI he hpos hg hc

/-- the counterexample to the statement without "congruences out of date": the whole line (point `0`, line `x`)
    flagged minimized with `dim_kinds = [PARAMETER, PARAMETER]` (`upper_triangular` does not look at the line flags),
    congruences `1 ≡ 0 (mod 1)` up to date; the conversion treats the line as a parameter and answers `ℤ` -/
example :
    let g : Grid := Grid.mk 1 { cUp := true, gUp := true, gMin := true } 1 [⟨[1, 0], 1⟩] 1
      [⟨false, [1, 0, 0]⟩, ⟨true, [0, 1, 0]⟩] [0, 0]
    invB g = true ∧ (updateCongruences g).con = [⟨[0, 1], 1⟩, ⟨[1, 0], 1⟩] := by decide +kernel

/-- the hypotheses are satisfiable: the point `1/2` and the parameter `3/2`, generators only -/
example :
    let g : Grid := Grid.mk 1 { gUp := true } 1 [] 1 [⟨false, [2, 1, 0]⟩, ⟨false, [0, 3, 2]⟩] []
    invB g = true ∧ (updateCongruences g).con = [⟨[-1, 2], 3⟩, ⟨[3, 0], 3⟩] := by decide +kernel

end PPLV.Lattice.GO
