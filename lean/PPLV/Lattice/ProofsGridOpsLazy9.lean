import PPLV.Lattice.ProofsGridOpsLazy3
import PPLV.Lattice.ProofsConvCGBase
import PPLV.Lattice.ProofsConvGCTri
import Mathlib.Algebra.BigOperators.Fin
import Mathlib.Tactic.FieldSimp

/-!
# The shared `dim_kinds` — part 9: tools for the duality of the two triangular forms

* `lzV`: back substitution along a triangular family of linear forms — a vector whose first non-zero coordinate is a
  given non-pivot dimension `d` and on which every form of the family vanishes;
* `lz_sep`: a congruence that holds on a whole rational line `x₀ + a·w` has `⟨c, w⟩ = 0`;
* `lower_triangular` / `upper_triangular` read `dim_kinds` only through the tests `= CON_VIRTUAL` / `= GEN_VIRTUAL`.
-/
namespace PPLV.Lattice.GO
open PPLV.Lattice PPLV.Lattice.Red

/-! ### back substitution -/

/-- `V k = 0` for `k < d`, `V d = 1`, and for a pivot `k > d` the value that makes `∑_{j ≤ k} r k j · V j = 0` -/
noncomputable def lzV (r : ℕ → ℕ → ℚ) (P : ℕ → Bool) (d : ℕ) : ℕ → ℚ
  | k => if k < d then 0 else if k = d then 1 else
      if P k then -(∑ j : Fin k, r k j.val * lzV r P d j.val) / r k k else 0
termination_by k => k
decreasing_by exact j.isLt

theorem lzV_lt (r : ℕ → ℕ → ℚ) (P : ℕ → Bool) (d k : ℕ) (h : k < d) : lzV r P d k = 0 := by
  rw [lzV, if_pos h]

theorem lzV_self (r : ℕ → ℕ → ℚ) (P : ℕ → Bool) (d : ℕ) : lzV r P d d = 1 := by
  rw [lzV, if_neg (Nat.lt_irrefl d), if_pos rfl]

theorem lzV_sum (r : ℕ → ℕ → ℚ) (P : ℕ → Bool) (d q : ℕ) (hq : d < q) (hP : P q = true) (hr : r q q ≠ 0) :
    ∑ j ∈ Finset.range (q + 1), r q j * lzV r P d j = 0 := by
  rw [Finset.sum_range_succ]
  conv_lhs => rw [lzV]
  rw [if_neg (by omega), if_neg (by omega), if_pos hP, Fin.sum_univ_eq_sum_range (fun j => r q j * lzV r P d j) q]
  field_simp
  ring

theorem lzV_sum_lt (r : ℕ → ℕ → ℚ) (P : ℕ → Bool) (d q : ℕ) (hq : q < d) :
    ∑ j ∈ Finset.range (q + 1), r q j * lzV r P d j = 0 := by
  apply Finset.sum_eq_zero
  intro j hj
  rw [lzV_lt r P d j (by have := Finset.mem_range.mp hj; omega), mul_zero]

/-! ### a congruence on a rational line -/

theorem lz_ext1_line (x0 W : Pt) (hW0 : W 0 = 0) (a : ℚ) :
    ext1 (fun i => x0 i + a * W (i + 1)) = ext1 x0 + a • W := by
  funext i
  cases i with
  | zero => simp [ext1, hW0]
  | succ i => simp [ext1]

theorem lz_evalRow_line (e : Row) (x0 W : Pt) (hW0 : W 0 = 0) (a : ℚ) :
    evalRow e (fun i => x0 i + a * W (i + 1)) = evalRow e x0 + a * alphaOf (ratRow e) W := by
  unfold evalRow
  rw [lz_ext1_line x0 W hW0 a, dotF_add, dotF_smul, alphaOf_apply]

/-- a congruence (or an equality) satisfied at `x₀ + a·w` for EVERY rational `a` does not see the direction `w` -/
theorem lz_sep (c : CRow) (x0 W : Pt) (hW0 : W 0 = 0)
    (h : ∀ a : ℚ, rsem c (fun i => x0 i + a * W (i + 1))) : alphaOf (ratRow c.e) W = 0 := by
  by_contra hK
  obtain ⟨t0, ht0⟩ := h 0
  rw [lz_evalRow_line c.e x0 W hW0 0, zero_mul, add_zero] at ht0
  by_cases hm : (c.m : ℚ) = 0
  · obtain ⟨t1, ht1⟩ := h (1 / alphaOf (ratRow c.e) W)
    rw [lz_evalRow_line c.e x0 W hW0, ht0, hm] at ht1
    field_simp at ht1
    simp at ht1
  · obtain ⟨t1, ht1⟩ := h ((c.m : ℚ) / (2 * alphaOf (ratRow c.e) W))
    rw [lz_evalRow_line c.e x0 W hW0, ht0] at ht1
    have h2 : (c.m : ℚ) / (2 * alphaOf (ratRow c.e) W) * alphaOf (ratRow c.e) W = (c.m : ℚ) / 2 := by
      field_simp
    rw [h2] at ht1
    have h3 : (2 : ℚ) * ((t1 : ℚ) - t0) = 1 := by
      have : ((t1 : ℚ) - t0) * (c.m : ℚ) = (c.m : ℚ) / 2 := by linarith
      field_simp at this
      linarith
    have h4 : (2 : Int) * (t1 - t0) = 1 := by exact_mod_cast h3
    omega

/-- the same with integer steps only, for an equality -/
theorem lz_sep_eq (c : CRow) (hm : c.m = 0) (x0 W : Pt) (hW0 : W 0 = 0)
    (h0 : rsem c x0) (h1 : rsem c (fun i => x0 i + 1 * W (i + 1))) : alphaOf (ratRow c.e) W = 0 := by
  obtain ⟨t0, ht0⟩ := h0
  obtain ⟨t1, ht1⟩ := h1
  rw [lz_evalRow_line c.e x0 W hW0, ht0, hm] at ht1
  simpa using ht1

/-! ### the triangularity tests read `dim_kinds` through one comparison -/

theorem lz_mem_dimsDown {m d : Nat} (h : d ∈ dimsDown m) : d < m := by
  simpa [dimsDown] using h

theorem lz_lowerTriangular_congr (n : Nat) (con : List CRow) (dk dk' : List Nat)
    (h : ∀ d, d < n + 1 → (kind dk d = CON_VIRTUAL ↔ kind dk' d = CON_VIRTUAL)) :
    lowerTriangular n con dk = lowerTriangular n con dk' := by
  rw [gc_lowerTriangular_eq, gc_lowerTriangular_eq]
  have e : (dimsDown (n + 1)).foldl (gcLtStep n con dk) (0, true) =
      (dimsDown (n + 1)).foldl (gcLtStep n con dk') (0, true) := by
    apply List.foldl_ext
    intro st d hd
    have hd' := lz_mem_dimsDown hd
    unfold gcLtStep
    by_cases hk : kind dk d = CON_VIRTUAL
    · rw [if_pos hk, if_pos ((h d hd').mp hk)]
    · rw [if_neg hk, if_neg (fun hh => hk ((h d hd').mpr hh))]
  rw [e]

theorem lz_upperTriangular_congr (n : Nat) (gen : List GRow) (dk dk' : List Nat)
    (h : ∀ d, d < n + 1 → (kind dk d = GEN_VIRTUAL ↔ kind dk' d = GEN_VIRTUAL)) :
    upperTriangular n gen dk = upperTriangular n gen dk' := by
  rw [gc_upperTriangular_eq, gc_upperTriangular_eq]
  have e : (dimsDown (n + 1)).foldl (utStep gen dk) (gen.length, true) =
      (dimsDown (n + 1)).foldl (utStep gen dk') (gen.length, true) := by
    apply List.foldl_ext
    intro st d hd
    have hd' := lz_mem_dimsDown hd
    unfold utStep
    by_cases hk : kind dk d = GEN_VIRTUAL
    · rw [if_pos hk, if_pos ((h d hd').mp hk)]
    · rw [if_neg hk, if_neg (fun hh => hk ((h d hd').mpr hh))]
  rw [e]

end PPLV.Lattice.GO
