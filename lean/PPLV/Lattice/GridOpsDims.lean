import PPLV.Lattice.GridOpsMut
/-!
# The `Grid` object, part 4 — space dimensions and affine transformers (code-shaped, no Mathlib)

/repo/src/Grid_chdims.cc (`add_space_dimensions_and_embed/project`, `concatenate_assign`, `remove_space_dimensions`,
`remove_higher_space_dimensions`, `expand_space_dimension`, `fold_space_dimensions`), Grid_templates.hh
(`map_space_dimensions`), Grid_public.cc (`affine_image`, `affine_preimage`, `generalized_affine_image/preimage` in
both forms, `bounded_affine_image/preimage`).
-/
namespace PPLV.Lattice.GO
open PPLV.Lattice.Red

/-- `std::vector::resize(n, val)` -/
def resizeKindsWith (dk : List Nat) (n val : Nat) : List Nat := dk.take n ++ List.replicate (n - dk.length) val

/-! ### adding dimensions (Grid_chdims.cc:31-216) -/

/-- Grid_chdims.cc:71 -/
def addSpaceDimensionsAndEmbed (g : Grid) (m : Nat) : Grid :=
  if m = 0 then g
  else if g.markedEmpty then setEmpty { g with spaceDim := g.spaceDim + m }
  else if g.spaceDim = 0 then constructDeg m true
  else
    let g1 :=
      if g.congruencesAreUpToDate then
        if g.generatorsAreUpToDate then
          -- `add_space_dimensions(con_sys, gen_sys, m)` (Grid_chdims.cc:31)
          let oldModulusIndex := g.conDim + 1
          let cs := g.cs.setSpaceDim (g.spaceDim + m)
          let dk := if g.congruencesAreMinimized ∨ g.generatorsAreMinimized then
              resizeKindsWith g.dk (oldModulusIndex + m) CON_VIRTUAL else g.dk
          { (g.withCs cs).withGs (g.gs.addUniverseRowsAndColumns m) with dk := dk }
        else
          let cs := g.cs.setSpaceDim (g.conDim + m)
          let dk := if g.congruencesAreMinimized then resizeKindsWith g.dk (cs.dim + 1) CON_VIRTUAL else g.dk
          { g.withCs cs with dk := dk }
      else
        let gs := g.gs.addUniverseRowsAndColumns m
        let dk := if g.generatorsAreMinimized then resizeKindsWith g.dk (gs.dim + 1) LINE else g.dk
        { g.withGs gs with dk := dk }
    { g1 with spaceDim := g1.spaceDim + m }

/-- Grid_chdims.cc:148 -/
def addSpaceDimensionsAndProject (g : Grid) (m : Nat) : Grid :=
  if m = 0 then g
  else if g.markedEmpty then setEmpty { g with spaceDim := g.spaceDim + m }
  else if g.spaceDim = 0 then constructDeg m true
  else
    let g1 :=
      if g.congruencesAreUpToDate then
        if g.generatorsAreUpToDate then
          -- `add_space_dimensions(gen_sys, con_sys, m)` (Grid_chdims.cc:49)
          let cs := g.cs.addUnitRowsAndSpaceDimensions m
          let gs := normalizeDivisors1 (g.gs.setSpaceDim (g.spaceDim + m))
          { (g.withCs cs).withGs gs with dk := resizeKindsWith g.dk (cs.dim + 1) EQUALITY }
        else
          let cs := g.cs.addUnitRowsAndSpaceDimensions m
          let dk := if g.congruencesAreMinimized then resizeKindsWith g.dk (cs.dim + 1) EQUALITY else g.dk
          { g.withCs cs with dk := dk }
      else
        let gs := normalizeDivisors1 (g.gs.setSpaceDim (g.spaceDim + m))
        let dk := if g.generatorsAreMinimized then resizeKindsWith g.dk (gs.dim + 1) EQUALITY else g.dk
        { g.withGs gs with dk := dk }
    { g1 with spaceDim := g1.spaceDim + m }

/-- Grid_chdims.cc:218 `concatenate_assign(y)` -/
def concatenateAssign (x y : Grid) : R2 :=
  let added := y.spaceDim
  if x.markedEmpty ∨ y.markedEmpty then { x := setEmpty { x with spaceDim := x.spaceDim + added }, y := y }
  else if added = 0 then { x := x, y := y }
  else if x.spaceDim = 0 then { x := assign x y, y := y }
  else
    let x1 := if !x.congruencesAreUpToDate then updateCongruences x else x
    let y1 := congruences y
    let x2 := { x1.withCs (x1.cs.concatenate y1.cs) with spaceDim := x1.spaceDim + added }
    { x := (x2.clearCongruencesMinimized).clearGeneratorsUpToDate, y := y1 }

/-! ### removing dimensions (Grid_chdims.cc:265-400) -/

/-- Grid_chdims.cc:265 `remove_space_dimensions(vars)`; `vars` increasing -/
def removeSpaceDimensions (g : Grid) (vars : List Nat) : R :=
  if vars.isEmpty then { g := g }
  else if g.spaceDim < vars.foldl (fun m v => max m (v + 1)) 0 then { g := g, thrown := true }
  else
    let newDim := g.spaceDim - vars.length
    let r : Grid × Bool := if g.markedEmpty then (g, false) else ensureGenerators g
    if !r.2 then { g := setEmpty { r.1 with spaceDim := newDim } }
    else if newDim = 0 then { g := setZeroDimUniv r.1 }
    else
      let g1 := r.1.withGs (r.1.gs.removeSpaceDimensions vars)
      { g := { (g1.clearCongruencesUpToDate).clearGeneratorsMinimized with spaceDim := newDim } }

/-- the number of `dim_kinds[row] != virt` for `new_dimension < row ≤ space_dim` -/
def countRedundant (dk : List Nat) (newDim spaceDim virt : Nat) : Nat :=
  ((List.range' (newDim + 1) (spaceDim - newDim)).filter fun row => kind dk row ≠ virt).length

/-- Grid_chdims.cc:306 `remove_higher_space_dimensions(new_dimension)` -/
def removeHigherSpaceDimensions (g : Grid) (newDim : Nat) : R :=
  if newDim > g.spaceDim then { g := g, thrown := true }
  else if newDim = g.spaceDim then { g := g }
  else
    let r := isEmpty g
    let g0 := r.1
    if r.2 then { g := setEmpty { g0 with spaceDim := newDim } }
    else if newDim = 0 then { g := setZeroDimUniv g0 }
    else if g0.generatorsAreUpToDate then
      let gs := g0.gs.setSpaceDim newDim
      let g1 : Grid :=
        if g0.generatorsAreMinimized then
          let numRedundant := countRedundant g0.dk newDim g0.spaceDim GEN_VIRTUAL
          let gs1 : GSys := if numRedundant > 0 then { gs with rows := gs.rows.take (gs.rows.length - numRedundant) } else gs
          { g0.withGs gs1 with dk := resizeKinds g0.dk (newDim + 1) }
        else g0.withGs gs
      let cs := falseCSys (newDim + 2)
      { g := { (g1.clearCongruencesUpToDate).withCs cs with spaceDim := newDim } }
    else
      let cs := g0.cs.setSpaceDim newDim
      let numRedundant := countRedundant g0.dk newDim g0.spaceDim CON_VIRTUAL
      let g1 := { g0.withCs (cs.removeFirstRows numRedundant) with dk := g0.dk.take (newDim + 1) }
      { g := { (g1.clearGeneratorsUpToDate).withGs { dim := newDim + 2, rows := [] } with spaceDim := newDim } }

/-! ### affine image and preimage (Grid_public.cc:1932, :2023) -/

def negExpr (e : LinExpr) : LinExpr := e.map (fun x => -x)
/-- `e.set_coefficient(Variable(v), c)` (`v` below the dimension of `e`) -/
def setCoeff (e : LinExpr) (v : Nat) (c : Int) : LinExpr := e.set (v + 1) c

/-- `gen_sys.affine_image(var, ±expr, ±denominator)` with a positive third argument -/
def genAffineImagePos (s : GSys) (v : Nat) (e : LinExpr) (den : Int) : GSys :=
  if den > 0 then s.affineImage v e den else s.affineImage v (negExpr e) (-den)
/-- `con_sys.affine_preimage(var, ±expr, ±denominator)` with a positive third argument -/
def conAffinePreimagePos (s : CSys) (v : Nat) (e : LinExpr) (den : Int) : CSys :=
  if den > 0 then s.affinePreimage v e den else s.affinePreimage v (negExpr e) (-den)

/-- the inverse transformation (Grid_public.cc:1980-1993): `(inverse, positive denominator)` -/
def inverseOf (e : LinExpr) (v : Nat) (den : Int) : LinExpr × Int :=
  let ev := e.coeff v
  if ev > 0 then (setCoeff (negExpr e) v den, ev) else (setCoeff e v (-den), -ev)

/-- Grid_public.cc:1932 `affine_image(var, expr, denominator)` -/
def affineImage (g : Grid) (v : Nat) (e : LinExpr) (den : Int) : R :=
  if den = 0 then { g := g, thrown := true }
  else if g.spaceDim < e.spaceDim ∨ g.spaceDim < v + 1 then { g := g, thrown := true }
  else if g.markedEmpty then { g := g }
  else if v + 1 ≤ e.spaceDim ∧ e.coeff v ≠ 0 then
    let g1 :=
      if g.generatorsAreUpToDate then
        (g.withGs (normalizeDivisors1 (genAffineImagePos g.gs v e den))).clearGeneratorsMinimized
      else g
    let g2 :=
      if g1.congruencesAreUpToDate then
        let inv := inverseOf e v den
        (g1.withCs (g1.cs.affinePreimage v inv.1 inv.2)).clearCongruencesMinimized
      else g1
    { g := g2 }
  else
    let g1 := if !g.generatorsAreUpToDate then (minimize g).1 else g
    if !g1.markedEmpty then
      let gs := genAffineImagePos g1.gs v e den
      let g2 := ((g1.withGs gs).clearCongruencesUpToDate).clearGeneratorsMinimized
      { g := g2.withGs (normalizeDivisors1 g2.gs) }
    else { g := g1 }

/-- Grid_public.cc:2023 `affine_preimage(var, expr, denominator)` -/
def affinePreimage (g : Grid) (v : Nat) (e : LinExpr) (den : Int) : R :=
  if den = 0 then { g := g, thrown := true }
  else if g.spaceDim < e.spaceDim ∨ g.spaceDim < v + 1 then { g := g, thrown := true }
  else if g.markedEmpty then { g := g }
  else if v + 1 ≤ e.spaceDim ∧ e.coeff v ≠ 0 then
    let g1 :=
      if g.congruencesAreUpToDate then
        (g.withCs (conAffinePreimagePos g.cs v e den)).clearCongruencesMinimized
      else g
    let g2 :=
      if g1.generatorsAreUpToDate then
        let inv := inverseOf e v den
        (g1.withGs (g1.gs.affineImage v inv.1 inv.2)).clearGeneratorsMinimized
      else g1
    { g := g2 }
  else
    let g1 := if !g.congruencesAreUpToDate then (minimize g).1 else g
    let g2 := g1.withCs (conAffinePreimagePos g1.cs v e den)
    { g := (g2.clearGeneratorsUpToDate).clearCongruencesMinimized }

/-! ### generalized affine image / preimage, one variable (Grid_public.cc:2107, :2204) -/

/-- relation symbols: 0 `<`, 1 `≤`, 2 `=`, 3 `≥`, 4 `>`, 5 `≠` -/
def EQUAL : Nat := 2
def NOT_EQUAL : Nat := 5

/-- `parameter(m * Variable(v))` (`m > 0`) -/
def parameterVar (v : Nat) (m : Int) : GRow :=
  { line := false, e := ((List.replicate (v + 3) 0).set (v + 1) m).set (v + 2) 1 }

def absI (z : Int) : Int := if z < 0 then -z else z

/-- the common tail "add the line of `var`" of the non-`EQUAL` cases -/
def relsymLine (g : Grid) (v : Nat) : R :=
  let g1 := if !g.generatorsAreUpToDate then (minimize g).1 else g
  if g1.markedEmpty then { g := g1 } else addGridGenerator g1 (gridLineVar v)

/-- Grid_public.cc:2107 -/
def generalizedAffineImageVar (g : Grid) (v : Nat) (relsym : Nat) (e : LinExpr) (den modulus : Int) : R :=
  if den = 0 then { g := g, thrown := true }
  else if g.spaceDim < e.spaceDim ∨ g.spaceDim < v + 1 then { g := g, thrown := true }
  else if relsym = NOT_EQUAL then { g := g, thrown := true }
  -- a13dde6: the argument check comes before the test for the marked-empty grid
  else if relsym ≠ EQUAL ∧ modulus ≠ 0 then { g := g, thrown := true }
  else if g.markedEmpty then { g := g }
  else if relsym ≠ EQUAL then relsymLine g v
  else
    let r := affineImage g v e den
    if r.thrown then r
    else if modulus = 0 then r
    else
      let g1 := if !r.g.generatorsAreUpToDate then (minimize r.g).1 else r.g
      if g1.markedEmpty then { g := g1 }
      else
        let gs := normalizeDivisors1 (g1.gs.insert (parameterVar v (absI modulus)))
        { g := ((g1.withGs gs).clearGeneratorsMinimized).clearCongruencesUpToDate }

/-- `(denominator*var %= expr) / denominator`, then `/= |modulus|` (Grid_public.cc:2294) -/
def preimageCg (v : Nat) (e : LinExpr) (den modulus : Int) : CRow :=
  let len := max (v + 2) e.length
  let lhs : Row := (List.replicate len 0).set (v + 1) den
  { e := subExpr lhs (resizeRow e len), m := absI den * absI modulus }

/-- Grid_public.cc:2204 -/
def generalizedAffinePreimageVar (g : Grid) (v : Nat) (relsym : Nat) (e : LinExpr) (den modulus : Int) : R :=
  if den = 0 then { g := g, thrown := true }
  else if g.spaceDim < e.spaceDim ∨ g.spaceDim < v + 1 then { g := g, thrown := true }
  else if relsym = NOT_EQUAL then { g := g, thrown := true }
  else if relsym ≠ EQUAL then
    if modulus ≠ 0 then { g := g, thrown := true } else relsymLine g v
  else if g.markedEmpty then { g := g }
  else if modulus = 0 then affinePreimage g v e den
  else if v + 1 ≤ e.spaceDim ∧ e.coeff v ≠ 0 then
    let ev := e.coeff v
    -- `expr - (denominator + var_coefficient) * var`
    let inverseExpr := setCoeff e v (ev - (den + ev))
    generalizedAffineImageVar g v EQUAL inverseExpr (-ev) (absI modulus)
  else
    let g1 := addCongruenceNoCheck g (preimageCg v e den modulus)
    let r := isEmpty g1
    if r.2 then { g := r.1 } else addGridGenerator r.1 (gridLineVar v)

/-- Grid_public.cc:2594, :2640 `bounded_affine_image/preimage(var, lb, ub, d)` -/
def boundedAffineImage (g : Grid) (v : Nat) (lb ub : LinExpr) (den : Int) : R :=
  if den = 0 then { g := g, thrown := true }
  else if g.spaceDim < v + 1 ∨ g.spaceDim < lb.spaceDim ∨ g.spaceDim < ub.spaceDim then { g := g, thrown := true }
  else if g.markedEmpty then { g := g }
  else generalizedAffineImageVar g v 1 ub den 0
def boundedAffinePreimage (g : Grid) (v : Nat) (lb ub : LinExpr) (den : Int) : R :=
  if den = 0 then { g := g, thrown := true }
  else if g.spaceDim < v + 1 ∨ g.spaceDim < lb.spaceDim ∨ g.spaceDim < ub.spaceDim then { g := g, thrown := true }
  else if g.markedEmpty then { g := g }
  else generalizedAffinePreimageVar g v 1 ub den 0

/-! ### generalized affine image / preimage, `lhs` and `rhs` (Grid_public.cc:2313, :2456) -/

/-- `lhs.last_nonzero()`: raw index of the last non-zero entry, 0 if none -/
def lastNonzero (e : LinExpr) : Nat :=
  ((List.range e.length).filter fun i => get e i ≠ 0).foldl (fun _ i => i) 0

/-- the variables with a non-zero coefficient (`Linear_Expression::const_iterator`) -/
def varsOf (e : LinExpr) : List Nat := (List.range (e.length - 1)).filter fun v => get e (v + 1) ≠ 0

/-- `(e1 %= e2) / m`: `Congruence::create` -/
def cgCreate (e1 e2 : LinExpr) (m : Int) : CRow :=
  let len := max e1.length e2.length
  { e := subExpr (resizeRow e1 len) (resizeRow e2 len), m := absI m }

/-- `Linear_Expression(Variable(v))` -/
def varExpr (v : Nat) : LinExpr := (List.replicate (v + 2) 0).set (v + 1) 1

/-- `Congruence_System(new_var == e)`: the equality, strongly normalised by `insert(const Constraint&)` -/
def eqSys (e1 e2 : LinExpr) : CSys :=
  let cg := cgCreate e1 e2 0
  { dim := cg.spaceDim, rows := [cg.strongNormalize] }

/-- the lines of the variables of `lhs` as a system (`new_lines`) -/
def newLines (lhs : LinExpr) : GSys :=
  (varsOf lhs).foldl (fun s v => s.insert (gridLineVar v)) { dim := 0, rows := [] }

/-- `lhs.have_a_common_variable(rhs, Variable(0), Variable(num_common_dims))` -/
def haveCommonVariable (lhs rhs : LinExpr) (k : Nat) : Bool :=
  (List.range k).any fun v => lhs.coeff v ≠ 0 ∧ rhs.coeff v ≠ 0

/-- removal of the temporary dimension; the other dimension operators are defined above -/
def dropLast (g : Grid) : R := removeHigherSpaceDimensions g (g.spaceDim - 1)

/-- the branch "some variables of `lhs` occur in `rhs`" shared by image and preimage: `first` is constrained to
    the new variable by an equality, then the lines are added, then `second ≡ new_var (mod m)` -/
def relWithNewDim (g : Grid) (lhs : LinExpr) (first second : LinExpr) (m : Int) : R :=
  let newVar := g.spaceDim
  let g1 := addSpaceDimensionsAndEmbed g 1
  let r1 := addRecycledCongruences g1 (eqSys (varExpr newVar) first)
  let e := isEmpty r1.g
  if !e.2 then
    let lines := (newLines lhs).setSpaceDim e.1.spaceDim
    let u := (updateGenerators e.1).1
    let gs := normalizeDivisors1 (u.gs.insertSys lines)
    let g2 := ((u.withGs gs).clearCongruencesUpToDate).clearGeneratorsMinimized
    let r2 := addRecycledCongruences g2 (CSys.single (cgCreate second (varExpr newVar) m))
    dropLast r2.g
  else dropLast e.1

/-- Grid_public.cc:2313 -/
def generalizedAffineImageLR (g : Grid) (lhs : LinExpr) (relsym : Nat) (rhs : LinExpr) (modulus : Int) : R :=
  if g.spaceDim < lhs.spaceDim ∨ g.spaceDim < rhs.spaceDim then { g := g, thrown := true }
  else if relsym = NOT_EQUAL then { g := g, thrown := true }
  -- a13dde6: the argument check comes before the test for the marked-empty grid
  else if relsym ≠ EQUAL ∧ modulus ≠ 0 then { g := g, thrown := true }
  else if g.markedEmpty then { g := g }
  else if relsym ≠ EQUAL then
    let g1 := if !g.generatorsAreUpToDate then (minimize g).1 else g
    if g1.markedEmpty then { g := g1 }
    else (varsOf lhs).foldl (fun (r : R) v => if r.thrown then r else addGridGenerator r.g (gridLineVar v)) { g := g1 }
  else
    let m := absI modulus
    let lhsDim := lastNonzero lhs
    if lhsDim = 0 then { g := addCongruenceNoCheck g (cgCreate lhs rhs m) }
    else if haveCommonVariable lhs rhs (min lhsDim rhs.spaceDim) then relWithNewDim g lhs rhs lhs m
    else
      let e := isEmpty g
      if e.2 then { g := e.1 }
      else
        let r := addRecycledGridGenerators e.1 (newLines lhs)
        if r.thrown then r else { g := addCongruenceNoCheck r.g (cgCreate lhs rhs m) }

/-- Grid_public.cc:2456 -/
def generalizedAffinePreimageLR (g : Grid) (lhs : LinExpr) (relsym : Nat) (rhs : LinExpr) (modulus : Int) : R :=
  if g.spaceDim < lhs.spaceDim ∨ g.spaceDim < rhs.spaceDim then { g := g, thrown := true }
  else if relsym = NOT_EQUAL then { g := g, thrown := true }
  -- a13dde6: the argument check comes before the test for the marked-empty grid
  else if relsym ≠ EQUAL ∧ modulus ≠ 0 then { g := g, thrown := true }
  else if g.markedEmpty then { g := g }
  else if relsym ≠ EQUAL then
    let g1 := if !g.generatorsAreUpToDate then (minimize g).1 else g
    if g1.markedEmpty then { g := g1 }
    else (varsOf lhs).foldl (fun (r : R) v => if r.thrown then r else addGridGenerator r.g (gridLineVar v)) { g := g1 }
  else
    let m := absI modulus
    let lhsDim := lastNonzero lhs
    if lhsDim = 0 then { g := addCongruenceNoCheck g (cgCreate lhs rhs m) }
    else if haveCommonVariable lhs rhs (min lhsDim rhs.spaceDim) then relWithNewDim g lhs lhs rhs m
    else
      let g1 := addCongruenceNoCheck g (cgCreate lhs rhs m)
      let e := isEmpty g1
      if e.2 then { g := e.1 } else addRecycledGridGenerators e.1 (newLines lhs)

/-! ### `expand_space_dimension`, `fold_space_dimensions` (Grid_chdims.cc:402, :452) -/

/-- Grid_chdims.cc:402 -/
def expandSpaceDimension (g : Grid) (v m : Nat) : R :=
  if v + 1 > g.spaceDim then { g := g, thrown := true }
  else if m = 0 then { g := g }
  else
    let oldDim := g.spaceDim
    let g1 := congruences (addSpaceDimensionsAndEmbed g m)
    let newCgs : CSys := (g1.con.filter fun cg => !cg.isTautological).foldl (fun (s : CSys) cg =>
      let coeff := get cg.e (v + 1)
      if coeff = 0 then s
      else (List.range' oldDim m).foldl (fun (s : CSys) dst =>
        s.insertVerbatim { cg with e := (cg.e.set (v + 1) 0).set (dst + 1) (get cg.e (dst + 1) + coeff) }) s)
      { dim := 0, rows := [] }
    addRecycledCongruences g1 newCgs

/-- Grid_chdims.cc:452; `vars` increasing -/
def foldSpaceDimensions (g : Grid) (vars : List Nat) (dest : Nat) : R :=
  if dest + 1 > g.spaceDim then { g := g, thrown := true }
  else if vars.isEmpty then { g := g }
  else if vars.foldl (fun m v => max m (v + 1)) 0 > g.spaceDim then { g := g, thrown := true }
  else if vars.contains dest then { g := g, thrown := true }
  else
    let g1 := gridGenerators g
    let g2 :=
      if !g1.markedEmpty then
        vars.foldl (fun (x : Grid) i =>
          let copy := (affineImage (copyCtor x) dest (varExpr i) 1).g
          (upperBoundAssign x copy).x) g1
      else g1
    removeSpaceDimensions g2 vars

/-! ### `map_space_dimensions` (Grid_templates.hh:114) -/

/-- `grid_line(e)`, `parameter(e, d)`, `grid_point(e, d)` for `d > 0` and an expression of dimension `n`
    given by its coefficients (Grid_Generator.cc:44-110) -/
def mkLine (coeffs : List Int) : GRow := ({ line := true, e := 0 :: coeffs ++ [0] } : GRow).strongNormalize
def mkParameter (coeffs : List Int) (d : Int) : GRow := { line := false, e := 0 :: coeffs ++ [d] }
def mkPoint (coeffs : List Int) (d : Int) : GRow := { line := false, e := normalizeRow (d :: coeffs ++ [0]) }

/-- the partial function as the list of images: `pf[j] = some k` -/
abbrev PFunc := List (Option Nat)
def PFunc.maps (pf : PFunc) (j : Nat) : Option Nat := (pf.getD j none)
def PFunc.maxInCodomain (pf : PFunc) : Nat := pf.foldl (fun m o => match o with | some k => max m k | none => m) 0
def PFunc.hasEmptyCodomain (pf : PFunc) : Bool := pf.all (·.isNone)

/-- the coefficients of the mapped expression: coordinate `k` receives the sum of the coefficients mapped to `k` -/
def mapCoeffs (pf : PFunc) (n newDim : Nat) (e : Row) : List Int :=
  (List.range newDim).map fun k =>
    ((List.range n).filter fun j => pf.maps j = some k).foldl (fun s j => s + get e (j + 1)) 0

/-- a row with its coordinates permuted: coordinate `j` moves to `pf j` -/
def permuteRow (pf : PFunc) (n : Nat) (e : Row) : Row :=
  tab e fun i => if 1 ≤ i ∧ i ≤ n then
      (match (List.range n).find? (fun j => pf.maps j = some (i - 1)) with | some j => get e (j + 1) | none => 0)
    else get e i

/-- Grid_templates.hh:114; `none` components of `pf` are unmapped dimensions -/
def mapSpaceDimensions (g : Grid) (pf : PFunc) : R :=
  if g.spaceDim = 0 then { g := g }
  else if pf.hasEmptyCodomain then
    let r : Grid × Bool := if g.markedEmpty then (g, false) else ensureGenerators g
    if !r.2 then { g := setEmpty { r.1 with spaceDim := 0 } } else { g := setZeroDimUniv r.1 }
  else
    let newDim := pf.maxInCodomain + 1
    if newDim = g.spaceDim then
      -- a permutation: cycles of length ≥ 2 are applied to whatever is up to date
      let moved := (List.range g.spaceDim).any fun j => pf.maps j ≠ some j
      if !moved then { g := g }
      else
        let g1 := if g.congruencesAreUpToDate then
            ({ g with con := g.con.map fun (c : CRow) => ({ c with e := permuteRow pf g.spaceDim c.e } : CRow) }).clearCongruencesMinimized
          else g
        let g2 := if g1.generatorsAreUpToDate then
            ({ g1 with gen := g1.gen.map fun (r : GRow) =>
                let e := permuteRow pf g.spaceDim r.e
                ({ r with e := if r.line then signNormalizeRow e else e } : GRow) }).clearGeneratorsMinimized
          else g1
        { g := g2 }
    else
      let g1 := gridGenerators g
      if g1.gen.isEmpty then { g := constructDeg newDim false }
      else
        let systemDivisor := match g1.gen.find? (·.isPoint) with | some p => p.divisor | none => 1
        let newGs : GSys := g1.gen.foldl (fun (s : GSys) old =>
          let coeffs := mapCoeffs pf g1.spaceDim newDim old.e
          let allZeroes := (List.range g1.spaceDim).all fun j => get old.e (j + 1) = 0 ∨ (pf.maps j).isNone
          if old.line then (if !allZeroes then s.insert (mkLine coeffs) else s)
          else if old.isParameter then (if !allZeroes then s.insert (mkParameter coeffs systemDivisor) else s)
          else s.insert (mkPoint coeffs old.divisor)) { dim := 0, rows := [] }
        match constructGgs newGs with
        | some ng => { g := ng }
        | none => { g := g1, thrown := true }

end PPLV.Lattice.GO
