import PPLV.Lattice.ProofsGridOpsGen2

/-!
# Generator side of the `Grid` object, part 3 — `normalize_divisors` (all three overloads) on raw systems:
# the result has normalised divisors (`GNorm`) and generates the same grid (`gn_set`)
-/
namespace PPLV.Lattice.GO
open PPLV.Lattice PPLV.Lattice.Red

/-- generator rows as `Grid` accepts them before the divisors are normalised: right sizes, positive divisors, lines
    with a zero inhomogeneous term, at least one point -/
structure gn_WF (n : Nat) (rows : List GRow) : Prop where
  shape : GShape n rows
  lin : ∀ r ∈ rows, r.line = true → get r.e 0 = 0
  pt : ∃ r ∈ rows, gn_isPt r = true

theorem gn_wf_of_gnorm {n : Nat} {D : Int} {rows : List GRow} (h : GNorm n D rows) (hw : GWf n rows) : gn_WF n rows := by
  refine ⟨fun r hr => ⟨hw r hr, fun hl => ?_⟩, h.lin, ?_⟩
  · rcases h.col0 r hr hl with h0 | h0
    · rw [divisor_param n r (hw r hr) h0, h.par r hr hl h0]; exact h.pos
    · have : get r.e 0 ≠ 0 := by rw [h0]; exact ne_of_gt h.pos
      rw [divisor_point r this, h0]; exact h.pos
  · obtain ⟨r, hr, hl, h0⟩ := h.pt
    exact ⟨r, hr, (gn_isPt_iff r).mpr ⟨hl, by rw [h0]; exact ne_of_gt h.pos⟩⟩

theorem gn_wf_gwf {n : Nat} {rows : List GRow} (h : gn_WF n rows) : GWf n rows := fun r hr => (h.shape r hr).1

theorem gn_vecOf_nonline {n : Nat} {r : GRow} (hlen : r.e.length = n + 2) (hl : r.line = false) :
    gn_vecOf r = (r.coords n (r.divisor : ℚ)).toFun := by
  funext i
  rw [coords_toFun]
  simp [gn_vecOf, gn_spaceDim_of_len hlen, hl]

/-! ### a row-wise map that keeps kinds and vectors keeps the grid -/

theorem gn_filter_map_congr (rows : List GRow) (f : GRow → GRow) (p : GRow → Bool)
    (hp : ∀ r ∈ rows, p (f r) = p r) (hv : ∀ r ∈ rows, gn_vecOf (f r) = gn_vecOf r) :
    ((rows.map f).filter p).map gn_vecOf = (rows.filter p).map gn_vecOf := by
  rw [List.filter_map, List.map_map]
  have : rows.filter (p ∘ f) = rows.filter p := List.filter_congr (fun r hr => hp r hr)
  rw [this]
  apply List.map_congr_left
  intro r hr
  exact hv r (List.mem_of_mem_filter hr)

theorem gn_set_map (rows : List GRow) (f : GRow → GRow) (hline : ∀ r ∈ rows, (f r).line = r.line)
    (h0 : ∀ r ∈ rows, (get (f r).e 0 = 0 ↔ get r.e 0 = 0)) (hv : ∀ r ∈ rows, gn_vecOf (f r) = gn_vecOf r) :
    gn_set (rows.map f) = gn_set rows := by
  have hpt : ∀ r ∈ rows, gn_isPt (f r) = gn_isPt r := by
    intro r hr
    have := h0 r hr
    by_cases hz : get r.e 0 = 0
    · simp [gn_isPt, hline r hr, hz, this.mpr hz]
    · have hz' : get (f r).e 0 ≠ 0 := fun q => hz (this.mp q)
      have a1 : (get r.e 0 != 0) = true := bne_iff_ne.mpr hz
      have a2 : (get (f r).e 0 != 0) = true := bne_iff_ne.mpr hz'
      simp only [gn_isPt, hline r hr, a1, a2]
  have hpar : ∀ r ∈ rows, gn_isPar (f r) = gn_isPar r := by
    intro r hr
    have := h0 r hr
    by_cases hz : get r.e 0 = 0
    · simp [gn_isPar, hline r hr, hz, this.mpr hz]
    · have hz' : get (f r).e 0 ≠ 0 := fun q => hz (this.mp q)
      have a1 : (get r.e 0 == 0) = false := beq_eq_false_iff_ne.mpr hz
      have a2 : (get (f r).e 0 == 0) = false := beq_eq_false_iff_ne.mpr hz'
      simp only [gn_isPar, hline r hr, a1, a2]
  have e1 : gn_pts (rows.map f) = gn_pts rows := gn_filter_map_congr rows f gn_isPt hpt hv
  have e2 : gn_P (rows.map f) = gn_P rows := by
    unfold gn_P; rw [e1, gn_filter_map_congr rows f gn_isPar hpar hv]
  have e3 : gn_L (rows.map f) = gn_L rows := gn_filter_map_congr rows f (fun r => r.line) hline hv
  ext x
  show gn_Mem (rows.map f) x ↔ gn_Mem rows x
  unfold gn_Mem gn_Dir
  rw [e2, e3]
  constructor
  · rintro ⟨r', hr', p, d⟩
    obtain ⟨r, hr, rfl⟩ := List.mem_map.mp hr'
    exact ⟨r, hr, by rw [← hpt r hr]; exact p, by rw [← hv r hr]; exact d⟩
  · rintro ⟨r, hr, p, d⟩
    exact ⟨f r, List.mem_map_of_mem hr, by rw [hpt r hr]; exact p, by rw [hv r hr]; exact d⟩

/-! ### `scale_to_divisor` on every row -/

theorem gn_scaleAll {n : Nat} {rows : List GRow} (h : gn_WF n rows) (d : Int) (hd : 0 < d)
    (hdv : ∀ r ∈ rows, r.line = false → r.divisor ∣ d) :
    GWf n (rows.map (·.scaleToDivisor d)) ∧ GNorm n d (rows.map (·.scaleToDivisor d)) ∧
      gn_set (rows.map (·.scaleToDivisor d)) = gn_set rows := by
  have spec : ∀ r ∈ rows, r.line = false → _ := fun r hr hl =>
    scaleToDivisor_spec n r d (h.shape r hr).1 hl ((h.shape r hr).2 hl) (hdv r hr hl) hd
  have hlineS : ∀ r : GRow, r.line = true → r.scaleToDivisor d = r := by
    intro r hl; simp [GRow.scaleToDivisor, GRow.isLine, hl]
  have hline : ∀ r ∈ rows, (r.scaleToDivisor d).line = r.line := by
    intro r hr
    cases hl : r.line with
    | true => rw [hlineS r hl]; exact hl
    | false => exact (spec r hr hl).1
  have hlen : ∀ r ∈ rows, (r.scaleToDivisor d).e.length = n + 2 := by
    intro r hr
    cases hl : r.line with
    | true => rw [hlineS r hl]; exact (h.shape r hr).1
    | false => exact (spec r hr hl).2.1
  have h0 : ∀ r ∈ rows, (get (r.scaleToDivisor d).e 0 = 0 ↔ get r.e 0 = 0) := by
    intro r hr
    cases hl : r.line with
    | true => rw [hlineS r hl]
    | false => exact (spec r hr hl).2.2.1
  refine ⟨?_, ?_, ?_⟩
  · intro r' hr'
    obtain ⟨r, hr, rfl⟩ := List.mem_map.mp hr'
    exact hlen r hr
  · refine ⟨hd, ?_, ?_, ?_, ?_⟩
    · obtain ⟨r, hr, p⟩ := h.pt
      obtain ⟨hl, hz⟩ := (gn_isPt_iff r).mp p
      refine ⟨_, List.mem_map_of_mem hr, (spec r hr hl).1, ?_⟩
      have hz' : get (r.scaleToDivisor d).e 0 ≠ 0 := fun q => hz ((h0 r hr).mp q)
      rw [← divisor_point _ hz']; exact (spec r hr hl).2.2.2.1
    · intro r' hr' hl'
      obtain ⟨r, hr, rfl⟩ := List.mem_map.mp hr'
      have hl : r.line = false := by rw [← hline r hr]; exact hl'
      by_cases hz : get (r.scaleToDivisor d).e 0 = 0
      · exact Or.inl hz
      · right; rw [← divisor_point _ hz]; exact (spec r hr hl).2.2.2.1
    · intro r' hr' hl' hz
      obtain ⟨r, hr, rfl⟩ := List.mem_map.mp hr'
      have hl : r.line = false := by rw [← hline r hr]; exact hl'
      rw [← divisor_param n _ (hlen r hr) hz]; exact (spec r hr hl).2.2.2.1
    · intro r' hr' hl'
      obtain ⟨r, hr, rfl⟩ := List.mem_map.mp hr'
      have hl : r.line = true := by rw [← hline r hr]; exact hl'
      rw [hlineS r hl]; exact h.lin r hr hl
  · refine gn_set_map rows _ hline h0 ?_
    intro r hr
    cases hl : r.line with
    | true => rw [hlineS r hl]
    | false =>
      rw [gn_vecOf_nonline (hlen r hr) (spec r hr hl).1, gn_vecOf_nonline (h.shape r hr).1 hl,
        (spec r hr hl).2.2.2.2]

/-! ### `normalize_divisors(sys, divisor)` -/

theorem gn_normalizeDivisors {n : Nat} {rows : List GRow} (h : gn_WF n rows) (hn : 0 < n) (d : Int) (hd : 0 < d) :
    GWf n (normalizeDivisors n rows d).1 ∧ GNorm n (normalizeDivisors n rows d).2 (normalizeDivisors n rows d).1 ∧
      gn_set (normalizeDivisors n rows d).1 = gn_set rows ∧ d ∣ (normalizeDivisors n rows d).2 ∧
      (normalizeDivisors n rows d).1.length = rows.length := by
  have hnl : rows.all (·.isLine) = false := by
    obtain ⟨r, hr, p⟩ := h.pt
    rw [List.all_eq_false]
    exact ⟨r, hr, by simp [GRow.isLine, ((gn_isPt_iff r).mp p).1]⟩
  have hpos : ∀ r ∈ rows.dropWhile (·.isLine), r.line = false → 0 < r.divisor :=
    fun r hr hl => (h.shape r (List.dropWhile_subset _ hr)).2 hl
  obtain ⟨h1, h2, h3⟩ := lcmFold_spec (rows.dropWhile (·.isLine)) hpos d hd
  have hdv : ∀ r ∈ rows, r.line = false → r.divisor ∣
      (rows.dropWhile (·.isLine)).foldl (fun d g => if g.isParameterOrPoint then lcmI d g.divisor else d) d := by
    intro r hr hl
    exact h3 r (mem_dropWhile_of_not _ rows r hr (by simpa [GRow.isLine] using hl)) hl
  have e : normalizeDivisors n rows d =
      (rows.map (·.scaleToDivisor
        ((rows.dropWhile (·.isLine)).foldl (fun d g => if g.isParameterOrPoint then lcmI d g.divisor else d) d)),
       (rows.dropWhile (·.isLine)).foldl (fun d g => if g.isParameterOrPoint then lcmI d g.divisor else d) d) := by
    unfold normalizeDivisors
    rw [if_pos ⟨hn, hd⟩, hnl]
    rfl
  rw [e]
  obtain ⟨a, b, c⟩ := gn_scaleAll h _ h1 hdv
  exact ⟨a, b, c, h2, by simp⟩

/-- `normalize_divisors(sys)` (divisor 1) -/
theorem gn_normalizeDivisors1 {s : GSys} (h : gn_WF s.dim s.rows) (hn : 0 < s.dim) :
    (normalizeDivisors1 s).dim = s.dim ∧ GWf s.dim (normalizeDivisors1 s).rows ∧
      GNorm s.dim (firstPointDiv (normalizeDivisors1 s).rows) (normalizeDivisors1 s).rows ∧
      gn_set (normalizeDivisors1 s).rows = gn_set s.rows := by
  obtain ⟨a, b, c, _, _⟩ := gn_normalizeDivisors h hn 1 (by decide)
  refine ⟨rfl, a, ?_, c⟩
  show GNorm s.dim (firstPointDiv (normalizeDivisors s.dim s.rows 1).1) (normalizeDivisors s.dim s.rows 1).1
  rw [gn_firstPointDiv b]; exact b

example : gn_WF 1 [⟨false, [2, 1, 0]⟩, ⟨false, [0, 1, 3]⟩] := by
  refine ⟨?_, ?_, ⟨_, List.mem_cons_self, rfl⟩⟩
  · intro r hr
    simp only [List.mem_cons, List.not_mem_nil, or_false] at hr
    rcases hr with rfl | rfl <;> exact ⟨rfl, fun _ => by decide⟩
  · intro r hr
    simp only [List.mem_cons, List.not_mem_nil, or_false] at hr
    rcases hr with rfl | rfl <;> intro h <;> cases h

theorem gn_lcm_of_dvd {m D : Int} (hm : 0 < m) (hD : D ∣ m) : lcmI m D = m := by
  obtain ⟨c, rfl⟩ : ∃ c : ℕ, m = c := ⟨m.toNat, (Int.toNat_of_nonneg (le_of_lt hm)).symm⟩
  unfold lcmI
  apply Int.dvd_antisymm (by positivity) (le_of_lt hm)
  · exact Int.natCast_dvd_natCast.mpr (Int.lcm_dvd (dvd_refl _) hD)
  · exact Int.dvd_lcm_left _ D

/-- the first row with a non-zero inhomogeneous term of a normalised system is a point with the common divisor -/
theorem gn_find_firstPoint {n : Nat} {D : Int} {rows : List GRow} (h : GNorm n D rows) :
    ∃ fp, rows.find? (fun g => !g.isLineOrParameter) = some fp ∧ fp.divisor = D := by
  cases hf : rows.find? (fun g => !g.isLineOrParameter) with
  | none =>
    obtain ⟨r, hr, hl, h0⟩ := h.pt
    have := List.find?_eq_none.mp hf r hr
    have hD : D ≠ 0 := ne_of_gt h.pos
    simp [GRow.isLineOrParameter, h0, hD] at this
  | some fp =>
    refine ⟨fp, rfl, ?_⟩
    have hp := List.find?_some hf
    have hm := List.mem_of_find?_eq_some hf
    have hz : get fp.e 0 ≠ 0 := by simpa [GRow.isLineOrParameter] using hp
    have hl : fp.line = false := by
      cases hl : fp.line with
      | true => exact absurd (h.lin fp hm hl) hz
      | false => rfl
    rw [divisor_point fp hz]
    rcases h.col0 fp hm hl with q | q
    · exact absurd q hz
    · exact q

/-- `normalize_divisors(sys, gen_sys)`: both systems come out with one common divisor and denote what they denoted -/
theorem gn_normalizeDivisors2 {n : Nat} {sys genSys : GSys} (hn : 0 < n) (hs : sys.dim = n) (hg : genSys.dim = n)
    (h1 : gn_WF n sys.rows) {D : Int} (h2 : GNorm n D genSys.rows) (hw2 : GWf n genSys.rows) :
    ∃ D' : Int, (normalizeDivisors2 sys genSys).1.dim = n ∧ (normalizeDivisors2 sys genSys).2.dim = n ∧
      GWf n (normalizeDivisors2 sys genSys).1.rows ∧ GNorm n D' (normalizeDivisors2 sys genSys).1.rows ∧
      GWf n (normalizeDivisors2 sys genSys).2.rows ∧ GNorm n D' (normalizeDivisors2 sys genSys).2.rows ∧
      gn_set (normalizeDivisors2 sys genSys).1.rows = gn_set sys.rows ∧
      gn_set (normalizeDivisors2 sys genSys).2.rows = gn_set genSys.rows := by
  obtain ⟨fp, hfp, hdiv⟩ := gn_find_firstPoint h2
  subst hs
  obtain ⟨a, b, c, d, _⟩ := gn_normalizeDivisors h1 hn D h2.pos
  unfold normalizeDivisors2
  rw [hfp]
  simp only [hdiv]
  by_cases hne : (normalizeDivisors sys.dim sys.rows D).2 = D
  · rw [if_neg (by simpa using hne)]
    have b' := b
    rw [hne] at b'
    exact ⟨D, rfl, hg, a, b', hw2, h2, c, rfl⟩
  · rw [if_pos hne]
    have hpos : 0 < (normalizeDivisors sys.dim sys.rows D).2 := b.pos
    have hFP : normalizeDivisorsFP genSys (normalizeDivisors sys.dim sys.rows D).2 D =
        { genSys with rows := genSys.rows.map (·.scaleToDivisor (normalizeDivisors sys.dim sys.rows D).2) } := by
      unfold normalizeDivisorsFP
      rw [if_pos ⟨by rw [hg]; exact hn, hpos⟩, gn_lcm_of_dvd hpos d]
    rw [hFP]
    have hwf2 := gn_wf_of_gnorm h2 hw2
    have hdv : ∀ r ∈ genSys.rows, r.line = false → r.divisor ∣ (normalizeDivisors sys.dim sys.rows D).2 := by
      intro r hr hl
      have : r.divisor = D := by
        rcases h2.col0 r hr hl with h0 | h0
        · rw [divisor_param sys.dim r (hw2 r hr) h0, h2.par r hr hl h0]
        · have : get r.e 0 ≠ 0 := by rw [h0]; exact ne_of_gt h2.pos
          rw [divisor_point r this, h0]
      rw [this]; exact d
    obtain ⟨a', b', c'⟩ := gn_scaleAll hwf2 _ hpos hdv
    exact ⟨_, rfl, hg, a, b, a', b', c, c'⟩

end PPLV.Lattice.GO
