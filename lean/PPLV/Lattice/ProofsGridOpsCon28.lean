import PPLV.Lattice.ProofsGridOpsCon27
import PPLV.Lattice.ProofsGridOpsLazy3
import PPLV.Lattice.ProofsGridOpsCon5

/-!
# `Grid` stage 3, part 28: `expand_space_dimension(var, m)` (Grid_chdims.cc:402) against `g.sem`

The result is `cn_expandSet n v m g.sem`: the points of the `(n+m)`-space whose first `n` coordinates form a point of the
grid and do so again with coordinate `v` replaced by each of the new coordinates (K2: `expandCons`).
`hEmb` is what `add_space_dimensions_and_embed` gives (proved for the states without up-to-date generators:
`cn_embed_con_full`, `cn_embed_empty`; `cn_embed_both_partial` otherwise); everything after it is hypothesis-free.
-/
namespace PPLV.Lattice.GO
open PPLV.Lattice PPLV.Lattice.Red

/-- `expand_space_dimension`: the embedded grid, and again with coordinate `v` read from each new coordinate -/
def cn_expandSet (n v m : Nat) (S : Set Pt) : Set Pt :=
  {y | y ∈ cn_embedSet n m S ∧ ∀ j, j < m → cn_upd y v (y (n + j)) ∈ cn_embedSet n m S}

/-- the same set in the form "the first `n` coordinates": both `y` and `y[v := y_{n+j}]` restricted to the old space -/
theorem cn_expandSet_iff (n v m : Nat) (S : Set Pt) (hv : v < n) (y : Pt) :
    y ∈ cn_expandSet n v m S ↔ Supp (n + m) y ∧ cn_fst n y ∈ S ∧ ∀ j, j < m → cn_fst n (cn_upd y v (y (n + j))) ∈ S := by
  unfold cn_expandSet cn_embedSet
  simp only [Set.mem_ofPred_eq]
  constructor
  · rintro ⟨⟨h1, h2⟩, h3⟩; exact ⟨h1, h2, fun j hj => (h3 j hj).2⟩
  · rintro ⟨h1, h2, h3⟩; exact ⟨⟨h1, h2⟩, fun j hj => ⟨cn_upd_supp _ _ _ _ (by omega) h1, h3 j hj⟩⟩

theorem cn_expand_eq (g : Grid) (v m : Nat) (hv : v < g.spaceDim) (hm : 0 < m) :
    expandSpaceDimension g v m =
      addRecycledCongruences (congruences (addSpaceDimensionsAndEmbed g m))
        (cn_expandCgs g.spaceDim v m (congruences (addSpaceDimensionsAndEmbed g m)).con) := by
  unfold expandSpaceDimension
  rw [if_neg (by omega), if_neg (by omega)]
  rfl

theorem cn_expand_thrown (g : Grid) (v m : Nat) (h : g.spaceDim < v + 1) :
    (expandSpaceDimension g v m).thrown = true ∧ (expandSpaceDimension g v m).g = g := by
  unfold expandSpaceDimension; rw [if_pos (by omega)]; exact ⟨rfl, rfl⟩

theorem cn_expand_zero (g : Grid) (v : Nat) (h : v < g.spaceDim) :
    (expandSpaceDimension g v 0).thrown = false ∧ (expandSpaceDimension g v 0).g = g := by
  unfold expandSpaceDimension; rw [if_neg (by omega), if_pos rfl]; exact ⟨rfl, rfl⟩

/-- the semantic core: cutting the solutions of `con` by the moved rows -/
theorem cn_expand_sem (n v m : Nat) (hv : v < n) (con : List CRow) (hw : CWf (n + m) con) :
    consSet (n + m) con ∩
        cn_rowsSet ((con.filter fun cg => !cg.isTautological).flatMap (cn_expandRows n v m)) =
      {y | y ∈ consSet (n + m) con ∧ ∀ j, j < m → cn_upd y v (y (n + j)) ∈ consSet (n + m) con} := by
  ext y
  simp only [Set.mem_inter_iff, Set.mem_ofPred_eq, cn_rowsSet, cn_mem_consSet, cn_mem_set, List.mem_flatMap, List.mem_filter]
  constructor
  · rintro ⟨⟨hy, hall⟩, hins⟩
    refine ⟨⟨hy, hall⟩, fun j hj => ⟨cn_upd_supp _ _ _ _ (by omega) hy, fun cg hcg => ?_⟩⟩
    by_cases ht : cg.isTautological = true
    · exact cn_isTautological_rsem cg ht _
    · by_cases hc : Red.get cg.e (v + 1) = 0
      · have := hall cg hcg
        unfold rsem at this ⊢
        rw [cn_evalRow_upd, hc]; simpa using this
      · have hl := (hw cg hcg).1
        rw [← cn_rsem_moved v (n + j) cg (by omega) (by omega) (by omega) y]
        refine hins _ ⟨cg, ⟨hcg, by simpa using ht⟩, ?_⟩
        unfold cn_expandRows
        rw [if_neg hc]
        exact List.mem_map.mpr ⟨n + j, by rw [List.mem_range']; exact ⟨j, hj, by omega⟩, rfl⟩
  · rintro ⟨⟨hy, hall⟩, hupd⟩
    refine ⟨⟨hy, hall⟩, ?_⟩
    rintro r' ⟨cg, ⟨hcg, _⟩, hr'⟩
    unfold cn_expandRows at hr'
    by_cases hc : Red.get cg.e (v + 1) = 0
    · rw [if_pos hc] at hr'; cases hr'
    · rw [if_neg hc] at hr'
      obtain ⟨dst, hdst, rfl⟩ := List.mem_map.mp hr'
      rw [List.mem_range'] at hdst
      obtain ⟨j, hj, rfl⟩ := hdst
      have hl := (hw cg hcg).1
      rw [cn_rsem_moved v (n + 1 * j) cg (by omega) (by omega) (by omega) y]
      have := (hupd j hj).2 cg hcg
      rwa [show n + 1 * j = n + j by omega]

/-- Grid_chdims.cc:402 `expand_space_dimension(var, m)`, `m > 0`, `var` in the space.  `hEmb`: the result of
    `add_space_dimensions_and_embed(m)` (see the header) -/
theorem cn_expandSpaceDimension_partial (g : Grid) (v m : Nat) (hv : v < g.spaceDim) (hm : 0 < m)
    (hEmb : GridInv (addSpaceDimensionsAndEmbed g m) ∧
      (addSpaceDimensionsAndEmbed g m).sem = cn_embedSet g.spaceDim m g.sem ∧
      (addSpaceDimensionsAndEmbed g m).spaceDim = g.spaceDim + m) :
    (expandSpaceDimension g v m).thrown = false ∧ GridInv (expandSpaceDimension g v m).g ∧
      (expandSpaceDimension g v m).g.spaceDim = g.spaceDim + m ∧
      (expandSpaceDimension g v m).g.sem = cn_expandSet g.spaceDim v m g.sem := by
  obtain ⟨hE1, hE2, hE3⟩ := hEmb
  obtain ⟨c1, c2, c3, c4, c5, _, _⟩ := congruences_spec _ hE1
  rw [cn_expand_eq g v m hv hm]
  generalize congruences (addSpaceDimensionsAndEmbed g m) = g1 at c1 c2 c3 c4 c5 ⊢
  have hd1 : g1.spaceDim = g.spaceDim + m := c3.trans hE3
  have hs1 : g1.sem = cn_embedSet g.spaceDim m g.sem := c2.trans hE2
  have hpos1 : 0 < g1.spaceDim := by omega
  -- the rows of `g1.con` have the size of the new space in either state
  have hcw : CWf (g.spaceDim + m) g1.con := by
    by_cases he : g1.st.empty = true
    · obtain ⟨_, _, _, _, hcon⟩ := c1.emp he
      rw [hcon, cn_falseCSys_rows, hd1]
      intro r hr
      rw [List.mem_singleton] at hr; subst hr
      exact ⟨cn_resizeRow_length _ _, le_refl _⟩
    · have he' : g1.st.empty = false := by simpa using he
      have := (c1.cwf he' hpos1 (c5 (by rw [← c4]; exact he') (by rw [← c3]; exact hpos1))).2
      rwa [hd1] at this
  have hNpos : 0 < g.spaceDim + m := by omega
  have hnew := cn_expandCgs_eq (g.spaceDim + m) g.spaceDim v m hNpos g1.con (fun r hr => (hcw r hr).1)
  generalize hall : (g1.con.filter fun cg => !cg.isTautological).flatMap (cn_expandRows g.spaceDim v m) = allIns at hnew
  have hrows : (cn_st (g.spaceDim + m) allIns).rows = allIns := by
    unfold cn_st; split
    · rename_i h; rw [h]
    · rfl
  have hdim : (cn_st (g.spaceDim + m) allIns).dim ≤ g1.spaceDim := by
    unfold cn_st; split
    · exact Nat.zero_le _
    · rw [hd1]
  have hinsw : ∀ r ∈ allIns, r.e.length = g.spaceDim + m + 1 ∧ 0 ≤ r.m := by
    intro r hr
    rw [← hall] at hr
    obtain ⟨cg, hcg, hr'⟩ := List.mem_flatMap.mp hr
    have hcg' := hcw cg (List.mem_of_mem_filter hcg)
    unfold cn_expandRows at hr'
    split at hr'
    · cases hr'
    · obtain ⟨d, _, rfl⟩ := List.mem_map.mp hr'
      exact ⟨by rw [cn_moved_length]; exact hcg'.1, hcg'.2⟩
  have hwnew : CWf (cn_st (g.spaceDim + m) allIns).dim (cn_st (g.spaceDim + m) allIns).rows := by
    unfold cn_st; split
    · intro r hr; cases hr
    · exact hinsw
  rw [hnew]
  obtain ⟨a1, _, _, a4⟩ := cn_addRecycledCongruences updateCongruences_spec g1 _ c1 hwnew
  have hnt : (addRecycledCongruences g1 (cn_st (g.spaceDim + m) allIns)).thrown = false := by
    by_contra h
    have := a1.mp (by simpa using h)
    omega
  obtain ⟨b1, b2, b3⟩ := a4 hnt
  refine ⟨hnt, b1, b3.trans hd1, ?_⟩
  rw [b2, hrows]
  by_cases he : g1.st.empty = true
  · have h0 : g1.sem = ∅ := lz_sem_of_empty he
    rw [h0, Set.empty_inter]
    rw [h0] at hs1
    ext y
    simp only [Set.mem_empty_iff_false, false_iff]
    intro hy
    have := hy.1
    rw [← hs1] at this; exact this
  · have he' : g1.st.empty = false := by simpa using he
    have hcu : g1.st.cUp = true := c5 (by rw [← c4]; exact he') (by rw [← c3]; exact hpos1)
    have hsc : g1.sem = consSet (g.spaceDim + m) g1.con := by rw [cn_sem_of_cUp g1 c1 he' hpos1 hcu, hd1]
    have := cn_expand_sem g.spaceDim v m hv g1.con hcw
    rw [hall] at this
    rw [hsc, this]
    unfold cn_expandSet
    rw [← hs1, hsc]

/-- `expand_space_dimension` on a grid whose generators are not up to date: hypothesis-free -/
theorem cn_expandSpaceDimension_con (g : Grid) (v m : Nat) (hI : GridInv g) (hv : v < g.spaceDim) (hm : 0 < m)
    (hg : g.st.gUp = false) :
    (expandSpaceDimension g v m).thrown = false ∧ GridInv (expandSpaceDimension g v m).g ∧
      (expandSpaceDimension g v m).g.spaceDim = g.spaceDim + m ∧
      (expandSpaceDimension g v m).g.sem = cn_expandSet g.spaceDim v m g.sem := by
  refine cn_expandSpaceDimension_partial g v m hv hm ?_
  by_cases he : g.st.empty = true
  · exact cn_embed_empty g m hm he
  · have he' : g.st.empty = false := by simpa using he
    have hpos : 0 < g.spaceDim := by omega
    exact cn_embed_con_full g m hI hm he' hpos ((hI.some he' hpos).resolve_right (by rw [hg]; simp)) hg

/-- `{x ≡ 0 (mod 2)}` expanded by one dimension: `y₀ ≡ 0`, `y₁ ≡ 0 (mod 2)` -/
example : (expandSpaceDimension cn_exGrid 0 1).g.con = [{ e := [0, 1, 0], m := 2 }, { e := [0, 0, 1], m := 2 }] ∧
    (expandSpaceDimension cn_exGrid 1 1).thrown = true := by decide

end PPLV.Lattice.GO
