import PPLV.Lattice.GridOpsDims
import PPLV.Lattice.RedSem
import PPLV.Lattice.ModelOps
/-!
# The `Grid` object, part 5 — what a raw state denotes, and the executable form of the class invariant (no Mathlib)

* `den g : Option GridGens` — the K2 grid denoted by a raw state: `∅` when marked empty, the 0-dimensional universe
  in dimension 0, else the PPL reading `gensOf` of the generator rows when they are flagged up to date, else
  K2's own conversion `consToGens` of the congruence rows.  `none`: nothing is flagged up to date, or the generator
  system is malformed.
* `invB g : Bool` — the status flags are truthful (the decidable core of `GridInv` of `PPLV/Props/C05Ops.lean`);
  the driver evaluates it on every REAL post-state.
-/
namespace PPLV.Lattice.GO
open PPLV.Lattice PPLV.Lattice.Red

/-- divisor of the first point row (0 if there is none) -/
def firstPointDiv (rows : List GRow) : Int :=
  match rows.find? (fun r => !r.line && get r.e 0 != 0) with
  | some p => get p.e 0
  | none => 0

/-- rows of a well-formed generator system of dimension `n` with normalised divisors (a point need not be first) -/
def gnormAnyB (n : Nat) (rows : List GRow) : Bool :=
  let D := firstPointDiv rows
  decide (0 < D) && rows.all fun r =>
    r.e.length == n + 2 &&
      (if r.line then get r.e 0 == 0 else (get r.e 0 == D) || (get r.e 0 == 0 && get r.e (n + 1) == D))

def cwfB (n : Nat) (rows : List CRow) : Bool := rows.all fun r => r.e.length == n + 1 && decide (0 ≤ r.m)

/-- the K2 grid read from the generators -/
def denGens (g : Grid) : Option GridGens := gensOf g.spaceDim g.gen
/-- the K2 grid read from the congruences -/
def denCons (g : Grid) : GridGens := consToGens g.spaceDim (cgsOf g.con)

def den (g : Grid) : Option GridGens :=
  if g.st.empty then some .empty
  else if g.spaceDim = 0 then some (.gens { pt := [], params := [], lines := [] })
  else if g.st.gUp then denGens g
  else if g.st.cUp then some (denCons g)
  else none

/-- the status flags are truthful -/
def invB (g : Grid) : Bool :=
  if g.st.empty then
    g.st == Status.setEmpty && g.gen.isEmpty && g.genDim == g.spaceDim &&
      g.conDim == g.spaceDim && g.con == (falseCSys g.spaceDim).rows
  else if g.spaceDim = 0 then
    g.st == Status.zeroDimUniv && g.gen == [gridPoint0] && g.genDim == 0 && g.con.isEmpty && g.conDim == 0
  else
    let n := g.spaceDim
    g.st.hi == 0 && (g.st.cUp || g.st.gUp) && (!g.st.cMin || g.st.cUp) && (!g.st.gMin || g.st.gUp) &&
    (!g.st.cUp || (g.conDim == n && cwfB n g.con)) &&
    (!g.st.gUp || (g.genDim == n && gnormAnyB n g.gen)) &&
    (!(g.st.cUp && g.st.gUp) ||
      (match denGens g with
       | some G => equivB G (denCons g)
       | none => false)) &&
    (!g.st.cMin || (g.dk.length == n + 1 && lowerTriangular n g.con g.dk && kind g.dk 0 == PROPER_CONGRUENCE)) &&
    (!g.st.gMin || (g.dk.length == n + 1 && upperTriangular n g.gen g.dk && kind g.dk 0 == PARAMETER))

end PPLV.Lattice.GO
