import PPLV.Lattice.ProofsRedCgLoop
import Mathlib.Tactic.FieldSimp

/-!
# `Grid::simplify(Congruence_System&)`: the flag is complete

When `false` is returned the system has a (rational) solution: a lower triangular system with a positive
diagonal is solved by back-substitution, one column after the other.
-/
namespace PPLV.Lattice.Red

/-- `x` with coordinate `j` replaced by `c` -/
def upd (x : Pt) (j : Nat) (c : ℚ) : Pt := fun i => if i = j then c else x i

theorem dotF_upd (v : Vec) (x : Pt) (j : Nat) (c : ℚ) :
    dotF v (upd x j c) = dotF v x + v.getD j 0 * (c - x j) := by
  induction v generalizing x j with
  | nil => simp
  | cons a as ih =>
    cases j with
    | zero =>
      have ht : (upd x 0 c).tail = x.tail := by
        funext i; simp [Pt.tail, upd]
      simp only [dotF_cons, ht]
      simp [upd]; ring
    | succ j =>
      have ht : (upd x (j + 1) c).tail = upd x.tail j c := by
        funext i; simp [Pt.tail, upd]
      simp only [dotF_cons, ht, ih]
      simp [upd, Pt.tail]; ring

theorem ext1_upd (x : Pt) (j : Nat) (c : ℚ) : ext1 (upd x j c) = upd (ext1 x) (j + 1) c := by
  funext i
  cases i with
  | zero => simp [ext1, upd]
  | succ i => simp [ext1, upd]

theorem ratRow_getD (e : Row) (j : Nat) : (ratRow e).getD j 0 = (get e j : ℚ) := by
  unfold ratRow get
  by_cases h : j < e.length
  · simp [h]
  · simp [h]

theorem evalRow_upd (e : Row) (x : Pt) (j : Nat) (c : ℚ) :
    evalRow e (upd x j c) = evalRow e x + (get e (j + 1) : ℚ) * (c - x j) := by
  unfold evalRow
  rw [ext1_upd, dotF_upd, ratRow_getD]
  rfl

/-- back-substitution: the rows whose pivot column is in `[1, d)` are made zero by a point supported
    on the first `d - 1` coordinates -/
theorem backsub {n : Nat} {rows : List CRow} {dk : List Nat} {p : Nat → Nat} (h : Inv n rows dk p rows.length 0) :
    ∀ d, ∃ x : Pt, (∀ i, d ≤ i + 1 → x i = 0) ∧
      ∀ i, i < rows.length → 1 ≤ p i → p i < d → evalRow (rowAt rows i).e x = 0 := by
  intro d
  induction d with
  | zero => exact ⟨fun _ => 0, fun _ _ => rfl, fun i _ _ hi => by omega⟩
  | succ d ih =>
    obtain ⟨x, hx1, hx2⟩ := ih
    cases d with
    | zero => exact ⟨x, fun i hi => hx1 i (by omega), fun i _ h1 h2 => by omega⟩
    | succ d =>
      by_cases hex : ∃ i, i < rows.length ∧ p i = d + 1
      · obtain ⟨i0, hi0, hp0⟩ := hex
        have hpr := h.piv i0 hi0
        rw [hp0] at hpr
        have ha : (get (rowAt rows i0).e (d + 1) : ℚ) ≠ 0 := by
          have := hpr.pos
          have : get (rowAt rows i0).e (d + 1) ≠ 0 := by omega
          exact_mod_cast this
        have hxd : x d = 0 := hx1 d (le_refl _)
        refine ⟨upd x d (-(evalRow (rowAt rows i0).e x) / (get (rowAt rows i0).e (d + 1) : ℚ)), ?_, ?_⟩
        · intro i hi
          have : i ≠ d := by omega
          simp only [upd, this, if_false]
          exact hx1 i (by omega)
        · intro i hi h1 h2
          rw [evalRow_upd, hxd]
          by_cases e : p i = d + 1
          · have hii : i = i0 := by
              by_contra hne
              rcases Nat.lt_or_gt_of_ne hne with hlt | hgt
              · have := h.kinv.anti i i0 hlt hi0; omega
              · have := h.kinv.anti i0 i hgt hi; omega
            rw [hii]
            field_simp
            ring
          · have hz := (h.piv i hi).zero (d + 1) (by omega)
            rw [hz, hx2 i hi h1 (by omega)]
            simp
      · refine ⟨x, fun i hi => hx1 i (by omega), ?_⟩
        intro i hi h1 h2
        have : p i ≠ d + 1 := fun e => hex ⟨i, hi, e⟩
        exact hx2 i hi h1 (by omega)

/-- a system in the final form has a solution -/
theorem final_solvable {n : Nat} {rows : List CRow} {dk : List Nat} (hF : Final n rows dk) :
    ∃ x, Supp n x ∧ Sol rows x := by
  obtain ⟨p, mm, hI, hmm, hlast, hk0⟩ := hF
  obtain ⟨x, hx1, hx2⟩ := backsub hI (n + 1)
  refine ⟨x, fun i hi => hx1 i (by omega), ?_⟩
  intro i hi
  by_cases hp : p i = 0
  · have hii : i = rows.length - 1 := by
      by_contra hne
      have := hI.kinv.anti i (rows.length - 1) (by omega) (by omega)
      omega
    rw [hii, hlast]
    exact rsem_integralityRow n mm x
  · refine ⟨0, ?_⟩
    rw [hx2 i hi (by omega) (hI.kinv.rng i hi).2]
    simp

/-- **completeness of the flag**: when `Grid::simplify(Congruence_System&)` returns `false`, the system
    has a solution (so `true` is returned exactly for the empty grids) -/
theorem simplifyCgs_flag_complete (n : Nat) (rows : List CRow) (dk : List Nat) (hwf : CWf n rows) :
    (simplifyCgs n rows dk).2.2 = false → ∃ x, cgsSem n rows x := by
  intro hf
  obtain ⟨hF, hS⟩ := (simplifyCgs_spec n rows dk hwf).1 hf
  obtain ⟨x, hx1, hx2⟩ := final_solvable hF
  exact ⟨x, (cgsSem_iff n rows x).mpr ⟨hx1, (hS x).mp hx2⟩⟩

/-- the flag decides emptiness -/
theorem simplifyCgs_flag_iff (n : Nat) (rows : List CRow) (dk : List Nat) (hwf : CWf n rows) :
    (simplifyCgs n rows dk).2.2 = true ↔ ∀ x, ¬ cgsSem n rows x := by
  constructor
  · exact (simplifyCgs_preserves n rows dk hwf).2
  · intro hno
    by_contra hf
    have hf' : (simplifyCgs n rows dk).2.2 = false := by
      cases h : (simplifyCgs n rows dk).2.2
      · rfl
      · exact absurd h hf
    obtain ⟨x, hx⟩ := simplifyCgs_flag_complete n rows dk hwf hf'
    exact hno x hx

example : ∃ x, cgsSem 2 exRows x :=
  simplifyCgs_flag_complete 2 exRows [] (by
    intro r hr
    simp only [exRows, List.mem_cons, List.not_mem_nil, or_false] at hr
    rcases hr with rfl | rfl | rfl <;> exact ⟨rfl, by decide⟩) (by decide +kernel)

end PPLV.Lattice.Red
