import PPLV.Lattice.ProofsGridOpsGen7

/-!
# Generator side of the `Grid` object, part 8 — `Grid::add_grid_generator(g)`: non-empty receiver, the combined statement,
# dimension 0
-/
namespace PPLV.Lattice.GO
open PPLV.Lattice PPLV.Lattice.Red

/-- the generator system after `insert(g)` and `normalize_divisors` -/
theorem gn_add_rows {n : Nat} {D : Int} {rows : List GRow} (hn : 0 < n) (hw : GWf n rows) (hN : GNorm n D rows)
    (x : GRow) (hx : gn_RowOK x) (hd : x.spaceDim ≤ n) :
    ∃ rows2 D', (if x.isParameterOrPoint = true then normalizeDivisors1 ((GSys.mk n rows).insert x)
        else (GSys.mk n rows).insert x) = GSys.mk n rows2 ∧
      GWf n rows2 ∧ GNorm n D' rows2 ∧ gn_set rows2 = gn_set (rows ++ [x.setSpaceDim n]) := by
  obtain ⟨r1, r2, r3, r4, r5, r6, r7⟩ := gn_row_resized hx hd
  rw [gn_insert _ _ hd]
  cases hl : x.line with
  | true =>
    have e1 : x.isParameterOrPoint = false := by simp [GRow.isParameterOrPoint, hl]
    have e2 : (x.isParameter && x.allHomZero) = false := by simp [GRow.isParameter, hl]
    rw [e1, e2, if_neg (by simp), if_neg (by simp)]
    refine ⟨_, D, rfl, gn_gwf_append hw (fun r hr => by rw [List.mem_singleton.mp hr]; exact r2), ?_, rfl⟩
    refine gn_gnorm_append hN ?_ ?_ ?_
    · intro r hr h; rw [List.mem_singleton.mp hr, r1, hl] at h; cases h
    · intro r hr h; rw [List.mem_singleton.mp hr, r1, hl] at h; cases h
    · intro r hr _; rw [List.mem_singleton.mp hr, r3]; exact hx.lin hl
  | false =>
    have e1 : x.isParameterOrPoint = true := by simp [GRow.isParameterOrPoint, hl]
    rw [e1, if_pos rfl]
    have hwf := gn_wf_of_gnorm hN hw
    cases hz : (x.isParameter && x.allHomZero) with
    | true =>
      rw [if_pos rfl]
      obtain ⟨a, b, c, d⟩ := gn_normalizeDivisors1 (s := GSys.mk n rows) hwf hn
      refine ⟨_, _, rfl, b, c, d.trans ?_⟩
      show gn_set rows = _
      symm
      have hz' := Bool.and_eq_true_iff.mp hz
      have hpar : gn_isPar (x.setSpaceDim n) = true := by
        rw [r7]; simpa [gn_isPar, GRow.isParameter] using hz'.1
      rw [gn_set_append_par _ _ hpar, r5, gn_vecOf_allHomZero hz'.2]
      ext y
      constructor
      · rintro ⟨a', ha, k, rfl⟩; simpa using ha
      · intro hy; exact ⟨y, hy, 0, by simp⟩
    | false =>
      rw [if_neg (by simp)]
      have hwf' : gn_WF n (rows ++ [x.setSpaceDim n]) := by
        refine ⟨?_, ?_, ?_⟩
        · intro r hr
          rcases List.mem_append.mp hr with hr | hr
          · exact hwf.shape r hr
          · rw [List.mem_singleton.mp hr]
            exact ⟨r2, fun _ => by rw [r4]; exact hx.div hl⟩
        · intro r hr h
          rcases List.mem_append.mp hr with hr | hr
          · exact hwf.lin r hr h
          · rw [List.mem_singleton.mp hr, r1, hl] at h; cases h
        · obtain ⟨r, hr, p⟩ := hwf.pt
          exact ⟨r, List.mem_append_left _ hr, p⟩
      obtain ⟨a, b, c, d⟩ := gn_normalizeDivisors1 (s := GSys.mk n (rows ++ [x.setSpaceDim n])) hwf' hn
      exact ⟨_, _, rfl, b, c, d⟩

/-- **`add_grid_generator` on a non-empty receiver** (positive dimension): nothing is thrown; a line adds its rational
    multiples, a parameter its integer multiples, a point `p` the integer multiples of `p - a₀` for any `a₀` of the grid -/
theorem gn_addGridGenerator_nonempty (hEG : EnsureGeneratorsSpec) (g : Grid) (hI : GridInv g) (x : GRow) (hx : gn_RowOK x)
    (hd : x.spaceDim ≤ g.spaceDim) (hn : 0 < g.spaceDim) (h2 : (gn_ens g).2 = true) :
    GridInv (addGridGenerator g x).g ∧ (addGridGenerator g x).g.spaceDim = g.spaceDim ∧
    (addGridGenerator g x).thrown = false ∧
    (x.line = true → (addGridGenerator g x).g.sem = {y | ∃ a ∈ g.sem, ∃ c : ℚ, y = a + c • gn_vecOf x}) ∧
    (gn_isPar x = true → (addGridGenerator g x).g.sem = {y | ∃ a ∈ g.sem, ∃ k : Int, y = a + (k : ℚ) • gn_vecOf x}) ∧
    (gn_isPt x = true → ∀ a0 ∈ g.sem,
      (addGridGenerator g x).g.sem = {y | ∃ a ∈ g.sem, ∃ k : Int, y = a + (k : ℚ) • (gn_vecOf x - a0)}) := by
  obtain ⟨a, b, c, d, e, f, hw, hN, hs⟩ := gn_ens_true hEG g hI hn h2
  obtain ⟨r1, r2, r3, r4, r5, r6, r7⟩ := gn_row_resized hx hd
  rw [gn_addGridGenerator_eq g x hd hn, if_neg (by rw [h2]; simp)]
  have hgs : (gn_ens g).1.gs = GSys.mk g.spaceDim (gn_ens g).1.gen := by
    show GSys.mk (gn_ens g).1.genDim (gn_ens g).1.gen = _
    rw [f]
  obtain ⟨rows2, D', e1, a1, b1, c1⟩ := gn_add_rows hn hw hN x hx hd
  rw [hgs, e1]
  have key := gn_inv_gens
    (g := (((((gn_ens g).1.withGs (GSys.mk g.spaceDim rows2)).clearCongruencesUpToDate).clearGeneratorsMinimized
            ).setGeneratorsUpToDate))
    (by show 0 < (gn_ens g).1.spaceDim; rw [b]; exact hn) c rfl rfl rfl rfl e
    (by show g.spaceDim = (gn_ens g).1.spaceDim; rw [b])
    (by show GWf (gn_ens g).1.spaceDim rows2; rw [b]; exact a1)
    (D := D') (by show GNorm (gn_ens g).1.spaceDim _ rows2; rw [b]; exact b1)
  have hsem : (((((gn_ens g).1.withGs (GSys.mk g.spaceDim rows2)).clearCongruencesUpToDate).clearGeneratorsMinimized
            ).setGeneratorsUpToDate).sem = gn_set ((gn_ens g).1.gen ++ [x.setSpaceDim g.spaceDim]) := by
    rw [key.2]; exact c1
  refine ⟨key.1, b, rfl, ?_, ?_, ?_⟩
  · intro hl
    show Grid.sem _ = _
    rw [hsem, gn_set_append_line _ _ (by rw [r1]; exact hl), r5, hs]
  · intro hp
    show Grid.sem _ = _
    rw [hsem, gn_set_append_par _ _ (by rw [r7]; exact hp), r5, hs]
  · intro hp a0 ha0
    show Grid.sem _ = _
    rw [hsem, gn_set_append_pt _ _ (by rw [r6]; exact hp) (a0 := a0) (by rw [hs]; exact ha0), r5, hs]

/-- **`Grid::add_grid_generator(g)`** in positive dimension, for a well-formed row that fits the space: the invariant is
    kept; `std::invalid_argument` exactly when the receiver is empty and the row is not a point (then the object stays
    empty); otherwise the grid described in the C++ documentation -/
theorem gn_addGridGenerator (hEG : EnsureGeneratorsSpec) (g : Grid) (hI : GridInv g) (x : GRow) (hx : gn_RowOK x)
    (hd : x.spaceDim ≤ g.spaceDim) (hn : 0 < g.spaceDim) :
    GridInv (addGridGenerator g x).g ∧ (addGridGenerator g x).g.spaceDim = g.spaceDim ∧
    ((addGridGenerator g x).thrown = true ↔ g.sem = ∅ ∧ gn_isPt x = false) ∧
    ((addGridGenerator g x).thrown = true → (addGridGenerator g x).g.sem = ∅) ∧
    ((addGridGenerator g x).thrown = false →
      (x.line = true → (addGridGenerator g x).g.sem = {y | ∃ a ∈ g.sem, ∃ c : ℚ, y = a + c • gn_vecOf x}) ∧
      (gn_isPar x = true → (addGridGenerator g x).g.sem = {y | ∃ a ∈ g.sem, ∃ k : Int, y = a + (k : ℚ) • gn_vecOf x}) ∧
      (gn_isPt x = true → g.sem = ∅ → (addGridGenerator g x).g.sem = {gn_vecOf x}) ∧
      (gn_isPt x = true → ∀ a0 ∈ g.sem,
        (addGridGenerator g x).g.sem = {y | ∃ a ∈ g.sem, ∃ k : Int, y = a + (k : ℚ) • (gn_vecOf x - a0)})) := by
  obtain ⟨_, _, _, hne, _, _⟩ := gn_ens_spec hEG g hI hn
  cases h2 : (gn_ens g).2 with
  | false =>
    obtain ⟨a, b, c, d, e⟩ := gn_addGridGenerator_empty hEG g hI x hx hd hn h2
    obtain ⟨_, _, _, _, hg⟩ := gn_ens_false hEG g hI hn h2
    refine ⟨a, b, ⟨fun h => ⟨hg, c.mp h⟩, fun h => c.mpr h.2⟩, d, fun h => ⟨?_, ?_, fun _ _ => e h, ?_⟩⟩
    · intro hl
      have : gn_isPt x = false := by simp [gn_isPt, hl]
      rw [c.mpr this] at h; cases h
    · intro hp
      have : gn_isPt x = false := by
        have := (gn_isPar_iff x).mp hp
        simp [gn_isPt, this.2]
      rw [c.mpr this] at h; cases h
    · intro _ a0 ha0; rw [hg] at ha0; exact absurd ha0 (Set.notMem_empty a0)
  | true =>
    obtain ⟨a, b, c, d, e, f⟩ := gn_addGridGenerator_nonempty hEG g hI x hx hd hn h2
    have hg : g.sem ≠ ∅ := Set.nonempty_iff_ne_empty.mp (hne.mp h2)
    refine ⟨a, b, ⟨fun h => (by rw [c] at h; cases h), fun h => absurd h.1 hg⟩, fun h => (by rw [c] at h; cases h),
      fun _ => ⟨d, e, fun _ h => absurd h hg, f⟩⟩

/-- the hypotheses are satisfiable: the grid `{0}` of the line and the point `1/2` -/
example : ∃ (g : Grid) (x : GRow), GridInv g ∧ gn_RowOK x ∧ x.spaceDim ≤ g.spaceDim ∧ 0 < g.spaceDim :=
  ⟨{ spaceDim := 1, st := { gUp := true }, conDim := 1, con := [], genDim := 1, gen := [⟨false, [1, 0, 0]⟩], dk := [] },
   ⟨false, [2, 1, 0]⟩,
   (gn_inv_gens (D := 1) (by decide) rfl rfl rfl rfl rfl rfl rfl (by intro r hr; rw [List.mem_singleton.mp hr]; rfl)
      ⟨by decide, ⟨_, List.mem_singleton.mpr rfl, rfl, rfl⟩, by decide, by decide, by decide⟩).1,
   ⟨rfl, fun _ => (by decide), fun h => (by cases h)⟩, by decide, by decide⟩

/-! ### dimension 0 -/

theorem gn_inv_zeroDimUniv (g : Grid) : GridInv (setZeroDimUniv g) := by
  refine ⟨?_, ?_, ?_, ?_, ?_, ?_, ?_, ?_, ?_, ?_, ?_, ?_, ?_⟩
  · intro h; cases h
  · intro _ _; exact ⟨rfl, rfl, rfl, rfl, rfl⟩
  · intro _; rfl
  all_goals first
    | (intro _ h; exact absurd h (Nat.lt_irrefl 0))
    | (intro h; cases h)

/-- **`add_grid_generator` in dimension 0**: refused exactly for a parameter on the empty grid; otherwise the result is the
    0-dimensional universe -/
theorem gn_addGridGenerator_dim0 (g : Grid) (hI : GridInv g) (x : GRow) (h0 : g.spaceDim = 0) (hd : x.spaceDim ≤ g.spaceDim) :
    GridInv (addGridGenerator g x).g ∧
    ((addGridGenerator g x).thrown = true ↔ g.sem = ∅ ∧ x.isParameter = true) ∧
    ((addGridGenerator g x).thrown = true → (addGridGenerator g x).g.sem = ∅) ∧
    ((addGridGenerator g x).thrown = false → (addGridGenerator g x).g.sem = {y | Supp 0 y}) := by
  have hsem : g.st.empty = false → g.sem = {y | Supp 0 y} := by
    intro he; unfold Grid.sem; rw [he, if_neg (by simp), if_pos h0]
  have hne : ({y | Supp 0 y} : Set Pt) ≠ ∅ := by
    intro h
    have : (0 : Pt) ∈ ({y | Supp 0 y} : Set Pt) := fun _ _ => rfl
    rw [h] at this; exact this
  unfold addGridGenerator
  rw [if_neg (by omega), if_pos h0]
  cases he : g.markedEmpty with
  | true =>
    have he' : g.st.empty = true := he
    rw [if_pos rfl]
    cases hp : x.isParameter with
    | true =>
      rw [if_pos rfl]
      exact ⟨hI, ⟨fun _ => ⟨gn_sem_of_empty he', rfl⟩, fun _ => rfl⟩, fun _ => gn_sem_of_empty he', fun h => by cases h⟩
    | false =>
      rw [if_neg (by simp)]
      refine ⟨gn_inv_zeroDimUniv g, ⟨fun h => (by cases h), fun h => (by cases h.2)⟩, fun h => (by cases h), fun _ => ?_⟩
      show (setZeroDimUniv g).sem = _
      unfold Grid.sem
      rw [if_neg (by simp [setZeroDimUniv, Status.zeroDimUniv]), if_pos (show (setZeroDimUniv g).spaceDim = 0 from rfl)]
  | false =>
    have he' : g.st.empty = false := he
    rw [if_neg (by simp)]
    refine ⟨hI, ⟨fun h => (by cases h), fun h => ?_⟩, fun h => (by cases h), fun _ => hsem he'⟩
    rw [hsem he'] at h; exact absurd h.1 hne

end PPLV.Lattice.GO
