import PPLV.Lattice.ProofsGridOpsDefs
import Mathlib.Tactic.Linarith
import Mathlib.Tactic.Ring

/-!
# `Grid` stage 3, congruence-side mutators, part 1: what the row primitives do to the point set of a row

`CRow.set r = {x | rsem r x}`; the value `evalRow e x` only depends on the entries `get e i` (missing entries are zero),
so padding a row with zeros (`Congruence::set_space_dimension`) does not change it, truncating does not change it on
the points of the smaller space.
-/
namespace PPLV.Lattice.GO
open PPLV.Lattice PPLV.Lattice.Red

theorem cn_mem_set (r : CRow) (x : Pt) : x ∈ CRow.set r ↔ rsem r x := toCg_sem_iff r x

/-! ### the value of a row depends on `get` only -/

theorem cn_dotF_zero (e : Row) (y : Pt) (h : ∀ i, ((get e i : Int) : ℚ) * y i = 0) : dotF (ratRow e) y = 0 := by
  induction e generalizing y with
  | nil => simp [ratRow]
  | cons c e ih =>
    have h0 := h 0
    simp only [get_cons_zero] at h0
    simp only [ratRow, List.map_cons, dotF_cons] at ih ⊢
    rw [ih y.tail (fun i => by have := h (i + 1); rw [get_cons_succ] at this; exact this), h0]; simp

theorem cn_dotF_ext (e' e : Row) (y : Pt) (h : ∀ i, ((get e' i : Int) : ℚ) * y i = ((get e i : Int) : ℚ) * y i) :
    dotF (ratRow e') y = dotF (ratRow e) y := by
  induction e' generalizing e y with
  | nil =>
    rw [cn_dotF_zero e y (fun i => by rw [← h i, get_of_length_le [] i (by simp)]; simp)]; simp [ratRow]
  | cons c e' ih =>
    cases e with
    | nil =>
      rw [cn_dotF_zero (c :: e') y (fun i => by rw [h i, get_of_length_le [] i (by simp)]; simp)]; simp [ratRow]
    | cons c1 e =>
      have h0 := h 0
      simp only [get_cons_zero] at h0
      have ht := ih e y.tail (fun i => by have := h (i + 1); rw [get_cons_succ] at this; exact this)
      simp only [ratRow, List.map_cons, dotF_cons] at ht ⊢
      rw [ht, h0]

/-- rows with the same entries (missing entries read as zero) have the same value -/
theorem cn_evalRow_ext (e' e : Row) (x : Pt) (h : ∀ i, get e' i = get e i) : evalRow e' x = evalRow e x :=
  cn_dotF_ext e' e _ (fun i => by rw [h i])

theorem cn_ext1_zero (n : Nat) (x : Pt) (h : Supp n x) (i : Nat) (hi : n + 1 ≤ i) : ext1 x i = 0 := by
  cases i with
  | zero => omega
  | succ i => exact h i (by omega)

/-- rows that agree on the entries `0..n` have the same value on the points of the `n`-space -/
theorem cn_evalRow_ext_supp (n : Nat) (e' e : Row) (x : Pt) (hx : Supp n x) (h : ∀ i, i < n + 1 → get e' i = get e i) :
    evalRow e' x = evalRow e x :=
  cn_dotF_ext e' e _ (fun i => by
    by_cases hi : i < n + 1
    · rw [h i hi]
    · rw [cn_ext1_zero n x hx i (by omega)]; simp)

/-! ### `resizeRow`, `Congruence::set_space_dimension` -/

theorem cn_resizeRow_length (e : Row) (len : Nat) : (resizeRow e len).length = len := by simp [resizeRow]

theorem cn_get_resizeRow (e : Row) (len i : Nat) : get (resizeRow e len) i = if i < len then get e i else 0 := by
  unfold resizeRow
  by_cases h : i < len
  · rw [if_pos h]; simp [Red.get, h]
  · rw [if_neg h]; exact get_of_length_le _ _ (by simp; omega)

theorem cn_setSpaceDim_length (r : CRow) (n : Nat) : (r.setSpaceDim n).e.length = n + 1 := cn_resizeRow_length _ _
theorem cn_setSpaceDim_m (r : CRow) (n : Nat) : (r.setSpaceDim n).m = r.m := rfl

/-- padding with zeros keeps the value -/
theorem cn_evalRow_resize_pad (e : Row) (len : Nat) (h : e.length ≤ len) (x : Pt) :
    evalRow (resizeRow e len) x = evalRow e x :=
  cn_evalRow_ext _ _ x (fun i => by
    rw [cn_get_resizeRow]
    by_cases hi : i < len
    · rw [if_pos hi]
    · rw [if_neg hi, get_of_length_le e i (by omega)])

/-- resizing to `n + 1` entries keeps the value on the points of the `n`-space -/
theorem cn_evalRow_resize_supp (e : Row) (n : Nat) (x : Pt) (hx : Supp n x) :
    evalRow (resizeRow e (n + 1)) x = evalRow e x :=
  cn_evalRow_ext_supp n _ _ x hx (fun i hi => by rw [cn_get_resizeRow, if_pos hi])

/-- `Congruence::set_space_dimension(n)` that does not drop a coefficient keeps the point set (all of `Pt`: the value of
    a row does not see the missing coefficients) -/
theorem cn_setSpaceDim_set (r : CRow) (n : Nat) (h : r.e.length ≤ n + 1) : CRow.set (r.setSpaceDim n) = CRow.set r := by
  ext x
  rw [cn_mem_set, cn_mem_set]
  unfold rsem CRow.setSpaceDim
  simp only [cn_evalRow_resize_pad r.e (n + 1) h x]

/-- … and any `set_space_dimension(n)` keeps the points of the `n`-space -/
theorem cn_rsem_setSpaceDim_supp (r : CRow) (n : Nat) (x : Pt) (hx : Supp n x) : rsem (r.setSpaceDim n) x ↔ rsem r x := by
  unfold rsem CRow.setSpaceDim
  simp only [cn_evalRow_resize_supp r.e n x hx]

theorem cn_setSpaceDim_set_supp (r : CRow) (n : Nat) : CRow.set (r.setSpaceDim n) ∩ spaceSet n = CRow.set r ∩ spaceSet n := by
  ext x
  simp only [Set.mem_inter_iff, cn_mem_set, spaceSet, Set.mem_ofPred_eq]
  constructor
  · rintro ⟨h1, h2⟩; exact ⟨(cn_rsem_setSpaceDim_supp r n x h2).mp h1, h2⟩
  · rintro ⟨h1, h2⟩; exact ⟨(cn_rsem_setSpaceDim_supp r n x h2).mpr h1, h2⟩

example : CRow.set (({ e := [1, 2], m := 3 } : CRow).setSpaceDim 3) = CRow.set { e := [1, 2], m := 3 } :=
  cn_setSpaceDim_set _ 3 (by decide)

/-! ### systems -/

theorem cn_mem_consSet (n : Nat) (rows : List CRow) (x : Pt) : x ∈ consSet n rows ↔ Supp n x ∧ ∀ r ∈ rows, x ∈ CRow.set r := by
  unfold consSet
  simp only [Set.mem_ofPred_eq, cgsSem_iff, Sol_iff_mem, cn_mem_set]

theorem cn_consSet_nil (n : Nat) : consSet n [] = spaceSet n := by
  ext x; simp [cn_mem_consSet, spaceSet]

theorem cn_consSet_append (n : Nat) (a b : List CRow) : consSet n (a ++ b) = consSet n a ∩ consSet n b := by
  ext x
  simp only [cn_mem_consSet, Set.mem_inter_iff, List.mem_append]
  constructor
  · rintro ⟨h1, h2⟩; exact ⟨⟨h1, fun r hr => h2 r (Or.inl hr)⟩, h1, fun r hr => h2 r (Or.inr hr)⟩
  · rintro ⟨⟨h1, h2⟩, _, h3⟩; exact ⟨h1, fun r hr => hr.elim (h2 r) (h3 r)⟩

theorem cn_consSet_snoc (n : Nat) (a : List CRow) (r : CRow) : consSet n (a ++ [r]) = consSet n a ∩ CRow.set r := by
  ext x
  simp only [cn_mem_consSet, Set.mem_inter_iff, List.mem_append, List.mem_singleton]
  constructor
  · rintro ⟨h1, h2⟩; exact ⟨⟨h1, fun r hr => h2 r (Or.inl hr)⟩, h2 r (Or.inr rfl)⟩
  · rintro ⟨⟨h1, h2⟩, h3⟩; exact ⟨h1, fun r' hr => hr.elim (h2 r') (fun e => e ▸ h3)⟩

theorem cn_consSet_subset_space (n : Nat) (rows : List CRow) : consSet n rows ⊆ spaceSet n :=
  fun x hx => ((cn_mem_consSet n rows x).mp hx).1

/-- the rows of a system resized to the dimension of the space: same solutions -/
theorem cn_consSet_map_setSpaceDim (n : Nat) (rows : List CRow) :
    consSet n (rows.map (·.setSpaceDim n)) = consSet n rows := by
  ext x
  simp only [cn_mem_consSet, List.mem_map, forall_exists_index, and_imp, forall_apply_eq_imp_iff₂]
  constructor
  · rintro ⟨h1, h2⟩
    refine ⟨h1, fun r hr => ?_⟩
    have := (cn_setSpaceDim_set_supp r n).le ⟨h2 r hr, h1⟩
    exact this.1
  · rintro ⟨h1, h2⟩
    refine ⟨h1, fun r hr => ?_⟩
    have := (cn_setSpaceDim_set_supp r n).ge ⟨h2 r hr, h1⟩
    exact this.1

theorem cn_CWf_append (n : Nat) (a b : List CRow) (ha : CWf n a) (hb : CWf n b) : CWf n (a ++ b) := by
  intro r hr
  rcases List.mem_append.mp hr with h | h
  · exact ha r h
  · exact hb r h

theorem cn_CWf_map_setSpaceDim (n : Nat) (rows : List CRow) (h : ∀ r ∈ rows, 0 ≤ r.m) :
    CWf n (rows.map (·.setSpaceDim n)) := by
  intro r hr
  obtain ⟨r0, hr0, rfl⟩ := List.mem_map.mp hr
  exact ⟨cn_setSpaceDim_length r0 n, h r0 hr0⟩

end PPLV.Lattice.GO
