import PPLV.Lattice.ProofsConvCGRed
import PPLV.Lattice.ProofsRedGenBase

/-!
# `Grid::conversion` (congruences → generators): the final `reduce_reduced` loop keeps the lattice `Hom`

A parameter row is only reduced by a parameter or a line pivot, a line row only by a line pivot: the system after
`cgReduce` generates the same homogeneous lattice.
-/
namespace PPLV.Lattice.Red
open PPLV.Lattice

/-- row `i` gets `num` times row `j` subtracted (homogeneous columns); legitimate when `j` is a line or `i` is not -/
theorem cg_rowSub_hom (n : Nat) (T : List GRow) (i j : Nat) (hi : i < T.length) (hj : j < T.length) (hij : i ≠ j)
    (num : Int) (r' : GRow) (hline : r'.line = (rowAt T i).line)
    (hget : ∀ k, k ≤ n → get r'.e k = get (rowAt T i).e k - num * get (rowAt T j).e k)
    (hlegit : (rowAt T j).line = true ∨ (rowAt T i).line = false) (v : Pt) :
    Hom n T v ↔ Hom n (T.set i r') v := by
  have hvv : hv n r' = ((1 : Int) : ℚ) • hv n (rowAt T i) + ((-num : Int) : ℚ) • hv n (rowAt T j) :=
    hv_comb 1 (-num) (fun k hk => by rw [hget k hk]; ring)
  have hvv' : hv n (rowAt T i) = ((1 : Int) : ℚ) • hv n r' + ((num : Int) : ℚ) • hv n (rowAt T j) := by
    rw [hvv]; push_cast; module
  have hri : rowAt (T.set i r') i = r' := by rw [rowAt_set, if_pos ⟨rfl, hi⟩]
  have hrj : rowAt (T.set i r') j = rowAt T j := by rw [rowAt_set, if_neg (fun h => hij h.1.symm)]
  have hlen : (T.set i r').length = T.length := by simp
  refine hom_iff_one_row i hlen (fun k hk => by rw [rowAt_set, if_neg (fun h => hk h.1)]) (by rw [hri]; exact hline)
    (fun hl => ?_) (fun hl => ?_) v
  · have hjl : (rowAt T j).line = true := by
      rcases hlegit with h | h
      · exact h
      · rw [hl] at h; exact absurd h (by simp)
    refine ⟨fun c => ?_, fun c => ?_⟩
    · rw [hvv', smul_add, smul_smul, smul_smul]
      refine hom_add ?_ ?_
      · have := hom_line (n := n) (rows := T.set i r') (i := i) (by omega) (by rw [hri, hline]; exact hl) (c * ((1 : Int) : ℚ))
        rwa [hri] at this
      · have := hom_line (n := n) (rows := T.set i r') (i := j) (by omega) (by rw [hrj]; exact hjl) (c * ((num : Int) : ℚ))
        rwa [hrj] at this
    · rw [hri, hvv, smul_add, smul_smul, smul_smul]
      exact hom_add (hom_line hi hl _) (hom_line hj hjl _)
  · refine ⟨?_, ?_⟩
    · rw [hvv']
      refine hom_add ?_ ?_
      · have := hom_int (n := n) (rows := T.set i r') (i := i) (by omega) 1
        rwa [hri] at this
      · have := hom_int (n := n) (rows := T.set i r') (i := j) (by omega) num
        rwa [hrj] at this
    · rw [hri, hvv]
      exact hom_add (hom_int hi 1) (hom_int hj (-num))

section
variable (n : Nat) (source : List CRow) (dk : List Nat) (dims : Nat)

/-- one step of the loop: the final form, the pivot row and the lattice are kept -/
theorem cg_rowReduce_all (hdims : dims = n + 1) (L D0 : Int) (dim : Nat) (hdim : dim < dims) (hdv : nvB dk dim = true)
    (T : List GRow) (hT : GFinalOK source dk dims L D0 T) (q : Nat) (hq : q < dims) (hql : nvB dk q = true)
    (hdq : q < dim) (hlegit : nlB dk dim = false ∨ nlB dk q = true) (num : Int) (P : Row)
    (hP : (rowAt T (nv dk dim)).e = P) :
    GFinalOK source dk dims L D0
      (if num ≠ 0 then
        T.set (nv dk q) (HasExpr.setExpr (rowAt T (nv dk q))
          (linearCombine (HasExpr.expr (rowAt T (nv dk q))) P 1 (-num) dim (dims - 1 + 1)))
       else T) ∧
    (rowAt (if num ≠ 0 then
        T.set (nv dk q) (HasExpr.setExpr (rowAt T (nv dk q))
          (linearCombine (HasExpr.expr (rowAt T (nv dk q))) P 1 (-num) dim (dims - 1 + 1)))
       else T) (nv dk dim)).e = P ∧
    ∀ v, Hom n T v ↔ Hom n
      (if num ≠ 0 then
        T.set (nv dk q) (HasExpr.setExpr (rowAt T (nv dk q))
          (linearCombine (HasExpr.expr (rowAt T (nv dk q))) P 1 (-num) dim (dims - 1 + 1)))
       else T) v := by
  have RP := hT.rows dim hdim hdv
  have R := hT.rows q hq hql
  have hne : nv dk q ≠ nv dk dim := by
    have := (cg_nv_lt_iff dk q dim hql).mpr hdq; omega
  refine ⟨?_, ?_, ?_⟩
  · subst hP
    refine cg_rowReduce_final source dk dims L D0 _ dim hdim RP.tri
      (fun p hp hpv => ⟨(RP.prod p hp hpv).1, (RP.prod p hp hpv).2.2⟩) T hT q hq hql hdq ?_ num
    intro hv p hp hpv
    rcases hlegit with h | h
    · exact (RP.prod p hp hpv).2.1 h
    · rw [h] at hv; exact absurd hv (by simp)
  · split
    · rw [rowAt_set, if_neg (fun h => hne h.1.symm)]; exact hP
    · exact hP
  · intro v
    split
    · rw [cg_expr_grow, cg_setExpr_grow]
      subst hP
      refine cg_rowSub_hom n T (nv dk q) (nv dk dim) (by rw [hT.len]; exact (cg_nv_lt_iff dk q dims hql).mpr hq)
        (by rw [hT.len]; exact (cg_nv_lt_iff dk dim dims hdv).mpr hdim) hne num
        { line := (rowAt T (nv dk q)).line,
          e := linearCombine (rowAt T (nv dk q)).e (rowAt T (nv dk dim)).e 1 (-num) dim (dims - 1 + 1) }
        rfl (fun k hk => ?_) ?_ v
      · simp only []
        rw [get_linearCombine]
        by_cases hc : dim ≤ k
        · rw [if_pos ⟨by rw [R.len]; omega, hc, by omega⟩]; ring
        · rw [if_neg (fun h => hc h.2.1), RP.tri k (by omega)]; ring
      · rcases hlegit with h | h
        · exact Or.inl (RP.lnv h)
        · exact Or.inr (R.lnp h)
    · exact Iff.rfl

/-- the loop of `reduce_reduced` (generators) keeps the lattice -/
theorem cg_reduceReducedLoop_hom (hdims : dims = n + 1) (L D0 : Int) (P : Row) (pd half : Int) (dim : Nat)
    (hdim : dim < dims) (hdv : nvB dk dim = true) (rl : Bool) (rk : Nat) (hrl : rl = true → nlB dk dim = false) :
    ∀ (ri ki : Nat) (T : List GRow), ki ≤ dim → ri = nv dk ki →
      GFinalOK source dk dims L D0 T → (rowAt T (nv dk dim)).e = P →
      ∀ v, Hom n T v ↔ Hom n (reduceReducedLoop true dk P pd half dim dim (dims - 1) rl rk ri ki T) v
  | 0, ki, T, _, _, _, _ => by intro v; simp [reduceReducedLoop]
  | ri + 1, ki, T, hki, hri, hT, hP => by
    rw [reduceReducedLoop]
    simp only [if_true]
    obtain ⟨s1, s2, s3⟩ := cg_skipDown_spec dk ki (by omega)
    have s4 : ri = nv dk (skipDown dk ki) := by omega
    have key : ∀ T1, (GFinalOK source dk dims L D0 T1 ∧ (rowAt T1 (nv dk dim)).e = P ∧ ∀ v, Hom n T v ↔ Hom n T1 v) →
        ∀ v, Hom n T v ↔ Hom n (reduceReducedLoop true dk P pd half dim dim (dims - 1) rl rk ri (skipDown dk ki) T1) v :=
      fun T1 h v => (h.2.2 v).trans
        (cg_reduceReducedLoop_hom hdims L D0 P pd half dim hdim hdv rl rk hrl ri (skipDown dk ki) T1 (by omega) s4 h.1 h.2.1 v)
    apply key
    subst s4
    by_cases hcond : (rl || (rk == PARAMETER && kind dk (skipDown dk ki) == PARAMETER)) = true
    · rw [if_pos hcond]
      refine cg_rowReduce_all n source dk dims hdims L D0 dim hdim hdv T hT (skipDown dk ki) (by omega) s2 (by omega) ?_ _ P hP
      rcases (Bool.or_eq_true _ _).mp hcond with h | h
      · exact Or.inl (hrl h)
      · right
        simp only [Bool.and_eq_true, beq_iff_eq] at h
        simp [nlB, h.2, PARAMETER, LINE]
    · rw [if_neg hcond]; exact ⟨hT, hP, fun v => Iff.rfl⟩

theorem cg_reduceReduced_hom (hdims : dims = n + 1) (L D0 : Int) (T : List GRow) (hT : GFinalOK source dk dims L D0 T)
    (d : Nat) (hd : d < dims) (hl : nvB dk d = true) (v : Pt) :
    Hom n T v ↔ Hom n (reduceReduced T d (nv dk d) d (dims - 1) dk) v := by
  unfold reduceReduced
  simp only [cg_expr_grow]
  split
  · exact Iff.rfl
  · refine cg_reduceReducedLoop_hom n source dk dims hdims L D0 _ _ _ d hd hl _ _ ?_ (nv dk d) d T (Nat.le_refl _) rfl hT rfl v
    intro hrl
    simp only [if_true, beq_iff_eq] at hrl
    simp [nlB, hrl]

/-- **`cgReduce` keeps the lattice** -/
theorem cgReduce_hom (hdims : dims = n + 1) (L D0 : Int) (T : List GRow) (hT : GFinalOK source dk dims L D0 T) (v : Pt) :
    Hom n T v ↔ Hom n (cgReduce dk dims T) v := by
  rw [cgReduce_eq]
  have key := cg_foldl_range_inv (cgReduceStep dk dims)
    (fun d st => st.1 = nv dk d ∧ GFinalOK source dk dims L D0 st.2 ∧ ∀ v, Hom n T v ↔ Hom n st.2 v) dims (0, T)
    ⟨rfl, hT, fun _ => Iff.rfl⟩ ?_
  · exact key.2.2 v
  · rintro d st hd ⟨h1, h2, h3⟩
    unfold cgReduceStep
    by_cases hl : kind dk d = GEN_VIRTUAL
    · have hlb : nvB dk d = false := by simp [nvB, hl]
      have e1 := cntBelow_succ_neg (nvB dk) d hlb
      simp only [hl, ne_eq, not_true_eq_false, if_false]
      exact ⟨by simp only [nv] at *; omega, h2, h3⟩
    · have hlb : nvB dk d = true := by simp [nvB, hl]
      have e1 := cntBelow_succ_pos (nvB dk) d hlb
      simp only [hl, ne_eq, not_false_eq_true, if_true]
      refine ⟨by simp only [nv] at *; omega, ?_, fun w => ?_⟩
      · rw [h1]; exact cg_reduceReduced_final source dk dims L D0 st.2 h2 d hd hlb
      · rw [h1]; exact (h3 w).trans (cg_reduceReduced_hom n source dk dims hdims L D0 st.2 h2 d hd hlb w)

end

end PPLV.Lattice.Red
