import PPLV.Lattice.ProofsGridOpsGen21
import Mathlib.Data.Int.GCD

/-!
# Generator side of the `Grid` object, part 22 — `Grid::relation_with(const Congruence&)`: the abstract setting of the loop

The loop over the generators only sees the integers `spf g` (the scalar product of the congruence with the generator) and
the modulus `M` (`modulus × divisor`).  `gn_RelCtx` collects what the grid `S` and the value function `val`
(`D ×` the value of the congruence's expression) have to do with these integers; `R s` says that from every point of the
grid one reaches a point whose value differs by any multiple of `s`, modulo `M`.
-/
namespace PPLV.Lattice.GO
open PPLV.Lattice PPLV.Lattice.Red

structure gn_RelCtx where
  S : Set Pt
  val : Pt → ℚ
  M : Int
  rows : List GRow
  spf : GRow → Int
  pt_mem : ∀ p ∈ rows, gn_isPt p = true → gn_vecOf p ∈ S ∧ val (gn_vecOf p) = (spf p : ℚ)
  par_step : ∀ q ∈ rows, gn_isPar q = true → ∀ a ∈ S, ∀ k : Int, ∃ a' ∈ S, val a' = val a + (k : ℚ) * (spf q : ℚ)
  pt_step : ∀ p ∈ rows, gn_isPt p = true → ∀ p' ∈ rows, gn_isPt p' = true → ∀ a ∈ S, ∀ k : Int,
    ∃ a' ∈ S, val a' = val a + (k : ℚ) * ((spf p : ℚ) - (spf p' : ℚ))
  line_any : ∀ l ∈ rows, l.line = true → spf l ≠ 0 → ∀ a ∈ S, ∀ w : ℚ, ∃ a' ∈ S, val a' = w
  /-- the values on the grid, when the lines are neutral and the other rows agree with the point `p0` modulo `d` -/
  ind : ∀ (d : Int) (p0 : GRow), p0 ∈ rows → gn_isPt p0 = true → (∀ l ∈ rows, l.line = true → spf l = 0) →
    (∀ q ∈ rows, gn_isPar q = true → d ∣ spf q) → (∀ p ∈ rows, gn_isPt p = true → d ∣ spf p - spf p0) →
    ∀ x ∈ S, ∃ t : Int, val x = (spf p0 : ℚ) + (t : ℚ) * (d : ℚ)

namespace gn_RelCtx
variable (C : gn_RelCtx)

/-- from every point one reaches the values shifted by multiples of `s`, modulo `M` -/
def R (s : Int) : Prop := ∀ a ∈ C.S, ∀ k : Int, ∃ a' ∈ C.S, ∃ t : Int, C.val a' = C.val a + (k : ℚ) * (s : ℚ) + (t : ℚ) * (C.M : ℚ)
/-- some point of the grid satisfies the congruence -/
def In : Prop := ∃ x ∈ C.S, ∃ t : Int, C.val x = (t : ℚ) * (C.M : ℚ)
/-- some point of the grid does not -/
def Out : Prop := ∃ y ∈ C.S, ¬ ∃ t : Int, C.val y = (t : ℚ) * (C.M : ℚ)

theorem R_M : C.R C.M := fun a ha k => ⟨a, ha, -k, by push_cast; ring⟩

theorem R_add {s1 s2 : Int} (h1 : C.R s1) (h2 : C.R s2) : C.R (s1 + s2) := by
  intro a ha k
  obtain ⟨a1, ha1, t1, e1⟩ := h1 a ha k
  obtain ⟨a2, ha2, t2, e2⟩ := h2 a1 ha1 k
  exact ⟨a2, ha2, t1 + t2, by rw [e2, e1]; push_cast; ring⟩

theorem R_mul {s : Int} (j : Int) (h : C.R s) : C.R (s * j) := by
  intro a ha k
  obtain ⟨a1, ha1, t1, e1⟩ := h a ha (k * j)
  exact ⟨a1, ha1, t1, by rw [e1]; push_cast; ring⟩

theorem R_of_dvd {d s : Int} (h : C.R d) (hd : d ∣ s) : C.R s := by
  obtain ⟨j, rfl⟩ := hd; exact C.R_mul j h

theorem R_sub {s1 s2 : Int} (h1 : C.R s1) (h2 : C.R s2) : C.R (s1 - s2) := by
  have := C.R_add h1 (C.R_mul (-1) h2)
  have e : s1 + s2 * -1 = s1 - s2 := by ring
  rwa [e] at this

theorem R_gcd {a b : Int} (ha : C.R a) (hb : C.R b) : C.R (gcdI a b) := by
  unfold gcdI
  rw [Int.gcd_eq_gcd_ab]
  exact C.R_add (C.R_mul _ ha) (C.R_mul _ hb)

theorem R_of_par {q : GRow} (hq : q ∈ C.rows) (hp : gn_isPar q = true) : C.R (C.spf q) := by
  intro a ha k
  obtain ⟨a', ha', e⟩ := C.par_step q hq hp a ha k
  exact ⟨a', ha', 0, by rw [e]; push_cast; ring⟩

theorem R_of_pts {p p' : GRow} (hp : p ∈ C.rows) (h1 : gn_isPt p = true) (hp' : p' ∈ C.rows) (h2 : gn_isPt p' = true) :
    C.R (C.spf p - C.spf p') := by
  intro a ha k
  obtain ⟨a', ha', e⟩ := C.pt_step p hp h1 p' hp' h2 a ha k
  exact ⟨a', ha', 0, by rw [e]; push_cast; ring⟩

theorem cast_dvd_iff (s : Int) : (∃ t : Int, (s : ℚ) = (t : ℚ) * (C.M : ℚ)) ↔ C.M ∣ s := by
  constructor
  · rintro ⟨t, ht⟩; exact ⟨t, by rw [mul_comm]; exact_mod_cast ht⟩
  · rintro ⟨t, rfl⟩; exact ⟨t, by push_cast; ring⟩

/-- a point whose product is a multiple of a reachable `d` -/
theorem in_of_R {d : Int} (h : C.R d) {p : GRow} (hp : p ∈ C.rows) (h1 : gn_isPt p = true) (hd : d ∣ C.spf p) : C.In := by
  obtain ⟨j, hj⟩ := hd
  obtain ⟨hm, hv⟩ := C.pt_mem p hp h1
  obtain ⟨a', ha', t, e⟩ := h _ hm (-j)
  exact ⟨a', ha', t, by rw [e, hv, hj]; push_cast; ring⟩

theorem in_of_pt {p : GRow} (hp : p ∈ C.rows) (h1 : gn_isPt p = true) (hd : C.M ∣ C.spf p) : C.In :=
  C.in_of_R C.R_M hp h1 hd

theorem out_of_pt {p : GRow} (hp : p ∈ C.rows) (h1 : gn_isPt p = true) (hd : ¬ C.M ∣ C.spf p) : C.Out := by
  obtain ⟨hm, hv⟩ := C.pt_mem p hp h1
  refine ⟨_, hm, fun h => hd ?_⟩
  rw [hv] at h
  exact (C.cast_dvd_iff _).mp h

theorem out_of_in_par (h : C.In) {q : GRow} (hq : q ∈ C.rows) (hp : gn_isPar q = true) (hd : ¬ C.M ∣ C.spf q) : C.Out := by
  obtain ⟨x, hx, t, ht⟩ := h
  obtain ⟨a', ha', e⟩ := C.par_step q hq hp x hx 1
  refine ⟨a', ha', fun h' => hd ?_⟩
  obtain ⟨t', ht'⟩ := h'
  refine (C.cast_dvd_iff _).mp ⟨t' - t, ?_⟩
  rw [e, ht] at ht'
  push_cast at ht' ⊢
  linear_combination ht'

theorem in_out_of_line (hne : C.S.Nonempty) {l : GRow} (hl : l ∈ C.rows) (h1 : l.line = true) (h0 : C.spf l ≠ 0) :
    C.In ∧ C.Out := by
  obtain ⟨a, ha⟩ := hne
  constructor
  · obtain ⟨a', ha', e⟩ := C.line_any l hl h1 h0 a ha 0
    exact ⟨a', ha', 0, by rw [e]; simp⟩
  · by_cases hM : C.M = 0
    · obtain ⟨a', ha', e⟩ := C.line_any l hl h1 h0 a ha 1
      refine ⟨a', ha', ?_⟩
      rintro ⟨t, ht⟩
      rw [e, hM] at ht; simp at ht
    · obtain ⟨a', ha', e⟩ := C.line_any l hl h1 h0 a ha ((C.M : ℚ) / 2)
      refine ⟨a', ha', ?_⟩
      rintro ⟨t, ht⟩
      rw [e] at ht
      have hMq : (C.M : ℚ) ≠ 0 := by exact_mod_cast hM
      have h3 : (C.M : ℚ) * (1 - 2 * (t : ℚ)) = 0 := by linear_combination 2 * ht
      rcases mul_eq_zero.mp h3 with q | q
      · exact hMq q
      · have h2 : (2 : ℚ) * (t : ℚ) = 1 := by linarith
        have h4 : (2 : Int) * t = 1 := by exact_mod_cast h2
        omega

end gn_RelCtx

/-! ### the reduction `sp %= div` of a proper congruence -/

def gn_red (proper : Bool) (s d : Int) : Int := if proper = true then Int.tmod s d else s

theorem gn_red_dvd_sub (pr : Bool) (s d : Int) : d ∣ s - gn_red pr s d := by
  unfold gn_red
  cases pr with
  | false => simp
  | true =>
    rw [if_pos rfl]
    exact ⟨s.tdiv d, by rw [Int.tmod_def]; ring⟩

theorem gn_red_zero {pr : Bool} {s d : Int} (h : gn_red pr s d = 0) : d ∣ s := by
  have := gn_red_dvd_sub pr s d
  rw [h, sub_zero] at this; exact this

theorem gn_red_ne {pr : Bool} {s d M : Int} (h : gn_red pr s d ≠ 0) (hd : d ∣ M) (hpr : pr = false → M = 0) : ¬ M ∣ s := by
  intro hM
  apply h
  unfold gn_red
  cases pr with
  | false =>
    rw [hpr rfl] at hM
    simpa using zero_dvd_iff.mp hM
  | true =>
    rw [if_pos rfl]
    exact Int.tmod_eq_zero_of_dvd (dvd_trans hd hM)

theorem gn_red_red (pr : Bool) (s d : Int) (h : Int.tmod (gn_red pr s d) d = 0) : d ∣ s := by
  have h1 := Int.dvd_of_tmod_eq_zero h
  have h2 := gn_red_dvd_sub pr s d
  have := dvd_add h2 h1
  simpa using this

end PPLV.Lattice.GO
