import PPLV.Lattice.ProofsGridOpsCon37
import PPLV.Lattice.ProofsGridOpsLazy23

/-!
# `Grid` stage 3, part 38: `add_space_dimensions_and_project(m)` on every invariant state (closes the hypothesis of
# `addSpaceDimensionsAndProject_partial` with `cn_project_tri`)
-/
namespace PPLV.Lattice.GO
open PPLV.Lattice PPLV.Lattice.Red

/-- `add_space_dimensions_and_project(m)`, positive dimension, not marked empty: the same points in `m` more dimensions -/
theorem cn_addSpaceDimensionsAndProject_pos (g : Grid) (m : Nat) (hI : GridInv g) (hm : 0 < m) (he : g.st.empty = false)
    (hpos : 0 < g.spaceDim) :
    GridInv (addSpaceDimensionsAndProject g m) ∧ (addSpaceDimensionsAndProject g m).sem = g.sem ∧
      (addSpaceDimensionsAndProject g m).spaceDim = g.spaceDim + m :=
  addSpaceDimensionsAndProject_partial g m hI hm he hpos (fun hcm => cn_project_tri g m hI hm he hpos hcm)

/-- `add_space_dimensions_and_project(m)` on every invariant state: invariant and dimension; the grid is kept, EXCEPT
    in dimension 0 with `m > 0` on the non-empty grid, where the model (and the library, KF-C05-9) yields the universe -/
theorem cn_addSpaceDimensionsAndProject_full (g : Grid) (m : Nat) (hI : GridInv g) :
    GridInv (addSpaceDimensionsAndProject g m) ∧ (addSpaceDimensionsAndProject g m).spaceDim = g.spaceDim + m ∧
    ((m = 0 ∨ g.st.empty = true ∨ 0 < g.spaceDim) → (addSpaceDimensionsAndProject g m).sem = g.sem) ∧
    (0 < m → g.st.empty = false → g.spaceDim = 0 → (addSpaceDimensionsAndProject g m).sem = spaceSet m) := by
  by_cases hm : m = 0
  · subst hm
    rw [cn_project_zero]
    exact ⟨hI, rfl, fun _ => rfl, fun h => by omega⟩
  · have hm' : 0 < m := by omega
    by_cases he : g.st.empty = true
    · obtain ⟨a, b, c⟩ := cn_project_empty g m hm' he
      exact ⟨a, c, fun _ => b, fun _ h => by rw [he] at h; cases h⟩
    · have he' : g.st.empty = false := by simpa using he
      by_cases h0 : g.spaceDim = 0
      · obtain ⟨a, b, c⟩ := cn_project_zdim constructUniv_spec g m hm' he' h0
        refine ⟨a, c, ?_, fun _ _ _ => b⟩
        rintro (h | h | h)
        · exact absurd h hm
        · exact absurd h he
        · omega
      · obtain ⟨a, b, c⟩ := cn_addSpaceDimensionsAndProject_pos g m hI hm' he' (by omega)
        exact ⟨a, c, fun _ => b, fun _ _ h => absurd h h0⟩

end PPLV.Lattice.GO
