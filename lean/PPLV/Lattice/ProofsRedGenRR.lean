import PPLV.Lattice.ProofsRedGenStep

/-!
# Triangular form (`Tri`), the sign normalisation of the pivot, and `reduce_reduced` on generators
-/
namespace PPLV.Lattice.Red
open PPLV.Lattice

/-- row `q` is the pivot row of dimension `d`: its kind agrees with its line flag, the diagonal entry is
    positive, the entries before it vanish -/
def TriRow (dk : List Nat) (rows : List GRow) (d q : Nat) : Prop :=
  kind dk d = (if (rowAt rows q).line then LINE else PARAMETER) ∧ 0 < get (rowAt rows q).e d ∧
    ∀ c, c < d → get (rowAt rows q).e c = 0

/-- rows `0..p-1` are the pivot rows, in order, of the non-virtual dimensions among `0..d-1` -/
def Tri (dk : List Nat) (rows : List GRow) : Nat → Nat → Prop
  | 0, p => p = 0
  | d + 1, p =>
    if kind dk d = GEN_VIRTUAL then Tri dk rows d p
    else 0 < p ∧ TriRow dk rows d (p - 1) ∧ Tri dk rows d (p - 1)

theorem Tri_virt {dk : List Nat} {rows : List GRow} {d p : Nat} (h : kind dk d = GEN_VIRTUAL) :
    Tri dk rows (d + 1) p ↔ Tri dk rows d p := by
  simp only [Tri, if_pos h]

theorem Tri_real {dk : List Nat} {rows : List GRow} {d p : Nat} (h : kind dk d ≠ GEN_VIRTUAL) :
    Tri dk rows (d + 1) p ↔ (0 < p ∧ TriRow dk rows d (p - 1) ∧ Tri dk rows d (p - 1)) := by
  simp only [Tri, if_neg h]

theorem Tri_le {dk : List Nat} {rows : List GRow} : ∀ d p, Tri dk rows d p → p ≤ d := by
  intro d
  induction d with
  | zero => intro p h; have : p = 0 := h; omega
  | succ d ih =>
    intro p h
    by_cases hv : kind dk d = GEN_VIRTUAL
    · have := ih p ((Tri_virt hv).mp h); omega
    · obtain ⟨_, _, ht⟩ := (Tri_real hv).mp h
      have := ih _ ht; omega

theorem Tri_congr {dk : List Nat} {rows rows' : List GRow} : ∀ d p,
    (∀ j, j < p → (rowAt rows' j).line = (rowAt rows j).line ∧
      ∀ c, c < d → (get (rowAt rows' j).e c).sign = (get (rowAt rows j).e c).sign) →
    Tri dk rows d p → Tri dk rows' d p := by
  intro d
  induction d with
  | zero => intro p _ h; exact h
  | succ d ih =>
    intro p hrel h
    by_cases hv : kind dk d = GEN_VIRTUAL
    · rw [Tri_virt hv] at h ⊢
      exact ih p (fun j hj => ⟨(hrel j hj).1, fun c hc => (hrel j hj).2 c (by omega)⟩) h
    · rw [Tri_real hv] at h ⊢
      obtain ⟨hp, ⟨k1, k2, k3⟩, ht⟩ := h
      have hr := hrel (p - 1) (by omega)
      refine ⟨hp, ⟨by rw [hr.1]; exact k1, ?_, ?_⟩,
        ih (p - 1) (fun j hj => ⟨(hrel j (by omega)).1, fun c hc => (hrel j (by omega)).2 c (by omega)⟩) ht⟩
      · have := hr.2 d (by omega)
        rw [Int.sign_eq_one_of_pos k2] at this
        exact Int.sign_eq_one_iff_pos.mp this
      · intro c hc
        have := hr.2 c (by omega)
        rw [k3 c hc, Int.sign_zero] at this
        exact Int.sign_eq_zero_iff_zero.mp this

theorem Tri_dk {dk dk' : List Nat} {rows : List GRow} : ∀ d p,
    (∀ i, i < d → kind dk' i = kind dk i) → Tri dk rows d p → Tri dk' rows d p := by
  intro d
  induction d with
  | zero => intro p _ h; exact h
  | succ d ih =>
    intro p hk h
    have e := hk d (by omega)
    by_cases hv : kind dk d = GEN_VIRTUAL
    · rw [Tri_virt hv] at h
      rw [Tri_virt (by rw [e]; exact hv)]
      exact ih p (fun i hi => hk i (by omega)) h
    · rw [Tri_real hv] at h
      rw [Tri_real (by rw [e]; exact hv)]
      obtain ⟨hp, hrow, ht⟩ := h
      refine ⟨hp, ?_, ih _ (fun i hi => hk i (by omega)) ht⟩
      unfold TriRow at hrow ⊢
      rw [e]; exact hrow

/-- the walk `--kinds_index; while (kinds[kinds_index] == GEN_VIRTUAL) --kinds_index;` finds the dimension of
    the last pivot row -/
theorem skipDown_spec {dk : List Nat} {rows : List GRow} : ∀ ki m, Tri dk rows ki (m + 1) →
    skipDown dk ki < ki ∧ TriRow dk rows (skipDown dk ki) m ∧ Tri dk rows (skipDown dk ki) m := by
  intro ki
  induction ki with
  | zero => intro m h; exact absurd h (Nat.succ_ne_zero m)
  | succ k ih =>
    intro m h
    by_cases hv : kind dk k = GEN_VIRTUAL
    · have e : skipDown dk (k + 1) = skipDown dk k := by simp only [skipDown, if_pos hv]
      rw [e]
      obtain ⟨h1, h2, h3⟩ := ih m ((Tri_virt hv).mp h)
      exact ⟨by omega, h2, h3⟩
    · have e : skipDown dk (k + 1) = k := by simp only [skipDown, if_neg hv]
      rw [e]
      obtain ⟨_, hr, ht⟩ := (Tri_real hv).mp h
      exact ⟨by omega, by simpa using hr, by simpa using ht⟩

/-! ### what `reduce_reduced` guarantees -/

structure GRRel (n p dim : Nat) (rows rows' : List GRow) : Prop where
  len : rows'.length = rows.length
  wf : WfI n rows'
  ge : ∀ i, p ≤ i → rowAt rows' i = rowAt rows i
  lt : ∀ j, j < p → (rowAt rows' j).line = (rowAt rows j).line ∧
    ∀ c, c < dim → get (rowAt rows' j).e c = get (rowAt rows j).e c
  hom : ∀ v, Hom n rows v ↔ Hom n rows' v

theorem GRRel.refl {n p dim : Nat} {rows : List GRow} (hwf : WfI n rows) : GRRel n p dim rows rows :=
  ⟨rfl, hwf, fun _ _ => rfl, fun _ _ => ⟨rfl, fun _ _ => rfl⟩, fun _ => Iff.rfl⟩

theorem GRRel.trans {n p dim : Nat} {r1 r2 r3 : List GRow} (h1 : GRRel n p dim r1 r2) (h2 : GRRel n p dim r2 r3) :
    GRRel n p dim r1 r3 :=
  ⟨h2.len.trans h1.len, h2.wf, fun i hi => (h2.ge i hi).trans (h1.ge i hi),
    fun j hj => ⟨(h2.lt j hj).1.trans (h1.lt j hj).1, fun c hc => ((h2.lt j hj).2 c hc).trans ((h1.lt j hj).2 c hc)⟩,
    fun v => (h1.hom v).trans (h2.hom v)⟩

theorem rrLoop_zero (dk : List Nat) (pivotE : Row) (pivotDim half : Int) (dim s e : Nat) (isL : Bool)
    (rowKind ki : Nat) (rows : List GRow) :
    reduceReducedLoop true dk pivotE pivotDim half dim s e isL rowKind 0 ki rows = rows := rfl

theorem rr_aux (rows : List GRow) (ri : Nat) (f : Int → GRow) (q : Int) (c : Prop) [Decidable c] (P : Prop)
    (hP : P) : (if c then rows.set ri (f q) else rows) = rows ∨
      (P ∧ ∃ q', (if c then rows.set ri (f q) else rows) = rows.set ri (f q')) := by
  by_cases h : c
  · right; exact ⟨hP, q, by rw [if_pos h]⟩
  · left; rw [if_neg h]

theorem rrLoop_succ (dk : List Nat) (pivotE : Row) (pivotDim half : Int) (dim s e : Nat) (isL : Bool)
    (rowKind ri ki : Nat) (rows : List GRow) :
    ∃ rows' : List GRow,
      (rows' = rows ∨ ((isL = true ∨ (rowKind = PARAMETER ∧ kind dk (skipDown dk ki) = PARAMETER)) ∧
          ∃ q : Int, rows' = rows.set ri
            { rowAt rows ri with e := linearCombine (rowAt rows ri).e pivotE 1 (-q) s (e + 1) })) ∧
      reduceReducedLoop true dk pivotE pivotDim half dim s e isL rowKind (ri + 1) ki rows
        = reduceReducedLoop true dk pivotE pivotDim half dim s e isL rowKind ri (skipDown dk ki) rows' := by
  refine ⟨_, ?_, rfl⟩
  simp only [if_true]
  by_cases h1 : (isL || rowKind == PARAMETER && kind dk (skipDown dk ki) == PARAMETER) = true
  · rw [if_pos h1]
    exact rr_aux rows ri
      (fun q => { rowAt rows ri with e := linearCombine (rowAt rows ri).e pivotE 1 (-q) s (e + 1) }) _ _ _
      (by simpa [Bool.or_eq_true, Bool.and_eq_true, beq_iff_eq] using h1)
  · rw [if_neg h1]; left; rfl

theorem rrLoop_spec {n p dim : Nat} {dk : List Nat} {pivotE : Row} (pivotDim half : Int) (isL : Bool)
    (rowKind : Nat) (_hdim : dim ≤ n) :
    ∀ (m ki : Nat) (rows : List GRow), m ≤ p → ki ≤ dim → p < rows.length → WfI n rows →
      (rowAt rows p).e = pivotE → (isL = true → (rowAt rows p).line = true) →
      (∀ c, c < dim → get pivotE c = 0) → Tri dk rows ki m →
      GRRel n p dim rows (reduceReducedLoop true dk pivotE pivotDim half dim dim n isL rowKind m ki rows) := by
  intro m
  induction m with
  | zero => intro ki rows _ _ _ hwf _ _ _ _; rw [rrLoop_zero]; exact GRRel.refl hwf
  | succ m ih =>
    intro ki rows hmp hki hp hwf hpe hisL hzp htri
    obtain ⟨rows', hcase, heq⟩ := rrLoop_succ dk pivotE pivotDim half dim dim n isL rowKind m ki rows
    rw [heq]
    obtain ⟨hlt, hrow, ht⟩ := skipDown_spec ki m htri
    have hm : m < rows.length := by omega
    have hmp' : m ≠ p := by omega
    have step : GRRel n p dim rows rows' := by
      rcases hcase with rfl | ⟨hc, q, rfl⟩
      · exact GRRel.refl hwf
      · generalize hR' : ({ rowAt rows m with
          e := linearCombine (rowAt rows m).e pivotE 1 (-q) dim (n + 1) } : GRow) = R'
        have hR'l : R'.line = (rowAt rows m).line := by rw [← hR']
        have hR'e : R'.e = linearCombine (rowAt rows m).e pivotE 1 (-q) dim (n + 1) := by rw [← hR']
        refine ⟨by simp, ?_, ?_, ?_, ?_⟩
        · intro i hi; rw [rowAt_set]; split
          · rw [hR'e, length_linearCombine]; exact hwf m hm
          · exact hwf i (by simpa using hi)
        · intro i hi; rw [rowAt_set, if_neg (fun h => by omega)]
        · intro j _; rw [rowAt_set]; split
          · rename_i h
            rw [h.1]
            exact ⟨hR'l, fun c hc => by rw [hR'e]; exact get_lc_pre _ _ _ _ _ hc⟩
          · exact ⟨rfl, fun _ _ => rfl⟩
        · refine hom_iff_comb m p 1 (-q) (by simp) hm hp hmp' ?_ ?_ ?_ ?_ (fun _ => rfl)
          · intro i hi; rw [rowAt_set, if_neg (fun h => hi h.1)]
          · rw [rowAt_set, if_pos ⟨rfl, hm⟩]; exact hR'l
          · rw [rowAt_set, if_pos ⟨rfl, hm⟩]
            refine hv_comb 1 (-q) fun c hc => ?_
            rw [hR'e, get_lc_one (-q) (hwf m hm) hzp c hc, hpe]; ring
          · intro hl
            refine ⟨?_, by decide⟩
            rcases hc with hc | ⟨_, hc⟩
            · exact hisL hc
            · have h1 := hrow.1
              rw [hl, hc] at h1
              exact absurd h1 (by decide)
    have hrec := ih (skipDown dk ki) rows' (by omega) (by omega) (by rw [step.len]; exact hp) step.wf
      (by rw [step.ge p (Nat.le_refl _)]; exact hpe)
      (by intro h; rw [step.ge p (Nat.le_refl _)]; exact hisL h) hzp
      (Tri_congr _ _ (fun j hj => ⟨(step.lt j (by omega)).1,
        fun c hc => by rw [(step.lt j (by omega)).2 c (by omega)]⟩) ht)
    exact step.trans hrec

/-- `reduce_reduced<Grid_Generator_System>(rows, dim, p, dim, n, dk)`: rows `j < p` get a multiple of the
    pivot row subtracted on `[dim, n+1)`; legitimate because `dk` records the line flags of the rows -/
theorem reduceReduced_spec {n p dim : Nat} {dk : List Nat} {rows : List GRow} (hdim : dim ≤ n)
    (hp : p < rows.length) (hwf : WfI n rows) (hzp : ∀ c, c < dim → get (rowAt rows p).e c = 0)
    (hk : kind dk dim = LINE → (rowAt rows p).line = true) (htri : Tri dk rows dim p) :
    GRRel n p dim rows (reduceReduced rows dim p dim n dk true) := by
  unfold reduceReduced
  simp only []
  split
  · exact GRRel.refl hwf
  · refine rrLoop_spec _ _ _ _ hdim p dim rows (Nat.le_refl _) (Nat.le_refl _) hp hwf rfl ?_ hzp htri
    intro h
    apply hk
    simpa using h

/-- `reduce_reduced` keeps the lattice -/
theorem reduceReduced_homSim {n p dim : Nat} {dk : List Nat} {rows : List GRow} (hdim : dim ≤ n)
    (hp : p < rows.length) (hwf : WfI n rows) (hzp : ∀ c, c < dim → get (rowAt rows p).e c = 0)
    (hk : kind dk dim = LINE → (rowAt rows p).line = true) (htri : Tri dk rows dim p) :
    HomSim n rows (reduceReduced rows dim p dim n dk true) :=
  HomSim.of_iff (reduceReduced_spec hdim hp hwf hzp hk htri).hom

/-! ### the sign normalisation of the pivot row -/

/-- `if (pivot.expr.get(dim) < 0) pivot.expr.negate(dim, num_columns);` -/
def negPivotG (rows : List GRow) (p dim n : Nat) : List GRow :=
  if get (rowAt rows p).e dim < 0 then
    rows.set p { rowAt rows p with e := negate (rowAt rows p).e dim (n + 1) }
  else rows

theorem negPivotG_spec {n p dim : Nat} {rows : List GRow} (hdim : dim ≤ n) (hp : p < rows.length)
    (hwf : WfI n rows) (hz : ZeroPre p dim rows) (hpc : get (rowAt rows p).e dim ≠ 0) :
    (negPivotG rows p dim n).length = rows.length ∧ WfI n (negPivotG rows p dim n) ∧
      ZeroPre p dim (negPivotG rows p dim n) ∧ (∀ i, i ≠ p → rowAt (negPivotG rows p dim n) i = rowAt rows i) ∧
      (rowAt (negPivotG rows p dim n) p).line = (rowAt rows p).line ∧
      0 < get (rowAt (negPivotG rows p dim n) p).e dim ∧ ∀ v, Hom n rows v ↔ Hom n (negPivotG rows p dim n) v := by
  unfold negPivotG
  split
  · rename_i hneg
    have hzp := hz p (Nat.le_refl _) hp
    generalize hR' : ({ rowAt rows p with e := negate (rowAt rows p).e dim (n + 1) } : GRow) = R'
    have hR'l : R'.line = (rowAt rows p).line := by rw [← hR']
    have hR'e : R'.e = negate (rowAt rows p).e dim (n + 1) := by rw [← hR']
    have hent : ∀ c, c ≤ n → get R'.e c = (-1) * get (rowAt rows p).e c := by
      intro c hc
      rw [hR'e, get_negate]
      by_cases h : dim ≤ c
      · rw [if_pos ⟨h, by omega⟩]; ring
      · rw [if_neg (fun h' => h h'.1), hzp c (by omega)]; simp
    have hvR : hv n R' = ((-1 : Int) : Rat) • hv n (rowAt rows p) := hv_smul (-1) hent
    have hrp : rowAt (rows.set p R') p = R' := by rw [rowAt_set, if_pos ⟨rfl, hp⟩]
    have hlen : (rows.set p R').length = rows.length := by simp
    refine ⟨hlen, ?_, ?_, ?_, ?_, ?_, ?_⟩
    · intro i hi; rw [rowAt_set]; split
      · rw [hR'e, length_negate]; exact hwf p hp
      · exact hwf i (by simpa using hi)
    · intro i hpi hi c hc; rw [rowAt_set]; split
      · rw [hent c (by omega), hzp c hc]; simp
      · exact hz i hpi (by simpa using hi) c hc
    · intro i hi; rw [rowAt_set, if_neg (fun h => hi h.1)]
    · rw [hrp]; exact hR'l
    · rw [hrp, hent dim hdim]; omega
    · refine hom_iff_one_row p hlen ?_ (by rw [hrp]; exact hR'l) (fun hl => ?_) (fun hl => ?_)
      · intro i hi; rw [rowAt_set, if_neg (fun h => hi h.1)]
      · constructor
        · intro c
          have e : c • hv n (rowAt rows p) = (-c) • hv n (rowAt (rows.set p R') p) := by
            rw [hrp, hvR]; push_cast; module
          rw [e]
          exact hom_line (by omega) (by rw [hrp, hR'l]; exact hl) _
        · intro c
          have e : c • hv n (rowAt (rows.set p R') p) = (-c) • hv n (rowAt rows p) := by
            rw [hrp, hvR]; push_cast; module
          rw [e]
          exact hom_line hp hl _
      · constructor
        · have e : hv n (rowAt rows p) = -hv n (rowAt (rows.set p R') p) := by
            rw [hrp, hvR]; push_cast; module
          rw [e]
          exact hom_neg (hom_pc (by omega) (by rw [hrp, hR'l]; exact hl))
        · have e : hv n (rowAt (rows.set p R') p) = -hv n (rowAt rows p) := by
            rw [hrp, hvR]; push_cast; module
          rw [e]
          exact hom_neg (hom_pc hp hl)
  · rename_i hneg
    exact ⟨rfl, hwf, hz, fun _ _ => rfl, rfl, by omega, fun _ => Iff.rfl⟩

/-- negating the pivot row on `[dim, n+1)` keeps the lattice -/
theorem negPivot_homSim {n p dim : Nat} {rows : List GRow} (hdim : dim ≤ n) (hp : p < rows.length)
    (hwf : WfI n rows) (hz : ZeroPre p dim rows) (hpc : get (rowAt rows p).e dim ≠ 0) :
    HomSim n rows (negPivotG rows p dim n) :=
  HomSim.of_iff (negPivotG_spec hdim hp hwf hz hpc).2.2.2.2.2.2

end PPLV.Lattice.Red
