import PPLV.Lattice.ProofsGridOpsLazy12
import PPLV.Lattice.ProofsGridOpsCon12
import PPLV.Lattice.ProofsGridOpsGen5

/-!
# Generator side of the affine transformers — part 13: `Grid_Generator_System::affine_image` (Grid_Generator_System.cc:66)

Every row is multiplied by `den` (all entries: the common divisor becomes `den·D`) and entry `v + 1` is replaced by the
scalar product with `expr`.  In homogeneous coordinates this is ONE linear map `lzT` applied to the vector of every
row, so the homogeneous lattice of the result is the image of the lattice, and `lzT (D, D·x) = (den·D, den·D·F x)` with
`F x = x[v := (⟨e,x⟩ + e₀)/den]`.  The rows removed afterwards (`remove_invalid_lines_and_parameters`) have a zero vector.
-/
namespace PPLV.Lattice.GO
open PPLV.Lattice PPLV.Lattice.Red

/-! ### the row map -/

/-- the row map of `Grid_Generator_System::affine_image` -/
def lz_aiRow (v : Nat) (e : LinExpr) (den : Int) (row : GRow) : GRow :=
  { row with e := (if den ≠ 1 then mulAll row.e den else row.e).set (v + 1) (sp e row.e) }

theorem lz_affineImage_eq (s : GSys) (v : Nat) (e : LinExpr) (den : Int) :
    s.affineImage v e den =
      if v + 1 ≥ e.spaceDim ∨ e.coeff v = 0 then
        ({ s with rows := s.rows.map (lz_aiRow v e den) } : GSys).removeInvalidLinesAndParameters
      else { s with rows := s.rows.map (lz_aiRow v e den) } := rfl

theorem lz_foldl_sum (m : Nat) (f : Nat → Int) :
    (((List.range m).map f).foldl (· + ·) 0 : Int) = ∑ i ∈ Finset.range m, f i := by
  induction m with
  | zero => simp
  | succ m ih => rw [List.range_succ, List.map_append, List.foldl_append, ih, Finset.sum_range_succ]; simp

theorem lz_sp_eq (x y : Row) : sp x y = ∑ i ∈ Finset.range x.length, get x i * get y i := by
  unfold sp; exact lz_foldl_sum _ _

theorem lz_aiRow_line (v : Nat) (e : LinExpr) (den : Int) (row : GRow) : (lz_aiRow v e den row).line = row.line := rfl

theorem lz_aiRow_length (v : Nat) (e : LinExpr) (den : Int) (row : GRow) :
    (lz_aiRow v e den row).e.length = row.e.length := by
  unfold lz_aiRow; split <;> simp

theorem lz_aiRow_get (v : Nat) (e : LinExpr) (den : Int) (row : GRow) (i : Nat) (hv : v + 1 < row.e.length) :
    get (lz_aiRow v e den row).e i = if i = v + 1 then sp e row.e else den * get row.e i := by
  unfold lz_aiRow
  by_cases hd : den = 1
  · subst hd
    simp only [ne_eq, not_true_eq_false, if_false, get_set]
    by_cases hi : i = v + 1
    · rw [if_pos ⟨hi, hv⟩, if_pos hi]
    · rw [if_neg (fun h => hi h.1), if_neg hi]; ring
  · simp only [ne_eq, hd, not_false_eq_true, if_true, get_set, length_mulAll, get_mulAll]
    by_cases hi : i = v + 1
    · rw [if_pos ⟨hi, hv⟩, if_pos hi]
    · rw [if_neg (fun h => hi h.1), if_neg hi]; ring

/-! ### the linear map on homogeneous vectors -/

/-- `w ↦ den·w` with coordinate `v + 1` replaced by `⟨e, w⟩` -/
noncomputable def lzT (v : Nat) (e : LinExpr) (den : Int) (w : Pt) : Pt :=
  fun i => if i = v + 1 then alphaOf (ratRow e) w else (den : ℚ) * w i

theorem lzT_add (v : Nat) (e : LinExpr) (den : Int) (a b : Pt) : lzT v e den (a + b) = lzT v e den a + lzT v e den b := by
  funext i
  simp only [lzT, Pi.add_apply]
  split
  · rw [map_add]
  · ring

theorem lzT_smul (v : Nat) (e : LinExpr) (den : Int) (c : ℚ) (a : Pt) : lzT v e den (c • a) = c • lzT v e den a := by
  funext i
  simp only [lzT, Pi.smul_apply, smul_eq_mul]
  split
  · rw [map_smul, smul_eq_mul]
  · ring

theorem lzT_zero (v : Nat) (e : LinExpr) (den : Int) : lzT v e den 0 = 0 := by
  have := lzT_smul v e den 0 0
  simpa using this

/-- the vector of the transformed row -/
theorem lz_hv_aiRow (n v : Nat) (e : LinExpr) (den : Int) (row : GRow) (hl : row.e.length = n + 2) (hvn : v < n)
    (he : e.length ≤ n + 1) : hv n (lz_aiRow v e den row) = lzT v e den (hv n row) := by
  funext i
  rw [hv_apply, lz_aiRow_get v e den row i (by omega)]
  unfold lzT
  by_cases hi : i = v + 1
  · subst hi
    rw [if_pos (by omega), if_pos rfl, if_pos rfl, alphaOf_apply, dotF_ratRow, lz_sp_eq]
    push_cast
    apply Finset.sum_congr rfl
    intro k hk
    have := Finset.mem_range.mp hk
    rw [hv_apply, if_pos (by omega)]
  · rw [if_neg hi, if_neg hi, hv_apply]
    by_cases hin : i ≤ n
    · rw [if_pos hin, if_pos hin]; push_cast; ring
    · rw [if_neg hin, if_neg hin]; ring

/-- the map on the points: `x[v := (⟨e,x⟩ + e₀)/den]` -/
noncomputable def lzF (v : Nat) (e : LinExpr) (den : Int) (x : Pt) : Pt := cn_upd x v (evalRow e x / (den : ℚ))

theorem lz_alphaOf_homog (e : Row) (D : ℚ) (x : Pt) : alphaOf (ratRow e) (homog D x) = D * evalRow e x := by
  cases e with
  | nil => simp [ratRow, evalRow]
  | cons a l => rw [alphaOf_homog (a :: l) (by simp) D x, evalRow_eq]

theorem lzT_homog (v : Nat) (e : LinExpr) (den : Int) (hden : den ≠ 0) (D : ℚ) (x : Pt) :
    lzT v e den (homog D x) = homog ((den : ℚ) * D) (lzF v e den x) := by
  have hd : (den : ℚ) ≠ 0 := by exact_mod_cast hden
  funext i
  cases i with
  | zero => simp [lzT, homog]
  | succ j =>
    unfold lzT lzF cn_upd
    by_cases hj : j = v
    · subst hj
      rw [if_pos rfl, lz_alphaOf_homog]
      simp only [homog, if_true]
      field_simp
    · rw [if_neg (by omega)]
      simp only [homog, if_neg hj]
      ring

/-! ### the image of the homogeneous lattice under a map applied to every row -/

theorem lz_hom_map_of (n : Nat) (T : Pt → Pt) (hadd : ∀ a b, T (a + b) = T a + T b) (hsmul : ∀ (c : ℚ) a, T (c • a) = c • T a)
    (rows : List GRow) (f : GRow → GRow) (hl : ∀ r ∈ rows, (f r).line = r.line)
    (hT : ∀ r ∈ rows, hv n (f r) = T (hv n r)) {w : Pt} (h : Hom n rows w) : Hom n (rows.map f) (T w) := by
  have hzero : T 0 = 0 := by have := hsmul 0 0; simpa using this
  unfold Hom GDir at h
  induction h with
  | zero => rw [hzero]; exact hom_zero _ _
  | @param w q j hq _ ih =>
    obtain ⟨u, hu, rfl⟩ := List.mem_map.mp hq
    obtain ⟨r, hr, rfl⟩ := List.mem_map.mp hu
    have hr' := List.mem_filter.mp hr
    have hrl : r.line = false := by simpa using hr'.2
    rw [hadd, hsmul]
    refine hom_add ih (hom_zsmul j ?_)
    have : T (GRow.hvec n r).toFun = hv n (f r) := (hT r hr'.1).symm
    rw [this]
    exact hom_of_mem_pc (List.mem_map_of_mem hr'.1) (by rw [hl r hr'.1]; exact hrl)
  | @line w l c hl' _ ih =>
    obtain ⟨u, hu, rfl⟩ := List.mem_map.mp hl'
    obtain ⟨r, hr, rfl⟩ := List.mem_map.mp hu
    have hr' := List.mem_filter.mp hr
    have hrl : r.line = true := by simpa using hr'.2
    rw [hadd, hsmul]
    refine hom_add ih ?_
    have : T (GRow.hvec n r).toFun = hv n (f r) := (hT r hr'.1).symm
    rw [this]
    exact hom_of_mem_line (List.mem_map_of_mem hr'.1) (by rw [hl r hr'.1]; exact hrl) c

theorem lz_hom_map_inv (n : Nat) (T : Pt → Pt) (hadd : ∀ a b, T (a + b) = T a + T b) (hsmul : ∀ (c : ℚ) a, T (c • a) = c • T a)
    (rows : List GRow) (f : GRow → GRow) (hl : ∀ r ∈ rows, (f r).line = r.line)
    (hT : ∀ r ∈ rows, hv n (f r) = T (hv n r)) {w' : Pt} (h : Hom n (rows.map f) w') :
    ∃ w, Hom n rows w ∧ T w = w' := by
  have hzero : T 0 = 0 := by have := hsmul 0 0; simpa using this
  unfold Hom GDir at h
  induction h with
  | zero => exact ⟨0, hom_zero _ _, hzero⟩
  | @param w q j hq _ ih =>
    obtain ⟨u, hu, rfl⟩ := List.mem_map.mp hq
    obtain ⟨r', hr', rfl⟩ := List.mem_map.mp hu
    have hr2 := List.mem_filter.mp hr'
    obtain ⟨r, hr, rfl⟩ := List.mem_map.mp hr2.1
    have hrl : r.line = false := by rw [← hl r hr]; simpa using hr2.2
    obtain ⟨w0, hw0, rfl⟩ := ih
    refine ⟨w0 + (j : ℚ) • hv n r, hom_add hw0 (hom_zsmul j (hom_of_mem_pc hr hrl)), ?_⟩
    rw [hadd, hsmul, ← hT r hr]; rfl
  | @line w l c hl' _ ih =>
    obtain ⟨u, hu, rfl⟩ := List.mem_map.mp hl'
    obtain ⟨r', hr', rfl⟩ := List.mem_map.mp hu
    have hr2 := List.mem_filter.mp hr'
    obtain ⟨r, hr, rfl⟩ := List.mem_map.mp hr2.1
    have hrl : r.line = true := by rw [← hl r hr]; simpa using hr2.2
    obtain ⟨w0, hw0, rfl⟩ := ih
    refine ⟨w0 + c • hv n r, hom_add hw0 (hom_of_mem_line hr hrl c), ?_⟩
    rw [hadd, hsmul, ← hT r hr]; rfl

/-- the grid of a normalised system lives in the `n`-space -/
theorem lz_gensSet_supp {n : Nat} {D : Int} {rows : List GRow} (hN : GNorm n D rows) {x : Pt} (hx : x ∈ gensSet n rows) :
    Supp n x := by
  rw [lz_gensSet_eq hN] at hx
  have hD : (D : ℚ) ≠ 0 := by exact_mod_cast (ne_of_gt hN.pos)
  intro i hi
  have := lz_hom_high (show Hom n rows _ from hx) (i + 1) (by omega)
  simp only [homog] at this
  rcases mul_eq_zero.mp this with h | h
  · exact absurd h hD
  · exact h

/-! ### the mapped rows -/

theorem lz_aiRows_gwf {n : Nat} {rows : List GRow} (v : Nat) (e : LinExpr) (den : Int) (hw : GWf n rows) :
    GWf n (rows.map (lz_aiRow v e den)) := by
  intro r' hr'
  obtain ⟨r, hr, rfl⟩ := List.mem_map.mp hr'
  rw [lz_aiRow_length]; exact hw r hr

theorem lz_aiRows_gnorm {n : Nat} {D : Int} {rows : List GRow} (v : Nat) (e : LinExpr) (den : Int) (hden : 0 < den)
    (hvn : v < n) (hw : GWf n rows) (hN : GNorm n D rows) : GNorm n (den * D) (rows.map (lz_aiRow v e den)) := by
  have hg : ∀ r ∈ rows, ∀ i, i ≠ v + 1 → get (lz_aiRow v e den r).e i = den * get r.e i := by
    intro r hr i hi
    rw [lz_aiRow_get v e den r i (by rw [hw r hr]; omega), if_neg hi]
  refine ⟨Int.mul_pos hden hN.pos, ?_, ?_, ?_, ?_⟩
  · obtain ⟨r, hr, hl, h0⟩ := hN.pt
    exact ⟨_, List.mem_map_of_mem hr, hl, by rw [hg r hr 0 (by omega), h0]⟩
  · intro r' hr' hl
    obtain ⟨r, hr, rfl⟩ := List.mem_map.mp hr'
    rw [hg r hr 0 (by omega)]
    rcases hN.col0 r hr hl with h | h
    · left; rw [h]; ring
    · right; rw [h]
  · intro r' hr' hl h0
    obtain ⟨r, hr, rfl⟩ := List.mem_map.mp hr'
    rw [hg r hr 0 (by omega)] at h0
    have h00 : get r.e 0 = 0 := by
      rcases Int.mul_eq_zero.mp h0 with h | h
      · omega
      · exact h
    rw [hg r hr (n + 1) (by omega), hN.par r hr hl h00]
  · intro r' hr' hl
    obtain ⟨r, hr, rfl⟩ := List.mem_map.mp hr'
    rw [hg r hr 0 (by omega), hN.lin r hr hl]; ring

/-- **the mapped rows denote the image** -/
theorem lz_aiRows_gensSet {n : Nat} {D : Int} {rows : List GRow} (v : Nat) (e : LinExpr) (den : Int) (hden : 0 < den)
    (hvn : v < n) (he : e.spaceDim ≤ n) (hw : GWf n rows) (hN : GNorm n D rows) :
    gensSet n (rows.map (lz_aiRow v e den)) = lzF v e den '' gensSet n rows := by
  have hel : e.length ≤ n + 1 := by unfold LinExpr.spaceDim at he; omega
  have hN' := lz_aiRows_gnorm v e den hden hvn hw hN
  have hd0 : den ≠ 0 := by omega
  have hT : ∀ r ∈ rows, hv n (lz_aiRow v e den r) = lzT v e den (hv n r) :=
    fun r hr => lz_hv_aiRow n v e den r (hw r hr) hvn hel
  rw [lz_gensSet_eq hN', lz_gensSet_eq hN]
  ext y
  simp only [Set.mem_ofPred_eq, Set.mem_image]
  constructor
  · intro hy
    obtain ⟨w, hw1, hw2⟩ := lz_hom_map_inv n (lzT v e den) (lzT_add v e den) (lzT_smul v e den) rows _
      (fun r _ => lz_aiRow_line v e den r) hT hy
    -- `w = (D, D·x)`
    have hD : (D : ℚ) ≠ 0 := by exact_mod_cast (ne_of_gt hN.pos)
    have hdq : (den : ℚ) ≠ 0 := by exact_mod_cast hd0
    have hw0 : w 0 = (D : ℚ) := by
      have := congrFun hw2 0
      simp only [lzT, homog] at this
      rw [if_neg (by omega)] at this
      push_cast at this
      exact mul_left_cancel₀ hdq this
    have hwx : w = homog (D : ℚ) (fun i => w (i + 1) / (D : ℚ)) := by
      funext i
      cases i with
      | zero => exact hw0
      | succ i => simp only [homog]; field_simp
    refine ⟨fun i => w (i + 1) / (D : ℚ), by rw [← hwx]; exact hw1, ?_⟩
    have h3 : homog ((den : ℚ) * (D : ℚ)) (lzF v e den (fun i => w (i + 1) / (D : ℚ))) =
        homog (((den * D : Int) : ℚ)) y := by
      rw [← lzT_homog v e den hd0, ← hwx, hw2]
    funext i
    have := congrFun h3 (i + 1)
    simp only [homog] at this
    push_cast at this
    exact mul_left_cancel₀ (mul_ne_zero hdq hD) this
  · rintro ⟨x, hx, rfl⟩
    have := lz_hom_map_of n (lzT v e den) (lzT_add v e den) (lzT_smul v e den) rows _
      (fun r _ => lz_aiRow_line v e den r) hT hx
    rw [lzT_homog v e den hd0] at this
    push_cast
    exact this

end PPLV.Lattice.GO
