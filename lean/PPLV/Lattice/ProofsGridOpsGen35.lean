import PPLV.Lattice.ProofsGridOpsGen34
import PPLV.Lattice.ProofsGridOpsLazy6

/-!
# Generator side of the `Grid` object, part 35 — `Grid::difference_assign(y)` (Grid_public.cc:1649): soundness
-/
namespace PPLV.Lattice.GO
open PPLV.Lattice PPLV.Lattice.Red

theorem gn_isIncludedIn_snd_empty (x y : Grid) (hIy : GridInv y) (hey : y.st.empty = false) (hn : 0 < y.spaceDim) :
    (isIncludedIn x y).2.1.st.empty = false := by
  rw [gn_isIncludedIn_eq]
  cases (gn_incX x).2 with
  | false => exact hey
  | true => exact (gn_incY_spec updateCongruences_spec y hIy hey hn).2.2.2.1

/-- `x.contains(y)` does not mark a receiver empty that was not -/
theorem gn_contains_fst_empty (x y : Grid) (hIx : GridInv x) (hex : x.st.empty = false) (hey : y.st.empty = false)
    (hd : x.spaceDim = y.spaceDim) : (contains x y).1.st.empty = false := by
  have hx : x.markedEmpty = false := hex
  have hy : y.markedEmpty = false := hey
  unfold contains
  rw [if_neg (not_not.mpr hd), hy, if_neg (by simp), hx, if_neg (by simp)]
  by_cases h0 : y.spaceDim = 0
  · rw [if_pos h0]; exact hex
  · rw [if_neg h0]
    by_cases hq : quickEquivalenceTest x y = TVB_TRUE
    · rw [if_pos hq]; exact hex
    · rw [if_neg hq]
      exact gn_isIncludedIn_snd_empty y x hIx hex (by omega)

/-- **`Grid::difference_assign(y)`** for grids of one dimension: nothing is thrown, both invariants and the dimensions are
    kept, `y` denotes what it denoted, and the result is sound in the sense of the reference: it contains the set
    difference and lies inside the receiver -/
theorem gn_differenceAssign (x y : Grid) (hIx : GridInv x) (hIy : GridInv y) (hd : x.spaceDim = y.spaceDim) :
    GridInv (differenceAssign x y).x ∧ GridInv (differenceAssign x y).y ∧ (differenceAssign x y).thrown = false ∧
    (differenceAssign x y).x.spaceDim = x.spaceDim ∧ (differenceAssign x y).y.spaceDim = y.spaceDim ∧
    (differenceAssign x y).y.sem = y.sem ∧ x.sem \ y.sem ⊆ (differenceAssign x y).x.sem ∧
    (differenceAssign x y).x.sem ⊆ x.sem := by
  unfold differenceAssign
  rw [if_neg (not_not.mpr hd)]
  by_cases hm : y.markedEmpty = true ∨ x.markedEmpty = true
  · rw [if_pos hm]
    exact ⟨hIx, hIy, rfl, rfl, rfl, rfl, Set.sdiff_subset, fun _ h => h⟩
  · rw [if_neg hm]
    have hy : y.st.empty = false := by
      cases h : y.st.empty with
      | false => rfl
      | true => exact absurd (Or.inl h) hm
    have hx : x.st.empty = false := by
      cases h : x.st.empty with
      | false => rfl
      | true => exact absurd (Or.inr h) hm
    by_cases h0 : x.spaceDim = 0
    · rw [if_pos h0]
      obtain ⟨s1, s2, s3⟩ := gn_inv_setEmpty x
      refine ⟨s1, hIy, rfl, s3, rfl, rfl, ?_, by rw [s2]; exact Set.empty_subset _⟩
      show x.sem \ y.sem ⊆ (setEmpty x).sem
      rw [gn_sem_dim0 hx h0, gn_sem_dim0 (g := y) hy (by rw [← hd]; exact h0), Set.sdiff_self]
      exact Set.empty_subset _
    · rw [if_neg h0]
      have hn : 0 < x.spaceDim := by omega
      simp only []
      obtain ⟨c1, c2, c3, c4, c5, c6, b, cb, hb⟩ := gn_contains y x hIy hIx hd.symm
      by_cases hc : (contains y x).2.2 = some true
      · rw [if_pos hc]
        obtain ⟨s1, s2, s3⟩ := gn_inv_setEmpty (contains y x).2.1
        have hsub : x.sem ⊆ y.sem := by
          rw [cb] at hc
          exact hb.mp (Option.some.inj hc)
        refine ⟨s1, c1, rfl, by rw [s3, c6], c5, c3, ?_, by rw [s2]; exact Set.empty_subset _⟩
        rw [Set.sdiff_eq_empty.mpr hsub]; exact Set.empty_subset _
      · rw [if_neg hc]
        have hye : (contains y x).1.st.empty = false := gn_contains_fst_empty y x hIy hy hx hd.symm
        have hny : 0 < (contains y x).1.spaceDim := by rw [c5, ← hd]; exact hn
        obtain ⟨g1, g2, g3, g4, g5, _, _⟩ := congruences_spec (contains y x).1 c1
        have hye2 : (congruences (contains y x).1).st.empty = false := by rw [g4]; exact hye
        obtain ⟨_, w, sy⟩ := gn_sem_of_cUp g1 (by rw [g3]; exact hny) hye2 (g5 hye hny)
        rw [g3, c5, ← hd] at w sy
        rw [g2, c3] at sy
        -- the list of the loop
        have hL : ∀ cg ∈ (congruences (contains y x).1).con.filter (fun cg => !cg.isTautological),
            cg.spaceDim ≤ (contains y x).2.1.spaceDim ∧ 0 ≤ cg.m ∧ cg.e ≠ [] := by
          intro cg hcg
          obtain ⟨l, m⟩ := w cg (List.mem_of_mem_filter hcg)
          refine ⟨by rw [c6]; unfold CRow.spaceDim; omega, m, fun h => ?_⟩
          rw [h] at l; simp at l
        have hng : GridInv (constructDeg (contains y x).2.1.spaceDim false) := constructDeg_inv _ _
        have hngs : (constructDeg (contains y x).2.1.spaceDim false).sem = ∅ := by
          rw [constructDeg_sem]; rfl
        obtain ⟨p1, p2, p3, p4⟩ := gn_differenceLoop _ (contains y x).2.1 _ c2 hng rfl hL
          (by rw [hngs]; exact Set.empty_subset _)
        cases hr : (differenceLoop (contains y x).2.1 (constructDeg (contains y x).2.1.spaceDim false)
            ((congruences (contains y x).1).con.filter fun cg => !cg.isTautological)).2 with
        | none =>
          exact ⟨p1, g1, rfl, by rw [p3, c6], by rw [g3, c5], by rw [g2, c3],
            by rw [p2, c4]; exact Set.sdiff_subset, by rw [p2, c4]⟩
        | some ng' =>
          obtain ⟨q1, q2, q3, _, q5⟩ := p4 ng' hr
          obtain ⟨t1, t2, t3⟩ := cn_assign (differenceLoop (contains y x).2.1
            (constructDeg (contains y x).2.1.spaceDim false)
            ((congruences (contains y x).1).con.filter fun cg => !cg.isTautological)).1 ng' q1
          refine ⟨t1, g1, rfl, by rw [t3, q2, c6], by rw [g3, c5], by rw [g2, c3], ?_, by rw [t2, ← c4]; exact q3⟩
          show x.sem \ y.sem ⊆ Grid.sem _
          rw [t2]
          rintro p ⟨hpx, hpy⟩
          refine q5 p (by rw [c4]; exact hpx) ?_
          rw [sy, cn_mem_consSet] at hpy
          have hsupp : Supp x.spaceDim p := cn_sem_subset_space x hIx hpx
          have : ∃ r ∈ (congruences (contains y x).1).con, p ∉ CRow.set r := by
            by_contra h
            apply hpy
            refine ⟨hsupp, fun r hr => ?_⟩
            by_contra h'
            exact h ⟨r, hr, h'⟩
          obtain ⟨r, hr, hv⟩ := this
          refine ⟨r, List.mem_filter.mpr ⟨hr, ?_⟩, hv⟩
          cases ht : r.isTautological with
          | false => rfl
          | true => exact absurd (gn_taut_mem r ht p) hv

/-- the hypotheses are satisfiable: the grids `{0}` and `{1/2}` of the line -/
example : ∃ x y : Grid, GridInv x ∧ GridInv y ∧ x.spaceDim = y.spaceDim :=
  ⟨{ spaceDim := 1, st := { gUp := true }, conDim := 1, con := [], genDim := 1, gen := [⟨false, [1, 0, 0]⟩], dk := [] },
   { spaceDim := 1, st := { gUp := true }, conDim := 1, con := [], genDim := 1, gen := [⟨false, [2, 1, 0]⟩], dk := [] },
   (gn_inv_gens (D := 1) (by decide) rfl rfl rfl rfl rfl rfl rfl (by intro r hr; rw [List.mem_singleton.mp hr]; rfl)
      ⟨by decide, ⟨_, List.mem_singleton.mpr rfl, rfl, rfl⟩, by decide, by decide, by decide⟩).1,
   (gn_inv_gens (D := 2) (by decide) rfl rfl rfl rfl rfl rfl rfl (by intro r hr; rw [List.mem_singleton.mp hr]; rfl)
      ⟨by decide, ⟨_, List.mem_singleton.mpr rfl, rfl, rfl⟩, by decide, by decide, by decide⟩).1, rfl⟩

end PPLV.Lattice.GO
