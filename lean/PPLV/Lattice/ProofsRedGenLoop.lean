import PPLV.Lattice.ProofsRedGenDim

/-!
# `Grid::simplify(Grid_Generator_System&, Dimension_Kinds&)` keeps the lattice and produces the triangular form

Main results: `simplifyGens_preserves`, `simplifyGens_tri` (Prop-level triangular form), `simplifyGens_wf`.
-/
namespace PPLV.Lattice.Red
open PPLV.Lattice

/-- same line flags, sizes and entries in the columns `0..n` (only the parameter divisor column may differ) -/
structure SDRel (n : Nat) (rows rows' : List GRow) : Prop where
  len : rows'.length = rows.length
  row : ∀ i, i < rows.length → (rowAt rows' i).line = (rowAt rows i).line ∧
    (rowAt rows' i).e.length = (rowAt rows i).e.length ∧ ∀ c, c ≤ n → get (rowAt rows' i).e c = get (rowAt rows i).e c

theorem SDRel.refl (n : Nat) (rows : List GRow) : SDRel n rows rows :=
  ⟨rfl, fun _ _ => ⟨rfl, rfl, fun _ _ => rfl⟩⟩

theorem SDRel.trans {n : Nat} {r1 r2 r3 : List GRow} (h1 : SDRel n r1 r2) (h2 : SDRel n r2 r3) : SDRel n r1 r3 :=
  ⟨h2.len.trans h1.len, fun i hi =>
    have a := h1.row i hi
    have b := h2.row i (by rw [h1.len]; exact hi)
    ⟨b.1.trans a.1, b.2.1.trans a.2.1, fun c hc => (b.2.2 c hc).trans (a.2.2 c hc)⟩⟩

theorem SDRel.hom {n : Nat} {rows rows' : List GRow} (h : SDRel n rows rows') (v : Pt) :
    Hom n rows v ↔ Hom n rows' v :=
  hom_iff_of_hv h.len (fun i hi => ⟨(h.row i hi).1, hv_congr (h.row i hi).2.2⟩) v

theorem SDRel.wf {n : Nat} {rows rows' : List GRow} (h : SDRel n rows rows') (hwf : WfI n rows) : WfI n rows' := by
  intro i hi
  rw [h.len] at hi
  rw [(h.row i hi).2.1]; exact hwf i hi

theorem SDRel.tri {n : Nat} {rows rows' : List GRow} {dk : List Nat} (h : SDRel n rows rows') {d p : Nat}
    (hd : d ≤ n + 1) (hp : p ≤ rows.length) (ht : Tri dk rows d p) : Tri dk rows' d p :=
  Tri_congr d p (fun j hj => ⟨(h.row j (by omega)).1, fun c hc => by rw [(h.row j (by omega)).2.2 c (by omega)]⟩) ht

/-- `set_divisor` on a row whose inhomogeneous term is zero touches only the parameter divisor column -/
theorem setDivisor_spec {n : Nat} (r : GRow) (d : Int) (hlen : r.e.length = n + 2) (h0 : get r.e 0 = 0) :
    (r.setDivisor d).line = r.line ∧ (r.setDivisor d).e.length = r.e.length ∧
      ∀ c, c ≤ n → get (r.setDivisor d).e c = get r.e c := by
  have e : r.setDivisor d = { r with e := r.e.set (r.e.length - 1) d } := by
    unfold GRow.setDivisor GRow.isLineOrParameter
    rw [h0]; rfl
  rw [e]
  refine ⟨rfl, by simp, fun c hc => ?_⟩
  show get (r.e.set (r.e.length - 1) d) c = get r.e c
  rw [get_set, if_neg (fun h => by omega)]

theorem setDivisors_zero (dk : List Nat) (sd : Int) (i : Nat) (rows : List GRow) :
    setDivisors dk sd 0 i rows = rows := rfl

theorem setDivisors_succ (dk : List Nat) (sd : Int) (dim i : Nat) (rows : List GRow) :
    setDivisors dk sd (dim + 1) i rows =
      if kind dk (dim + 1) = PARAMETER then
        setDivisors dk sd dim (i - 1) (rows.set i ((rowAt rows i).setDivisor sd))
      else if kind dk (dim + 1) = LINE then setDivisors dk sd dim (i - 1) rows
      else setDivisors dk sd dim i rows := rfl

theorem setDivisors_nil (dk : List Nat) (sd : Int) : ∀ (dim i : Nat), setDivisors dk sd dim i [] = [] := by
  intro dim
  induction dim with
  | zero => intro i; rfl
  | succ d ih =>
    intro i
    rw [setDivisors_succ]
    split
    · rw [List.set_nil]; exact ih _
    · split
      · exact ih _
      · exact ih _

/-- the last loop: only parameter divisors of parameter rows are written -/
theorem setDivisors_spec {n : Nat} {dk : List Nat} (sd : Int) : ∀ (dim i : Nat) (rows : List GRow) (p : Nat),
    dim ≤ n → WfI n rows → Tri dk rows (dim + 1) p → i = p - 1 → p ≤ rows.length →
    SDRel n rows (setDivisors dk sd dim i rows) := by
  intro dim
  induction dim with
  | zero => intro i rows p _ _ _ _ _; rw [setDivisors_zero]; exact SDRel.refl _ _
  | succ d ih =>
    intro i rows p hd hwf htri hi hp
    rw [setDivisors_succ]
    by_cases hv : kind dk (d + 1) = GEN_VIRTUAL
    · rw [if_neg (by rw [hv]; decide), if_neg (by rw [hv]; decide)]
      exact ih i rows p (by omega) hwf ((Tri_virt hv).mp htri) hi hp
    · obtain ⟨hp0, hrow, ht⟩ := (Tri_real hv).mp htri
      by_cases hpar : kind dk (d + 1) = PARAMETER
      · rw [if_pos hpar]
        have hil : i < rows.length := by omega
        have h0 : get (rowAt rows i).e 0 = 0 := by rw [hi]; exact hrow.2.2 0 (by omega)
        obtain ⟨s1, s2, s3⟩ := setDivisor_spec (n := n) (rowAt rows i) sd (hwf i hil) h0
        have step : SDRel n rows (rows.set i ((rowAt rows i).setDivisor sd)) := by
          refine ⟨by simp, fun j hj => ?_⟩
          rw [rowAt_set]; split
          · rename_i h; rw [h.1]; exact ⟨s1, s2, s3⟩
          · exact ⟨rfl, rfl, fun _ _ => rfl⟩
        have hrec := ih (i - 1) (rows.set i ((rowAt rows i).setDivisor sd)) (p - 1) (by omega) (step.wf hwf)
          (step.tri (by omega) (by omega) ht) (by omega) (by rw [step.len]; omega)
        exact step.trans hrec
      · have hline : kind dk (d + 1) = LINE := by
          have := hrow.1
          cases hh : (rowAt rows (p - 1)).line
          · rw [hh] at this; exact absurd this hpar
          · rw [hh] at this; exact this
        rw [if_neg hpar, if_pos hline]
        exact ih (i - 1) rows (p - 1) (by omega) hwf ht (by omega) (by omega)

theorem setDivisor_last {n : Nat} (r : GRow) (d : Int) (hlen : r.e.length = n + 2) (h0 : get r.e 0 = 0) :
    get (r.setDivisor d).e (n + 1) = d := by
  have e : r.setDivisor d = { r with e := r.e.set (r.e.length - 1) d } := by
    unfold GRow.setDivisor GRow.isLineOrParameter
    rw [h0]; rfl
  rw [e]
  show get (r.e.set (r.e.length - 1) d) (n + 1) = d
  rw [get_set, if_pos ⟨by omega, by omega⟩]

/-- the last loop: rows from `p` on are not touched; every parameter row (inhomogeneous term 0) gets the
    parameter divisor `sd` -/
theorem setDivisors_par {n : Nat} {dk : List Nat} (sd : Int) : ∀ (dim i : Nat) (rows : List GRow) (p : Nat),
    dim ≤ n → WfI n rows → Tri dk rows (dim + 1) p → i = p - 1 → p ≤ rows.length →
    (∀ j, p ≤ j → rowAt (setDivisors dk sd dim i rows) j = rowAt rows j) ∧
    (∀ j, j < p → (rowAt rows j).line = false → get (rowAt rows j).e 0 = 0 →
      get (rowAt (setDivisors dk sd dim i rows) j).e (n + 1) = sd) := by
  intro dim
  induction dim with
  | zero =>
    intro i rows p _ _ htri _ _
    rw [setDivisors_zero]
    refine ⟨fun _ _ => rfl, fun j hj _ h0 => ?_⟩
    by_cases hv : kind dk 0 = GEN_VIRTUAL
    · have : p = 0 := (Tri_virt hv).mp htri
      omega
    · obtain ⟨hp0, hrow, ht⟩ := (Tri_real hv).mp htri
      have hp1 : p - 1 = 0 := ht
      have hj0 : j = 0 := by omega
      subst hj0
      have := hrow.2.1
      rw [hp1, h0] at this
      exact absurd this (by decide)
  | succ d ih =>
    intro i rows p hd hwf htri hi hp
    rw [setDivisors_succ]
    by_cases hv : kind dk (d + 1) = GEN_VIRTUAL
    · rw [if_neg (by rw [hv]; decide), if_neg (by rw [hv]; decide)]
      exact ih i rows p (by omega) hwf ((Tri_virt hv).mp htri) hi hp
    · obtain ⟨hp0, hrow, ht⟩ := (Tri_real hv).mp htri
      by_cases hpar : kind dk (d + 1) = PARAMETER
      · rw [if_pos hpar]
        have hil : i < rows.length := by omega
        have h0 : get (rowAt rows i).e 0 = 0 := by rw [hi]; exact hrow.2.2 0 (by omega)
        obtain ⟨s1, s2, s3⟩ := setDivisor_spec (n := n) (rowAt rows i) sd (hwf i hil) h0
        have step : SDRel n rows (rows.set i ((rowAt rows i).setDivisor sd)) := by
          refine ⟨by simp, fun j hj => ?_⟩
          rw [rowAt_set]; split
          · rename_i h; rw [h.1]; exact ⟨s1, s2, s3⟩
          · exact ⟨rfl, rfl, fun _ _ => rfl⟩
        obtain ⟨fr, pa⟩ := ih (i - 1) (rows.set i ((rowAt rows i).setDivisor sd)) (p - 1) (by omega) (step.wf hwf)
          (step.tri (by omega) (by omega) ht) (by omega) (by rw [step.len]; omega)
        constructor
        · intro j hj
          rw [fr j (by omega), rowAt_set, if_neg (fun h => by omega)]
        · intro j hj hl hj0
          by_cases e : j = i
          · rw [fr j (by omega), rowAt_set, if_pos ⟨e, hil⟩]
            exact setDivisor_last _ _ (hwf i hil) h0
          · have hsame : rowAt (rows.set i ((rowAt rows i).setDivisor sd)) j = rowAt rows j := by
              rw [rowAt_set, if_neg (fun h => e h.1)]
            exact pa j (by omega) (by rw [hsame]; exact hl) (by rw [hsame]; exact hj0)
      · have hline : kind dk (d + 1) = LINE := by
          have := hrow.1
          cases hh : (rowAt rows (p - 1)).line
          · rw [hh] at this; exact absurd this hpar
          · rw [hh] at this; exact this
        rw [if_neg hpar, if_pos hline]
        obtain ⟨fr, pa⟩ := ih (i - 1) rows (p - 1) (by omega) hwf ht (by omega) (by omega)
        constructor
        · intro j hj; exact fr j (by omega)
        · intro j hj hl hj0
          by_cases e : j = p - 1
          · have := hrow.1
            rw [hline, ← e, hl] at this
            exact absurd this (by decide)
          · exact pa j (by omega) hl hj0

theorem rowAt_takeG (rows : List GRow) (p i : Nat) (hi : i < p) : rowAt (rows.take p) i = rowAt rows i := by
  simp [rowAt, hi]

/-- clipping and the divisor loop, for a state that satisfies the invariant after the last dimension -/
theorem final_spec {n numRows : Nat} {st : GSt} (h : OInv n numRows (n + 1) st) (rows1 : List GRow)
    (hrows1 : rows1 = if numRows > st.pivotIndex then st.rows.take st.pivotIndex else st.rows) (sd : Int) :
    (∀ v, Hom n st.rows v ↔ Hom n (setDivisors st.dk sd n (rows1.length - 1) rows1) v) ∧
      Tri st.dk (setDivisors st.dk sd n (rows1.length - 1) rows1) (n + 1)
        (setDivisors st.dk sd n (rows1.length - 1) rows1).length ∧
      WfI n (setDivisors st.dk sd n (rows1.length - 1) rows1) ∧
      (∀ j, j < (setDivisors st.dk sd n (rows1.length - 1) rows1).length →
        (rowAt (setDivisors st.dk sd n (rows1.length - 1) rows1) j).line = false →
        get (rowAt (setDivisors st.dk sd n (rows1.length - 1) rows1) j).e 0 = 0 →
        get (rowAt (setDivisors st.dk sd n (rows1.length - 1) rows1) j).e (n + 1) = sd) ∧
      (0 < rows1.length →
        get (rowAt (setDivisors st.dk sd n (rows1.length - 1) rows1) 0).e 0 = get (rowAt rows1 0).e 0) := by
  have hlen := h.len
  have hple := h.ple
  have hclip : rows1.length = st.pivotIndex ∧ (∀ i, i < st.pivotIndex → rowAt rows1 i = rowAt st.rows i) ∧
      ∀ v, Hom n st.rows v ↔ Hom n rows1 v := by
    by_cases hc : numRows > st.pivotIndex
    · rw [hrows1, if_pos hc]
      refine ⟨by simp; omega, fun i hi => rowAt_takeG _ _ _ hi, hom_iff_take _ (fun i hpi hi => ?_)⟩
      exact hv_zero fun c hc' => h.zero i hpi hi c (by omega)
    · rw [hrows1, if_neg hc]
      exact ⟨by omega, fun _ _ => rfl, fun _ => Iff.rfl⟩
  obtain ⟨c1, c2, c3⟩ := hclip
  have wf1 : WfI n rows1 := by
    intro i hi
    rw [c1] at hi
    rw [c2 i hi]; exact h.wf i (by omega)
  have tri1 : Tri st.dk rows1 (n + 1) st.pivotIndex :=
    Tri_congr _ _ (fun j hj => by rw [c2 j hj]; exact ⟨rfl, fun _ _ => rfl⟩) h.tri
  have hsd := setDivisors_spec (dk := st.dk) sd n (rows1.length - 1) rows1 st.pivotIndex (Nat.le_refl _) wf1 tri1
    (by rw [c1]) (by omega)
  have hl : (setDivisors st.dk sd n (rows1.length - 1) rows1).length = st.pivotIndex := hsd.len.trans c1
  obtain ⟨_, pa⟩ := setDivisors_par (dk := st.dk) sd n (rows1.length - 1) rows1 st.pivotIndex (Nat.le_refl _) wf1 tri1
    (by rw [c1]) (by omega)
  refine ⟨fun v => (c3 v).trans (hsd.hom v), ?_, hsd.wf wf1, ?_, ?_⟩
  · rw [hl]
    exact hsd.tri (Nat.le_refl _) (by omega) tri1
  · intro j hj hline h0
    rw [hl] at hj
    have r := hsd.row j (by omega)
    exact pa j hj (by rw [← r.1]; exact hline) (by rw [← r.2.2 0 (by omega)]; exact h0)
  · intro h0
    exact (hsd.row 0 h0).2.2 0 (by omega)

theorem simplifyGens_eq (n : Nat) (rows : List GRow) (dk : List Nat) :
    simplifyGens n rows dk =
      (setDivisors
        ((List.range (n + 1)).foldl (simplifyGenDim (n + 1) rows.length)
          { rows := rows, dk := if dk.length ≠ n + 1 then resizeKinds dk (n + 1) else dk, pivotIndex := 0 }).dk
        (get (rowAt (if rows.length > ((List.range (n + 1)).foldl (simplifyGenDim (n + 1) rows.length)
              { rows := rows, dk := if dk.length ≠ n + 1 then resizeKinds dk (n + 1) else dk, pivotIndex := 0 }).pivotIndex
            then ((List.range (n + 1)).foldl (simplifyGenDim (n + 1) rows.length)
              { rows := rows, dk := if dk.length ≠ n + 1 then resizeKinds dk (n + 1) else dk, pivotIndex := 0 }).rows.take
                ((List.range (n + 1)).foldl (simplifyGenDim (n + 1) rows.length)
              { rows := rows, dk := if dk.length ≠ n + 1 then resizeKinds dk (n + 1) else dk, pivotIndex := 0 }).pivotIndex
            else ((List.range (n + 1)).foldl (simplifyGenDim (n + 1) rows.length)
              { rows := rows, dk := if dk.length ≠ n + 1 then resizeKinds dk (n + 1) else dk, pivotIndex := 0 }).rows) 0).e 0)
        n
        ((if rows.length > ((List.range (n + 1)).foldl (simplifyGenDim (n + 1) rows.length)
              { rows := rows, dk := if dk.length ≠ n + 1 then resizeKinds dk (n + 1) else dk, pivotIndex := 0 }).pivotIndex
            then ((List.range (n + 1)).foldl (simplifyGenDim (n + 1) rows.length)
              { rows := rows, dk := if dk.length ≠ n + 1 then resizeKinds dk (n + 1) else dk, pivotIndex := 0 }).rows.take
                ((List.range (n + 1)).foldl (simplifyGenDim (n + 1) rows.length)
              { rows := rows, dk := if dk.length ≠ n + 1 then resizeKinds dk (n + 1) else dk, pivotIndex := 0 }).pivotIndex
            else ((List.range (n + 1)).foldl (simplifyGenDim (n + 1) rows.length)
              { rows := rows, dk := if dk.length ≠ n + 1 then resizeKinds dk (n + 1) else dk, pivotIndex := 0 }).rows).length - 1)
        (if rows.length > ((List.range (n + 1)).foldl (simplifyGenDim (n + 1) rows.length)
              { rows := rows, dk := if dk.length ≠ n + 1 then resizeKinds dk (n + 1) else dk, pivotIndex := 0 }).pivotIndex
            then ((List.range (n + 1)).foldl (simplifyGenDim (n + 1) rows.length)
              { rows := rows, dk := if dk.length ≠ n + 1 then resizeKinds dk (n + 1) else dk, pivotIndex := 0 }).rows.take
                ((List.range (n + 1)).foldl (simplifyGenDim (n + 1) rows.length)
              { rows := rows, dk := if dk.length ≠ n + 1 then resizeKinds dk (n + 1) else dk, pivotIndex := 0 }).pivotIndex
            else ((List.range (n + 1)).foldl (simplifyGenDim (n + 1) rows.length)
              { rows := rows, dk := if dk.length ≠ n + 1 then resizeKinds dk (n + 1) else dk, pivotIndex := 0 }).rows),
       ((List.range (n + 1)).foldl (simplifyGenDim (n + 1) rows.length)
          { rows := rows, dk := if dk.length ≠ n + 1 then resizeKinds dk (n + 1) else dk, pivotIndex := 0 }).dk) := rfl

theorem length_resizeKinds (dk : List Nat) (m : Nat) : (resizeKinds dk m).length = m := by
  simp [resizeKinds]; omega

/-- everything at once -/
theorem simplifyGens_spec (n : Nat) (rows : List GRow) (dk : List Nat) (hwf : GWf n rows) :
    HomSim n rows (simplifyGens n rows dk).1 ∧
      Tri (simplifyGens n rows dk).2 (simplifyGens n rows dk).1 (n + 1) (simplifyGens n rows dk).1.length ∧
      WfI n (simplifyGens n rows dk).1 ∧
      (∀ j, j < (simplifyGens n rows dk).1.length → (rowAt (simplifyGens n rows dk).1 j).line = false →
        get (rowAt (simplifyGens n rows dk).1 j).e 0 = 0 →
        get (rowAt (simplifyGens n rows dk).1 j).e (n + 1) = get (rowAt (simplifyGens n rows dk).1 0).e 0) := by
  have hdk0 : (if dk.length ≠ n + 1 then resizeKinds dk (n + 1) else dk).length = n + 1 := by
    split
    · exact length_resizeKinds _ _
    · rename_i h; exact not_not.mp h
  have h0 : OInv n rows.length 0
      { rows := rows, dk := if dk.length ≠ n + 1 then resizeKinds dk (n + 1) else dk, pivotIndex := 0 } :=
    ⟨rfl, wfI_of_gwf hwf, Nat.zero_le _, fun _ _ _ c hc => absurd hc (Nat.not_lt_zero c), rfl, hdk0⟩
  obtain ⟨hO, hH⟩ := outer_fold (n + 1) 0 _ h0 (by omega)
  rw [← List.range_eq_range'] at hO hH
  rw [Nat.zero_add] at hO
  rw [simplifyGens_eq]
  generalize (List.range (n + 1)).foldl (simplifyGenDim (n + 1) rows.length)
    { rows := rows, dk := if dk.length ≠ n + 1 then resizeKinds dk (n + 1) else dk, pivotIndex := 0 } = st at hO hH
  obtain ⟨f1, f2, f3, f4, f5⟩ := final_spec hO _ rfl
    (get (rowAt (if rows.length > st.pivotIndex then st.rows.take st.pivotIndex else st.rows) 0).e 0)
  refine ⟨hH.trans (HomSim.of_iff f1), f2, f3, fun j hj hl h0 => ?_⟩
  have hlen0 : 0 < (if rows.length > st.pivotIndex then st.rows.take st.pivotIndex else st.rows).length := by
    by_contra hc
    have h00 : (if rows.length > st.pivotIndex then st.rows.take st.pivotIndex else st.rows).length = 0 := by omega
    have e : (if rows.length > st.pivotIndex then st.rows.take st.pivotIndex else st.rows) = [] :=
      List.length_eq_zero_iff.mp h00
    rw [e] at hj
    have : setDivisors st.dk (get (rowAt ([] : List GRow) 0).e 0) n (([] : List GRow).length - 1) [] = [] :=
      setDivisors_nil _ _ _ _
    rw [this] at hj
    exact absurd hj (Nat.not_lt_zero j)
  rw [f5 hlen0]
  exact f4 j hj hl h0

/-- **`Grid::simplify` keeps the lattice** (up to the positive integer by which `reduce_parameter_with_line`
    scaled the parameter and point rows).  No hypothesis beyond the row sizes is needed (`rows = []` included). -/
theorem simplifyGens_preserves (n : Nat) (rows : List GRow) (dk : List Nat) (hwf : GWf n rows) :
    ∃ k : Int, 0 < k ∧ ∀ v, Hom n rows v ↔ Hom n (simplifyGens n rows dk).1 ((k : Rat) • v) :=
  (simplifyGens_spec n rows dk hwf).1

/-- **the result is in triangular form** (Prop level): the rows are, in order, the pivot rows of the
    non-virtual dimensions; each has a positive diagonal entry, zeros before it, and its kind agrees with its
    line flag -/
theorem simplifyGens_tri (n : Nat) (rows : List GRow) (dk : List Nat) (hwf : GWf n rows) :
    Tri (simplifyGens n rows dk).2 (simplifyGens n rows dk).1 (n + 1) (simplifyGens n rows dk).1.length :=
  (simplifyGens_spec n rows dk hwf).2.1

/-- the rows keep their sizes -/
theorem simplifyGens_wf (n : Nat) (rows : List GRow) (dk : List Nat) (hwf : GWf n rows) :
    GWf n (simplifyGens n rows dk).1 :=
  gwf_of_wfI (simplifyGens_spec n rows dk hwf).2.2.1

/-- the last loop gives every parameter row (not a line, inhomogeneous term 0) the system divisor, i.e. the
    inhomogeneous term of row 0, as its parameter divisor -/
theorem simplifyGens_divisors (n : Nat) (rows : List GRow) (dk : List Nat) (hwf : GWf n rows) :
    ∀ j, j < (simplifyGens n rows dk).1.length → (rowAt (simplifyGens n rows dk).1 j).line = false →
      get (rowAt (simplifyGens n rows dk).1 j).e 0 = 0 →
      get (rowAt (simplifyGens n rows dk).1 j).e (n + 1) = get (rowAt (simplifyGens n rows dk).1 0).e 0 :=
  (simplifyGens_spec n rows dk hwf).2.2.2

/-- clipping zero rows keeps the lattice -/
theorem take_homSim (n : Nat) (rows : List GRow) (p : Nat)
    (hz : ∀ i, p ≤ i → i < rows.length → ∀ c, c ≤ n → get (rowAt rows i).e c = 0) : HomSim n rows (rows.take p) :=
  HomSim.of_iff (hom_iff_take p fun i hpi hi => hv_zero (hz i hpi hi))

/-- the divisor loop keeps the lattice (it writes only the parameter divisor column) -/
theorem setDivisors_homSim {n : Nat} {dk : List Nat} (sd : Int) (rows : List GRow) (hwf : WfI n rows)
    (htri : Tri dk rows (n + 1) rows.length) : HomSim n rows (setDivisors dk sd n (rows.length - 1) rows) :=
  HomSim.of_iff (setDivisors_spec sd n (rows.length - 1) rows rows.length (Nat.le_refl _) hwf htri rfl
    (Nat.le_refl _)).hom

end PPLV.Lattice.Red
