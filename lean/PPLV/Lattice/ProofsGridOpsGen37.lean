import PPLV.Lattice.ProofsGridOpsGen36

/-!
# Generator side of the `Grid` object, part 37 — `add_recycled_grid_generators`: the generator system of the result
-/
namespace PPLV.Lattice.GO
open PPLV.Lattice PPLV.Lattice.Red

/-- a generator system argument as the library builds it -/
def gn_GsOK (gs : GSys) : Prop := ∀ r ∈ gs.rows, gn_RowN gs.dim r

theorem gn_resize_row {m n : Nat} {r : GRow} (h : gn_RowN m r) (hmn : m ≤ n) :
    gn_Twin (r.setSpaceDim n) r ∧ gn_RowN n (r.setSpaceDim n) := by
  obtain ⟨a, b, c, d, e⟩ := gn_setSpaceDim_sem h.1 hmn
  have hk := gn_kind_congr (x := r) (y := r.setSpaceDim n) a (by rw [c])
  exact ⟨⟨a, hk.1, hk.2, e⟩, b, fun hl => by rw [d]; exact h.2.1 (by rw [← a]; exact hl),
    fun hl => by rw [c]; exact h.2.2 (by rw [← a]; exact hl)⟩

/-- `S` is the least closed set that contains `X`, the points of `Y`, and absorbs the parameters and lines of `Y` -/
def gn_IsAddGens (S X : Set Pt) (Y : List GRow) : Prop :=
  gn_Closed S ∧ X ⊆ S ∧ (∀ r ∈ Y, gn_isPt r = true → gn_vecOf r ∈ S) ∧
  (∀ r ∈ Y, gn_isPar r = true → ∀ a ∈ S, ∀ k : Int, a + (k : ℚ) • gn_vecOf r ∈ S) ∧
  (∀ r ∈ Y, r.line = true → ∀ a ∈ S, ∀ q : ℚ, a + q • gn_vecOf r ∈ S) ∧
  ∀ K : Set Pt, gn_Closed K → X ⊆ K → (∀ r ∈ Y, gn_isPt r = true → gn_vecOf r ∈ K) →
    (∀ r ∈ Y, gn_isPar r = true → ∀ a ∈ K, ∀ k : Int, a + (k : ℚ) • gn_vecOf r ∈ K) →
    (∀ r ∈ Y, r.line = true → ∀ a ∈ K, ∀ q : ℚ, a + q • gn_vecOf r ∈ K) → S ⊆ K

theorem gn_isAddGens_append {X Y : List GRow} (hX : ∃ r ∈ X, gn_isPt r = true) :
    gn_IsAddGens (gn_set (X ++ Y)) (gn_set X) Y := by
  refine ⟨gn_closed_set _, fun _ h => gn_mem_append_left h,
    fun r hr p => gn_mem_pt (List.mem_append_right _ hr) p,
    fun r hr p a ha k => gn_mem_par_step (List.mem_append_right _ hr) p ha k,
    fun r hr p a ha q => gn_mem_line_step (List.mem_append_right _ hr) p ha q, ?_⟩
  intro K hK h1 h2 h3 h4
  obtain ⟨px, lx⟩ := gn_absorb hK h1 hX
  refine gn_mem_least hK ?_ ?_ ?_
  · intro r hr p
    rcases List.mem_append.mp hr with hr | hr
    · exact h1 (gn_mem_pt hr p)
    · exact h2 r hr p
  · intro r hr p
    rcases List.mem_append.mp hr with hr | hr
    · exact px r hr p
    · exact h3 r hr p
  · intro r hr p
    rcases List.mem_append.mp hr with hr | hr
    · exact lx r hr p
    · exact h4 r hr p

/-- the generator system after `gs.set_space_dimension`, `normalize_divisors(gs, gen_sys)` and `gen_sys.insert(gs)` -/
theorem gn_recycled_rows {n : Nat} (hn : 0 < n) {X : List GRow} {D : Int} (hw : GWf n X) (hN : GNorm n D X) (gs : GSys)
    (hgs : gn_GsOK gs) (hd : gs.dim ≤ n) :
    ∃ rows D', (normalizeDivisors2 (gs.setSpaceDim n) (GSys.mk n X)).2.insertSys
        (normalizeDivisors2 (gs.setSpaceDim n) (GSys.mk n X)).1 = GSys.mk n rows ∧
      GWf n rows ∧ GNorm n D' rows ∧ gn_set rows = gn_set (X ++ gs.rows) := by
  have hres : ∀ r ∈ gs.rows, gn_Twin (r.setSpaceDim n) r ∧ gn_RowN n (r.setSpaceDim n) :=
    fun r hr => gn_resize_row (hgs r hr) hd
  have hrowN : ∀ r' ∈ (gs.setSpaceDim n).rows, gn_RowN n r' := by
    intro r' hr'
    obtain ⟨r, hr, rfl⟩ := List.mem_map.mp hr'
    exact (hres r hr).2
  obtain ⟨fp, hfp, hdiv⟩ := gn_find_firstPoint hN
  obtain ⟨f, e1, hpos, hdvd, hf⟩ := gn_normalizeDivisors0 hrowN hn D hN.pos
  have hwf := gn_wf_of_gnorm hN hw
  -- the rows of `gs` after both maps
  have hY : ∀ r ∈ gs.rows, gn_Twin (f (r.setSpaceDim n)) r ∧
      gn_RowD n (normalizeDivisors n (gs.setSpaceDim n).rows D).2 (f (r.setSpaceDim n)) := by
    intro r hr
    have := hf (r.setSpaceDim n) (List.mem_map_of_mem hr)
    exact ⟨this.1.trans (hres r hr).1, this.2⟩
  have hmap : (gs.setSpaceDim n).rows.map f = gs.rows.map (fun r => f (r.setSpaceDim n)) := by
    show (gs.rows.map (·.setSpaceDim n)).map f = _
    rw [List.map_map]; rfl
  have hwY : GWf n (gs.rows.map (fun r => f (r.setSpaceDim n))) := by
    intro r' hr'
    obtain ⟨r, hr, rfl⟩ := List.mem_map.mp hr'
    exact (hY r hr).2.1
  have hgn : ∀ {X' : List GRow}, GNorm n (normalizeDivisors n (gs.setSpaceDim n).rows D).2 X' →
      GNorm n (normalizeDivisors n (gs.setSpaceDim n).rows D).2 (X' ++ gs.rows.map (fun r => f (r.setSpaceDim n))) := by
    intro X' hX'
    refine gn_gnorm_append hX' ?_ ?_ ?_
    · intro r' hr'; obtain ⟨r, hr, rfl⟩ := List.mem_map.mp hr'; exact (hY r hr).2.2.1
    · intro r' hr'; obtain ⟨r, hr, rfl⟩ := List.mem_map.mp hr'; exact (hY r hr).2.2.2.1
    · intro r' hr'; obtain ⟨r, hr, rfl⟩ := List.mem_map.mp hr'; exact (hY r hr).2.2.2.2
  unfold normalizeDivisors2
  rw [hfp]
  simp only [hdiv]
  have hdim : (gs.setSpaceDim n).dim = n := rfl
  rw [hdim]
  by_cases hne : (normalizeDivisors n (gs.setSpaceDim n).rows D).2 = D
  · rw [if_neg (by simpa using hne)]
    simp only []
    rw [e1, hmap, gn_insertSys (GSys.mk n X) (GSys.mk n (gs.rows.map (fun r => f (r.setSpaceDim n)))) rfl hwY]
    refine ⟨_, _, rfl, gn_gwf_append hw hwY, hgn (by rw [hne]; exact hN), ?_⟩
    exact gn_set_append_congr (A := X) (A' := X) _ rfl hwf.pt hwf.pt (fun r hr => (hY r hr).1)
  · rw [if_pos hne]
    simp only []
    have hFP : normalizeDivisorsFP (GSys.mk n X) (normalizeDivisors n (gs.setSpaceDim n).rows D).2 D =
        GSys.mk n (X.map (·.scaleToDivisor (normalizeDivisors n (gs.setSpaceDim n).rows D).2)) := by
      unfold normalizeDivisorsFP
      rw [if_pos ⟨hn, hpos⟩, gn_lcm_of_dvd hpos hdvd]
    have hdv : ∀ r ∈ X, r.line = false → r.divisor ∣ (normalizeDivisors n (gs.setSpaceDim n).rows D).2 := by
      intro r hr hl; rw [gn_divisor_of_gnorm hN hw hr hl]; exact hdvd
    obtain ⟨a', b', c'⟩ := gn_scaleAll hwf _ hpos hdv
    rw [hFP, e1, hmap, gn_insertSys
      (GSys.mk n (X.map (·.scaleToDivisor (normalizeDivisors n (gs.setSpaceDim n).rows D).2)))
      (GSys.mk n (gs.rows.map (fun r => f (r.setSpaceDim n)))) rfl hwY]
    refine ⟨_, _, rfl, gn_gwf_append a' hwY, hgn b', ?_⟩
    exact gn_set_append_congr _ c' (gn_wf_of_gnorm b' a').pt hwf.pt (fun r hr => (hY r hr).1)

end PPLV.Lattice.GO
