import PPLV.Lattice.ProofsDims
import PPLV.Lattice.ProofsQueries

/-!
# K2: generalized affine image / preimage (`relCore`) compute the documented relation image
-/
set_option linter.unusedSimpArgs false
namespace PPLV.Lattice
open List

/-! ### adding several lines -/

theorem addLines_sem (G : GridGens) (ls : List Vec) (w : Pt) :
    Gen.sem (addLines G ls) w ↔ ∃ u, Gen.sem G u ∧ GDir [] ls (w - u) := by
  induction ls generalizing G w with
  | nil =>
    simp only [addLines, List.foldl_nil, GDir, List.map_nil]
    constructor
    · intro h; exact ⟨w, h, by simpa using Abs.Dir.zero⟩
    · rintro ⟨u, hu, hd⟩
      have := dir_zero_lines [] (by simp) hd
      have : w = u := by rwa [sub_eq_zero] at this
      rwa [this]
  | cons l ls ih =>
    simp only [addLines, List.foldl_cons]
    have := ih (addLine G l) w
    simp only [addLines] at this
    rw [this]
    constructor
    · rintro ⟨u, hu, hd⟩
      rw [addLine_sem] at hu
      obtain ⟨x, c, hx, rfl⟩ := hu
      refine ⟨x, hx, ?_⟩
      have e : w - x = (w - (x + c • l.toFun)) + c • l.toFun := by module
      rw [e]
      exact Abs.Dir.add (Abs.Dir.mono_subset (by simp) (by intro z hz; simp only [List.map_cons, List.mem_cons]; exact Or.inr hz) hd)
        (Abs.Dir.of_line c (by simp))
    · rintro ⟨u, hu, hd⟩
      -- split the multiples of l
      have split : ∀ v, Abs.Dir [] (l.toFun :: ls.map Vec.toFun) v → ∃ c : Rat, Abs.Dir [] (ls.map Vec.toFun) (v - c • l.toFun) := by
        intro v hv
        induction hv with
        | zero => exact ⟨0, by simpa using Abs.Dir.zero⟩
        | param k hq _ _ => simp at hq
        | @line z m d hm _ ih2 =>
          obtain ⟨c, hc⟩ := ih2
          rcases List.mem_cons.mp hm with rfl | hm
          · exact ⟨c + d, by
              have : z + d • l.toFun - (c + d) • l.toFun = z - c • l.toFun := by module
              rw [this]; exact hc⟩
          · refine ⟨c, ?_⟩
            have : z + d • m - c • l.toFun = (z - c • l.toFun) + d • m := by module
            rw [this]; exact Abs.Dir.line d hm hc
      obtain ⟨c, hc⟩ := split _ hd
      refine ⟨u + c • l.toFun, (addLine_sem G l _).mpr ⟨u, c, hu, rfl⟩, ?_⟩
      have e : w - (u + c • l.toFun) = w - u - c • l.toFun := by module
      rw [e]; exact hc

/-- the span of unit vectors: supported on the index list -/
theorem dir_units_iff (S : List Nat) (δ : Pt) :
    GDir [] (S.map unit) δ ↔ ∀ j, j ∉ S → δ j = 0 := by
  constructor
  · intro h
    induction h with
    | zero => intro j _; rfl
    | param k hq _ _ => simp at hq
    | @line w l c hl _ ih =>
      intro j hj
      obtain ⟨v, hv, rfl⟩ := List.mem_map.mp hl
      obtain ⟨i, hi, rfl⟩ := List.mem_map.mp hv
      have : j ≠ i := fun e => hj (e ▸ hi)
      simp [ih j hj, toFun_unit, this]
  · intro h
    induction S generalizing δ with
    | nil =>
      have : δ = 0 := funext (fun j => h j (by simp))
      rw [this]; exact Abs.Dir.zero
    | cons i S ih =>
      by_cases hi : i ∈ S
      · exact Abs.Dir.mono_subset (by simp) (by intro z hz; simp only [List.map_cons, List.mem_cons]; exact Or.inr hz)
          (ih δ (fun j hj => h j (by simp only [List.mem_cons, not_or]; exact ⟨fun e => hj (e ▸ hi), hj⟩)))
      · have h1 := ih (Function.update δ i 0) (fun j hj => by
          by_cases e : j = i
          · subst e; simp
          · rw [Function.update_of_ne e]; exact h j (by simp only [List.mem_cons, not_or]; exact ⟨e, hj⟩))
        have e : δ = Function.update δ i 0 + (δ i) • (unit i).toFun := by
          funext j
          by_cases e : j = i
          · subst e; simp [toFun_unit]
          · simp [Function.update_of_ne e, toFun_unit, e]
        rw [e]
        exact Abs.Dir.add (Abs.Dir.mono_subset (by simp) (by intro z hz; simp only [List.map_cons, List.mem_cons]; exact Or.inr hz) h1)
          (Abs.Dir.of_line _ (by simp))

/-! ### the first step: a new coordinate carrying `⟨α,x⟩ + a0` -/

/-- `x ↦ (x₀,…,x_{n-1}, α x, 0, …)` -/
def liftLin (n : Nat) (α : Pt →ₗ[ℚ] ℚ) : Pt →ₗ[ℚ] Pt where
  toFun x j := if j < n then x j else if j = n then α x else 0
  map_add' x y := by
    funext j; simp only [Pi.add_apply]
    by_cases h1 : j < n
    · simp [h1]
    · by_cases h2 : j = n <;> simp [h1, h2]
  map_smul' c x := by
    funext j; simp only [Pi.smul_apply, smul_eq_mul, RingHom.id_apply]
    by_cases h1 : j < n
    · simp [h1]
    · by_cases h2 : j = n <;> simp [h1, h2]

theorem lift_represents (n : Nat) (α : Vec) :
    Represents (fun x => setCoord (padTo n x) n (dot α x)) (liftLin n (alphaOf α)) := by
  intro v
  funext j
  rw [toFun_setCoord, toFun_padTo]
  simp only [liftLin, LinearMap.coe_mk, AddHom.coe_mk, Function.update_apply, alphaOf_apply, dot_eq_dotF]
  by_cases h2 : j = n
  · subst h2; simp
  · by_cases h1 : j < n <;> simp [h1, h2]

/-- the documented relation image, for an `n`-dimensional grid -/
def RelSpec (n : Nat) (G : GridGens) (α : Vec) (a0 : Rat) (S : List Nat) (c : Vec) (c0 : Rat) (f : Rat) (y : Pt) : Prop :=
  Supp n y ∧ ∃ v, Gen.sem G v ∧ (∀ j, j ∉ S → y j = v j) ∧ ∃ t : Int, dotF c y + c0 - (dotF α v + a0) = (t : Rat) * f

theorem relCore_sem (n : Nat) (G : GridGens) (α : Vec) (a0 : Rat) (S : List Nat) (c : Vec) (c0 f : Rat)
    (hG : ∀ x, Gen.sem G x → Supp n x) (hS : ∀ i ∈ S, i < n) (hc : c.length ≤ n) (y : Pt) :
    Gen.sem (relCore n G α a0 S c c0 f) y ↔ RelSpec n G α a0 S c c0 f y := by
  unfold relCore RelSpec
  simp only
  rw [mapCoord_sem _ _ (padTo_represents n)]
  have hG1 : ∀ u, Gen.sem (mapG (fun x => setCoord (padTo n x) n (dot α x)) (setCoord [] n a0) G) u ↔
      ∃ v, Gen.sem G v ∧ u = Function.update v n (dotF α v + a0) := by
    intro u
    rw [mapG_sem _ _ (lift_represents n α)]
    constructor
    · rintro ⟨v, hv, rfl⟩
      refine ⟨v, hv, ?_⟩
      have hs := hG v hv
      funext j
      simp only [Pi.add_apply, toFun_setCoord, liftLin, LinearMap.coe_mk, AddHom.coe_mk, Function.update_apply,
        alphaOf_apply, toFun_nil, Pi.zero_apply]
      by_cases h2 : j = n
      · subst h2; simp
      · by_cases h1 : j < n
        · simp [h1, h2]
        · simp [h1, h2, hs j (by omega)]
    · rintro ⟨v, hv, rfl⟩
      refine ⟨v, hv, ?_⟩
      have hs := hG v hv
      funext j
      simp only [Pi.add_apply, toFun_setCoord, liftLin, LinearMap.coe_mk, AddHom.coe_mk, Function.update_apply,
        alphaOf_apply, toFun_nil, Pi.zero_apply]
      by_cases h2 : j = n
      · subst h2; simp
      · by_cases h1 : j < n
        · simp [h1, h2]
        · simp [h1, h2, hs j (by omega)]
  have hcg : ∀ w : Pt, Cg.sem { a := vsub c (unit n), b := c0, f := f } w ↔
      ∃ t : Int, dotF c w - w n + c0 = (t : Rat) * f := by
    intro w; simp only [Cg.sem, dotF_vsub, dotF_unit]
  have htr : ∀ w : Pt, coordMap (fun j => if j < n then some j else none) w = fun j => if j < n then w j else 0 := by
    intro w; funext j; rw [coordMap_apply]; by_cases h : j < n <;> simp [h]
  constructor
  · rintro ⟨w, hw, rfl⟩
    rw [intersectCon_sem, addLines_sem, hcg] at hw
    obtain ⟨⟨u, hu, hd⟩, t, ht⟩ := hw
    obtain ⟨v, hv, rfl⟩ := (hG1 u).mp hu
    rw [dir_units_iff] at hd
    have hs := hG v hv
    rw [htr]
    refine ⟨fun i hi => by simp [show ¬ i < n by omega], v, hv, ?_, t, ?_⟩
    · intro j hj
      by_cases h1 : j < n
      · have := hd j hj
        simp only [Pi.sub_apply, Function.update_apply, show j ≠ n by omega, if_false] at this
        simp only [h1, if_true]; linarith
      · simp [h1, hs j (by omega)]
    · have e1 : dotF c (fun j => if j < n then w j else 0) = dotF c w :=
        dotF_agree c _ _ (fun i hi => by simp [show i < n by omega])
      have hn : n ∉ S := fun h => absurd (hS n h) (by omega)
      have e2 : w n = dotF α v + a0 := by
        have := hd n hn
        simp only [Pi.sub_apply, Function.update_self] at this
        linarith
      rw [e1, ← e2]; linarith
  · rintro ⟨hy, v, hv, hfix, t, ht⟩
    have hs := hG v hv
    refine ⟨fun j => if j = n then dotF α v + a0 else y j, ?_, ?_⟩
    · rw [intersectCon_sem, addLines_sem, hcg]
      refine ⟨⟨Function.update v n (dotF α v + a0), (hG1 _).mpr ⟨v, hv, rfl⟩, ?_⟩, t, ?_⟩
      · rw [dir_units_iff]
        intro j hj
        simp only [Pi.sub_apply, Function.update_apply]
        by_cases h2 : j = n
        · simp [h2]
        · simp only [h2, if_false]; rw [hfix j hj]; ring
      · have e1 : dotF c (fun j => if j = n then dotF α v + a0 else y j) = dotF c y :=
          dotF_agree c _ _ (fun i hi => by simp [show i ≠ n by omega])
        rw [e1]; simp only [if_true]; linarith
    · rw [htr]
      funext j
      by_cases h1 : j < n
      · simp [h1, show j ≠ n by omega]
      · simp [h1, hy j (by omega)]

theorem suppOf_lt (n : Nat) (lhs : Vec) : ∀ i ∈ suppOf n lhs, i < n := by
  intro i hi
  simp only [suppOf, List.mem_filter, List.mem_range] at hi
  exact hi.1

theorem not_mem_suppOf (n : Nat) (lhs : Vec) (hl : lhs.length ≤ n) (j : Nat) :
    j ∉ suppOf n lhs ↔ lhs.toFun j = 0 := by
  simp only [suppOf, List.mem_filter, List.mem_range, ne_eq, decide_eq_true_eq, not_and, not_not]
  constructor
  · intro h
    by_cases hj : j < n
    · exact h hj
    · exact toFun_of_length_le lhs j (by omega)
  · intro h _; exact h

/-- generalized affine image: `{ w | ∃ v ∈ G, lhs(w) + lb ≡_f rhs(v) + rb ∧ wᵢ = vᵢ where lhsᵢ = 0 }` -/
theorem relImage_sem (n : Nat) (G : GridGens) (lhs : Vec) (lb : Rat) (rhs : Vec) (rb f : Rat)
    (hG : ∀ x, Gen.sem G x → Supp n x) (hl : lhs.length ≤ n) (w : Pt) :
    Gen.sem (relImage n G lhs lb rhs rb f) w ↔
      Supp n w ∧ ∃ v, Gen.sem G v ∧ (∀ j, lhs.toFun j = 0 → w j = v j) ∧
        ∃ t : Int, dotF lhs w + lb - (dotF rhs v + rb) = (t : Rat) * f := by
  unfold relImage
  rw [relCore_sem n G rhs rb _ lhs lb f hG (suppOf_lt n lhs) hl]
  simp only [RelSpec, not_mem_suppOf n lhs hl]

/-- generalized affine preimage of the same relation -/
theorem relPreimage_sem (n : Nat) (G : GridGens) (lhs : Vec) (lb : Rat) (rhs : Vec) (rb f : Rat)
    (hG : ∀ x, Gen.sem G x → Supp n x) (hl : lhs.length ≤ n) (hr : rhs.length ≤ n) (v : Pt) :
    Gen.sem (relPreimage n G lhs lb rhs rb f) v ↔
      Supp n v ∧ ∃ w, Gen.sem G w ∧ (∀ j, lhs.toFun j = 0 → v j = w j) ∧
        ∃ t : Int, dotF rhs v + rb - (dotF lhs w + lb) = (t : Rat) * f := by
  unfold relPreimage
  rw [relCore_sem n G lhs lb _ rhs rb f hG (suppOf_lt n lhs) hr]
  simp only [RelSpec, not_mem_suppOf n lhs hl]

end PPLV.Lattice
