import PPLV.Lattice.ProofsCore

/-!
# K2: the deciders `memB`, `subsetB`, `equivB`, `satCgB` are sound and complete
-/
set_option linter.unusedSimpArgs false
namespace PPLV.Lattice
open List

theorem isEmpty_false_iff (K : GridGens) : K.isEmpty = false ↔ ∃ x, Gen.sem K x := by
  cases K with
  | empty => simp [GridGens.isEmpty, Gen.sem]
  | gens g => simp only [GridGens.isEmpty, Gen.sem, true_iff]; exact ⟨_, Gens.Mem.pt⟩

theorem eqCg_sem (i : Nat) (r : Rat) (x : Pt) : Cg.sem { a := unit i, b := -r, f := 0 } x ↔ x i = r := by
  simp only [Cg.sem, dotF_unit, mul_zero]
  constructor
  · rintro ⟨_, h⟩; linarith
  · intro h; exact ⟨0, by rw [h]; ring⟩

theorem eqCgs_sem (n : Nat) (v : Vec) (x : Pt) :
    (∀ c ∈ eqCgs n v, c.sem x) ↔ ∀ i < n, x i = v.toFun i := by
  simp only [eqCgs, List.mem_map, List.mem_range, forall_exists_index, and_imp]
  constructor
  · intro h i hi
    have := h _ i hi rfl
    rwa [eqCg_sem] at this
  · rintro h c i hi rfl
    rw [eqCg_sem]; exact h i hi

theorem sem_supp (G : GridGens) (n : Nat) (hn : G.maxLen ≤ n) (x : Pt) (h : Gen.sem G x) : Supp n x := by
  cases G with
  | empty => exact absurd h (by simp [Gen.sem])
  | gens g => exact mem_supp g n hn x h

/-- `memB` decides membership -/
theorem memB_iff (G : GridGens) (v : Vec) : memB G v = true ↔ Gen.sem G v.toFun := by
  unfold memB
  rw [Bool.not_eq_true', isEmpty_false_iff]
  constructor
  · rintro ⟨x, hx⟩
    rw [intersectCons_sem, eqCgs_sem] at hx
    obtain ⟨h1, h2⟩ := hx
    have hs := sem_supp G (max v.length G.maxLen) (le_max_right _ _) x h1
    have : x = v.toFun := by
      funext i
      by_cases hi : i < max v.length G.maxLen
      · exact h2 i hi
      · rw [hs i (by omega), toFun_of_length_le v i (by omega)]
    rwa [this] at h1
  · intro h
    exact ⟨v.toFun, by rw [intersectCons_sem, eqCgs_sem]; exact ⟨h, fun _ _ => rfl⟩⟩

/-! ### a finitely generated subgroup of ℚⁿ has no divisible element; the line theorem -/

theorem dir_denominator (P : List Pt) (i : Nat) :
    ∃ D : Nat, 0 < D ∧ ∀ v, Abs.Dir P [] v → ∃ z : Int, (D : Rat) * v i = z := by
  have hq : ∀ q ∈ P, ∃ z : Int, (((P.map (fun q => (q i).den)).prod : Nat) : Rat) * q i = z := by
    intro q hq
    have hd : (q i).den ∣ (P.map (fun q => (q i).den)).prod :=
      List.dvd_prod (List.mem_map.mpr ⟨q, hq, rfl⟩)
    obtain ⟨e, he⟩ := hd
    refine ⟨e * (q i).num, ?_⟩
    rw [he]; push_cast
    rw [num_eq (q i)]; ring
  refine ⟨(P.map (fun q => (q i).den)).prod, ?_, ?_⟩
  · apply Nat.pos_of_ne_zero
    intro h0
    rw [List.prod_eq_zero_iff] at h0
    obtain ⟨q, _, hq0⟩ := List.mem_map.mp h0
    exact (q i).den_ne_zero hq0
  · intro v hv
    induction hv with
    | zero => exact ⟨0, by simp⟩
    | @param w q k hq' _ ih =>
      obtain ⟨z, hz⟩ := ih
      obtain ⟨y, hy⟩ := hq q hq'
      refine ⟨z + k * y, ?_⟩
      simp only [Pi.add_apply, Pi.smul_apply, smul_eq_mul]
      have e : ((z + k * y : Int) : Rat) = z + k * y := by push_cast; ring
      rw [e, ← hz, ← hy]; ring
    | line c hl _ _ => simp at hl

theorem no_divisible (P : List Pt) (l : Pt) (h : ∀ c : Rat, Abs.Dir P [] (c • l)) : l = 0 := by
  funext i
  by_contra hne
  have hne : l i ≠ 0 := hne
  obtain ⟨D, hD, hDz⟩ := dir_denominator P i
  obtain ⟨z, hz⟩ := hDz _ (h (1 / (2 * D * l i)))
  have hDq : (D : Rat) ≠ 0 := by exact_mod_cast (Nat.pos_iff_ne_zero.mp hD)
  simp only [Pi.smul_apply, smul_eq_mul] at hz
  have : (2 : Rat) * z = 1 := by
    rw [← hz]; field_simp
  have h2 : (2 : Int) * z = 1 := by exact_mod_cast this
  omega

theorem dir_lines_smul (L : List Pt) (c : Rat) {v : Pt} (h : Abs.Dir [] L v) : Abs.Dir [] L (c • v) := by
  induction h with
  | zero => simpa using Abs.Dir.zero
  | param k hq _ _ => simp at hq
  | @line w l d hl _ ih =>
    have : c • (w + d • l) = c • w + (c * d) • l := by module
    rw [this]; exact Abs.Dir.line _ hl ih

/-- if a whole rational line of directions lies in the lattice, it lies in the span of the lines -/
theorem line_theorem (n : Nat) : ∀ (L P : List Pt) (l : Pt), L.length = n →
    (∀ c : Rat, Abs.Dir P L (c • l)) → Abs.Dir [] L l := by
  induction n with
  | zero =>
    intro L P l hL h
    have : L = [] := List.length_eq_zero_iff.mp hL
    subst this
    rw [no_divisible P l h]; exact Abs.Dir.zero
  | succ n ih =>
    intro L P l hL h
    match L, hL with
    | l0 :: L', hL =>
      have hL' : L'.length = n := by simpa using hL
      by_cases h0 : l0 = 0
      · have h' : ∀ c : Rat, Abs.Dir P L' (c • l) := fun c =>
          Abs.Dir.mono_subset0 (fun q hq => Or.inr hq)
            (fun z hz => by rcases List.mem_cons.mp hz with rfl | hz; exact Or.inl h0; exact Or.inr hz) (h c)
        exact Abs.Dir.mono_subset (fun _ h => h) (fun z hz => List.mem_cons_of_mem _ hz) (ih L' P l hL' h')
      · -- a coordinate where l0 does not vanish
        have : ∃ i, l0 i ≠ 0 := by
          by_contra hcon
          simp only [not_exists, not_not] at hcon
          exact h0 (funext hcon)
        obtain ⟨i, hi⟩ := this
        have hβ : alphaOf (unit i) l0 ≠ 0 := by simpa [dotF_unit] using hi
        -- the projection along l0
        set π : Pt → Pt := Abs.projLin (alphaOf (unit i)) l0 with hπ
        have π_add : ∀ x y, π (x + y) = π x + π y := by
          intro x y; simp only [hπ, Abs.projLin, map_add, add_div]; module
        have π_smul : ∀ (c : Rat) x, π (c • x) = c • π x := by
          intro c x; simp only [hπ, Abs.projLin, map_smul, smul_eq_mul, mul_div_assoc]; module
        have π_l0 : π l0 = 0 := by
          simp only [hπ, Abs.projLin, div_self hβ]; module
        have hproj : ∀ w, Abs.Dir P (l0 :: L') w → Abs.Dir (P.map π) (L'.map π) (π w) := by
          intro w hw
          induction hw with
          | zero =>
            have : π 0 = 0 := by have := π_smul 0 0; simpa using this
            rw [this]; exact Abs.Dir.zero
          | @param w q k hq _ ihw =>
            rw [π_add, π_smul]; exact Abs.Dir.param k (List.mem_map_of_mem hq) ihw
          | @line w z c hz _ ihw =>
            rw [π_add, π_smul]
            rcases List.mem_cons.mp hz with rfl | hz
            · rw [π_l0]; simpa using ihw
            · exact Abs.Dir.line c (List.mem_map_of_mem hz) ihw
        have h' : ∀ c : Rat, Abs.Dir (P.map π) (L'.map π) (c • π l) := by
          intro c; rw [← π_smul]; exact hproj _ (h c)
        have h2 := ih (L'.map π) (P.map π) (π l) (by simpa using hL') h'
        -- un-project
        have h3 : Abs.Dir [] (l0 :: L') (π l) := by
          refine Abs.Dir.mono (by simp) ?_ h2
          intro z hz c
          obtain ⟨w, hw, rfl⟩ := List.mem_map.mp hz
          have : c • π w = (0 + c • w) + (-(c * (alphaOf (unit i) w / alphaOf (unit i) l0))) • l0 := by
            simp only [hπ, Abs.projLin]; module
          rw [this]
          exact Abs.Dir.line _ (by simp) (Abs.Dir.line c (List.mem_cons_of_mem _ hw) Abs.Dir.zero)
        have : l = π l + (alphaOf (unit i) l / alphaOf (unit i) l0) • l0 := by
          simp only [hπ, Abs.projLin]; module
        rw [this]
        exact Abs.Dir.line _ (by simp) h3

/-! ### inclusion and equivalence -/

theorem inSpanB_iff (ls : List Vec) (l : Vec) : inSpanB ls l = true ↔ GDir [] ls l.toFun := by
  unfold inSpanB
  rw [memB_iff]
  simp only [Gen.sem]
  rw [mem_iff_gdir]
  simp

theorem gens_affine (h : Gens) {x y z : Pt} (k : Int) (hx : h.Mem x) (hy : h.Mem y) (hz : h.Mem z) :
    h.Mem (x + (k : Rat) • (y - z)) := by
  rw [mem_iff_abs] at *
  exact Abs.mem_affine _ k hx hy hz

/-- `subsetB` decides inclusion of the point sets -/
theorem subsetB_iff (G H : GridGens) : subsetB G H = true ↔ ∀ x, Gen.sem G x → Gen.sem H x := by
  cases G with
  | empty => simp [subsetB, Gen.sem]
  | gens g =>
    cases H with
    | empty =>
      simp only [subsetB, Gen.sem, false_iff, Bool.false_eq_true]
      intro h; exact h _ Gens.Mem.pt
    | gens h =>
      simp only [subsetB, Bool.and_eq_true, List.all_eq_true, memB_iff, inSpanB_iff, Gen.sem]
      constructor
      · rintro ⟨⟨h1, h2⟩, h3⟩ x hx
        induction hx with
        | pt => exact h1
        | @param y q k hq _ ih =>
          have := gens_affine h k ih (h2 q hq) h1
          rw [toFun_vadd] at this
          rw [axpy_eq]
          have e : y + (k:Rat) • q.toFun = y + (k:Rat) • (g.pt.toFun + q.toFun - g.pt.toFun) := by module
          rw [e]; exact this
        | @line y l c hl _ ih =>
          rw [axpy_eq, mem_iff_gdir] at *
          have hl' := dir_lines_smul _ c (h3 l hl)
          have : y + c • l.toFun - h.pt.toFun = (y - h.pt.toFun) + c • l.toFun := by module
          rw [this]
          exact Abs.Dir.add ih (Abs.Dir.mono_subset (by simp) (fun _ h => h) hl')
      · intro hsub
        refine ⟨⟨hsub _ Gens.Mem.pt, ?_⟩, ?_⟩
        · intro q hq
          have := Gens.Mem.param (g := g) 1 hq Gens.Mem.pt
          rw [axpy_eq] at this
          have := hsub _ this
          rw [toFun_vadd]; simpa using this
        · intro l hl
          have hpt := hsub _ Gens.Mem.pt
          rw [mem_iff_gdir] at hpt
          have hc : ∀ c : Rat, Abs.Dir (h.params.map Vec.toFun) (h.lines.map Vec.toFun) (c • l.toFun) := by
            intro c
            have := Gens.Mem.line (g := g) c hl Gens.Mem.pt
            rw [axpy_eq] at this
            have := hsub _ this
            rw [mem_iff_gdir] at this
            have e : c • l.toFun = (g.pt.toFun + c • l.toFun - h.pt.toFun) - (g.pt.toFun - h.pt.toFun) := by module
            rw [e]; exact Abs.Dir.sub this hpt
          exact line_theorem _ _ _ _ rfl hc

theorem equivB_iff (G H : GridGens) : equivB G H = true ↔ ∀ x, Gen.sem G x ↔ Gen.sem H x := by
  simp only [equivB, Bool.and_eq_true, subsetB_iff]
  constructor
  · rintro ⟨h1, h2⟩ x; exact ⟨h1 x, h2 x⟩
  · intro h; exact ⟨fun x => (h x).mp, fun x => (h x).mpr⟩

/-- `satCgB` decides whether every point of the grid satisfies the congruence -/
theorem satCgB_iff (G : GridGens) (c : Cg) : satCgB G c = true ↔ ∀ x, Gen.sem G x → c.sem x := by
  cases G with
  | empty => simp [satCgB, Gen.sem]
  | gens g =>
    simp only [satCgB, Bool.and_eq_true, List.all_eq_true, inModZ_iff, beq_iff_eq, Gen.sem]
    constructor
    · rintro ⟨⟨⟨t0, h0⟩, h2⟩, h3⟩ x hx
      induction hx with
      | pt => exact ⟨t0, by rw [← dot_eq_dotF]; exact h0⟩
      | @param y q k hq _ ih =>
        obtain ⟨t, ht⟩ := ih
        obtain ⟨s, hs⟩ := h2 q hq
        refine ⟨t + k * s, ?_⟩
        rw [axpy_eq, dotF_add, dotF_smul, ← dot_eq_dotF, hs]
        push_cast; linarith
      | @line y l d hl _ ih =>
        obtain ⟨t, ht⟩ := ih
        refine ⟨t, ?_⟩
        rw [axpy_eq, dotF_add, dotF_smul, ← dot_eq_dotF, h3 l hl]
        linarith
    · intro hall
      obtain ⟨t0, h0⟩ := hall _ Gens.Mem.pt
      rw [← dot_eq_dotF] at h0
      refine ⟨⟨⟨t0, h0⟩, ?_⟩, ?_⟩
      · intro q hq
        have := Gens.Mem.param (g := g) 1 hq Gens.Mem.pt
        obtain ⟨t, ht⟩ := hall _ this
        rw [axpy_eq, dotF_add, dotF_smul, ← dot_eq_dotF, ← dot_eq_dotF] at ht
        refine ⟨t - t0, ?_⟩
        push_cast; push_cast at ht; linarith
      · intro l hl
        by_contra hβ
        have hline : ∀ d : Rat, ∃ t : Int, dot c.a g.pt + d * dot c.a l + c.b = (t : Rat) * c.f := by
          intro d
          have := Gens.Mem.line (g := g) d hl Gens.Mem.pt
          obtain ⟨t, ht⟩ := hall _ this
          rw [axpy_eq, dotF_add, dotF_smul, ← dot_eq_dotF, ← dot_eq_dotF] at ht
          exact ⟨t, ht⟩
        by_cases hf : c.f = 0
        · obtain ⟨t1, h1⟩ := hline 1
          rw [hf] at h0 h1
          apply hβ; linarith
        · obtain ⟨t1, h1⟩ := hline (c.f / (2 * dot c.a l))
          have e : c.f / (2 * dot c.a l) * dot c.a l = c.f / 2 := by field_simp
          rw [e] at h1
          have : (2 : Rat) * (t1 - t0) * c.f = 1 * c.f := by linarith
          have h2 : (2 : Rat) * (t1 - t0) = 1 := mul_right_cancel₀ hf this
          have h3 : (2 : Int) * (t1 - t0) = 1 := by exact_mod_cast h2
          omega

end PPLV.Lattice
