import PPLV.Lattice.ProofsGridOpsCon11
import PPLV.Lattice.ProofsGridOpsCon15

/-!
# `Grid` stage 3, congruence side, part 16: `remove_higher_space_dimensions(new_dimension)` (Grid_chdims.cc:306)

The throw, the no-op, the grid found empty, the new dimension 0: from `IsEmptySpec`.  The congruence branch (the
minimized congruences are resized, the rows of the removed dimensions are dropped, `dim_kinds` is chopped) is
`cn_removeHigher_con_partial`: the projection property of the triangular form is the explicit hypothesis.
-/
namespace PPLV.Lattice.GO
open PPLV.Lattice PPLV.Lattice.Red

/-- the projection of `S` onto the first `k` coordinates -/
def cn_projSet (k : Nat) (S : Set Pt) : Set Pt := {z | ∃ y ∈ S, z = cn_fst k y}

theorem cn_projSet_empty (k : Nat) : cn_projSet k ∅ = ∅ := by ext z; simp [cn_projSet]

theorem cn_projSet_zero (S : Set Pt) (hS : S.Nonempty) : cn_projSet 0 S = spaceSet 0 := by
  ext z
  simp only [cn_projSet, spaceSet, Set.mem_ofPred_eq]
  constructor
  · rintro ⟨y, _, rfl⟩; exact cn_fst_supp 0 y
  · intro hz
    obtain ⟨y, hy⟩ := hS
    refine ⟨y, hy, ?_⟩
    funext i
    rw [hz i (Nat.zero_le _)]; simp [cn_fst]

theorem cn_removeHigher_thrown (g : Grid) (newDim : Nat) :
    ((removeHigherSpaceDimensions g newDim).thrown = true ↔ g.spaceDim < newDim) ∧
    ((removeHigherSpaceDimensions g newDim).thrown = true → (removeHigherSpaceDimensions g newDim).g = g) ∧
    (newDim = g.spaceDim → (removeHigherSpaceDimensions g newDim).g = g) := by
  unfold removeHigherSpaceDimensions
  by_cases h1 : newDim > g.spaceDim
  · rw [if_pos h1]; exact ⟨⟨fun _ => h1, fun _ => rfl⟩, fun _ => rfl, fun _ => rfl⟩
  · rw [if_neg h1]
    by_cases h2 : newDim = g.spaceDim
    · rw [if_pos h2]; exact ⟨⟨(fun h => by cases h), fun h => absurd h h1⟩, fun _ => rfl, fun _ => rfl⟩
    · rw [if_neg h2]
      dsimp only
      refine ⟨⟨?_, fun h => absurd h h1⟩, ?_, fun h => absurd h h2⟩
      · intro h; repeat (first | cases h | split at h)
      · intro h; repeat (first | cases h | split at h)

/-- the grid is found empty: the empty grid of the new dimension -/
theorem cn_removeHigher_empty (hIE : IsEmptySpec) (g : Grid) (newDim : Nat) (hI : GridInv g) (hlt : newDim < g.spaceDim)
    (hemp : g.sem = ∅) :
    GridInv (removeHigherSpaceDimensions g newDim).g ∧
      (removeHigherSpaceDimensions g newDim).g.sem = cn_projSet newDim g.sem ∧
      (removeHigherSpaceDimensions g newDim).g.spaceDim = newDim := by
  obtain ⟨_, _, _, e4, _, _⟩ := hIE g hI
  unfold removeHigherSpaceDimensions
  rw [if_neg (by omega), if_neg (by omega)]
  dsimp only
  rw [if_pos (e4.mpr hemp)]
  exact ⟨cn_setEmpty_inv _, by rw [cn_setEmpty_sem, hemp, cn_projSet_empty], rfl⟩

/-- new dimension 0 of a non-empty grid: the 0-dimensional universe -/
theorem cn_removeHigher_zero (hIE : IsEmptySpec) (g : Grid) (hI : GridInv g) (hlt : 0 < g.spaceDim)
    (hne : g.sem.Nonempty) :
    GridInv (removeHigherSpaceDimensions g 0).g ∧
      (removeHigherSpaceDimensions g 0).g.sem = cn_projSet 0 g.sem ∧
      (removeHigherSpaceDimensions g 0).g.spaceDim = 0 := by
  obtain ⟨_, _, _, e4, _, _⟩ := hIE g hI
  have hb : ¬ ((isEmpty g).2 = true) := fun h => Set.nonempty_iff_ne_empty.mp hne (e4.mp h)
  unfold removeHigherSpaceDimensions
  rw [if_neg (by omega), if_neg (by omega)]
  dsimp only
  rw [if_neg hb, if_pos rfl]
  obtain ⟨a, b, c⟩ := cn_setZeroDimUniv_inv (isEmpty g).1
  exact ⟨a, by rw [b, cn_projSet_zero _ hne], c⟩

/-- the result of the congruence branch -/
def cn_removeHigherCon (g0 : Grid) (newDim : Nat) : Grid :=
  { spaceDim := newDim, st := { g0.st with gMin := false, gUp := false }, conDim := (g0.cs.setSpaceDim newDim).dim,
    con := ((g0.cs.setSpaceDim newDim).removeFirstRows (countRedundant g0.dk newDim g0.spaceDim CON_VIRTUAL)).rows,
    genDim := newDim + 2, gen := [], dk := g0.dk.take (newDim + 1) }

/-- the congruence branch (`0 < new_dimension < space_dim`, not empty, generators not up to date after `is_empty()`).
    Hypotheses NOT proved here: `hmin` — `is_empty()` left minimized congruences (true of the model: it returns early only
    with up-to-date generators or minimized congruences, but `IsEmptySpec` does not say so); `hProj` — dropping the rows
    of the removed dimensions of a triangular system projects its solutions, and the chopped `dim_kinds` describe the
    remaining rows. -/
theorem cn_removeHigher_con_partial (hIE : IsEmptySpec) (g : Grid) (newDim : Nat) (hI : GridInv g)
    (hpos : 0 < newDim) (hlt : newDim < g.spaceDim) (hne : g.sem.Nonempty) (hg : (isEmpty g).1.st.gUp = false)
    (hmin : (isEmpty g).1.st.cMin = true)
    (hProj : CWf newDim (cn_removeHigherCon (isEmpty g).1 newDim).con ∧
      consSet newDim (cn_removeHigherCon (isEmpty g).1 newDim).con =
        cn_projSet newDim (consSet (isEmpty g).1.spaceDim (isEmpty g).1.con) ∧
      (cn_removeHigherCon (isEmpty g).1 newDim).dk.length = newDim + 1 ∧
      lowerTriangular newDim (cn_removeHigherCon (isEmpty g).1 newDim).con (cn_removeHigherCon (isEmpty g).1 newDim).dk = true ∧
      kind (cn_removeHigherCon (isEmpty g).1 newDim).dk 0 = PROPER_CONGRUENCE ∧
      CgKindsOK newDim (cn_removeHigherCon (isEmpty g).1 newDim).con (cn_removeHigherCon (isEmpty g).1 newDim).dk) :
    (removeHigherSpaceDimensions g newDim).g = cn_removeHigherCon (isEmpty g).1 newDim ∧
    GridInv (removeHigherSpaceDimensions g newDim).g ∧
      (removeHigherSpaceDimensions g newDim).g.sem = cn_projSet newDim g.sem ∧
      (removeHigherSpaceDimensions g newDim).g.spaceDim = newDim := by
  obtain ⟨e1, e2, e3, e4, _, e6⟩ := hIE g hI
  have hb : ¬ ((isEmpty g).2 = true) := fun h => Set.nonempty_iff_ne_empty.mp hne (e4.mp h)
  have he0 : (isEmpty g).1.st.empty = false := e6 (by simpa using hb)
  have heq : (removeHigherSpaceDimensions g newDim).g = cn_removeHigherCon (isEmpty g).1 newDim := by
    unfold removeHigherSpaceDimensions
    rw [if_neg (by omega), if_neg (by omega)]
    dsimp only
    rw [if_neg hb, if_neg (by omega),
      if_neg (show ¬ ((isEmpty g).1.generatorsAreUpToDate = true) by simpa [Grid.generatorsAreUpToDate] using hg)]
    rfl
  rw [heq]
  obtain ⟨p1, p2, p3, p4, p5, p6⟩ := hProj
  have hpos0 : 0 < (isEmpty g).1.spaceDim := by omega
  have hc0 : (isEmpty g).1.st.cUp = true := e1.cminUp hmin
  have := cn_inv_of_con (cn_removeHigherCon (isEmpty g).1 newDim) hpos he0 hc0 rfl rfl (e1.hi0 he0) (cn_CSys_setSpaceDim_dim _ _) p1
    (fun _ => ⟨p3, p4, p5, p6⟩)
  refine ⟨rfl, this.1, ?_, rfl⟩
  rw [this.2]
  show consSet newDim (cn_removeHigherCon (isEmpty g).1 newDim).con = _
  rw [p2, ← cn_sem_of_cUp _ e1 he0 hpos0 hc0, e2]

example : (removeHigherSpaceDimensions cn_exGrid 2).thrown = true ∧ (removeHigherSpaceDimensions cn_exGrid 1).g = cn_exGrid ∧
    (removeHigherSpaceDimensions cn_exGrid 0).g.spaceDim = 0 := by decide +kernel

end PPLV.Lattice.GO
