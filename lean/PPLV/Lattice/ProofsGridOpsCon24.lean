import PPLV.Lattice.ProofsGridOpsCon23

/-!
# `Grid` stage 3, part 24: `frequency_no_check` (Grid_nonpublic.cc:331) on a minimized generator system, against the grid

`ok = false` iff a line of the grid moves the expression (`cn_LineMoves`).  Otherwise (`cn_FreqOK`): `fn/fd ≥ 0` is
reduced and generates the group of the differences of the values of the expression on the grid; `vn/vd` is reduced, is
a value of the expression on the grid, and (when the frequency is not 0) `|2·val| ≤ freq`.
-/
namespace PPLV.Lattice.GO
open PPLV.Lattice PPLV.Lattice.Red

/-- some line of `S` (a direction along which `S` is invariant under every rational multiple) moves the expression -/
def cn_LineMoves (e : LinExpr) (S : Set Pt) : Prop :=
  ∃ x ∈ S, ∃ v : Pt, (∀ c : ℚ, x + c • v ∈ S) ∧ cn_lam e v ≠ 0

/-- what `frequency` promises of its numbers on the point set `S` -/
structure cn_FreqOK (e : LinExpr) (S : Set Pt) (fr : Freq) : Prop where
  fnn : 0 ≤ fr.fn
  fdp : 0 < fr.fd
  fred : Int.gcd fr.fn fr.fd = 1
  vdp : 0 < fr.vd
  vred : Int.gcd fr.vn fr.vd = 1
  /-- the value is attained -/
  val : ∃ x ∈ S, evalRow e x = (fr.vn : ℚ) / (fr.vd : ℚ)
  /-- every difference of values is a multiple of the frequency -/
  mult : ∀ x ∈ S, ∀ y ∈ S, ∃ k : Int, evalRow e x - evalRow e y = (k : ℚ) * ((fr.fn : ℚ) / (fr.fd : ℚ))
  /-- the frequency is a difference of values -/
  gen : ∃ x ∈ S, ∃ y ∈ S, evalRow e x - evalRow e y = (fr.fn : ℚ) / (fr.fd : ℚ)
  /-- the value has the least magnitude -/
  least : fr.fn ≠ 0 → 2 * ((fr.vn : ℚ) / (fr.vd : ℚ)) ≤ (fr.fn : ℚ) / (fr.fd : ℚ) ∧
    -((fr.fn : ℚ) / (fr.fd : ℚ)) ≤ 2 * ((fr.vn : ℚ) / (fr.vd : ℚ))

theorem cn_fnc_eq (g1 : Grid) (e : LinExpr) : frequencyNoCheck g1 e =
    if boundsNoCheck g1 e then
      { ok := true, fn := 0, fd := 1,
        vn := (spHom e (rowAt g1.gen 0).e + Red.get e 0 * (rowAt g1.gen 0).divisor) /
          gcdI (spHom e (rowAt g1.gen 0).e + Red.get e 0 * (rowAt g1.gen 0).divisor) (rowAt g1.gen 0).divisor,
        vd := (rowAt g1.gen 0).divisor /
          gcdI (spHom e (rowAt g1.gen 0).e + Red.get e 0 * (rowAt g1.gen 0).divisor) (rowAt g1.gen 0).divisor }
    else
      match freqLoop e 0 (g1.gen.drop 1) with
      | none => { ok := false }
      | some f =>
        { ok := true, fn := f / gcdI f (rowAt g1.gen 0).divisor, fd := (rowAt g1.gen 0).divisor / gcdI f (rowAt g1.gen 0).divisor,
          vn := cn_leastVal (spHom e (rowAt g1.gen 0).e + Red.get e 0 * (rowAt g1.gen 0).divisor) f /
            gcdI (cn_leastVal (spHom e (rowAt g1.gen 0).e + Red.get e 0 * (rowAt g1.gen 0).divisor) f) (rowAt g1.gen 0).divisor,
          vd := (rowAt g1.gen 0).divisor /
            gcdI (cn_leastVal (spHom e (rowAt g1.gen 0).e + Red.get e 0 * (rowAt g1.gen 0).divisor) f) (rowAt g1.gen 0).divisor } := by
  unfold frequencyNoCheck
  split
  · rfl
  · cases freqLoop e 0 (g1.gen.drop 1) <;> rfl

theorem cn_div_pos (a b : ℚ) (D : ℚ) (hD : 0 < D) (h : a ≤ b) : a / D ≤ b / D := div_le_div_of_nonneg_right h hD.le

/-- `frequency_no_check` on a minimized generator system -/
theorem cn_frequencyNoCheck (g1 : Grid) (e : LinExpr) {D : Int} {dk : List Nat} (hw : GWf g1.spaceDim g1.gen)
    (hN : GNorm g1.spaceDim D g1.gen) (hut : upperTriangular g1.spaceDim g1.gen dk = true) (h0 : kind dk 0 = PARAMETER)
    (he : e.spaceDim ≤ g1.spaceDim) :
    ((frequencyNoCheck g1 e).ok = false ↔ cn_LineMoves e (gn_set g1.gen)) ∧
    ((frequencyNoCheck g1 e).ok = true → cn_FreqOK e (gn_set g1.gen) (frequencyNoCheck g1 e)) := by
  have hbc := cn_boundsNoCheck_const g1 e hw hN hut h0 he
  have hbi := cn_boundsNoCheck_iff g1 e
  obtain ⟨p, rest, hg, hp, hpD, hrest⟩ := cn_min_shape hN hut h0
  have hel : e.length ≤ g1.spaceDim + 1 := by unfold LinExpr.spaceDim at he; omega
  have hrow : rowAt g1.gen 0 = p := by rw [hg]; rfl
  have hdrop : g1.gen.drop 1 = rest := by rw [hg]; rfl
  have hpm : p ∈ g1.gen := by rw [hg]; exact List.mem_cons_self ..
  have hrm : ∀ r ∈ rest, r ∈ g1.gen := fun r hr => by rw [hg]; exact List.mem_cons_of_mem _ hr
  have hDpos := hN.pos
  have hDq : (0 : ℚ) < (D : ℚ) := by exact_mod_cast hDpos
  have hDne : (D : ℚ) ≠ 0 := ne_of_gt hDq
  obtain ⟨hpdiv, hpval⟩ := cn_point_value e p _ _ (hw p hpm) hel hp hpD hDpos
  have hppt : gn_isPt p = true := (gn_isPt_iff p).mpr ⟨hp, by rw [hpD]; exact ne_of_gt hDpos⟩
  have hpS : gn_Mem g1.gen (gn_vecOf p) := gn_mem_pt hpm hppt
  -- the products of the rows
  have hspar : ∀ r ∈ g1.gen, gn_isPar r = true → ((spHom e r.e : Int) : ℚ) = (D : ℚ) * cn_lam e (gn_vecOf r) := by
    intro r hr hpar
    have hl := ((gn_isPar_iff r).mp hpar).1
    have hden : cn_den r = D := by
      unfold cn_den; rw [hl]; exact cn_den_pos.gn_divisor_of_gnorm_aux hN hw hr hl
    have := cn_spHom_vecOf e r _ (hw r hr) hel (by rw [hden]; exact ne_of_gt hDpos)
    rwa [hden] at this
  have hsline : ∀ r ∈ g1.gen, r.line = true → ((spHom e r.e : Int) : ℚ) = cn_lam e (gn_vecOf r) := by
    intro r hr hl
    have hden : cn_den r = 1 := by unfold cn_den; rw [hl]; rfl
    have := cn_spHom_vecOf e r _ (hw r hr) hel (by rw [hden]; decide)
    rw [hden] at this; simpa using this
  rw [cn_fnc_eq, hrow, hdrop, hpdiv]
  by_cases hb : boundsNoCheck g1 e = true
  · -- the expression is constant
    rw [if_pos hb]
    have hc := hbc.mp hb
    obtain ⟨r1, r2, r3⟩ := cn_reduce (spHom e p.e + Red.get e 0 * D) D hDpos
    refine ⟨⟨(fun h => by cases h), ?_⟩, fun _ => ?_⟩
    · rintro ⟨x, hx, v, hv, hlv⟩
      have h1 := hc _ (hv 1) _ hx
      rw [one_smul, cn_evalRow_lam, cn_evalRow_lam, cn_lam_add] at h1
      exact absurd (by linarith) hlv
    · refine ⟨le_refl _, (by show (0 : Int) < 1; decide), (by show Int.gcd 0 1 = 1; decide), r1, r2, ⟨_, hpS, by rw [hpval]; exact r3.symm⟩, ?_, ?_, (fun h => absurd rfl h)⟩
      · intro x hx y hy; exact ⟨0, by rw [hc x hx y hy]; simp⟩
      · exact ⟨_, hpS, _, hpS, by simp⟩
  · rw [if_neg hb]
    cases hfl : freqLoop e 0 rest with
    | none =>
      dsimp only
      refine ⟨⟨fun _ => ?_, fun _ => rfl⟩, (fun h => by cases h)⟩
      obtain ⟨r, hr, hl, hs⟩ := (cn_freqLoop_none_iff e rest 0).mp hfl
      refine ⟨_, hpS, gn_vecOf r, fun c => gn_mem_line_step (hrm r hr) hl hpS c, ?_⟩
      intro h
      have := hsline r (hrm r hr) hl
      rw [h] at this
      exact hs (by exact_mod_cast this)
    | some f =>
      dsimp only
      obtain ⟨f1, _, f3, f4, ⟨w, hwd, hwf⟩⟩ := cn_freqLoop_some e g1.gen D hspar rest 0 f hfl (le_refl _)
        (fun r hr => ⟨hrm r hr, hrest r hr⟩) ⟨0, gn_dir_zero _, by rw [cn_lam_zero]; simp⟩
      -- the frequency is positive
      have hfpos : 0 < f := by
        have hnb : ¬ ∀ r ∈ g1.gen, Red.get r.e 0 = 0 → spHom e r.e = 0 := fun h => hb (hbi.mpr h)
        push Not at hnb
        obtain ⟨r, hr, hr0, hrs⟩ := hnb
        have hrr : r ∈ rest := by
          rw [hg] at hr
          rcases List.mem_cons.mp hr with h | h
          · subst h; rw [hpD] at hr0; exact absurd hr0 (ne_of_gt hDpos)
          · exact h
        by_cases hl : r.line = true
        · exact absurd (f4 r hrr hl) hrs
        · have hd := f3 r hrr (by simpa using hl)
          have : f ≠ 0 := fun h => by rw [h] at hd; exact hrs (zero_dvd_iff.mp hd)
          omega
      have hfq : (0 : ℚ) < (f : ℚ) := by exact_mod_cast hfpos
      -- every direction has a product in `f ℤ`
      have hK : ∀ v, gn_Dir g1.gen v → ∃ k : Int, (D : ℚ) * cn_lam e v = (k : ℚ) * (f : ℚ) := by
        intro v hv
        refine gn_dir_le (S := fun v => ∃ k : Int, (D : ℚ) * cn_lam e v = (k : ℚ) * (f : ℚ)) ⟨0, by rw [cn_lam_zero]; simp⟩
          ?_ ?_ ?_ ?_ ?_ hv
        · rintro v1 v2 ⟨k1, h1⟩ ⟨k2, h2⟩; exact ⟨k1 + k2, by rw [cn_lam_add, mul_add, h1, h2]; push_cast; ring⟩
        · rintro k v1 ⟨k1, h1⟩; exact ⟨k * k1, by rw [cn_lam_smul]; push_cast; rw [← mul_assoc, mul_comm (D : ℚ), mul_assoc, h1]; ring⟩
        · intro r1 m1 p1 r2 m2 p2
          have honly : ∀ r ∈ g1.gen, gn_isPt r = true → r = p := by
            intro r hr hrp
            rw [hg] at hr
            rcases List.mem_cons.mp hr with h | h
            · exact h
            · exact absurd (hrest r h) ((gn_isPt_iff r).mp hrp).2
          rw [honly r1 m1 p1, honly r2 m2 p2, sub_self, cn_lam_zero]; exact ⟨0, by simp⟩
        · intro r m pr
          have hrr : r ∈ rest := by
            rw [hg] at m
            rcases List.mem_cons.mp m with h | h
            · subst h; rw [((gn_isPar_iff _).mp pr).2] at hpD; exact absurd hpD.symm (ne_of_gt hDpos)
            · exact h
          obtain ⟨k, hk⟩ := f3 r hrr ((gn_isPar_iff r).mp pr).1
          exact ⟨k, by rw [← hspar r m pr, hk]; push_cast; ring⟩
        · intro r m hl c
          have hrr : r ∈ rest := by
            rw [hg] at m
            rcases List.mem_cons.mp m with h | h
            · subst h; rw [hp] at hl; cases hl
            · exact h
          have := hsline r m hl
          rw [f4 r hrr hl] at this
          exact ⟨0, by rw [cn_lam_smul, ← this]; simp⟩
      obtain ⟨q1, q2, q3⟩ := cn_reduce f D hDpos
      obtain ⟨⟨j, hj⟩, l1, l2⟩ := cn_leastVal_spec (spHom e p.e + Red.get e 0 * D) f hfpos
      obtain ⟨s1, s2, s3⟩ := cn_reduce (cn_leastVal (spHom e p.e + Red.get e 0 * D) f) D hDpos
      refine ⟨⟨(fun h => by cases h), ?_⟩, fun _ => ?_⟩
      · -- no line moves the expression
        rintro ⟨x, hx, v, hv, hlv⟩
        have ht : (D : ℚ) * cn_lam e v ≠ 0 := mul_ne_zero hDne hlv
        have hdir : gn_Dir g1.gen (((f : ℚ) / (2 * ((D : ℚ) * cn_lam e v))) • v) := by
          have := gn_mem_sub (hv ((f : ℚ) / (2 * ((D : ℚ) * cn_lam e v)))) hx
          simpa using this
        obtain ⟨k, hk⟩ := hK _ hdir
        rw [cn_lam_smul] at hk
        have h2 : (f : ℚ) / 2 = (k : ℚ) * (f : ℚ) := by
          rw [← hk]; field_simp
        have h3 : (1 : ℚ) = 2 * (k : ℚ) := by
          have hf0 : (f : ℚ) ≠ 0 := ne_of_gt hfq
          field_simp at h2; linarith
        have h4 : (1 : Int) = 2 * k := by exact_mod_cast h3
        omega
      · refine ⟨Int.ediv_nonneg f1 (by unfold gcdI; exact Int.natCast_nonneg _), q1, q2, s1, s2, ?_, ?_, ?_, fun _ => ?_⟩
        · -- the value is attained at `p - j·w`
          refine ⟨gn_vecOf p + ((-j : Int) : ℚ) • w, gn_mem_add_dir hpS (gn_dir_zsmul (-j) hwd), ?_⟩
          show evalRow e _ = ((cn_leastVal (spHom e p.e + Red.get e 0 * D) f /
            gcdI (cn_leastVal (spHom e p.e + Red.get e 0 * D) f) D : Int) : ℚ) /
            ((D / gcdI (cn_leastVal (spHom e p.e + Red.get e 0 * D) f) D : Int) : ℚ)
          rw [s3, hj, cn_evalRow_lam, cn_lam_add, cn_lam_smul]
          have hpv : cn_lam e (gn_vecOf p) = ((spHom e p.e + Red.get e 0 * D : Int) : ℚ) / (D : ℚ) - (Red.get e 0 : ℚ) := by
            rw [cn_evalRow_lam] at hpval; linarith
          have hwl : cn_lam e w = (f : ℚ) / (D : ℚ) := by field_simp; linarith
          rw [hpv, hwl]
          push_cast; field_simp; ring
        · intro x hx y hy
          obtain ⟨k, hk⟩ := hK _ (gn_mem_sub hx hy)
          refine ⟨k, ?_⟩
          rw [q3, cn_evalRow_lam, cn_evalRow_lam]
          rw [cn_lam_sub] at hk
          field_simp; linarith
        · refine ⟨gn_vecOf p + w, ?_, _, hpS, ?_⟩
          · have := gn_mem_add_dir hpS hwd; exact this
          · rw [q3, cn_evalRow_lam, cn_evalRow_lam, cn_lam_add]; field_simp; linarith
        · rw [q3, s3]
          have a1 : (2 * cn_leastVal (spHom e p.e + Red.get e 0 * D) f : ℚ) ≤ (f : ℚ) := by exact_mod_cast l1
          have a2 : -(f : ℚ) ≤ (2 * cn_leastVal (spHom e p.e + Red.get e 0 * D) f : ℚ) := by exact_mod_cast l2
          constructor
          · have := cn_div_pos _ _ _ hDq a1; rw [mul_div_assoc] at this; exact this
          · have := cn_div_pos _ _ _ hDq a2; rw [mul_div_assoc, neg_div] at this; exact this

end PPLV.Lattice.GO
