import PPLV.Lattice.ProofsRedGenInner
import PPLV.Lattice.ProofsRedGenRR

/-!
# The body of `for (dim = 0; dim < num_columns; ++dim)` of `Grid::simplify(Grid_Generator_System&)`
and the loop itself: the invariant `OInv`.
-/
namespace PPLV.Lattice.Red
open PPLV.Lattice

theorem kind_setG (dk : List Nat) (j x i : Nat) :
    kind (dk.set j x) i = if i = j ∧ j < dk.length then x else kind dk i := by
  unfold kind
  by_cases h : i = j
  · subst h
    by_cases h2 : i < dk.length
    · simp [h2]
    · simp [h2]
  · have : j ≠ i := fun e => h e.symm
    simp [h, List.getElem?_set_ne this]

/-- `while (row_index < num_rows && rows[row_index].expr.get(dim) == 0) ++row_index;` -/
theorem findNonZero_specG (rows : List GRow) (dim numRows : Nat) : ∀ fuel i, i + fuel = numRows →
    i ≤ findNonZero rows dim numRows fuel i ∧ findNonZero rows dim numRows fuel i ≤ numRows ∧
    (∀ j, i ≤ j → j < findNonZero rows dim numRows fuel i → get (rowAt rows j).e dim = 0) ∧
    (findNonZero rows dim numRows fuel i < numRows →
      get (rowAt rows (findNonZero rows dim numRows fuel i)).e dim ≠ 0) := by
  intro fuel
  induction fuel with
  | zero =>
    intro i hi
    have e : findNonZero rows dim numRows 0 i = i := rfl
    rw [e]
    exact ⟨Nat.le_refl _, by omega, fun j h1 h2 => by omega, fun h => by omega⟩
  | succ fuel ih =>
    intro i hi
    by_cases h : i < numRows ∧ get (rowAt rows i).e dim = 0
    · have e : findNonZero rows dim numRows (fuel + 1) i = findNonZero rows dim numRows fuel (i + 1) := by
        show (if i < numRows ∧ get (rowAt rows i).e dim = 0 then _ else _) = _
        rw [if_pos h]
      rw [e]
      obtain ⟨h1, h2, h3, h4⟩ := ih (i + 1) (by omega)
      refine ⟨by omega, h2, fun j hj1 hj2 => ?_, h4⟩
      by_cases e' : j = i
      · rw [e']; exact h.2
      · exact h3 j (by omega) hj2
    · have e : findNonZero rows dim numRows (fuel + 1) i = i := by
        show (if i < numRows ∧ get (rowAt rows i).e dim = 0 then _ else _) = _
        rw [if_neg h]
      rw [e]
      refine ⟨Nat.le_refl _, by omega, fun j h1 h2 => by omega, fun hlt h0 => h ⟨hlt, h0⟩⟩

/-- the loop invariant before dimension `dim` -/
structure OInv (n numRows dim : Nat) (st : GSt) : Prop where
  len : st.rows.length = numRows
  wf : WfI n st.rows
  ple : st.pivotIndex ≤ numRows
  zero : ZeroPre st.pivotIndex dim st.rows
  tri : Tri st.dk st.rows dim st.pivotIndex
  dkl : st.dk.length = n + 1

/-- the non-virtual branch, with the intermediate values named -/
theorem dimBody_spec {n numRows dim ri p : Nat} {rows : List GRow} {dk : List Nat}
    (h : OInv n numRows dim { rows := rows, dk := dk, pivotIndex := p }) (hdim : dim ≤ n)
    (hpri : p ≤ ri) (hri : ri < numRows)
    (hzc : ∀ j, p ≤ j → j < ri → get (rowAt rows j).e dim = 0) (hnz : get (rowAt rows ri).e dim ≠ 0)
    (rows0 : List GRow) (r : List GRow × Bool)
    (hrows0 : rows0 = if ri ≠ p then swapRows rows ri p else rows)
    (hr : r = (List.range' (ri + 1) (numRows - 1 - ri)).foldl (simplifyGenInner dim p (n + 1))
      (rows0, (rowAt rows0 p).isLine)) :
    OInv n numRows (dim + 1)
      { rows := reduceReduced (negPivotG r.1 p dim n) dim p dim n (dk.set dim (if r.2 then LINE else PARAMETER)) true,
        dk := dk.set dim (if r.2 then LINE else PARAMETER), pivotIndex := p + 1 } ∧
    HomSim n rows
      (reduceReduced (negPivotG r.1 p dim n) dim p dim n (dk.set dim (if r.2 then LINE else PARAMETER)) true) := by
  have hlen : rows.length = numRows := h.len
  have hwf : WfI n rows := h.wf
  have hz : ZeroPre p dim rows := h.zero
  have htri : Tri dk rows dim p := h.tri
  have hdkl : dk.length = n + 1 := h.dkl
  have hril : ri < rows.length := by omega
  have hpl : p < rows.length := by omega
  -- step A: the swap
  have hA : rows0.length = numRows ∧ WfI n rows0 ∧ ZeroPre p dim rows0 ∧ get (rowAt rows0 p).e dim ≠ 0 ∧
      (∀ i, p < i → i < ri + 1 → get (rowAt rows0 i).e dim = 0) ∧ PreRel p dim rows rows0 ∧
      HomSim n rows rows0 := by
    by_cases e : ri = p
    · have : rows0 = rows := by rw [hrows0, if_neg (fun h => h e)]
      rw [this]
      refine ⟨hlen, hwf, hz, by rw [← e]; exact hnz, fun i h1 h2 => by omega, PreRel.refl _ _ _, HomSim.refl _ _⟩
    · have : rows0 = swapRows rows ri p := by rw [hrows0, if_pos e]
      rw [this]
      obtain ⟨s1, s2, s3, s4, s5, s6, s7⟩ := swap_spec (n := n) (dim := dim) hril hpl hpri hwf hz
      refine ⟨s1.trans hlen, s2, s3, by rw [s6]; exact hnz, ?_, ?_, HomSim.of_iff s7⟩
      · intro i h1 h2
        by_cases e2 : i = ri
        · rw [e2, s5]; exact hzc p (Nat.le_refl _) (by omega)
        · rw [s4 i e2 (by omega)]; exact hzc i (by omega) (by omega)
      · intro j hj
        rw [s4 j (by omega) (by omega)]
        exact ⟨rfl, fun _ _ => rfl⟩
  obtain ⟨a1, a2, a3, a4, a5, a6, a7⟩ := hA
  -- step B: the inner loop
  have hB0 : IInv n p dim numRows (ri + 1) (rows0, (rowAt rows0 p).isLine) := ⟨a1, a2, a3, a4, rfl, a5⟩
  obtain ⟨b1, b2, b3⟩ := inner_fold (D := dim) hdim (numRows - 1 - ri) (ri + 1) _ hB0 (by omega) (by omega)
  rw [← hr] at b1 b2 b3
  have hm : ri + 1 + (numRows - 1 - ri) = numRows := by omega
  rw [hm] at b1
  have b2' : PreRel p dim rows0 r.1 := b2
  have b3' : HomSim n rows0 r.1 := b3
  have c_len : r.1.length = numRows := b1.len
  have hp1 : p < r.1.length := by omega
  -- step C: the sign of the pivot
  obtain ⟨c1, c2, c3, c4, c5, c6, c7⟩ := negPivotG_spec hdim hp1 b1.wf b1.zero b1.pivNZ
  -- the kinds
  have hkd : kind (dk.set dim (if r.2 then LINE else PARAMETER)) dim = if r.2 then LINE else PARAMETER := by
    rw [kind_setG, if_pos ⟨rfl, by omega⟩]
  have hklt : ∀ i, i < dim → kind (dk.set dim (if r.2 then LINE else PARAMETER)) i = kind dk i := by
    intro i hi; rw [kind_setG, if_neg (fun h => by omega)]
  have hflag : r.2 = (rowAt r.1 p).line := b1.flag
  have hp2 : p < (negPivotG r.1 p dim n).length := by omega
  have htri2 : Tri (dk.set dim (if r.2 then LINE else PARAMETER)) (negPivotG r.1 p dim n) dim p := by
    refine Tri_dk _ _ hklt (Tri_congr _ _ (fun j hj => ?_) htri)
    rw [c4 j (by omega)]
    exact ⟨((b2' j hj).1).trans (a6 j hj).1, fun c hc => ((b2' j hj).2 c hc).trans ((a6 j hj).2 c hc)⟩
  -- step D: reduce_reduced
  have hD := reduceReduced_spec (dk := dk.set dim (if r.2 then LINE else PARAMETER)) hdim hp2 c2
    (c3 p (Nat.le_refl _) hp2)
    (by
      intro hk
      rw [hkd] at hk
      rw [c5, ← hflag]
      cases hh : r.2
      · rw [hh] at hk; exact absurd hk (by decide)
      · rfl) htri2
  refine ⟨⟨(hD.len.trans c1).trans c_len, hD.wf, by show p + 1 ≤ numRows; omega, ?_, ?_, ?_⟩, ?_⟩
  · -- the zero prefix for `dim + 1`
    intro i hpi hi c hc
    have hi' : i < numRows := by
      have : (reduceReduced (negPivotG r.1 p dim n) dim p dim n (dk.set dim (if r.2 then LINE else PARAMETER)) true).length
          = numRows := (hD.len.trans c1).trans c_len
      rw [← this]; exact hi
    have hpi' : p + 1 ≤ i := hpi
    dsimp only
    rw [hD.ge i (by omega), c4 i (by omega)]
    by_cases e : c = dim
    · rw [e]; exact b1.done i (by omega) hi'
    · exact b1.zero i (by omega) (by omega) c (by omega)
  · -- the triangular form
    show Tri _ _ (dim + 1) (p + 1)
    rw [Tri_real (by rw [hkd]; cases r.2 <;> decide)]
    refine ⟨by omega, ?_, ?_⟩
    · show TriRow _ _ dim p
      refine ⟨?_, ?_, ?_⟩
      · rw [hkd, hD.ge p (Nat.le_refl _), c5, ← hflag]
      · rw [hD.ge p (Nat.le_refl _)]; exact c6
      · intro c hc; rw [hD.ge p (Nat.le_refl _)]; exact c3 p (Nat.le_refl _) hp2 c hc
    · show Tri _ _ dim p
      refine Tri_congr _ _ (fun j hj => ⟨(hD.lt j hj).1, fun c hc => by rw [(hD.lt j hj).2 c hc]⟩) htri2
  · show (dk.set dim _).length = n + 1
    simp [hdkl]
  · exact ((a7.trans b3').trans (HomSim.of_iff c7)).trans (HomSim.of_iff hD.hom)

/-- one dimension -/
theorem dim_step {n numRows dim : Nat} {st : GSt} (h : OInv n numRows dim st) (hdim : dim ≤ n) :
    OInv n numRows (dim + 1) (simplifyGenDim (n + 1) numRows st dim) ∧
      HomSim n st.rows (simplifyGenDim (n + 1) numRows st dim).rows := by
  obtain ⟨rows, dk, p⟩ := st
  have hple : p ≤ numRows := h.ple
  obtain ⟨f1, f2, f3, f4⟩ := findNonZero_specG rows dim numRows (numRows - p) p (by omega)
  by_cases hv : findNonZero rows dim numRows (numRows - p) p = numRows
  · have e : simplifyGenDim (n + 1) numRows { rows := rows, dk := dk, pivotIndex := p } dim
        = { rows := rows, dk := dk.set dim GEN_VIRTUAL, pivotIndex := p } := by
      show (if findNonZero rows dim numRows (numRows - p) p = numRows then _ else _) = _
      rw [if_pos hv]
    rw [e]
    have hdkl : dk.length = n + 1 := h.dkl
    refine ⟨⟨h.len, h.wf, h.ple, ?_, ?_, by show (dk.set dim _).length = n + 1; simp [hdkl]⟩, HomSim.refl _ _⟩
    · intro i hpi hi c hc
      have hi2 : i < rows.length := hi
      have hpi2 : p ≤ i := hpi
      have hlen2 : rows.length = numRows := h.len
      have hi' : i < numRows := by omega
      by_cases e' : c = dim
      · rw [e']; exact f3 i hpi2 (by rw [hv]; exact hi')
      · exact h.zero i hpi2 hi2 c (by omega)
    · show Tri (dk.set dim GEN_VIRTUAL) rows (dim + 1) p
      rw [Tri_virt (by rw [kind_setG, if_pos ⟨rfl, by omega⟩])]
      exact Tri_dk _ _ (fun i hi => by rw [kind_setG, if_neg (fun h => by omega)]) h.tri
  · have hlt : findNonZero rows dim numRows (numRows - p) p < numRows := by omega
    have key := dimBody_spec h hdim f1 hlt f3 (f4 hlt) _ _ rfl rfl
    unfold simplifyGenDim
    simp only []
    rw [if_neg hv]
    exact key

/-- the loop over the dimensions `d, …, d + len - 1` -/
theorem outer_fold {n numRows : Nat} : ∀ (len d : Nat) (st : GSt), OInv n numRows d st → d + len ≤ n + 1 →
    OInv n numRows (d + len) ((List.range' d len).foldl (simplifyGenDim (n + 1) numRows) st) ∧
    HomSim n st.rows ((List.range' d len).foldl (simplifyGenDim (n + 1) numRows) st).rows := by
  intro len
  induction len with
  | zero => intro d st h _; exact ⟨h, HomSim.refl _ _⟩
  | succ len ih =>
    intro d st h hd
    rw [List.range'_succ, List.foldl_cons]
    obtain ⟨h1, h2⟩ := dim_step h (by omega)
    obtain ⟨k1, k2⟩ := ih (d + 1) _ h1 (by omega)
    have : d + (len + 1) = d + 1 + len := by omega
    rw [this]
    exact ⟨k1, h2.trans k2⟩

end PPLV.Lattice.Red
