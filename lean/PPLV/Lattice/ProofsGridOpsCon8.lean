import PPLV.Lattice.ProofsGridOpsCon5

/-!
# `Grid` stage 3, congruence-side mutators, part 8: `intersection_assign(y)` (Grid_public.cc:1530)
-/
namespace PPLV.Lattice.GO
open PPLV.Lattice PPLV.Lattice.Red

/-- the receiver of `intersection_assign` after the rows of `y` have been inserted -/
def cn_interBody (x1 y1 : Grid) : Grid :=
  ((x1.withCs (x1.cs.insertSys y1.cs)).clearGeneratorsUpToDate).clearCongruencesMinimized

theorem cn_interBody_spec (x1 y1 : Grid) (hx : GridInv x1) (hy : GridInv y1) (hd : x1.spaceDim = y1.spaceDim)
    (hpos : 0 < x1.spaceDim) (hex : x1.st.empty = false) (hey : y1.st.empty = false) (hcx : x1.st.cUp = true)
    (hcy : y1.st.cUp = true) :
    GridInv (cn_interBody x1 y1) ∧ (cn_interBody x1 y1).sem = x1.sem ∩ y1.sem ∧
      (cn_interBody x1 y1).spaceDim = x1.spaceDim := by
  have hposy : 0 < y1.spaceDim := by omega
  obtain ⟨hcdx, hwx⟩ := hx.cwf hex hpos hcx
  obtain ⟨hcdy, hwy⟩ := hy.cwf hey hposy hcy
  have hdc : y1.cs.dim ≤ x1.cs.dim := by show y1.conDim ≤ x1.conDim; omega
  have hwx' : CWf x1.cs.dim x1.cs.rows := by show CWf x1.conDim x1.con; rw [hcdx]; exact hwx
  have hdim := cn_insertSys_dim x1.cs y1.cs hdc
  have hcons := cn_insertSys_consSet x1.cs y1.cs hdc
  have hcwf := cn_insertSys_CWf x1.cs y1.cs hwx' hdc (fun r hr => (hwy r hr).2)
  have hcsd : x1.cs.dim = x1.spaceDim := hcdx
  rw [hcsd] at hcons hcwf hdim
  have := cn_inv_of_conOnly (cn_interBody x1 y1) hpos hex hcx rfl rfl rfl (hx.hi0 hex) hdim hcwf
  refine ⟨this.1, ?_, rfl⟩
  rw [this.2]
  show consSet x1.spaceDim (x1.cs.insertSys y1.cs).rows = _
  rw [hcons, cn_sem_of_cUp x1 hx hex hpos hcx, cn_sem_of_cUp y1 hy hey hposy hcy, ← hd, cn_consSet_eq x1.spaceDim y1.con,
    ← Set.inter_assoc, Set.inter_eq_left.mpr (cn_consSet_subset_space x1.spaceDim x1.con)]
  rfl

/-- Grid_public.cc:1530 `intersection_assign(y)`: throws exactly on a dimension mismatch (objects unchanged); otherwise
    the receiver becomes the intersection, the argument keeps its grid (its congruences may have been brought up to
    date) -/
theorem cn_intersectionAssign (hUC : UpdateCongruencesSpec) (x y : Grid) (hx : GridInv x) (hy : GridInv y) :
    ((intersectionAssign x y).thrown = true ↔ x.spaceDim ≠ y.spaceDim) ∧
    ((intersectionAssign x y).thrown = true → (intersectionAssign x y).x = x ∧ (intersectionAssign x y).y = y) ∧
    ((intersectionAssign x y).thrown = false →
      GridInv (intersectionAssign x y).x ∧ GridInv (intersectionAssign x y).y ∧
      (intersectionAssign x y).x.sem = x.sem ∩ y.sem ∧ (intersectionAssign x y).y.sem = y.sem ∧
      (intersectionAssign x y).x.spaceDim = x.spaceDim ∧ (intersectionAssign x y).y.spaceDim = y.spaceDim) := by
  unfold intersectionAssign
  by_cases hd : x.spaceDim ≠ y.spaceDim
  · rw [if_pos hd]
    exact ⟨⟨fun _ => hd, fun _ => rfl⟩, fun _ => ⟨rfl, rfl⟩, (fun h => by cases h)⟩
  · rw [if_neg hd]
    have hdd : x.spaceDim = y.spaceDim := not_not.mp hd
    have hthr : ((false = true) ↔ x.spaceDim ≠ y.spaceDim) := ⟨(fun h => by cases h), fun h => absurd h hd⟩
    by_cases hex : x.st.empty = true
    · have : x.markedEmpty = true := hex
      rw [if_pos this]
      refine ⟨hthr, (fun h => by cases h), fun _ => ⟨hx, hy, ?_, rfl, rfl, rfl⟩⟩
      rw [cn_sem_empty x hex, Set.empty_inter]
    · have hnx : x.st.empty = false := by simpa using hex
      have : ¬ (x.markedEmpty = true) := hex
      rw [if_neg this]
      by_cases hey : y.st.empty = true
      · have : y.markedEmpty = true := hey
        rw [if_pos this]
        refine ⟨hthr, (fun h => by cases h), fun _ => ⟨cn_setEmpty_inv x, hy, ?_, rfl, rfl, rfl⟩⟩
        rw [cn_setEmpty_sem, cn_sem_empty y hey, Set.inter_empty]
      · have hny : y.st.empty = false := by simpa using hey
        have : ¬ (y.markedEmpty = true) := hey
        rw [if_neg this]
        by_cases h0 : x.spaceDim = 0
        · rw [if_pos h0]
          refine ⟨hthr, (fun h => by cases h), fun _ => ⟨hx, hy, ?_, rfl, rfl, rfl⟩⟩
          rw [cn_sem_zdim x hnx h0, cn_sem_zdim y hny (by omega), Set.inter_self]
        · rw [if_neg h0]
          have hposx : 0 < x.spaceDim := by omega
          have hposy : 0 < y.spaceDim := by omega
          obtain ⟨hI1, hs1, hd1, he1, hc1⟩ := cn_ensureCon hUC x hx hnx hposx
          obtain ⟨hI2, hs2, hd2, he2, hc2⟩ := cn_ensureCon hUC y hy hny hposy
          generalize (if !x.congruencesAreUpToDate then updateCongruences x else x) = x1 at hI1 hs1 hd1 he1 hc1 ⊢
          generalize (if !y.congruencesAreUpToDate then updateCongruences y else y) = y1 at hI2 hs2 hd2 he2 hc2 ⊢
          have hpos1 : 0 < x1.spaceDim := by omega
          have hpos2 : 0 < y1.spaceDim := by omega
          by_cases hnil : (!y1.con.isEmpty) = true
          · rw [if_pos hnil]
            obtain ⟨b1, b2, b3⟩ := cn_interBody_spec x1 y1 hI1 hI2 (by omega) hpos1 he1 he2 hc1 hc2
            exact ⟨hthr, (fun h => by cases h), fun _ => ⟨b1, hI2, by rw [← hs1, ← hs2]; exact b2, hs2, b3.trans hd1, hd2⟩⟩
          · rw [if_neg hnil]
            refine ⟨hthr, (fun h => by cases h), fun _ => ⟨hI1, hI2, ?_, hs2, hd1, hd2⟩⟩
            have hyn : y1.con = [] := by simpa using hnil
            have hys : y1.sem = spaceSet y1.spaceDim := by
              rw [cn_sem_of_cUp y1 hI2 he2 hpos2 hc2, hyn, cn_consSet_nil]
            rw [← hs2, hys, hs1, Set.inter_eq_left.mpr]
            rw [hd2, ← hdd]
            exact cn_sem_subset_space x hx

/-- `{x ≡ 0 (mod 3)}` in dimension 1 -/
def cn_exGrid3 : Grid :=
  { spaceDim := 1, st := { cUp := true }, conDim := 1, con := [{ e := [0, 1], m := 3 }], genDim := 1, gen := [], dk := [] }

theorem cn_exGrid3_inv : GridInv cn_exGrid3 :=
  (cn_inv_of_conOnly cn_exGrid3 (by decide) rfl rfl rfl rfl rfl rfl rfl (by unfold CWf; decide)).1

example : GridInv cn_exGrid ∧ GridInv cn_exGrid3 ∧ (intersectionAssign cn_exGrid cn_exGrid3).thrown = false ∧
    (intersectionAssign cn_exGrid cn_exGrid3).x.con = [{ e := [0, 1], m := 2 }, { e := [0, 1], m := 3 }] :=
  ⟨cn_exGrid_inv, cn_exGrid3_inv, by decide, by decide⟩

end PPLV.Lattice.GO
