import PPLV.Lattice.ProofsConvGCBase

/-!
# `Grid::conversion` (congruences → generators): folds, the triangular source, the counting loop, the initial `dest`

The mirror image of `ProofsConvGCBase/Init.lean`.  The enumerators of `Dimension_Kind` coincide
(`PROPER_CONGRUENCE = PARAMETER = 0`, `CON_VIRTUAL = LINE = 1`, `EQUALITY = GEN_VIRTUAL = 2`), so the counters of
`ProofsConvGCBase.lean` are reused with the roles exchanged:

* `nlB dk d` (`kind ≠ 1`): dimension `d` has a *source* (congruence) row, at index `pos dk dims d`
  (the source rows are ordered from the last column down);
* `nvB dk d` (`kind ≠ 2`): dimension `d` has a *dest* (generator) row, at index `nv dk d`.
-/
namespace PPLV.Lattice.Red

/-! ### ascending loops -/

theorem cg_foldl_range_inv {σ : Type} (f : σ → Nat → σ) (I : Nat → σ → Prop) (m : Nat) (s : σ) (h0 : I 0 s)
    (hstep : ∀ d s, d < m → I d s → I (d + 1) (f s d)) : I m ((List.range m).foldl f s) := by
  induction m with
  | zero => simpa using h0
  | succ m ih =>
    rw [List.range_succ, List.foldl_append]
    simp only [List.foldl_cons, List.foldl_nil]
    exact hstep m _ (by omega) (ih (fun d s hd h => hstep d s (by omega) h))

theorem cg_foldl_range'_inv {σ : Type} (f : σ → Nat → σ) (I : Nat → σ → Prop) :
    ∀ (len a : Nat) (s : σ), I a s → (∀ d s, a ≤ d → d < a + len → I d s → I (d + 1) (f s d)) →
      I (a + len) ((List.range' a len).foldl f s)
  | 0, a, s, h0, _ => by simpa using h0
  | len + 1, a, s, h0, hstep => by
    rw [List.range'_succ, List.foldl_cons]
    have := cg_foldl_range'_inv f I len (a + 1) (f s a) (hstep a s (Nat.le_refl _) (by omega) h0)
      (fun d s h1 h2 h => hstep d s (by omega) (by omega) h)
    rwa [show a + 1 + len = a + (len + 1) by omega] at this

/-! ### counters -/

theorem cg_nv_lt_iff (dk : List Nat) (q e : Nat) (hq : nvB dk q = true) : nv dk q < nv dk e ↔ q < e := by
  constructor
  · intro h
    by_contra hc
    have := cntBelow_mono (nvB dk) (show e ≤ q by omega)
    simp only [nv] at *; omega
  · intro h
    exact cntBelow_lt (nvB dk) h hq

theorem cg_nv_inj (dk : List Nat) (q q' : Nat) (hq : nvB dk q = true) (hq' : nvB dk q' = true) (h : nv dk q = nv dk q') :
    q = q' := cntBelow_inj (nvB dk) hq hq' h

theorem cgKindCases (dk : List Nat) (dims : Nat) (hk : ∀ d, d < dims → kind dk d ≤ 2) (d : Nat) (hd : d < dims) :
    kind dk d = 0 ∨ kind dk d = 1 ∨ kind dk d = 2 := by
  have := hk d hd; omega

/-- a generic row operation applied to the rows `K-1, …, 0` -/
theorem cg_foldl_rowop {R : Type} [Inhabited R] (op : R → R) (K : Nat) (T : List R) :
    ((dimsDown K).foldl (fun d i => d.set i (op (rowAt d i))) T).length = T.length ∧
    ∀ i, rowAt ((dimsDown K).foldl (fun d i => d.set i (op (rowAt d i))) T) i =
      if i < K ∧ i < T.length then op (rowAt T i) else rowAt T i := by
  have key := foldl_dimsDown_inv (fun (d : List R) i => d.set i (op (rowAt d i)))
    (fun r cur => cur.length = T.length ∧
      ∀ i, rowAt cur i = if r ≤ i ∧ i < K ∧ i < T.length then op (rowAt T i) else rowAt T i) K T ?_ ?_
  · refine ⟨key.1, fun i => ?_⟩
    rw [key.2 i]; simp
  · refine ⟨rfl, fun i => ?_⟩
    rw [if_neg (by omega)]
  · rintro r cur hr ⟨h1, h2⟩
    refine ⟨by simp [h1], fun i => ?_⟩
    rw [rowAt_set, h1]
    by_cases hi : i = r
    · subst hi
      by_cases hl : i < T.length
      · rw [if_pos ⟨rfl, hl⟩, if_pos ⟨Nat.le_refl _, hr, hl⟩, h2 i, if_neg (by omega)]
      · rw [if_neg (by omega), if_neg (by omega), h2 i, if_neg (by omega)]
    · rw [if_neg (by omega), h2 i]
      by_cases hc : r + 1 ≤ i ∧ i < K ∧ i < T.length
      · rw [if_pos hc, if_pos ⟨by omega, hc.2.1, hc.2.2⟩]
      · rw [if_neg hc, if_neg (by omega)]

/-! ### the triangular source -/

/-- entry `k` of source row `j` -/
def cEnt (source : List CRow) (j k : Nat) : Int := get (rowAt source j).e k

/-- what `lower_triangular(source, dim_kinds)` gives: one row per non-virtual dimension, from the last column down;
    positive diagonal, zeros after it -/
structure CSrcOK (dims : Nat) (source : List CRow) (dk : List Nat) : Prop where
  len : source.length = nl dk dims
  diag : ∀ d, d < dims → nlB dk d = true → 0 < cEnt source (pos dk dims d) d
  zeros : ∀ d, d < dims → nlB dk d = true → ∀ k, d < k → k < dims → cEnt source (pos dk dims d) k = 0

def cgLtStep (n : Nat) (sys : List CRow) (dk : List Nat) (st : Nat × Bool) (dim : Nat) : Nat × Bool :=
  if !st.2 then st
  else if kind dk dim = CON_VIRTUAL then st
  else
    let cg := rowAt sys st.1
    if get cg.e dim ≤ 0 then (st.1 + 1, false)
    else if !allZeroes cg.e (dim + 1) (n + 1) then (st.1 + 1, false)
    else (st.1 + 1, true)

theorem cgLowerTriangular_eq (n : Nat) (sys : List CRow) (dk : List Nat) :
    lowerTriangular n sys dk =
      (if sys.length > n + 1 then false
       else
        let r := (dimsDown (n + 1)).foldl (cgLtStep n sys dk) (0, true)
        r.2 && r.1 == sys.length) := rfl

theorem lowerTriangular_spec (n : Nat) (source : List CRow) (dk : List Nat) (h : lowerTriangular n source dk = true) :
    CSrcOK (n + 1) source dk := by
  rw [cgLowerTriangular_eq] at h
  split at h
  · exact absurd h (by simp)
  · have key := foldl_dimsDown_inv (cgLtStep n source dk)
      (fun d st => st.2 = true → (st.1 = nl dk (n + 1) - nl dk d) ∧
        ∀ d', d ≤ d' → d' < n + 1 → nlB dk d' = true →
          0 < cEnt source (pos dk (n + 1) d') d' ∧
          ∀ k, d' < k → k < n + 1 → cEnt source (pos dk (n + 1) d') k = 0)
      (n + 1) (0, true) ?_ ?_
    · simp only [Bool.and_eq_true, beq_iff_eq] at h
      obtain ⟨h1, h2⟩ := key h.1
      rw [h.2] at h1
      have hz : nl dk 0 = 0 := rfl
      rw [hz] at h1
      exact ⟨by omega, fun d hd hv => (h2 d (Nat.zero_le _) hd hv).1, fun d hd hv => (h2 d (Nat.zero_le _) hd hv).2⟩
    · intro _
      exact ⟨by simp, fun d' h1 h2 => by omega⟩
    · intro d st hd ih
      have hm := cntBelow_mono (nlB dk) (show d + 1 ≤ n + 1 from hd)
      unfold cgLtStep
      by_cases hok : st.2 = true
      · obtain ⟨ih1, ih2⟩ := ih hok
        simp only [hok, Bool.not_true, Bool.false_eq_true, if_false]
        by_cases hk : kind dk d = CON_VIRTUAL
        · simp only [hk, if_true]
          intro _
          have hv : nlB dk d = false := by simp [nlB, hk, CON_VIRTUAL, LINE]
          have e := cntBelow_succ_neg (nlB dk) d hv
          refine ⟨by simp only [nl] at *; omega, ?_⟩
          intro d' h1 h2 h3
          by_cases hdd : d' = d
          · subst hdd; rw [hv] at h3; exact absurd h3 (by simp)
          · exact ih2 d' (by omega) h2 h3
        · have hv : nlB dk d = true := by simpa [nlB, CON_VIRTUAL, LINE] using hk
          have e := cntBelow_succ_pos (nlB dk) d hv
          simp only [hk, if_false]
          by_cases hdiag : get (rowAt source st.1).e d ≤ 0
          · simp [hdiag]
          · by_cases hz : allZeroes (rowAt source st.1).e (d + 1) (n + 1) = true
            · simp only [hdiag, if_false, hz, Bool.not_true, Bool.false_eq_true]
              intro _
              refine ⟨by simp only [nl] at *; omega, ?_⟩
              intro d' h1 h2 h3
              by_cases hdd : d' = d
              · subst hdd
                have hidx : pos dk (n + 1) d' = st.1 := by
                  simp only [pos, nl] at *; omega
                rw [hidx]
                refine ⟨by simp only [cEnt]; omega, ?_⟩
                intro k hk1 hk2
                exact (allZeroes_iff _ (d' + 1) (n + 1)).mp hz k (by omega) hk2
              · exact ih2 d' (by omega) h2 h3
            · simp [hdiag, hz]
      · have : st.2 = false := by simpa using hok
        simp [this]

/-! ### the counting loop -/

def cgCountStep (source : List CRow) (dk : List Nat) (st : Nat × Nat × Int) (dim : Nat) : Nat × Nat × Int :=
  if kind dk dim = CON_VIRTUAL then (st.1, st.2.1 + 1, st.2.2)
  else if kind dk dim = PROPER_CONGRUENCE then
    (st.1 + 1, st.2.1 + 1, lcmI st.2.2 (get (rowAt source st.1).e dim))
  else (st.1 + 1, st.2.1, st.2.2)

theorem cgCount_eq (source : List CRow) (dk : List Nat) (dims : Nat) :
    cgCount source dk dims = (dimsDown dims).foldl (cgCountStep source dk) (0, 0, 1) := rfl

theorem cgCount_spec (source : List CRow) (dk : List Nat) (dims : Nat) (hs : CSrcOK dims source dk)
    (hk : ∀ d, d < dims → kind dk d ≤ 2) :
    (cgCount source dk dims).1 = nl dk dims ∧ (cgCount source dk dims).2.1 = nv dk dims ∧
      0 < (cgCount source dk dims).2.2 ∧
      ∀ d, d < dims → kind dk d = PROPER_CONGRUENCE → cEnt source (pos dk dims d) d ∣ (cgCount source dk dims).2.2 := by
  rw [cgCount_eq]
  have key := foldl_dimsDown_inv (cgCountStep source dk)
    (fun d st => st.1 = nl dk dims - nl dk d ∧ st.2.1 = nv dk dims - nv dk d ∧ 0 < st.2.2 ∧
      ∀ d', d ≤ d' → d' < dims → kind dk d' = PROPER_CONGRUENCE → cEnt source (pos dk dims d') d' ∣ st.2.2)
    dims (0, 0, 1) ?_ ?_
  · obtain ⟨h1, h2, h3, h4⟩ := key
    refine ⟨?_, ?_, h3, fun d hd hp => h4 d (Nat.zero_le _) hd hp⟩
    · rw [h1]; simp [nl, cntBelow]
    · rw [h2]; simp [nv, cntBelow]
  · exact ⟨by simp, by simp, by simp, fun d' h1 h2 => by omega⟩
  · rintro d st hd ⟨i1, i2, i3, i4⟩
    have hm := cntBelow_mono (nlB dk) (show d + 1 ≤ dims from hd)
    have hm' := cntBelow_mono (nvB dk) (show d + 1 ≤ dims from hd)
    unfold cgCountStep
    rcases cgKindCases dk dims hk d hd with h0 | h0 | h0
    · -- PROPER_CONGRUENCE
      have hv : nvB dk d = true := by simp [nvB, h0, GEN_VIRTUAL]
      have hl : nlB dk d = true := by simp [nlB, h0, LINE]
      have e1 := cntBelow_succ_pos (nvB dk) d hv
      have e2 := cntBelow_succ_pos (nlB dk) d hl
      have hsi : st.1 = pos dk dims d := by simp only [pos, nl] at *; omega
      simp only [h0, CON_VIRTUAL, PROPER_CONGRUENCE, if_true, if_false, zero_ne_one]
      have hpos := hs.diag d hd hl
      rw [hsi]
      refine ⟨by simp only [pos, nl] at *; omega, by simp only [nv] at *; omega, ?_, ?_⟩
      · simp only [lcmI]
        exact_mod_cast Int.lcm_pos (by omega) (by simp only [cEnt] at hpos; omega)
      · intro d' h1 h2 h3
        by_cases hdd : d' = d
        · subst hdd; exact Int.dvd_lcm_right _ _
        · exact Int.dvd_trans (i4 d' (by omega) h2 h3) (Int.dvd_lcm_left _ _)
    · -- CON_VIRTUAL
      have hv : nvB dk d = true := by simp [nvB, h0, GEN_VIRTUAL]
      have hl : nlB dk d = false := by simp [nlB, h0, LINE]
      have e1 := cntBelow_succ_pos (nvB dk) d hv
      have e2 := cntBelow_succ_neg (nlB dk) d hl
      simp only [h0, CON_VIRTUAL, if_true]
      refine ⟨by simp only [nl] at *; omega, by simp only [nv] at *; omega, i3, ?_⟩
      intro d' h1 h2 h3
      by_cases hdd : d' = d
      · subst hdd; rw [h0] at h3; exact absurd h3 (by simp [PROPER_CONGRUENCE])
      · exact i4 d' (by omega) h2 h3
    · -- EQUALITY
      have hv : nvB dk d = false := by simp [nvB, h0, GEN_VIRTUAL]
      have hl : nlB dk d = true := by simp [nlB, h0, LINE]
      have e1 := cntBelow_succ_neg (nvB dk) d hv
      have e2 := cntBelow_succ_pos (nlB dk) d hl
      simp only [h0, CON_VIRTUAL, PROPER_CONGRUENCE, if_false, OfNat.ofNat_ne_one, OfNat.ofNat_ne_zero]
      refine ⟨by simp only [nl] at *; omega, by simp only [nv] at *; omega, i3, ?_⟩
      intro d' h1 h2 h3
      by_cases hdd : d' = d
      · subst hdd; rw [h0] at h3; exact absurd h3 (by simp [PROPER_CONGRUENCE])
      · exact i4 d' (by omega) h2 h3

/-! ### the initial `dest` -/

def cgInitStep (source : List CRow) (dk : List Nat) (dims : Nat) (diagonalLcm : Int) (st : Nat × List GRow) (dim : Nat) :
    Nat × List GRow :=
  if kind dk dim = EQUALITY then (st.1 - 1, st.2)
  else
    let z : Row := List.replicate (dims + 1) 0
    if kind dk dim = CON_VIRTUAL then (st.1, st.2 ++ [{ line := true, e := (z.set 0 0).set dim 1 }])
    else
      let si := st.1 - 1
      (si, st.2 ++ [{ line := false, e := (z.set 0 0).set dim (diagonalLcm / get (rowAt source si).e dim) }])

theorem cgInit_eq (source : List CRow) (dk : List Nat) (dims N : Nat) (l : Int) :
    cgInit source dk dims N l = ((List.range dims).foldl (cgInitStep source dk dims l) (N, [])).2 := rfl

/-- a generator row `v·e_q` -/
def GUnitRow (dims : Nat) (g : GRow) (q : Nat) (v : Int) (ln : Bool) : Prop :=
  g.line = ln ∧ g.e.length = dims + 1 ∧ ∀ k, get g.e k = if k = q then v else 0

theorem cgGetReplicateZero (m k : Nat) : get (List.replicate m (0 : Int)) k = 0 := by
  unfold get
  by_cases h : k < m
  · simp [h]
  · simp [List.getElem?_eq_none (show (List.replicate m (0 : Int)).length ≤ k by simp; omega)]

theorem gUnitRow_mk (dims q : Nat) (hq : q < dims) (v : Int) (ln : Bool) :
    GUnitRow dims { line := ln, e := ((List.replicate (dims + 1) (0 : Int)).set 0 0).set q v } q v ln := by
  refine ⟨rfl, by simp, ?_⟩
  intro k
  rw [get_set, get_set, cgGetReplicateZero]
  by_cases h : k = q
  · simp [h]; omega
  · simp [h]

theorem cgInit_spec (source : List CRow) (dk : List Nat) (dims : Nat) (l : Int)
    (hk : ∀ d, d < dims → kind dk d ≤ 2) :
    (cgInit source dk dims (nl dk dims) l).length = nv dk dims ∧
      ∀ q, q < dims → nvB dk q = true →
        (kind dk q = CON_VIRTUAL → GUnitRow dims (rowAt (cgInit source dk dims (nl dk dims) l) (nv dk q)) q 1 true) ∧
        (kind dk q = PROPER_CONGRUENCE →
          GUnitRow dims (rowAt (cgInit source dk dims (nl dk dims) l) (nv dk q)) q
            (l / cEnt source (pos dk dims q) q) false) := by
  rw [cgInit_eq]
  have key := cg_foldl_range_inv (cgInitStep source dk dims l)
    (fun d st => st.1 = nl dk dims - nl dk d ∧ st.2.length = nv dk d ∧
      ∀ q, q < d → nvB dk q = true →
        (kind dk q = CON_VIRTUAL → GUnitRow dims (rowAt st.2 (nv dk q)) q 1 true) ∧
        (kind dk q = PROPER_CONGRUENCE → GUnitRow dims (rowAt st.2 (nv dk q)) q (l / cEnt source (pos dk dims q) q) false))
    dims (nl dk dims, []) ?_ ?_
  · exact ⟨key.2.1, key.2.2⟩
  · exact ⟨by simp [nl, cntBelow], by simp [nv, cntBelow], fun q h1 => by omega⟩
  · rintro d st hd ⟨i1, i2, i3⟩
    have hm := cntBelow_mono (nlB dk) (show d + 1 ≤ dims from hd)
    unfold cgInitStep
    have keep : ∀ (r : GRow) (q : Nat), q < d → nvB dk q = true →
        rowAt (st.2 ++ [r]) (nv dk q) = rowAt st.2 (nv dk q) := by
      intro r q h1 h3
      rw [rowAt_append_one, if_pos]
      rw [i2]
      exact (cg_nv_lt_iff dk q d h3).mpr h1
    have new : ∀ (r : GRow), rowAt (st.2 ++ [r]) (nv dk d) = r := by
      intro r
      rw [rowAt_append_one, i2]
      simp
    rcases cgKindCases dk dims hk d hd with h0 | h0 | h0
    · -- PROPER_CONGRUENCE
      have hv : nvB dk d = true := by simp [nvB, h0, GEN_VIRTUAL]
      have hl : nlB dk d = true := by simp [nlB, h0, LINE]
      have e1 := cntBelow_succ_pos (nvB dk) d hv
      have e2 := cntBelow_succ_pos (nlB dk) d hl
      have hsi : st.1 - 1 = pos dk dims d := by simp only [pos, nl] at *; omega
      simp only [h0, EQUALITY, CON_VIRTUAL, if_false, OfNat.zero_ne_ofNat, zero_ne_one]
      rw [hsi]
      refine ⟨rfl,
        by simp only [List.length_append, List.length_cons, List.length_nil, nv] at *; omega, ?_⟩
      intro q h1 h3
      by_cases hqd : q = d
      · subst hqd
        rw [new]
        exact ⟨fun hc => by rw [h0] at hc; exact absurd hc (by simp [CON_VIRTUAL]),
          fun _ => gUnitRow_mk dims q hd _ _⟩
      · rw [keep _ q (by omega) h3]
        exact i3 q (by omega) h3
    · -- CON_VIRTUAL
      have hv : nvB dk d = true := by simp [nvB, h0, GEN_VIRTUAL]
      have hl : nlB dk d = false := by simp [nlB, h0, LINE]
      have e1 := cntBelow_succ_pos (nvB dk) d hv
      have e2 := cntBelow_succ_neg (nlB dk) d hl
      simp only [h0, EQUALITY, CON_VIRTUAL, if_true, if_false, OfNat.one_ne_ofNat]
      refine ⟨by simp only [nl] at *; omega,
        by simp only [List.length_append, List.length_cons, List.length_nil, nv] at *; omega, ?_⟩
      intro q h1 h3
      by_cases hqd : q = d
      · subst hqd
        rw [new]
        exact ⟨fun _ => gUnitRow_mk dims q hd _ _,
          fun hc => by rw [h0] at hc; exact absurd hc (by simp [PROPER_CONGRUENCE])⟩
      · rw [keep _ q (by omega) h3]
        exact i3 q (by omega) h3
    · -- EQUALITY
      have hv : nvB dk d = false := by simp [nvB, h0, GEN_VIRTUAL]
      have hl : nlB dk d = true := by simp [nlB, h0, LINE]
      have e1 := cntBelow_succ_neg (nvB dk) d hv
      have e2 := cntBelow_succ_pos (nlB dk) d hl
      simp only [h0, EQUALITY, if_true]
      refine ⟨by simp only [nl] at *; omega, by simp only [nv] at *; omega, ?_⟩
      intro q h1 h3
      by_cases hqd : q = d
      · subst hqd; rw [hv] at h3; exact absurd h3 (by simp)
      · exact i3 q (by omega) h3

end PPLV.Lattice.Red
