import PPLV.Lattice.ProofsGridOpsGen40
import PPLV.Lattice.ProofsConvCGBase

/-!
# Generator side of the `Grid` object, part 41 — a minimized congruence system of the whole space is one tautological row;
# `Grid::is_universe()` unconditionally
-/
namespace PPLV.Lattice.GO
open PPLV.Lattice PPLV.Lattice.Red

theorem gn_dotF_zero (l : Vec) : dotF l (fun _ => (0 : ℚ)) = 0 := by
  have : (fun _ => (0 : ℚ)) = (0 : ℚ) • (fun _ : Nat => (0 : ℚ)) := by funext j; simp
  rw [this, dotF_smul]; simp

theorem gn_dotF_delta : ∀ (l : Vec) (i : Nat), dotF l (fun j => if j = i then (1 : ℚ) else 0) = l.getD i 0
  | [], i => by simp
  | a :: l, 0 => by
    rw [dotF_cons]
    have : Pt.tail (fun j => if j = 0 then (1 : ℚ) else 0) = fun _ => (0 : ℚ) := by funext j; simp [Pt.tail]
    rw [this, gn_dotF_zero]; simp
  | a :: l, i + 1 => by
    rw [dotF_cons]
    have : Pt.tail (fun j => if j = i + 1 then (1 : ℚ) else 0) = fun j => if j = i then (1 : ℚ) else 0 := by
      funext j; simp [Pt.tail]
    rw [this, gn_dotF_delta l i]; simp

/-- the value of the homogeneous part of a row on a unit vector is its coefficient -/
theorem gn_dotF_unit (e : Row) (i : Nat) : dotF (ratRow e).tail (unit i).toFun = (get e (i + 1) : ℚ) := by
  have hu : (unit i).toFun = fun j => if j = i then (1 : ℚ) else 0 := by funext j; exact toFun_unit i j
  rw [hu, gn_dotF_delta]
  cases e with
  | nil => simp [ratRow, Red.get]
  | cons a l =>
    show (l.map (fun z : Int => (z : ℚ))).getD i 0 = ((l.getD i 0 : Int) : ℚ)
    rw [List.getD_eq_getElem?_getD, List.getD_eq_getElem?_getD, List.getElem?_map]
    cases l[i]? <;> simp

theorem gn_cntBelow_one (P : Nat → Bool) : ∀ k : Nat, (∀ d, 1 ≤ d → d < k + 1 → P d = false) →
    cntBelow P (k + 1) = if P 0 = true then 1 else 0
  | 0, _ => by simp [cntBelow]
  | k + 1, h => by
    rw [cntBelow, gn_cntBelow_one P k (fun d h1 h2 => h d h1 (by omega)), h (k + 1) (by omega) (by omega)]
    simp

/-- **a minimized congruence system of the whole space is one tautological row** -/
theorem gn_univ_min (g : Grid) (hI : GridInv g) (he : g.st.empty = false) (hn : 0 < g.spaceDim) (hm : g.st.cMin = true)
    (hU : g.sem = {x | Supp g.spaceDim x}) : (g.con.length == 1 && (rowAt g.con 0).isTautological) = true := by
  obtain ⟨_, w, s⟩ := gn_sem_of_cUp hI hn he (hI.cminUp hm)
  rw [s] at hU
  obtain ⟨hdk, hlt, hk0⟩ := hI.cmin he hn hm
  have hsrc := lowerTriangular_spec g.spaceDim g.con g.dk hlt
  have hne : (consSet g.spaceDim g.con).Nonempty := by rw [hU]; exact gn_space_nonempty _
  -- every coefficient of every row vanishes
  have hcoef : ∀ c ∈ g.con, ∀ d, 1 ≤ d → d ≤ g.spaceDim → get c.e d = 0 := by
    intro c hc d h1 h2
    have habs : ∀ a ∈ consSet g.spaceDim g.con, ∀ q : ℚ, a + q • (unit (d - 1)).toFun ∈ consSet g.spaceDim g.con := by
      intro a ha q
      rw [hU] at ha ⊢
      exact gn_space_closed_units _ _ (by omega) a ha q
    have hsupp : Supp g.spaceDim (unit (d - 1)).toFun := by
      intro j hj
      rw [toFun_unit, if_neg (by omega)]
    have := (gn_absorb_line_iff hne _ hsupp).mpr habs c hc
    rw [gn_dotF_unit] at this
    have e : d - 1 + 1 = d := by omega
    rw [e] at this
    exact_mod_cast this
  -- no dimension but 0 carries a row
  have hnl : ∀ d, 1 ≤ d → d < g.spaceDim + 1 → nlB g.dk d = false := by
    intro d h1 h2
    by_contra h
    have h' : nlB g.dk d = true := by simpa using h
    have hpos := pos_lt g.dk (g.spaceDim + 1) d h2 h'
    rw [← hsrc.len] at hpos
    have := hsrc.diag d h2 h'
    unfold cEnt at this
    rw [hcoef _ (rowAt_mem g.con _ hpos) d h1 (by omega)] at this
    exact absurd this (lt_irrefl 0)
  have hnl0 : nlB g.dk 0 = true := by
    unfold nlB; rw [hk0]; decide
  have hlen : g.con.length = 1 := by
    rw [hsrc.len]
    show cntBelow (nlB g.dk) (g.spaceDim + 1) = 1
    rw [gn_cntBelow_one _ _ hnl, hnl0]; rfl
  have hrow : rowAt g.con 0 ∈ g.con := rowAt_mem g.con 0 (by omega)
  rw [Bool.and_eq_true, beq_iff_eq]
  refine ⟨hlen, ?_⟩
  have hrlen := (w _ hrow).1
  have hz : allZ (rowAt g.con 0).e 1 (rowAt g.con 0).e.length = true := by
    unfold allZ
    rw [List.all_eq_true]
    intro i hi
    rw [List.mem_range'] at hi
    obtain ⟨j, hj, rfl⟩ := hi
    have := hcoef _ hrow (1 + 1 * j) (by omega) (by omega)
    simpa using this
  have h0mem : (0 : Pt) ∈ CRow.set (rowAt g.con 0) := by
    have : (0 : Pt) ∈ consSet g.spaceDim g.con := by rw [hU]; exact fun _ _ => rfl
    exact ((cn_mem_consSet _ _ _).mp this).2 _ hrow
  obtain ⟨t, ht⟩ := (cn_mem_set _ _).mp h0mem
  rw [evalRow_const _ _ (fun i hi => by
    by_cases hl : i < (rowAt g.con 0).e.length
    · exact hcoef _ hrow i hi (by omega)
    · exact get_of_length_le _ _ (by omega))] at ht
  unfold CRow.isTautological
  rw [hz, Bool.and_true]
  by_cases hm0 : (rowAt g.con 0).m = 0
  · rw [if_pos hm0]
    rw [hm0] at ht
    have : get (rowAt g.con 0).e 0 = 0 := by
      have : ((get (rowAt g.con 0).e 0 : Int) : ℚ) = 0 := by rw [ht]; simp
      exact_mod_cast this
    simp [this]
  · rw [if_neg hm0]
    have : (rowAt g.con 0).m ∣ get (rowAt g.con 0).e 0 := ⟨t, by rw [mul_comm]; exact_mod_cast ht⟩
    simp [Int.tmod_eq_zero_of_dvd this]

/-- **`Grid::is_universe()`**: the invariant and the denotation are kept and the answer says whether the grid is the whole
    space -/
theorem gn_isUniverse (g : Grid) (hI : GridInv g) :
    GridInv (isUniverse g).1 ∧ (isUniverse g).1.sem = g.sem ∧ (isUniverse g).1.spaceDim = g.spaceDim ∧
    ((isUniverse g).2 = true ↔ g.sem = {x | Supp g.spaceDim x}) :=
  gn_isUniverse_partial gn_univ_min g hI

end PPLV.Lattice.GO
