import PPLV.Lattice.ProofsGridOpsLazy10
import Mathlib.Algebra.BigOperators.Intervals

/-!
# The shared `dim_kinds` — part 11: `DkCompatC`

A generator system in upper triangular form and the minimized congruence system of ONE grid have the same
`GEN_VIRTUAL = EQUALITY` dimensions: `d` is one iff no vector of the homogeneous lattice has its first non-zero
coordinate at `d`.
-/
namespace PPLV.Lattice.GO
open PPLV.Lattice PPLV.Lattice.Red

theorem lz_dotF_sum (a : Vec) (v : Pt) : dotF a v = ∑ k ∈ Finset.range a.length, a.getD k 0 * v k := by
  induction a generalizing v with
  | nil => simp
  | cons c a ih =>
    rw [dotF_cons, ih, List.length_cons, Finset.sum_range_succ']
    simp only [List.getD_cons_succ, List.getD_cons_zero]
    rw [add_comm]; rfl

/-- the linear form with coefficients `C 0, …, C n` -/
noncomputable def lzForm (n : Nat) (C : ℕ → ℚ) : Pt →ₗ[ℚ] ℚ := alphaOf ((List.range (n + 1)).map C)

theorem lzForm_apply (n : Nat) (C : ℕ → ℚ) (v : Pt) : lzForm n C v = ∑ k ∈ Finset.range (n + 1), C k * v k := by
  unfold lzForm
  rw [alphaOf_apply, lz_dotF_sum]
  simp only [List.length_map, List.length_range]
  apply Finset.sum_congr rfl
  intro k hk
  have := Finset.mem_range.mp hk
  simp [List.getD_eq_getElem?_getD, this]

/-- a linear form that vanishes on the vector of every row vanishes on the homogeneous lattice -/
theorem lz_form_hom {n : Nat} {rows : List GRow} (α : Pt →ₗ[ℚ] ℚ) (h : ∀ r ∈ rows, α (hv n r) = 0) {v : Pt}
    (hv' : Hom n rows v) : α v = 0 := by
  unfold Hom GDir at hv'
  refine Abs.alpha_dir_zero α _ _ (fun l hl => ?_) (fun q hq => ?_) hv'
  · obtain ⟨u, hu, rfl⟩ := List.mem_map.mp hl
    obtain ⟨r, hr, rfl⟩ := List.mem_map.mp hu
    exact h r (List.mem_filter.mp hr).1
  · obtain ⟨u, hu, rfl⟩ := List.mem_map.mp hq
    obtain ⟨r, hr, rfl⟩ := List.mem_map.mp hu
    exact h r (List.mem_filter.mp hr).1

/-- back substitution along the upper triangular generator rows: a linear form with `C d = 1`, `C k = 0` for
    `k > d`, that vanishes on every row, when `d` is a `GEN_VIRTUAL` dimension -/
theorem lz_dual_form (n : Nat) (gen : List GRow) (dkg : List Nat) (hut : upperTriangular n gen dkg = true)
    (d : Nat) (hd : d < n + 1) (hvirt : nvB dkg d = false) :
    ∃ C : ℕ → ℚ, C d = 1 ∧ (∀ k, d < k → C k = 0) ∧ ∀ g ∈ gen, lzForm n C (hv n g) = 0 := by
  have hs := upperTriangular_spec n gen dkg hut
  let r : ℕ → ℕ → ℚ := fun q' k' => if k' ≤ d then ((get (rowAt gen (nv dkg (d - q'))).e (d - k') : Int) : ℚ) else 0
  let P : ℕ → Bool := fun q' => nvB dkg (d - q') && decide (q' ≤ d)
  let C : ℕ → ℚ := fun k => if k ≤ d then lzV r P 0 (d - k) else 0
  have hCd : C d = 1 := by
    show (if d ≤ d then lzV r P 0 (d - d) else 0) = 1
    rw [if_pos (le_refl d), Nat.sub_self, lzV_self]
  have hCgt : ∀ k, d < k → C k = 0 := by
    intro k hk
    show (if k ≤ d then lzV r P 0 (d - k) else 0) = 0
    rw [if_neg (by omega)]
  refine ⟨C, hCd, hCgt, fun g hg => ?_⟩
  obtain ⟨i, hi, rfl⟩ := (gc_mem_iff_rowAt _ _).mp hg
  rw [hs.len] at hi
  obtain ⟨q, hq, hqv, rfl⟩ := cntBelow_surj (nvB dkg) (n + 1) i hi
  have hdiag := hs.diag q hq hqv
  have hzeros := hs.zeros q hq hqv
  simp only [sEnt] at hdiag hzeros
  change lzForm n C (hv n (rowAt gen (nv dkg q))) = 0
  rw [lzForm_apply]
  -- only the columns `q ≤ k ≤ d` contribute
  have hterm : ∀ k, k < n + 1 → (k < q ∨ d < k) → C k * hv n (rowAt gen (nv dkg q)) k = 0 := by
    intro k hk h
    rcases h with h | h
    · rw [hv_apply, if_pos (by omega), hzeros k h]; simp
    · rw [hCgt k h]; simp
  rcases Nat.lt_trichotomy q d with hqd | hqd | hqd
  · -- reflect the index: `k = d - j`
    have e1 : ∑ k ∈ Finset.range (n + 1), C k * hv n (rowAt gen (nv dkg q)) k =
        ∑ k ∈ Finset.range (d + 1), C k * hv n (rowAt gen (nv dkg q)) k := by
      symm
      apply Finset.sum_subset
      · intro k hk
        have := Finset.mem_range.mp hk
        exact Finset.mem_range.mpr (by omega)
      · intro k hk hnk
        have h1 := Finset.mem_range.mp hk
        have h2 : ¬ k < d + 1 := fun h => hnk (Finset.mem_range.mpr h)
        exact hterm k h1 (Or.inr (by omega))
    rw [e1, ← Finset.sum_range_reflect]
    have e2a : ∑ j ∈ Finset.range (d + 1), C (d + 1 - 1 - j) * hv n (rowAt gen (nv dkg q)) (d + 1 - 1 - j) =
        ∑ j ∈ Finset.range (d - q + 1), C (d + 1 - 1 - j) * hv n (rowAt gen (nv dkg q)) (d + 1 - 1 - j) := by
      symm
      apply Finset.sum_subset
      · intro k hk
        have := Finset.mem_range.mp hk
        exact Finset.mem_range.mpr (by omega)
      · intro j hj hnj
        have h1 := Finset.mem_range.mp hj
        have h2 : ¬ j < d - q + 1 := fun h => hnj (Finset.mem_range.mpr h)
        have : d + 1 - 1 - j < q := by omega
        exact hterm _ (by omega) (Or.inl this)
    have e2b : ∑ j ∈ Finset.range (d - q + 1), C (d + 1 - 1 - j) * hv n (rowAt gen (nv dkg q)) (d + 1 - 1 - j) =
        ∑ j ∈ Finset.range (d - q + 1), r (d - q) j * lzV r P 0 j := by
      apply Finset.sum_congr rfl
      intro j hj
      have h1 := Finset.mem_range.mp hj
      have hjd : j ≤ d := by omega
      have e3 : d + 1 - 1 - j = d - j := by omega
      have e4 : d - (d - q) = q := by omega
      have e5 : d - (d - j) = j := by omega
      show (if d + 1 - 1 - j ≤ d then lzV r P 0 (d - (d + 1 - 1 - j)) else 0) * _ =
        (if j ≤ d then ((get (rowAt gen (nv dkg (d - (d - q)))).e (d - j) : Int) : ℚ) else 0) * _
      rw [e3, if_pos (by omega), e5, hv_apply, if_pos (by omega), if_pos hjd, e4]; ring
    rw [e2a, e2b]
    refine lzV_sum r P 0 (d - q) (by omega) ?_ ?_
    · have e4 : d - (d - q) = q := by omega
      show (nvB dkg (d - (d - q)) && decide (d - q ≤ d)) = true
      rw [e4, hqv]; simp
    · have e4 : d - (d - q) = q := by omega
      show (if d - q ≤ d then ((get (rowAt gen (nv dkg (d - (d - q)))).e (d - (d - q)) : Int) : ℚ) else 0) ≠ 0
      rw [if_pos (by omega), e4]
      exact_mod_cast (ne_of_gt hdiag)
  · subst hqd; rw [hvirt] at hqv; exact absurd hqv (by decide)
  · apply Finset.sum_eq_zero
    intro k hk
    have h1 := Finset.mem_range.mp hk
    by_cases h : k < q
    · exact hterm k h1 (Or.inl h)
    · exact hterm k h1 (Or.inr (by omega))

/-- the heart: the `GEN_VIRTUAL` dimensions of the generators are the `EQUALITY` dimensions of the congruences -/
theorem lz_virtual_kinds (n : Nat) (con : List CRow) (dkc : List Nat) (gen : List GRow) (dkg : List Nat) (D : Int)
    (hcwf : CWf n con) (hlt : lowerTriangular n con dkc = true) (hdkc : dkc.length = n + 1)
    (hk0c : kind dkc 0 = PROPER_CONGRUENCE) (hkm : CgKindsOK n con dkc)
    (hN : GNorm n D gen) (hut : upperTriangular n gen dkg = true)
    (hk0g : kind dkg 0 = PARAMETER) (hag : consSet n con = gensSet n gen) :
    ∀ d, d < n + 1 → (kind dkg d = GEN_VIRTUAL ↔ kind dkc d = GEN_VIRTUAL) := by
  intro d hd
  have hc := lowerTriangular_spec n con dkc hlt
  have hs := upperTriangular_spec n gen dkg hut
  obtain ⟨x0, hx0⟩ := lz_gensSet_nonempty hN
  have hx0c : x0 ∈ consSet n con := by rw [hag]; exact hx0
  rw [lz_gensSet_eq hN] at hx0
  have hx0h : Hom n gen (homog (D : ℚ) x0) := hx0
  by_cases hd0 : d = 0
  · subst hd0
    rw [hk0c, hk0g]
    constructor <;> intro h <;> exact absurd h (by decide)
  constructor
  · -- no generator pivot at `d`: a linear form separates
    intro hvirt
    by_contra hne
    have hvg : nvB dkg d = false := by
      cases h : nvB dkg d
      · rfl
      · exact absurd hvirt ((nvB_iff dkg d).mp h)
    have hvc : nvB dkc d = true := (nvB_iff dkc d).mpr hne
    -- the generators computed from the congruences
    obtain ⟨hw2, hN2, hut2, hag2⟩ := lz_conversionCgs_facts n con dkc hcwf hlt hdkc hk0c hkm
    have hs2 := upperTriangular_spec n _ dkc hut2
    have hilt : nv dkc d < (conversionCgsToGens n con dkc).length := by
      rw [hs2.len]; exact cntBelow_lt (nvB dkc) hd hvc
    have hdiag2 := hs2.diag d hd hvc
    have hzeros2 := hs2.zeros d hd hvc
    simp only [sEnt] at hdiag2 hzeros2
    let U : Pt := hv n (rowAt (conversionCgsToGens n con dkc) (nv dkc d))
    have hU0 : U 0 = 0 := by
      show hv n _ 0 = 0
      rw [hv_apply, if_pos (Nat.zero_le n), hzeros2 0 (by omega)]; simp
    -- the point `x0 + U'` is in the grid
    have hx0g2 : x0 ∈ gensSet n (conversionCgsToGens n con dkc) := by rw [← hag2]; exact hx0c
    rw [lz_gensSet_eq hN2] at hx0g2
    have hx1 : (fun i => x0 i + 1 * U (i + 1)) ∈ gensSet n gen := by
      rw [← hag, hag2, lz_gensSet_eq hN2]
      show Hom n _ _
      rw [lz_homog_line _ x0 U hU0 1, one_mul]
      exact hom_add hx0g2 (hom_int hilt _)
    rw [lz_gensSet_eq hN] at hx1
    have hx1h : Hom n gen (homog (D : ℚ) (fun i => x0 i + 1 * U (i + 1))) := hx1
    rw [lz_homog_line _ x0 U hU0 1, one_mul] at hx1h
    have hDU : Hom n gen ((D : ℚ) • U) := by
      have := hom_sub hx1h hx0h
      simpa using this
    -- the separating form
    obtain ⟨C, hCd, hCgt, hCz⟩ := lz_dual_form n gen dkg hut d hd hvg
    have h0 := lz_form_hom (lzForm n C) hCz hDU
    rw [map_smul, lzForm_apply, Finset.sum_eq_single d] at h0
    · have hUd : U d = ((get (rowAt (conversionCgsToGens n con dkc) (nv dkc d)).e d : Int) : ℚ) := by
        show hv n _ d = _
        rw [hv_apply, if_pos (by omega)]
      rw [hCd, hUd, one_mul, smul_eq_mul] at h0
      have hD : (D : ℚ) ≠ 0 := by exact_mod_cast (ne_of_gt hN.pos)
      have : ((get (rowAt (conversionCgsToGens n con dkc) (nv dkc d)).e d : Int) : ℚ) = 0 := by
        rcases mul_eq_zero.mp h0 with h | h
        · exact absurd h hD
        · exact h
      have : (get (rowAt (conversionCgsToGens n con dkc) (nv dkc d)).e d : Int) = 0 := by exact_mod_cast this
      omega
    · intro k _ hkd
      rcases Nat.lt_or_gt_of_ne hkd with h | h
      · have : U k = 0 := by
          show hv n _ k = 0
          rw [hv_apply]
          split
          · rw [hzeros2 k h]; simp
          · rfl
        rw [this]; ring
      · rw [hCgt k h]; ring
    · intro h; exact absurd (Finset.mem_range.mpr hd) h
  · -- an equality with pivot `d` is violated by a generator with pivot `d`
    intro heq
    by_contra hne
    have hvg : nvB dkg d = true := (nvB_iff dkg d).mpr hne
    have hnlc : nlB dkc d = true := by rw [nlB_iff, heq]; decide
    obtain ⟨M, hM, _⟩ := hkm
    have hm0 : (rowAt con (pos dkc (n + 1) d)).m = 0 := by
      rcases hM d hd with h | ⟨_, h⟩ | ⟨h, _⟩
      · rw [heq] at h; exact absurd h (by decide)
      · exact h
      · rw [heq] at h; exact absurd h (by decide)
    have hilt : nv dkg d < gen.length := by rw [hs.len]; exact cntBelow_lt (nvB dkg) hd hvg
    have hdiagg := hs.diag d hd hvg
    have hzerog := hs.zeros d hd hvg
    simp only [sEnt] at hdiagg hzerog
    let W : Pt := hv n (rowAt gen (nv dkg d))
    have hW0 : W 0 = 0 := by
      show hv n _ 0 = 0
      rw [hv_apply, if_pos (Nat.zero_le n), hzerog 0 (by omega)]; simp
    have hWlt : ∀ k, k < d → W k = 0 := by
      intro k hk'
      show hv n _ k = 0
      rw [hv_apply]
      split
      · rw [hzerog k hk']; simp
      · rfl
    have hWd : W d = ((get (rowAt gen (nv dkg d)).e d : Int) : ℚ) := by
      show hv n _ d = _
      rw [hv_apply, if_pos (by omega)]
    have hposlt : pos dkc (n + 1) d < con.length := by rw [hc.len]; exact pos_lt dkc (n + 1) d hd hnlc
    have hlen := (hcwf _ (rowAt_mem _ _ hposlt)).1
    have hx1 : (fun i => x0 i + 1 * W (i + 1)) ∈ consSet n con := by
      rw [hag, lz_gensSet_eq hN]
      show Hom n gen _
      rw [lz_homog_line _ x0 W hW0 1, one_mul]
      exact hom_add hx0h (hom_int hilt _)
    have hsep := lz_sep_eq (rowAt con (pos dkc (n + 1) d)) hm0 x0 W hW0
      (((cgsSem_iff n _ _).mp hx0c).2 _ hposlt) (((cgsSem_iff n _ _).mp hx1).2 _ hposlt)
    rw [lz_alpha_pivot _ W d n hlen hd (fun k h1 h2 => hc.zeros d hd hnlc k h1 h2) hWlt, hWd] at hsep
    have hdiag := hc.diag d hd hnlc
    simp only [cEnt] at hdiag
    have h1 : (get (rowAt con (pos dkc (n + 1) d)).e d : Int) * get (rowAt gen (nv dkg d)).e d = 0 := by
      exact_mod_cast hsep
    rcases Int.mul_eq_zero.mp h1 with h | h <;> omega

/-- **`DkCompatC`** -/
theorem dkCompatC : DkCompatC := by
  intro n con dk0 gen dkg D hn hcwf hf hgwf hN _ hut hk0g hag
  have hfin := simplifyCgs_triangular n con dk0 hcwf hf
  obtain ⟨hkm, hk0, hdk, hlt⟩ := final_cgKindsOK _ _ _ hfin
  have hpres := (simplifyCgs_preserves n con dk0 hcwf).1 hf
  have hcs : consSet n (simplifyCgs n con dk0).1 = consSet n con := by
    ext x; exact hpres x
  have key := lz_virtual_kinds n _ _ gen dkg D (cgc_final_cwf hfin) hlt hdk hk0 hkm hN hut hk0g (by rw [hcs]; exact hag)
  rw [← lz_upperTriangular_congr n gen dkg _ (fun d hd => key d hd)]
  exact hut

end PPLV.Lattice.GO
