import PPLV.Lattice.ProofsConvCGRowOps
import PPLV.Lattice.ProofsRedGenBase

/-!
# `multiply_grid` (generators, Grid_conversion.cc:107) on the homogeneous lattice `Hom`

Scaling every parameter-or-point row by the same non-zero integer `g` (and the line rows by arbitrary non-zero
integers) maps `Hom` to `g·Hom` (`cg_hom_scaled`); so `multiplyGridGen` maps `Hom` to `multiplier·Hom` when its row
is a parameter or point (`multiplyGridGen_hom_pc`), and keeps `Hom` when its row is a line (`multiplyGridGen_hom_line`).
-/
namespace PPLV.Lattice.Red
open PPLV.Lattice

/-- all the non-line rows are scaled by `g`, every line by some non-zero factor -/
theorem cg_hom_scaled (n : Nat) (T T' : List GRow) (hlen : T'.length = T.length) (g : Int) (hg : g ≠ 0)
    (h : ∀ i, i < T.length → ∃ gi : Int, gi ≠ 0 ∧ ((rowAt T i).line = false → gi = g) ∧
      GScaled (rowAt T i) (rowAt T' i) gi) (v : Pt) :
    Hom n T v ↔ Hom n T' ((g : ℚ) • v) := by
  have hgq : (g : ℚ) ≠ 0 := by exact_mod_cast hg
  constructor
  · refine hom_le_idx (g : ℚ) fun i hi => ?_
    obtain ⟨gi, hgi, h1, hsc⟩ := h i hi
    have hvv : hv n (rowAt T' i) = (gi : ℚ) • hv n (rowAt T i) :=
      hv_smul gi (fun k _ => by rw [hsc.get k]; ring)
    refine ⟨fun hl => ?_, fun hl c => ?_⟩
    · rw [← h1 hl, ← hvv]
      exact hom_pc (by omega) (by rw [hsc.line]; exact hl)
    · have hgiq : (gi : ℚ) ≠ 0 := by exact_mod_cast hgi
      have e : c • hv n (rowAt T i) = (c / gi) • hv n (rowAt T' i) := by
        rw [hvv, smul_smul, div_mul_cancel₀ c hgiq]
      rw [e]
      exact hom_line (by omega) (by rw [hsc.line]; exact hl) _
  · intro hv'
    have key : Hom n T (((g : ℚ))⁻¹ • ((g : ℚ) • v)) := by
      refine hom_le_idx (rows := T') (rows' := T) ((g : ℚ))⁻¹ (fun i hi => ?_) hv'
      obtain ⟨gi, hgi, h1, hsc⟩ := h i (by omega)
      have hvv : hv n (rowAt T' i) = (gi : ℚ) • hv n (rowAt T i) :=
        hv_smul gi (fun k _ => by rw [hsc.get k]; ring)
      refine ⟨fun hl => ?_, fun hl c => ?_⟩
      · have hl' : (rowAt T i).line = false := by rw [← hsc.line]; exact hl
        rw [hvv, h1 hl', smul_smul, inv_mul_cancel₀ hgq, one_smul]
        exact hom_pc (by omega) hl'
      · have hl' : (rowAt T i).line = true := by rw [← hsc.line]; exact hl
        rw [hvv, smul_smul]
        exact hom_line (by omega) hl' _
    rwa [smul_smul, inv_mul_cancel₀ hgq, one_smul] at key

/-- `multiply_grid` on a parameter-or-point row: the lattice is scaled by the multiplier -/
theorem multiplyGridGen_hom_pc (n : Nat) (mult : Int) (hm : mult ≠ 0) (dest : List GRow) (gi N : Nat)
    (hN : dest.length ≤ N) (hl : (rowAt dest gi).line = false) (v : Pt) :
    Hom n dest v ↔ Hom n (multiplyGridGen mult dest gi N) ((mult : ℚ) • v) := by
  unfold multiplyGridGen
  by_cases h1 : mult = 1
  · rw [if_pos h1, h1]; simp
  · have hnl : ¬ (rowAt dest gi).isLine = true := by simp [GRow.isLine, hl]
    simp only [h1, if_false, hnl, Bool.false_eq_true]
    refine cg_hom_scaled n dest _ (by simp) mult hm (fun i hi => ?_) v
    rw [rowAt_mapIdx dest _ i hi]
    by_cases hpi : (rowAt dest i).line = false
    · have : (rowAt dest i).isParameterOrPoint = true := by simp [GRow.isParameterOrPoint, hpi]
      rw [if_pos ⟨by omega, this⟩]
      exact ⟨mult, hm, fun _ => rfl, GScaled.mulAll _ _⟩
    · have : ¬ (rowAt dest i).isParameterOrPoint = true := by
        simp only [GRow.isParameterOrPoint]; simpa using hpi
      rw [if_neg (fun h => this h.2)]
      exact ⟨1, by decide, fun h => absurd h hpi, GScaled.refl _⟩

/-- `multiply_grid` on a line row: the lattice is unchanged -/
theorem multiplyGridGen_hom_line (n : Nat) (mult : Int) (hm : mult ≠ 0) (dest : List GRow) (gi N : Nat)
    (hl : (rowAt dest gi).line = true) (v : Pt) :
    Hom n dest v ↔ Hom n (multiplyGridGen mult dest gi N) v := by
  unfold multiplyGridGen
  by_cases h1 : mult = 1
  · rw [if_pos h1]
  · have hil : (rowAt dest gi).isLine = true := by simp [GRow.isLine, hl]
    simp only [h1, if_false, hil, if_true]
    have := cg_hom_scaled n dest (dest.set gi { rowAt dest gi with e := mulAll (rowAt dest gi).e mult }) (by simp) 1
      (by decide) (fun i hi => ?_) v
    · simpa using this
    · rw [rowAt_set]
      by_cases hir : i = gi
      · subst hir
        rw [if_pos ⟨rfl, hi⟩]
        exact ⟨mult, hm, fun h => by rw [hl] at h; exact absurd h (by simp), GScaled.mulAll _ _⟩
      · rw [if_neg (fun h => hir h.1)]
        exact ⟨1, by decide, fun _ => rfl, GScaled.refl _⟩

/-- in both cases the lattice is scaled by a positive integer (`HomSim`) when the multiplier is positive -/
theorem multiplyGridGen_homSim (n : Nat) (mult : Int) (hm : 0 < mult) (dest : List GRow) (gi N : Nat)
    (hN : dest.length ≤ N) : HomSim n dest (multiplyGridGen mult dest gi N) := by
  cases hl : (rowAt dest gi).line
  · exact ⟨mult, hm, multiplyGridGen_hom_pc n mult (by omega) dest gi N hN hl⟩
  · exact HomSim.of_iff (multiplyGridGen_hom_line n mult (by omega) dest gi N hl)

/-- the hypotheses are satisfiable: point `(1;0)`, parameter `(0;3)`, line-free; scaled by 2 -/
example :
    let dest : List GRow := [{ line := false, e := [1, 0, 0] }, { line := false, e := [0, 3, 0] }]
    dest.length ≤ 2 ∧ (rowAt dest 1).line = false ∧
      multiplyGridGen 2 dest 1 2 = [{ line := false, e := [2, 0, 0] }, { line := false, e := [0, 6, 0] }] := by
  decide

end PPLV.Lattice.Red
