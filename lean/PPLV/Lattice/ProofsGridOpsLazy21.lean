import PPLV.Lattice.ProofsGridOpsLazy20
import PPLV.Lattice.ProofsGridOpsGen16

/-!
# Adding dimensions — part 21: the generator side of `add_space_dimensions_and_project` (Grid_chdims.cc:148):
# `set_space_dimension`, `normalize_divisors`, the triangular form with the new dimensions `GEN_VIRTUAL`
-/
namespace PPLV.Lattice.GO
open PPLV.Lattice PPLV.Lattice.Red

/-- `normalize_divisors(sys)` on a system whose divisors are normalised already: every parameter/point is scaled to a
    positive multiple `c·D` of the common divisor -/
theorem lz_normDiv_rows {k : Nat} {D : Int} {rows : List GRow} (hk : 0 < k) (hw : GWf k rows) (hN : GNorm k D rows) :
    ∃ c : Int, 0 < c ∧ (normalizeDivisors1 ⟨k, rows⟩).rows = rows.map (·.scaleToDivisor (c * D)) := by
  have hwf := gn_wf_of_gnorm hN hw
  have hnl : rows.all (·.isLine) = false := by
    obtain ⟨r, hr, hl, _⟩ := hN.pt
    rw [List.all_eq_false]
    exact ⟨r, hr, by simp [GRow.isLine, hl]⟩
  have hpos : ∀ r ∈ rows.dropWhile (·.isLine), r.line = false → 0 < r.divisor :=
    fun r hr hl => (hwf.shape r (List.dropWhile_subset _ hr)).2 hl
  obtain ⟨h1, _, h3⟩ := lcmFold_spec (rows.dropWhile (·.isLine)) hpos 1 (by decide)
  obtain ⟨p, hp, hpl, hp0⟩ := hN.pt
  have hdivp : p.divisor = D := by rw [divisor_point p (by rw [hp0]; exact ne_of_gt hN.pos), hp0]
  have hDX := h3 p (mem_dropWhile_of_not _ rows p hp (by simpa [GRow.isLine] using hpl)) hpl
  rw [hdivp] at hDX
  obtain ⟨c, hc⟩ := hDX
  have hcpos : 0 < c := by
    by_contra h
    have : c ≤ 0 := by omega
    have := Int.mul_nonpos_of_nonneg_of_nonpos (le_of_lt hN.pos) this
    rw [hc] at h1; omega
  refine ⟨c, hcpos, ?_⟩
  have e : normalizeDivisors k rows 1 =
      (rows.map (·.scaleToDivisor
        ((rows.dropWhile (·.isLine)).foldl (fun d g => if g.isParameterOrPoint then lcmI d g.divisor else d) 1)),
       (rows.dropWhile (·.isLine)).foldl (fun d g => if g.isParameterOrPoint then lcmI d g.divisor else d) 1) := by
    unfold normalizeDivisors
    rw [if_pos ⟨hk, by decide⟩, hnl]
    rfl
  show (normalizeDivisors k rows 1).1 = _
  rw [e]
  show rows.map _ = _
  rw [hc, mul_comm]

/-- the entries of a scaled row -/
theorem lz_scale_get {k : Nat} {D : Int} {rows : List GRow} (hN : GNorm k D rows) (hw : GWf k rows) (c : Int)
    (hc : 0 < c) {r : GRow} (hr : r ∈ rows) :
    (r.scaleToDivisor (c * D)).line = r.line ∧
    ∃ c' : Int, 0 < c' ∧ ∀ j, j ≤ k → get (r.scaleToDivisor (c * D)).e j = c' * get r.e j := by
  cases hl : r.line
  · have hwf := gn_wf_of_gnorm hN hw
    have hdiv : r.divisor = D := by
      rcases hN.col0 r hr hl with h0 | h0
      · rw [divisor_param k r (hw r hr) h0, hN.par r hr hl h0]
      · have : get r.e 0 ≠ 0 := by rw [h0]; exact ne_of_gt hN.pos
        rw [divisor_point r this, h0]
    obtain ⟨s1, _⟩ := scaleToDivisor_spec k r (c * D) (hw r hr) hl ((hwf.shape r hr).2 hl)
      (by rw [hdiv]; exact Dvd.intro_left c rfl) (Int.mul_pos hc hN.pos)
    refine ⟨s1, c, hc, fun j hj => ?_⟩
    have := congrFun (gn_hv_scale hN hw c hc hr hl) j
    simp only [Pi.smul_apply, smul_eq_mul, hv_apply, if_pos hj] at this
    exact_mod_cast this
  · have : r.scaleToDivisor (c * D) = r := by simp [GRow.scaleToDivisor, GRow.isLine, hl]
    rw [this]
    exact ⟨hl, 1, by decide, fun j _ => by ring⟩

/-- the rows of the projection -/
def lz_projRows (n m : Nat) (rows : List GRow) : List GRow :=
  (normalizeDivisors1 ⟨n + m, rows.map (·.setSpaceDim (n + m))⟩).rows

/-- every row of the projection is a positive multiple (columns `0..n+m`) of the padded row of the same index -/
theorem lz_projRows_spec {n : Nat} {D : Int} {rows : List GRow} (m : Nat) (hn : 0 < n) (hm : 0 < m) (hw : GWf n rows)
    (hN : GNorm n D rows) :
    (lz_projRows n m rows).length = rows.length ∧
    ∀ i, i < rows.length → (rowAt (lz_projRows n m rows) i).line = (rowAt rows i).line ∧
      ∃ c' : Int, 0 < c' ∧ ∀ j, j ≤ n + m →
        get (rowAt (lz_projRows n m rows) i).e j = c' * (if j ≤ n then get (rowAt rows i).e j else 0) := by
  obtain ⟨a, b, _⟩ := lz_resize_facts (n + m) (by omega) hw hN
  obtain ⟨c, hc, hrows⟩ := lz_normDiv_rows (by omega) a b
  unfold lz_projRows
  rw [hrows]
  refine ⟨by simp, fun i hi => ?_⟩
  have hi' : i < (rows.map (·.setSpaceDim (n + m))).length := by simpa using hi
  rw [gc_rowAt_map _ _ _ hi', gc_rowAt_map _ _ _ hi]
  have hmem : (rowAt rows i).setSpaceDim (n + m) ∈ rows.map (·.setSpaceDim (n + m)) :=
    List.mem_map_of_mem (rowAt_mem rows i hi)
  obtain ⟨s1, c', hc', hg⟩ := lz_scale_get b a c hc hmem
  refine ⟨by rw [s1, gn_line_setSpaceDim], c', hc', fun j hj => ?_⟩
  rw [hg j hj, gn_get_setSpaceDim_pad (hw _ (rowAt_mem rows i hi)) (by omega)]
  by_cases h : j ≤ n
  · rw [if_pos h, if_pos h]
  · rw [if_neg h, if_neg h, if_neg (by omega)]

theorem lz_nv_virtual (n m : Nat) (dk : List Nat) (hdk : dk.length = n + 1) (i : Nat) (hi : i ≤ m) :
    nv (resizeKindsWith dk (n + m + 1) GEN_VIRTUAL) (n + 1 + i) = nv dk (n + 1) := by
  induction i with
  | zero => exact lz_nv_old n m dk hdk GEN_VIRTUAL (n + 1) (le_refl _)
  | succ i ih =>
    have hb : nvB (resizeKindsWith dk (n + m + 1) GEN_VIRTUAL) (n + 1 + i) = false := by
      unfold nvB; rw [lz_kind_new n m dk hdk GEN_VIRTUAL _ (by omega) (by omega)]; decide
    have := ih (by omega)
    simp only [nv] at this ⊢
    show cntBelow _ (n + 1 + i + 1) = _
    rw [show cntBelow (nvB (resizeKindsWith dk (n + m + 1) GEN_VIRTUAL)) (n + 1 + i + 1) =
      cntBelow (nvB (resizeKindsWith dk (n + m + 1) GEN_VIRTUAL)) (n + 1 + i) +
        (if nvB (resizeKindsWith dk (n + m + 1) GEN_VIRTUAL) (n + 1 + i) then 1 else 0) from rfl, hb, this]
    simp

/-- **the triangular form after the projection**: the new dimensions are `GEN_VIRTUAL` dimensions -/
theorem lz_upperTriangular_project {n : Nat} {D : Int} {rows : List GRow} (m : Nat) (dk : List Nat) (hn : 0 < n)
    (hm : 0 < m) (hw : GWf n rows) (hN : GNorm n D rows) (hdk : dk.length = n + 1)
    (h : upperTriangular n rows dk = true) :
    upperTriangular (n + m) (lz_projRows n m rows) (resizeKindsWith dk (n + m + 1) GEN_VIRTUAL) = true := by
  have hs := upperTriangular_spec n rows dk h
  obtain ⟨hlen, hrow⟩ := lz_projRows_spec m hn hm hw hN
  refine cg_upperTriangular_of_rows (n + m) _ _ ?_ (fun q hq hqv => ?_)
  · have h2 : nv (resizeKindsWith dk (n + m + 1) GEN_VIRTUAL) (n + m + 1) = nv dk (n + 1) := by
      have := lz_nv_virtual n m dk hdk m (le_refl m)
      rwa [show n + 1 + m = n + m + 1 by omega] at this
    rw [h2, hlen, hs.len]
  · have hqo : q < n + 1 := by
      by_contra hc
      unfold nvB at hqv
      rw [lz_kind_new n m dk hdk GEN_VIRTUAL q (by omega) hq] at hqv
      exact absurd hqv (by decide)
    have hqv' : nvB dk q = true := by
      unfold nvB at hqv ⊢; rwa [lz_kind_old n m dk hdk GEN_VIRTUAL q hqo] at hqv
    rw [lz_nv_old n m dk hdk GEN_VIRTUAL q (by omega)]
    have hidx : nv dk q < rows.length := by rw [hs.len]; exact cntBelow_lt (nvB dk) hqo hqv'
    obtain ⟨_, c', hc', hg⟩ := hrow _ hidx
    have hd := hs.diag q hqo hqv'
    have hz := hs.zeros q hqo hqv'
    simp only [sEnt] at hd hz
    refine ⟨?_, fun k hk => ?_⟩
    · rw [hg q (by omega), if_pos (by omega)]; exact Int.mul_pos hc' hd
    · rw [hg k (by omega), if_pos (by omega), hz k hk]; ring

/-- the agreement of kinds and line flags after the projection -/
theorem lz_convG_project {n : Nat} {D : Int} {rows : List GRow} (m : Nat) (dk : List Nat) (hn : 0 < n) (hm : 0 < m)
    (hw : GWf n rows) (hN : GNorm n D rows) (hdk : dk.length = n + 1) (hcv : ConvG n rows dk) :
    ConvG (n + m) (lz_projRows n m rows) (resizeKindsWith dk (n + m + 1) GEN_VIRTUAL) := by
  obtain ⟨hk, hla, hpa⟩ := hcv
  obtain ⟨hlen, hrow⟩ := lz_projRows_spec m hn hm hw hN
  have hkind : ∀ d, d < n + m + 1 →
      kind (resizeKindsWith dk (n + m + 1) GEN_VIRTUAL) d = if d < n + 1 then kind dk d else GEN_VIRTUAL := by
    intro d hd
    split
    · rename_i h; exact lz_kind_old n m dk hdk GEN_VIRTUAL d h
    · exact lz_kind_new n m dk hdk GEN_VIRTUAL d (by omega) hd
  -- a row of the projection with its first non-zero column `d`: the original row has the same, `d ≤ n`
  have hold : ∀ g ∈ lz_projRows n m rows, ∀ d, d < n + m + 1 → (∀ k, k < d → get g.e k = 0) → get g.e d ≠ 0 →
      ∃ r ∈ rows, r.line = g.line ∧ d < n + 1 ∧ (∀ k, k < d → get r.e k = 0) ∧ get r.e d ≠ 0 := by
    intro g hg d hd hz hnz
    obtain ⟨i, hi, rfl⟩ := (gc_mem_iff_rowAt _ _).mp hg
    rw [hlen] at hi
    obtain ⟨hl, c', hc', hget⟩ := hrow i hi
    have hd' : d < n + 1 := by
      by_contra hc
      rw [hget d (by omega), if_neg (by omega)] at hnz
      exact hnz (by ring)
    refine ⟨rowAt rows i, rowAt_mem rows i hi, hl.symm, hd', fun k hk' => ?_, ?_⟩
    · have := hz k hk'
      rw [hget k (by omega), if_pos (by omega)] at this
      rcases Int.mul_eq_zero.mp this with h | h
      · omega
      · exact h
    · intro h0
      rw [hget d (by omega), if_pos (by omega), h0] at hnz
      exact hnz (by ring)
  refine ⟨fun d hd => ?_, fun g hg hl d hd hz hnz => ?_, fun g hg hl d hd hz hnz => ?_⟩
  · rw [hkind d hd]; split
    · rename_i h; exact hk d h
    · decide
  · obtain ⟨r, hr, h0, h1, h2, h3⟩ := hold g hg d hd hz hnz
    rw [hkind d hd, if_pos h1]
    exact hla r hr (by rw [h0]; exact hl) d h1 h2 h3
  · obtain ⟨r, hr, h0, h1, h2, h3⟩ := hold g hg d hd hz hnz
    rw [hkind d hd, if_pos h1]
    exact hpa r hr (by rw [h0]; exact hl) d h1 h2 h3

end PPLV.Lattice.GO
