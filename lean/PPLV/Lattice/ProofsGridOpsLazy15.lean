import PPLV.Lattice.ProofsGridOpsLazy14
import PPLV.Lattice.ProofsGridOpsGen3

/-!
# The affine transformers — part 15: `Grid::affine_image(var, expr, denominator)` (Grid_public.cc:1932)

`thrown ↔ den = 0 ∨ dimension mismatch`; a marked-empty object is unchanged; otherwise the invariant holds and the grid is
the image under `lzF v e den : x ↦ x[v := (⟨e,x⟩ + e₀)/den]`.
-/
namespace PPLV.Lattice.GO
open PPLV.Lattice PPLV.Lattice.Red

/-! ### the generator step: `affine_image` then `normalize_divisors` -/

theorem lz_genStep (n v : Nat) (e : LinExpr) (den : Int) (rows : List GRow) (D : Int) (hden : den ≠ 0)
    (hvn : v < n) (he : e.spaceDim ≤ n) (hw : GWf n rows) (hN : GNorm n D rows) :
    (normalizeDivisors1 (genAffineImagePos ⟨n, rows⟩ v e den)).dim = n ∧
    GWf n (normalizeDivisors1 (genAffineImagePos ⟨n, rows⟩ v e den)).rows ∧
    GNorm n (firstPointDiv (normalizeDivisors1 (genAffineImagePos ⟨n, rows⟩ v e den)).rows)
      (normalizeDivisors1 (genAffineImagePos ⟨n, rows⟩ v e den)).rows ∧
    gensSet n (normalizeDivisors1 (genAffineImagePos ⟨n, rows⟩ v e den)).rows = lzF v e den '' gensSet n rows := by
  obtain ⟨a, b, ⟨D', c⟩, d⟩ := lz_genAffineImagePos n v e den rows D hden hvn he hw hN
  generalize genAffineImagePos ⟨n, rows⟩ v e den = s at a b c d
  subst a
  obtain ⟨p, q, r, t⟩ := gn_normalizeDivisors1 (gn_wf_of_gnorm c b) (by omega)
  refine ⟨p, q, r, ?_⟩
  rw [gn_bridge r q, t, ← gn_bridge c b, d]

/-! ### the congruence step: the preimage under the inverse map is the image -/

theorem lz_preSet_inverse (n v : Nat) (e : LinExpr) (den : Int) (hden : den ≠ 0) (hvn : v < n) (hv1 : v + 1 ≤ e.spaceDim)
    (hev : e.coeff v ≠ 0) (S : Set Pt) (hS : ∀ x ∈ S, Supp n x) :
    cn_preSet n v (inverseOf e v den).1 (inverseOf e v den).2 S = lzF v e den '' S := by
  ext x
  simp only [Set.mem_image, cn_preSet, Set.mem_ofPred_eq]
  constructor
  · rintro ⟨_, hx⟩
    exact ⟨_, hx, lzF_inverse_left e v den hden hv1 hev x⟩
  · rintro ⟨y, hy, rfl⟩
    refine ⟨cn_upd_supp n v y _ hvn (hS y hy), ?_⟩
    have h2 : cn_upd (lzF v e den y) v
        (evalRow (inverseOf e v den).1 (lzF v e den y) / ((inverseOf e v den).2 : ℚ)) = y :=
      lzF_inverse_right e v den hden hv1 hev y
    rw [h2]; exact hy

theorem lz_conStep (n v : Nat) (e : LinExpr) (den : Int) (con : List CRow) (hden : den ≠ 0) (hvn : v < n)
    (he : e.spaceDim ≤ n) (hv1 : v + 1 ≤ e.spaceDim) (hev : e.coeff v ≠ 0) (hw : CWf n con) :
    CWf n (CSys.affinePreimage ⟨n, con⟩ v (inverseOf e v den).1 (inverseOf e v den).2).rows ∧
    consSet n (CSys.affinePreimage ⟨n, con⟩ v (inverseOf e v den).1 (inverseOf e v den).2).rows =
      lzF v e den '' consSet n con := by
  obtain ⟨hp, hsd, _⟩ := lz_inverseOf_eval e v den hv1 hev 0
  refine ⟨cn_CSys_affinePreimage_CWf ⟨n, con⟩ v _ _ hp hw, ?_⟩
  rw [cn_CSys_affinePreimage_consSet ⟨n, con⟩ v _ _ (by omega) hvn (by rw [hsd]; exact he) hw]
  exact lz_preSet_inverse n v e den hden hvn hv1 hev _ (fun x hx => ((cn_mem_consSet n con x).mp hx).1)

/-! ### the non-invertible path -/

/-- the receiver of the non-invertible path once the generators are up to date -/
def lz_aiBody (g1 : Grid) (v : Nat) (e : LinExpr) (den : Int) : Grid :=
  (((g1.withGs (genAffineImagePos g1.gs v e den)).clearCongruencesUpToDate).clearGeneratorsMinimized).withGs
    (normalizeDivisors1 (((g1.withGs (genAffineImagePos g1.gs v e den)).clearCongruencesUpToDate).clearGeneratorsMinimized).gs)

theorem lz_aiBody_spec (g1 : Grid) (v : Nat) (e : LinExpr) (den : Int) (hI : GridInv g1) (hne : g1.st.empty = false)
    (hg : g1.st.gUp = true) (hden : den ≠ 0) (hed : e.spaceDim ≤ g1.spaceDim) (hv : v + 1 ≤ g1.spaceDim) :
    GridInv (lz_aiBody g1 v e den) ∧ (lz_aiBody g1 v e den).sem = lzF v e den '' g1.sem ∧
      (lz_aiBody g1 v e den).spaceDim = g1.spaceDim := by
  have hpos : 0 < g1.spaceDim := by omega
  obtain ⟨hgd, hgw, hgn⟩ := hI.gwf hne hpos hg
  have hgs : g1.gs = ⟨g1.spaceDim, g1.gen⟩ := by show GSys.mk g1.genDim g1.gen = _; rw [hgd]
  obtain ⟨a, b, c, d⟩ := lz_genStep g1.spaceDim v e den g1.gen _ hden (by omega) hed hgw hgn
  rw [← hgs] at a b c d
  have hI' := cn_inv_of_noMin (lz_aiBody g1 v e den)
    hpos hne rfl rfl (hI.hi0 hne) (Or.inr hg) (fun h => by cases h) (fun _ => ⟨a, b, c⟩) (fun h => by cases h)
  refine ⟨hI', ?_, rfl⟩
  rw [cn_sem_of_gUp (lz_aiBody g1 v e den) hne hpos hg, cn_sem_of_gUp g1 hne hpos hg]
  exact d

/-! ### the invertible path -/

def lz_aiGen (g : Grid) (v : Nat) (e : LinExpr) (den : Int) : Grid :=
  (g.withGs (normalizeDivisors1 (genAffineImagePos g.gs v e den))).clearGeneratorsMinimized
def lz_aiCon (g : Grid) (v : Nat) (e : LinExpr) (den : Int) : Grid :=
  (g.withCs (g.cs.affinePreimage v (inverseOf e v den).1 (inverseOf e v den).2)).clearCongruencesMinimized

def lz_aiGenIf (g : Grid) (v : Nat) (e : LinExpr) (den : Int) : Grid :=
  if g.generatorsAreUpToDate then lz_aiGen g v e den else g
def lz_aiConIf (g1 : Grid) (v : Nat) (e : LinExpr) (den : Int) : Grid :=
  if g1.congruencesAreUpToDate then lz_aiCon g1 v e den else g1

theorem lz_aiGen_cUp (g : Grid) (v : Nat) (e : LinExpr) (den : Int) : (lz_aiGen g v e den).st.cUp = g.st.cUp := rfl

theorem lz_aiInv_eq (g : Grid) (v : Nat) (e : LinExpr) (den : Int) :
    lz_aiConIf (lz_aiGenIf g v e den) v e den =
      if g.st.gUp = true then (if g.st.cUp = true then lz_aiCon (lz_aiGen g v e den) v e den else lz_aiGen g v e den)
      else (if g.st.cUp = true then lz_aiCon g v e den else g) := by
  by_cases hg : g.st.gUp = true <;> by_cases hc : g.st.cUp = true <;>
    simp [lz_aiConIf, lz_aiGenIf, Grid.generatorsAreUpToDate, Grid.congruencesAreUpToDate, hg, hc, lz_aiGen_cUp]

theorem lz_affineImage_inv_eq (g : Grid) (v : Nat) (e : LinExpr) (den : Int) (hden : den ≠ 0)
    (hdim : ¬ (g.spaceDim < e.spaceDim ∨ g.spaceDim < v + 1)) (hne : g.st.empty = false)
    (hinv : v + 1 ≤ e.spaceDim ∧ e.coeff v ≠ 0) :
    affineImage g v e den = { g :=
      if g.st.gUp = true then (if g.st.cUp = true then lz_aiCon (lz_aiGen g v e den) v e den else lz_aiGen g v e den)
      else (if g.st.cUp = true then lz_aiCon g v e den else g) } := by
  have : affineImage g v e den = { g := lz_aiConIf (lz_aiGenIf g v e den) v e den } := by
    unfold affineImage
    rw [if_neg hden, if_neg hdim, if_neg (show ¬ (g.markedEmpty = true) by simpa [Grid.markedEmpty] using hne), if_pos hinv]
    rfl
  rw [this, lz_aiInv_eq]

theorem lz_affineImage_noninv_eq (g : Grid) (v : Nat) (e : LinExpr) (den : Int) (hden : den ≠ 0)
    (hdim : ¬ (g.spaceDim < e.spaceDim ∨ g.spaceDim < v + 1)) (hne : g.st.empty = false)
    (hinv : ¬ (v + 1 ≤ e.spaceDim ∧ e.coeff v ≠ 0)) :
    affineImage g v e den =
      if (!(if (!g.generatorsAreUpToDate) = true then (minimize g).1 else g).markedEmpty) = true then
        { g := lz_aiBody (if (!g.generatorsAreUpToDate) = true then (minimize g).1 else g) v e den }
      else { g := (if (!g.generatorsAreUpToDate) = true then (minimize g).1 else g) } := by
  unfold affineImage
  rw [if_neg hden, if_neg hdim, if_neg (show ¬ (g.markedEmpty = true) by simpa [Grid.markedEmpty] using hne),
    if_neg hinv]
  rfl

/-- **`affine_image(var, expr, denominator)`** on a grid that is not marked empty -/
theorem affineImage_full (g : Grid) (v : Nat) (e : LinExpr) (den : Int) (hI : GridInv g) (hne : g.st.empty = false)
    (hden : den ≠ 0) (hed : e.spaceDim ≤ g.spaceDim) (hv : v + 1 ≤ g.spaceDim) :
    (affineImage g v e den).thrown = false ∧ GridInv (affineImage g v e den).g ∧
      (affineImage g v e den).g.sem = lzF v e den '' g.sem ∧
      (affineImage g v e den).g.spaceDim = g.spaceDim := by
  have hpos : 0 < g.spaceDim := by omega
  have hdim : ¬ (g.spaceDim < e.spaceDim ∨ g.spaceDim < v + 1) := by omega
  by_cases hinv : v + 1 ≤ e.spaceDim ∧ e.coeff v ≠ 0
  · rw [lz_affineImage_inv_eq g v e den hden hdim hne hinv]
    refine ⟨rfl, ?_⟩
    -- the two steps
    have hG : g.st.gUp = true →
        (normalizeDivisors1 (genAffineImagePos g.gs v e den)).dim = g.spaceDim ∧
        GWf g.spaceDim (normalizeDivisors1 (genAffineImagePos g.gs v e den)).rows ∧
        GNorm g.spaceDim (firstPointDiv (normalizeDivisors1 (genAffineImagePos g.gs v e den)).rows)
          (normalizeDivisors1 (genAffineImagePos g.gs v e den)).rows ∧
        gensSet g.spaceDim (normalizeDivisors1 (genAffineImagePos g.gs v e den)).rows =
          lzF v e den '' gensSet g.spaceDim g.gen := by
      intro hg
      obtain ⟨hgd, hgw, hgn⟩ := hI.gwf hne hpos hg
      have hgs : g.gs = ⟨g.spaceDim, g.gen⟩ := by show GSys.mk g.genDim g.gen = _; rw [hgd]
      rw [hgs]
      exact lz_genStep g.spaceDim v e den g.gen _ hden (by omega) hed hgw hgn
    have hC : g.st.cUp = true →
        CWf g.spaceDim (g.cs.affinePreimage v (inverseOf e v den).1 (inverseOf e v den).2).rows ∧
        consSet g.spaceDim (g.cs.affinePreimage v (inverseOf e v den).1 (inverseOf e v den).2).rows =
          lzF v e den '' consSet g.spaceDim g.con := by
      intro hc
      obtain ⟨hcd, hcw⟩ := hI.cwf hne hpos hc
      have hcs : g.cs = ⟨g.spaceDim, g.con⟩ := by show CSys.mk g.conDim g.con = _; rw [hcd]
      rw [hcs]
      exact lz_conStep g.spaceDim v e den g.con hden (by omega) hed hinv.1 hinv.2 hcw
    have hcd : g.st.cUp = true → g.conDim = g.spaceDim := fun hc => (hI.cwf hne hpos hc).1
    by_cases hg : g.st.gUp = true <;> by_cases hc : g.st.cUp = true
    · rw [if_pos hg, if_pos hc]
      obtain ⟨g1, g2, g3, g4⟩ := hG hg
      obtain ⟨c2, c3⟩ := hC hc
      have hag : consSet g.spaceDim (g.cs.affinePreimage v (inverseOf e v den).1 (inverseOf e v den).2).rows =
          gensSet g.spaceDim (normalizeDivisors1 (genAffineImagePos g.gs v e den)).rows := by
        rw [c3, g4, hI.agree hne hpos hc hg]
      refine ⟨cn_inv_of_noMin (lz_aiCon (lz_aiGen g v e den) v e den) hpos hne rfl rfl (hI.hi0 hne) (Or.inl hc)
        (fun _ => ⟨hcd hc, c2⟩) (fun _ => ⟨g1, g2, g3⟩) (fun _ _ => hag), ?_, rfl⟩
      rw [cn_sem_of_gUp (lz_aiCon (lz_aiGen g v e den) v e den) hne hpos hg, cn_sem_of_gUp g hne hpos hg]
      exact g4
    · rw [if_pos hg, if_neg hc]
      obtain ⟨g1, g2, g3, g4⟩ := hG hg
      have hcm : g.st.cMin = false := by
        by_contra h; exact hc (hI.cminUp (by simpa using h))
      refine ⟨cn_inv_of_noMin (lz_aiGen g v e den) hpos hne hcm rfl (hI.hi0 hne) (Or.inr hg) (fun h => absurd h hc)
        (fun _ => ⟨g1, g2, g3⟩) (fun h => absurd h hc), ?_, rfl⟩
      rw [cn_sem_of_gUp (lz_aiGen g v e den) hne hpos hg, cn_sem_of_gUp g hne hpos hg]
      exact g4
    · rw [if_neg hg, if_pos hc]
      obtain ⟨c2, c3⟩ := hC hc
      have hgf : g.st.gUp = false := by simpa using hg
      have hgm : g.st.gMin = false := by
        by_contra h; exact hg (hI.gminUp (by simpa using h))
      have := cn_inv_of_conOnly (lz_aiCon g v e den) hpos hne hc hgf rfl hgm (hI.hi0 hne) (hcd hc) c2
      refine ⟨this.1, ?_, rfl⟩
      rw [this.2, cn_sem_of_cUp g hI hne hpos hc]
      exact c3
    · exact absurd (hI.some hne hpos) (by simp [hc, hg])
  · -- the non-invertible path
    have hunf := lz_affineImage_noninv_eq g v e den hden hdim hne hinv
    rw [hunf]
    by_cases hg : g.st.gUp = true
    · have : (if (!g.generatorsAreUpToDate) = true then (minimize g).1 else g) = g := by
        simp [Grid.generatorsAreUpToDate, hg]
      rw [this, if_pos (show (!g.markedEmpty) = true by simpa [Grid.markedEmpty] using hne)]
      exact ⟨rfl, lz_aiBody_spec g v e den hI hne hg hden hed hv⟩
    · have : (if (!g.generatorsAreUpToDate) = true then (minimize g).1 else g) = (minimize g).1 := by
        simp [Grid.generatorsAreUpToDate, hg]
      rw [this]
      obtain ⟨m1, m2, m3, m4, m5, m6⟩ := minimize_spec g hI
      by_cases hb : (minimize g).2 = true
      · obtain ⟨n1, n2, _⟩ := m6 hb hpos
        rw [if_pos (show (!(minimize g).1.markedEmpty) = true by simpa [Grid.markedEmpty] using n1)]
        obtain ⟨b1, b2, b3⟩ := lz_aiBody_spec (minimize g).1 v e den m1 n1 (m1.gminUp n2) hden (by omega) (by omega)
        exact ⟨rfl, b1, by rw [b2, m2], b3.trans m3⟩
      · have hemp := m5 (by simpa using hb)
        rw [if_neg (show ¬ ((!(minimize g).1.markedEmpty) = true) by simp [Grid.markedEmpty, hemp])]
        refine ⟨rfl, m1, ?_, m3⟩
        have hge : g.sem = ∅ := by
          by_contra hne'
          exact hb (m4.mpr (Set.nonempty_iff_ne_empty.mpr hne'))
        rw [m2, hge, Set.image_empty]

theorem lz_R_ite (c : Prop) [Decidable c] (a b : Grid) :
    (if c then ({ g := a } : R) else { g := b }).thrown = false := by split <;> rfl

/-- throws exactly on a zero denominator or a dimension mismatch; a thrown or marked-empty object is unchanged -/
theorem affineImage_thrown (g : Grid) (v : Nat) (e : LinExpr) (den : Int) :
    ((affineImage g v e den).thrown = true ↔ (den = 0 ∨ g.spaceDim < e.spaceDim ∨ g.spaceDim < v + 1)) ∧
    ((affineImage g v e den).thrown = true → (affineImage g v e den).g = g) ∧
    (g.st.empty = true → (affineImage g v e den).g = g) := by
  by_cases hd : den = 0
  · have : affineImage g v e den = { g := g, thrown := true } := by unfold affineImage; rw [if_pos hd]
    rw [this]; exact ⟨⟨fun _ => Or.inl hd, fun _ => rfl⟩, fun _ => rfl, fun _ => rfl⟩
  by_cases hdim : g.spaceDim < e.spaceDim ∨ g.spaceDim < v + 1
  · have : affineImage g v e den = { g := g, thrown := true } := by unfold affineImage; rw [if_neg hd, if_pos hdim]
    rw [this]; exact ⟨⟨fun _ => Or.inr hdim, fun _ => rfl⟩, fun _ => rfl, fun _ => rfl⟩
  have hno : ¬ (den = 0 ∨ g.spaceDim < e.spaceDim ∨ g.spaceDim < v + 1) := fun h => h.elim hd hdim
  by_cases hemp : g.st.empty = true
  · have : affineImage g v e den = { g := g } := by
      unfold affineImage; rw [if_neg hd, if_neg hdim, if_pos (show g.markedEmpty = true from hemp)]
    rw [this]; exact ⟨⟨(fun h => by cases h), fun h => absurd h hno⟩, fun _ => rfl, fun _ => rfl⟩
  have hne : g.st.empty = false := by simpa using hemp
  have hnt : (affineImage g v e den).thrown = false := by
    by_cases hinv : v + 1 ≤ e.spaceDim ∧ e.coeff v ≠ 0
    · rw [lz_affineImage_inv_eq g v e den hd hdim hne hinv]
    · rw [lz_affineImage_noninv_eq g v e den hd hdim hne hinv]
      exact lz_R_ite _ _ _
  exact ⟨⟨(fun h => by rw [hnt] at h; cases h), fun h => absurd h hno⟩, (fun h => by rw [hnt] at h; cases h),
    fun h => absurd h hemp⟩

/-- `x ≡ 1 (mod 2)` (point 1, parameter 2; congruences up to date as well) under `x := 3x + 1` and under `x := 5` -/
example :
    let g : Grid := Grid.mk 1 { cUp := true, gUp := true } 1 [⟨[-1, 1], 2⟩] 1 [⟨false, [1, 1, 0]⟩, ⟨false, [0, 2, 1]⟩] []
    invB g = true ∧ (affineImage g 0 [1, 3] 1).g.gen = [⟨false, [1, 4, 0]⟩, ⟨false, [0, 6, 1]⟩] ∧
      invB (affineImage g 0 [1, 3] 1).g = true ∧
      (affineImage g 0 [5, 0] 1).g.gen = [⟨false, [1, 5, 0]⟩] ∧ invB (affineImage g 0 [5, 0] 1).g = true := by
  decide +kernel

end PPLV.Lattice.GO
