import PPLV.Lattice.Model
import Mathlib.Algebra.Order.Field.Rat
import Mathlib.Data.Rat.Lemmas
import Mathlib.Tactic.Linarith
import Mathlib.Tactic.Ring
import Mathlib.Tactic.FieldSimp
import Mathlib.Tactic.LinearCombination
import Mathlib.Tactic.Push

/-!
# K2: the integer arithmetic of the kernel (extended gcd, linear congruences over ℚ)
-/
namespace PPLV.Lattice

/-! ### extended gcd -/

theorem xgcd_dvd (a b : Int) :
    ((xgcd a b).1 * a + (xgcd a b).2 * b ∣ a) ∧ ((xgcd a b).1 * a + (xgcd a b).2 * b ∣ b) := by
  induction a, b using xgcd.induct with
  | case1 a =>
    rw [xgcd]
    simp only [dite_true, mul_zero, add_zero, dvd_zero, and_true]
    split
    · simp
    · simp
  | case2 a b hb ih =>
    rw [xgcd]
    simp only [hb, dite_false]
    have e : (xgcd b (a % b)).2 * a + ((xgcd b (a % b)).1 - a / b * (xgcd b (a % b)).2) * b
        = (xgcd b (a % b)).1 * b + (xgcd b (a % b)).2 * (a % b) := by
      rw [Int.emod_def]; ring
    rw [e]
    refine ⟨?_, ih.1⟩
    have h2 : a = b * (a / b) + a % b := (Int.mul_ediv_add_emod a b).symm
    have := Dvd.dvd.mul_right ih.1 (a / b)
    have h3 := Int.dvd_add this ih.2
    rw [← h2] at h3
    exact h3

/-- Bézout data in the shape the kernel uses it -/
theorem xgcd_cofactors (a b : Int) (ha : a ≠ 0) :
    let s := (xgcd a b).1
    let t := (xgcd a b).2
    let g := s * a + t * b
    g ≠ 0 ∧ a = (a / g) * g ∧ b = (b / g) * g ∧ s * (a / g) + t * (b / g) = 1 := by
  intro s t g
  obtain ⟨h1, h2⟩ := xgcd_dvd a b
  have hg : g ≠ 0 := by
    intro h0
    have : (0:Int) ∣ a := by rw [← h0]; exact h1
    exact ha (zero_dvd_iff.mp this)
  have ea : a = (a / g) * g := (Int.ediv_mul_cancel h1).symm
  have eb : b = (b / g) * g := (Int.ediv_mul_cancel h2).symm
  refine ⟨hg, ea, eb, ?_⟩
  have : (s * (a / g) + t * (b / g)) * g = 1 * g := by
    calc (s * (a / g) + t * (b / g)) * g = s * ((a / g) * g) + t * ((b / g) * g) := by ring
      _ = s * a + t * b := by rw [← ea, ← eb]
      _ = 1 * g := by ring
  exact mul_right_cancel₀ hg this

/-! ### `inModZ` -/

theorem inModZ_iff (r f : Rat) : inModZ r f = true ↔ ∃ t : Int, r = (t : Rat) * f := by
  unfold inModZ
  by_cases hf : f = 0
  · simp [hf]
  · simp only [hf, if_false, beq_iff_eq]
    constructor
    · intro h
      refine ⟨(r / f).num, ?_⟩
      have := Rat.coe_int_num_of_den_eq_one h
      rw [this]; field_simp
    · rintro ⟨t, rfl⟩
      have : (t : Rat) * f / f = (t : Rat) := by field_simp
      rw [this]; exact Rat.den_intCast t

/-! ### scaling rationals to a common denominator -/

theorem num_eq (x : Rat) : (x.num : Rat) = x * (x.den : Rat) := (Rat.mul_den_eq_num x).symm
theorem den_ne (x : Rat) : (x.den : Rat) ≠ 0 := by exact_mod_cast x.den_ne_zero

/-! ### the unimodular step -/

theorem combineCoef_spec (r1 r2 : Rat) (h1 : r1 ≠ 0) :
    let k := combineCoef r1 r2
    let s := k.1; let t := k.2.1; let c := k.2.2.1; let d := k.2.2.2
    ((s:Rat) * r1 + t * r2 ≠ 0) ∧ ((c:Rat) * r1 + d * r2 = 0) ∧
    ((d:Rat) * s - t * c = 1) := by
  intro k s t c d
  have hR1 : r1.num * (r2.den : Int) ≠ 0 := by
    have : r1.num ≠ 0 := by rwa [Ne, Rat.num_eq_zero]
    exact mul_ne_zero this (by exact_mod_cast r2.den_ne_zero)
  obtain ⟨hg, ea, eb, hbez⟩ := xgcd_cofactors (r1.num * r2.den) (r2.num * r1.den) hR1
  have D1 := den_ne r1
  have D2 := den_ne r2
  have hD : ((r1.den : Rat) * r2.den) ≠ 0 := mul_ne_zero D1 D2
  have q1 : ((r1.num * r2.den : Int) : Rat) = r1 * (r1.den * r2.den) := by
    push_cast; rw [num_eq r1]; ring
  have q2 : ((r2.num * r1.den : Int) : Rat) = r2 * (r1.den * r2.den) := by
    push_cast; rw [num_eq r2]; ring
  -- abstract the integers
  have hs : s = (xgcd (r1.num * r2.den) (r2.num * r1.den)).1 := rfl
  have ht : t = (xgcd (r1.num * r2.den) (r2.num * r1.den)).2 := rfl
  have hc : c = -((r2.num * r1.den) / (s * (r1.num * r2.den) + t * (r2.num * r1.den))) := rfl
  have hd : d = (r1.num * r2.den) / (s * (r1.num * r2.den) + t * (r2.num * r1.den)) := rfl
  rw [← hs, ← ht] at hg ea eb hbez
  generalize (r1.num * (r2.den : Int)) = R1 at *
  generalize (r2.num * (r1.den : Int)) = R2 at *
  generalize hgd : s * R1 + t * R2 = g at *
  generalize hA : R1 / g = A at *
  generalize hB : R2 / g = B at *
  rw [hc, hd]
  have eaQ : (R1 : Rat) = (A : Rat) * g := by exact_mod_cast ea
  have ebQ : (R2 : Rat) = (B : Rat) * g := by exact_mod_cast eb
  have hgQ : (g : Rat) ≠ 0 := by exact_mod_cast hg
  have hbezQ : (s : Rat) * A + t * B = 1 := by exact_mod_cast hbez
  have hgdQ : (s : Rat) * R1 + t * R2 = g := by exact_mod_cast hgd
  refine ⟨?_, ?_, ?_⟩
  · have : ((s:Rat) * r1 + t * r2) * ((r1.den : Rat) * r2.den) = (g : Rat) := by
      rw [← hgdQ, q1, q2]; ring
    intro h0
    rw [h0, zero_mul] at this
    exact hgQ this.symm
  · have : (((-B : Int):Rat) * r1 + (A:Rat) * r2) * (((r1.den : Rat) * r2.den) ) = 0 := by
      have e : (((-B : Int):Rat) * r1 + (A:Rat) * r2) * (((r1.den : Rat) * r2.den))
          = ((-B : Int):Rat) * R1 + A * R2 := by
        rw [q1, q2]; ring
      rw [e, eaQ, ebQ]; push_cast; ring
    rcases mul_eq_zero.mp this with h | h
    · exact h
    · exact absurd h hD
  · push_cast; linear_combination hbezQ

/-! ### solving `r0 + k rs ∈ f ℤ` -/

theorem solveCg_some (r0 rs f : Rat) (hrs : rs ≠ 0) (k0 m : Int) (h : solveCg r0 rs f = some (k0, m)) :
    (∃ T : Int, r0 + (k0:Rat) * rs = (T:Rat) * f) ∧ (∃ T : Int, (m:Rat) * rs = (T:Rat) * f) ∧
    (∀ k : Int, (∃ T : Int, (k:Rat) * rs = (T:Rat) * f) → ∃ j : Int, k = j * m) := by
  unfold solveCg at h
  simp only at h
  have hR : rs.num * (r0.den : Int) * (f.den : Int) ≠ 0 := by
    have : rs.num ≠ 0 := by rwa [Ne, Rat.num_eq_zero]
    exact mul_ne_zero (mul_ne_zero this (by exact_mod_cast r0.den_ne_zero)) (by exact_mod_cast f.den_ne_zero)
  obtain ⟨hg, ea, eb, hbez⟩ := xgcd_cofactors (rs.num * r0.den * f.den) (f.num * r0.den * rs.den) hR
  have D0 := den_ne r0
  have D1 := den_ne rs
  have D2 := den_ne f
  have hD : ((r0.den : Rat) * rs.den * f.den) ≠ 0 := mul_ne_zero (mul_ne_zero D0 D1) D2
  have q0 : ((r0.num * rs.den * f.den : Int) : Rat) = r0 * (r0.den * rs.den * f.den) := by
    push_cast; rw [num_eq r0]; ring
  have q1 : ((rs.num * r0.den * f.den : Int) : Rat) = rs * (r0.den * rs.den * f.den) := by
    push_cast; rw [num_eq rs]; ring
  have q2 : ((f.num * r0.den * rs.den : Int) : Rat) = f * (r0.den * rs.den * f.den) := by
    push_cast; rw [num_eq f]; ring
  generalize (r0.num * (rs.den : Int) * (f.den : Int)) = R0 at *
  generalize (rs.num * (r0.den : Int) * (f.den : Int)) = R at *
  generalize (f.num * (r0.den : Int) * (rs.den : Int)) = F at *
  generalize hs : (xgcd R F).1 = s at *
  generalize ht : (xgcd R F).2 = t at *
  generalize hgd : s * R + t * F = g at *
  generalize ((r0.den : Rat) * rs.den * f.den) = D at *
  split at h
  · exact absurd h (by simp)
  · rename_i hmod
    simp only [bne_iff_ne, ne_eq, not_not] at hmod
    have hdvd : g ∣ R0 := Int.dvd_of_emod_eq_zero hmod
    have e0 : R0 = (R0 / g) * g := (Int.ediv_mul_cancel hdvd).symm
    simp only [Option.some.injEq, Prod.mk.injEq] at h
    obtain ⟨hk0, hm⟩ := h
    generalize hA : R / g = A at *
    generalize hB : F / g = B at *
    generalize hC : R0 / g = C at *
    subst hk0 hm
    have eaQ : (R : Rat) = (A : Rat) * g := by exact_mod_cast ea
    have ebQ : (F : Rat) = (B : Rat) * g := by exact_mod_cast eb
    have e0Q : (R0 : Rat) = (C : Rat) * g := by exact_mod_cast e0
    have hgQ : (g : Rat) ≠ 0 := by exact_mod_cast hg
    have hbezQ : (s : Rat) * A + t * B = 1 := by exact_mod_cast hbez
    -- r0 D = C g, rs D = A g, f D = B g
    have hgD : (g : Rat) / D ≠ 0 := div_ne_zero hgQ hD
    have er0 : r0 = C * ((g:Rat) / D) := by
      have : r0 * D = C * g := by rw [← q0, e0Q]
      field_simp; linarith
    have ers : rs = A * ((g:Rat) / D) := by
      have : rs * D = A * g := by rw [← q1, eaQ]
      field_simp; linarith
    have ef : f = B * ((g:Rat) / D) := by
      have : f * D = B * g := by rw [← q2, ebQ]
      field_simp; linarith
    generalize (g:Rat) / D = u at *
    refine ⟨⟨C * t, ?_⟩, ⟨A, ?_⟩, ?_⟩
    · rw [er0, ers, ef]; push_cast; linear_combination (-(C:Rat) * u) * hbezQ
    · rw [ers, ef]; ring
    · rintro k ⟨T, hT⟩
      refine ⟨s * T + k * t, ?_⟩
      rw [ers, ef] at hT
      have h1 : (k:Rat) * A = T * B := by
        have : ((k:Rat) * A - T * B) * u = 0 := by linarith
        rcases mul_eq_zero.mp this with h | h
        · linarith
        · exact absurd h hgD
      have : (k:Rat) = ((s * T + k * t) * B : Int) := by
        push_cast; linear_combination (-(k:Rat)) * hbezQ + (s:Rat) * h1
      exact_mod_cast this

theorem solveCg_none (r0 rs f : Rat) (hrs : rs ≠ 0) (h : solveCg r0 rs f = none) (k : Int) :
    ¬ ∃ T : Int, r0 + (k:Rat) * rs = (T:Rat) * f := by
  unfold solveCg at h
  simp only at h
  have hR : rs.num * (r0.den : Int) * (f.den : Int) ≠ 0 := by
    have : rs.num ≠ 0 := by rwa [Ne, Rat.num_eq_zero]
    exact mul_ne_zero (mul_ne_zero this (by exact_mod_cast r0.den_ne_zero)) (by exact_mod_cast f.den_ne_zero)
  obtain ⟨hg1, hg2⟩ := xgcd_dvd (rs.num * r0.den * f.den) (f.num * r0.den * rs.den)
  have D0 := den_ne r0
  have D1 := den_ne rs
  have D2 := den_ne f
  have hD : ((r0.den : Rat) * rs.den * f.den) ≠ 0 := mul_ne_zero (mul_ne_zero D0 D1) D2
  have q0 : ((r0.num * rs.den * f.den : Int) : Rat) = r0 * (r0.den * rs.den * f.den) := by
    push_cast; rw [num_eq r0]; ring
  have q1 : ((rs.num * r0.den * f.den : Int) : Rat) = rs * (r0.den * rs.den * f.den) := by
    push_cast; rw [num_eq rs]; ring
  have q2 : ((f.num * r0.den * rs.den : Int) : Rat) = f * (r0.den * rs.den * f.den) := by
    push_cast; rw [num_eq f]; ring
  generalize (r0.num * (rs.den : Int) * (f.den : Int)) = R0 at *
  generalize (rs.num * (r0.den : Int) * (f.den : Int)) = R at *
  generalize (f.num * (r0.den : Int) * (rs.den : Int)) = F at *
  generalize hgd : (xgcd R F).1 * R + (xgcd R F).2 * F = g at *
  generalize ((r0.den : Rat) * rs.den * f.den) = D at *
  split at h
  · rename_i hmod
    simp only [bne_iff_ne, ne_eq] at hmod
    rintro ⟨T, hT⟩
    apply hmod
    apply Int.emod_eq_zero_of_dvd
    have : R0 + k * R = T * F := by
      have : (R0 : Rat) + k * R = T * F := by
        rw [q0, q1, q2]; linear_combination D * hT
      exact_mod_cast this
    have e : R0 = T * F - k * R := by linarith
    rw [e]
    exact Int.dvd_sub (Dvd.dvd.mul_left hg2 T) (Dvd.dvd.mul_left hg1 k)
  · exact absurd h (by simp)

end PPLV.Lattice
