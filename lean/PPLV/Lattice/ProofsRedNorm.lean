import PPLV.Lattice.ProofsRedBridge

/-!
# `Grid::normalize_divisors`: the PPL reading (`gensOf`) of the system is literally unchanged
-/
namespace PPLV.Lattice.Red
open PPLV.Lattice

/-- generator rows as `Grid` holds them: `n + 2` entries, parameters and points have a positive divisor -/
def GShape (n : Nat) (rows : List GRow) : Prop :=
  ∀ r ∈ rows, r.e.length = n + 2 ∧ (r.line = false → 0 < r.divisor)

/-- the rows of a list vector are determined by `toFun` and the length -/
theorem coords_ext (n : Nat) (r r' : GRow) (d d' : ℚ)
    (h : ∀ i, i < n → (get r'.e (i + 1) : ℚ) / d' = (get r.e (i + 1) : ℚ) / d)
    (hl : r'.e.length = r.e.length) : r'.coords n d' = r.coords n d := by
  apply List.ext_getElem
  · simp [GRow.coords, ratRow, hl]
  · intro i h1 h2
    have hi : i < n := by
      simp only [GRow.coords, List.length_map, List.length_take] at h1; omega
    have e1 := coords_toFun n r' d' i
    have e2 := coords_toFun n r d i
    simp only [Vec.toFun, hi, if_true] at e1 e2
    simp only [List.getD_eq_getElem?_getD, List.getElem?_eq_getElem h1, Option.getD_some] at e1
    simp only [List.getD_eq_getElem?_getD, List.getElem?_eq_getElem h2, Option.getD_some] at e2
    rw [e1, e2]; exact h i hi

/-- one row of `scale_to_divisor(d)` (Grid_Generator.cc:304), `divisor() ∣ d` -/
theorem scaleToDivisor_spec (n : Nat) (r : GRow) (d : Int) (hlen : r.e.length = n + 2) (hl : r.line = false)
    (hdiv : 0 < r.divisor) (hdvd : r.divisor ∣ d) (hd : 0 < d) :
    (r.scaleToDivisor d).line = false ∧ (r.scaleToDivisor d).e.length = n + 2 ∧
    (get (r.scaleToDivisor d).e 0 = 0 ↔ get r.e 0 = 0) ∧
    (r.scaleToDivisor d).divisor = d ∧
    (r.scaleToDivisor d).coords n ((r.scaleToDivisor d).divisor : ℚ) = r.coords n (r.divisor : ℚ) := by
  obtain ⟨f, hf⟩ := hdvd
  have hfpos : 0 < f := by
    by_contra hc
    have : f ≤ 0 := by omega
    have := Int.mul_nonpos_of_nonneg_of_nonpos (Int.le_of_lt hdiv) this
    omega
  have hfac : d / r.divisor = f := by rw [hf]; exact Int.mul_ediv_cancel_left f (by omega)
  have hline : r.isLine = false := hl
  by_cases hp : r.isLineOrParameter = true
  · -- a parameter: the divisor is the last column
    have he0 : get r.e 0 = 0 := by simpa [GRow.isLineOrParameter] using hp
    have hdivr : r.divisor = get r.e (n + 1) := by simp [GRow.divisor, hp, hlen]
    -- the row after set_divisor
    have hset : r.setDivisor d = { r with e := r.e.set (n + 1) d } := by simp [GRow.setDivisor, hp, hlen]
    have key : ∀ i, get (r.scaleToDivisor d).e i =
        if i = n + 1 then d else if 1 ≤ i ∧ i < n + 1 then get r.e i * f else get r.e i := by
      intro i
      unfold GRow.scaleToDivisor
      simp only [hline, Bool.false_eq_true, if_false, hfac, hset]
      by_cases hf1 : f > 1
      · simp only [hf1, if_true, get_mulAssign, List.length_set, hlen, get_set]
        by_cases h1 : i = n + 1
        · simp [h1]
        · by_cases h2 : 1 ≤ i ∧ i < n + 1
          · have : 1 ≤ i ∧ i < n + 2 - 1 := by omega
            simp [h1, h2, this]
          · have : ¬ (1 ≤ i ∧ i < n + 2 - 1) := by omega
            simp [h1, h2, this]
      · have hf1' : f = 1 := by omega
        simp only [hf1, if_false, get_set, hlen]
        by_cases h1 : i = n + 1
        · simp [h1]
        · simp [h1, hf1']
    have hlen' : (r.scaleToDivisor d).e.length = n + 2 := by
      unfold GRow.scaleToDivisor
      simp only [hline, Bool.false_eq_true, if_false, hset]
      split <;> simp [hlen]
    have hl' : (r.scaleToDivisor d).line = false := by
      unfold GRow.scaleToDivisor
      simp only [hline, Bool.false_eq_true, if_false, hset]
      split <;> simp [hl]
    have h0' : get (r.scaleToDivisor d).e 0 = 0 := by rw [key]; simp [he0]
    have hdiv' : (r.scaleToDivisor d).divisor = d := by
      simp only [GRow.divisor, GRow.isLineOrParameter, h0', beq_self_eq_true, if_true, hlen']
      rw [show n + 2 - 1 = n + 1 by omega, key]; simp
    refine ⟨hl', hlen', by simp [h0', he0], hdiv', ?_⟩
    rw [hdiv']
    apply coords_ext n r _ _ _ _ (by rw [hlen', hlen])
    intro i hi
    rw [key]
    have h1 : ¬ i + 1 = n + 1 := by omega
    have h2 : 1 ≤ i + 1 ∧ i + 1 < n + 1 := by omega
    simp only [h1, h2, if_false, if_true, and_self]
    have hdq : (r.divisor : ℚ) ≠ 0 := by exact_mod_cast (by omega : r.divisor ≠ 0)
    have hfq : (f : ℚ) ≠ 0 := by exact_mod_cast (by omega : f ≠ 0)
    rw [hf]; push_cast; field_simp
  · -- a point: the divisor is the inhomogeneous term
    have hp' : r.isLineOrParameter = false := by simpa using hp
    have he0 : get r.e 0 ≠ 0 := by simpa [GRow.isLineOrParameter] using hp
    have hdivr : r.divisor = get r.e 0 := by simp [GRow.divisor, hp']
    have hset : r.setDivisor d = { r with e := r.e.set 0 d } := by simp [GRow.setDivisor, hp']
    have key : ∀ i, get (r.scaleToDivisor d).e i =
        if i = 0 then d else if 1 ≤ i ∧ i < n + 1 then get r.e i * f else get r.e i := by
      intro i
      unfold GRow.scaleToDivisor
      simp only [hline, Bool.false_eq_true, if_false, hfac, hset]
      by_cases hf1 : f > 1
      · simp only [hf1, if_true, get_mulAssign, List.length_set, hlen, get_set]
        by_cases h1 : i = 0
        · simp [h1]
        · by_cases h2 : 1 ≤ i ∧ i < n + 1
          · have : 1 ≤ i ∧ i < n + 2 - 1 := by omega
            simp [h1, h2, this]
          · have : ¬ (1 ≤ i ∧ i < n + 2 - 1) := by omega
            simp [h1, h2, this]
      · have hf1' : f = 1 := by omega
        simp only [hf1, if_false, get_set, hlen]
        by_cases h1 : i = 0
        · simp [h1]
        · simp [h1, hf1']
    have hlen' : (r.scaleToDivisor d).e.length = n + 2 := by
      unfold GRow.scaleToDivisor
      simp only [hline, Bool.false_eq_true, if_false, hset]
      split <;> simp [hlen]
    have hl' : (r.scaleToDivisor d).line = false := by
      unfold GRow.scaleToDivisor
      simp only [hline, Bool.false_eq_true, if_false, hset]
      split <;> simp [hl]
    have h0' : get (r.scaleToDivisor d).e 0 = d := by rw [key]; simp
    have hdiv' : (r.scaleToDivisor d).divisor = d := by
      have : ¬ d = 0 := by omega
      simp [GRow.divisor, GRow.isLineOrParameter, h0', this]
    refine ⟨hl', hlen', by simp [h0', he0]; omega, hdiv', ?_⟩
    rw [hdiv']
    apply coords_ext n r _ _ _ _ (by rw [hlen', hlen])
    intro i hi
    rw [key]
    have h1 : ¬ i + 1 = 0 := by omega
    have h2 : 1 ≤ i + 1 ∧ i + 1 < n + 1 := by omega
    simp only [h1, h2, if_false, if_true, and_self]
    have hdq : (r.divisor : ℚ) ≠ 0 := by exact_mod_cast (by omega : r.divisor ≠ 0)
    have hfq : (f : ℚ) ≠ 0 := by exact_mod_cast (by omega : f ≠ 0)
    rw [hf]; push_cast; field_simp

/-- `gensOf` in terms of `divisor` -/
theorem divisor_point (r : GRow) (h : get r.e 0 ≠ 0) : r.divisor = get r.e 0 := by
  simp [GRow.divisor, GRow.isLineOrParameter, h]
theorem divisor_param (n : Nat) (r : GRow) (hlen : r.e.length = n + 2) (h : get r.e 0 = 0) : r.divisor = get r.e (n + 1) := by
  simp [GRow.divisor, GRow.isLineOrParameter, h, hlen]

/-- a row-wise map that keeps kinds and divided coordinates keeps the PPL reading -/
theorem gensOf_map (n : Nat) (rows : List GRow) (f : GRow → GRow)
    (hlen : ∀ r ∈ rows, r.e.length = n + 2 ∧ (f r).e.length = n + 2)
    (hline : ∀ r ∈ rows, (f r).line = r.line)
    (h0 : ∀ r ∈ rows, (get (f r).e 0 = 0 ↔ get r.e 0 = 0))
    (hz : ∀ r ∈ rows, ((f r).divisor = 0 ↔ r.divisor = 0))
    (hc : ∀ r ∈ rows, r.line = false → (f r).coords n ((f r).divisor : ℚ) = r.coords n (r.divisor : ℚ))
    (hl : ∀ r ∈ rows, r.line = true → (f r).coords n 1 = r.coords n 1) :
    gensOf n (rows.map f) = gensOf n rows := by
  unfold gensOf
  simp only [List.filter_map]
  have e1 : rows.filter ((fun r => !r.line && get r.e 0 != 0) ∘ f) = rows.filter (fun r => !r.line && get r.e 0 != 0) := by
    apply List.filter_congr
    intro r hr
    simp only [Function.comp, hline r hr]
    have hb : (get (f r).e 0 != 0) = (get r.e 0 != 0) := by
      rw [Bool.eq_iff_iff]; simp only [bne_iff_ne, ne_eq]; exact not_congr (h0 r hr)
    rw [hb]
  have e2 : rows.filter ((fun r => !r.line && get r.e 0 == 0) ∘ f) = rows.filter (fun r => !r.line && get r.e 0 == 0) := by
    apply List.filter_congr
    intro r hr
    simp only [Function.comp, hline r hr]
    have hb : (get (f r).e 0 == 0) = (get r.e 0 == 0) := by
      rw [Bool.eq_iff_iff]; simp only [beq_iff_eq]; exact h0 r hr
    rw [hb]
  have e3 : rows.filter ((fun r => r.line) ∘ f) = rows.filter (fun r => r.line) := by
    apply List.filter_congr
    intro r hr
    show (f r).line = r.line
    exact hline r hr
  rw [e1, e2, e3]
  -- membership facts
  have mq : ∀ r ∈ rows.filter (fun r => !r.line && get r.e 0 == 0), r ∈ rows ∧ r.line = false ∧ get r.e 0 = 0 := by
    intro r hr
    rw [List.mem_filter] at hr
    simp only [Bool.and_eq_true, Bool.not_eq_true', beq_iff_eq] at hr
    exact ⟨hr.1, hr.2.1, hr.2.2⟩
  have mp : ∀ r ∈ rows.filter (fun r => !r.line && get r.e 0 != 0), r ∈ rows ∧ r.line = false ∧ get r.e 0 ≠ 0 := by
    intro r hr
    rw [List.mem_filter] at hr
    simp only [Bool.and_eq_true, Bool.not_eq_true', bne_iff_ne, ne_eq] at hr
    exact ⟨hr.1, hr.2.1, hr.2.2⟩
  have ml : ∀ r ∈ rows.filter (fun r => r.line), r ∈ rows ∧ r.line = true := by
    intro r hr
    rw [List.mem_filter] at hr
    exact hr
  have eany : ((rows.filter (fun r => !r.line && get r.e 0 == 0)).map f).any (fun r => get r.e (n + 1) == 0)
      = (rows.filter (fun r => !r.line && get r.e 0 == 0)).any (fun r => get r.e (n + 1) == 0) := by
    rw [List.any_map]
    have anyc : ∀ (l : List GRow) (g1 g2 : GRow → Bool), (∀ r ∈ l, g1 r = g2 r) → l.any g1 = l.any g2 := by
      intro l g1 g2
      induction l with
      | nil => simp
      | cons a l ih =>
        intro h
        simp only [List.any_cons]
        rw [h a (by simp), ih (fun r hr => h r (List.mem_cons_of_mem _ hr))]
    apply anyc
    intro r hr
    obtain ⟨hr1, _, hr3⟩ := mq r hr
    have hfr0 : get (f r).e 0 = 0 := (h0 r hr1).mpr hr3
    have d1 := divisor_param n r (hlen r hr1).1 hr3
    have d2 := divisor_param n (f r) (hlen r hr1).2 hfr0
    have := hz r hr1
    rw [d1, d2] at this
    simp only [Function.comp]
    by_cases h : get r.e (n + 1) = 0
    · simp [h, this.mpr h]
    · have h' : ¬ get (f r).e (n + 1) = 0 := fun x => h (this.mp x)
      simp [h, h']
  rw [eany]
  split
  · rfl
  · cases hpts : rows.filter (fun r => !r.line && get r.e 0 != 0) with
    | nil => rfl
    | cons p ps =>
      simp only [List.map_cons]
      have hpm : ∀ r, r ∈ p :: ps → (f r).coords n (get (f r).e 0 : Rat) = r.coords n (get r.e 0 : Rat) := by
        intro r hr
        rw [← hpts] at hr
        obtain ⟨hr1, hr2, hr3⟩ := mp r hr
        have hfr0 : get (f r).e 0 ≠ 0 := fun x => hr3 ((h0 r hr1).mp x)
        have := hc r hr1 hr2
        rwa [divisor_point r hr3, divisor_point (f r) hfr0] at this
      have hp := hpm p (by simp)
      congr 3
      · rw [List.map_map, hp]
        congr 1
        · apply List.map_congr_left
          intro r hr
          simp only [Function.comp]
          rw [hpm r (List.mem_cons_of_mem _ hr)]
        · rw [List.map_map]
          apply List.map_congr_left
          intro r hr
          obtain ⟨hr1, hr2, hr3⟩ := mq r hr
          have hfr0 : get (f r).e 0 = 0 := (h0 r hr1).mpr hr3
          have := hc r hr1 hr2
          simp only [Function.comp]
          rwa [divisor_param n r (hlen r hr1).1 hr3, divisor_param n (f r) (hlen r hr1).2 hfr0] at this
      · rw [List.map_map]
        apply List.map_congr_left
        intro r hr
        obtain ⟨hr1, hr2⟩ := ml r hr
        simp only [Function.comp]
        exact hl r hr1 hr2

/-- the fold of `lcm_assign` over the divisors: positive, and a multiple of every divisor -/
theorem lcmFold_spec (rows : List GRow) (hpos : ∀ r ∈ rows, r.line = false → 0 < r.divisor) :
    ∀ d : Int, 0 < d →
      let d' := rows.foldl (fun d g => if g.isParameterOrPoint then lcmI d g.divisor else d) d
      0 < d' ∧ d ∣ d' ∧ ∀ r ∈ rows, r.line = false → r.divisor ∣ d' := by
  induction rows with
  | nil => intro d hd; exact ⟨hd, dvd_refl d, by simp⟩
  | cons g rows ih =>
    intro d hd
    simp only [List.foldl_cons]
    by_cases hg : g.isParameterOrPoint = true
    · have hgl : g.line = false := by simpa [GRow.isParameterOrPoint] using hg
      have hgd := hpos g (by simp) hgl
      have hl : 0 < lcmI d g.divisor := by
        have : Int.lcm d g.divisor ≠ 0 := by
          intro h; rw [Int.lcm_eq_zero_iff] at h; omega
        simp only [lcmI]; omega
      obtain ⟨h1, h2, h3⟩ := ih (fun r hr => hpos r (List.mem_cons_of_mem _ hr)) _ hl
      simp only [hg, if_true]
      refine ⟨h1, dvd_trans (Int.dvd_lcm_left d g.divisor) h2, ?_⟩
      intro r hr hrl
      rcases List.mem_cons.mp hr with rfl | hr
      · exact dvd_trans (Int.dvd_lcm_right d r.divisor) h2
      · exact h3 r hr hrl
    · obtain ⟨h1, h2, h3⟩ := ih (fun r hr => hpos r (List.mem_cons_of_mem _ hr)) d hd
      simp only [hg, if_false]
      refine ⟨h1, h2, ?_⟩
      intro r hr hrl
      rcases List.mem_cons.mp hr with rfl | hr
      · simp [GRow.isParameterOrPoint, hrl] at hg
      · exact h3 r hr hrl

theorem mem_dropWhile_of_not {α : Type} (p : α → Bool) : ∀ (l : List α) (a : α), a ∈ l → p a = false → a ∈ l.dropWhile p
  | [], _, h, _ => by simp at h
  | b :: l, a, h, hp => by
    rw [List.dropWhile_cons]
    split
    · rcases List.mem_cons.mp h with rfl | h
      · simp_all
      · exact mem_dropWhile_of_not p l a h hp
    · exact h

/-- **`Grid::normalize_divisors` keeps the PPL reading of the generator system** (and every parameter / point
    gets the common divisor `d'`, a positive multiple of the given one) -/
theorem normalizeDivisors_gensOf (n : Nat) (rows : List GRow) (d : Int) (hs : GShape n rows) :
    gensOf n (normalizeDivisors n rows d).1 = gensOf n rows := by
  unfold normalizeDivisors
  split
  · rename_i hnd
    split
    · rfl
    · -- the new divisor
      have hpos : ∀ r ∈ rows.dropWhile (·.isLine), r.line = false → 0 < r.divisor :=
        fun r hr hl => (hs r (List.dropWhile_subset _ hr)).2 hl
      obtain ⟨h1, _, h3⟩ := lcmFold_spec (rows.dropWhile (·.isLine)) hpos d hnd.2
      set d' := (rows.dropWhile (·.isLine)).foldl (fun d g => if g.isParameterOrPoint then lcmI d g.divisor else d) d
      have hdv : ∀ r ∈ rows, r.line = false → r.divisor ∣ d' := by
        intro r hr hl
        exact h3 r (mem_dropWhile_of_not _ rows r hr (by simpa [GRow.isLine] using hl)) hl
      have spec : ∀ r ∈ rows, r.line = false → _ := fun r hr hl =>
        scaleToDivisor_spec n r d' (hs r hr).1 hl ((hs r hr).2 hl) (hdv r hr hl) h1
      have hlineS : ∀ r : GRow, r.line = true → r.scaleToDivisor d' = r := by
        intro r hl; simp [GRow.scaleToDivisor, GRow.isLine, hl]
      show gensOf n (rows.map (·.scaleToDivisor d')) = gensOf n rows
      apply gensOf_map
      · intro r hr
        refine ⟨(hs r hr).1, ?_⟩
        cases hl : r.line with
        | true => rw [hlineS r hl]; exact (hs r hr).1
        | false => exact (spec r hr hl).2.1
      · intro r hr
        cases hl : r.line with
        | true => rw [hlineS r hl]; exact hl
        | false => exact (spec r hr hl).1
      · intro r hr
        cases hl : r.line with
        | true => rw [hlineS r hl]
        | false => exact (spec r hr hl).2.2.1
      · intro r hr
        cases hl : r.line with
        | true => rw [hlineS r hl]
        | false =>
          have := (spec r hr hl).2.2.2.1
          have hp := (hs r hr).2 hl
          rw [this]; constructor <;> intro h <;> omega
      · intro r hr hl; exact (spec r hr hl).2.2.2.2
      · intro r hr hl; rw [hlineS r hl]
  · rfl

end PPLV.Lattice.Red
