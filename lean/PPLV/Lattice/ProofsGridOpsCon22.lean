import PPLV.Lattice.ProofsGridOpsCon21
import PPLV.Lattice.ProofsGridOpsLazy12

/-!
# `Grid` stage 3, part 22: `bounds` (Grid_nonpublic.cc:288) and `max_min` (Grid_nonpublic.cc:423) against `g.sem`

`bounds`: the answer is "the expression is constant on the grid".  `max_min`: `ok` iff the grid is not empty and the
expression is constant on it; then `num/den` is that value, `den > 0`, reduced, and it is attained (`included`).
-/
namespace PPLV.Lattice.GO
open PPLV.Lattice PPLV.Lattice.Red

/-- `if (!generators_are_up_to_date()) update_generators()` and `if (!generators_are_minimized()) minimize()` -/
def cn_up1 (g : Grid) : Grid × Bool := if !g.generatorsAreUpToDate then updateGenerators g else (g, true)
def cn_min2 (g1 : Grid) : Grid × Bool := if !g1.generatorsAreMinimized then minimize g1 else (g1, true)

/-- what `bounds` (and `max_min`) do before they look at the generators: generators up to date, then minimized; the
    flag: the grid is not empty -/
def cn_prep (g : Grid) : Grid × Bool :=
  if !(cn_up1 g).2 then ((cn_up1 g).1, false) else cn_min2 (cn_up1 g).1

theorem cn_min2_spec (g1 : Grid) (h1 : GridInv g1) (e1 : g1.st.empty = false) (p1 : 0 < g1.spaceDim)
    (u1 : g1.st.gUp = true) :
    GridInv (cn_min2 g1).1 ∧ (cn_min2 g1).1.sem = g1.sem ∧ (cn_min2 g1).1.spaceDim = g1.spaceDim ∧
      ((cn_min2 g1).2 = true ↔ g1.sem.Nonempty) ∧ ((cn_min2 g1).2 = false → (cn_min2 g1).1.st.empty = true) ∧
      ((cn_min2 g1).2 = true → (cn_min2 g1).1.st.empty = false ∧ (cn_min2 g1).1.st.gUp = true ∧
        (cn_min2 g1).1.st.gMin = true) := by
  by_cases hm : g1.st.gMin = true
  · have : cn_min2 g1 = (g1, true) := by simp [cn_min2, Grid.generatorsAreMinimized, hm]
    rw [this]
    refine ⟨h1, rfl, rfl, ⟨fun _ => ?_, fun _ => rfl⟩, (fun h => by cases h), fun _ => ⟨e1, u1, hm⟩⟩
    obtain ⟨_, _, hgn, _⟩ := gn_sem_of_gUp h1 p1 e1 u1
    rw [lz_sem_of_gUp e1 p1 u1]
    exact lz_gensSet_nonempty hgn
  · have : cn_min2 g1 = minimize g1 := by simp [cn_min2, Grid.generatorsAreMinimized, hm]
    rw [this]
    obtain ⟨m1, m2, m3, m4, m5, m6⟩ := minimize_spec' g1 h1
    refine ⟨m1, m2, m3, m4, m5, fun h => ?_⟩
    obtain ⟨a, b, _⟩ := m6 h p1
    exact ⟨a, m1.gminUp b, b⟩

theorem cn_prep_spec (g : Grid) (hI : GridInv g) (he : g.st.empty = false) (hpos : 0 < g.spaceDim) :
    GridInv (cn_prep g).1 ∧ (cn_prep g).1.sem = g.sem ∧ (cn_prep g).1.spaceDim = g.spaceDim ∧
    ((cn_prep g).2 = true ↔ g.sem.Nonempty) ∧ ((cn_prep g).2 = false → (cn_prep g).1.st.empty = true) ∧
    ((cn_prep g).2 = true → (cn_prep g).1.st.empty = false ∧ (cn_prep g).1.st.gUp = true ∧ (cn_prep g).1.st.gMin = true) := by
  unfold cn_prep
  by_cases hg : g.st.gUp = true
  · have : cn_up1 g = (g, true) := by simp [cn_up1, Grid.generatorsAreUpToDate, hg]
    rw [this, if_neg (by simp)]
    exact cn_min2_spec g hI he hpos hg
  · have hgf : g.st.gUp = false := by simpa using hg
    have : cn_up1 g = updateGenerators g := by simp [cn_up1, Grid.generatorsAreUpToDate, hg]
    rw [this]
    have hc : g.st.cUp = true := (hI.some he hpos).resolve_right hg
    obtain ⟨u1, u2, u3, u4, u5, u6⟩ := updateGenerators_spec' g hI he hpos hc hgf
    by_cases hb : (updateGenerators g).2 = true
    · rw [if_neg (by rw [hb]; simp)]
      obtain ⟨a, b, _⟩ := u5 hb
      obtain ⟨s1, s2, s3, s4, s5, s6⟩ := cn_min2_spec _ u1 a (by omega) b
      exact ⟨s1, s2.trans u2, s3.trans u3, by rw [s4, u2], s5, s6⟩
    · have hbf : (updateGenerators g).2 = false := by simpa using hb
      rw [if_pos (by rw [hbf]; rfl)]
      refine ⟨u1, u2, u3, ⟨(fun h => by cases h), fun h => ?_⟩, fun _ => u6 hbf, (fun h => by cases h)⟩
      exact absurd (u4.mpr h) hb

/-- the generators of a prepared, non-empty grid -/
theorem cn_prep_gens (g1 : Grid) (h1 : GridInv g1) (e1 : g1.st.empty = false) (p1 : 0 < g1.spaceDim)
    (u1 : g1.st.gUp = true) (m1 : g1.st.gMin = true) :
    GWf g1.spaceDim g1.gen ∧ GNorm g1.spaceDim (firstPointDiv g1.gen) g1.gen ∧ g1.sem = gn_set g1.gen ∧
    upperTriangular g1.spaceDim g1.gen g1.dk = true ∧ kind g1.dk 0 = PARAMETER := by
  obtain ⟨_, a, b, c⟩ := gn_sem_of_gUp h1 p1 e1 u1
  obtain ⟨_, d, f⟩ := h1.gmin e1 p1 m1
  exact ⟨a, b, c, d, f⟩

theorem cn_bounds_eq (g : Grid) (e : LinExpr) : bounds g e =
    if g.spaceDim < e.spaceDim then (g, none)
    else if g.spaceDim = 0 ∨ g.markedEmpty then (g, some true)
    else if (cn_prep g).2 = false then ((cn_prep g).1, some true)
    else ((cn_prep g).1, some (boundsNoCheck (cn_prep g).1 e)) := by
  unfold bounds cn_prep
  split
  · rfl
  · split
    · rfl
    · show (if (!(cn_up1 g).2) = true then ((cn_up1 g).1, some true)
        else if (!(cn_min2 (cn_up1 g).1).2) = true then ((cn_min2 (cn_up1 g).1).1, some true)
        else ((cn_min2 (cn_up1 g).1).1, some (boundsNoCheck (cn_min2 (cn_up1 g).1).1 e))) = _
      cases h1 : (cn_up1 g).2
      · rfl
      · simp only [Bool.not_true, Bool.false_eq_true, if_false]
        cases h2 : (cn_min2 (cn_up1 g).1).2 <;> simp

theorem cn_const_empty (e : LinExpr) : cn_Const e ∅ := fun _ h => absurd h (Set.notMem_empty _)

theorem cn_eval_zdim (e : LinExpr) (x : Pt) (hx : Supp 0 x) : evalRow e x = (Red.get e 0 : ℚ) := by
  have : x = 0 := by funext i; exact hx i (Nat.zero_le _)
  rw [this, cn_evalRow_lam, cn_lam_zero, zero_add]

theorem cn_const_zdim (e : LinExpr) : cn_Const e (spaceSet 0) := fun x hx y hy => by
  rw [cn_eval_zdim e x hx, cn_eval_zdim e y hy]

/-- Grid_nonpublic.cc:288 `bounds(expr)`: `none` exactly on a dimension mismatch; otherwise the answer is "the expression
    is constant on the grid" (in particular `true` on the empty grid); the object keeps its grid -/
theorem cn_bounds (g : Grid) (e : LinExpr) (hI : GridInv g) :
    ((bounds g e).2 = none ↔ g.spaceDim < e.spaceDim) ∧ GridInv (bounds g e).1 ∧ (bounds g e).1.sem = g.sem ∧
    (bounds g e).1.spaceDim = g.spaceDim ∧ (∀ b, (bounds g e).2 = some b → (b = true ↔ cn_Const e g.sem)) := by
  rw [cn_bounds_eq]
  by_cases hd : g.spaceDim < e.spaceDim
  · rw [if_pos hd]; exact ⟨⟨fun _ => hd, fun _ => rfl⟩, hI, rfl, rfl, (fun b h => by cases h)⟩
  · rw [if_neg hd]
    by_cases h0 : g.spaceDim = 0 ∨ g.markedEmpty = true
    · rw [if_pos h0]
      refine ⟨⟨(fun h => by cases h), fun h => absurd h hd⟩, hI, rfl, rfl, fun b hb => ?_⟩
      have hbt : b = true := (Option.some.inj hb).symm
      refine ⟨fun _ => ?_, fun _ => hbt⟩
      by_cases hemp : g.st.empty = true
      · rw [lz_sem_of_empty hemp]; exact cn_const_empty e
      · rcases h0 with h0 | h0
        · rw [lz_sem_of_zdim (by simpa using hemp) h0]; exact cn_const_zdim e
        · exact absurd h0 hemp
    · rw [if_neg h0]
      have hne : g.st.empty = false := by
        by_contra h; exact h0 (Or.inr (show g.st.empty = true by simpa using h))
      have hpos : 0 < g.spaceDim := by
        by_contra h; exact h0 (Or.inl (by omega))
      obtain ⟨p1, p2, p3, p4, p5, p6⟩ := cn_prep_spec g hI hne hpos
      by_cases hb : (cn_prep g).2 = false
      · rw [if_pos hb]
        refine ⟨⟨(fun h => by cases h), fun h => absurd h hd⟩, p1, p2, p3, fun b hb' => ?_⟩
        have hbt : b = true := (Option.some.inj hb').symm
        refine ⟨fun _ => ?_, fun _ => hbt⟩
        rw [← p2, lz_sem_of_empty (p5 hb)]; exact cn_const_empty e
      · rw [if_neg hb]
        have hbt : (cn_prep g).2 = true := by simpa using hb
        obtain ⟨q1, q2, q3⟩ := p6 hbt
        obtain ⟨w1, w2, w3, w4, w5⟩ := cn_prep_gens _ p1 q1 (by omega) q2 q3
        refine ⟨⟨(fun h => by cases h), fun h => absurd h hd⟩, p1, p2, p3, fun b hb' => ?_⟩
        have hbe : b = boundsNoCheck (cn_prep g).1 e := (Option.some.inj hb').symm
        rw [hbe, cn_boundsNoCheck_const _ e w1 w2 w4 w5 (by omega), ← w3, p2]

/-- `x ≡ 0 (mod 2)` in dimension 1, congruences only -/
def cn_exGrid' : Grid :=
  { spaceDim := 1, st := { cUp := true }, conDim := 1, con := [{ e := [0, 1], m := 2 }], genDim := 1, gen := [], dk := [] }

/-! ### `max_min` -/

theorem cn_maxMin_eq (g : Grid) (e : LinExpr) : maxMin g e =
    match (bounds g e).2 with
    | none => ((bounds g e).1, none)
    | some false => ((bounds g e).1, some { ok := false })
    | some true =>
      if (bounds g e).1.markedEmpty then ((bounds g e).1, some { ok := false })
      else if (bounds g e).1.spaceDim = 0 then
        ((bounds g e).1, some { ok := true, num := Red.get e 0, den := 1, included := true })
      else
        let g2 := if !(bounds g e).1.generatorsAreMinimized then (simplifyGenSys (bounds g e).1).setGeneratorsMinimized
          else (bounds g e).1
        (g2, some { ok := true,
                    num := (spHom e (rowAt g2.gen 0).e + Red.get e 0 * (rowAt g2.gen 0).divisor) /
                      gcdI (spHom e (rowAt g2.gen 0).e + Red.get e 0 * (rowAt g2.gen 0).divisor) (rowAt g2.gen 0).divisor,
                    den := (rowAt g2.gen 0).divisor /
                      gcdI (spHom e (rowAt g2.gen 0).e + Red.get e 0 * (rowAt g2.gen 0).divisor) (rowAt g2.gen 0).divisor,
                    included := true }) := by
  unfold maxMin
  rcases hb : bounds g e with ⟨g1, _ | _ | _⟩ <;> rfl

/-- the value of the expression at the point of a minimized system, as the fraction `max_min` reduces -/
theorem cn_point_value (e : LinExpr) (p : GRow) (n : Nat) (D : Int) (hlen : p.e.length = n + 2) (he : e.length ≤ n + 1)
    (hl : p.line = false) (hpD : Red.get p.e 0 = D) (hD : 0 < D) :
    p.divisor = D ∧
    evalRow e (gn_vecOf p) = ((spHom e p.e + Red.get e 0 * D : Int) : ℚ) / (D : ℚ) := by
  have hdiv : p.divisor = D := by rw [divisor_point p (by rw [hpD]; exact ne_of_gt hD)]; exact hpD
  refine ⟨hdiv, ?_⟩
  have hden : cn_den p = D := by unfold cn_den; rw [hl]; exact hdiv
  have := cn_spHom_vecOf e p n hlen he (by rw [hden]; exact ne_of_gt hD)
  rw [hden] at this
  have hD' : (D : ℚ) ≠ 0 := by exact_mod_cast (ne_of_gt hD)
  rw [cn_evalRow_lam]
  push_cast
  rw [this]
  field_simp

/-- a fraction reduced by the gcd -/
theorem cn_reduce (a b : Int) (hb : 0 < b) :
    0 < b / gcdI a b ∧ Int.gcd (a / gcdI a b) (b / gcdI a b) = 1 ∧
    ((a / gcdI a b : Int) : ℚ) / ((b / gcdI a b : Int) : ℚ) = (a : ℚ) / (b : ℚ) := by
  have hg : 0 < Int.gcd a b := Int.gcd_pos_of_ne_zero_right a (ne_of_gt hb)
  have hgi : (0 : Int) < gcdI a b := by unfold gcdI; exact_mod_cast hg
  have hda : gcdI a b ∣ a := by unfold gcdI; exact Int.gcd_dvd_left ..
  have hdb : gcdI a b ∣ b := by unfold gcdI; exact Int.gcd_dvd_right ..
  refine ⟨?_, ?_, ?_⟩
  · exact Int.ediv_pos_of_pos_of_dvd hb hgi.le hdb
  · unfold gcdI; exact Int.gcd_div_gcd_div_gcd hg
  · generalize gcdI a b = G at hgi hda hdb
    obtain ⟨a', ha⟩ := hda
    obtain ⟨b', hb'⟩ := hdb
    have hg' : (G : ℚ) ≠ 0 := by exact_mod_cast (ne_of_gt hgi)
    have e1 : a / G = a' := by rw [ha]; exact Int.mul_ediv_cancel_left _ (ne_of_gt hgi)
    have e2 : b / G = b' := by rw [hb']; exact Int.mul_ediv_cancel_left _ (ne_of_gt hgi)
    have hb'0 : (b' : ℚ) ≠ 0 := by
      intro h
      have : b' = 0 := by exact_mod_cast h
      rw [this, mul_zero] at hb'; omega
    rw [e1, e2, ha, hb']
    push_cast
    field_simp

/-- Grid_nonpublic.cc:423 `max_min(expr, …)`: `none` exactly on a dimension mismatch; `ok` iff the grid is not empty and
    the expression is constant on it; then `num/den` is the value, `den > 0`, the fraction is reduced, `included` -/
theorem cn_maxMin (g : Grid) (e : LinExpr) (hI : GridInv g) :
    ((maxMin g e).2 = none ↔ g.spaceDim < e.spaceDim) ∧ GridInv (maxMin g e).1 ∧ (maxMin g e).1.sem = g.sem ∧
    (maxMin g e).1.spaceDim = g.spaceDim ∧
    (∀ mm, (maxMin g e).2 = some mm →
      (mm.ok = true ↔ g.sem.Nonempty ∧ cn_Const e g.sem) ∧
      (mm.ok = true → 0 < mm.den ∧ Int.gcd mm.num mm.den = 1 ∧ mm.included = true ∧
        ∀ x ∈ g.sem, evalRow e x = (mm.num : ℚ) / (mm.den : ℚ))) := by
  obtain ⟨b1, b2, b3, b4, b5⟩ := cn_bounds g e hI
  rw [cn_maxMin_eq]
  rcases hb : (bounds g e).2 with _ | _ | _
  · dsimp only
    exact ⟨⟨fun _ => b1.mp hb, fun _ => rfl⟩, b2, b3, b4, (fun mm h => by cases h)⟩
  · dsimp only
    have hnc : ¬ cn_Const e g.sem := fun hc => by
      have := (b5 false hb).mpr hc; cases this
    refine ⟨⟨(fun h => by cases h), fun h => by rw [b1.mpr h] at hb; cases hb⟩, b2, b3, b4, fun mm hmm => ?_⟩
    have : mm = { ok := false } := (Option.some.inj hmm).symm
    rw [this]
    exact ⟨⟨(fun h => by cases h), fun h => absurd h.2 hnc⟩, (fun h => by cases h)⟩
  · dsimp only
    have hc : cn_Const e g.sem := (b5 true hb).mp rfl
    have hnone : ¬ g.spaceDim < e.spaceDim := fun h => by rw [b1.mpr h] at hb; cases hb
    by_cases hemp : (bounds g e).1.st.empty = true
    · rw [if_pos (show (bounds g e).1.markedEmpty = true from hemp)]
      refine ⟨⟨(fun h => by cases h), fun h => absurd h hnone⟩, b2, b3, b4, fun mm hmm => ?_⟩
      have : mm = { ok := false } := (Option.some.inj hmm).symm
      rw [this]
      have hse : g.sem = ∅ := by rw [← b3]; exact lz_sem_of_empty hemp
      exact ⟨⟨(fun h => by cases h), fun h => by rw [hse] at h; exact absurd h.1 Set.not_nonempty_empty⟩,
        (fun h => by cases h)⟩
    · have hne : (bounds g e).1.st.empty = false := by simpa using hemp
      rw [if_neg (show ¬ ((bounds g e).1.markedEmpty = true) from hemp)]
      by_cases h0 : (bounds g e).1.spaceDim = 0
      · rw [if_pos h0]
        refine ⟨⟨(fun h => by cases h), fun h => absurd h hnone⟩, b2, b3, b4, fun mm hmm => ?_⟩
        have : mm = { ok := true, num := Red.get e 0, den := 1, included := true } := (Option.some.inj hmm).symm
        rw [this]
        have hs : g.sem = spaceSet 0 := by rw [← b3]; exact lz_sem_of_zdim hne h0
        refine ⟨⟨fun _ => ⟨?_, hc⟩, fun _ => rfl⟩, fun _ => ⟨by show (0 : Int) < 1; decide, by show Int.gcd _ 1 = 1; simp, rfl, fun x hx => ?_⟩⟩
        · rw [hs]; exact ⟨0, fun i _ => rfl⟩
        · rw [hs] at hx; rw [cn_eval_zdim e x hx]; simp
      · rw [if_neg h0]
        have hpos : 0 < (bounds g e).1.spaceDim := by omega
        -- the generators are minimized after `bounds`
        have hmin : (bounds g e).1.st.gUp = true ∧ (bounds g e).1.st.gMin = true := by
          have hbe := cn_bounds_eq g e
          rw [if_neg hnone] at hbe
          have h0' : ¬ (g.spaceDim = 0 ∨ g.markedEmpty = true) := by
            rintro (h | h)
            · rw [b4] at h0; exact h0 h
            · have : (bounds g e).1 = g := by rw [hbe, if_pos (Or.inr h)]
              rw [this] at hemp; exact hemp h
          rw [if_neg h0'] at hbe
          have hge : g.st.empty = false := by
            by_contra h; exact h0' (Or.inr (show g.st.empty = true by simpa using h))
          obtain ⟨_, _, _, _, p5, p6⟩ := cn_prep_spec g hI hge (by omega)
          by_cases hp : (cn_prep g).2 = false
          · rw [if_pos hp] at hbe
            have : (bounds g e).1 = (cn_prep g).1 := by rw [hbe]
            rw [this] at hemp; exact absurd (p5 hp) hemp
          · rw [if_neg hp] at hbe
            have : (bounds g e).1 = (cn_prep g).1 := by rw [hbe]
            rw [this]; exact (p6 (by simpa using hp)).2
        have hg2 : (if (!(bounds g e).1.generatorsAreMinimized) = true then
            (simplifyGenSys (bounds g e).1).setGeneratorsMinimized else (bounds g e).1) = (bounds g e).1 := by
          simp [Grid.generatorsAreMinimized, hmin.2]
        simp only [hg2]
        obtain ⟨w1, w2, w3, w4, w5⟩ := cn_prep_gens _ b2 hne hpos hmin.1 hmin.2
        obtain ⟨p, rest, hgen, hpl, hpD, _⟩ := cn_min_shape w2 w4 w5
        have hrow : rowAt (bounds g e).1.gen 0 = p := by rw [hgen]; rfl
        have hpm : p ∈ (bounds g e).1.gen := by rw [hgen]; exact List.mem_cons_self ..
        have hel : e.length ≤ (bounds g e).1.spaceDim + 1 := by
          unfold LinExpr.spaceDim at hnone; rw [b4]; omega
        obtain ⟨v1, v2⟩ := cn_point_value e p _ _ (w1 p hpm) hel hpl hpD w2.pos
        obtain ⟨r1, r2, r3⟩ := cn_reduce (spHom e p.e + Red.get e 0 * firstPointDiv (bounds g e).1.gen)
          (firstPointDiv (bounds g e).1.gen) w2.pos
        have hpmem : gn_vecOf p ∈ g.sem := by
          rw [← b3, w3]
          exact gn_mem_pt hpm ((gn_isPt_iff p).mpr ⟨hpl, by rw [hpD]; exact ne_of_gt w2.pos⟩)
        refine ⟨⟨(fun h => by cases h), fun h => absurd h hnone⟩, b2, b3, b4, fun mm hmm => ?_⟩
        have hmm' := (Option.some.inj hmm).symm
        rw [hrow, v1] at hmm'
        rw [hmm']
        refine ⟨⟨fun _ => ⟨⟨_, hpmem⟩, hc⟩, fun _ => rfl⟩, fun _ => ⟨r1, r2, rfl, fun x hx => ?_⟩⟩
        rw [hc x hx _ hpmem, v2]
        exact r3.symm

/-- on `{x ≡ 0 (mod 2)}`: the constant `3` is bounded with value `3/1`, the expression `x` is not bounded -/
example : (maxMin cn_exGrid' [3]).2 = some { ok := true, num := 3, den := 1, included := true } ∧
    (maxMin cn_exGrid' [0, 1]).2 = some { ok := false } ∧ (bounds cn_exGrid' [0, 1, 1]).2 = none := by decide +kernel

end PPLV.Lattice.GO
