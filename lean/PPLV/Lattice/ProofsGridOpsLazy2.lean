import PPLV.Lattice.ProofsGridOpsLazy1
import PPLV.Lattice.ProofsRedCgLoop
import PPLV.Lattice.ProofsRedCgTri
import PPLV.Lattice.ProofsRedCgComplete
import PPLV.Lattice.ProofsRedCgConv
import PPLV.Lattice.ProofsConvCGComplete
import PPLV.Lattice.ProofsConvCGTri
import PPLV.Lattice.ProofsConvCGFinal

/-!
# The `Grid` object, lazy machinery — part 2: `update_generators()` (Grid_nonpublic.cc:520)

The generators are out of date (every call site of the library and of the model tests this; with generators up to
date and congruences flagged minimized the statement is false, see the counterexample in the report).
-/
namespace PPLV.Lattice.GO
open PPLV.Lattice PPLV.Lattice.Red

/-- the conversion of a lower-triangular congruence system: everything `GridInv` wants of the pair -/
theorem lz_conversionCgs_facts (n : Nat) (con : List CRow) (dk : List Nat) (hc : CWf n con)
    (hlt : lowerTriangular n con dk = true) (hdk : dk.length = n + 1) (h0 : kind dk 0 = PROPER_CONGRUENCE)
    (hkm : CgKindsOK n con dk) :
    GWf n (conversionCgsToGens n con dk) ∧
    GNorm n (get (rowAt (conversionCgsToGens n con dk) 0).e 0) (conversionCgsToGens n con dk) ∧
    upperTriangular n (conversionCgsToGens n con dk) dk = true ∧
    consSet n con = gensSet n (conversionCgsToGens n con dk) := by
  obtain ⟨hw, hx⟩ := conversionCgsToGens_correct n con dk hc hlt hdk h0 hkm
  have hn := cgc_gnorm n con dk hlt h0 hkm
  refine ⟨hw, hn, conversionCgsToGens_triangular n con dk hlt h0 hkm.kinds, ?_⟩
  rw [lz_gensSet_eq hn]
  ext x
  exact (hx x).symm

/-- the state `update_generators` leaves when the grid is not empty -/
theorem lz_updateGenerators_post (g : Grid) (con : List CRow) (dk : List Nat) (he : g.st.empty = false)
    (hpos : 0 < g.spaceDim) (hhi : g.st.hi = 0) (hcd : g.conDim = g.spaceDim) (hc : CWf g.spaceDim con)
    (hlt : lowerTriangular g.spaceDim con dk = true) (hdk : dk.length = g.spaceDim + 1)
    (h0 : kind dk 0 = PROPER_CONGRUENCE) (hkm : CgKindsOK g.spaceDim con dk) :
    let g1 : Grid := { g with con := con, dk := dk }
    let r := (({ g1 with genDim := g1.conDim, gen := conversionCgsToGens g1.conDim g1.con g1.dk
                }).setCongruencesMinimized).setGeneratorsMinimized
    GridInv r ∧ r.sem = consSet g.spaceDim con ∧ (consSet g.spaceDim con).Nonempty := by
  intro g1 r
  obtain ⟨hw, hn, hut, hag⟩ := lz_conversionCgs_facts g.spaceDim con dk hc hlt hdk h0 hkm
  have hI : GridInv r := by
    refine lz_inv_of_both r he hpos hhi rfl rfl hcd hc hcd ?_ (D := get (rowAt (conversionCgsToGens g.spaceDim con dk) 0).e 0)
      ?_ ?_ hdk hlt ?_ h0
    · show GWf g.spaceDim (conversionCgsToGens g.conDim con dk); rw [hcd]; exact hw
    · show GNorm g.spaceDim _ (conversionCgsToGens g.conDim con dk); rw [hcd]; exact hn
    · show consSet g.spaceDim con = gensSet g.spaceDim (conversionCgsToGens g.conDim con dk); rw [hcd]; exact hag
    · show upperTriangular g.spaceDim (conversionCgsToGens g.conDim con dk) dk = true; rw [hcd]; exact hut
  refine ⟨hI, ?_, ?_⟩
  · rw [lz_sem_of_cUp hI he hpos rfl]; rfl
  · rw [hag]; exact lz_gensSet_nonempty hn

/-- **`update_generators()`** under its precondition (congruences up to date, generators not) -/
theorem updateGenerators_spec' (g : Grid) (hI : GridInv g) (he : g.st.empty = false) (hpos : 0 < g.spaceDim)
    (hc : g.st.cUp = true) (hg : g.st.gUp = false) :
    GridInv (updateGenerators g).1 ∧ (updateGenerators g).1.sem = g.sem ∧
    (updateGenerators g).1.spaceDim = g.spaceDim ∧ ((updateGenerators g).2 = true ↔ (g.sem).Nonempty) ∧
    ((updateGenerators g).2 = true → (updateGenerators g).1.st.empty = false ∧ (updateGenerators g).1.st.gUp = true ∧
      (updateGenerators g).1.st.gMin = true ∧ (updateGenerators g).1.st.cUp = true ∧
      (updateGenerators g).1.st.cMin = true) ∧
    ((updateGenerators g).2 = false → (updateGenerators g).1.st.empty = true) := by
  obtain ⟨hcd, hcwf⟩ := hI.cwf he hpos hc
  have hsem : g.sem = consSet g.spaceDim g.con := lz_sem_of_not_gUp he hpos hg
  have hhi := hI.hi0 he
  cases hcm : g.st.cMin
  · -- `simplify(con_sys, dim_kinds)` first
    cases hf : (simplifyCgs g.conDim g.con g.dk).2.2
    · -- consistent
      have hf' : (simplifyCgs g.spaceDim g.con g.dk).2.2 = false := by rw [← hcd]; exact hf
      have hfin := simplifyCgs_triangular g.spaceDim g.con g.dk hcwf hf'
      obtain ⟨hkm, hk0, hdk, hlt⟩ := final_cgKindsOK _ _ _ hfin
      have hpres := (simplifyCgs_preserves g.spaceDim g.con g.dk hcwf).1 hf'
      obtain ⟨h1, h2, h3⟩ := lz_updateGenerators_post g _ _ he hpos hhi hcd (cgc_final_cwf hfin) hlt hdk hk0 hkm
      have hcs : consSet g.spaceDim (simplifyCgs g.spaceDim g.con g.dk).1 = consSet g.spaceDim g.con := by
        ext x; exact hpres x
      have hU : updateGenerators g =
          ((({ ({ g with con := (simplifyCgs g.spaceDim g.con g.dk).1, dk := (simplifyCgs g.spaceDim g.con g.dk).2.1 } : Grid) with
              genDim := g.conDim,
              gen := conversionCgsToGens g.conDim (simplifyCgs g.spaceDim g.con g.dk).1
                (simplifyCgs g.spaceDim g.con g.dk).2.1 }).setCongruencesMinimized).setGeneratorsMinimized, true) := by
        simp only [updateGenerators, Grid.congruencesAreMinimized, hcm, simplifyConSys, hf]
        simp [hcd]
      rw [hU]
      refine ⟨h1, ?_, rfl, ?_, fun _ => ⟨he, rfl, rfl, rfl, rfl⟩, fun h => by simp at h⟩
      · rw [h2, hcs, hsem]
      · rw [hsem, ← hcs]; simp [h3]
    · -- inconsistent
      have hf' : (simplifyCgs g.spaceDim g.con g.dk).2.2 = true := by rw [← hcd]; exact hf
      have hno := (simplifyCgs_preserves g.spaceDim g.con g.dk hcwf).2 hf'
      have hemp : g.sem = ∅ := by
        rw [hsem]; ext x; simp only [consSet, Set.mem_ofPred_eq, Set.mem_empty_iff_false, iff_false]; exact hno x
      have hU : updateGenerators g = (setEmpty (simplifyConSys g).1, false) := by
        simp only [updateGenerators, Grid.congruencesAreMinimized, hcm, simplifyConSys, hf]
        simp
      rw [hU]
      refine ⟨lz_setEmpty_inv _, ?_, rfl, ?_, fun h => by simp at h, fun _ => rfl⟩
      · rw [lz_setEmpty_sem, hemp]
      · rw [hemp]; simp
  · -- already minimized: conversion only
    obtain ⟨hdk, hlt, hk0⟩ := hI.cmin he hpos hcm
    have hkm := hI.cminConv he hpos hcm hg
    obtain ⟨h1, h2, h3⟩ := lz_updateGenerators_post g g.con g.dk he hpos hhi hcd hcwf hlt hdk hk0 hkm
    have hU : updateGenerators g =
        ((({ ({ g with con := g.con, dk := g.dk } : Grid) with
            genDim := g.conDim, gen := conversionCgsToGens g.conDim g.con g.dk }).setCongruencesMinimized).setGeneratorsMinimized,
          true) := by
      simp only [updateGenerators, Grid.congruencesAreMinimized, hcm]
      simp
    rw [hU]
    refine ⟨h1, ?_, rfl, ?_, fun _ => ⟨he, rfl, rfl, rfl, rfl⟩, fun h => by simp at h⟩
    · rw [h2, hsem]
    · rw [hsem]; simp [h3]

theorem updateGenerators_spec : UpdateGeneratorsSpec := fun g hI he hpos hc hg =>
  updateGenerators_spec' g hI he hpos hc hg

/-- the hypotheses are satisfiable: `x ≡ 1 (mod 2)` given by congruences only; the point `1`, the parameter `2` -/
example :
    let g : Grid := Grid.mk 1 { cUp := true } 1 [⟨[-1, 1], 2⟩] 1 [] []
    invB g = true ∧ (updateGenerators g).1.gen = [⟨false, [1, 1, 0]⟩, ⟨false, [0, 2, 1]⟩] ∧
      (updateGenerators g).2 = true := by decide +kernel

/-- the counterexample to the statement without "generators out of date": `2ℤ` with congruences
    `x ≡ 0 (mod 2)`, `1 ≡ 0 (mod 1)` flagged minimized (lower triangular, but the moduli differ), generators up to
    date; the conversion runs without `simplify` and answers `ℤ` -/
example :
    let g : Grid := Grid.mk 1 { cUp := true, cMin := true, gUp := true } 1 [⟨[0, 1], 2⟩, ⟨[1, 0], 1⟩] 1
      [⟨false, [1, 0, 0]⟩, ⟨false, [0, 2, 1]⟩] [0, 0]
    invB g = true ∧ (updateGenerators g).1.gen = [⟨false, [1, 0, 0]⟩, ⟨false, [0, 1, 1]⟩] := by decide +kernel

end PPLV.Lattice.GO
