import PPLV.Lattice.ProofsRedCgInv

/-!
# `Grid::simplify(Congruence_System&)`: the inner `while` loop (Grid_simplify.cc:438-467)

`InnerInv`: rows `< k` are finished pivot rows, rows `≥ k` vanish after column `dim`, row `k` (the
pivot) is non-zero in column `dim`, rows strictly between `k` and `ri` are already zero in column `dim`.
-/
namespace PPLV.Lattice.Red

structure InnerInv (n : Nat) (dk : List Nat) (p : Nat → Nat) (k dim : Nat) (rows : List CRow) (ri : Nat)
    (b : Bool) : Prop where
  wf : RWf n rows
  mod : ∃ M, SameMod rows M
  klt : k < rows.length
  piv : ∀ i, i < k → PivRow (rowAt rows i) (kind dk (p i)) (p i)
  rest : ∀ i, k ≤ i → i < rows.length → ∀ j, dim < j → get (rowAt rows i).e j = 0
  pivnz : get (rowAt rows k).e dim ≠ 0
  pivkind : b = (rowAt rows k).isEquality
  done : ∀ i, k < i → i < ri → get (rowAt rows i).e dim = 0

theorem PivRow.scaled {r r' : CRow} {kd c : Nat} {f : Int} (h : PivRow r kd c) (hs : ScaledBy r' r f) (hf : 0 < f) :
    PivRow r' kd c := by
  refine ⟨?_, ?_, ?_⟩
  · rcases h.kindok with ⟨h1, h2⟩ | ⟨h1, h2⟩
    · left; exact ⟨by rw [hs.1, h1]; ring, h2⟩
    · right; exact ⟨by rw [hs.1]; exact Int.mul_pos h1 hf, h2⟩
  · rw [hs.2.2]; exact Int.mul_pos hf h.pos
  · intro j hj; rw [hs.2.2, h.zero j hj]; ring

theorem isEquality_iff (r : CRow) : r.isEquality = true ↔ r.m = 0 := by
  simp [CRow.isEquality]

/-- rows `ri` and `k` are replaced, moduli unchanged -/
theorem InnerInv.replace2 {n : Nat} {dk : List Nat} {p : Nat → Nat} {k dim : Nat} {rows : List CRow} {ri : Nat} {b : Bool}
    (h : InnerInv n dk p k dim rows ri b) (hri1 : k < ri) (hri2 : ri < rows.length) (rows' : List CRow)
    (hlen : rows'.length = rows.length)
    (hoth : ∀ i, i ≠ ri → i ≠ k → rowAt rows' i = rowAt rows i)
    (hr : (rowAt rows' ri).m = (rowAt rows ri).m ∧ (rowAt rows' ri).e.length = n + 1 ∧
      (∀ j, dim < j → get (rowAt rows' ri).e j = 0) ∧ get (rowAt rows' ri).e dim = 0)
    (hp : (rowAt rows' k).m = (rowAt rows k).m ∧ (rowAt rows' k).e.length = n + 1 ∧
      (∀ j, dim < j → get (rowAt rows' k).e j = 0) ∧ get (rowAt rows' k).e dim ≠ 0) :
    InnerInv n dk p k dim rows' (ri + 1) b := by
  have hm : ∀ i, (rowAt rows' i).m = (rowAt rows i).m := by
    intro i
    by_cases e1 : i = ri
    · rw [e1]; exact hr.1
    · by_cases e2 : i = k
      · rw [e2]; exact hp.1
      · rw [hoth i e1 e2]
  refine ⟨?_, ?_, by omega, ?_, ?_, hp.2.2.2, ?_, ?_⟩
  · intro i hi
    rw [hlen] at hi
    rw [hm i]
    refine ⟨?_, (h.wf i hi).2⟩
    by_cases e1 : i = ri
    · rw [e1]; exact hr.2.1
    · by_cases e2 : i = k
      · rw [e2]; exact hp.2.1
      · rw [hoth i e1 e2]; exact (h.wf i hi).1
  · obtain ⟨M, hM1, hM2⟩ := h.mod
    refine ⟨M, hM1, ?_⟩
    intro i hi
    rw [hlen] at hi
    rw [hm i]; exact hM2 i hi
  · intro i hi
    rw [hoth i (by omega) (by omega)]; exact h.piv i hi
  · intro i hi1 hi2 j hj
    rw [hlen] at hi2
    by_cases e1 : i = ri
    · rw [e1]; exact hr.2.2.1 j hj
    · by_cases e2 : i = k
      · rw [e2]; exact hp.2.2.1 j hj
      · rw [hoth i e1 e2]; exact h.rest i hi1 hi2 j hj
  · rw [h.pivkind]; simp only [CRow.isEquality, hm k]
  · intro i hi1 hi2
    by_cases e1 : i = ri
    · rw [e1]; exact hr.2.2.2
    · rw [hoth i e1 (by omega)]; exact h.done i hi1 (by omega)

/-- row `ri` has a zero in column `dim`: nothing to do -/
theorem InnerInv.skip {n : Nat} {dk : List Nat} {p : Nat → Nat} {k dim : Nat} {rows : List CRow} {ri : Nat} {b : Bool}
    (h : InnerInv n dk p k dim rows ri b) (hz : get (rowAt rows ri).e dim = 0) :
    InnerInv n dk p k dim rows (ri + 1) b := by
  refine ⟨h.wf, h.mod, h.klt, h.piv, h.rest, h.pivnz, h.pivkind, ?_⟩
  intro i hi1 hi2
  by_cases e : i = ri
  · rw [e]; exact hz
  · exact h.done i hi1 (by omega)

/-- `swap(row, pivot)` when the row is non-zero in column `dim` -/
theorem InnerInv.swap {n : Nat} {dk : List Nat} {p : Nat → Nat} {k dim : Nat} {rows : List CRow} {ri : Nat} {b : Bool}
    (h : InnerInv n dk p k dim rows ri b) (hri1 : k < ri) (hri2 : ri < rows.length)
    (hnz : get (rowAt rows ri).e dim ≠ 0) :
    InnerInv n dk p k dim (swapRows rows ri k) ri (rowAt rows ri).isEquality := by
  have hk := h.klt
  have hrow : ∀ i, rowAt (swapRows rows ri k) i =
      if i = k then rowAt rows ri else if i = ri then rowAt rows k else rowAt rows i :=
    fun i => rowAt_swapRows rows ri k i hri2 hk
  -- every row of the new system is a row of the old one with index on the same side of `k`
  have hsrc : ∀ i, i < rows.length → ∃ i', i' < rows.length ∧ rowAt (swapRows rows ri k) i = rowAt rows i' ∧
      (k ≤ i → k ≤ i') ∧ (i < k → i' = i) := by
    intro i hi
    rw [hrow i]
    by_cases e1 : i = k
    · rw [if_pos e1]; exact ⟨ri, hri2, rfl, fun _ => by omega, fun _ => by omega⟩
    · rw [if_neg e1]
      by_cases e2 : i = ri
      · rw [if_pos e2]; exact ⟨k, hk, rfl, fun _ => by omega, fun _ => by omega⟩
      · rw [if_neg e2]; exact ⟨i, hi, rfl, fun h => h, fun _ => rfl⟩
  refine ⟨?_, ?_, by simpa using hk, ?_, ?_, ?_, ?_, ?_⟩
  · intro i hi
    rw [length_swapRows] at hi
    obtain ⟨i', hi', e, _, _⟩ := hsrc i hi
    rw [e]; exact h.wf i' hi'
  · obtain ⟨M, hM1, hM2⟩ := h.mod
    refine ⟨M, hM1, ?_⟩
    intro i hi
    rw [length_swapRows] at hi
    obtain ⟨i', hi', e, _, _⟩ := hsrc i hi
    rw [e]; exact hM2 i' hi'
  · intro i hi
    rw [hrow i, if_neg (by omega), if_neg (by omega)]; exact h.piv i hi
  · intro i hi1 hi2 j hj
    rw [length_swapRows] at hi2
    obtain ⟨i', hi', e, h1, _⟩ := hsrc i hi2
    rw [e]; exact h.rest i' (h1 hi1) hi' j hj
  · rw [hrow k, if_pos rfl]; exact hnz
  · rw [hrow k, if_pos rfl]
  · intro i hi1 hi2
    rw [hrow i, if_neg (by omega), if_neg (by omega)]; exact h.done i hi1 hi2

/-- `reduce_congruence_with_equality(row, pivot, dim, sys)` on a proper congruence `row = sys[ri]` -/
theorem InnerInv.rcwe {n : Nat} {dk : List Nat} {p : Nat → Nat} {k dim : Nat} {rows : List CRow} {ri : Nat}
    (h : InnerInv n dk p k dim rows ri true) (hri1 : k < ri) (hri2 : ri < rows.length)
    (hrm : 0 < (rowAt rows ri).m) :
    InnerInv n dk p k dim (reduceCongruenceWithEquality rows ri k dim) (ri + 1) true ∧
      (reduceCongruenceWithEquality rows ri k dim).length = rows.length ∧
      ∀ x, Sol (reduceCongruenceWithEquality rows ri k dim) x ↔ Sol rows x := by
  have hk := h.klt
  have hpm : (rowAt rows k).m = 0 := (isEquality_iff _).mp h.pivkind.symm
  obtain ⟨hlen, f, c, hf, hfc, hoth, hm, hl, hent⟩ :=
    reduceCongruenceWithEquality_spec n rows ri k dim h.wf hri2 hk (by omega) hpm hrm h.pivnz
  refine ⟨?_, hlen, fun x => reduceCongruenceWithEquality_sol n rows ri k dim h.wf hri2 hk (by omega) hpm hrm h.pivnz x⟩
  -- every other row is the old row times a positive factor
  have hsc : ∀ i, i < rows.length → i ≠ ri →
      ∃ g : Int, 0 < g ∧ ScaledBy (rowAt (reduceCongruenceWithEquality rows ri k dim) i) (rowAt rows i) g ∧
        ((rowAt rows i).m = 0 ∨ g = f) := by
    intro i hi hir
    by_cases hmi : 0 < (rowAt rows i).m
    · exact ⟨f, hf, (hoth i hi hir).1 hmi, Or.inr rfl⟩
    · rw [(hoth i hi hir).2 hmi]
      exact ⟨1, by norm_num, scaledBy_one _, Or.inl (by have := (h.wf i hi).2; omega)⟩
  have hsame : rowAt (reduceCongruenceWithEquality rows ri k dim) k = rowAt rows k :=
    (hoth k hk (by omega)).2 (by omega)
  refine ⟨?_, ?_, by omega, ?_, ?_, ?_, ?_, ?_⟩
  · intro i hi
    rw [hlen] at hi
    by_cases e : i = ri
    · rw [e, hl, hm]; exact ⟨rfl, Int.mul_nonneg (by omega) (by omega)⟩
    · obtain ⟨g, hg, hs, _⟩ := hsc i hi e
      rw [hs.2.1, hs.1]
      exact ⟨(h.wf i hi).1, Int.mul_nonneg (h.wf i hi).2 (by omega)⟩
  · obtain ⟨M, hM1, hM2⟩ := h.mod
    refine ⟨M * f, Int.mul_pos hM1 hf, ?_⟩
    intro i hi
    rw [hlen] at hi
    by_cases e : i = ri
    · rw [e, hm]
      rcases hM2 ri hri2 with h0 | h0
      · omega
      · right; rw [h0]
    · obtain ⟨g, hg, hs, hgf⟩ := hsc i hi e
      rw [hs.1]
      rcases hM2 i hi with h0 | h0
      · left; rw [h0]; ring
      · rcases hgf with h1 | h1
        · left; rw [h1]; ring
        · right; rw [h0, h1]
  · intro i hi
    obtain ⟨g, hg, hs, _⟩ := hsc i (by omega) (by omega)
    exact (h.piv i hi).scaled hs hg
  · intro i hi1 hi2 j hj
    rw [hlen] at hi2
    by_cases e : i = ri
    · rw [e, hent j, h.rest ri (by omega) hri2 j hj, h.rest k (le_refl _) hk j hj]; ring
    · obtain ⟨g, hg, hs, _⟩ := hsc i hi2 e
      rw [hs.2.2 j, h.rest i hi1 hi2 j hj]; ring
  · rw [hsame]; exact h.pivnz
  · rw [hsame]; exact h.pivkind
  · intro i hi1 hi2
    by_cases e : i = ri
    · rw [e, hent dim]; exact hfc
    · obtain ⟨g, hg, hs, _⟩ := hsc i (by omega) e
      rw [hs.2.2 dim, h.done i hi1 (by omega)]; ring

/-- one pass of the inner loop -/
theorem simplifyCgInner_inv {n : Nat} {dk : List Nat} {p : Nat → Nat} {k dim : Nat} {rows : List CRow} {ri : Nat} {b : Bool}
    (h : InnerInv n dk p k dim rows ri b) (hri1 : k < ri) (hri2 : ri < rows.length) :
    InnerInv n dk p k dim (simplifyCgInner dim k (rows, b) ri).1 (ri + 1) (simplifyCgInner dim k (rows, b) ri).2 ∧
      (simplifyCgInner dim k (rows, b) ri).1.length = rows.length ∧
      ∀ x, Sol (simplifyCgInner dim k (rows, b) ri).1 x ↔ Sol rows x := by
  have hk := h.klt
  have hwr := h.wf ri hri2
  have hwk := h.wf k hk
  unfold simplifyCgInner
  simp only []
  by_cases hz : get (rowAt rows ri).e dim = 0
  · rw [if_pos hz]; exact ⟨h.skip hz, rfl, fun x => Iff.rfl⟩
  · rw [if_neg hz]
    by_cases hre : (rowAt rows ri).isEquality = true
    · rw [if_pos hre]
      have hrm0 : (rowAt rows ri).m = 0 := (isEquality_iff _).mp hre
      by_cases hb : b = true
      · -- two equalities
        rw [if_pos hb]
        have hpm0 : (rowAt rows k).m = 0 := (isEquality_iff _).mp (by rw [← h.pivkind]; exact hb)
        obtain ⟨hm, hl, a, c, ha, hent, hd⟩ := reduceEqualityWithEquality_spec (rowAt rows ri) (rowAt rows k) dim
          (by rw [hwr.1, hwk.1]) (h.rest ri (by omega) hri2) (h.rest k (le_refl _) hk) h.pivnz
        refine ⟨?_, by simp, ?_⟩
        · apply h.replace2 hri1 hri2 _ (by simp)
          · intro i h1 h2; rw [rowAt_set, if_neg (by tauto)]
          · rw [rowAt_set, if_pos ⟨rfl, hri2⟩]
            refine ⟨hm, by rw [hl]; exact hwr.1, ?_, hd⟩
            intro j hj
            rw [hent j, h.rest ri (by omega) hri2 j hj, h.rest k (le_refl _) hk j hj]; ring
          · rw [rowAt_set, if_neg (by omega)]
            exact ⟨rfl, hwk.1, h.rest k (le_refl _) hk, h.pivnz⟩
        · intro x
          apply Sol_set_iff rows ri k _ x hk (by omega)
          intro hp
          exact rsem_eq_comb (rowAt rows ri) (rowAt rows k) _ a c x ha
            (evalRow_lin _ _ _ a c x hl (by rw [hwr.1, hwk.1]) hent) (by rw [hm]; exact hrm0) hrm0 hpm0 hp
      · -- the row is an equality, the pivot is not: swap, then reduce the old pivot
        rw [if_neg hb]
        have hsw := h.swap hri1 hri2 hz
        rw [hre] at hsw
        have hkm : 0 < (rowAt rows k).m := by
          have h1 : ¬ (rowAt rows k).m = 0 := fun e => hb (by rw [h.pivkind]; exact (isEquality_iff _).mpr e)
          have := hwk.2; omega
        have hrs : rowAt (swapRows rows ri k) ri = rowAt rows k := by
          rw [rowAt_swapRows rows ri k ri hri2 hk, if_neg (by omega), if_pos rfl]
        obtain ⟨h1, h2, h3⟩ := hsw.rcwe hri1 (by simpa using hri2) (by rw [hrs]; exact hkm)
        refine ⟨h1, by rw [h2]; simp, ?_⟩
        intro x
        rw [h3 x]; exact Sol_swapRows rows ri k hri2 hk x
    · rw [if_neg hre]
      have hrm : 0 < (rowAt rows ri).m := by
        have h1 : ¬ (rowAt rows ri).m = 0 := fun e => hre ((isEquality_iff _).mpr e)
        have := hwr.2; omega
      by_cases hb : b = true
      · rw [if_pos hb]
        subst hb
        exact h.rcwe hri1 hri2 hrm
      · -- two proper congruences
        rw [if_neg hb]
        have hkm : 0 < (rowAt rows k).m := by
          have h1 : ¬ (rowAt rows k).m = 0 := fun e => hb (by rw [h.pivkind]; exact (isEquality_iff _).mpr e)
          have := hwk.2; omega
        obtain ⟨hm1, hm2, hl1, hl2, s, t, c, d, hdet, hpe, hre', hd1, hd2⟩ :=
          reducePcWithPc_spec (rowAt rows ri) (rowAt rows k) dim
            (by rw [hwr.1, hwk.1]) (h.rest ri (by omega) hri2) (h.rest k (le_refl _) hk) h.pivnz hz
        refine ⟨?_, by simp, ?_⟩
        · apply h.replace2 hri1 hri2 _ (by simp)
          · intro i h1 h2; rw [rowAt_set, if_neg (by tauto), rowAt_set, if_neg (by tauto)]
          · rw [rowAt_set, if_neg (by omega), rowAt_set, if_pos ⟨rfl, hri2⟩]
            refine ⟨hm1, by rw [hl1]; exact hwr.1, ?_, hd1⟩
            intro j hj
            rw [hre' j, h.rest ri (by omega) hri2 j hj, h.rest k (le_refl _) hk j hj]; ring
          · rw [rowAt_set, if_pos ⟨rfl, by simpa using hk⟩]
            refine ⟨hm2, by rw [hl2]; exact hwk.1, ?_, hd2⟩
            intro j hj
            rw [hpe j, h.rest ri (by omega) hri2 j hj, h.rest k (le_refl _) hk j hj]; ring
        · intro x
          apply Sol_set2_iff rows ri k _ _ x hri2 hk (by omega)
          obtain ⟨M, hM1, hM2⟩ := h.mod
          have e1 : (rowAt rows ri).m = M := by rcases hM2 ri hri2 with h0 | h0 <;> omega
          have e2 : (rowAt rows k).m = M := by rcases hM2 k hk with h0 | h0 <;> omega
          exact rsem_unimodular (rowAt rows ri) (rowAt rows k) _ _ s t c d x hdet
            (evalRow_lin _ _ _ s t x hl2 (by rw [hwr.1, hwk.1]) hpe)
            (evalRow_lin _ _ _ c d x (by rw [hl1, hwr.1, hwk.1]) (by rw [hwr.1, hwk.1]) hre')
            hm1 (by rw [hm2, e1, e2]) (by rw [e1, e2])

/-! ### the fold -/

theorem foldl_range'_inv {σ : Type} (f : σ → Nat → σ) (P : Nat → σ → Prop) :
    ∀ (len s : Nat) (st : σ), P s st → (∀ i st, s ≤ i → i < s + len → P i st → P (i + 1) (f st i)) →
      P (s + len) ((List.range' s len).foldl f st) := by
  intro len
  induction len with
  | zero => intro s st h _; simpa using h
  | succ len ih =>
    intro s st h hstep
    rw [List.range'_succ, List.foldl_cons]
    have := ih (s + 1) (f st s) (hstep s st (le_refl _) (by omega) h)
      (fun i st hi1 hi2 hP => hstep i st (by omega) (by omega) hP)
    rwa [show s + 1 + len = s + (len + 1) by omega] at this

/-- the whole inner loop, started after the swap of the first non-zero row into the pivot position -/
theorem simplifyCgInner_fold {n : Nat} {dk : List Nat} {p : Nat → Nat} {k dim : Nat} {rows : List CRow} {r0 : Nat} {b : Bool}
    (h : InnerInv n dk p k dim rows (r0 + 1) b) (hr1 : k ≤ r0) (hr2 : r0 < rows.length) :
    let r := (List.range' (r0 + 1) (rows.length - 1 - r0)).foldl (simplifyCgInner dim k) (rows, b)
    InnerInv n dk p k dim r.1 rows.length r.2 ∧ r.1.length = rows.length ∧ ∀ x, Sol r.1 x ↔ Sol rows x := by
  intro r
  have := foldl_range'_inv (simplifyCgInner dim k)
    (fun i (st : List CRow × Bool) => InnerInv n dk p k dim st.1 i st.2 ∧ st.1.length = rows.length ∧
      ∀ x, Sol st.1 x ↔ Sol rows x)
    (rows.length - 1 - r0) (r0 + 1) (rows, b) ⟨h, rfl, fun x => Iff.rfl⟩
    (by
      intro i st hi1 hi2 ⟨hI, hL, hS⟩
      obtain ⟨h1, h2, h3⟩ := simplifyCgInner_inv (b := st.2) (rows := st.1) hI (by omega) (by rw [hL]; omega)
      exact ⟨h1, by rw [h2, hL], fun x => (h3 x).trans (hS x)⟩)
  rwa [show r0 + 1 + (rows.length - 1 - r0) = rows.length by omega] at this

end PPLV.Lattice.Red
