import PPLV.Lattice.ProofsRedRow
import PPLV.Lattice.ProofsVec
import Mathlib.Tactic.Ring
import Mathlib.Tactic.Linarith
import Mathlib.Tactic.NormNum

/-!
# `Grid::simplify(Congruence_System&)`: the value of a row, the solution set of a system

`evalRow e x = e[0] + Σ e[i+1]·xᵢ`; a row `(e, m)` holds at `x` iff `evalRow e x ∈ m ℤ` (`rsem`);
`Sol rows x`: every row holds.  Every row operation of the model is handled entry-wise through
`evalRow_lin`.
-/
namespace PPLV.Lattice.Red

/-- `(1, x₀, x₁, …)` -/
def ext1 (x : Pt) : Pt := fun i => match i with
  | 0 => 1
  | i + 1 => x i

theorem ext1_tail (x : Pt) : (ext1 x).tail = x := rfl

/-- value of the affine form of a row: `e[0] + Σ e[i+1]·xᵢ` -/
def evalRow (e : Row) (x : Pt) : ℚ := dotF (ratRow e) (ext1 x)

theorem get_cons_zero (a : Int) (l : Row) : get (a :: l) 0 = a := rfl
theorem get_cons_succ (a : Int) (l : Row) (i : Nat) : get (a :: l) (i + 1) = get l i := rfl

theorem evalRow_eq (e : Row) (x : Pt) : evalRow e x = dotF (ratRow e).tail x + (get e 0 : ℚ) := by
  cases e with
  | nil => simp [evalRow, ratRow, get]
  | cons a l =>
    simp only [evalRow, ratRow, List.map_cons, dotF_cons, List.tail_cons, get_cons_zero, ext1_tail]
    simp [ext1]; ring

theorem dotF_ratRow_lin (e' e p : Row) (a b : Int) (y : Pt) (hl1 : e'.length = e.length) (hl2 : p.length = e.length)
    (h : ∀ i, get e' i = a * get e i + b * get p i) :
    dotF (ratRow e') y = a * dotF (ratRow e) y + b * dotF (ratRow p) y := by
  induction e' generalizing e p y with
  | nil =>
    have he : e = [] := by cases e <;> simp_all
    have hp : p = [] := by cases p <;> simp_all
    subst he; subst hp; simp [ratRow]
  | cons c e' ih =>
    cases e with
    | nil => simp at hl1
    | cons c1 e =>
      cases p with
      | nil => simp at hl2
      | cons c2 p =>
        have h0 := h 0
        simp only [get_cons_zero] at h0
        have ht := ih e p y.tail (by simpa using hl1) (by simpa using hl2) (fun i => by
          have := h (i + 1); simpa only [get_cons_succ] using this)
        simp only [ratRow, List.map_cons, dotF_cons] at ht ⊢
        rw [ht, h0]; push_cast; ring

/-- a row whose entries are `a·e + b·p` entry-wise has the value `a·eval e + b·eval p` -/
theorem evalRow_lin (e' e p : Row) (a b : Int) (x : Pt) (hl1 : e'.length = e.length) (hl2 : p.length = e.length)
    (h : ∀ i, get e' i = a * get e i + b * get p i) :
    evalRow e' x = a * evalRow e x + b * evalRow p x :=
  dotF_ratRow_lin e' e p a b _ hl1 hl2 h

theorem evalRow_smul (e' e : Row) (a : Int) (x : Pt) (hl1 : e'.length = e.length)
    (h : ∀ i, get e' i = a * get e i) : evalRow e' x = a * evalRow e x := by
  have := evalRow_lin e' e e a 0 x hl1 rfl (fun i => by rw [h i]; ring)
  rw [this]; push_cast; ring

theorem dotF_ratRow_zero (e : Row) (y : Pt) (h : ∀ i, get e i = 0) : dotF (ratRow e) y = 0 := by
  induction e generalizing y with
  | nil => simp [ratRow]
  | cons c e ih =>
    have h0 := h 0
    simp only [get_cons_zero] at h0
    simp only [ratRow, List.map_cons, dotF_cons] at ih ⊢
    rw [ih y.tail (fun i => by have := h (i + 1); simpa only [get_cons_succ] using this), h0]; simp

/-- a row that is zero outside column 0 has the constant value `e[0]` -/
theorem evalRow_const (e : Row) (x : Pt) (h : ∀ i, 0 < i → get e i = 0) : evalRow e x = (get e 0 : ℚ) := by
  rw [evalRow_eq]
  cases e with
  | nil => simp [ratRow]
  | cons c e =>
    have := dotF_ratRow_zero e x (fun i => by have := h (i + 1) (by omega); simpa only [get_cons_succ] using this)
    simp only [ratRow, List.map_cons, List.tail_cons] at this ⊢
    rw [this]; simp

/-! ### rows and systems -/

/-- the row `(e, m)` holds at `x`: `evalRow e x ∈ m ℤ` -/
def rsem (r : CRow) (x : Pt) : Prop := ∃ t : Int, evalRow r.e x = (t : ℚ) * (r.m : ℚ)

theorem toCg_sem_iff (r : CRow) (x : Pt) : (r.toCg).sem x ↔ rsem r x := by
  unfold Cg.sem rsem CRow.toCg
  simp only [evalRow_eq]

/-- every row of the system holds at `x` -/
def Sol (rows : List CRow) (x : Pt) : Prop := ∀ i, i < rows.length → rsem (rowAt rows i) x

theorem Sol_iff_mem (rows : List CRow) (x : Pt) : Sol rows x ↔ ∀ r ∈ rows, rsem r x := by
  constructor
  · intro h r hr
    obtain ⟨i, hi, rfl⟩ := List.getElem_of_mem hr
    have := h i hi
    rwa [rowAt_eq_getElem _ _ hi] at this
  · intro h i hi
    exact h _ (rowAt_mem rows i hi)

theorem Sol_iff_toCg (rows : List CRow) (x : Pt) : Sol rows x ↔ ∀ r ∈ rows, (r.toCg).sem x := by
  rw [Sol_iff_mem]
  constructor
  · intro h r hr; exact (toCg_sem_iff r x).mpr (h r hr)
  · intro h r hr; exact (toCg_sem_iff r x).mp (h r hr)

theorem cgsSem_iff (n : Nat) (rows : List CRow) (x : Pt) : cgsSem n rows x ↔ Supp n x ∧ Sol rows x := by
  unfold cgsSem CgSys.sem cgsOf
  rw [Sol_iff_toCg]
  simp only [List.mem_map, forall_exists_index, and_imp, forall_apply_eq_imp_iff₂]

/-- index-wise well-formedness (same as `CWf`) -/
def RWf (n : Nat) (rows : List CRow) : Prop :=
  ∀ i, i < rows.length → (rowAt rows i).e.length = n + 1 ∧ 0 ≤ (rowAt rows i).m

theorem RWf_of_CWf (n : Nat) (rows : List CRow) (h : CWf n rows) : RWf n rows :=
  fun i hi => h _ (rowAt_mem rows i hi)

/-- all proper congruences have the modulus `M` -/
def SameMod (rows : List CRow) (M : Int) : Prop :=
  0 < M ∧ ∀ i, i < rows.length → (rowAt rows i).m = 0 ∨ (rowAt rows i).m = M

/-! ### generic ways to change a system -/

theorem rowAt_map {R : Type} [Inhabited R] (rows : List R) (f : R → R) (i : Nat) (hi : i < rows.length) :
    rowAt (rows.map f) i = f (rowAt rows i) := by
  simp [rowAt, hi]

/-- one row is replaced by a row that is equivalent to it wherever another (unchanged) row holds -/
theorem Sol_set_iff (rows : List CRow) (ri pi : Nat) (r' : CRow) (x : Pt)
    (hpi : pi < rows.length) (hne : pi ≠ ri)
    (h : rsem (rowAt rows pi) x → (rsem r' x ↔ rsem (rowAt rows ri) x)) :
    Sol (rows.set ri r') x ↔ Sol rows x := by
  unfold Sol
  simp only [List.length_set, rowAt_set]
  constructor
  · intro hs i hi
    have hp := hs pi hpi
    rw [if_neg (by omega)] at hp
    have := hs i hi
    by_cases e : i = ri
    · subst e; rw [if_pos ⟨rfl, hi⟩] at this; exact (h hp).mp this
    · rwa [if_neg (by tauto)] at this
  · intro hs i hi
    by_cases e : i = ri
    · subst e; rw [if_pos ⟨rfl, hi⟩]; exact (h (hs pi hpi)).mpr (hs i hi)
    · rw [if_neg (by tauto)]; exact hs i hi

/-- one row is replaced by an equivalent one -/
theorem Sol_set_self_iff (rows : List CRow) (ri : Nat) (r' : CRow) (x : Pt)
    (h : rsem r' x ↔ rsem (rowAt rows ri) x) :
    Sol (rows.set ri r') x ↔ Sol rows x := by
  unfold Sol
  simp only [List.length_set, rowAt_set]
  constructor
  · intro hs i hi
    have := hs i hi
    by_cases e : i = ri
    · subst e; rw [if_pos ⟨rfl, hi⟩] at this; exact h.mp this
    · rwa [if_neg (by tauto)] at this
  · intro hs i hi
    by_cases e : i = ri
    · subst e; rw [if_pos ⟨rfl, hi⟩]; exact h.mpr (hs i hi)
    · rw [if_neg (by tauto)]; exact hs i hi

/-- two rows are replaced by an equivalent pair -/
theorem Sol_set2_iff (rows : List CRow) (ri pi : Nat) (r' p' : CRow) (x : Pt)
    (hri : ri < rows.length) (hpi : pi < rows.length) (hne : pi ≠ ri)
    (h : (rsem r' x ∧ rsem p' x) ↔ (rsem (rowAt rows ri) x ∧ rsem (rowAt rows pi) x)) :
    Sol ((rows.set ri r').set pi p') x ↔ Sol rows x := by
  unfold Sol
  simp only [List.length_set, rowAt_set]
  constructor
  · intro hs i hi
    have h1 := hs ri hri
    rw [if_neg (by omega), if_pos ⟨rfl, hri⟩] at h1
    have h2 := hs pi hpi
    rw [if_pos ⟨rfl, hpi⟩] at h2
    have h3 := h.mp ⟨h1, h2⟩
    by_cases e : i = ri
    · subst e; exact h3.1
    · by_cases e2 : i = pi
      · subst e2; exact h3.2
      · have := hs i hi
        rwa [if_neg (by tauto), if_neg (by tauto)] at this
  · intro hs i hi
    have h3 := h.mpr ⟨hs ri hri, hs pi hpi⟩
    by_cases e2 : i = pi
    · subst e2; rw [if_pos ⟨rfl, hi⟩]; exact h3.2
    · rw [if_neg (by tauto)]
      by_cases e : i = ri
      · subst e; rw [if_pos ⟨rfl, hi⟩]; exact h3.1
      · rw [if_neg (by tauto)]; exact hs i hi

/-- every row is replaced by an equivalent one -/
theorem Sol_map_iff (rows : List CRow) (f : CRow → CRow) (x : Pt) (h : ∀ r, rsem (f r) x ↔ rsem r x) :
    Sol (rows.map f) x ↔ Sol rows x := by
  unfold Sol
  simp only [List.length_map]
  constructor
  · intro hs i hi
    have := hs i hi
    rw [rowAt_map _ _ _ hi] at this; exact (h _).mp this
  · intro hs i hi
    rw [rowAt_map _ _ _ hi]; exact (h _).mpr (hs i hi)

theorem Sol_swapRows (rows : List CRow) (i j : Nat) (hi : i < rows.length) (hj : j < rows.length) (x : Pt) :
    Sol (swapRows rows i j) x ↔ Sol rows x := by
  rw [Sol_iff_mem, Sol_iff_mem]
  constructor
  · intro h r hr; exact h r ((mem_swapRows rows i j hi hj r).mpr hr)
  · intro h r hr; exact h r ((mem_swapRows rows i j hi hj r).mp hr)

theorem rowAt_take {R : Type} [Inhabited R] (rows : List R) (k i : Nat) (hi : i < k) :
    rowAt (rows.take k) i = rowAt rows i := by
  simp [rowAt, hi]

/-- a row whose entries are all zero holds everywhere -/
theorem rsem_zero_row (r : CRow) (x : Pt) (h : ∀ j, get r.e j = 0) : rsem r x := by
  refine ⟨0, ?_⟩
  have := dotF_ratRow_zero r.e (ext1 x) h
  simp [evalRow, this]

/-- dropping rows that are zero everywhere -/
theorem Sol_take (rows : List CRow) (k : Nat) (x : Pt)
    (hz : ∀ i, k ≤ i → i < rows.length → ∀ j, get (rowAt rows i).e j = 0) :
    Sol (rows.take k) x ↔ Sol rows x := by
  unfold Sol
  simp only [List.length_take]
  constructor
  · intro hs i hi
    by_cases e : i < k
    · have := hs i (by omega)
      rwa [rowAt_take _ _ _ e] at this
    · exact rsem_zero_row _ _ (hz i (by omega) hi)
  · intro hs i hi
    rw [rowAt_take _ _ _ (by omega)]; exact hs i (by omega)

theorem rowAt_append_left {R : Type} [Inhabited R] (rows : List R) (r : R) (i : Nat) (hi : i < rows.length) :
    rowAt (rows ++ [r]) i = rowAt rows i := by
  simp [rowAt, List.getElem?_append_left hi]

theorem rowAt_append_last {R : Type} [Inhabited R] (rows : List R) (r : R) :
    rowAt (rows ++ [r]) rows.length = r := by
  simp [rowAt]

/-- appending a row that holds everywhere -/
theorem Sol_append (rows : List CRow) (r : CRow) (x : Pt) (hr : rsem r x) :
    Sol (rows ++ [r]) x ↔ Sol rows x := by
  unfold Sol
  simp only [List.length_append, List.length_singleton]
  constructor
  · intro hs i hi
    have := hs i (by omega)
    rwa [rowAt_append_left _ _ _ hi] at this
  · intro hs i hi
    by_cases e : i < rows.length
    · rw [rowAt_append_left _ _ _ e]; exact hs i e
    · have : i = rows.length := by omega
      subst this; rw [rowAt_append_last]; exact hr

/-! ### row-level equivalences -/

/-- `k·expr ≡ 0 (mod k·m)` iff `expr ≡ 0 (mod m)` for `k ≠ 0` -/
theorem rsem_scaled (r r' : CRow) (f : Int) (x : Pt) (hf : f ≠ 0)
    (he : evalRow r'.e x = f * evalRow r.e x) (hm : r'.m = r.m * f) : rsem r' x ↔ rsem r x := by
  have hf' : (f : ℚ) ≠ 0 := by exact_mod_cast hf
  unfold rsem
  rw [he, hm]
  constructor
  · rintro ⟨t, ht⟩
    refine ⟨t, ?_⟩
    have : (f : ℚ) * evalRow r.e x = f * (t * r.m) := by rw [ht]; push_cast; ring
    exact mul_left_cancel₀ hf' this
  · rintro ⟨t, ht⟩
    exact ⟨t, by rw [ht]; push_cast; ring⟩

theorem rsem_scale (r : CRow) (f : Int) (x : Pt) (hf : f ≠ 0) : rsem (r.scale f) x ↔ rsem r x := by
  unfold CRow.scale
  split
  · rfl
  · exact rsem_scaled r _ f x hf (evalRow_smul _ _ f x (by simp) (fun i => by rw [get_mulAll]; ring)) rfl

/-- `row + c·pivot` where the pivot is an equality or has the modulus of the row -/
theorem rsem_add_mul (row pivot r' : CRow) (c : Int) (x : Pt)
    (he : evalRow r'.e x = evalRow row.e x + c * evalRow pivot.e x) (hm : r'.m = row.m)
    (hpm : pivot.m = 0 ∨ pivot.m = row.m) (hp : rsem pivot x) : rsem r' x ↔ rsem row x := by
  obtain ⟨u, hu⟩ := hp
  have hu' : ∃ u' : Int, evalRow pivot.e x = (u' : ℚ) * (row.m : ℚ) := by
    rcases hpm with h0 | h1
    · exact ⟨0, by rw [hu, h0]; simp⟩
    · exact ⟨u, by rw [hu, h1]⟩
  obtain ⟨u', hu'⟩ := hu'
  unfold rsem
  rw [he, hm, hu']
  constructor
  · rintro ⟨t, ht⟩
    exact ⟨t - c * u', by push_cast; linarith⟩
  · rintro ⟨t, ht⟩
    exact ⟨t + c * u', by push_cast; linarith⟩

/-- `a·row + b·pivot` (`a ≠ 0`) on two equalities -/
theorem rsem_eq_comb (row pivot r' : CRow) (a b : Int) (x : Pt) (ha : a ≠ 0)
    (he : evalRow r'.e x = a * evalRow row.e x + b * evalRow pivot.e x) (hm : r'.m = 0) (hrm : row.m = 0)
    (hpm : pivot.m = 0) (hp : rsem pivot x) : rsem r' x ↔ rsem row x := by
  have ha' : (a : ℚ) ≠ 0 := by exact_mod_cast ha
  obtain ⟨u, hu⟩ := hp
  rw [hpm] at hu
  have hp0 : evalRow pivot.e x = 0 := by rw [hu]; simp
  unfold rsem
  rw [he, hm, hrm, hp0]
  constructor
  · rintro ⟨t, ht⟩
    refine ⟨0, ?_⟩
    have : (a : ℚ) * evalRow row.e x = 0 := by simpa using ht
    rcases mul_eq_zero.mp this with h | h
    · exact absurd h ha'
    · rw [h]; simp
  · rintro ⟨t, ht⟩
    refine ⟨0, ?_⟩
    have : evalRow row.e x = 0 := by simpa using ht
    rw [this]; simp

/-- the unimodular step on two rows with the same modulus -/
theorem rsem_unimodular (row pivot r' p' : CRow) (s t c d : Int) (x : Pt)
    (hdet : s * d - t * c = 1)
    (hp' : evalRow p'.e x = s * evalRow pivot.e x + t * evalRow row.e x)
    (hr' : evalRow r'.e x = c * evalRow pivot.e x + d * evalRow row.e x)
    (hm1 : r'.m = row.m) (hm2 : p'.m = row.m) (hm3 : pivot.m = row.m) :
    (rsem r' x ∧ rsem p' x) ↔ (rsem row x ∧ rsem pivot x) := by
  have hdet' : (s : ℚ) * d - t * c = 1 := by exact_mod_cast hdet
  unfold rsem
  rw [hp', hr', hm1, hm2, hm3]
  constructor
  · rintro ⟨⟨u, hu⟩, ⟨v, hv⟩⟩
    constructor
    · refine ⟨s * u - c * v, ?_⟩
      have : evalRow row.e x = s * (c * evalRow pivot.e x + d * evalRow row.e x)
          - c * (s * evalRow pivot.e x + t * evalRow row.e x) := by
        calc evalRow row.e x = 1 * evalRow row.e x := by ring
          _ = ((s : ℚ) * d - t * c) * evalRow row.e x := by rw [hdet']
          _ = _ := by ring
      rw [this, hu, hv]; push_cast; ring
    · refine ⟨d * v - t * u, ?_⟩
      have : evalRow pivot.e x = d * (s * evalRow pivot.e x + t * evalRow row.e x)
          - t * (c * evalRow pivot.e x + d * evalRow row.e x) := by
        calc evalRow pivot.e x = 1 * evalRow pivot.e x := by ring
          _ = ((s : ℚ) * d - t * c) * evalRow pivot.e x := by rw [hdet']
          _ = _ := by ring
      rw [this, hu, hv]; push_cast; ring
  · rintro ⟨⟨u, hu⟩, ⟨v, hv⟩⟩
    exact ⟨⟨c * v + d * u, by rw [hu, hv]; push_cast; ring⟩, ⟨s * v + t * u, by rw [hu, hv]; push_cast; ring⟩⟩

/-- negating a row -/
theorem rsem_neg (r r' : CRow) (x : Pt) (he : evalRow r'.e x = - evalRow r.e x) (hm : r'.m = r.m) :
    rsem r' x ↔ rsem r x := by
  unfold rsem
  rw [he, hm]
  constructor
  · rintro ⟨t, ht⟩; exact ⟨-t, by push_cast; linarith⟩
  · rintro ⟨t, ht⟩; exact ⟨-t, by push_cast; linarith⟩

end PPLV.Lattice.Red
