import PPLV.Lattice.ProofsRedCgLoop

/-!
# `Grid::simplify(Congruence_System&)`: the result passes `lower_triangular` (Grid_conversion.cc:37)
-/
namespace PPLV.Lattice.Red

theorem allZeroes_of_zero (x : Row) (s e : Nat) (h : ∀ i, s ≤ i → get x i = 0) : allZeroes x s e = true := by
  unfold allZeroes
  rw [List.all_eq_true]
  intro i _
  by_cases hc : s ≤ i ∧ i < e
  · simp [hc, h i hc.1]
  · simp [hc]

/-- the body of the loop of `lower_triangular` -/
def ltStep (n : Nat) (sys : List CRow) (dk : List Nat) (st : Nat × Bool) (dim : Nat) : Nat × Bool :=
  if !st.2 then st
  else if kind dk dim = CON_VIRTUAL then st
  else
    let cg := rowAt sys st.1
    if get cg.e dim ≤ 0 then (st.1 + 1, false)
    else if !allZeroes cg.e (dim + 1) (n + 1) then (st.1 + 1, false)
    else (st.1 + 1, true)

theorem lowerTriangular_eq (n : Nat) (sys : List CRow) (dk : List Nat) :
    lowerTriangular n sys dk =
      if sys.length > n + 1 then false
      else (((List.range (n + 1)).reverse.foldl (ltStep n sys dk) (0, true)).2 &&
        ((List.range (n + 1)).reverse.foldl (ltStep n sys dk) (0, true)).1 == sys.length) := rfl

/-- a strictly decreasing map of `[0, k)` into `[0, nc)`: `k ≤ nc` -/
theorem KInv.card_le {dk : List Nat} {p : Nat → Nat} {k d nc : Nat} (h : KInv dk p k d nc) : k ≤ nc := by
  by_cases hk : k = 0
  · omega
  · have key : ∀ j, j < k → j ≤ p (k - 1 - j) := by
      intro j
      induction j with
      | zero => intro _; omega
      | succ j ih =>
        intro hj
        have h1 := ih (by omega)
        have h2 := h.anti (k - 1 - (j + 1)) (k - 1 - j) (by omega) (by omega)
        omega
    have h1 := key (k - 1) (by omega)
    have h2 := (h.rng 0 (by omega)).2
    have : k - 1 - (k - 1) = 0 := by omega
    rw [this] at h1
    omega

/-- a system in which every row is a pivot row (shape invariant with all rows and dimensions processed)
    passes the test `lower_triangular` of the library -/
theorem lowerTriangular_of_inv {n : Nat} {rows : List CRow} {dk : List Nat} {p : Nat → Nat}
    (h : Inv n rows dk p rows.length 0) : lowerTriangular n rows dk = true := by
  rw [lowerTriangular_eq, if_neg (by have := h.kinv.card_le; omega)]
  have key := foldl_range_rev_inv (ltStep n rows dk)
    (fun d (st : Nat × Bool) => st.2 = true ∧ st.1 ≤ rows.length ∧ (∀ i, i < st.1 → d ≤ p i) ∧
      (∀ i, st.1 ≤ i → i < rows.length → p i < d)) (n + 1) (0, true)
    ⟨rfl, Nat.zero_le _, fun i hi => by simp at hi, fun i _ hi => (h.kinv.rng i hi).2⟩
    (by
      intro d st hd ⟨h1, h2, h3, h4⟩
      obtain ⟨c, b⟩ := st
      simp only [] at h1 h2 h3 h4
      subst h1
      unfold ltStep
      simp only [Bool.not_true, Bool.false_eq_true, if_false]
      by_cases hcv : kind dk d = CON_VIRTUAL
      · rw [if_pos hcv]
        refine ⟨rfl, h2, fun i hi => by have := h3 i hi; omega, ?_⟩
        intro i hi1 hi2
        have h5 := h4 i hi1 hi2
        have hne : p i ≠ d := by
          intro e
          exact (h.kinv.nv d (Nat.zero_le _) hd).mpr ⟨i, hi2, e⟩ hcv
        omega
      · rw [if_neg hcv]
        obtain ⟨i, hi, hpi⟩ := (h.kinv.nv d (Nat.zero_le _) hd).mp hcv
        have hci : c ≤ i := by
          by_contra hlt
          have := h3 i (by omega); omega
        have hic : i = c := by
          by_contra hne
          have h5 := h.kinv.anti c i (by omega) hi
          have h6 := h4 c (le_refl _) (by omega)
          omega
        subst hic
        have hp := h.piv i hi
        rw [hpi] at hp
        rw [if_neg (by have := hp.pos; omega),
          allZeroes_of_zero _ _ _ (fun j hj => hp.zero j (by omega))]
        simp only [Bool.not_true, Bool.false_eq_true, if_false]
        refine ⟨trivial, by omega, ?_, ?_⟩
        · intro j hj
          by_cases e : j = i
          · rw [e, hpi]
          · have := h3 j (by omega); omega
        · intro j hj1 hj2
          have := h.kinv.anti i j (by omega) hj2
          omega)
  obtain ⟨k1, k2, k3, k4⟩ := key
  rw [k1]
  have : ((List.range (n + 1)).reverse.foldl (ltStep n rows dk) (0, true)).1 = rows.length := by
    by_contra hne
    have := k4 _ (le_refl _) (by omega)
    omega
  rw [this]
  simp

/-- **the result of `Grid::simplify(Congruence_System&)` is lower triangular** (`lower_triangular` of
    Grid_conversion.cc, the assertion of the callers) when `false` is returned -/
theorem simplifyCgs_lowerTriangular (n : Nat) (rows : List CRow) (dk : List Nat) (hwf : CWf n rows) :
    let r := simplifyCgs n rows dk
    r.2.2 = false → lowerTriangular n r.1 r.2.1 = true := by
  intro r hf
  obtain ⟨p, mm, hI, _⟩ := simplifyCgs_triangular n rows dk hwf hf
  exact lowerTriangular_of_inv hI

example : lowerTriangular 2 (simplifyCgs 2 exRows []).1 (simplifyCgs 2 exRows []).2.1 = true :=
  simplifyCgs_lowerTriangular 2 exRows [] (by
    intro r hr
    simp only [exRows, List.mem_cons, List.not_mem_nil, or_false] at hr
    rcases hr with rfl | rfl | rfl <;> exact ⟨rfl, by decide⟩) (by decide +kernel)

end PPLV.Lattice.Red
