import PPLV.Lattice.ProofsGridOpsCon19
import PPLV.Lattice.ProofsGridOpsCon11
import PPLV.Lattice.ProofsGridOpsLazy5

/-!
# `Grid` stage 3, part 20: `remove_space_dimensions(vars)` (Grid_chdims.cc:265) — the image of the grid under the
# coordinate selection `cn_sel n vars` (K2: `mapG (selectCoords (cn_keep n vars)) [] G`), in every case: no variable,
# empty grid (marked or found empty by `update_generators`), every dimension removed, the general case
-/
namespace PPLV.Lattice.GO
open PPLV.Lattice PPLV.Lattice.Red

theorem cn_sel_image_zero (n : Nat) (vars : List Nat) (S : Set Pt) (hS : S.Nonempty) (hk : (cn_keep n vars).length = 0) :
    cn_sel n vars '' S = spaceSet 0 := by
  ext y
  simp only [Set.mem_image, spaceSet, Set.mem_ofPred_eq]
  constructor
  · rintro ⟨x, _, rfl⟩
    have := cn_sel_supp n vars x
    rwa [hk] at this
  · intro hy
    obtain ⟨x, hx⟩ := hS
    refine ⟨x, hx, ?_⟩
    funext j
    have := cn_sel_supp n vars x j (by omega)
    rw [this, hy j (Nat.zero_le _)]

/-- the general case: the receiver after the columns have been erased -/
def cn_rmBody (g1 : Grid) (vars : List Nat) (newDim : Nat) : Grid :=
  { ((g1.withGs (g1.gs.removeSpaceDimensions vars)).clearCongruencesUpToDate).clearGeneratorsMinimized with spaceDim := newDim }

theorem cn_removeSpaceDimensions_eq (g : Grid) (vars : List Nat) (hne : vars.isEmpty = false)
    (hlt : ∀ v ∈ vars, v < g.spaceDim) :
    removeSpaceDimensions g vars =
      if (gn_ens g).2 = false then { g := setEmpty { (gn_ens g).1 with spaceDim := g.spaceDim - vars.length } }
      else if g.spaceDim - vars.length = 0 then { g := setZeroDimUniv (gn_ens g).1 }
      else { g := cn_rmBody (gn_ens g).1 vars (g.spaceDim - vars.length) } := by
  have hmax := gn_foldl_max_le vars 0 (Nat.zero_le _) hlt
  unfold removeSpaceDimensions
  rw [if_neg (by rw [hne]; simp), if_neg (by omega)]
  show (if (!(gn_ens g).2) = true then _ else _) = _
  cases (gn_ens g).2 <;> rfl

/-- Grid_chdims.cc:265 `remove_space_dimensions(vars)` for strictly increasing `vars` below the dimension: never throws;
    the result is the image of the grid under the selection of the kept coordinates, in the space of dimension
    `space_dim - |vars|` -/
theorem cn_removeSpaceDimensions (g : Grid) (vars : List Nat) (hI : GridInv g) (hinc : vars.Pairwise (· < ·))
    (hlt : ∀ v ∈ vars, v < g.spaceDim) :
    (removeSpaceDimensions g vars).thrown = false ∧ GridInv (removeSpaceDimensions g vars).g ∧
      (removeSpaceDimensions g vars).g.spaceDim = g.spaceDim - vars.length ∧
      (removeSpaceDimensions g vars).g.sem = cn_sel g.spaceDim vars '' g.sem := by
  have hnd : vars.Nodup := hinc.imp (fun h => Nat.ne_of_lt h)
  have hklen := cn_keep_length g.spaceDim vars hnd hlt
  cases hv : vars with
  | nil =>
    have : removeSpaceDimensions g [] = { g := g } := by unfold removeSpaceDimensions; rfl
    rw [this]
    refine ⟨rfl, hI, rfl, ?_⟩
    ext y
    simp only [Set.mem_image]
    constructor
    · intro hy; exact ⟨y, hy, cn_sel_nil _ y (cn_sem_subset_space g hI hy)⟩
    · rintro ⟨x, hx, rfl⟩; rwa [cn_sel_nil _ x (cn_sem_subset_space g hI hx)]
  | cons v0 vs =>
    rw [← hv]
    have hne : vars.isEmpty = false := by rw [hv]; rfl
    have hpos : 0 < g.spaceDim := by have := hlt v0 (by rw [hv]; simp); omega
    rw [cn_removeSpaceDimensions_eq g vars hne hlt]
    by_cases h2 : (gn_ens g).2 = false
    · rw [if_pos h2]
      obtain ⟨_, _, _, _, hge⟩ := gn_ens_false ensureGenerators_spec g hI hpos h2
      exact ⟨rfl, cn_setEmpty_inv _, rfl, by rw [cn_setEmpty_sem, hge, Set.image_empty]⟩
    · rw [if_neg h2]
      have h2t : (gn_ens g).2 = true := by simpa using h2
      obtain ⟨e0, e1, e2, e3, e4, e5, e6, e7, e8⟩ := gn_ens_true ensureGenerators_spec g hI hpos h2t
      have hnonempty : g.sem.Nonempty := ((gn_ens_spec ensureGenerators_spec g hI hpos).2.2.2.1).mp h2t
      by_cases hz : g.spaceDim - vars.length = 0
      · rw [if_pos hz]
        obtain ⟨a, b, c⟩ := cn_setZeroDimUniv_inv (gn_ens g).1
        exact ⟨rfl, a, by rw [c, hz], by rw [b, cn_sel_image_zero _ _ _ hnonempty (by rw [hklen]; exact hz)]⟩
      · rw [if_neg hz]
        obtain ⟨r1, r2, r3⟩ := cn_rm_rows g.spaceDim _ (gn_ens g).1.gen vars e6 e7 hlt
        rw [hklen] at r1 r2
        have hgd : (cn_rmBody (gn_ens g).1 vars (g.spaceDim - vars.length)).genDim = g.spaceDim - vars.length := by
          show (gn_ens g).1.genDim - vars.length = _; rw [e5]
        have := gn_inv_gens (g := cn_rmBody (gn_ens g).1 vars (g.spaceDim - vars.length)) (by show 0 < g.spaceDim - vars.length; omega)
          e2 rfl e3 rfl rfl e4 hgd r1 r2
        refine ⟨rfl, this.1, rfl, ?_⟩
        rw [this.2]
        show gn_set ((gn_ens g).1.gen.map (cn_rmRow vars)) = _
        rw [r3, e8]

example : (removeSpaceDimensions cn_exGrid [0]).g.spaceDim = 0 ∧ (removeSpaceDimensions cn_exGrid [0]).thrown = false := by
  decide +kernel

end PPLV.Lattice.GO
