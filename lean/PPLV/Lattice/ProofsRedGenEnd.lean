import PPLV.Lattice.ProofsRedGenTri
import PPLV.Lattice.ProofsRedGenBridge

/-!
# End to end: `Grid::simplify` of a normalised generator system denotes the same grid (PPL reading `gensOf`)

A system normalised with divisor `D` is turned into a system normalised with divisor `k·D` (`k` the scale of
`simplifyGens_preserves`), so that `gensOf` of the output has the same points as `gensOf` of the input.
-/
namespace PPLV.Lattice.Red
open PPLV.Lattice

/-- the inhomogeneous coordinate of the lattice elements is a multiple of `D` -/
theorem hom_coord0 {n : Nat} {rows : List GRow} (D : Int)
    (hpc : ∀ r ∈ rows, r.line = false → ∃ m : Int, get r.e 0 = m * D)
    (hln : ∀ r ∈ rows, r.line = true → get r.e 0 = 0) {w : Pt} (h : Hom n rows w) :
    ∃ m : Int, w 0 = (m : Rat) * D := by
  unfold Hom GDir at h
  induction h with
  | zero => exact ⟨0, by simp⟩
  | @param w q j hq _ ih =>
    obtain ⟨u0, hu0, rfl⟩ := List.mem_map.mp hq
    obtain ⟨r, hr, rfl⟩ := List.mem_map.mp hu0
    have hr' := List.mem_filter.mp hr
    obtain ⟨m, hm⟩ := ih
    obtain ⟨m1, hm1⟩ := hpc r hr'.1 (by simpa using hr'.2)
    refine ⟨m + j * m1, ?_⟩
    have e : (GRow.hvec n r).toFun 0 = ((get r.e 0 : Int) : Rat) := by
      have := hv_apply n r 0
      rw [if_pos (Nat.zero_le n)] at this
      exact this
    simp only [Pi.add_apply, Pi.smul_apply, smul_eq_mul, e, hm, hm1]
    push_cast; ring
  | @line w l c hl _ ih =>
    obtain ⟨u0, hu0, rfl⟩ := List.mem_map.mp hl
    obtain ⟨r, hr, rfl⟩ := List.mem_map.mp hu0
    have hr' := List.mem_filter.mp hr
    obtain ⟨m, hm⟩ := ih
    refine ⟨m, ?_⟩
    have e : (GRow.hvec n r).toFun 0 = ((get r.e 0 : Int) : Rat) := by
      have := hv_apply n r 0
      rw [if_pos (Nat.zero_le n)] at this
      exact this
    simp only [Pi.add_apply, Pi.smul_apply, smul_eq_mul, e, hm, hln r hr'.1 (by simpa using hr'.2)]
    push_cast; ring

theorem hv_zero_coord (n : Nat) (r : GRow) : hv n r 0 = ((get r.e 0 : Int) : Rat) := by
  rw [hv_apply, if_pos (Nat.zero_le n)]

/-- column 0 of a triangular system: only the pivot row of dimension 0 may be non-zero there -/
theorem Tri_col0 {dk : List Nat} {rows : List GRow} : ∀ d p, Tri dk rows d p → ∀ j, j < p →
    (1 ≤ j ∨ kind dk 0 = GEN_VIRTUAL) → get (rowAt rows j).e 0 = 0 := by
  intro d
  induction d with
  | zero => intro p h j hj _; have : p = 0 := h; omega
  | succ d ih =>
    intro p h j hj hc
    by_cases hv : kind dk d = GEN_VIRTUAL
    · exact ih p ((Tri_virt hv).mp h) j hj hc
    · obtain ⟨hp0, hrow, ht⟩ := (Tri_real hv).mp h
      by_cases e : j = p - 1
      · cases d with
        | zero =>
          have hp1 : p - 1 = 0 := ht
          rcases hc with hc | hc
          · omega
          · exact absurd hc hv
        | succ d' => rw [e]; exact hrow.2.2 0 (by omega)
      · exact ih (p - 1) ht j (by omega) hc

theorem Tri_row0 {dk : List Nat} {rows : List GRow} : ∀ d p, Tri dk rows d p → 1 ≤ d →
    kind dk 0 ≠ GEN_VIRTUAL → 1 ≤ p ∧ TriRow dk rows 0 0 := by
  intro d
  induction d with
  | zero => intro p _ h1 _; omega
  | succ d ih =>
    intro p h _ hk
    by_cases hd : d = 0
    · subst hd
      obtain ⟨hp0, hrow, ht⟩ := (Tri_real hk).mp h
      have hp1 : p - 1 = 0 := ht
      rw [hp1] at hrow
      exact ⟨hp0, hrow⟩
    · by_cases hv : kind dk d = GEN_VIRTUAL
      · exact ih p ((Tri_virt hv).mp h) (by omega) hk
      · obtain ⟨hp0, _, ht⟩ := (Tri_real hv).mp h
        obtain ⟨h1, h2⟩ := ih (p - 1) ht (by omega) hk
        exact ⟨by omega, h2⟩

/-- **the output of `Grid::simplify` on a system normalised with divisor `D` is normalised with divisor `k·D`**,
    `k` being the scale by which the lattice was multiplied -/
theorem simplifyGens_normalised {n : Nat} {D : Int} {rows : List GRow} (dk : List Nat) (hwf : GWf n rows)
    (hN : Normalised n D rows) :
    ∃ k : Int, 0 < k ∧ Normalised n (k * D) (simplifyGens n rows dk).1 ∧
      ∀ v, Hom n rows v ↔ Hom n (simplifyGens n rows dk).1 ((k : Rat) • v) := by
  obtain ⟨⟨k, hk, hiff⟩, htri, hwfo, hdiv⟩ := simplifyGens_spec n rows dk hwf
  generalize (simplifyGens n rows dk).1 = out at *
  generalize (simplifyGens n rows dk).2 = dk' at *
  obtain ⟨r0, hr0, hr0l, hr0D⟩ := hN.pt
  have hD : 0 < D := hN.Dpos
  have hkQ : (k : Rat) ≠ 0 := by exact_mod_cast (ne_of_gt hk)
  have hDQ : (D : Rat) ≠ 0 := by exact_mod_cast (ne_of_gt hD)
  have c0rows : ∀ w, Hom n rows w → ∃ m : Int, w 0 = (m : Rat) * D :=
    fun w hw => hom_coord0 D (fun r hr hl => (hN.pc r hr hl).elim (fun h => ⟨0, by rw [h]; ring⟩)
      (fun h => ⟨1, by rw [h]; ring⟩)) hN.ln hw
  have hpt : Hom n out ((k : Rat) • hv n r0) := (hiff _).mp (hom_of_mem_pc hr0 hr0l)
  -- dimension 0 is not virtual
  have hk0 : kind dk' 0 ≠ GEN_VIRTUAL := by
    intro hv
    have hz : ∀ r ∈ out, get r.e 0 = 0 := by
      intro r hr
      obtain ⟨j, hj, rfl⟩ := (mem_iff_rowAt out r).mp hr
      exact Tri_col0 _ _ htri j hj (Or.inr hv)
    obtain ⟨m, hm⟩ := hom_coord0 (n := n) (rows := out) 0 (fun r hr _ => ⟨0, by rw [hz r hr]; ring⟩)
      (fun r hr _ => hz r hr) hpt
    simp only [Pi.smul_apply, smul_eq_mul, hv_zero_coord, hr0D, Int.cast_zero, mul_zero] at hm
    rcases mul_eq_zero.mp hm with h1 | h1
    · exact hkQ h1
    · exact hDQ h1
  obtain ⟨hlen1, hrow0⟩ := Tri_row0 _ _ htri (by omega) hk0
  have hlen1' : 0 < out.length := hlen1
  have hD'pos : 0 < get (rowAt out 0).e 0 := hrow0.2.1
  have hD'Q : ((get (rowAt out 0).e 0 : Int) : Rat) ≠ 0 := by exact_mod_cast (ne_of_gt hD'pos)
  have hcol0 : ∀ j, j < out.length → 1 ≤ j → get (rowAt out j).e 0 = 0 :=
    fun j hj h1 => Tri_col0 _ _ htri j hj (Or.inl h1)
  -- row 0 is not a line
  have hl0 : (rowAt out 0).line = false := by
    cases hh : (rowAt out 0).line
    · rfl
    · exfalso
      have hw : Hom n out ((k : Rat) • (((D : Rat) / (2 * (k : Rat) * (get (rowAt out 0).e 0 : Int))) • hv n (rowAt out 0))) := by
        rw [smul_smul]; exact hom_line hlen1' hh _
      obtain ⟨m, hm⟩ := c0rows _ ((hiff _).mpr hw)
      simp only [Pi.smul_apply, smul_eq_mul, hv_zero_coord] at hm
      have h2 : (2 : Rat) * k * m = 1 := by
        field_simp at hm
        linarith
      have h3 : (2 : Int) * k * m = 1 := by exact_mod_cast h2
      have h4 : (2 : Int) * (k * m) = 1 := by rw [← h3]; ring
      generalize k * m = t at h4
      omega
  have c0out : ∀ w, Hom n out w → ∃ m : Int, w 0 = (m : Rat) * (get (rowAt out 0).e 0 : Int) := by
    intro w hw
    refine hom_coord0 (get (rowAt out 0).e 0) ?_ ?_ hw
    · intro r hr _
      obtain ⟨j, hj, rfl⟩ := (mem_iff_rowAt out r).mp hr
      by_cases e : j = 0
      · rw [e]; exact ⟨1, by ring⟩
      · exact ⟨0, by rw [hcol0 j hj (by omega)]; ring⟩
    · intro r hr hl
      obtain ⟨j, hj, rfl⟩ := (mem_iff_rowAt out r).mp hr
      by_cases e : j = 0
      · rw [e, hl0] at hl; cases hl
      · exact hcol0 j hj (by omega)
  -- the divisor of the output is `k * D`
  have hD'eq : get (rowAt out 0).e 0 = k * D := by
    obtain ⟨m1, hm1⟩ := c0out _ hpt
    have hrow0hom : Hom n out (hv n (rowAt out 0)) := hom_pc hlen1' hl0
    have hback : Hom n rows ((1 / (k : Rat)) • hv n (rowAt out 0)) := by
      refine (hiff _).mpr ?_
      rw [smul_smul]
      have : (k : Rat) * (1 / k) = 1 := by field_simp
      rw [this, one_smul]; exact hrow0hom
    obtain ⟨m2, hm2⟩ := c0rows _ hback
    simp only [Pi.smul_apply, smul_eq_mul, hv_zero_coord, hr0D] at hm1 hm2
    have e1 : k * D = m1 * get (rowAt out 0).e 0 := by exact_mod_cast hm1
    have e2 : get (rowAt out 0).e 0 = m2 * D * k := by
      have : ((get (rowAt out 0).e 0 : Int) : Rat) = m2 * D * k := by
        field_simp at hm2; linarith
      exact_mod_cast this
    have hkD : 0 < k * D := Int.mul_pos hk hD
    have hm2pos : 0 < m2 := by
      by_contra hneg
      have : m2 * D * k ≤ 0 := by
        have : m2 ≤ 0 := by omega
        nlinarith
      omega
    have hprod : m1 * m2 = 1 := by
      have : (k * D) * (m1 * m2 - 1) = 0 := by
        have : k * D = m1 * (m2 * D * k) := by rw [← e2]; exact e1
        linear_combination -this
      rcases mul_eq_zero.mp this with h1 | h1
      · omega
      · omega
    have hm1pos : 0 < m1 := by
      by_contra hneg
      have : m1 * m2 ≤ 0 := by
        have : m1 ≤ 0 := by omega
        nlinarith
      omega
    have hm2one : m2 = 1 := by nlinarith
    rw [e2, hm2one]; ring
  refine ⟨k, hk, ⟨Int.mul_pos hk hD, ?_, ?_, ?_, ?_⟩, hiff⟩
  · intro r hr _
    obtain ⟨j, hj, rfl⟩ := (mem_iff_rowAt out r).mp hr
    by_cases e : j = 0
    · right; rw [e]; exact hD'eq
    · left; exact hcol0 j hj (by omega)
  · exact ⟨rowAt out 0, rowAt_mem out 0 hlen1', hl0, hD'eq⟩
  · intro r hr hl h0
    obtain ⟨j, hj, rfl⟩ := (mem_iff_rowAt out r).mp hr
    rw [hdiv j hj hl h0]; exact hD'eq
  · intro r hr hl
    obtain ⟨j, hj, rfl⟩ := (mem_iff_rowAt out r).mp hr
    by_cases e : j = 0
    · rw [e, hl0] at hl; cases hl
    · exact hcol0 j hj (by omega)

/-- **end to end**: the PPL reading of `Grid::simplify`'s output has the same points as the PPL reading of
    its input (input normalised with a positive divisor `D`, as every `Grid_Generator_System` of a grid is) -/
theorem simplifyGens_gensOf {n : Nat} {D : Int} {rows : List GRow} (dk : List Nat) (hwf : GWf n rows)
    (hN : Normalised n D rows) :
    ∃ g g' : Gens, gensOf n rows = some (.gens g) ∧ gensOf n (simplifyGens n rows dk).1 = some (.gens g') ∧
      ∀ x, Gen.sem (.gens g') x ↔ Gen.sem (.gens g) x := by
  obtain ⟨k, hk, hN', hiff⟩ := simplifyGens_normalised dk hwf hN
  obtain ⟨g, hg, hs⟩ := gensOf_sem hN
  obtain ⟨g', hg', hs'⟩ := gensOf_sem hN'
  refine ⟨g, g', hg, hg', fun x => ?_⟩
  rw [hs' x, hs x, hiff]
  have e : homog ((k * D : Int) : Rat) x = (k : Rat) • homog (D : Rat) x := by
    funext i
    cases i with
    | zero => simp [homog]
    | succ i => simp [homog]; ring
  rw [e]

/-! ### concrete instance: `exGRows` (point `(1/2,0)`, line `(1,1)`, parameter `(3/2,0)`, divisor 2) -/

theorem exRows_norm : Normalised 2 2 exGRows where
  Dpos := by decide
  pc := by decide
  pt := by decide
  par := by decide
  ln := by decide

example : ∃ g : Gens, gensOf 2 exGRows = some (.gens g) ∧
    ∀ x, Gen.sem (.gens g) x ↔ Hom 2 exGRows (homog ((2 : Int) : Rat) x) := gensOf_sem exRows_norm

example : ∃ g g' : Gens, gensOf 2 exGRows = some (.gens g) ∧
    gensOf 2 (simplifyGens 2 exGRows []).1 = some (.gens g') ∧
    ∀ x, Gen.sem (.gens g') x ↔ Gen.sem (.gens g) x := simplifyGens_gensOf [] exRows_wf exRows_norm

end PPLV.Lattice.Red
