import PPLV.Lattice.ProofsGridOpsGen24

/-!
# Generator side of the `Grid` object, part 25 — `relation_with(const Congruence&)`: the decisions after the loop; the
# concrete setting (a normalised generator system, a congruence row of the right size)
-/
namespace PPLV.Lattice.GO
open PPLV.Lattice PPLV.Lattice.Red

/-! ### after the loop -/

theorem gn_final_included (C : gn_RelCtx) {st : RelSt} (hI : gn_RInv C st C.rows) (hpt : ∃ p ∈ C.rows, gn_isPt p = true)
    (h0 : st.pointSp = 0) : ∀ x ∈ C.S, ∃ t : Int, C.val x = (t : ℚ) * (C.M : ℚ) := by
  obtain ⟨p, hp, pp⟩ := hpt
  rcases hI.kind with ⟨_, _, c, _⟩ | ⟨_, _, _, d, _, f⟩ | ⟨a, _⟩
  · rw [c p hp] at pp; cases pp
  · intro x hx
    obtain ⟨j, hj⟩ := f p hp pp
    obtain ⟨t, ht⟩ := C.ind C.M p hp pp hI.lines (fun q hq pq => by rw [← d]; exact hI.pars q hq pq)
      (fun r hr pr => dvd_sub (f r hr pr) (f p hp pp)) x hx
    exact ⟨j + t, by rw [ht, hj]; push_cast; ring⟩
  · exact absurd h0 a

theorem gn_final_disjoint (C : gn_RelCtx) {st : RelSt} (hI : gn_RInv C st C.rows) (h0 : st.pointSp ≠ 0) :
    ∀ x ∈ C.S, ¬ ∃ t : Int, C.val x = (t : ℚ) * (C.M : ℚ) := by
  rcases hI.kind with ⟨a, _⟩ | ⟨a, _⟩ | ⟨_, _, p0, hp0, pp, c, d, f⟩
  · exact absurd a h0
  · exact absurd a h0
  · intro x hx ⟨t', ht'⟩
    obtain ⟨t, ht⟩ := C.ind st.div p0 hp0 pp hI.lines hI.pars f x hx
    obtain ⟨j, hj⟩ := hI.dvdM
    apply d
    have h1 : st.div ∣ C.spf p0 := by
      refine ⟨t' * j - t, ?_⟩
      have : ((C.spf p0 : Int) : ℚ) = ((st.div * (t' * j - t) : Int) : ℚ) := by
        rw [ht'] at ht
        rw [hj] at ht
        push_cast at ht ⊢
        linear_combination -ht
      exact_mod_cast this
    have := dvd_sub h1 c
    simpa using this

/-! ### the value function of a congruence row on the homogeneous coordinates -/

/-- `D ×` the value of the expression of `c` at `x` -/
def gn_cgVal (D : Int) (c : CRow) (x : Pt) : ℚ := alphaOf (ratRow c.e) (homog (D : ℚ) x)

theorem gn_cgVal_affine (D : Int) (c : CRow) (a b b' : Pt) (k : ℚ) :
    gn_cgVal D c (a + k • (b - b')) = gn_cgVal D c a + k * (gn_cgVal D c b - gn_cgVal D c b') := by
  unfold gn_cgVal
  have e : (k * (D : ℚ)) • shift (b - b') = k • (homog (D : ℚ) b - homog (D : ℚ) b') := by
    rw [homog_sub, smul_smul]
  rw [homog_add_shift, e, map_add, map_smul, map_sub, smul_eq_mul]

theorem gn_cgVal_dir (D : Int) (c : CRow) (a v : Pt) (q : ℚ) :
    gn_cgVal D c (a + q • v) = gn_cgVal D c a + q * ((D : ℚ) * alphaOf (ratRow c.e) (shift v)) := by
  unfold gn_cgVal
  rw [homog_add_shift, map_add, map_smul, smul_eq_mul]; ring

theorem gn_cgVal_sem {n : Nat} (D : Int) (hD : D ≠ 0) (c : CRow) (hc : c.e.length = n + 1) (x : Pt) :
    c.toCg.sem x ↔ ∃ t : Int, gn_cgVal D c x = (t : ℚ) * ((c.m * D : Int) : ℚ) := by
  have hDq : (D : ℚ) ≠ 0 := by exact_mod_cast hD
  unfold gn_cgVal
  rw [alphaOf_homog c.e (by omega), gn_toCg_sem_iff]
  constructor
  · rintro ⟨t, ht⟩; exact ⟨t, by rw [ht]; push_cast; ring⟩
  · rintro ⟨t, ht⟩
    refine ⟨t, mul_left_cancel₀ hDq ?_⟩
    rw [ht]; push_cast; ring

section ctx
variable {n : Nat} {D : Int} {rows : List GRow} (hN : GNorm n D rows) (hw : GWf n rows) (c : CRow)
  (hc : c.e.length = n + 1)
include hN hw hc

theorem gn_cgVal_pt {p : GRow} (hp : p ∈ rows) (pp : gn_isPt p = true) :
    gn_cgVal D c (gn_vecOf p) = ((dotRow c.e p.e n : Int) : ℚ) := by
  obtain ⟨hl, h0⟩ := (gn_isPt_iff p).mp pp
  have e0 : get p.e 0 = D := by
    rcases hN.col0 p hp hl with q | q
    · exact absurd q h0
    · exact q
  unfold gn_cgVal
  rw [gn_vecOf_pt (hw p hp) pp, e0, ← hvec_point n p D (ne_of_gt hN.pos) e0, alphaOf_hvec n c.e hc]

theorem gn_cgVal_par {q : GRow} (hq : q ∈ rows) (pq : gn_isPar q = true) :
    (D : ℚ) * alphaOf (ratRow c.e) (shift (gn_vecOf q)) = ((dotRow c.e q.e n : Int) : ℚ) := by
  obtain ⟨hl, h0⟩ := (gn_isPar_iff q).mp pq
  have hDq : (D : ℚ) ≠ 0 := by exact_mod_cast ne_of_gt hN.pos
  rw [← alphaOf_hvec n c.e hc, hvec_dir n q (D : ℚ) hDq h0, map_smul, smul_eq_mul, gn_vecOf_par (hw q hq) pq,
    hN.par q hq hl h0]

theorem gn_cgVal_line {l : GRow} (hl' : l ∈ rows) (hl : l.line = true) :
    alphaOf (ratRow c.e) (shift (gn_vecOf l)) = ((dotRow c.e l.e n : Int) : ℚ) := by
  have e := hvec_dir n l 1 one_ne_zero (hN.lin l hl' hl)
  rw [one_smul] at e
  rw [← alphaOf_hvec n c.e hc, e, gn_vecOf_line (hw l hl') hl]

/-- the setting of the loop for a normalised generator system and a congruence row of the right size -/
def gn_mkRelCtx : gn_RelCtx where
  S := gn_set rows
  val := gn_cgVal D c
  M := c.m * D
  rows := rows
  spf := fun r => dotRow c.e r.e n
  pt_mem := fun p hp pp => ⟨gn_mem_pt hp pp, gn_cgVal_pt hN hw c hc hp pp⟩
  par_step := fun q hq pq a ha k =>
    ⟨_, gn_mem_par_step hq pq ha k, by rw [gn_cgVal_dir, gn_cgVal_par hN hw c hc hq pq]⟩
  pt_step := fun p hp pp p' hp' pp' a ha k =>
    ⟨_, gn_mem_affine k ha (gn_mem_pt hp pp) (gn_mem_pt hp' pp'), by
      rw [gn_cgVal_affine, gn_cgVal_pt hN hw c hc hp pp, gn_cgVal_pt hN hw c hc hp' pp']⟩
  line_any := fun l hl' hl h0 a ha w => by
    have hDq : (D : ℚ) ≠ 0 := by exact_mod_cast ne_of_gt hN.pos
    have h0q : ((dotRow c.e l.e n : Int) : ℚ) ≠ 0 := by exact_mod_cast h0
    refine ⟨_, gn_mem_line_step hl' hl ha ((w - gn_cgVal D c a) / ((D : ℚ) * ((dotRow c.e l.e n : Int) : ℚ))), ?_⟩
    rw [gn_cgVal_dir, gn_cgVal_line hN hw c hc hl' hl]
    field_simp
    ring
  ind := fun d p0 hp0 pp0 hlines hpars hpts => by
    have key : gn_set rows ⊆ {x | ∃ t : Int, gn_cgVal D c x = ((dotRow c.e p0.e n : Int) : ℚ) + (t : ℚ) * (d : ℚ)} := by
      refine gn_mem_least ?_ ?_ ?_ ?_
      · rintro a ⟨ta, ha⟩ b ⟨tb, hb⟩ b' ⟨tb', hb'⟩ k
        exact ⟨ta + k * (tb - tb'), by rw [gn_cgVal_affine, ha, hb, hb']; push_cast; ring⟩
      · intro p hp pp
        obtain ⟨j, hj⟩ := hpts p hp pp
        refine ⟨j, ?_⟩
        rw [gn_cgVal_pt hN hw c hc hp pp]
        have : ((dotRow c.e p.e n : Int) : ℚ) - ((dotRow c.e p0.e n : Int) : ℚ) = ((d * j : Int) : ℚ) := by
          rw [← hj]; push_cast; ring
        push_cast at this
        linear_combination this
      · rintro q hq pq a ⟨ta, ha⟩ k
        obtain ⟨j, hj⟩ := hpars q hq pq
        refine ⟨ta + k * j, ?_⟩
        rw [gn_cgVal_dir, gn_cgVal_par hN hw c hc hq pq, ha, hj]; push_cast; ring
      · rintro l hl' hl a ⟨ta, ha⟩ q
        refine ⟨ta, ?_⟩
        rw [gn_cgVal_dir, gn_cgVal_line hN hw c hc hl' hl, hlines l hl' hl, ha]; simp
    exact fun x hx => key hx

end ctx

end PPLV.Lattice.GO
