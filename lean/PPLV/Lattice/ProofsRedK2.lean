import PPLV.Lattice.ProofsRedBridge
import PPLV.Lattice.ProofsDecide
import PPLV.Lattice.ProofsConvCGCert

/-!
# From the homogeneous lattice to K2's deciders

* `gnormB_sound`: the decidable normal-form test implies `GNorm`;
* `hom_scaled_divisor`: if `Hom n out = k·Hom n rows` and both systems are normalised, the divisor of `out` is
  `k·D` and the two systems denote the same grid;
* hence `equivB (gensOf rows) (gensOf out) = true` (`equivB_of_homScaled`).
-/
namespace PPLV.Lattice.Red
open PPLV.Lattice

theorem gnormB_sound (n : Nat) (rows : List GRow) (h : gnormB n rows = true) :
    GNorm n (get (rowAt rows 0).e 0) rows := by
  simp only [gnormB, Bool.and_eq_true, decide_eq_true_eq, Bool.not_eq_true', List.all_eq_true] at h
  obtain ⟨⟨⟨hD, hlen⟩, hl0⟩, hall⟩ := h
  refine ⟨hD, ⟨rowAt rows 0, rowAt_mem rows 0 hlen, hl0, rfl⟩, ?_, ?_, ?_⟩
  · intro r hr hl
    have := hall r hr
    simp only [hl, Bool.false_eq_true, if_false, Bool.or_eq_true, beq_iff_eq, Bool.and_eq_true] at this
    rcases this with h1 | h1
    · exact Or.inr h1
    · exact Or.inl h1.1
  · intro r hr hl h0
    have := hall r hr
    simp only [hl, Bool.false_eq_true, if_false, Bool.or_eq_true, beq_iff_eq, Bool.and_eq_true] at this
    rcases this with h1 | h1
    · rw [h0] at h1; omega
    · exact h1.2
  · intro r hr hl
    have := hall r hr
    simpa [hl] using this

/-- column 0 of every vector of the homogeneous lattice of a normalised system is an integer multiple of `D` -/
theorem hom_col0 (n : Nat) (D : Int) (rows : List GRow) (h : GNorm n D rows) (v : Pt) (hv : Hom n rows v) :
    ∃ m : ℤ, v 0 = (m : ℚ) * (D : ℚ) := by
  induction hv with
  | zero => exact ⟨0, by simp⟩
  | @param w q k hq _ ih =>
    obtain ⟨m, hm⟩ := ih
    simp only [pcVecs, List.map_map, List.mem_map, List.mem_filter, Function.comp] at hq
    obtain ⟨r, ⟨hr, hl⟩, rfl⟩ := hq
    have hl' : r.line = false := by simpa using hl
    rcases h.col0 r hr hl' with h0 | h0
    · exact ⟨m, by simp [hm, hvec_toFun, h0]⟩
    · exact ⟨m + k, by simp [hm, hvec_toFun, h0]; ring⟩
  | @line w l c hl _ ih =>
    obtain ⟨m, hm⟩ := ih
    simp only [lineVecs, List.map_map, List.mem_map, List.mem_filter, Function.comp] at hl
    obtain ⟨r, ⟨hr, hl'⟩, rfl⟩ := hl
    exact ⟨m, by simp [hm, hvec_toFun, h.lin r hr hl']⟩

theorem smul_homog (k D : ℚ) (x : Pt) : k • homog D x = homog (k * D) x := by
  funext i
  cases i with
  | zero => simp [homog]
  | succ i => simp [homog]; ring

/-- the point row of a normalised system is in its lattice -/
theorem hom_point (n : Nat) (D : Int) (rows : List GRow) (h : GNorm n D rows) :
    ∃ v, Hom n rows v ∧ v 0 = (D : ℚ) := by
  obtain ⟨r, hr, hl, h0⟩ := h.pt
  refine ⟨(r.hvec n).toFun, Abs.Dir.of_param ?_, by simp [hvec_toFun, h0]⟩
  simp only [pcVecs, List.map_map, List.mem_map, List.mem_filter]
  exact ⟨r, ⟨hr, by simp [hl]⟩, rfl⟩

/-- `Hom n out = k·Hom n rows`, both normalised: the divisor of `out` is `k·D`, and the grids agree -/
theorem hom_scaled_divisor (n : Nat) (D D' : Int) (rows out : List GRow) (hin : GNorm n D rows) (hout : GNorm n D' out)
    (k : ℤ) (hk : 0 < k) (hH : ∀ v, Hom n rows v ↔ Hom n out ((k : ℚ) • v)) :
    D' = k * D ∧ ∀ x, Hom n rows (homog (D : ℚ) x) ↔ Hom n out (homog (D' : ℚ) x) := by
  have hDpos := hin.pos
  have hD'pos := hout.pos
  have hkq : (k : ℚ) ≠ 0 := by exact_mod_cast (by omega : k ≠ 0)
  -- k·D is a multiple of D'
  obtain ⟨v, hv, hv0⟩ := hom_point n D rows hin
  obtain ⟨m, hm⟩ := hom_col0 n D' out hout _ ((hH v).mp hv)
  have e1 : k * D = m * D' := by
    have : (k : ℚ) * (D : ℚ) = (m : ℚ) * (D' : ℚ) := by simpa [hv0] using hm
    exact_mod_cast this
  -- D' is a multiple of k·D
  obtain ⟨w, hw, hw0⟩ := hom_point n D' out hout
  have hw' : Hom n rows ((1 / (k : ℚ)) • w) := by
    rw [hH, smul_smul]; simpa [hkq] using hw
  obtain ⟨m', hm'⟩ := hom_col0 n D rows hin _ hw'
  have e2 : D' = m' * (k * D) := by
    have : (D' : ℚ) = (m' : ℚ) * ((k : ℚ) * (D : ℚ)) := by
      have h3 : (1 / (k : ℚ)) * (D' : ℚ) = (m' : ℚ) * (D : ℚ) := by simpa [hw0] using hm'
      field_simp at h3
      linarith
    exact_mod_cast this
  have hkD : 0 < k * D := Int.mul_pos hk hDpos
  have hmm : m * m' = 1 := by
    have : k * D = (m * m') * (k * D) := by
      calc k * D = m * D' := e1
        _ = m * (m' * (k * D)) := by rw [← e2]
        _ = (m * m') * (k * D) := by ring
    have h4 : (m * m' - 1) * (k * D) = 0 := by linarith
    rcases Int.mul_eq_zero.mp h4 with h5 | h5
    · omega
    · omega
  have hm'pos : 0 < m' := by
    by_contra hc
    have : m' ≤ 0 := by omega
    have := Int.mul_nonpos_of_nonpos_of_nonneg this (Int.le_of_lt hkD)
    omega
  have hm1 : m' = 1 := by
    rcases Int.eq_one_or_neg_one_of_mul_eq_one' hmm with ⟨_, h6⟩ | ⟨_, h6⟩
    · exact h6
    · omega
  have hD' : D' = k * D := by rw [e2, hm1]; ring
  refine ⟨hD', fun x => ?_⟩
  rw [hH, smul_homog, hD']; push_cast; rfl

/-- **the K2 decider accepts**: two normalised systems with `Hom n out = k·Hom n rows` have `equivB`-equal readings -/
theorem equivB_of_homScaled (n : Nat) (D D' : Int) (rows out : List GRow) (hin : GNorm n D rows) (hout : GNorm n D' out)
    (k : ℤ) (hk : 0 < k) (hH : ∀ v, Hom n rows v ↔ Hom n out ((k : ℚ) • v)) :
    ∃ G G', gensOf n rows = some G ∧ gensOf n out = some G' ∧ equivB G G' = true := by
  obtain ⟨G, hG, hGs⟩ := gensOf_gnorm n D rows hin
  obtain ⟨G', hG', hGs'⟩ := gensOf_gnorm n D' out hout
  refine ⟨G, G', hG, hG', ?_⟩
  rw [equivB_iff]
  intro x
  rw [hGs, hGs', (hom_scaled_divisor n D D' rows out hin hout k hk hH).2 x]

/-- the divisor of a normalised system whose first row is a point is that row's inhomogeneous term -/
theorem gnorm_divisor (n : Nat) (D : Int) (rows : List GRow) (h : GNorm n D rows) (hs : gensShapeB rows = true) :
    get (rowAt rows 0).e 0 = D := by
  simp only [gensShapeB, Bool.and_eq_true, decide_eq_true_eq, Bool.not_eq_true'] at hs
  obtain ⟨⟨⟨hlen, hl0⟩, hpos⟩, _⟩ := hs
  rcases h.col0 _ (rowAt_mem rows 0 hlen) hl0 with h0 | h0
  · omega
  · exact h0

/-- **generators → congruences, K2 form**: a normalised source accepted by the checker is included (K2's verified
    inclusion decider) in the K2 grid of the produced congruences -/
theorem gcCert_subsetB (n : Nat) (D : Int) (source : List GRow) (dest : List CRow) (hn : GNorm n D source)
    (hw : GWf n source) (hlen : ∀ c ∈ dest, c.e.length = n + 1) (h : gcCertB n source dest = true) :
    ∃ G, gensOf n source = some G ∧ subsetB G (consToGens n (cgsOf dest)) = true := by
  obtain ⟨G, hG, hGs⟩ := gensOf_gnorm n D source hn
  refine ⟨G, hG, ?_⟩
  rw [subsetB_iff]
  intro x hx
  rw [consToGens_sem]
  have hshape : gensShapeB source = true := ((gcCertB_iff n source dest).mp h).1
  have := gcCert_sound n source dest hw hlen h x (by rw [gnorm_divisor n D source hn hshape]; exact (hGs x).mp hx)
  exact this

/-- **congruences → generators, K2 form**: the produced generators (normalised, accepted by the checker) are
    included in the K2 grid of the source congruences -/
theorem cgCert_subsetB (n : Nat) (D : Int) (source : List CRow) (dest : List GRow) (hn : GNorm n D dest)
    (hw : GWf n dest) (hc : CWf n source) (h : cgCertB n source dest = true) :
    ∃ G, gensOf n dest = some G ∧ subsetB G (consToGens n (cgsOf source)) = true :=
  gcCert_subsetB n D dest source hn hw (fun c hcm => (hc c hcm).1) h

end PPLV.Lattice.Red
