import PPLV.Lattice.ProofsGridOpsCon22
import PPLV.Lattice.ProofsGridOpsGen7

/-!
# `Grid` stage 3, part 26: `is_discrete()` (Grid_public.cc) against `g.sem` — the answer is "the grid contains no line"
-/
namespace PPLV.Lattice.GO
open PPLV.Lattice PPLV.Lattice.Red

/-- `S` contains a line: a point and a non-zero direction all of whose rational multiples stay in `S` -/
def cn_HasLine (S : Set Pt) : Prop := ∃ x ∈ S, ∃ v : Pt, v ≠ 0 ∧ ∀ c : ℚ, x + c • v ∈ S

theorem cn_up1_spec (g : Grid) (hI : GridInv g) (he : g.st.empty = false) (hpos : 0 < g.spaceDim) :
    GridInv (cn_up1 g).1 ∧ (cn_up1 g).1.sem = g.sem ∧ (cn_up1 g).1.spaceDim = g.spaceDim ∧
    ((cn_up1 g).2 = true ↔ g.sem.Nonempty) ∧ ((cn_up1 g).2 = false → (cn_up1 g).1.st.empty = true) ∧
    ((cn_up1 g).2 = true → (cn_up1 g).1.st.empty = false ∧ (cn_up1 g).1.st.gUp = true) := by
  by_cases hg : g.st.gUp = true
  · have : cn_up1 g = (g, true) := by simp [cn_up1, Grid.generatorsAreUpToDate, hg]
    rw [this]
    refine ⟨hI, rfl, rfl, ⟨fun _ => ?_, fun _ => rfl⟩, (fun h => by cases h), fun _ => ⟨he, hg⟩⟩
    obtain ⟨_, _, hgn, _⟩ := gn_sem_of_gUp hI hpos he hg
    rw [lz_sem_of_gUp he hpos hg]
    exact lz_gensSet_nonempty hgn
  · have hgf : g.st.gUp = false := by simpa using hg
    have : cn_up1 g = updateGenerators g := by simp [cn_up1, Grid.generatorsAreUpToDate, hg]
    rw [this]
    have hc : g.st.cUp = true := (hI.some he hpos).resolve_right hg
    obtain ⟨u1, u2, u3, u4, u5, u6⟩ := updateGenerators_spec' g hI he hpos hc hgf
    exact ⟨u1, u2, u3, u4, u6, fun h => ⟨(u5 h).1, (u5 h).2.1⟩⟩

theorem cn_isDiscrete_eq (g : Grid) : isDiscrete g =
    if g.spaceDim = 0 ∨ g.markedEmpty then (g, true)
    else if (cn_up1 g).2 = false then ((cn_up1 g).1, true)
    else ((cn_up1 g).1, (cn_up1 g).1.gen.reverse.all fun row => !(row.line && !row.allHomZero)) := by
  unfold isDiscrete
  split
  · rfl
  · show (if (!(cn_up1 g).2) = true then _ else _) = _
    cases (cn_up1 g).2 <;> rfl

/-- the vector of a row whose homogeneous terms are not all zero is not zero -/
theorem cn_vecOf_ne_zero {n : Nat} {r : GRow} (hlen : r.e.length = n + 2) (hd : cn_den r ≠ 0)
    (h : r.allHomZero = false) : gn_vecOf r ≠ 0 := by
  intro hv
  have : r.allHomZero = true := by
    unfold GRow.allHomZero allZ
    rw [List.all_eq_true]
    intro i hi
    rw [List.mem_range'] at hi
    obtain ⟨k, hk, rfl⟩ := hi
    have hk' : k < n := by omega
    have := congrFun hv k
    unfold gn_vecOf at this
    rw [gn_spaceDim_of_len hlen, if_pos hk'] at this
    have hd' : ((if r.line then 1 else (r.divisor : ℚ)) : ℚ) ≠ 0 := by
      unfold cn_den at hd
      split
      · exact one_ne_zero
      · rename_i hl; rw [if_neg hl] at hd; exact_mod_cast hd
    have h0 : ((Red.get r.e (k + 1) : Int) : ℚ) = 0 := by
      rcases div_eq_zero_iff.mp this with h | h
      · exact h
      · exact absurd h hd'
    have : Red.get r.e (1 + 1 * k) = 0 := by
      rw [show 1 + 1 * k = k + 1 by omega]; exact_mod_cast h0
    simpa using this
  rw [this] at h; cases h

/-- a generator system with normalised divisors: discrete iff every line row is the zero row -/
theorem cn_discrete_rows {n : Nat} {D : Int} {rows : List GRow} (hN : GNorm n D rows) (hw : GWf n rows) :
    (rows.reverse.all fun row => !(row.line && !row.allHomZero)) = true ↔ ¬ cn_HasLine (gn_set rows) := by
  rw [List.all_reverse, List.all_eq_true]
  have hDq : (D : ℚ) ≠ 0 := by exact_mod_cast (ne_of_gt hN.pos)
  constructor
  · intro h ⟨x, hx, v, hv, hline⟩
    have hzl : ∀ r ∈ rows, r.line = true → gn_vecOf r = 0 := by
      intro r hr hl
      have := h r hr
      rw [hl] at this
      exact gn_vecOf_allHomZero (by simpa using this)
    -- `D` times a direction is an integer vector
    have hint : ∀ w, gn_Dir rows w → ∀ i, ∃ k : Int, (D : ℚ) * w i = (k : ℚ) := by
      intro w hwd
      have hrow : ∀ r ∈ rows, r.line = false → ∀ i, ∃ k : Int, (D : ℚ) * gn_vecOf r i = (k : ℚ) := by
        intro r hr hl i
        have hdiv := cn_den_pos.gn_divisor_of_gnorm_aux hN hw hr hl
        unfold gn_vecOf
        rw [hl, hdiv]
        split
        · exact ⟨Red.get r.e (i + 1), by simp only [Bool.false_eq_true, if_false]; field_simp⟩
        · exact ⟨0, by simp⟩
      refine gn_dir_le (S := fun w => ∀ i, ∃ k : Int, (D : ℚ) * w i = (k : ℚ)) (fun i => ⟨0, by simp⟩) ?_ ?_ ?_ ?_ ?_ hwd
      · intro v1 v2 h1 h2 i
        obtain ⟨k1, e1⟩ := h1 i; obtain ⟨k2, e2⟩ := h2 i
        exact ⟨k1 + k2, by simp only [Pi.add_apply]; rw [mul_add, e1, e2]; push_cast; ring⟩
      · intro k v1 h1 i
        obtain ⟨k1, e1⟩ := h1 i
        exact ⟨k * k1, by simp only [Pi.smul_apply, smul_eq_mul]; rw [← mul_assoc, mul_comm (D : ℚ), mul_assoc, e1]; push_cast; ring⟩
      · intro r1 m1 p1 r2 m2 p2 i
        obtain ⟨k1, e1⟩ := hrow r1 m1 ((gn_isPt_iff r1).mp p1).1 i
        obtain ⟨k2, e2⟩ := hrow r2 m2 ((gn_isPt_iff r2).mp p2).1 i
        exact ⟨k1 - k2, by simp only [Pi.sub_apply]; rw [mul_sub, e1, e2]; push_cast; ring⟩
      · intro r m pr i; exact hrow r m ((gn_isPar_iff r).mp pr).1 i
      · intro r m hl c i; rw [hzl r m hl]; exact ⟨0, by simp⟩
    apply hv
    funext i
    by_contra hvi
    have hvi' : v i ≠ 0 := hvi
    have hdir : gn_Dir rows ((1 / (2 * ((D : ℚ) * v i))) • v) := by
      have := gn_mem_sub (hline (1 / (2 * ((D : ℚ) * v i)))) hx
      simpa using this
    obtain ⟨k, hk⟩ := hint _ hdir i
    simp only [Pi.smul_apply, smul_eq_mul] at hk
    have h2 : (1 : ℚ) = 2 * (k : ℚ) := by
      have hne : (D : ℚ) * v i ≠ 0 := mul_ne_zero hDq hvi'
      field_simp at hk; linarith
    have h3 : (1 : Int) = 2 * k := by exact_mod_cast h2
    omega
  · intro h r hr
    by_contra hc
    have hl : r.line = true ∧ r.allHomZero = false := by
      cases hl : r.line <;> cases ha : r.allHomZero <;> simp [hl, ha] at hc ⊢
    apply h
    obtain ⟨p, hp, hpl, hp0⟩ := hN.pt
    have hpp : gn_isPt p = true := (gn_isPt_iff p).mpr ⟨hpl, by rw [hp0]; exact ne_of_gt hN.pos⟩
    refine ⟨_, gn_mem_pt hp hpp, gn_vecOf r, ?_, fun c => gn_mem_line_step hr hl.1 (gn_mem_pt hp hpp) c⟩
    exact cn_vecOf_ne_zero (hw r hr) (by unfold cn_den; rw [hl.1]; exact one_ne_zero) hl.2

theorem cn_noLine_zdim : ¬ cn_HasLine (spaceSet 0) := by
  rintro ⟨x, hx, v, hv, h⟩
  have h1 : x = 0 := by funext i; exact hx i (Nat.zero_le _)
  have h2 : x + (1 : ℚ) • v = 0 := by funext i; exact h 1 i (Nat.zero_le _)
  rw [h1, one_smul, zero_add] at h2
  exact hv h2

/-- `is_discrete()`: the answer is "the grid contains no line"; the object keeps its grid -/
theorem cn_isDiscrete (g : Grid) (hI : GridInv g) :
    GridInv (isDiscrete g).1 ∧ (isDiscrete g).1.sem = g.sem ∧ (isDiscrete g).1.spaceDim = g.spaceDim ∧
    ((isDiscrete g).2 = true ↔ ¬ cn_HasLine g.sem) := by
  rw [cn_isDiscrete_eq]
  by_cases h0 : g.spaceDim = 0 ∨ g.markedEmpty = true
  · rw [if_pos h0]
    refine ⟨hI, rfl, rfl, ⟨fun _ => ?_, fun _ => rfl⟩⟩
    by_cases hemp : g.st.empty = true
    · rw [lz_sem_of_empty hemp]; rintro ⟨x, hx, _⟩; exact absurd hx (Set.notMem_empty _)
    · rcases h0 with h0 | h0
      · rw [lz_sem_of_zdim (by simpa using hemp) h0]; exact cn_noLine_zdim
      · exact absurd h0 hemp
  · rw [if_neg h0]
    have hne : g.st.empty = false := by
      by_contra h; exact h0 (Or.inr (show g.st.empty = true by simpa using h))
    have hpos : 0 < g.spaceDim := by
      by_contra h; exact h0 (Or.inl (by omega))
    obtain ⟨p1, p2, p3, p4, p5, p6⟩ := cn_up1_spec g hI hne hpos
    by_cases hb : (cn_up1 g).2 = false
    · rw [if_pos hb]
      refine ⟨p1, p2, p3, ⟨fun _ => ?_, fun _ => rfl⟩⟩
      rw [← p2, lz_sem_of_empty (p5 hb)]; rintro ⟨x, hx, _⟩; exact absurd hx (Set.notMem_empty _)
    · rw [if_neg hb]
      obtain ⟨q1, q2⟩ := p6 (by simpa using hb)
      obtain ⟨_, w1, w2, w3⟩ := gn_sem_of_gUp p1 (by omega) q1 q2
      refine ⟨p1, p2, p3, ?_⟩
      rw [cn_discrete_rows w2 w1, ← w3, p2]

example : (isDiscrete cn_exGrid').2 = true := by decide +kernel

end PPLV.Lattice.GO
