import PPLV.Lattice.ProofsGridOpsGen25

/-!
# Generator side of the `Grid` object, part 26 — `Grid::relation_with(const Congruence&)` (Grid_public.cc:390) in positive
# dimension: the four answers against `g.sem` and `CRow.set cg`
-/
namespace PPLV.Lattice.GO
open PPLV.Lattice PPLV.Lattice.Red

/-! ### the scalar product of the loop is `dotRow` of the resized congruence row -/

theorem gn_dotUpto_comm (a b : Row) : ∀ k : Nat, dotUpto a b k = dotUpto b a k
  | 0 => rfl
  | k + 1 => by simp only [dotUpto]; rw [gn_dotUpto_comm a b k, mul_comm]

theorem gn_sp_eq_dotRow (cg : CRow) (n : Nat) (hd : cg.e.length ≤ n + 1) (r : GRow) :
    sp cg.e r.e = dotRow (cg.setSpaceDim n).e r.e n := by
  have e1 : sp cg.e r.e = dotUpto r.e cg.e cg.e.length := gn_spg_eq r.e cg.e cg.e.length
  have e2 : dotUpto r.e cg.e (n + 1) = dotUpto r.e cg.e cg.e.length :=
    gn_dotUpto_zero_tail r.e cg.e cg.e.length (n + 1) hd (fun i h1 _ => get_of_length_le _ _ h1)
  have e3 : dotUpto r.e cg.e (n + 1) = dotUpto r.e (cg.setSpaceDim n).e (n + 1) :=
    gn_dotUpto_congr _ _ _ _ (fun i hi => by
      show get cg.e i = get (resizeRow cg.e (n + 1)) i
      rw [gn_get_resizeRow, if_pos hi])
  rw [e1, ← e2, e3, gn_dotUpto_comm]; rfl

theorem gn_set_resized (cg : CRow) (n : Nat) {x : Pt} (hx : Supp n x) :
    x ∈ CRow.set cg ↔ (cg.setSpaceDim n).toCg.sem x := by
  rw [cn_mem_set, ← cn_rsem_setSpaceDim_supp cg n x hx, ← cn_mem_set]; rfl

theorem gn_find_isPoint {n : Nat} {D : Int} {rows : List GRow} (h : GNorm n D rows) :
    ∃ fp, rows.find? (·.isPoint) = some fp ∧ fp.divisor = D := by
  cases hf : rows.find? (·.isPoint) with
  | none =>
    obtain ⟨r, hr, hl, h0⟩ := h.pt
    have := List.find?_eq_none.mp hf r hr
    have hD : D ≠ 0 := ne_of_gt h.pos
    simp [GRow.isPoint, hl, h0, hD] at this
  | some fp =>
    refine ⟨fp, rfl, ?_⟩
    have hp := List.find?_some hf
    have hm := List.mem_of_find?_eq_some hf
    have hp' : fp.line = false ∧ get fp.e 0 ≠ 0 := by simpa [GRow.isPoint] using hp
    rw [divisor_point fp hp'.2]
    rcases h.col0 fp hm hp'.1 with q | q
    · exact absurd q hp'.2
    · exact q

/-! ### the meaning of the four flags -/

/-- `Poly_Con_Relation` of a grid `S` with the solution set `C` of a congruence -/
def gn_RelOK (rel : Rel) (S C : Set Pt) : Prop :=
  (rel.disjoint = true ↔ S ∩ C = ∅) ∧ (rel.included = true ↔ S ⊆ C) ∧
  (rel.strictlyIntersects = true ↔ ((S ∩ C).Nonempty ∧ ¬ S ⊆ C)) ∧ (rel.saturates = true → rel.included = true)

theorem gn_relOK_all3 (C : Set Pt) : gn_RelOK Rel.all3 ∅ C := by
  refine ⟨⟨fun _ => Set.empty_inter _, fun _ => rfl⟩, ⟨fun _ => Set.empty_subset _, fun _ => rfl⟩, ⟨fun h => (by cases h), ?_⟩,
    fun _ => rfl⟩
  rintro ⟨h, _⟩; rw [Set.empty_inter] at h; exact absurd h Set.not_nonempty_empty

theorem gn_relOK_si {S C : Set Pt} (hin : (S ∩ C).Nonempty) (hout : ¬ S ⊆ C) : gn_RelOK Rel.si S C :=
  ⟨⟨fun h => (by cases h), fun h => absurd h (Set.nonempty_iff_ne_empty.mp hin)⟩,
   ⟨fun h => (by cases h), fun h => absurd h hout⟩, ⟨fun _ => ⟨hin, hout⟩, fun _ => rfl⟩, fun h => (by cases h)⟩

theorem gn_relOK_incl {S C : Set Pt} (hne : S.Nonempty) (h : S ⊆ C) (b : Bool) :
    gn_RelOK { included := true, saturates := b } S C := by
  have hin : (S ∩ C).Nonempty := by obtain ⟨x, hx⟩ := hne; exact ⟨x, hx, h hx⟩
  exact ⟨⟨fun h' => (by cases h'), fun h' => absurd h' (Set.nonempty_iff_ne_empty.mp hin)⟩, ⟨fun _ => h, fun _ => rfl⟩,
    ⟨fun h' => (by cases h'), fun h' => absurd h h'.2⟩, fun _ => rfl⟩

theorem gn_relOK_disj {S C : Set Pt} (hne : S.Nonempty) (h : S ∩ C = ∅) : gn_RelOK { disjoint := true } S C := by
  have hout : ¬ S ⊆ C := by
    intro hs
    obtain ⟨x, hx⟩ := hne
    have : x ∈ S ∩ C := ⟨hx, hs hx⟩
    rw [h] at this; exact this
  exact ⟨⟨fun _ => h, fun _ => rfl⟩, ⟨fun h' => (by cases h'), fun h' => absurd h' hout⟩,
    ⟨fun h' => (by cases h'), fun h' => absurd h'.1 (by rw [h]; exact Set.not_nonempty_empty)⟩, fun h' => (by cases h')⟩

/-! ### the loop on a normalised system -/

/-- **the answer of the loop and of the decisions after it** for a well-formed normalised generator system and a
    congruence of the space with a non-negative modulus -/
theorem gn_relCg_rows {n : Nat} {D : Int} {rows : List GRow} (hN : GNorm n D rows) (hw : GWf n rows) (cg : CRow)
    (hd : cg.e.length ≤ n + 1) (hm : 0 ≤ cg.m) :
    ∃ rel, (match relCgLoop cg { div := cg.m * D } rows with
      | .inr rel => rel
      | .inl st =>
        if st.pointSp = 0 then
          (if cg.isEquality = true then { included := true, saturates := true } else { included := true })
        else { disjoint := true }) = rel ∧ gn_RelOK rel (gn_set rows) (CRow.set cg) ∧
      (rel.saturates = true ↔ rel.included = true ∧ cg.isEquality = true) := by
  have hclen : (cg.setSpaceDim n).e.length = n + 1 := gn_length_resizeRow _ _
  have hDne : D ≠ 0 := ne_of_gt hN.pos
  have hwf := gn_wf_of_gnorm hN hw
  obtain ⟨a0, ha0⟩ := gn_mem_nonempty hwf.pt
  have hne : (gn_set rows).Nonempty := ⟨a0, ha0⟩
  -- the abstract setting
  have hmem : ∀ x ∈ gn_set rows, (x ∈ CRow.set cg ↔
      ∃ t : Int, gn_cgVal D (cg.setSpaceDim n) x = (t : ℚ) * ((cg.m * D : Int) : ℚ)) := by
    intro x hx
    rw [gn_set_resized cg n (gn_mem_supp hw hx), gn_cgVal_sem D hDne _ hclen]; rfl
  have hpr : cg.isProperCongruence = false → (gn_mkRelCtx hN hw (cg.setSpaceDim n) hclen).M = 0 := by
    intro h
    have : cg.m = 0 := by
      have : ¬ cg.m > 0 := by simpa [CRow.isProperCongruence] using h
      omega
    show cg.m * D = 0
    rw [this, zero_mul]
  have hsp : ∀ r ∈ (gn_mkRelCtx hN hw (cg.setSpaceDim n) hclen).rows,
      sp cg.e r.e = (gn_mkRelCtx hN hw (cg.setSpaceDim n) hclen).spf r := fun r _ => gn_sp_eq_dotRow cg n hd r
  have hI0 : gn_RInv (gn_mkRelCtx hN hw (cg.setSpaceDim n) hclen) { div := cg.m * D } [] := by
    refine ⟨dvd_refl _, (gn_mkRelCtx hN hw (cg.setSpaceDim n) hclen).R_M, ?_, ?_, ?_⟩
    · intro r hr; cases hr
    · intro r hr; cases hr
    · exact Or.inl ⟨rfl, rfl, fun r hr => (by cases hr), fun _ => rfl, fun h => (by cases h)⟩
  have hloop := gn_loop (gn_mkRelCtx hN hw (cg.setSpaceDim n) hclen) hne cg hpr hsp rows [] { div := cg.m * D }
    (List.nil_append _) hI0
  have hInS : (gn_mkRelCtx hN hw (cg.setSpaceDim n) hclen).In → (gn_set rows ∩ CRow.set cg).Nonempty := by
    rintro ⟨x, hx, t, ht⟩
    exact ⟨x, hx, (hmem x hx).mpr ⟨t, ht⟩⟩
  have hOutS : (gn_mkRelCtx hN hw (cg.setSpaceDim n) hclen).Out → ¬ gn_set rows ⊆ CRow.set cg := by
    rintro ⟨y, hy, hny⟩ hs
    exact hny ((hmem y hy).mp (hs hy))
  cases hres : relCgLoop cg { div := cg.m * D } rows with
  | inr rel =>
    rw [hres] at hloop
    obtain ⟨e, hin, hout⟩ := hloop
    refine ⟨rel, rfl, ?_, ?_⟩
    · rw [e]; exact gn_relOK_si (hInS hin) (hOutS hout)
    · rw [e]; exact ⟨fun h => (by cases h), fun h => (by cases h.1)⟩
  | inl st =>
    rw [hres] at hloop
    by_cases h0 : st.pointSp = 0
    · have hincl : gn_set rows ⊆ CRow.set cg := by
        intro x hx
        exact (hmem x hx).mpr (gn_final_included _ hloop hwf.pt h0 x hx)
      simp only [h0, if_true]
      cases heq : cg.isEquality with
      | true =>
        refine ⟨_, rfl, ?_, ⟨fun _ => ⟨rfl, rfl⟩, fun _ => rfl⟩⟩
        simp only [if_true]
        exact gn_relOK_incl hne hincl true
      | false =>
        refine ⟨_, rfl, ?_, ⟨fun h => ?_, fun h => (by cases h.2)⟩⟩
        · simp only [Bool.false_eq_true, if_false]
          exact gn_relOK_incl hne hincl false
        · simp only [Bool.false_eq_true, if_false] at h
    · have hdisj : gn_set rows ∩ CRow.set cg = ∅ := by
        ext x
        constructor
        · rintro ⟨hx, hc⟩
          exact absurd ((hmem x hx).mp hc) (gn_final_disjoint _ hloop h0 x hx)
        · intro h; cases h
      simp only [h0, if_false]
      exact ⟨_, rfl, gn_relOK_disj hne hdisj, ⟨fun h => (by cases h), fun h => (by cases h.1)⟩⟩

end PPLV.Lattice.GO
