import PPLV.Lattice.RedSem
/-!
# `Grid::conversion` certificates — executable part (no Mathlib; the drivers may import this file)

`dotRow c g n = Σ_{k ≤ n} c[k]·g[k]` is the product of a congruence row with a generator row in
homogeneous coordinates (columns `0..n`; the parameter divisor column `n+1` of a generator row does
not take part).  `gcCertB n source dest` checks every congruence row of `dest` against every
generator row of `source`; `cgCertB` is the same check with the roles of source and destination
exchanged (conversion congruences → generators).  Soundness: `ProofsConvGCCert.lean`,
`ProofsConvCGCert.lean`.
-/
namespace PPLV.Lattice.Red

/-- `Σ_{k < m} c[k]·g[k]` -/
def dotUpto (c g : Row) : Nat → Int
  | 0 => 0
  | k + 1 => dotUpto c g k + get c k * get g k

/-- `Σ_{k ≤ n} c[k]·g[k]` -/
def dotRow (c g : Row) (n : Nat) : Int := dotUpto c g (n + 1)

/-- one congruence row against one generator row (`D` the divisor of the generator system):
    line → product `= 0`; parameter/point → product `= 0` for an equality, `D·m ∣ product` for a
    proper congruence -/
def certPairB (n : Nat) (D : Int) (c : CRow) (g : GRow) : Bool :=
  if g.line then dotRow c.e g.e n == 0
  else if c.m == 0 then dotRow c.e g.e n == 0
  else dotRow c.e g.e n % (D * c.m) == 0

/-- shape of the generator system: row 0 exists, is not a line and has `e[0] = D > 0`; every other
    row has `e[0] = 0` -/
def gensShapeB (gens : List GRow) : Bool :=
  decide (0 < gens.length) && !(rowAt gens 0).line && decide (0 < get (rowAt gens 0).e 0)
    && (gens.drop 1).all fun g => get g.e 0 == 0

/-- the checker for generators → congruences: every row of `dest` holds on the grid of `source` -/
def gcCertB (n : Nat) (source : List GRow) (dest : List CRow) : Bool :=
  gensShapeB source &&
    dest.all fun c => source.all fun g => certPairB n (get (rowAt source 0).e 0) c g

/-- the checker for congruences → generators: every row of `source` holds on the grid of `dest` -/
def cgCertB (n : Nat) (source : List CRow) (dest : List GRow) : Bool := gcCertB n dest source

end PPLV.Lattice.Red
