import PPLV.Lattice.ProofsFreq
import PPLV.Lattice.ProofsQueries

/-!
# K2: relation of a grid with an inequality `⟨e,x⟩ + b ≥ 0` / `> 0`
-/
set_option linter.unusedSimpArgs false
namespace PPLV.Lattice
open List

/-- a non-constant expression takes values of both signs on a grid -/
theorem both_signs (g : Gens) (e : Vec) (b : Rat) (h : boundsExpr (.gens g) e = false) :
    (∃ x, g.Mem x ∧ 0 < dotF e x + b) ∧ (∃ x, g.Mem x ∧ dotF e x + b < 0) := by
  simp only [boundsExpr, Bool.and_eq_false_iff, List.all_eq_false, beq_iff_eq] at h
  set r0 := dotF e g.pt.toFun + b with hr0
  rcases h with ⟨q, hq, hne⟩ | ⟨l, hl, hne⟩
  · -- a parameter with non-zero product r: r0 + k r for k = ±(⌊|r0|/|r|⌋ + 1)
    set r := dot e q with hr
    have key : ∀ k : Int, ∃ x, g.Mem x ∧ dotF e x + b = r0 + k * r := by
      intro k
      refine ⟨g.pt.toFun.axpy k q.toFun, Gens.Mem.param k hq Gens.Mem.pt, ?_⟩
      rw [axpy_eq, dotF_add, dotF_smul, ← dot_eq_dotF e q]; ring
    obtain ⟨_, hfl⟩ := ratFloor_spec (|r0| / |r|)
    set K : Int := ratFloor (|r0| / |r|) + 1 with hK
    have hrpos : 0 < |r| := abs_pos.mpr hne
    have hKr : |r0| < (K : Rat) * |r| := by
      have : |r0| / |r| < (K : Rat) := by rw [hK]; push_cast; exact hfl
      rwa [div_lt_iff₀ hrpos] at this
    have h1 : -|r0| ≤ r0 := neg_abs_le r0
    have h2 : r0 ≤ |r0| := le_abs_self r0
    rcases lt_or_gt_of_ne hne with hneg | hpos
    · have ha : |r| = -r := abs_of_neg hneg
      rw [ha] at hKr
      constructor
      · obtain ⟨x, hx, hv⟩ := key (-K)
        exact ⟨x, hx, by rw [hv]; push_cast; nlinarith⟩
      · obtain ⟨x, hx, hv⟩ := key K
        exact ⟨x, hx, by rw [hv]; nlinarith⟩
    · have ha : |r| = r := abs_of_pos hpos
      rw [ha] at hKr
      constructor
      · obtain ⟨x, hx, hv⟩ := key K
        exact ⟨x, hx, by rw [hv]; nlinarith⟩
      · obtain ⟨x, hx, hv⟩ := key (-K)
        exact ⟨x, hx, by rw [hv]; push_cast; nlinarith⟩
  · set r := dot e l with hr
    have key : ∀ c : Rat, ∃ x, g.Mem x ∧ dotF e x + b = r0 + c * r := by
      intro c
      refine ⟨g.pt.toFun.axpy c l.toFun, Gens.Mem.line c hl Gens.Mem.pt, ?_⟩
      rw [axpy_eq, dotF_add, dotF_smul, ← dot_eq_dotF e l]; ring
    constructor
    · obtain ⟨x, hx, hv⟩ := key ((1 - r0) / r)
      exact ⟨x, hx, by rw [hv]; field_simp; linarith⟩
    · obtain ⟨x, hx, hv⟩ := key ((-1 - r0) / r)
      exact ⟨x, hx, by rw [hv]; field_simp; linarith⟩

/-- relation with `⟨e,x⟩ + b ≥ 0` (`strict`: `> 0`) on a non-empty grid -/
theorem relIneq_spec (G : GridGens) (e : Vec) (b : Rat) (strict : Bool) (hne : ∃ x, Gen.sem G x) :
    let sat : Pt → Prop := fun x => if strict then 0 < dotF e x + b else 0 ≤ dotF e x + b
    ((relIneq G e b strict).1 = true ↔ ∀ x, Gen.sem G x → ¬ sat x) ∧
    ((relIneq G e b strict).2.1 = true ↔ (∃ x, Gen.sem G x ∧ sat x) ∧ (∃ x, Gen.sem G x ∧ ¬ sat x)) ∧
    ((relIneq G e b strict).2.2.1 = true ↔ ∀ x, Gen.sem G x → sat x) ∧
    ((relIneq G e b strict).2.2.2 = true ↔ (∀ x, Gen.sem G x → dotF e x + b = 0) ∧ strict = false) := by
  intro sat
  cases G with
  | empty => obtain ⟨x, hx⟩ := hne; exact absurd hx (by simp [Gen.sem])
  | gens g =>
    simp only [Gen.sem]
    by_cases hb : boundsExpr (.gens g) e = true
    · -- constant value r0
      have hconst : ∀ x, g.Mem x → dotF e x + b = dot e g.pt + b := by
        intro x hx
        rw [(boundsExpr_iff _ e).mp hb x _ hx Gens.Mem.pt, dot_eq_dotF]
      have hpt : dotF e g.pt.toFun + b = dot e g.pt + b := by rw [dot_eq_dotF]
      rcases lt_trichotomy (dot e g.pt + b) 0 with hlt | heq | hgt
      · have e1 : relIneq (.gens g) e b strict = (true, false, false, false) := by
          simp [relIneq, hb, ne_of_lt hlt, not_lt.mpr (le_of_lt hlt)]
        rw [e1]
        have hns : ∀ x, g.Mem x → ¬ sat x := by
          intro x hx; simp only [sat]; rw [hconst x hx]
          cases strict <;> simp <;> linarith
        refine ⟨by simpa using hns, ?_, ?_, ?_⟩
        · simp only [Bool.false_eq_true, false_iff]; rintro ⟨⟨x, hx, hs⟩, _⟩; exact hns x hx hs
        · simp only [Bool.false_eq_true, false_iff]; intro h; exact hns _ Gens.Mem.pt (h _ Gens.Mem.pt)
        · simp only [Bool.false_eq_true, false_iff]; rintro ⟨h, _⟩
          have := h _ Gens.Mem.pt; rw [hpt] at this; linarith
      · cases strict with
        | true =>
          have e1 : relIneq (.gens g) e b true = (true, false, false, false) := by simp [relIneq, hb, heq]
          rw [e1]
          have hns : ∀ x, g.Mem x → ¬ sat x := by
            intro x hx; simp only [sat, if_true]; rw [hconst x hx, heq]; simp
          refine ⟨by simpa using hns, ?_, ?_, ?_⟩
          · simp only [Bool.false_eq_true, false_iff]; rintro ⟨⟨x, hx, hs⟩, _⟩; exact hns x hx hs
          · simp only [Bool.false_eq_true, false_iff]; intro h; exact hns _ Gens.Mem.pt (h _ Gens.Mem.pt)
          · simp
        | false =>
          have e1 : relIneq (.gens g) e b false = (false, false, true, true) := by simp [relIneq, hb, heq]
          rw [e1]
          have hs : ∀ x, g.Mem x → sat x := by
            intro x hx; simp only [sat, Bool.false_eq_true, if_false]; rw [hconst x hx, heq]
          refine ⟨?_, ?_, by simpa using hs, ?_⟩
          · simp only [Bool.false_eq_true, false_iff]; intro h; exact h _ Gens.Mem.pt (hs _ Gens.Mem.pt)
          · simp only [Bool.false_eq_true, false_iff]; rintro ⟨_, ⟨x, hx, hn⟩⟩; exact hn (hs x hx)
          · simp only [true_iff, and_true]; intro x hx; rw [hconst x hx, heq]
      · have e1 : relIneq (.gens g) e b strict = (false, false, true, false) := by
          simp [relIneq, hb, ne_of_gt hgt, hgt]
        rw [e1]
        have hs : ∀ x, g.Mem x → sat x := by
          intro x hx; simp only [sat]; rw [hconst x hx]
          cases strict <;> simp <;> linarith
        refine ⟨?_, ?_, by simpa using hs, ?_⟩
        · simp only [Bool.false_eq_true, false_iff]; intro h; exact h _ Gens.Mem.pt (hs _ Gens.Mem.pt)
        · simp only [Bool.false_eq_true, false_iff]; rintro ⟨_, ⟨x, hx, hn⟩⟩; exact hn (hs x hx)
        · simp only [Bool.false_eq_true, false_iff]; rintro ⟨h, _⟩
          have := h _ Gens.Mem.pt; rw [hpt] at this; linarith
    · have hb' : boundsExpr (.gens g) e = false := by simpa using hb
      have e1 : relIneq (.gens g) e b strict = (false, true, false, false) := by simp [relIneq, hb']
      rw [e1]
      obtain ⟨⟨xp, hxp, hp⟩, ⟨xn, hxn, hn⟩⟩ := both_signs g e b hb'
      have sp : sat xp := by simp only [sat]; cases strict <;> simp <;> linarith
      have sn : ¬ sat xn := by simp only [sat]; cases strict <;> simp <;> linarith
      refine ⟨?_, ?_, ?_, ?_⟩
      · simp only [Bool.false_eq_true, false_iff]; intro h; exact h xp hxp sp
      · simp only [true_iff]; exact ⟨⟨xp, hxp, sp⟩, ⟨xn, hxn, sn⟩⟩
      · simp only [Bool.false_eq_true, false_iff]; intro h; exact sn (h xn hxn)
      · simp only [Bool.false_eq_true, false_iff]; rintro ⟨h, _⟩; have := h xp hxp; linarith

end PPLV.Lattice
