import PPLV.Lattice.ProofsGridOpsGen13

/-!
# Generator side of the `Grid` object, part 14 — `Grid::is_included_in(y)` (Grid_nonpublic.cc:246) answers `x ⊆ y`

`hUG : UpdateGeneratorsSpec`, `hUC : UpdateCongruencesSpec` (the lazy machinery) are explicit hypotheses.
-/
namespace PPLV.Lattice.GO
open PPLV.Lattice PPLV.Lattice.Red

/-- a state with up-to-date congruences denotes their solutions -/
theorem gn_sem_of_cUp {g : Grid} (hI : GridInv g) (hn : 0 < g.spaceDim) (he : g.st.empty = false) (hc : g.st.cUp = true) :
    g.conDim = g.spaceDim ∧ CWf g.spaceDim g.con ∧ g.sem = consSet g.spaceDim g.con := by
  obtain ⟨a, b⟩ := hI.cwf he hn hc
  refine ⟨a, b, ?_⟩
  rw [gn_sem_pos he (by omega)]
  cases hg : g.st.gUp with
  | true => rw [if_pos rfl]; exact (hI.agree he hn hc hg).symm
  | false => rw [if_neg (by simp)]

/-- `if (!x.generators_are_up_to_date() && !x.update_generators())` -/
def gn_incX (x : Grid) : Grid × Bool := if !x.generatorsAreUpToDate then updateGenerators x else (x, true)
/-- `if (!y.congruences_are_up_to_date()) y.update_congruences()` -/
def gn_incY (y : Grid) : Grid := if !y.congruencesAreUpToDate then updateCongruences y else y

theorem gn_incX_spec (hUG : UpdateGeneratorsSpec) (x : Grid) (hI : GridInv x) (he : x.st.empty = false)
    (hn : 0 < x.spaceDim) :
    GridInv (gn_incX x).1 ∧ (gn_incX x).1.sem = x.sem ∧ (gn_incX x).1.spaceDim = x.spaceDim ∧
    ((gn_incX x).2 = true → (gn_incX x).1.st.empty = false ∧ (gn_incX x).1.st.gUp = true) ∧
    ((gn_incX x).2 = false → x.sem = ∅) := by
  unfold gn_incX
  cases hg : x.generatorsAreUpToDate with
  | true =>
    rw [if_neg (by simp)]
    exact ⟨hI, rfl, rfl, fun _ => ⟨he, hg⟩, fun h => by cases h⟩
  | false =>
    rw [if_pos (by simp)]
    have hg' : x.st.gUp = false := hg
    have hc : x.st.cUp = true := by
      rcases hI.some he hn with h | h
      · exact h
      · rw [hg'] at h; cases h
    obtain ⟨a, b, c, d, e, _⟩ := hUG x hI he hn hc hg'
    refine ⟨a, b, c, fun h => ⟨(e h).1, (e h).2.1⟩, fun h => ?_⟩
    rw [← Set.not_nonempty_iff_eq_empty, ← d, h]; simp

theorem gn_incY_spec (hUC : UpdateCongruencesSpec) (y : Grid) (hI : GridInv y) (he : y.st.empty = false)
    (hn : 0 < y.spaceDim) :
    GridInv (gn_incY y) ∧ (gn_incY y).sem = y.sem ∧ (gn_incY y).spaceDim = y.spaceDim ∧
    (gn_incY y).st.empty = false ∧ (gn_incY y).st.cUp = true := by
  unfold gn_incY
  cases hc : y.congruencesAreUpToDate with
  | true =>
    rw [if_neg (by simp)]
    exact ⟨hI, rfl, rfl, he, hc⟩
  | false =>
    rw [if_pos (by simp)]
    have hc' : y.st.cUp = false := hc
    have hg : y.st.gUp = true := by
      rcases hI.some he hn with h | h
      · rw [hc'] at h; cases h
      · exact h
    obtain ⟨a, b, c, d, _, _, e, _⟩ := hUC y hI he hn hg hc'
    exact ⟨a, b, c, d, e⟩

theorem gn_isIncludedIn_eq (x y : Grid) : isIncludedIn x y =
    if (gn_incX x).2 = false then ((gn_incX x).1, y, true)
    else ((gn_incX x).1, gn_incY y, (gn_incX x).1.gen.reverse.all fun gi => (gn_incY y).cs.satisfiesAll gi) := by
  unfold isIncludedIn
  show (if (!(gn_incX x).2) = true then _ else _) = _
  cases (gn_incX x).2 <;> rfl

/-- **`Grid::is_included_in(y)`** on two grids of one positive dimension that are not marked empty: the invariants and
    the denotations are kept (the lazy state may change) and the answer is `x ⊆ y` -/
theorem gn_isIncludedIn (hUG : UpdateGeneratorsSpec) (hUC : UpdateCongruencesSpec) (x y : Grid) (hIx : GridInv x)
    (hIy : GridInv y) (hex : x.st.empty = false) (hey : y.st.empty = false) (hn : 0 < x.spaceDim)
    (hd : x.spaceDim = y.spaceDim) :
    GridInv (isIncludedIn x y).1 ∧ GridInv (isIncludedIn x y).2.1 ∧ (isIncludedIn x y).1.sem = x.sem ∧
    (isIncludedIn x y).2.1.sem = y.sem ∧ (isIncludedIn x y).1.spaceDim = x.spaceDim ∧
    (isIncludedIn x y).2.1.spaceDim = y.spaceDim ∧ ((isIncludedIn x y).2.2 = true ↔ x.sem ⊆ y.sem) := by
  obtain ⟨a, b, c, d, e⟩ := gn_incX_spec hUG x hIx hex hn
  rw [gn_isIncludedIn_eq]
  cases h2 : (gn_incX x).2 with
  | false =>
    rw [if_pos rfl]
    refine ⟨a, hIy, b, rfl, c, rfl, ⟨fun _ => ?_, fun _ => rfl⟩⟩
    rw [e h2]; exact Set.empty_subset _
  | true =>
    rw [if_neg (by simp)]
    have hny : 0 < y.spaceDim := by omega
    obtain ⟨a', b', c', d', e'⟩ := gn_incY_spec hUC y hIy hey hny
    refine ⟨a, a', b, b', c, c', ?_⟩
    obtain ⟨g1, g2⟩ := d h2
    obtain ⟨_, q, r, s⟩ := gn_sem_of_gUp a (by rw [c]; exact hn) g1 g2
    obtain ⟨_, q', s'⟩ := gn_sem_of_cUp a' (by rw [c']; exact hny) d' e'
    show ((gn_incX x).1.gen.reverse.all fun gi => (gn_incY y).cs.satisfiesAll gi) = true ↔ _
    rw [List.all_reverse, ← b, ← b', s, s']
    have hdim : (gn_incY y).spaceDim = (gn_incX x).1.spaceDim := by rw [c', c, hd]
    rw [hdim] at q' ⊢
    exact gn_check_iff r q (gn_incY y).cs q'

end PPLV.Lattice.GO
