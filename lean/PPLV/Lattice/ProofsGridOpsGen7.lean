import PPLV.Lattice.ProofsGridOpsGen6

/-!
# Generator side of the `Grid` object, part 7 — `Grid::add_grid_generator(g)` (Grid_public.cc:1285): preliminaries and the
# case of an empty receiver
-/
namespace PPLV.Lattice.GO
open PPLV.Lattice PPLV.Lattice.Red

/-- a generator row as the library builds it: divisor column present, positive divisor, lines (and parameters) with a
    zero inhomogeneous term -/
structure gn_RowOK (x : GRow) : Prop where
  len : x.e.length = x.spaceDim + 2
  div : x.line = false → 0 < x.divisor
  lin : x.line = true → get x.e 0 = 0

/-- `Grid_Generator_System::insert(g)` into a system that is wide enough -/
theorem gn_insert (s : GSys) (x : GRow) (hd : x.spaceDim ≤ s.dim) :
    s.insert x = if (x.isParameter && x.allHomZero) = true then s
      else { s with rows := s.rows ++ [x.setSpaceDim s.dim] } := by
  unfold GSys.insert
  split
  · rw [if_neg (by omega)]
  · exact gn_sysInsert s x hd

/-- the origin as a parameter has the zero vector -/
theorem gn_vecOf_allHomZero {x : GRow} (h : x.allHomZero = true) : gn_vecOf x = 0 := by
  funext i
  unfold gn_vecOf
  split
  · rename_i hi
    have : get x.e (i + 1) = 0 := by
      unfold GRow.allHomZero allZ at h
      rw [List.all_eq_true] at h
      have := h (i + 1) (by
        rw [List.mem_range']
        refine ⟨i, ?_, by omega⟩
        unfold GRow.spaceDim at hi; omega)
      simpa using this
    rw [this]; simp
  · rfl

theorem gn_addGridGenerator_eq (g : Grid) (x : GRow) (hd : x.spaceDim ≤ g.spaceDim) (hn : 0 < g.spaceDim) :
    addGridGenerator g x =
      if (gn_ens g).2 = false then
        if x.isLineOrParameter = true then { g := (gn_ens g).1, thrown := true }
        else { g := (((((gn_ens g).1.withGs ((gn_ens g).1.gs.insert x)).clearEmpty).clearCongruencesUpToDate
                ).clearGeneratorsMinimized).setGeneratorsUpToDate }
      else { g := ((((gn_ens g).1.withGs (if x.isParameterOrPoint = true then normalizeDivisors1 ((gn_ens g).1.gs.insert x)
                else (gn_ens g).1.gs.insert x)).clearCongruencesUpToDate).clearGeneratorsMinimized).setGeneratorsUpToDate } := by
  unfold addGridGenerator
  rw [if_neg (by omega), if_neg (by omega)]
  show (if (!(gn_ens g).2) = true then _ else _) = _
  cases (gn_ens g).2 <;> rfl

/-- the resized row -/
theorem gn_row_resized {x : GRow} (hx : gn_RowOK x) {n : Nat} (hd : x.spaceDim ≤ n) :
    (x.setSpaceDim n).line = x.line ∧ (x.setSpaceDim n).e.length = n + 2 ∧
    get (x.setSpaceDim n).e 0 = get x.e 0 ∧ (x.setSpaceDim n).divisor = x.divisor ∧
    gn_vecOf (x.setSpaceDim n) = gn_vecOf x ∧ gn_isPt (x.setSpaceDim n) = gn_isPt x ∧
    gn_isPar (x.setSpaceDim n) = gn_isPar x := by
  obtain ⟨a, b, c, d, e⟩ := gn_setSpaceDim_sem hx.len hd
  exact ⟨a, b, c, d, e, by simp [gn_isPt, a, c], by simp [gn_isPar, a, c]⟩

/-- a single point row is a normalised system -/
theorem gn_gnorm_single {n : Nat} {p : GRow} (hl : p.line = false) (h0 : 0 < get p.e 0) : GNorm n (get p.e 0) [p] := by
  refine ⟨h0, ⟨p, List.mem_singleton.mpr rfl, hl, rfl⟩, ?_, ?_, ?_⟩
  · intro r hr _; rw [List.mem_singleton.mp hr]; exact Or.inr rfl
  · intro r hr _ hz; rw [List.mem_singleton.mp hr] at hz; omega
  · intro r hr h; rw [List.mem_singleton.mp hr, hl] at h; cases h

/-- **`add_grid_generator` on an empty receiver** (positive dimension): a line or parameter is refused
    (`std::invalid_argument`, the object stays empty); a point `p` gives `{p}` -/
theorem gn_addGridGenerator_empty (hEG : EnsureGeneratorsSpec) (g : Grid) (hI : GridInv g) (x : GRow) (hx : gn_RowOK x)
    (hd : x.spaceDim ≤ g.spaceDim) (hn : 0 < g.spaceDim) (h2 : (gn_ens g).2 = false) :
    GridInv (addGridGenerator g x).g ∧ (addGridGenerator g x).g.spaceDim = g.spaceDim ∧
    ((addGridGenerator g x).thrown = true ↔ gn_isPt x = false) ∧
    ((addGridGenerator g x).thrown = true → (addGridGenerator g x).g.sem = ∅) ∧
    ((addGridGenerator g x).thrown = false → (addGridGenerator g x).g.sem = {gn_vecOf x}) := by
  obtain ⟨a, b, c, d, _⟩ := gn_ens_false hEG g hI hn h2
  obtain ⟨c1, c2, c3, c4, c5⟩ := a.emp c
  rw [gn_addGridGenerator_eq g x hd hn, if_pos h2]
  cases hlp : x.isLineOrParameter with
  | true =>
    have h0 : get x.e 0 = 0 := by simpa [GRow.isLineOrParameter] using hlp
    rw [if_pos rfl]
    refine ⟨a, b, ⟨fun _ => by simp [gn_isPt, h0], fun _ => rfl⟩, fun _ => d, fun h => by cases h⟩
  | false =>
    have h0 : get x.e 0 ≠ 0 := by simpa [GRow.isLineOrParameter] using hlp
    have hl : x.line = false := by
      cases hl : x.line with
      | true => exact absurd (hx.lin hl) h0
      | false => rfl
    have hp : gn_isPt x = true := (gn_isPt_iff x).mpr ⟨hl, h0⟩
    rw [if_neg (by simp)]
    obtain ⟨r1, r2, r3, r4, r5, r6, _⟩ := gn_row_resized hx hd
    have hins : (gn_ens g).1.gs.insert x = GSys.mk g.spaceDim [x.setSpaceDim g.spaceDim] := by
      rw [gn_insert _ _ (by show x.spaceDim ≤ (gn_ens g).1.genDim; rw [c3, b]; exact hd),
        if_neg (by simp [GRow.isParameter, h0])]
      show GSys.mk (gn_ens g).1.genDim ((gn_ens g).1.gen ++ [x.setSpaceDim (gn_ens g).1.genDim]) = _
      rw [c2, c3, b]; rfl
    rw [hins]
    have hdiv : 0 < get (x.setSpaceDim g.spaceDim).e 0 := by
      rw [r3, ← divisor_point x h0]; exact hx.div hl
    have hhi : (gn_ens g).1.st.hi = 0 := by rw [c1]; rfl
    have key := gn_inv_gens
      (g := ((((((gn_ens g).1.withGs (GSys.mk g.spaceDim [x.setSpaceDim g.spaceDim])).clearEmpty).clearCongruencesUpToDate
                ).clearGeneratorsMinimized).setGeneratorsUpToDate))
      (by show 0 < (gn_ens g).1.spaceDim; rw [b]; exact hn) rfl rfl rfl rfl rfl hhi
      (by show g.spaceDim = (gn_ens g).1.spaceDim; rw [b])
      (by show GWf (gn_ens g).1.spaceDim [x.setSpaceDim g.spaceDim]
          rw [b]; intro r hr; rw [List.mem_singleton.mp hr]; exact r2)
      (D := get (x.setSpaceDim g.spaceDim).e 0)
      (by show GNorm (gn_ens g).1.spaceDim _ [x.setSpaceDim g.spaceDim]
          rw [b]; exact gn_gnorm_single (by rw [r1]; exact hl) hdiv)
    refine ⟨key.1, b, ⟨fun h => (by cases h), fun h => (by rw [hp] at h; cases h)⟩, fun h => (by cases h), fun _ => ?_⟩
    rw [key.2]
    show gn_set [x.setSpaceDim g.spaceDim] = _
    rw [gn_set_single_pt _ (by rw [r6]; exact hp), r5]

/-- the hypotheses on the row are satisfiable: the point `1/2` of the line -/
example : gn_RowOK ⟨false, [2, 1, 0]⟩ := ⟨rfl, fun _ => by decide, fun h => by cases h⟩

end PPLV.Lattice.GO
