import PPLV.Lattice.Model

/-!
# K2 — reference operations on generator-form grids (executable, no Mathlib)

Every operation of `Grid` is expressed with the verified core (`intersectCon`, the deciders)
and elementary list manipulations.  Operations that need a congruence description of a
generator-form grid (`inter`, …) are *certifying*: `gensToCons` proposes congruences through
the dual lattice and the proposal is accepted only if `equivB (consToGens n C) G` holds.
-/
namespace PPLV.Lattice

/-! ### vectors -/

def vecOfFn (n : Nat) (f : Nat → Rat) : Vec := (List.range n).map f
/-- `v` with coordinate `i` set to `r` -/
def setCoord (v : Vec) (i : Nat) (r : Rat) : Vec :=
  vecOfFn (max v.length (i+1)) (fun j => if j = i then r else v.getD j 0)
def padTo (n : Nat) (v : Vec) : Vec := vecOfFn n (fun j => v.getD j 0)

/-! ### elementary constructions -/

/-- image under the affine map `x ↦ M x + t` (`M` linear) -/
def mapG (M : Vec → Vec) (t : Vec) : GridGens → GridGens
  | .empty => .empty
  | .gens g => .gens { pt := vadd (M g.pt) t, params := g.params.map M, lines := g.lines.map M }

def addLine : GridGens → Vec → GridGens
  | .empty, _ => .empty
  | .gens g, l => .gens { g with lines := l :: g.lines }

def addParam : GridGens → Vec → GridGens
  | .empty, _ => .empty
  | .gens g, q => .gens { g with params := q :: g.params }

def addPoint : GridGens → Vec → GridGens
  | .empty, p => .gens { pt := p, params := [], lines := [] }
  | .gens g, p => .gens { g with params := vsub p g.pt :: g.params }

def addLines (G : GridGens) (ls : List Vec) : GridGens := ls.foldl addLine G

/-- least grid containing both -/
def join : GridGens → GridGens → GridGens
  | .empty, H => H
  | G, .empty => G
  | .gens g, .gens h =>
    .gens { pt := g.pt, params := vsub h.pt g.pt :: (g.params ++ h.params), lines := g.lines ++ h.lines }

/-! ### from generators to congruences (untrusted proposal + verified acceptance test) -/

/-- congruences proposed for `G` (dimension `n`): generators of the dual lattice
    `{(a,b) | a·x + b ∈ ℤ for all x ∈ G}` computed with `consToGens` in dimension `n+1` -/
def gensToCons (n : Nat) : GridGens → List Cg
  | .empty => [{ a := [], b := 1, f := 0 }]
  | .gens g =>
    let ext (v : Vec) (last : Rat) : Vec := padTo n v ++ [last]
    let dual : List Cg :=
      { a := ext g.pt 1, b := 0, f := 1 } ::
        (g.params.map (fun q => { a := ext q 0, b := 0, f := 1 }) ++
         g.lines.map (fun l => { a := ext l 0, b := 0, f := 0 }))
    match consToGens (n+1) dual with
    | .empty => []
    | .gens d =>
      let mk (f : Rat) (v : Vec) : Cg := { a := (padTo (n+1) v).take n, b := v.getD n 0, f := f }
      (mk 1 d.pt :: d.params.map (mk 1)) ++ d.lines.map (mk 0)

/-- accepted congruence description of `G` -/
def certCons (n : Nat) (G : GridGens) : Option (List Cg) :=
  let C := gensToCons n G
  if equivB (consToGens n C) G then some C else none

/-- intersection of two generator-form grids -/
def inter (G H : GridGens) : Option GridGens :=
  (certCons (max G.maxLen H.maxLen) H).map (intersectCons G)

/-- a compact re-generation of `G` (same point set when it succeeds) -/
def compress (n : Nat) (G : GridGens) : GridGens :=
  match certCons n G with
  | some C => let K := consToGens n C; if equivB K G then K else G
  | none => G

/-! ### affine images and preimages -/

/-- `x_v := (⟨e,x⟩ + b)/d` -/
def affineImage (G : GridGens) (v : Nat) (e : Vec) (b d : Rat) : GridGens :=
  mapG (fun x => setCoord x v (dot e x / d)) (setCoord [] v (b / d)) G

/-- `{x | x[v := (⟨e,x⟩+b)/d] ∈ G}` -/
def affinePreimage (G : GridGens) (v : Nat) (e : Vec) (b d : Rat) : GridGens :=
  let ev := e.getD v 0
  if ev ≠ 0 then
    -- inverse map: x_v := (d x_v - Σ_{i≠v} e_i x_i - b) / e_v
    affineImage G v (vsub (vsmul d (unit v)) (vsub e (vsmul ev (unit v)))) (-b) ev
  else
    -- x_v is forgotten: intersect with d x_v = ⟨e,x⟩ + b, then unconstrain x_v
    addLine (intersectCon G { a := vsub (vsmul d (unit v)) e, b := -b, f := 0 }) (unit v)

/-- the common core of the generalized affine image and preimage, for a grid of dimension `n`:
    `{ y | ∃ v ∈ G, yᵢ = vᵢ (i ∉ S), ⟨c,y⟩ + c0 ≡_f ⟨α,v⟩ + a0 }` -/
def relCore (n : Nat) (G : GridGens) (α : Vec) (a0 : Rat) (S : List Nat) (c : Vec) (c0 : Rat) (f : Rat) : GridGens :=
  -- coordinate n := ⟨α,x⟩ + a0
  let G1 := mapG (fun x => setCoord (padTo n x) n (dot α x)) (setCoord [] n a0) G
  -- the coordinates in S become free
  let G2 := addLines G1 (S.map unit)
  -- ⟨c,x⟩ + c0 - x_n ≡ 0 (mod f)
  let G3 := intersectCon G2 { a := vsub c (unit n), b := c0, f := f }
  mapG (padTo n) [] G3

/-- the variables that occur in `lhs` -/
def suppOf (n : Nat) (lhs : Vec) : List Nat := (List.range n).filter (fun i => lhs.getD i 0 ≠ 0)

/-- image of the relation `lhs(w) + lb ≡_f rhs(v) + rb ∧ wᵢ = vᵢ (lhsᵢ = 0)`; `n` = space dimension -/
def relImage (n : Nat) (G : GridGens) (lhs : Vec) (lb : Rat) (rhs : Vec) (rb : Rat) (f : Rat) : GridGens :=
  relCore n G rhs rb (suppOf n lhs) lhs lb f

/-- preimage of the same relation -/
def relPreimage (n : Nat) (G : GridGens) (lhs : Vec) (lb : Rat) (rhs : Vec) (rb : Rat) (f : Rat) : GridGens :=
  relCore n G lhs lb (suppOf n lhs) rhs rb f

/-- least grid containing `{p + μ q | p ∈ G, q ∈ H, μ ∈ ℤ}` -/
def timeElapse : GridGens → GridGens → GridGens
  | .empty, _ => .empty
  | _, .empty => .empty
  | .gens g, .gens h =>
    .gens { pt := g.pt, params := h.pt :: (g.params ++ h.params), lines := g.lines ++ h.lines }

/-! ### dimensions -/

/-- keep the coordinates listed in `keep` (in that order) -/
def selectCoords (keep : List Nat) (v : Vec) : Vec := keep.map (fun i => v.getD i 0)

/-- `pf[i] = some j`: coordinate `i` becomes coordinate `j` of the `m`-dimensional result -/
def mapCoords (m : Nat) (pf : List (Option Nat)) (v : Vec) : Vec :=
  vecOfFn m (fun j => match pf.idxOf? (some j) with | some i => v.getD i 0 | none => 0)

/-- `G × H`, `G` of dimension `n` -/
def concat (n : Nat) : GridGens → GridGens → GridGens
  | .empty, _ => .empty
  | _, .empty => .empty
  | .gens g, .gens h =>
    let sh (v : Vec) : Vec := List.replicate n 0 ++ v
    .gens { pt := padTo n g.pt ++ h.pt, params := g.params ++ h.params.map sh, lines := g.lines ++ h.lines.map sh }

/-- `expand_space_dimension(v, m)` on a congruence description: every congruence is repeated
    with `v` replaced by each new dimension -/
def expandCons (n v m : Nat) (C : List Cg) : List Cg :=
  C ++ (List.range m).flatMap fun j =>
    C.filterMap fun c =>
      let cv := c.a.getD v 0
      if cv = 0 then none else some { c with a := setCoord (setCoord (padTo n c.a) v 0) (n + j) cv }

def expand (n v m : Nat) (G : GridGens) : Option GridGens :=
  match G with
  | .empty => some .empty
  | _ => (certCons n G).map (fun C => consToGens (n + m) (expandCons n v m C))

/-- `fold_space_dimensions(vars, dest)`: join of the grids obtained by reading each of `vars`
    into `dest`, then removal of `vars` -/
def fold (n : Nat) (vars : List Nat) (dest : Nat) (G : GridGens) : GridGens :=
  let keep := (List.range n).filter (fun i => !vars.contains i)
  let J := vars.foldl (fun acc v => join acc (mapG (fun x => setCoord x dest (x.getD v 0)) [] G)) G
  mapG (selectCoords keep) [] J

/-! ### queries -/

def isUniverse (n : Nat) (G : GridGens) : Bool := equivB G (univ n)

def isDiscrete : GridGens → Bool
  | .empty => true
  | .gens g => g.lines.all Vec.isZero

def isBounded : GridGens → Bool
  | .empty => true
  | .gens g => g.lines.all Vec.isZero && g.params.all Vec.isZero

def containsIntegerPoint (n : Nat) (G : GridGens) : Bool :=
  !(intersectCons G ((List.range n).map fun i => { a := unit i, b := 0, f := 1 })).isEmpty

def constrains (G : GridGens) (v : Nat) : Bool :=
  match G with
  | .empty => true
  | .gens g => !inSpanB g.lines (unit v)

/-- is `⟨e,x⟩` constant on the grid -/
def boundsExpr (G : GridGens) (e : Vec) : Bool :=
  match G with
  | .empty => true
  | .gens g => g.params.all (fun q => dot e q == 0) && g.lines.all (fun l => dot e l == 0)

/-- `⌊q⌋` -/
def ratFloor (q : Rat) : Int := q.num / (q.den : Int)

/-- positive generator of `ℤ r1 + ℤ r2` -/
def ratGcd (r1 r2 : Rat) : Rat :=
  if r1 = 0 then (if r2 < 0 then -r2 else r2)
  else if r2 = 0 then (if r1 < 0 then -r1 else r1)
  else
    let k := combineCoef r1 r2
    let g := (k.1 : Rat) * r1 + (k.2.1 : Rat) * r2
    if g < 0 then -g else g

/-- the members of `r0 + f ℤ` (`f > 0`) of least magnitude (two when `±f/2` tie) -/
def leastAbs (r0 f : Rat) : List Rat :=
  let k : Int := ratFloor (r0 / f)
  let lo := r0 - (k : Rat) * f        -- in [0, f)
  let hi := lo - f                    -- in [-f, 0)
  if lo < -hi then [lo] else if -hi < lo then [hi] else [lo, hi]

/-- gcd of the products of the parameters with `e` -/
def freqOf (g : Gens) (e : Vec) : Rat := (g.params.map (dot e)).foldl ratGcd 0

/-- `frequency`: `none` if empty or a line moves the expression; else `(f, values)` where `f ≥ 0`
    generates the differences of the values of `⟨e,x⟩ + b` on the grid and `values` lists the
    values of least magnitude (two when `±f/2` tie) -/
def frequency (G : GridGens) (e : Vec) (b : Rat) : Option (Rat × List Rat) :=
  match G with
  | .empty => none
  | .gens g =>
    if g.lines.any (fun l => dot e l != 0) then none
    else
      let f := freqOf g e
      let r0 := dot e g.pt + b
      some (f, if f = 0 then [r0] else leastAbs r0 f)

/-- relation with a congruence: (is_disjoint, strictly_intersects, is_included, saturates) -/
def relCg (G : GridGens) (c : Cg) : Bool × Bool × Bool × Bool :=
  match G with
  | .empty => (true, false, true, true)
  | _ =>
    if satCgB G c then (false, false, true, c.f == 0)
    else if (intersectCon G c).isEmpty then (true, false, false, false)
    else (false, true, false, false)

/-- `subsumes` for a generator: kind 0 line, 1 parameter, 2 point -/
def relGen (G : GridGens) (kind : Nat) (v : Vec) : Bool :=
  match G with
  | .empty => false
  | .gens g =>
    if kind = 2 then memB G v
    else if kind = 1 then memB G (vadd g.pt v)
    else inSpanB g.lines v

/-- relation with `⟨e,x⟩ + b ≥ 0` (`strict`: `> 0`):
    (is_disjoint, strictly_intersects, is_included, saturates) -/
def relIneq (G : GridGens) (e : Vec) (b : Rat) (strict : Bool) : Bool × Bool × Bool × Bool :=
  match G with
  | .empty => (true, false, true, true)
  | .gens g =>
    if !boundsExpr G e then (false, true, false, false)
    else
      let r0 := dot e g.pt + b
      if r0 = 0 then (if strict then (true, false, false, false) else (false, false, true, true))
      else if r0 > 0 then (false, false, true, false)
      else (true, false, false, false)

/-! ### rank (affine dimension); plain Gaussian elimination, not part of the verified core -/

def rankAux : Nat → List Vec → Nat
  | 0, _ => 0
  | fuel+1, vs =>
    match vs.filter (fun v => !v.isZero) with
    | [] => 0
    | p :: rest =>
      match p.findIdx? (· != 0) with
      | none => 0
      | some i =>
        let pi := p.getD i 0
        1 + rankAux fuel (rest.map fun v => vsub v (vsmul (v.getD i 0 / pi) p))

def rank (vs : List Vec) : Nat := rankAux (vs.length + 1) vs

def affineDim : GridGens → Nat
  | .empty => 0
  | .gens g => rank (g.params ++ g.lines)

/-! ### difference: least grid containing `G \ H` -/

/-- `some D`: `D` is `G` minus `H` when that is a grid (`H ∩ G` of index 2 in `G`), all of `G`
    when the difference generates `G`, empty when `G ⊆ H`; `none` if the certificate for
    `H`'s congruences fails -/
def difference (G H : GridGens) : Option GridGens :=
  if subsetB G H then some .empty
  else
    match inter G H with
    | none => none
    | some .empty => some G
    | some (.gens i) =>
      match G with
      | .empty => some .empty
      | .gens g =>
        -- a point of G outside I
        let cands := g.pt :: (g.params.map (vadd g.pt) ++ g.lines.map (vadd g.pt))
        match cands.find? (fun p => !memB (.gens i) p) with
        | none => some G     -- cannot happen when G ⊄ H
        | some p =>
          let R : GridGens := .gens { pt := p, params := i.params, lines := i.lines }
          if equivB (join (.gens i) R) G && memB (.gens i) (vadd i.pt (vsmul 2 (vsub p i.pt))) then some R
          else some G

end PPLV.Lattice
