import PPLV.Lattice.ProofsGridOpsCon1

/-!
# `Grid` stage 3, congruence-side mutators, part 2: `Congruence::strong_normalize()` keeps the point set of a row
(Congruence.cc:75 `normalize`: sign normalisation negates the whole row, the inhomogeneous term is reduced modulo the
modulus; Congruence.cc:95 `strong_normalize`: row and modulus are divided by their common positive divisor)
-/
namespace PPLV.Lattice.GO
open PPLV.Lattice PPLV.Lattice.Red

theorem cn_get_map (e : Row) (f : Int → Int) (hf : f 0 = 0) (i : Nat) : Red.get (e.map f) i = f (Red.get e i) := by
  unfold Red.get
  by_cases h : i < e.length
  · simp [List.getD_eq_getElem?_getD, h]
  · simp [List.getD_eq_getElem?_getD, h, hf]

/-! ### the gcd of a row -/

theorem cn_foldl_gcd_dvd (e : Row) (a : Int) :
    (e.foldl (fun g x => gcdI g x) a ∣ a) ∧ ∀ x ∈ e, e.foldl (fun g x => gcdI g x) a ∣ x := by
  induction e generalizing a with
  | nil => simp
  | cons c e ih =>
    simp only [List.foldl_cons]
    obtain ⟨h1, h2⟩ := ih (gcdI a c)
    have ha : gcdI a c ∣ a := by unfold gcdI; exact Int.gcd_dvd_left ..
    have hc : gcdI a c ∣ c := by unfold gcdI; exact Int.gcd_dvd_right ..
    refine ⟨h1.trans ha, ?_⟩
    intro x hx
    rcases List.mem_cons.mp hx with rfl | hx
    · exact h1.trans hc
    · exact h2 x hx

theorem cn_rowGcd_dvd (e : Row) (i : Nat) : rowGcd e ∣ Red.get e i := by
  by_cases h : i < e.length
  · have hm : Red.get e i ∈ e := by
      unfold Red.get; rw [List.getD_eq_getElem?_getD, List.getElem?_eq_getElem h]; exact List.getElem_mem h
    exact (cn_foldl_gcd_dvd e 0).2 _ hm
  · rw [get_of_length_le e i (by omega)]; exact dvd_zero _

/-! ### the three steps -/

theorem cn_evalRow_neg (e : Row) (x : Pt) : evalRow (e.map (fun z => -z)) x = - evalRow e x := by
  have := evalRow_smul (e.map (fun z => -z)) e (-1) x (by simp) (fun i => by rw [cn_get_map _ _ (by simp)]; ring)
  rw [this]; push_cast; ring

theorem cn_signNormalizeRow_length (e : Row) : (signNormalizeRow e).length = e.length := by
  unfold signNormalizeRow
  split
  · split <;> simp
  · rfl

/-- `sign_normalize()` keeps the point set -/
theorem cn_rsem_sign (e : Row) (m : Int) (x : Pt) : rsem { e := signNormalizeRow e, m := m } x ↔ rsem { e := e, m := m } x := by
  unfold signNormalizeRow
  split
  · split
    · unfold rsem
      simp only [cn_evalRow_neg]
      constructor
      · rintro ⟨t, ht⟩; exact ⟨-t, by push_cast; linarith⟩
      · rintro ⟨t, ht⟩; exact ⟨-t, by push_cast; linarith⟩
    · rfl
  · rfl

theorem cn_evalRow_set0 (e : Row) (c : Int) (x : Pt) (he : e ≠ []) :
    evalRow (e.set 0 c) x = evalRow e x + ((c : ℚ) - (Red.get e 0 : ℚ)) := by
  cases e with
  | nil => exact absurd rfl he
  | cons a l =>
    rw [evalRow_eq, evalRow_eq]
    simp only [List.set_cons_zero, ratRow, List.map_cons, List.tail_cons, get_cons_zero]
    ring

/-- replacing the inhomogeneous term by one in the same class modulo `m` keeps the point set -/
theorem cn_rsem_set0 (e : Row) (m c k : Int) (x : Pt) (hc : c = Red.get e 0 + k * m) :
    rsem { e := e.set 0 c, m := m } x ↔ rsem { e := e, m := m } x := by
  cases e with
  | nil => rfl
  | cons a l =>
    have hE := cn_evalRow_set0 (a :: l) c x (by simp)
    rw [hc] at hE
    subst hc
    unfold rsem
    constructor
    · rintro ⟨t, ht⟩; exact ⟨t - k, by rw [hE] at ht; push_cast at ht ⊢; linarith⟩
    · rintro ⟨t, ht⟩; exact ⟨t + k, by rw [hE]; push_cast at ht ⊢; linarith⟩

theorem cn_normalize_m (r : CRow) : r.normalize.m = r.m := by
  unfold CRow.normalize; simp only; split <;> rfl

theorem cn_normalize_length (r : CRow) : r.normalize.e.length = r.e.length := by
  unfold CRow.normalize; simp only
  split
  · exact cn_signNormalizeRow_length _
  · simp [cn_signNormalizeRow_length]

/-- `Congruence::normalize()` keeps the point set -/
theorem cn_rsem_normalize (r : CRow) (x : Pt) : rsem r.normalize x ↔ rsem r x := by
  have hs := cn_rsem_sign r.e r.m x
  unfold CRow.normalize; simp only
  split
  · exact hs
  · rename_i hm
    refine Iff.trans ?_ hs
    have hdiv : Int.tmod (Red.get (signNormalizeRow r.e) 0) r.m =
        Red.get (signNormalizeRow r.e) 0 + (-(Int.tdiv (Red.get (signNormalizeRow r.e) 0) r.m)) * r.m := by
      have := Int.tmod_add_mul_tdiv (Red.get (signNormalizeRow r.e) 0) r.m
      linarith
    split
    · exact cn_rsem_set0 _ r.m _ (-(Int.tdiv (Red.get (signNormalizeRow r.e) 0) r.m) + 1) x (by rw [hdiv]; ring)
    · exact cn_rsem_set0 _ r.m _ (-(Int.tdiv (Red.get (signNormalizeRow r.e) 0) r.m)) x hdiv

/-- dividing the row and the modulus by a common positive divisor keeps the point set -/
theorem cn_rsem_div (e : Row) (m g : Int) (hg : 0 < g) (hm : g ∣ m) (he : ∀ i, g ∣ Red.get e i) (x : Pt) :
    rsem { e := e.map (· / g), m := m / g } x ↔ rsem { e := e, m := m } x := by
  have hE : evalRow e x = (g : ℚ) * evalRow (e.map (· / g)) x :=
    evalRow_smul e (e.map (· / g)) g x (by simp) (fun i => by
      rw [cn_get_map _ _ (by simp)]; exact (Int.mul_ediv_cancel' (he i)).symm)
  have hM : (m : ℚ) = (g : ℚ) * ((m / g : Int) : ℚ) := by exact_mod_cast (Int.mul_ediv_cancel' hm).symm
  have hg0 : (g : ℚ) ≠ 0 := by exact_mod_cast hg.ne'
  unfold rsem
  simp only [hE]
  constructor
  · rintro ⟨t, ht⟩; exact ⟨t, by rw [ht, hM]; ring⟩
  · rintro ⟨t, ht⟩
    refine ⟨t, ?_⟩
    rw [hM] at ht
    have : (g : ℚ) * evalRow (e.map (· / g)) x = (g : ℚ) * ((t : ℚ) * ((m / g : Int) : ℚ)) := by rw [ht]; ring
    exact mul_left_cancel₀ hg0 this

/-- the divisor `strong_normalize` uses -/
def cn_sg (r : CRow) : Int :=
  if rowGcd r.normalize.e = 0 then r.normalize.m else gcdI r.normalize.m (rowGcd r.normalize.e)

theorem cn_strongNormalize_eq (r : CRow) :
    r.strongNormalize = if cn_sg r ≠ 0 ∧ cn_sg r ≠ 1 then
      { e := r.normalize.e.map (· / cn_sg r), m := r.normalize.m / cn_sg r } else r.normalize := rfl

theorem cn_sg_spec (r : CRow) (hm : 0 ≤ r.m) : 0 ≤ cn_sg r ∧ cn_sg r ∣ r.normalize.m ∧ ∀ i, cn_sg r ∣ Red.get r.normalize.e i := by
  have hm' : 0 ≤ r.normalize.m := by rw [cn_normalize_m]; exact hm
  unfold cn_sg
  by_cases h0 : rowGcd r.normalize.e = 0
  · rw [if_pos h0]
    refine ⟨hm', dvd_refl _, fun i => ?_⟩
    have := cn_rowGcd_dvd r.normalize.e i
    rw [h0] at this
    rw [zero_dvd_iff.mp this]; exact dvd_zero _
  · rw [if_neg h0]
    unfold gcdI
    exact ⟨Int.natCast_nonneg _, Int.gcd_dvd_left .., fun i => (Int.gcd_dvd_right ..).trans (cn_rowGcd_dvd _ i)⟩

theorem cn_strongNormalize_length (r : CRow) : r.strongNormalize.e.length = r.e.length := by
  rw [cn_strongNormalize_eq]
  split
  · simp [cn_normalize_length]
  · exact cn_normalize_length r

theorem cn_strongNormalize_spaceDim (r : CRow) : r.strongNormalize.spaceDim = r.spaceDim := by
  unfold CRow.spaceDim; rw [cn_strongNormalize_length]

theorem cn_strongNormalize_m_nonneg (r : CRow) (hm : 0 ≤ r.m) : 0 ≤ r.strongNormalize.m := by
  have hg := cn_sg_spec r hm
  have hm' : 0 ≤ r.normalize.m := by rw [cn_normalize_m]; exact hm
  rw [cn_strongNormalize_eq]
  split
  · exact Int.ediv_nonneg hm' hg.1
  · exact hm'

theorem cn_rsem_strongNormalize (r : CRow) (hm : 0 ≤ r.m) (x : Pt) : rsem r.strongNormalize x ↔ rsem r x := by
  have hg := cn_sg_spec r hm
  refine Iff.trans ?_ (cn_rsem_normalize r x)
  rw [cn_strongNormalize_eq]
  split
  · rename_i h
    exact cn_rsem_div _ _ _ (lt_of_le_of_ne hg.1 (Ne.symm h.1)) hg.2.1 hg.2.2 x
  · rfl

/-- `Congruence::strong_normalize()` keeps the point set of a row with a non-negative modulus -/
theorem cn_strongNormalize_set (r : CRow) (hm : 0 ≤ r.m) : CRow.set r.strongNormalize = CRow.set r := by
  ext x; rw [cn_mem_set, cn_mem_set]; exact cn_rsem_strongNormalize r hm x

example : CRow.set (({ e := [7, -2, 4], m := 6 } : CRow).strongNormalize) = CRow.set { e := [7, -2, 4], m := 6 } ∧
    ({ e := [7, -2, 4], m := 6 } : CRow).strongNormalize = { e := [5, 2, -4], m := 6 } :=
  ⟨cn_strongNormalize_set _ (by decide), by decide⟩

end PPLV.Lattice.GO
