import PPLV.Lattice.ProofsConvGCCert
import Mathlib.Tactic.FieldSimp

/-!
# The homogeneous reading of a generator system agrees with the PPL reading (`gensOf`, K2's `Gen.sem`)

For a system normalised with divisor `D` (`GNorm`): `gensOf n rows = some G` and
`Gen.sem G x ↔ Hom n rows (homog D x)`.
-/
namespace PPLV.Lattice.Red
open PPLV.Lattice

/-- a generator system as `Grid` keeps it after `normalize_divisors`: every point has divisor `D`, every
    parameter has `D` in the parameter divisor column, lines have a zero inhomogeneous term -/
structure GNorm (n : Nat) (D : Int) (rows : List GRow) : Prop where
  pos : 0 < D
  pt : ∃ r ∈ rows, r.line = false ∧ get r.e 0 = D
  col0 : ∀ r ∈ rows, r.line = false → get r.e 0 = 0 ∨ get r.e 0 = D
  par : ∀ r ∈ rows, r.line = false → get r.e 0 = 0 → get r.e (n + 1) = D
  lin : ∀ r ∈ rows, r.line = true → get r.e 0 = 0

/-- a direction `y` of `ℚⁿ` as a homogeneous vector `(0, y)` -/
def shift (y : Pt) : Pt := fun i => match i with
  | 0 => 0
  | i + 1 => y i

/-- `(v₁/D, v₂/D, …)` -/
def tailD (D : ℚ) (v : Pt) : Pt := fun i => v (i + 1) / D

theorem coords_toFun (n : Nat) (r : GRow) (d : ℚ) (i : Nat) :
    (r.coords n d).toFun i = if i < n then (get r.e (i + 1) : ℚ) / d else 0 := by
  unfold GRow.coords ratRow Vec.toFun get
  by_cases h : i < n
  · simp only [h, if_true, List.getD_eq_getElem?_getD, List.getElem?_map, List.getElem?_take, List.getElem?_tail]
    cases r.e[i + 1]? <;> simp
  · simp [h]

theorem homog_add_shift (D : ℚ) (x y : Pt) (c : ℚ) : homog D (x + c • y) = homog D x + (c * D) • shift y := by
  funext i
  cases i with
  | zero => simp [homog, shift]
  | succ i => simp [homog, shift]; ring

theorem homog_sub (D : ℚ) (a b : Pt) : homog D a - homog D b = D • shift (a - b) := by
  funext i
  cases i with
  | zero => simp [homog, shift]
  | succ i => simp [homog, shift]; ring

/-- a row with inhomogeneous term `D`: its homogeneous vector is `(D, D·coords/D)` -/
theorem hvec_point (n : Nat) (r : GRow) (D : Int) (hD : D ≠ 0) (h0 : get r.e 0 = D) :
    (r.hvec n).toFun = homog (D : ℚ) (r.coords n (D : ℚ)).toFun := by
  have hD' : (D : ℚ) ≠ 0 := by exact_mod_cast hD
  funext i
  cases i with
  | zero => simp [hvec_toFun, homog, h0]
  | succ i =>
    simp only [hvec_toFun, homog, coords_toFun]
    by_cases h : i < n
    · have : i + 1 < n + 1 := by omega
      simp only [this, h, if_true]; field_simp
    · have : ¬ i + 1 < n + 1 := by omega
      simp [this, h]

/-- a row with inhomogeneous term `0`: its homogeneous vector is `(0, d·coords/d)` -/
theorem hvec_dir (n : Nat) (r : GRow) (d : ℚ) (hd : d ≠ 0) (h0 : get r.e 0 = 0) :
    (r.hvec n).toFun = d • shift (r.coords n d).toFun := by
  funext i
  cases i with
  | zero => simp [hvec_toFun, shift, h0]
  | succ i =>
    simp only [hvec_toFun, shift, coords_toFun, Pi.smul_apply, smul_eq_mul]
    by_cases h : i < n
    · have : i + 1 < n + 1 := by omega
      simp only [this, h, if_true]; field_simp
    · have : ¬ i + 1 < n + 1 := by omega
      simp [this, h]

theorem tailD_point (n : Nat) (r : GRow) (D : Int) (hD : D ≠ 0) :
    tailD (D : ℚ) (r.hvec n).toFun = (r.coords n (D : ℚ)).toFun := by
  funext i
  simp only [tailD, hvec_toFun, coords_toFun]
  by_cases h : i < n
  · have : i + 1 < n + 1 := by omega
    simp [this, h]
  · have : ¬ i + 1 < n + 1 := by omega
    simp [this, h]

theorem tailD_add (D : ℚ) (v w : Pt) (c : ℚ) : tailD D (v + c • w) = tailD D v + c • tailD D w := by
  funext i; simp [tailD]; ring

theorem tailD_homog (D : ℚ) (hD : D ≠ 0) (x : Pt) : tailD D (homog D x) = x := by
  funext i; simp [tailD, homog]; field_simp

/-- the membership facts of the three filters of `gensOf` -/
theorem gensOf_eq (n : Nat) (D : Int) (rows : List GRow) (h : GNorm n D rows) :
    ∃ p ps, rows.filter (fun r => !r.line && get r.e 0 != 0) = p :: ps ∧
      gensOf n rows = some (.gens
        { pt := p.coords n (get p.e 0 : Rat),
          params := ps.map (fun r => vsub (r.coords n (get r.e 0 : Rat)) (p.coords n (get p.e 0 : Rat)))
                    ++ (rows.filter (fun r => !r.line && get r.e 0 == 0)).map (fun r => r.coords n (get r.e (n + 1) : Rat)),
          lines := (rows.filter (fun r => r.line)).map (fun r => r.coords n 1) }) := by
  have hDne : D ≠ 0 := by have := h.pos; omega
  have hq : (rows.filter (fun r => !r.line && get r.e 0 == 0)).any (fun r => get r.e (n + 1) == 0) = false := by
    rw [List.any_eq_false]
    intro r hr
    rw [List.mem_filter] at hr
    obtain ⟨hr, hc⟩ := hr
    simp only [Bool.and_eq_true, Bool.not_eq_true', beq_iff_eq] at hc
    have := h.par r hr hc.1 hc.2
    simp [this, hDne]
  obtain ⟨r0, hr0, hl0, he0⟩ := h.pt
  have hmem : r0 ∈ rows.filter (fun r => !r.line && get r.e 0 != 0) := by
    rw [List.mem_filter]; refine ⟨hr0, ?_⟩; simp [hl0, he0, hDne]
  cases hpts : rows.filter (fun r => !r.line && get r.e 0 != 0) with
  | nil => rw [hpts] at hmem; simp at hmem
  | cons p ps =>
    refine ⟨p, ps, rfl, ?_⟩
    unfold gensOf
    simp only [hq, hpts]
    rfl

/-- **the two readings agree** on a normalised system -/
theorem gensOf_gnorm (n : Nat) (D : Int) (rows : List GRow) (h : GNorm n D rows) :
    ∃ G, gensOf n rows = some G ∧ ∀ x, Gen.sem G x ↔ Hom n rows (homog (D : ℚ) x) := by
  obtain ⟨p, ps, hpts, hG⟩ := gensOf_eq n D rows h
  refine ⟨_, hG, ?_⟩
  have hDne : D ≠ 0 := by have := h.pos; omega
  have hDq : (D : ℚ) ≠ 0 := by exact_mod_cast hDne
  -- facts about the filters
  have hpt_mem : ∀ r, r ∈ p :: ps → r ∈ rows ∧ r.line = false ∧ get r.e 0 = D := by
    intro r hr
    rw [← hpts, List.mem_filter] at hr
    obtain ⟨hr, hc⟩ := hr
    simp only [Bool.and_eq_true, Bool.not_eq_true', bne_iff_ne, ne_eq] at hc
    refine ⟨hr, hc.1, ?_⟩
    rcases h.col0 r hr hc.1 with h0 | h0
    · exact absurd h0 hc.2
    · exact h0
  have hq_mem : ∀ r, r ∈ rows.filter (fun r => !r.line && get r.e 0 == 0) →
      r ∈ rows ∧ r.line = false ∧ get r.e 0 = 0 ∧ get r.e (n + 1) = D := by
    intro r hr
    rw [List.mem_filter] at hr
    obtain ⟨hr, hc⟩ := hr
    simp only [Bool.and_eq_true, Bool.not_eq_true', beq_iff_eq] at hc
    exact ⟨hr, hc.1, hc.2, h.par r hr hc.1 hc.2⟩
  have hl_mem : ∀ r, r ∈ rows.filter (fun r => r.line) → r ∈ rows ∧ r.line = true ∧ get r.e 0 = 0 := by
    intro r hr
    rw [List.mem_filter] at hr
    exact ⟨hr.1, hr.2, h.lin r hr.1 hr.2⟩
  have hp := hpt_mem p (by simp)
  have pc_mem : ∀ r, r ∈ rows → r.line = false → (r.hvec n).toFun ∈ (pcVecs n rows).map Vec.toFun := by
    intro r hr hl
    simp only [pcVecs, List.map_map, List.mem_map, List.mem_filter]
    exact ⟨r, ⟨hr, by simp [hl]⟩, rfl⟩
  have ln_mem : ∀ r, r ∈ rows → r.line = true → (r.hvec n).toFun ∈ (lineVecs n rows).map Vec.toFun := by
    intro r hr hl
    simp only [lineVecs, List.map_map, List.mem_map, List.mem_filter]
    exact ⟨r, ⟨hr, hl⟩, rfl⟩
  set pv : Vec := p.coords n (get p.e 0 : Rat) with hpv
  have hpvD : pv = p.coords n (D : ℚ) := by rw [hpv, hp.2.2]
  intro x
  show Gens.Mem _ x ↔ _
  constructor
  · -- every member of the PPL reading is in the homogeneous lattice
    intro hx
    induction hx with
    | pt =>
      show Hom n rows (homog (D : ℚ) pv.toFun)
      rw [hpvD, ← hvec_point n p D hDne hp.2.2]
      exact Abs.Dir.of_param (pc_mem p hp.1 hp.2.1)
    | @param y q k hq _ ih =>
      rw [axpy_eq, homog_add_shift]
      refine Abs.Dir.add ih ?_
      have hdir : Hom n rows ((D : ℚ) • shift q.toFun) := by
        simp only [List.mem_append, List.mem_map] at hq
        rcases hq with ⟨r, hr, rfl⟩ | ⟨r, hr, rfl⟩
        · have hr' := hpt_mem r (List.mem_cons_of_mem _ hr)
          rw [toFun_vsub, hr'.2.2, hpvD, ← homog_sub, ← hvec_point n r D hDne hr'.2.2,
            ← hvec_point n p D hDne hp.2.2]
          exact Abs.Dir.sub (Abs.Dir.of_param (pc_mem r hr'.1 hr'.2.1)) (Abs.Dir.of_param (pc_mem p hp.1 hp.2.1))
        · have hr' := hq_mem r hr
          rw [hr'.2.2.2, ← hvec_dir n r (D : ℚ) hDq hr'.2.2.1]
          exact Abs.Dir.of_param (pc_mem r hr'.1 hr'.2.1)
      have e : ((k : ℚ) * (D : ℚ)) • shift q.toFun = (k : ℚ) • ((D : ℚ) • shift q.toFun) := by
        rw [smul_smul]
      rw [e]
      exact Abs.Dir.zsmul k hdir
    | @line y l c hl _ ih =>
      rw [axpy_eq, homog_add_shift]
      refine Abs.Dir.add ih ?_
      simp only [List.mem_map] at hl
      obtain ⟨r, hr, rfl⟩ := hl
      have hr' := hl_mem r hr
      have := hvec_dir n r 1 one_ne_zero hr'.2.2
      rw [one_smul] at this
      have e : (r.coords n 1).toFun = (r.coords n (1 : ℚ)).toFun := rfl
      rw [e, ← this]
      exact Abs.Dir.of_line _ (ln_mem r hr'.1 hr'.2.1)
  · -- conversely
    intro hx
    have key : ∀ v, Abs.Dir ((pcVecs n rows).map Vec.toFun) ((lineVecs n rows).map Vec.toFun) v →
        ∃ m : ℤ, v 0 = (m : ℚ) * (D : ℚ) ∧
          GDir (ps.map (fun r => vsub (r.coords n (get r.e 0 : Rat)) pv)
                ++ (rows.filter (fun r => !r.line && get r.e 0 == 0)).map (fun r => r.coords n (get r.e (n + 1) : Rat)))
              ((rows.filter (fun r => r.line)).map (fun r => r.coords n 1))
              (tailD (D : ℚ) v - (m : ℚ) • pv.toFun) := by
      intro v hv
      induction hv with
      | zero =>
        refine ⟨0, by simp, ?_⟩
        have : tailD (D : ℚ) 0 - ((0 : ℤ) : ℚ) • pv.toFun = 0 := by funext i; simp [tailD]
        rw [this]; exact Abs.Dir.zero
      | @param w q k hq _ ih =>
        obtain ⟨m, hm0, hm⟩ := ih
        simp only [pcVecs, List.map_map, List.mem_map, List.mem_filter, Function.comp] at hq
        obtain ⟨r, ⟨hr, hl⟩, rfl⟩ := hq
        have hl' : r.line = false := by simpa using hl
        rcases h.col0 r hr hl' with h0 | h0
        · -- a parameter row
          refine ⟨m, by simp [hm0, hvec_toFun, h0], ?_⟩
          have hrq : r ∈ rows.filter (fun r => !r.line && get r.e 0 == 0) := by
            rw [List.mem_filter]; exact ⟨hr, by simp [hl', h0]⟩
          have e : tailD (D : ℚ) (w + (k : ℚ) • (r.hvec n).toFun) - (m : ℚ) • pv.toFun
              = (tailD (D : ℚ) w - (m : ℚ) • pv.toFun) + (k : ℚ) • (r.coords n (get r.e (n + 1) : Rat)).toFun := by
            rw [tailD_add, tailD_point n r D hDne, (hq_mem r hrq).2.2.2]; module
          rw [e]
          refine Abs.Dir.param k ?_ hm
          exact List.mem_map_of_mem (List.mem_append_right _ (List.mem_map_of_mem hrq))
        · -- a point row
          refine ⟨m + k, by simp [hm0, hvec_toFun, h0]; ring, ?_⟩
          have hrp : r ∈ p :: ps := by
            rw [← hpts, List.mem_filter]; exact ⟨hr, by simp [hl', h0, hDne]⟩
          rcases List.mem_cons.mp hrp with rfl | hrps
          · have e : tailD (D : ℚ) (w + (k : ℚ) • (r.hvec n).toFun) - ((m + k : ℤ) : ℚ) • pv.toFun
                = tailD (D : ℚ) w - (m : ℚ) • pv.toFun := by
              rw [tailD_add, tailD_point n r D hDne, ← hpvD]; push_cast; module
            rw [e]; exact hm
          · have e : tailD (D : ℚ) (w + (k : ℚ) • (r.hvec n).toFun) - ((m + k : ℤ) : ℚ) • pv.toFun
                = (tailD (D : ℚ) w - (m : ℚ) • pv.toFun)
                  + (k : ℚ) • (vsub (r.coords n (get r.e 0 : Rat)) pv).toFun := by
              rw [tailD_add, tailD_point n r D hDne, toFun_vsub, h0]; push_cast; module
            rw [e]
            refine Abs.Dir.param k ?_ hm
            exact List.mem_map_of_mem (List.mem_append_left _ (List.mem_map_of_mem hrps))
      | @line w l c hl _ ih =>
        obtain ⟨m, hm0, hm⟩ := ih
        simp only [lineVecs, List.map_map, List.mem_map, List.mem_filter, Function.comp] at hl
        obtain ⟨r, ⟨hr, hl'⟩, rfl⟩ := hl
        have h0 := h.lin r hr hl'
        refine ⟨m, by simp [hm0, hvec_toFun, h0], ?_⟩
        have hrl : r ∈ rows.filter (fun r => r.line) := by rw [List.mem_filter]; exact ⟨hr, hl'⟩
        have e : tailD (D : ℚ) (w + c • (r.hvec n).toFun) - (m : ℚ) • pv.toFun
            = (tailD (D : ℚ) w - (m : ℚ) • pv.toFun) + (c / (D : ℚ)) • (r.coords n 1).toFun := by
          rw [tailD_add, tailD_point n r D hDne]
          have : (r.coords n (D : ℚ)).toFun = (1 / (D : ℚ)) • (r.coords n 1).toFun := by
            funext i; simp only [coords_toFun, Pi.smul_apply, smul_eq_mul]
            by_cases hi : i < n
            · simp [hi]; field_simp
            · simp [hi]
          rw [this]; module
        rw [e]
        exact Abs.Dir.line _ (List.mem_map_of_mem (List.mem_map_of_mem hrl)) hm
    obtain ⟨m, hm0, hm⟩ := key _ hx
    have hm1 : m = 1 := by
      have : (D : ℚ) = (m : ℚ) * (D : ℚ) := by simpa [homog] using hm0
      have : (m : ℚ) = 1 := by
        have h2 : ((m : ℚ) - 1) * (D : ℚ) = 0 := by linarith
        rcases mul_eq_zero.mp h2 with h3 | h3
        · linarith
        · exact absurd h3 hDq
      exact_mod_cast this
    rw [hm1, tailD_homog _ hDq] at hm
    rw [mem_iff_gdir]
    simpa using hm

end PPLV.Lattice.Red
