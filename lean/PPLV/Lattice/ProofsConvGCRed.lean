import PPLV.Lattice.ProofsConvGCLoop

/-!
# `Grid::conversion` (generators → congruences): the final `reduce_reduced` loop keeps the final rows

`reduce_reduced` subtracts multiples of the pivot row (the row of `dim`) from the rows above it; with an
equality pivot every row may be reduced (the products of the pivot with the source rows vanish), with a
proper pivot only the proper rows are (same modulus): the products stay in `L·ℤ`, the products with the
lines stay `0`, the rows stay triangular.
-/
namespace PPLV.Lattice.Red

theorem expr_crow (c : CRow) : HasExpr.expr c = c.e := rfl
theorem setExpr_crow (c : CRow) (e : Row) : HasExpr.setExpr c e = { c with e := e } := rfl

section
variable (source : List GRow) (dk : List Nat) (dims : Nat)

/-- `skipUp` finds the dimension of the previous dest row -/
theorem skipUpAux_spec : ∀ (fuel k : Nat), k + fuel = dims → 0 < nl dk dims - nl dk k →
    k ≤ skipUpAux dk fuel k ∧ skipUpAux dk fuel k < dims ∧ nlB dk (skipUpAux dk fuel k) = true ∧
      nl dk (skipUpAux dk fuel k) = nl dk k
  | 0, k, h1, h2 => by
    have : k = dims := by omega
    subst this; omega
  | fuel + 1, k, h1, h2 => by
    unfold skipUpAux
    by_cases hl : kind dk k = CON_VIRTUAL
    · have hlb : nlB dk k = false := by simp [nlB, hl, CON_VIRTUAL, LINE]
      have e1 := cntBelow_succ_neg (nlB dk) k hlb
      rw [if_pos hl]
      obtain ⟨a1, a2, a3, a4⟩ := skipUpAux_spec fuel (k + 1) (by omega) (by simp only [nl] at *; omega)
      exact ⟨by omega, a2, a3, by simp only [nl] at *; omega⟩
    · rw [if_neg hl]
      exact ⟨Nat.le_refl _, by omega, by simpa [nlB, CON_VIRTUAL, LINE] using hl, rfl⟩

theorem skipUp_spec (hdk : dk.length = dims) (ki ri : Nat) (hki : ki < dims) (hl : nlB dk ki = true)
    (hri : ri + 1 = pos dk dims ki) :
    ki < skipUp dk ki ∧ skipUp dk ki < dims ∧ nlB dk (skipUp dk ki) = true ∧ ri = pos dk dims (skipUp dk ki) := by
  unfold skipUp
  rw [hdk]
  obtain ⟨a1, a2, a3, a4⟩ := skipUpAux_spec dk dims (dims - (ki + 1)) (ki + 1) (by omega) (by simp only [pos] at hri; omega)
  refine ⟨by omega, a2, a3, ?_⟩
  have e1 := cntBelow_succ_pos (nlB dk) _ a3
  have m1 := cntBelow_mono (nlB dk) (show skipUpAux dk (dims - (ki + 1)) (ki + 1) + 1 ≤ dims from a2)
  simp only [pos, nl] at *; omega

theorem FinalOK_set (M L : Int) (T : List CRow) (hT : FinalOK source dk dims M L T) (q0 : Nat) (hq0 : q0 < dims)
    (hl0 : nlB dk q0 = true) (c' : CRow) (hc' : FinRow source dk dims M L q0 c') :
    FinalOK source dk dims M L (T.set (pos dk dims q0) c') := by
  refine ⟨by simp [hT.len], fun q hq hql => ?_⟩
  rw [rowAt_set]
  by_cases h : pos dk dims q = pos dk dims q0
  · have := pos_inj dk dims q q0 hq hq0 hql hl0 h
    subst this
    rw [if_pos ⟨rfl, by rw [hT.len]; exact pos_lt dk dims q hq hql⟩]
    exact hc'
  · rw [if_neg (fun hc => h hc.1)]
    exact hT.rows q hq hql

/-- one row reduced by the pivot `P` (the row of `dim`) -/
theorem rowReduce_final (M L : Int) (P : Row) (dim : Nat)
    (hPtri : ∀ k, dim < k → get P k = 0)
    (hPprod : ∀ p, p < dims → nvB dk p = true →
      (kind dk p = LINE → dotUpto P (rowAt source (nv dk p)).e dims = 0) ∧ L ∣ dotUpto P (rowAt source (nv dk p)).e dims)
    (T : List CRow) (hT : FinalOK source dk dims M L T) (q : Nat) (hq : q < dims) (hql : nlB dk q = true) (hdq : dim < q)
    (hzero : nvB dk q = false → ∀ p, p < dims → nvB dk p = true → dotUpto P (rowAt source (nv dk p)).e dims = 0)
    (num : Int) :
    FinalOK source dk dims M L
      (if num ≠ 0 then
        T.set (pos dk dims q) (HasExpr.setExpr (rowAt T (pos dk dims q))
          (linearCombine (HasExpr.expr (rowAt T (pos dk dims q))) P 1 (-num) 0 (dim + 1)))
       else T) := by
  by_cases hn : num ≠ 0
  · rw [if_pos hn, expr_crow, setExpr_crow]
    apply FinalOK_set source dk dims M L T hT _ hq hql
    have R := hT.rows _ hq hql
    have hget : ∀ k, get (linearCombine (rowAt T (pos dk dims q)).e P 1 (-num) 0 (dim + 1)) k =
        get (rowAt T (pos dk dims q)).e k - num * get P k := by
      intro k
      rw [get_linearCombine]
      by_cases hc : k < (rowAt T (pos dk dims q)).e.length ∧ 0 ≤ k ∧ k < dim + 1
      · rw [if_pos hc]; ring
      · rw [if_neg hc]
        by_cases hk : k < dim + 1
        · have h1 : (rowAt T (pos dk dims q)).e.length ≤ k := by omega
          rw [R.len] at h1
          omega
        · rw [hPtri k (by omega)]; ring
    refine ⟨by simp [R.len], R.mv, R.mp, fun k hk => ?_, ?_, fun p hp hpv => ?_⟩
    · simp only []
      rw [hget k, R.tri k hk, hPtri k (by omega)]; ring
    · simp only []
      rw [hget q, hPtri q hdq]
      have := R.diag
      omega
    · simp only []
      rw [dotUpto_sub _ _ P _ num dims (fun k _ => hget k)]
      obtain ⟨r1, r2, r3⟩ := R.prod p hp hpv
      obtain ⟨p1, p2⟩ := hPprod p hp hpv
      refine ⟨fun hline => by rw [r1 hline, p1 hline]; ring, fun hv => ?_, ?_⟩
      · rw [r2 hv, hzero hv p hp hpv]; ring
      · exact Int.dvd_sub r3 (Dvd.dvd.mul_left p2 _)
  · rw [if_neg hn]; exact hT

/-- the loop of `reduce_reduced` (congruences) keeps the final rows -/
theorem reduceReducedLoop_final (hdk : dk.length = dims) (M L : Int) (P : Row) (pd half : Int) (dim : Nat) (rie : Bool)
    (rk : Nat)
    (hPtri : ∀ k, dim < k → get P k = 0)
    (hPprod : ∀ p, p < dims → nvB dk p = true →
      (kind dk p = LINE → dotUpto P (rowAt source (nv dk p)).e dims = 0) ∧ L ∣ dotUpto P (rowAt source (nv dk p)).e dims)
    (hP0 : rie = true → ∀ p, p < dims → nvB dk p = true → dotUpto P (rowAt source (nv dk p)).e dims = 0) :
    ∀ (ri ki : Nat) (T : List CRow), ki < dims → nlB dk ki = true → dim ≤ ki → ri = pos dk dims ki →
      FinalOK source dk dims M L T →
      FinalOK source dk dims M L (reduceReducedLoop false dk P pd half dim 0 dim rie rk ri ki T)
  | 0, ki, T, _, _, _, _, hT => by simpa [reduceReducedLoop] using hT
  | ri + 1, ki, T, hki, hl, hdim, hri, hT => by
    rw [reduceReducedLoop]
    simp only [Bool.false_eq_true, if_false]
    obtain ⟨s1, s2, s3, s4⟩ := skipUp_spec dk dims hdk ki ri hki hl hri
    refine reduceReducedLoop_final hdk M L P pd half dim rie rk hPtri hPprod hP0 ri (skipUp dk ki) _ s2 s3 (by omega) s4 ?_
    subst s4
    by_cases hcond : (rie || (rk == PARAMETER && kind dk (skipUp dk ki) == PARAMETER)) = true
    · rw [if_pos hcond]
      refine rowReduce_final source dk dims M L P dim hPtri hPprod T hT (skipUp dk ki) s2 s3 (by omega) ?_ _
      intro hv
      rcases (Bool.or_eq_true _ _).mp hcond with h | h
      · exact hP0 h
      · exfalso
        simp only [Bool.and_eq_true, beq_iff_eq] at h
        simp [nvB, h.2, PARAMETER, GEN_VIRTUAL] at hv
    · rw [if_neg hcond]; exact hT

end

end PPLV.Lattice.Red
