import PPLV.Lattice.ProofsConvGCInit

/-!
# `Grid::conversion` (generators → congruences): what the two inner loops of one `dim` do to the rows

* `divPhase_spec`: the loop of `multiply_grid` + exact division of column `dim` (Grid_conversion.cc:255-266);
* `colPhase_spec`: the loop over `dim_prec` subtracting multiples of column `dim` (Grid_conversion.cc:279-301).
-/
namespace PPLV.Lattice.Red

/-- entry `k` of row `i` -/
def ent (T : List CRow) (i k : Nat) : Int := get (rowAt T i).e k

/-! ### a row operation applied to the rows `K-1, …, 0` -/

theorem foldl_rowop (op : CRow → CRow) (K : Nat) (T : List CRow) :
    ((dimsDown K).foldl (fun d i => d.set i (op (rowAt d i))) T).length = T.length ∧
    ∀ i, rowAt ((dimsDown K).foldl (fun d i => d.set i (op (rowAt d i))) T) i =
      if i < K ∧ i < T.length then op (rowAt T i) else rowAt T i := by
  have key := foldl_dimsDown_inv (fun (d : List CRow) i => d.set i (op (rowAt d i)))
    (fun r cur => cur.length = T.length ∧
      ∀ i, rowAt cur i = if r ≤ i ∧ i < K ∧ i < T.length then op (rowAt T i) else rowAt T i) K T ?_ ?_
  · refine ⟨key.1, fun i => ?_⟩
    rw [key.2 i]; simp
  · refine ⟨rfl, fun i => ?_⟩
    rw [if_neg (by omega)]
  · rintro r cur hr ⟨h1, h2⟩
    refine ⟨by simp [h1], fun i => ?_⟩
    rw [rowAt_set, h1]
    by_cases hi : i = r
    · subst hi
      by_cases hl : i < T.length
      · rw [if_pos ⟨rfl, hl⟩, if_pos ⟨Nat.le_refl _, hr, hl⟩, h2 i, if_neg (by omega)]
      · rw [if_neg (by omega), if_neg (by omega), h2 i, if_neg (by omega)]
    · rw [if_neg (by omega), h2 i]
      by_cases hc : r + 1 ≤ i ∧ i < K ∧ i < T.length
      · rw [if_pos hc, if_pos ⟨by omega, hc.2.1, hc.2.2⟩]
      · rw [if_neg hc, if_neg (by omega)]

/-! ### the column phase -/

def subOp (s : Int) (dim p : Nat) (c : CRow) : CRow := { c with e := c.e.set p (get c.e p - s * get c.e dim) }

theorem gcSubRow_eq (s : Int) (dim p : Nat) : gcSubRow s dim p = fun d i => d.set i (subOp s dim p (rowAt d i)) := rfl

def gcColStep (source : List GRow) (dk : List Nat) (dim destIndex : Nat) (s : Nat × List CRow) (dimPrec : Nat) :
    Nat × List CRow :=
  if kind dk dimPrec ≠ GEN_VIRTUAL then
    let tsi := s.1 - 1
    let sourceDim := get (rowAt source tsi).e dim
    (tsi, (dimsDown destIndex).foldl (gcSubRow sourceDim dim dimPrec) s.2)
  else s

/-- the rows after the column phase -/
structure ColSpec (source : List GRow) (dk : List Nat) (dim K : Nat) (T T2 : List CRow) : Prop where
  len : T2.length = T.length
  m : ∀ i, i < T.length → (rowAt T2 i).m = (rowAt T i).m
  elen : ∀ i, i < T.length → (rowAt T2 i).e.length = (rowAt T i).e.length
  ent : ∀ i, i < T.length → ∀ k, ent T2 i k =
    if i < K ∧ k < dim ∧ nvB dk k = true then ent T i k - sEnt source (nv dk k) dim * ent T i dim else ent T i k

theorem colPhase_spec (source : List GRow) (dk : List Nat) (dims dim K : Nat) (T : List CRow) (hd : dim < dims)
    (hrows : ∀ i, i < T.length → (rowAt T i).e.length = dims) :
    ((dimsDown dim).foldl (gcColStep source dk dim K) (nv dk dim, T)).1 = nv dk 0 ∧
    ColSpec source dk dim K T ((dimsDown dim).foldl (gcColStep source dk dim K) (nv dk dim, T)).2 := by
  have key := foldl_dimsDown_inv (gcColStep source dk dim K)
    (fun p s => s.1 = nv dk p ∧ s.2.length = T.length ∧
      (∀ i, i < T.length → (rowAt s.2 i).m = (rowAt T i).m) ∧
      (∀ i, i < T.length → (rowAt s.2 i).e.length = (rowAt T i).e.length) ∧
      ∀ i, i < T.length → ∀ k, ent s.2 i k =
        if i < K ∧ p ≤ k ∧ k < dim ∧ nvB dk k = true then ent T i k - sEnt source (nv dk k) dim * ent T i dim
        else ent T i k) dim (nv dk dim, T) ?_ ?_
  · obtain ⟨h1, h2, h3, h4, h5⟩ := key
    refine ⟨h1, h2, h3, h4, fun i hi k => ?_⟩
    rw [h5 i hi k]; simp
  · refine ⟨rfl, rfl, fun _ _ => rfl, fun _ _ => rfl, fun i _ k => ?_⟩
    rw [if_neg (by omega)]
  · rintro p s hp ⟨h1, h2, h3, h4, h5⟩
    unfold gcColStep
    by_cases hv : kind dk p = GEN_VIRTUAL
    · have hvb : nvB dk p = false := by simp [nvB, hv]
      have e1 := cntBelow_succ_neg (nvB dk) p hvb
      simp only [hv, ne_eq, not_true_eq_false, if_false]
      refine ⟨by simp only [nv] at *; omega, h2, h3, h4, fun i hi k => ?_⟩
      rw [h5 i hi k]
      by_cases hkp : k = p
      · subst hkp; simp [hvb]
      · by_cases hc : i < K ∧ p + 1 ≤ k ∧ k < dim ∧ nvB dk k = true
        · rw [if_pos hc, if_pos ⟨hc.1, by omega, hc.2.2.1, hc.2.2.2⟩]
        · rw [if_neg hc, if_neg (fun h => hc ⟨h.1, by omega, h.2.2.1, h.2.2.2⟩)]
    · have hvb : nvB dk p = true := by simp [nvB, hv]
      have e1 := cntBelow_succ_pos (nvB dk) p hvb
      have hsi : s.1 - 1 = nv dk p := by simp only [nv] at *; omega
      simp only [hv, ne_eq, not_false_eq_true, if_true]
      rw [hsi, gcSubRow_eq]
      obtain ⟨f1, f2⟩ := foldl_rowop (subOp (get (rowAt source (nv dk p)).e dim) dim p) K s.2
      refine ⟨rfl, by rw [f1, h2], fun i hi => ?_, fun i hi => ?_, fun i hi k => ?_⟩
      · rw [f2 i]; split
        · exact h3 i hi
        · exact h3 i hi
      · rw [f2 i]; split
        · simp only [subOp, List.length_set]; exact h4 i hi
        · exact h4 i hi
      · simp only [ent]
        rw [f2 i]
        have hlen : p < (rowAt s.2 i).e.length := by rw [h4 i hi, hrows i hi]; omega
        by_cases hiK : i < K
        · rw [if_pos ⟨hiK, by omega⟩]
          simp only [subOp]
          rw [get_set]
          by_cases hkp : k = p
          · subst hkp
            rw [if_pos ⟨rfl, hlen⟩, if_pos ⟨hiK, Nat.le_refl _, hp, hvb⟩]
            have a1 := h5 i hi k
            have a2 := h5 i hi dim
            rw [if_neg (by omega)] at a1 a2
            simp only [ent] at a1 a2
            rw [a1, a2]; rfl
          · rw [if_neg (by omega)]
            have a1 := h5 i hi k
            simp only [ent] at a1
            rw [a1]
            by_cases hc : i < K ∧ p + 1 ≤ k ∧ k < dim ∧ nvB dk k = true
            · rw [if_pos hc, if_pos ⟨hc.1, by omega, hc.2.2.1, hc.2.2.2⟩]
            · rw [if_neg hc, if_neg (fun h => hc ⟨h.1, by omega, h.2.2.1, h.2.2.2⟩)]
        · rw [if_neg (by omega)]
          have a1 := h5 i hi k
          simp only [ent] at a1
          rw [a1, if_neg (by omega), if_neg (by omega)]

/-! ### `multiply_grid` -/

/-- `c'` is `c` scaled by `f` -/
structure Scaled (c c' : CRow) (f : Int) : Prop where
  m : c'.m = c.m * f
  elen : c'.e.length = c.e.length
  get : ∀ k, get c'.e k = get c.e k * f

theorem Scaled.refl (c : CRow) : Scaled c c 1 := ⟨by simp, rfl, fun k => by simp⟩
theorem Scaled.scale (c : CRow) (f : Int) : Scaled c (c.scale f) f := ⟨scale_m c f, scale_length c f, scale_get c f⟩

theorem multiplyGridCg_spec (mult : Int) (hm : 0 < mult) (T : List CRow) (r N : Nat) (hN : T.length ≤ N) :
    (multiplyGridCg mult T r N).length = T.length ∧
    ∃ g : Int, 0 < g ∧ ∀ i, i < T.length → ∃ gi : Int, 0 < gi ∧ (0 < (rowAt T i).m → gi = g) ∧ (i = r → gi = mult) ∧
      Scaled (rowAt T i) (rowAt (multiplyGridCg mult T r N) i) gi := by
  unfold multiplyGridCg
  by_cases h1 : mult = 1
  · rw [if_pos h1]
    exact ⟨rfl, 1, by omega, fun i _ => ⟨1, by omega, fun _ => rfl, fun _ => h1.symm, Scaled.refl _⟩⟩
  · simp only [h1, if_false]
    by_cases hp : (rowAt T r).isProperCongruence = true
    · simp only [hp, if_true]
      refine ⟨by simp, mult, hm, fun i hi => ?_⟩
      rw [rowAt_mapIdx T _ i hi]
      by_cases hpi : (rowAt T i).isProperCongruence = true
      · rw [if_pos ⟨by omega, hpi⟩]
        exact ⟨mult, hm, fun _ => rfl, fun _ => rfl, Scaled.scale _ _⟩
      · rw [if_neg (fun h => hpi h.2)]
        refine ⟨1, by omega, fun h => ?_, fun h => ?_, Scaled.refl _⟩
        · exact absurd (by simpa [CRow.isProperCongruence] using h) hpi
        · subst h; exact absurd hp hpi
    · simp only [hp, Bool.false_eq_true, if_false]
      refine ⟨by simp, 1, by omega, fun i hi => ?_⟩
      rw [rowAt_set]
      by_cases hir : i = r
      · subst hir
        rw [if_pos ⟨rfl, hi⟩]
        refine ⟨mult, hm, fun h => ?_, fun _ => rfl, Scaled.scale _ _⟩
        exact absurd (by simpa [CRow.isProperCongruence] using h) hp
      · rw [if_neg (fun h => hir h.1)]
        exact ⟨1, by omega, fun _ => rfl, fun h => absurd h hir, Scaled.refl _⟩

/-! ### the division phase -/

/-- rows `lo ≤ i < K` have been treated -/
structure DivSpec (a : Int) (e lo K : Nat) (T T1 : List CRow) : Prop where
  len : T1.length = T.length
  ex : ∃ f : Int, 0 < f ∧ ∀ i, i < T.length → ∃ fi : Int, 0 < fi ∧ (0 < (rowAt T i).m → fi = f) ∧
    (rowAt T1 i).m = (rowAt T i).m * fi ∧ (rowAt T1 i).e.length = (rowAt T i).e.length ∧
    (∀ k, (k ≠ e ∨ ¬(lo ≤ i ∧ i < K)) → ent T1 i k = ent T i k * fi) ∧
    (lo ≤ i → i < K → ent T1 i e * a = ent T i e * fi)

theorem exact_mul (x a : Int) (ha : 0 < a) :
    0 < a / gcdI x a ∧ (x * (a / gcdI x a)) / a * a = x * (a / gcdI x a) := by
  have hg : 0 < gcdI x a := by
    simp only [gcdI]; exact_mod_cast Int.gcd_pos_of_ne_zero_right x (by omega)
  obtain ⟨x', hx⟩ := Int.gcd_dvd_left x a
  obtain ⟨a', ha'⟩ := Int.gcd_dvd_right x a
  have hq : a / gcdI x a = a' := by
    simp only [gcdI]
    exact Int.ediv_eq_of_eq_mul_right (by simp only [gcdI] at hg; omega) ha'
  rw [hq]
  have ha'pos : 0 < a' := by
    simp only [gcdI] at hg
    by_contra hc
    have : a' ≤ 0 := by omega
    have := Int.mul_nonpos_of_nonneg_of_nonpos (Int.le_of_lt hg) this
    omega
  refine ⟨ha'pos, ?_⟩
  apply Int.ediv_mul_cancel
  refine ⟨x', ?_⟩
  have e1 : x * a' = ((Int.gcd x a : Int) * x') * a' := by rw [← hx]
  have e2 : a * x' = ((Int.gcd x a : Int) * a') * x' := by rw [← ha']
  rw [e1, e2]; ring

theorem divPhase_spec (a : Int) (ha : 0 < a) (e K N : Nat) (T : List CRow) (hN : T.length = N) (hK : K ≤ N) :
    DivSpec a e 0 K T ((dimsDown K).foldl (gcDivideRow a e N) T) := by
  refine foldl_dimsDown_inv (gcDivideRow a e N) (fun lo cur => DivSpec a e lo K T cur) K T ?_ ?_
  · refine ⟨rfl, 1, by omega, fun i _ => ⟨1, by omega, fun _ => rfl, by simp, rfl, fun k _ => by simp, fun h1 h2 => by omega⟩⟩
  · rintro r cur hr ⟨hl, f, hf, hrow⟩
    unfold gcDivideRow
    obtain ⟨hmpos, hexact⟩ := exact_mul (get (rowAt cur r).e e) a ha
    obtain ⟨ml, g, hg, hmul⟩ := multiplyGridCg_spec _ hmpos cur r N (by omega)
    refine ⟨by simp [ml, hl], f * g, Int.mul_pos hf hg, fun i hi => ?_⟩
    obtain ⟨fi, hfi, c1, c2, c3, c4, c5⟩ := hrow i hi
    obtain ⟨gi, hgi, d1, d2, d3⟩ := hmul i (by omega)
    refine ⟨fi * gi, Int.mul_pos hfi hgi, fun hp => ?_, ?_, ?_, ?_, ?_⟩
    · have hpc : 0 < (rowAt cur i).m := by rw [c2]; exact Int.mul_pos hp hfi
      rw [c1 hp, d1 hpc]
    · rw [rowAt_set]
      by_cases hir : i = r
      · subst hir
        rw [if_pos ⟨rfl, by rw [ml]; omega⟩]
        simp only []
        rw [d3.m, c2]; ring
      · rw [if_neg (fun h => hir h.1), d3.m, c2]; ring
    · rw [rowAt_set]
      by_cases hir : i = r
      · subst hir
        rw [if_pos ⟨rfl, by rw [ml]; omega⟩]
        simp only [length_exactDivAssign]
        rw [d3.elen, c3]
      · rw [if_neg (fun h => hir h.1), d3.elen, c3]
    · intro k hk
      simp only [ent]
      rw [rowAt_set]
      by_cases hir : i = r
      · subst hir
        rw [if_pos ⟨rfl, by rw [ml]; omega⟩]
        simp only []
        rw [get_exactDivAssign]
        have hke : k ≠ e := by
          rcases hk with h | h
          · exact h
          · exact absurd ⟨Nat.le_refl _, hr⟩ h
        rw [if_neg (by omega), d3.get k]
        have := c4 k (Or.inl hke)
        simp only [ent] at this
        rw [this]; ring
      · rw [if_neg (fun h => hir h.1), d3.get k]
        have := c4 k (by
          rcases hk with h | h
          · exact Or.inl h
          · exact Or.inr (by omega))
        simp only [ent] at this
        rw [this]; ring
    · intro h1 h2
      simp only [ent]
      rw [rowAt_set]
      by_cases hir : i = r
      · subst hir
        rw [if_pos ⟨rfl, by rw [ml]; omega⟩]
        simp only []
        rw [get_exactDivAssign, if_pos ⟨Nat.le_refl _, by omega⟩, d3.get e, d2 rfl, hexact]
        have := c4 e (Or.inr (by omega))
        simp only [ent] at this
        rw [this]; ring
      · rw [if_neg (fun h => hir h.1), d3.get e]
        have := c5 (by omega) h2
        simp only [ent] at this
        calc get (rowAt cur i).e e * gi * a = (get (rowAt cur i).e e * a) * gi := by ring
          _ = (get (rowAt T i).e e * fi) * gi := by rw [this]
          _ = get (rowAt T i).e e * (fi * gi) := by ring

end PPLV.Lattice.Red
