import PPLV.Lattice.ProofsGridOpsCon2

/-!
# `Grid` stage 3, congruence-side mutators, part 3: `Congruence_System::insert`, `insert_verbatim`, `insert(system)`,
# `set_space_dimension` — the solutions of the resulting system
-/
namespace PPLV.Lattice.GO
open PPLV.Lattice PPLV.Lattice.Red

/-- the points at which every row of a list holds (no dimension attached) -/
def cn_rowsSet (rows : List CRow) : Set Pt := {x | ∀ r ∈ rows, x ∈ CRow.set r}

theorem cn_consSet_eq (n : Nat) (rows : List CRow) : consSet n rows = spaceSet n ∩ cn_rowsSet rows := by
  ext x; simp only [cn_mem_consSet, Set.mem_inter_iff, spaceSet, cn_rowsSet, Set.mem_ofPred_eq]

theorem cn_rowsSet_nil : cn_rowsSet [] = Set.univ := by
  ext x; simp [cn_rowsSet]

theorem cn_rowsSet_cons (r : CRow) (rows : List CRow) : cn_rowsSet (r :: rows) = CRow.set r ∩ cn_rowsSet rows := by
  ext x; simp [cn_rowsSet]

theorem cn_rowsSet_singleton (r : CRow) : cn_rowsSet [r] = CRow.set r := by
  ext x; simp [cn_rowsSet]

theorem cn_CSys_setSpaceDim_same (s : CSys) : s.setSpaceDim s.dim = s := by simp [CSys.setSpaceDim]

theorem cn_CSys_setSpaceDim_dim (s : CSys) (n : Nat) : (s.setSpaceDim n).dim = n := by
  unfold CSys.setSpaceDim; split
  · rfl
  · rename_i h; exact (not_not.mp h)

/-- `Congruence_System::set_space_dimension(n)`: same solutions in the `n`-space -/
theorem cn_CSys_setSpaceDim_consSet (s : CSys) (n : Nat) : consSet n (s.setSpaceDim n).rows = consSet n s.rows := by
  unfold CSys.setSpaceDim; split
  · exact cn_consSet_map_setSpaceDim n s.rows
  · rfl

theorem cn_CSys_setSpaceDim_CWf (s : CSys) (n : Nat) (hw : CWf s.dim s.rows) : CWf n (s.setSpaceDim n).rows := by
  unfold CSys.setSpaceDim; split
  · exact cn_CWf_map_setSpaceDim n s.rows (fun r hr => (hw r hr).2)
  · rename_i h; rw [← not_not.mp h]; exact hw

/-! ### `insert_verbatim` of a row that fits -/

theorem cn_insertVerbatim_rows (s : CSys) (cg : CRow) (hd : cg.spaceDim ≤ s.dim) :
    (s.insertVerbatim cg).dim = s.dim ∧
      (s.insertVerbatim cg).rows = s.rows ++ [if cg.spaceDim = s.dim then cg else cg.setSpaceDim s.dim] := by
  unfold CSys.insertVerbatim
  by_cases h : cg.spaceDim ≥ s.dim
  · have he : cg.spaceDim = s.dim := by omega
    rw [if_pos h, he, cn_CSys_setSpaceDim_same, if_pos rfl]; exact ⟨rfl, rfl⟩
  · rw [if_neg h, if_neg (by omega)]; exact ⟨rfl, rfl⟩

theorem cn_insertVerbatim_dim (s : CSys) (cg : CRow) (hd : cg.spaceDim ≤ s.dim) : (s.insertVerbatim cg).dim = s.dim :=
  (cn_insertVerbatim_rows s cg hd).1

theorem cn_insertVerbatim_consSet (s : CSys) (cg : CRow) (hd : cg.spaceDim ≤ s.dim) :
    consSet s.dim (s.insertVerbatim cg).rows = consSet s.dim s.rows ∩ CRow.set cg := by
  rw [(cn_insertVerbatim_rows s cg hd).2, cn_consSet_snoc]
  split
  · rfl
  · rw [cn_setSpaceDim_set cg s.dim (by unfold CRow.spaceDim at hd; omega)]

theorem cn_insertVerbatim_CWf (s : CSys) (cg : CRow) (hw : CWf s.dim s.rows) (hd : cg.spaceDim ≤ s.dim) (hm : 0 ≤ cg.m)
    (he : cg.e ≠ []) : CWf s.dim (s.insertVerbatim cg).rows := by
  rw [(cn_insertVerbatim_rows s cg hd).2]
  refine cn_CWf_append _ _ _ hw ?_
  intro r hr
  rw [List.mem_singleton] at hr
  subst hr
  split
  · rename_i h
    have : cg.e.length ≠ 0 := fun h0 => he (List.eq_nil_of_length_eq_zero h0)
    unfold CRow.spaceDim at h
    exact ⟨by omega, hm⟩
  · exact ⟨cn_setSpaceDim_length cg s.dim, hm⟩

/-! ### `insert(cg)` -/

theorem cn_insert_dim (s : CSys) (cg : CRow) (hd : cg.spaceDim ≤ s.dim) : (s.insert cg).dim = s.dim :=
  cn_insertVerbatim_dim s _ (by rw [cn_strongNormalize_spaceDim]; exact hd)

/-- `Congruence_System::insert(cg)`: the solutions are cut by the row -/
theorem cn_insert_consSet (s : CSys) (cg : CRow) (hd : cg.spaceDim ≤ s.dim) (hm : 0 ≤ cg.m) :
    consSet s.dim (s.insert cg).rows = consSet s.dim s.rows ∩ CRow.set cg := by
  unfold CSys.insert
  rw [cn_insertVerbatim_consSet s _ (by rw [cn_strongNormalize_spaceDim]; exact hd), cn_strongNormalize_set cg hm]

theorem cn_insert_CWf (s : CSys) (cg : CRow) (hw : CWf s.dim s.rows) (hd : cg.spaceDim ≤ s.dim) (hm : 0 ≤ cg.m)
    (he : cg.e ≠ []) : CWf s.dim (s.insert cg).rows :=
  cn_insertVerbatim_CWf s _ hw (by rw [cn_strongNormalize_spaceDim]; exact hd) (cn_strongNormalize_m_nonneg cg hm)
    (fun h => he (List.eq_nil_of_length_eq_zero (by rw [← cn_strongNormalize_length, h]; rfl)))

example : CWf 2 [{ e := [0, 1, 0], m := 2 }] ∧ (CRow.mk [3, 6] 9).spaceDim ≤ 2 ∧
    ((CSys.mk 2 [{ e := [0, 1, 0], m := 2 }]).insert { e := [3, 6], m := 9 }).rows =
      [{ e := [0, 1, 0], m := 2 }, { e := [1, 2, 0], m := 3 }] := by
  refine ⟨by unfold CWf; decide, by decide, by decide⟩

/-! ### `insert(system)` -/

theorem cn_insertSys_rows (s y : CSys) (hd : y.dim ≤ s.dim) :
    (s.insertSys y).dim = s.dim ∧ (s.insertSys y).rows = s.rows ++ y.rows.map (·.setSpaceDim s.dim) := by
  unfold CSys.insertSys
  simp only [if_neg (show ¬ s.dim < y.dim by omega)]
  trivial

theorem cn_insertSys_dim (s y : CSys) (hd : y.dim ≤ s.dim) : (s.insertSys y).dim = s.dim := (cn_insertSys_rows s y hd).1

/-- `Congruence_System::insert(y)` for `y` of a dimension not larger: the solutions are cut by every row of `y` -/
theorem cn_insertSys_consSet (s y : CSys) (hd : y.dim ≤ s.dim) :
    consSet s.dim (s.insertSys y).rows = consSet s.dim s.rows ∩ cn_rowsSet y.rows := by
  rw [(cn_insertSys_rows s y hd).2, cn_consSet_append, cn_consSet_map_setSpaceDim, cn_consSet_eq s.dim y.rows,
    ← Set.inter_assoc, Set.inter_eq_left.mpr (cn_consSet_subset_space s.dim s.rows)]

theorem cn_insertSys_CWf (s y : CSys) (hw : CWf s.dim s.rows) (hd : y.dim ≤ s.dim) (hy : ∀ r ∈ y.rows, 0 ≤ r.m) :
    CWf s.dim (s.insertSys y).rows := by
  rw [(cn_insertSys_rows s y hd).2]
  exact cn_CWf_append _ _ _ hw (cn_CWf_map_setSpaceDim _ _ hy)

example : CWf 2 [{ e := [0, 1, 0], m := 2 }] ∧
    ((CSys.mk 2 [{ e := [0, 1, 0], m := 2 }]).insertSys (CSys.mk 1 [{ e := [3, 6], m := 9 }])).rows =
      [{ e := [0, 1, 0], m := 2 }, { e := [3, 6, 0], m := 9 }] := by
  refine ⟨by unfold CWf; decide, by decide⟩

end PPLV.Lattice.GO
