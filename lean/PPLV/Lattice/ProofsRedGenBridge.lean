import PPLV.Lattice.ProofsRedGenBase

/-!
# The PPL reading `gensOf` of a normalised generator system is the grid `{ x | (D, D·x) ∈ Hom }`
-/
namespace PPLV.Lattice.Red
open PPLV.Lattice

/-- a system normalised with divisor `D`: points have divisor `D`, parameters have parameter divisor `D` -/
structure Normalised (n : Nat) (D : Int) (rows : List GRow) : Prop where
  Dpos : 0 < D
  pc : ∀ r ∈ rows, r.line = false → get r.e 0 = 0 ∨ get r.e 0 = D
  pt : ∃ r ∈ rows, r.line = false ∧ get r.e 0 = D
  par : ∀ r ∈ rows, r.line = false → get r.e 0 = 0 → get r.e (n + 1) = D
  ln : ∀ r ∈ rows, r.line = true → get r.e 0 = 0

/-- `(0, v)` -/
def cons0 (v : Pt) : Pt := fun i => match i with
  | 0 => 0
  | i + 1 => v i

theorem coords_apply (n : Nat) (r : GRow) (d : Rat) (i : Nat) :
    (GRow.coords n r d).toFun i = if i < n then ((get r.e (i + 1) : Int) : Rat) / d else 0 := by
  unfold GRow.coords ratRow Vec.toFun get
  rw [List.getD_eq_getElem?_getD, List.getD_eq_getElem?_getD, List.getElem?_map, List.getElem?_take]
  by_cases h : i < n
  · rw [if_pos h, if_pos h, List.getElem?_tail, List.getElem?_map]
    cases r.e[i + 1]? <;> simp
  · rw [if_neg h, if_neg h]; simp

theorem homog_split (D : Rat) (x y : Pt) : homog D x = homog D y + D • cons0 (x - y) := by
  funext i
  cases i with
  | zero => simp [homog, cons0]
  | succ i => simp [homog, cons0]; ring

theorem hv_point {n : Nat} {r : GRow} {D : Int} (hD : D ≠ 0) (h0 : get r.e 0 = D) :
    hv n r = homog (D : Rat) (r.coords n (D : Rat)).toFun := by
  have hD' : (D : Rat) ≠ 0 := by exact_mod_cast hD
  funext i
  cases i with
  | zero => rw [hv_apply]; simp [homog, h0]
  | succ i =>
    rw [hv_apply]
    simp only [homog, coords_apply]
    by_cases h : i < n
    · rw [if_pos (by omega), if_pos h]; field_simp
    · rw [if_neg (by omega), if_neg h]; simp

theorem hv_dir {n : Nat} {r : GRow} (d : Rat) (hd : d ≠ 0) (h0 : get r.e 0 = 0) :
    hv n r = d • cons0 (r.coords n d).toFun := by
  funext i
  cases i with
  | zero => rw [hv_apply]; simp [cons0, h0]
  | succ i =>
    rw [hv_apply]
    simp only [cons0, Pi.smul_apply, smul_eq_mul, coords_apply]
    by_cases h : i < n
    · rw [if_pos (by omega), if_pos h]; field_simp
    · rw [if_neg (by omega), if_neg h]; simp

theorem cons0_zero : cons0 0 = 0 := by
  funext i; cases i <;> rfl

theorem cons0_add (u v : Pt) : cons0 (u + v) = cons0 u + cons0 v := by
  funext i; cases i <;> simp [cons0]

theorem cons0_smul (c : Rat) (u : Pt) : cons0 (c • u) = c • cons0 u := by
  funext i; cases i <;> simp [cons0]

/-- from the PPL reading to the homogeneous lattice -/
theorem bridge_fwd {n : Nat} {D : Int} {rows : List GRow} (P L : List Pt)
    (hP : ∀ q ∈ P, Hom n rows ((D : Rat) • cons0 q))
    (hL : ∀ l ∈ L, ∀ c : Rat, Hom n rows (c • ((D : Rat) • cons0 l))) {v : Pt} (h : Abs.Dir P L v) :
    Hom n rows ((D : Rat) • cons0 v) := by
  induction h with
  | zero => rw [cons0_zero, smul_zero]; exact hom_zero _ _
  | @param w q k hq _ ih =>
    have e : (D : Rat) • cons0 (w + (k : Rat) • q) = (D : Rat) • cons0 w + (k : Rat) • ((D : Rat) • cons0 q) := by
      rw [cons0_add, cons0_smul]; module
    rw [e]; exact hom_add ih (hom_zsmul k (hP q hq))
  | @line w l c hl _ ih =>
    have e : (D : Rat) • cons0 (w + c • l) = (D : Rat) • cons0 w + c • ((D : Rat) • cons0 l) := by
      rw [cons0_add, cons0_smul]; module
    rw [e]; exact hom_add ih (hL l hl c)

/-- from the homogeneous lattice to the PPL reading: every element is `k·point + (0, D·u)`, `u` a direction -/
theorem bridge_bwd {n : Nat} {D : Int} {rows : List GRow} (P L : List Pt) (p : GRow)
    (hpc : ∀ r ∈ rows, r.line = false →
      (∃ u, Abs.Dir P L u ∧ hv n r = hv n p + (D : Rat) • cons0 u) ∨ (∃ u, Abs.Dir P L u ∧ hv n r = (D : Rat) • cons0 u))
    (hln : ∀ r ∈ rows, r.line = true → ∀ c : Rat, ∃ u, Abs.Dir P L u ∧ c • hv n r = (D : Rat) • cons0 u)
    {w : Pt} (h : Hom n rows w) :
    ∃ k : Int, ∃ u, Abs.Dir P L u ∧ w = (k : Rat) • hv n p + (D : Rat) • cons0 u := by
  unfold Hom GDir at h
  induction h with
  | zero => exact ⟨0, 0, Abs.Dir.zero, by rw [cons0_zero]; simp⟩
  | @param w q j hq _ ih =>
    obtain ⟨u0, hu0, rfl⟩ := List.mem_map.mp hq
    obtain ⟨r, hr, rfl⟩ := List.mem_map.mp hu0
    have hr' := List.mem_filter.mp hr
    obtain ⟨k, u, hu, hw⟩ := ih
    have hvr : (GRow.hvec n r).toFun = hv n r := rfl
    rw [hvr]
    rcases hpc r hr'.1 (by simpa using hr'.2) with ⟨u1, hu1, e1⟩ | ⟨u1, hu1, e1⟩
    · refine ⟨k + j, u + (j : Rat) • u1, Abs.Dir.add hu (Abs.Dir.zsmul j hu1), ?_⟩
      rw [hw, e1, cons0_add, cons0_smul]; push_cast; module
    · refine ⟨k, u + (j : Rat) • u1, Abs.Dir.add hu (Abs.Dir.zsmul j hu1), ?_⟩
      rw [hw, e1, cons0_add, cons0_smul]; module
  | @line w l c hl _ ih =>
    obtain ⟨u0, hu0, rfl⟩ := List.mem_map.mp hl
    obtain ⟨r, hr, rfl⟩ := List.mem_map.mp hu0
    have hr' := List.mem_filter.mp hr
    obtain ⟨k, u, hu, hw⟩ := ih
    have hvr : (GRow.hvec n r).toFun = hv n r := rfl
    rw [hvr]
    obtain ⟨u1, hu1, e1⟩ := hln r hr'.1 (by simpa using hr'.2) c
    refine ⟨k, u + u1, Abs.Dir.add hu hu1, ?_⟩
    rw [hw, e1, cons0_add]; module

/-- **the PPL reading of a normalised system is the grid `{ x | (D, D·x) ∈ Hom n rows }`** -/
theorem gensOf_sem {n : Nat} {D : Int} {rows : List GRow} (h : Normalised n D rows) :
    ∃ g : Gens, gensOf n rows = some (.gens g) ∧
      ∀ x, Gen.sem (.gens g) x ↔ Hom n rows (homog (D : Rat) x) := by
  have hD : D ≠ 0 := ne_of_gt h.Dpos
  have hD' : (D : Rat) ≠ 0 := by exact_mod_cast hD
  obtain ⟨r0, hr0, hr0l, hr0D⟩ := h.pt
  have hmem0 : r0 ∈ rows.filter (fun r => !r.line && get r.e 0 != 0) :=
    List.mem_filter.mpr ⟨hr0, by simp [hr0l, hr0D, hD]⟩
  obtain ⟨p, ps, hpts⟩ : ∃ p ps, rows.filter (fun r => !r.line && get r.e 0 != 0) = p :: ps := by
    cases hh : rows.filter (fun r => !r.line && get r.e 0 != 0) with
    | nil => rw [hh] at hmem0; cases hmem0
    | cons p ps => exact ⟨p, ps, rfl⟩
  have hany : (rows.filter (fun r => !r.line && get r.e 0 == 0)).any (fun r => get r.e (n + 1) == 0) = false := by
    rw [List.any_eq_false]
    intro r hr
    obtain ⟨hr1, hr2⟩ := List.mem_filter.mp hr
    simp only [Bool.and_eq_true, Bool.not_eq_true', beq_iff_eq] at hr2
    rw [h.par r hr1 hr2.1 hr2.2]
    simp [hD]
  have hptsmem : ∀ r, r ∈ p :: ps → r ∈ rows ∧ r.line = false ∧ get r.e 0 = D := by
    intro r hr
    rw [← hpts] at hr
    obtain ⟨hr1, hr2⟩ := List.mem_filter.mp hr
    simp only [Bool.and_eq_true, Bool.not_eq_true', bne_iff_ne, ne_eq] at hr2
    rcases h.pc r hr1 hr2.1 with h0 | h0
    · exact absurd h0 hr2.2
    · exact ⟨hr1, hr2.1, h0⟩
  obtain ⟨hp1, hp2, hp3⟩ := hptsmem p (List.mem_cons_self ..)
  refine ⟨{ pt := p.coords n (get p.e 0 : Rat),
            params := ps.map (fun r => vsub (r.coords n (get r.e 0 : Rat)) (p.coords n (get p.e 0 : Rat)))
              ++ (rows.filter (fun r => !r.line && get r.e 0 == 0)).map (fun r => r.coords n (get r.e (n + 1) : Rat)),
            lines := (rows.filter (fun r => r.line)).map (fun r => r.coords n 1) }, ?_, ?_⟩
  · simp only [gensOf, hany, hpts, Bool.false_eq_true, if_false]
  · intro x
    show Gens.Mem _ x ↔ _
    rw [mem_iff_gdir]
    unfold GDir
    simp only [hp3]
    -- names
    generalize hP : (ps.map (fun r => vsub (r.coords n (get r.e 0 : Rat)) (p.coords n (D : Rat)))
        ++ (rows.filter (fun r => !r.line && get r.e 0 == 0)).map (fun r => r.coords n (get r.e (n + 1) : Rat))).map
          Vec.toFun = P
    generalize hL : ((rows.filter (fun r => r.line)).map (fun r => r.coords n 1)).map Vec.toFun = L
    have hvp : hv n p = homog (D : Rat) (p.coords n (D : Rat)).toFun := hv_point hD hp3
    -- generators of the PPL reading
    have memA : ∀ r, r ∈ ps → (r.coords n (D : Rat)).toFun - (p.coords n (D : Rat)).toFun ∈ P := by
      intro r hr
      rw [← hP]
      refine List.mem_map.mpr ⟨vsub (r.coords n (D : Rat)) (p.coords n (D : Rat)), ?_, toFun_vsub _ _⟩
      refine List.mem_append_left _ (List.mem_map.mpr ⟨r, hr, ?_⟩)
      rw [(hptsmem r (List.mem_cons_of_mem _ hr)).2.2]
    have memB : ∀ r, r ∈ rows → r.line = false → get r.e 0 = 0 → (r.coords n (D : Rat)).toFun ∈ P := by
      intro r hr hl h0
      rw [← hP]
      refine List.mem_map.mpr ⟨r.coords n (D : Rat), ?_, rfl⟩
      refine List.mem_append_right _ (List.mem_map.mpr ⟨r, List.mem_filter.mpr ⟨hr, by simp [hl, h0]⟩, ?_⟩)
      rw [h.par r hr hl h0]
    have memL : ∀ r, r ∈ rows → r.line = true → (r.coords n 1).toFun ∈ L := by
      intro r hr hl
      rw [← hL]
      exact List.mem_map.mpr ⟨r.coords n 1, List.mem_map.mpr ⟨r, List.mem_filter.mpr ⟨hr, hl⟩, rfl⟩, rfl⟩
    -- every parameter/point row
    have hrowP : ∀ r, r ∈ p :: ps → hv n r = hv n p + (D : Rat) •
        cons0 ((r.coords n (D : Rat)).toFun - (p.coords n (D : Rat)).toFun) := by
      intro r hr
      rw [hv_point hD (hptsmem r hr).2.2, hvp]
      exact homog_split _ _ _
    constructor
    · intro hdir
      rw [homog_split (D : Rat) x (p.coords n (D : Rat)).toFun, ← hvp]
      refine hom_add (hom_of_mem_pc hp1 hp2) (bridge_fwd P L ?_ ?_ hdir)
      · intro q hq
        rw [← hP] at hq
        obtain ⟨w, hw, rfl⟩ := List.mem_map.mp hq
        rcases List.mem_append.mp hw with hw | hw
        · obtain ⟨r, hr, rfl⟩ := List.mem_map.mp hw
          have hrm := hptsmem r (List.mem_cons_of_mem _ hr)
          rw [toFun_vsub, hrm.2.2]
          have e := hrowP r (List.mem_cons_of_mem _ hr)
          have e2 : (D : Rat) • cons0 ((r.coords n (D : Rat)).toFun - (p.coords n (D : Rat)).toFun)
              = hv n r - hv n p := by rw [e]; simp
          rw [e2]
          exact hom_sub (hom_of_mem_pc hrm.1 hrm.2.1) (hom_of_mem_pc hp1 hp2)
        · obtain ⟨r, hr, rfl⟩ := List.mem_map.mp hw
          obtain ⟨hr1, hr2⟩ := List.mem_filter.mp hr
          simp only [Bool.and_eq_true, Bool.not_eq_true', beq_iff_eq] at hr2
          rw [h.par r hr1 hr2.1 hr2.2, ← hv_dir (D : Rat) hD' hr2.2]
          exact hom_of_mem_pc hr1 hr2.1
      · intro l hl c
        rw [← hL] at hl
        obtain ⟨w, hw, rfl⟩ := List.mem_map.mp hl
        obtain ⟨r, hr, rfl⟩ := List.mem_map.mp hw
        obtain ⟨hr1, hr2⟩ := List.mem_filter.mp hr
        have e := hv_dir (n := n) (r := r) 1 one_ne_zero (h.ln r hr1 hr2)
        rw [one_smul] at e
        rw [← e, smul_smul]
        exact hom_of_mem_line hr1 hr2 _
    · intro hhom
      have hpcH : ∀ r ∈ rows, r.line = false →
          (∃ u, Abs.Dir P L u ∧ hv n r = hv n p + (D : Rat) • cons0 u) ∨
          (∃ u, Abs.Dir P L u ∧ hv n r = (D : Rat) • cons0 u) := by
        intro r hr hl
        rcases h.pc r hr hl with h0 | h0
        · right
          exact ⟨_, Abs.Dir.of_param (memB r hr hl h0), hv_dir (D : Rat) hD' h0⟩
        · left
          have hrm : r ∈ p :: ps := by
            rw [← hpts]; exact List.mem_filter.mpr ⟨hr, by simp [hl, h0, hD]⟩
          refine ⟨_, ?_, hrowP r hrm⟩
          rcases List.mem_cons.mp hrm with rfl | hr'
          · rw [sub_self]; exact Abs.Dir.zero
          · exact Abs.Dir.of_param (memA r hr')
      have hlnH : ∀ r ∈ rows, r.line = true → ∀ c : Rat, ∃ u, Abs.Dir P L u ∧ c • hv n r = (D : Rat) • cons0 u := by
        intro r hr hl c
        refine ⟨(c / (D : Rat)) • (r.coords n 1).toFun, Abs.Dir.of_line _ (memL r hr hl), ?_⟩
        have e := hv_dir (n := n) (r := r) 1 one_ne_zero (h.ln r hr hl)
        rw [one_smul] at e
        rw [e, cons0_smul, smul_smul]
        congr 1
        field_simp
      obtain ⟨k, u, hu, hw⟩ := bridge_bwd (D := D) P L p hpcH hlnH hhom
      -- `k = 1` and `u = x - point`
      rw [hvp] at hw
      have h0 := congrFun hw 0
      simp only [homog, cons0, Pi.add_apply, Pi.smul_apply, smul_eq_mul, mul_zero, add_zero] at h0
      have hk : (k : Rat) = 1 := by
        have : (D : Rat) * ((k : Rat) - 1) = 0 := by linarith
        rcases mul_eq_zero.mp this with h1 | h1
        · exact absurd h1 hD'
        · linarith
      have hxu : x - (p.coords n (D : Rat)).toFun = u := by
        funext i
        have hi := congrFun hw (i + 1)
        simp only [homog, cons0, Pi.add_apply, Pi.smul_apply, smul_eq_mul, hk, one_mul] at hi
        have : (D : Rat) * (x i - (p.coords n (D : Rat)).toFun i - u i) = 0 := by linarith
        rcases mul_eq_zero.mp this with h1 | h1
        · exact absurd h1 hD'
        · simp only [Pi.sub_apply]; linarith
      rw [hxu]; exact hu

end PPLV.Lattice.Red
