import PPLV.Lattice.ProofsGridOpsGen12
import PPLV.Lattice.ProofsConvGCCert

/-!
# Generator side of the `Grid` object, part 13 — `Congruence_System::satisfies_all_congruences(g)` on the rows of a
# normalised generator system decides the inclusion of the generated grid in the solutions of the congruences
-/
namespace PPLV.Lattice.GO
open PPLV.Lattice PPLV.Lattice.Red

/-- the scalar product of `satisfies_all_congruences` is `dotUpto` -/
theorem gn_spg_eq (c g : Row) : ∀ m : Nat,
    ((List.range m).map fun i => get g i * get c i).foldl (· + ·) 0 = dotUpto c g m
  | 0 => rfl
  | k + 1 => by
    rw [List.range_succ, List.map_append, List.foldl_append, gn_spg_eq c g k]
    simp only [List.map_cons, List.map_nil, List.foldl_cons, List.foldl_nil, dotUpto]
    ring

/-- `satisfies_all_congruences(g)` is the certificate condition of every congruence row against `g` -/
theorem gn_satisfiesAll_iff {n : Nat} {D : Int} (s : CSys) (g : GRow) (hlen : g.e.length = n + 2)
    (hdiv : g.line = false → g.divisor = D) :
    s.satisfiesAll g = true ↔ ∀ c ∈ s.rows, CertPair n D c g := by
  have hsp : ∀ cg : CRow, ((List.range (g.spaceDim + 1)).map fun i => get g.e i * get cg.e i).foldl (· + ·) 0
      = dotRow cg.e g.e n := by
    intro cg; rw [gn_spg_eq, gn_spaceDim_of_len hlen]; rfl
  unfold CSys.satisfiesAll CertPair
  simp only [hsp]
  cases hl : g.line with
  | true => simp
  | false =>
    simp only [Bool.false_eq_true, if_false, List.all_eq_true, hdiv hl]
    constructor
    · intro h c hc
      have := h c hc
      by_cases hm : c.isEquality = true
      · have hm' : c.m = 0 := by simpa [CRow.isEquality] using hm
        rw [if_pos hm] at this
        rw [hm', mul_zero]
        exact ⟨0, by simpa using this⟩
      · rw [if_neg hm] at this
        rw [mul_comm]
        exact Int.dvd_of_tmod_eq_zero (by simpa using this)
    · intro h c hc
      have := h c hc
      by_cases hm : c.isEquality = true
      · have hm' : c.m = 0 := by simpa [CRow.isEquality] using hm
        rw [if_pos hm]
        rw [hm', mul_zero] at this
        simpa using zero_dvd_iff.mp this
      · rw [if_neg hm]
        rw [mul_comm] at this
        simpa using Int.tmod_eq_zero_of_dvd this

/-- the divisor of a parameter or point of a normalised system -/
theorem gn_divisor_of_gnorm {n : Nat} {D : Int} {rows : List GRow} (hN : GNorm n D rows) (hw : GWf n rows) {g : GRow}
    (hg : g ∈ rows) (hl : g.line = false) : g.divisor = D := by
  rcases hN.col0 g hg hl with h0 | h0
  · rw [divisor_param n g (hw g hg) h0, hN.par g hg hl h0]
  · have : get g.e 0 ≠ 0 := by rw [h0]; exact ne_of_gt hN.pos
    rw [divisor_point g this, h0]

/-- soundness: all rows pass → the generated grid lies in the solutions -/
theorem gn_check_sound {n : Nat} {D : Int} {rows : List GRow} (hN : GNorm n D rows) (hw : GWf n rows) {cs : List CRow}
    (hc : CWf n cs) (h : ∀ g ∈ rows, ∀ c ∈ cs, CertPair n D c g) : gn_set rows ⊆ consSet n cs := by
  intro x hx
  exact cert_sound_prop n rows cs D (ne_of_gt hN.pos) (fun c hc' => (hc c hc').1) (fun c hc' g hg => h g hg c hc') x
    (gn_hom_of_mem hN hw hx)

theorem gn_alpha_homog_of_sem (c : CRow) {n : Nat} (hc : c.e.length = n + 1) (D : ℚ) {x : Pt} (hx : c.toCg.sem x) :
    ∃ t : Int, alphaOf (ratRow c.e) (homog D x) = D * ((t : ℚ) * (c.m : ℚ)) := by
  obtain ⟨t, ht⟩ := hx
  refine ⟨t, ?_⟩
  rw [alphaOf_homog c.e (by omega)]
  simp only [CRow.toCg] at ht
  rw [ht]

/-- completeness: the generated grid lies in the solutions of `c` → every row passes -/
theorem gn_check_complete {n : Nat} {D : Int} {rows : List GRow} (hN : GNorm n D rows) (hw : GWf n rows) (c : CRow)
    (hc : c.e.length = n + 1) (hsub : ∀ x, gn_Mem rows x → c.toCg.sem x) : ∀ g ∈ rows, CertPair n D c g := by
  have hDne : D ≠ 0 := ne_of_gt hN.pos
  have hDq : (D : ℚ) ≠ 0 := by exact_mod_cast hDne
  obtain ⟨a0, ha0⟩ := gn_mem_nonempty (gn_wf_of_gnorm hN hw).pt
  obtain ⟨t0, ht0⟩ := gn_alpha_homog_of_sem c hc (D : ℚ) (hsub a0 ha0)
  -- a direction `v` with `a0 + v` in the grid
  have hdir : ∀ v : Pt, gn_Mem rows (a0 + v) →
      ∃ t : Int, alphaOf (ratRow c.e) ((D : ℚ) • shift v) = (D : ℚ) * ((t : ℚ) * (c.m : ℚ)) := by
    intro v hv
    obtain ⟨t1, ht1⟩ := gn_alpha_homog_of_sem c hc (D : ℚ) (hsub _ hv)
    refine ⟨t1 - t0, ?_⟩
    have e : (D : ℚ) • shift v = homog (D : ℚ) (a0 + v) - homog (D : ℚ) a0 := by
      rw [homog_sub]; congr 2; module
    rw [e, map_sub, ht1, ht0]; push_cast; ring
  intro g hg
  have hlen := hw g hg
  unfold CertPair
  cases hl : g.line with
  | false =>
    rw [if_neg (by simp)]
    by_cases h0 : get g.e 0 = 0
    · -- a parameter
      have hp : gn_isPar g = true := (gn_isPar_iff g).mpr ⟨hl, h0⟩
      have hm : gn_Mem rows (a0 + gn_vecOf g) := by
        have := gn_mem_par_step hg hp ha0 1; simpa using this
      obtain ⟨t, ht⟩ := hdir _ hm
      rw [gn_vecOf_par hlen hp, hN.par g hg hl h0, ← hvec_dir n g (D : ℚ) hDq h0, alphaOf_hvec n c.e hc] at ht
      exact ⟨t, by exact_mod_cast (by rw [ht]; push_cast; ring : ((dotRow c.e g.e n : Int) : ℚ) = ((D * c.m * t : Int) : ℚ))⟩
    · -- a point
      have hp : gn_isPt g = true := (gn_isPt_iff g).mpr ⟨hl, h0⟩
      have e0 : get g.e 0 = D := by
        rcases hN.col0 g hg hl with q | q
        · exact absurd q h0
        · exact q
      obtain ⟨t, ht⟩ := gn_alpha_homog_of_sem c hc (D : ℚ) (hsub _ (gn_mem_pt hg hp))
      rw [gn_vecOf_pt hlen hp, e0, ← hvec_point n g D hDne e0, alphaOf_hvec n c.e hc] at ht
      exact ⟨t, by exact_mod_cast (by rw [ht]; push_cast; ring : ((dotRow c.e g.e n : Int) : ℚ) = ((D * c.m * t : Int) : ℚ))⟩
  | true =>
    rw [if_pos rfl]
    have z1 := hN.lin g hg hl
    have e := hvec_dir n g 1 one_ne_zero z1
    rw [one_smul, ← gn_vecOf_line hlen hl] at e
    have hβ : alphaOf (ratRow c.e) (shift (gn_vecOf g)) = ((dotRow c.e g.e n : Int) : ℚ) := by
      rw [← e, alphaOf_hvec n c.e hc]
    by_contra hne
    have hβne : ((dotRow c.e g.e n : Int) : ℚ) ≠ 0 := by exact_mod_cast hne
    have hstep : ∀ c' : ℚ, ∃ t : Int, (D : ℚ) * c' * ((dotRow c.e g.e n : Int) : ℚ) = (D : ℚ) * ((t : ℚ) * (c.m : ℚ)) := by
      intro c'
      obtain ⟨t, ht⟩ := hdir (c' • gn_vecOf g) (gn_mem_line_step hg hl ha0 c')
      refine ⟨t, ?_⟩
      rw [gn_shift_smul, smul_smul, map_smul, hβ, smul_eq_mul] at ht
      exact ht
    by_cases hm : c.m = 0
    · obtain ⟨t, ht⟩ := hstep 1
      rw [hm] at ht
      simp only [Int.cast_zero, mul_zero, mul_one] at ht
      rcases mul_eq_zero.mp ht with q | q
      · exact hDq q
      · exact hβne q
    · have hmq : (c.m : ℚ) ≠ 0 := by exact_mod_cast hm
      obtain ⟨t, ht⟩ := hstep ((c.m : ℚ) / (2 * ((dotRow c.e g.e n : Int) : ℚ)))
      have h2 : (2 : ℚ) * (t : ℚ) = 1 := by
        have : (D : ℚ) * ((c.m : ℚ) / (2 * ((dotRow c.e g.e n : Int) : ℚ))) * ((dotRow c.e g.e n : Int) : ℚ)
            = (D : ℚ) * (c.m : ℚ) / 2 := by field_simp
        rw [this] at ht
        have h3 : (D : ℚ) * (c.m : ℚ) * (1 - 2 * (t : ℚ)) = 0 := by linear_combination 2 * ht
        rcases mul_eq_zero.mp h3 with q | q
        · rcases mul_eq_zero.mp q with q | q
          · exact absurd q hDq
          · exact absurd q hmq
        · linarith
      have h4 : (2 : Int) * t = 1 := by exact_mod_cast h2
      omega

/-- **the inclusion test**: the rows of a normalised generator system all satisfy the congruences exactly when the
    generated grid is included in the solutions -/
theorem gn_check_iff {n : Nat} {D : Int} {rows : List GRow} (hN : GNorm n D rows) (hw : GWf n rows) (s : CSys)
    (hc : CWf n s.rows) :
    (rows.all fun g => s.satisfiesAll g) = true ↔ gn_set rows ⊆ consSet n s.rows := by
  rw [List.all_eq_true]
  constructor
  · intro h
    refine gn_check_sound hN hw hc ?_
    intro g hg
    exact (gn_satisfiesAll_iff s g (hw g hg) (gn_divisor_of_gnorm hN hw hg)).mp (h g hg)
  · intro h g hg
    refine (gn_satisfiesAll_iff s g (hw g hg) (gn_divisor_of_gnorm hN hw hg)).mpr ?_
    intro c hc'
    refine gn_check_complete hN hw c (hc c hc').1 ?_ g hg
    intro x hx
    have := (h hx).2 c.toCg (List.mem_map_of_mem hc')
    exact this

/-- the hypotheses are satisfiable: the grid `{1/2 + 3k/2}` and the congruence `2x - 1 ≡ 0 (mod 3)`; the test says yes -/
example : GNorm 1 2 [⟨false, [2, 1, 0]⟩, ⟨false, [0, 3, 2]⟩] ∧ GWf 1 [⟨false, [2, 1, 0]⟩, ⟨false, [0, 3, 2]⟩] ∧
    CWf 1 [⟨[-1, 2], 3⟩] ∧
    ([⟨false, [2, 1, 0]⟩, ⟨false, [0, 3, 2]⟩].all fun g => (CSys.mk 1 [⟨[-1, 2], 3⟩]).satisfiesAll g) = true := by
  refine ⟨⟨by decide, ⟨_, List.mem_cons_self, rfl, rfl⟩, by decide, by decide, by decide⟩, ?_, ?_, by decide⟩
  · intro r hr
    simp only [List.mem_cons, List.not_mem_nil, or_false] at hr
    rcases hr with rfl | rfl <;> rfl
  · intro r hr
    rw [List.mem_singleton.mp hr]; exact ⟨rfl, by decide⟩

end PPLV.Lattice.GO
