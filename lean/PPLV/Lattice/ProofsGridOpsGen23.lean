import PPLV.Lattice.ProofsGridOpsGen22

/-!
# Generator side of the `Grid` object, part 23 — `relation_with(const Congruence&)`: the loop invariant; the body of the loop
# on a line and on a parameter
-/
namespace PPLV.Lattice.GO
open PPLV.Lattice PPLV.Lattice.Red

/-- the invariant of the loop of Grid_public.cc:390 after the rows `pre`: `div` divides `M`, is reachable, divides the
    products of the parameters seen; the lines seen have product 0; and one of three situations: no point seen yet /
    every row seen satisfies the congruence / the first point `p0` fails, `pointSp ≡ spf p0 (mod div)`, `div ∤ pointSp`,
    all points seen are congruent to `p0` modulo `div` -/
structure gn_RInv (C : gn_RelCtx) (st : RelSt) (pre : List GRow) : Prop where
  dvdM : st.div ∣ C.M
  reach : C.R st.div
  lines : ∀ r ∈ pre, r.line = true → C.spf r = 0
  pars : ∀ r ∈ pre, gn_isPar r = true → st.div ∣ C.spf r
  kind :
    (st.pointSp = 0 ∧ st.knownToIntersect = false ∧ (∀ r ∈ pre, gn_isPt r = false) ∧
       (st.parameterFails = false → st.div = C.M) ∧
       (st.parameterFails = true → ∃ q ∈ pre, gn_isPar q = true ∧ ¬ C.M ∣ C.spf q)) ∨
    (st.pointSp = 0 ∧ st.knownToIntersect = true ∧ st.parameterFails = false ∧ st.div = C.M ∧
       (∃ p ∈ pre, gn_isPt p = true) ∧ ∀ r ∈ pre, gn_isPt r = true → C.M ∣ C.spf r) ∨
    (st.pointSp ≠ 0 ∧ st.knownToIntersect = false ∧ ∃ p0 ∈ pre, gn_isPt p0 = true ∧
       st.div ∣ C.spf p0 - st.pointSp ∧ ¬ st.div ∣ st.pointSp ∧
       ∀ r ∈ pre, gn_isPt r = true → st.div ∣ C.spf r - C.spf p0)

/-- what one pass through the body must establish -/
def gn_StepOK (C : gn_RelCtx) (pre : List GRow) (r : GRow) : RelSt ⊕ Rel → Prop
  | .inl st' => gn_RInv C st' (pre ++ [r])
  | .inr rel => rel = Rel.si ∧ C.In ∧ C.Out

theorem gn_forall_snoc {α : Type} {P : α → Prop} {pre : List α} {r : α} (h : ∀ x ∈ pre, P x) (hr : P r) :
    ∀ x ∈ pre ++ [r], P x := by
  intro x hx
  rcases List.mem_append.mp hx with hx | hx
  · exact h x hx
  · rw [List.mem_singleton.mp hx]; exact hr

theorem gn_exists_snoc {α : Type} {P : α → Prop} {pre : List α} (r : α) (h : ∃ x ∈ pre, P x) :
    ∃ x ∈ pre ++ [r], P x := by
  obtain ⟨x, hx, p⟩ := h; exact ⟨x, List.mem_append_left _ hx, p⟩

/-- a row that is not a point and keeps the state -/
theorem gn_rinv_snoc_same {C : gn_RelCtx} {st : RelSt} {pre : List GRow} {r : GRow} (hI : gn_RInv C st pre)
    (hnp : gn_isPt r = false) (hl : r.line = true → C.spf r = 0) (hp : gn_isPar r = true → st.div ∣ C.spf r) :
    gn_RInv C st (pre ++ [r]) := by
  refine ⟨hI.dvdM, hI.reach, gn_forall_snoc hI.lines hl, gn_forall_snoc hI.pars hp, ?_⟩
  rcases hI.kind with ⟨a, b, c, d, e⟩ | ⟨a, b, c, d, e, f⟩ | ⟨a, b, p0, hp0, c, d, e, f⟩
  · exact Or.inl ⟨a, b, gn_forall_snoc c hnp, d, fun h => gn_exists_snoc r (e h)⟩
  · exact Or.inr (Or.inl ⟨a, b, c, d, gn_exists_snoc r e, gn_forall_snoc f (fun h => by rw [hnp] at h; cases h)⟩)
  · exact Or.inr (Or.inr ⟨a, b, p0, List.mem_append_left _ hp0, c, d, e,
      gn_forall_snoc f (fun h => by rw [hnp] at h; cases h)⟩)

/-! ### the body on a line -/

theorem gn_relCgStep_line (cg : CRow) (st : RelSt) (r : GRow) (hl : r.line = true) :
    relCgStep cg st r = if sp cg.e r.e = 0 then .inl st else .inr Rel.si := by
  unfold relCgStep
  simp only [hl, if_true]

theorem gn_step_line (C : gn_RelCtx) (hne : C.S.Nonempty) (cg : CRow) (st : RelSt) (pre : List GRow) (r : GRow)
    (hr : r ∈ C.rows) (hsp : sp cg.e r.e = C.spf r) (hl : r.line = true) (hI : gn_RInv C st pre) :
    gn_StepOK C pre r (relCgStep cg st r) := by
  rw [gn_relCgStep_line cg st r hl, hsp]
  by_cases h0 : C.spf r = 0
  · rw [if_pos h0]
    exact gn_rinv_snoc_same hI (by simp [gn_isPt, hl]) (fun _ => h0) (fun h => by simp [gn_isPar, hl] at h)
  · rw [if_neg h0]
    exact ⟨rfl, C.in_out_of_line hne hr hl h0⟩

/-! ### the body on a parameter -/

theorem gn_relCgStep_par (cg : CRow) (st : RelSt) (r : GRow) (hl : r.line = false) (hp : r.isPoint = false) :
    relCgStep cg st r =
      if gn_red cg.isProperCongruence (sp cg.e r.e) st.div = 0 then .inl st
      else if st.knownToIntersect = true then .inr Rel.si
      else if st.pointSp ≠ 0 ∧
          Int.tmod st.pointSp (gcdI st.div (gn_red cg.isProperCongruence (sp cg.e r.e) st.div)) = 0 then .inr Rel.si
      else .inl { st with parameterFails := true,
                          div := gcdI st.div (gn_red cg.isProperCongruence (sp cg.e r.e) st.div) } := by
  unfold relCgStep gn_red
  simp only [hl, hp, Bool.false_eq_true, if_false]

/-- the first failing point of the `K2` situation is outside the congruence -/
theorem gn_out_of_p0 (C : gn_RelCtx) {st : RelSt} (hd : st.div ∣ C.M) {p0 : GRow} (hp0 : p0 ∈ C.rows)
    (h1 : gn_isPt p0 = true) (c : st.div ∣ C.spf p0 - st.pointSp) (d : ¬ st.div ∣ st.pointSp) : C.Out := by
  refine C.out_of_pt hp0 h1 fun hM => d ?_
  have := dvd_sub (dvd_trans hd hM) c
  simpa using this

theorem gn_step_par (C : gn_RelCtx) (cg : CRow) (hpr : cg.isProperCongruence = false → C.M = 0) (st : RelSt)
    (pre : List GRow) (hpre : ∀ r' ∈ pre, r' ∈ C.rows) (r : GRow) (hr : r ∈ C.rows) (hsp : sp cg.e r.e = C.spf r)
    (hl : r.line = false) (hp : r.isPoint = false) (hI : gn_RInv C st pre) :
    gn_StepOK C pre r (relCgStep cg st r) := by
  have hpar : gn_isPar r = true := by
    have : get r.e 0 = 0 := by simpa [GRow.isPoint, hl] using hp
    exact (gn_isPar_iff r).mpr ⟨hl, this⟩
  have hnp : gn_isPt r = false := hp
  rw [gn_relCgStep_par cg st r hl hp, hsp]
  have hsub := gn_red_dvd_sub cg.isProperCongruence (C.spf r) st.div
  by_cases h1 : gn_red cg.isProperCongruence (C.spf r) st.div = 0
  · rw [if_pos h1]
    exact gn_rinv_snoc_same hI hnp (fun h => by rw [hl] at h; cases h) (fun _ => gn_red_zero h1)
  · rw [if_neg h1]
    have hnM : ¬ C.M ∣ C.spf r := gn_red_ne h1 hI.dvdM hpr
    generalize hs1 : gn_red cg.isProperCongruence (C.spf r) st.div = s1 at h1 hsub ⊢
    have hRs1 : C.R s1 := by
      have := C.R_sub (C.R_of_par hr hpar) (C.R_of_dvd hI.reach hsub)
      simpa using this
    have hRd : C.R (gcdI st.div s1) := C.R_gcd hI.reach hRs1
    have hd1 : (gcdI st.div s1) ∣ st.div := Int.gcd_dvd_left _ _
    have hd2 : (gcdI st.div s1) ∣ s1 := Int.gcd_dvd_right _ _
    have hd3 : (gcdI st.div s1) ∣ C.spf r := by
      have := dvd_add (dvd_trans hd1 hsub) hd2
      simpa using this
    by_cases hk : st.knownToIntersect = true
    · rw [if_pos hk]
      rcases hI.kind with ⟨_, b, _⟩ | ⟨_, _, _, _, ⟨p, hp', pp⟩, f⟩ | ⟨_, b, _⟩
      · rw [hk] at b; cases b
      · have hin := C.in_of_pt (hpre p hp') pp (f p hp' pp)
        exact ⟨rfl, hin, C.out_of_in_par hin hr hpar hnM⟩
      · rw [hk] at b; cases b
    · rw [if_neg hk]
      by_cases hc : st.pointSp ≠ 0 ∧ Int.tmod st.pointSp (gcdI st.div s1) = 0
      · rw [if_pos hc]
        rcases hI.kind with ⟨a, _⟩ | ⟨a, _⟩ | ⟨_, _, p0, hp0, pp, c, d, _⟩
        · exact absurd a hc.1
        · exact absurd a hc.1
        · have hdp : gcdI st.div s1 ∣ C.spf p0 := by
            have := dvd_add (dvd_trans hd1 c) (Int.dvd_of_tmod_eq_zero hc.2)
            simpa using this
          exact ⟨rfl, C.in_of_R hRd (hpre p0 hp0) pp hdp, gn_out_of_p0 C hI.dvdM (hpre p0 hp0) pp c d⟩
      · rw [if_neg hc]
        show gn_RInv C _ (pre ++ [r])
        refine ⟨dvd_trans hd1 hI.dvdM, hRd, gn_forall_snoc hI.lines (fun h => by rw [hl] at h; cases h),
          gn_forall_snoc (fun q hq pq => dvd_trans hd1 (hI.pars q hq pq)) (fun _ => hd3), ?_⟩
        rcases hI.kind with ⟨a, b, c, _, _⟩ | ⟨_, b, _⟩ | ⟨a, b, p0, hp0, pp, c, d, f⟩
        · exact Or.inl ⟨a, b, gn_forall_snoc c hnp, fun h => (by cases h),
            fun _ => ⟨r, List.mem_append_right _ (List.mem_singleton.mpr rfl), hpar, hnM⟩⟩
        · exact absurd b hk
        · refine Or.inr (Or.inr ⟨a, b, p0, List.mem_append_left _ hp0, pp, dvd_trans hd1 c, ?_, ?_⟩)
          · intro hdv
            exact hc ⟨a, Int.tmod_eq_zero_of_dvd hdv⟩
          · exact gn_forall_snoc (fun q hq pq => dvd_trans hd1 (f q hq pq)) (fun h => by rw [hnp] at h; cases h)

end PPLV.Lattice.GO
