import PPLV.Lattice.ProofsGridOpsLazy16
import PPLV.Lattice.ProofsGridOpsCon4

/-!
# The affine transformers — part 17: `bounded_affine_image/preimage` (Grid_public.cc:2594, :2640),
# `generalized_affine_preimage(var, relsym, expr, denominator, modulus)` (Grid_public.cc:2204)
-/
namespace PPLV.Lattice.GO
open PPLV.Lattice PPLV.Lattice.Red

/-! ### `bounded_affine_image`, `bounded_affine_preimage`: the line of `var` is added -/

theorem boundedAffineImage_thrown (g : Grid) (v : Nat) (lb ub : LinExpr) (den : Int) (hI : GridInv g) :
    ((boundedAffineImage g v lb ub den).thrown = true ↔
      (den = 0 ∨ g.spaceDim < v + 1 ∨ g.spaceDim < lb.spaceDim ∨ g.spaceDim < ub.spaceDim)) ∧
    ((boundedAffineImage g v lb ub den).thrown = true → (boundedAffineImage g v lb ub den).g = g) ∧
    (g.st.empty = true → (boundedAffineImage g v lb ub den).g = g) := by
  by_cases hd : den = 0
  · have : boundedAffineImage g v lb ub den = { g := g, thrown := true } := by unfold boundedAffineImage; rw [if_pos hd]
    rw [this]; exact ⟨⟨fun _ => Or.inl hd, fun _ => rfl⟩, fun _ => rfl, fun _ => rfl⟩
  by_cases hdim : g.spaceDim < v + 1 ∨ g.spaceDim < lb.spaceDim ∨ g.spaceDim < ub.spaceDim
  · have : boundedAffineImage g v lb ub den = { g := g, thrown := true } := by
      unfold boundedAffineImage; rw [if_neg hd, if_pos hdim]
    rw [this]; exact ⟨⟨fun _ => Or.inr hdim, fun _ => rfl⟩, fun _ => rfl, fun _ => rfl⟩
  have hno : ¬ (den = 0 ∨ g.spaceDim < v + 1 ∨ g.spaceDim < lb.spaceDim ∨ g.spaceDim < ub.spaceDim) :=
    fun h => h.elim hd hdim
  by_cases hemp : g.st.empty = true
  · have : boundedAffineImage g v lb ub den = { g := g } := by
      unfold boundedAffineImage; rw [if_neg hd, if_neg hdim, if_pos (show g.markedEmpty = true from hemp)]
    rw [this]; exact ⟨⟨(fun h => by cases h), fun h => absurd h hno⟩, fun _ => rfl, fun _ => rfl⟩
  have hne : g.st.empty = false := by simpa using hemp
  have hU : boundedAffineImage g v lb ub den = generalizedAffineImageVar g v 1 ub den 0 := by
    unfold boundedAffineImage
    rw [if_neg hd, if_neg hdim, if_neg (show ¬ (g.markedEmpty = true) from hemp)]
  have hnt : (boundedAffineImage g v lb ub den).thrown = false := by
    rw [hU]
    exact (generalizedAffineImageVar_relsym g v 1 ub den hI hne hd (by omega) (by omega) (by decide) (by decide)).1
  exact ⟨⟨(fun h => by rw [hnt] at h; cases h), fun h => absurd h hno⟩, (fun h => by rw [hnt] at h; cases h),
    fun h => absurd h hemp⟩

/-- **`bounded_affine_image(var, lb, ub, d)`** on a grid that is not marked empty: the line of `var` is added -/
theorem boundedAffineImage_spec (g : Grid) (v : Nat) (lb ub : LinExpr) (den : Int) (hI : GridInv g)
    (hne : g.st.empty = false) (hden : den ≠ 0) (hv : v + 1 ≤ g.spaceDim) (hlb : lb.spaceDim ≤ g.spaceDim)
    (hub : ub.spaceDim ≤ g.spaceDim) :
    (boundedAffineImage g v lb ub den).thrown = false ∧ GridInv (boundedAffineImage g v lb ub den).g ∧
    (boundedAffineImage g v lb ub den).g.spaceDim = g.spaceDim ∧
    (boundedAffineImage g v lb ub den).g.sem = {y | ∃ a ∈ g.sem, ∃ c : ℚ, y = a + c • (unit v).toFun} := by
  have hU : boundedAffineImage g v lb ub den = generalizedAffineImageVar g v 1 ub den 0 := by
    unfold boundedAffineImage
    rw [if_neg hden, if_neg (show ¬ (g.spaceDim < v + 1 ∨ g.spaceDim < lb.spaceDim ∨ g.spaceDim < ub.spaceDim) by omega),
      if_neg (show ¬ (g.markedEmpty = true) by simpa [Grid.markedEmpty] using hne)]
  rw [hU]
  exact generalizedAffineImageVar_relsym g v 1 ub den hI hne hden hub hv (by decide) (by decide)

theorem lz_gapv_relsym (g : Grid) (v : Nat) (relsym : Nat) (e : LinExpr) (den : Int) (hden : den ≠ 0)
    (hdim : ¬ (g.spaceDim < e.spaceDim ∨ g.spaceDim < v + 1)) (hr1 : relsym ≠ NOT_EQUAL) (hr2 : relsym ≠ EQUAL) :
    generalizedAffinePreimageVar g v relsym e den 0 = relsymLine g v := by
  unfold generalizedAffinePreimageVar
  rw [if_neg hden, if_neg hdim, if_neg hr1, if_pos hr2, if_neg (show ¬ ((0 : Int) ≠ 0) by simp)]

/-- **`bounded_affine_preimage(var, lb, ub, d)`** on a grid that is not marked empty: the line of `var` is added -/
theorem boundedAffinePreimage_spec (g : Grid) (v : Nat) (lb ub : LinExpr) (den : Int) (hI : GridInv g)
    (hne : g.st.empty = false) (hden : den ≠ 0) (hv : v + 1 ≤ g.spaceDim) (hlb : lb.spaceDim ≤ g.spaceDim)
    (hub : ub.spaceDim ≤ g.spaceDim) :
    (boundedAffinePreimage g v lb ub den).thrown = false ∧ GridInv (boundedAffinePreimage g v lb ub den).g ∧
    (boundedAffinePreimage g v lb ub den).g.spaceDim = g.spaceDim ∧
    (boundedAffinePreimage g v lb ub den).g.sem = {y | ∃ a ∈ g.sem, ∃ c : ℚ, y = a + c • (unit v).toFun} := by
  have hU : boundedAffinePreimage g v lb ub den = relsymLine g v := by
    unfold boundedAffinePreimage
    rw [if_neg hden, if_neg (show ¬ (g.spaceDim < v + 1 ∨ g.spaceDim < lb.spaceDim ∨ g.spaceDim < ub.spaceDim) by omega),
      if_neg (show ¬ (g.markedEmpty = true) by simpa [Grid.markedEmpty] using hne)]
    exact lz_gapv_relsym g v 1 ub den hden (by omega) (by decide) (by decide)
  rw [hU]
  exact relsymLine_spec g v hI hv

theorem boundedAffinePreimage_thrown (g : Grid) (v : Nat) (lb ub : LinExpr) (den : Int) (hI : GridInv g) :
    ((boundedAffinePreimage g v lb ub den).thrown = true ↔
      (den = 0 ∨ g.spaceDim < v + 1 ∨ g.spaceDim < lb.spaceDim ∨ g.spaceDim < ub.spaceDim)) ∧
    ((boundedAffinePreimage g v lb ub den).thrown = true → (boundedAffinePreimage g v lb ub den).g = g) ∧
    (g.st.empty = true → (boundedAffinePreimage g v lb ub den).g = g) := by
  by_cases hd : den = 0
  · have : boundedAffinePreimage g v lb ub den = { g := g, thrown := true } := by
      unfold boundedAffinePreimage; rw [if_pos hd]
    rw [this]; exact ⟨⟨fun _ => Or.inl hd, fun _ => rfl⟩, fun _ => rfl, fun _ => rfl⟩
  by_cases hdim : g.spaceDim < v + 1 ∨ g.spaceDim < lb.spaceDim ∨ g.spaceDim < ub.spaceDim
  · have : boundedAffinePreimage g v lb ub den = { g := g, thrown := true } := by
      unfold boundedAffinePreimage; rw [if_neg hd, if_pos hdim]
    rw [this]; exact ⟨⟨fun _ => Or.inr hdim, fun _ => rfl⟩, fun _ => rfl, fun _ => rfl⟩
  have hno : ¬ (den = 0 ∨ g.spaceDim < v + 1 ∨ g.spaceDim < lb.spaceDim ∨ g.spaceDim < ub.spaceDim) :=
    fun h => h.elim hd hdim
  by_cases hemp : g.st.empty = true
  · have : boundedAffinePreimage g v lb ub den = { g := g } := by
      unfold boundedAffinePreimage; rw [if_neg hd, if_neg hdim, if_pos (show g.markedEmpty = true from hemp)]
    rw [this]; exact ⟨⟨(fun h => by cases h), fun h => absurd h hno⟩, fun _ => rfl, fun _ => rfl⟩
  have hne : g.st.empty = false := by simpa using hemp
  have hnt := (boundedAffinePreimage_spec g v lb ub den hI hne hd (by omega) (by omega) (by omega)).1
  exact ⟨⟨(fun h => by rw [hnt] at h; cases h), fun h => absurd h hno⟩, (fun h => by rw [hnt] at h; cases h),
    fun h => absurd h hemp⟩

/-! ### `generalized_affine_preimage`, one variable -/

/-- relation symbols other than `=`, `≠` with `modulus = 0`, every invariant receiver: the line of `var` is added -/
theorem generalizedAffinePreimageVar_relsym (g : Grid) (v : Nat) (relsym : Nat) (e : LinExpr) (den : Int) (hI : GridInv g)
    (hden : den ≠ 0) (hed : e.spaceDim ≤ g.spaceDim) (hv : v + 1 ≤ g.spaceDim)
    (hr1 : relsym ≠ NOT_EQUAL) (hr2 : relsym ≠ EQUAL) :
    (generalizedAffinePreimageVar g v relsym e den 0).thrown = false ∧
    GridInv (generalizedAffinePreimageVar g v relsym e den 0).g ∧
    (generalizedAffinePreimageVar g v relsym e den 0).g.spaceDim = g.spaceDim ∧
    (generalizedAffinePreimageVar g v relsym e den 0).g.sem = {y | ∃ a ∈ g.sem, ∃ c : ℚ, y = a + c • (unit v).toFun} := by
  rw [lz_gapv_relsym g v relsym e den hden (by omega) hr1 hr2]
  exact relsymLine_spec g v hI hv

theorem lz_gapv_equal_eq (g : Grid) (v : Nat) (e : LinExpr) (den modulus : Int) (hden : den ≠ 0)
    (hdim : ¬ (g.spaceDim < e.spaceDim ∨ g.spaceDim < v + 1)) (hne : g.st.empty = false) :
    generalizedAffinePreimageVar g v EQUAL e den modulus =
      if modulus = 0 then affinePreimage g v e den
      else if v + 1 ≤ e.spaceDim ∧ e.coeff v ≠ 0 then
        generalizedAffineImageVar g v EQUAL (setCoeff e v (e.coeff v - (den + e.coeff v))) (-e.coeff v) (absI modulus)
      else if (isEmpty (addCongruenceNoCheck g (preimageCg v e den modulus))).2 = true then
        { g := (isEmpty (addCongruenceNoCheck g (preimageCg v e den modulus))).1 }
      else addGridGenerator (isEmpty (addCongruenceNoCheck g (preimageCg v e den modulus))).1 (gridLineVar v) := by
  unfold generalizedAffinePreimageVar
  rw [if_neg hden, if_neg hdim, if_neg (show ¬ (EQUAL = NOT_EQUAL) by decide), if_neg (show ¬ (EQUAL ≠ EQUAL) by simp),
    if_neg (show ¬ (g.markedEmpty = true) by simpa [Grid.markedEmpty] using hne)]

/-- `relsym = EQUAL`, `modulus = 0`: the affine preimage -/
theorem generalizedAffinePreimageVar_equal_mod0 (g : Grid) (v : Nat) (e : LinExpr) (den : Int) (hI : GridInv g)
    (hne : g.st.empty = false) (hden : den ≠ 0) (hed : e.spaceDim ≤ g.spaceDim) (hv : v + 1 ≤ g.spaceDim) :
    (generalizedAffinePreimageVar g v EQUAL e den 0).thrown = false ∧
    GridInv (generalizedAffinePreimageVar g v EQUAL e den 0).g ∧
    (generalizedAffinePreimageVar g v EQUAL e den 0).g.sem = cn_preSet g.spaceDim v e den g.sem ∧
    (generalizedAffinePreimageVar g v EQUAL e den 0).g.spaceDim = g.spaceDim := by
  rw [lz_gapv_equal_eq g v e den 0 hden (by omega) hne, if_pos rfl]
  exact affinePreimage_full g v e den hI hne hden hed hv

theorem lz_absI_absI (z : Int) : absI (absI z) = absI z := by
  unfold absI; split_ifs <;> omega

/-- `relsym = EQUAL`, `modulus ≠ 0`, `expr` mentions `var` (Grid_public.cc:2262): WHAT THE CODE COMPUTES — the
    generalized affine IMAGE under `var' = (expr − (den + e_v)·var) / (−e_v)` with modulus `|modulus|`.  (This is the path
    of the open finding KF-C05-10: the set below is not the documented preimage relation in general.) -/
theorem generalizedAffinePreimageVar_equal_inv (g : Grid) (v : Nat) (e : LinExpr) (den modulus : Int) (hI : GridInv g)
    (hne : g.st.empty = false) (hden : den ≠ 0) (hed : e.spaceDim ≤ g.spaceDim) (hv : v + 1 ≤ g.spaceDim)
    (hm : modulus ≠ 0) (hinv : v + 1 ≤ e.spaceDim ∧ e.coeff v ≠ 0) :
    (generalizedAffinePreimageVar g v EQUAL e den modulus).thrown = false ∧
    GridInv (generalizedAffinePreimageVar g v EQUAL e den modulus).g ∧
    (generalizedAffinePreimageVar g v EQUAL e den modulus).g.spaceDim = g.spaceDim ∧
    (generalizedAffinePreimageVar g v EQUAL e den modulus).g.sem =
      {y | ∃ a ∈ lzF v (setCoeff e v (e.coeff v - (den + e.coeff v))) (-e.coeff v) '' g.sem, ∃ k : Int,
        y = a + (k : ℚ) • (fun i => if i = v then ((absI modulus : Int) : ℚ) else 0)} := by
  rw [lz_gapv_equal_eq g v e den modulus hden (by omega) hne, if_neg hm, if_pos hinv]
  have hsd : (setCoeff e v (e.coeff v - (den + e.coeff v))).spaceDim = e.spaceDim := by
    simp [setCoeff, LinExpr.spaceDim]
  have hm' : absI modulus ≠ 0 := ne_of_gt (lz_absI_pos modulus hm)
  obtain ⟨a, b, c, _, d⟩ := generalizedAffineImageVar_equal g v (setCoeff e v (e.coeff v - (den + e.coeff v)))
    (-e.coeff v) (absI modulus) hI hne (by have := hinv.2; omega) (by rw [hsd]; exact hed) hv
  refine ⟨a, b, c, ?_⟩
  rw [d hm', lz_absI_absI]

theorem lz_preimageCg_facts (v : Nat) (e : LinExpr) (den modulus : Int) (n : Nat) (hed : e.spaceDim ≤ n) (hv : v + 1 ≤ n) :
    (preimageCg v e den modulus).spaceDim ≤ n ∧ 0 ≤ (preimageCg v e den modulus).m ∧ (preimageCg v e den modulus).e ≠ [] := by
  have hlen : (preimageCg v e den modulus).e.length = max (v + 2) e.length := by simp [preimageCg]
  refine ⟨?_, ?_, ?_⟩
  · unfold CRow.spaceDim; rw [hlen]; unfold LinExpr.spaceDim at hed; omega
  · show 0 ≤ absI den * absI modulus
    apply Int.mul_nonneg <;> (unfold absI; split <;> omega)
  · intro h; rw [h] at hlen; simp at hlen; omega

/-- `relsym = EQUAL`, `modulus ≠ 0`, `expr` does not mention `var` (Grid_public.cc:2280): the congruence
    `den·var ≡ expr (mod |den|·|modulus|)` is added, then the line of `var` -/
theorem generalizedAffinePreimageVar_equal_noninv (g : Grid) (v : Nat) (e : LinExpr) (den modulus : Int) (hI : GridInv g)
    (hne : g.st.empty = false) (hden : den ≠ 0) (hed : e.spaceDim ≤ g.spaceDim) (hv : v + 1 ≤ g.spaceDim)
    (hm : modulus ≠ 0) (hninv : ¬ (v + 1 ≤ e.spaceDim ∧ e.coeff v ≠ 0)) :
    (generalizedAffinePreimageVar g v EQUAL e den modulus).thrown = false ∧
    GridInv (generalizedAffinePreimageVar g v EQUAL e den modulus).g ∧
    (generalizedAffinePreimageVar g v EQUAL e den modulus).g.spaceDim = g.spaceDim ∧
    (generalizedAffinePreimageVar g v EQUAL e den modulus).g.sem =
      {y | ∃ a ∈ g.sem ∩ CRow.set (preimageCg v e den modulus), ∃ c : ℚ, y = a + c • (unit v).toFun} := by
  rw [lz_gapv_equal_eq g v e den modulus hden (by omega) hne, if_neg hm, if_neg hninv]
  have hpos : 0 < g.spaceDim := by omega
  obtain ⟨p1, p2, p3⟩ := lz_preimageCg_facts v e den modulus g.spaceDim hed hv
  obtain ⟨c1, c2, c3⟩ := cn_addCongruenceNoCheck updateCongruences_spec g (preimageCg v e den modulus) hI hne p1 p2 p3
  obtain ⟨i1, i2, i3, i4, i5, i6⟩ := isEmpty_spec (addCongruenceNoCheck g (preimageCg v e den modulus)) c1
  by_cases hb : (isEmpty (addCongruenceNoCheck g (preimageCg v e den modulus))).2 = true
  · rw [if_pos hb]
    have hemp := i4.mp hb
    refine ⟨rfl, i1, i3.trans c3, ?_⟩
    rw [i2, hemp, ← c2, hemp]
    ext y; simp
  · rw [if_neg hb]
    have hne' : (addCongruenceNoCheck g (preimageCg v e den modulus)).sem ≠ ∅ := fun h => hb (i4.mpr h)
    have hsd : (gridLineVar v).spaceDim ≤ (isEmpty (addCongruenceNoCheck g (preimageCg v e den modulus))).1.spaceDim := by
      rw [gn_spaceDim_of_len (gn_gridLineVar_len v), i3, c3]; exact hv
    obtain ⟨a, b, c, _, d⟩ := gn_addGridGenerator ensureGenerators_spec _ i1 (gridLineVar v) (lz_gridLineVar_ok v) hsd
      (by rw [i3, c3]; exact hpos)
    have hnt : (addGridGenerator (isEmpty (addCongruenceNoCheck g (preimageCg v e den modulus))).1 (gridLineVar v)).thrown
        = false := by
      cases ht : (addGridGenerator (isEmpty (addCongruenceNoCheck g (preimageCg v e den modulus))).1 (gridLineVar v)).thrown
      · rfl
      · have := (c.mp ht).1
        rw [i2] at this; exact absurd this hne'
    refine ⟨hnt, a, b.trans (i3.trans c3), ?_⟩
    rw [(d hnt).1 rfl, i2, c2, gn_gridLineVar_vecOf]

/-- the exits of `generalized_affine_preimage` -/
theorem generalizedAffinePreimageVar_thrown (g : Grid) (hI : GridInv g) (v : Nat) (relsym : Nat) (e : LinExpr)
    (den modulus : Int) :
    ((generalizedAffinePreimageVar g v relsym e den modulus).thrown = true ↔
      (den = 0 ∨ g.spaceDim < e.spaceDim ∨ g.spaceDim < v + 1 ∨ relsym = NOT_EQUAL ∨ (relsym ≠ EQUAL ∧ modulus ≠ 0))) ∧
    ((generalizedAffinePreimageVar g v relsym e den modulus).thrown = true →
      (generalizedAffinePreimageVar g v relsym e den modulus).g = g) ∧
    (g.st.empty = true → relsym = EQUAL → (generalizedAffinePreimageVar g v relsym e den modulus).g = g) := by
  by_cases hd : den = 0
  · have : generalizedAffinePreimageVar g v relsym e den modulus = { g := g, thrown := true } := by
      unfold generalizedAffinePreimageVar; rw [if_pos hd]
    rw [this]; exact ⟨⟨fun _ => Or.inl hd, fun _ => rfl⟩, fun _ => rfl, fun _ _ => rfl⟩
  by_cases hdim : g.spaceDim < e.spaceDim ∨ g.spaceDim < v + 1
  · have : generalizedAffinePreimageVar g v relsym e den modulus = { g := g, thrown := true } := by
      unfold generalizedAffinePreimageVar; rw [if_neg hd, if_pos hdim]
    rw [this]
    exact ⟨⟨fun _ => by rcases hdim with h | h <;> simp [h], fun _ => rfl⟩, fun _ => rfl, fun _ _ => rfl⟩
  by_cases hr1 : relsym = NOT_EQUAL
  · have : generalizedAffinePreimageVar g v relsym e den modulus = { g := g, thrown := true } := by
      unfold generalizedAffinePreimageVar; rw [if_neg hd, if_neg hdim, if_pos hr1]
    rw [this]; exact ⟨⟨fun _ => by simp [hr1], fun _ => rfl⟩, fun _ => rfl, fun _ _ => rfl⟩
  by_cases hr3 : relsym ≠ EQUAL ∧ modulus ≠ 0
  · have : generalizedAffinePreimageVar g v relsym e den modulus = { g := g, thrown := true } := by
      unfold generalizedAffinePreimageVar; rw [if_neg hd, if_neg hdim, if_neg hr1, if_pos hr3.1, if_pos hr3.2]
    rw [this]; exact ⟨⟨fun _ => by simp [hr3], fun _ => rfl⟩, fun _ => rfl, fun _ _ => rfl⟩
  have hno : ¬ (den = 0 ∨ g.spaceDim < e.spaceDim ∨ g.spaceDim < v + 1 ∨ relsym = NOT_EQUAL ∨
      (relsym ≠ EQUAL ∧ modulus ≠ 0)) := by
    rintro (h | h | h | h | h)
    · exact hd h
    · exact hdim (Or.inl h)
    · exact hdim (Or.inr h)
    · exact hr1 h
    · exact hr3 h
  by_cases hr2 : relsym = EQUAL
  · subst hr2
    by_cases hemp : g.st.empty = true
    · have : generalizedAffinePreimageVar g v EQUAL e den modulus = { g := g } := by
        unfold generalizedAffinePreimageVar
        rw [if_neg hd, if_neg hdim, if_neg hr1, if_neg (show ¬ (EQUAL ≠ EQUAL) by simp),
          if_pos (show g.markedEmpty = true from hemp)]
      rw [this]; exact ⟨⟨(fun h => by cases h), fun h => absurd h hno⟩, fun _ => rfl, fun _ _ => rfl⟩
    have hne : g.st.empty = false := by simpa using hemp
    have hnt : (generalizedAffinePreimageVar g v EQUAL e den modulus).thrown = false := by
      by_cases hm : modulus = 0
      · subst hm
        exact (generalizedAffinePreimageVar_equal_mod0 g v e den hI hne hd (by omega) (by omega)).1
      · by_cases hinv : v + 1 ≤ e.spaceDim ∧ e.coeff v ≠ 0
        · exact (generalizedAffinePreimageVar_equal_inv g v e den modulus hI hne hd (by omega) (by omega) hm hinv).1
        · exact (generalizedAffinePreimageVar_equal_noninv g v e den modulus hI hne hd (by omega) (by omega) hm hinv).1
    exact ⟨⟨(fun h => by rw [hnt] at h; cases h), fun h => absurd h hno⟩, (fun h => by rw [hnt] at h; cases h),
      fun h => absurd h hemp⟩
  · have hm : modulus = 0 := by
      by_contra hm; exact hr3 ⟨hr2, hm⟩
    subst hm
    have hnt := (generalizedAffinePreimageVar_relsym g v relsym e den hI hd (by omega) (by omega) hr1 hr2).1
    exact ⟨⟨(fun h => by rw [hnt] at h; cases h), fun h => absurd h hno⟩, (fun h => by rw [hnt] at h; cases h),
      fun _ h => absurd h hr2⟩

/-- KF-C05-10 on its witness: the grid `{0}` in dimension 1 and `A' ≡ 2A (mod 1)`.  The code answers point `0`,
    parameter `1`, i.e. `ℤ`; the documented preimage relation gives `(1/2)ℤ` -/
example :
    let g : Grid := Grid.mk 1 { gUp := true } 1 [] 1 [⟨false, [1, 0, 0]⟩] []
    invB g = true ∧ (generalizedAffinePreimageVar g 0 EQUAL [0, 2] 1 1).g.gen = [⟨false, [2, 0, 0]⟩, ⟨false, [0, 2, 2]⟩] := by
  decide +kernel

end PPLV.Lattice.GO
