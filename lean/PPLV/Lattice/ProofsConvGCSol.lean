import PPLV.Lattice.ProofsConvGCMain
import PPLV.Lattice.ProofsRedCgEval

/-!
# `Grid::conversion` (generators → congruences): the steps that keep the solution set

* `multiplyGridCg_sol`: `multiply_grid` (scaling by a positive factor) keeps the solution set of the system;
* `gcReduce_sol` / `gcReduce_sem`: the final `reduce_reduced` loop keeps the solution set (on final rows: the
  pivot is an equality or pivot and row are proper congruences of the common modulus).

(`rsem`, `Sol`, `evalRow` are those of `ProofsRedCgEval.lean`.)
-/
namespace PPLV.Lattice.Red
open PPLV.Lattice

theorem Sol_congr_rowwise (T T' : List CRow) (x : Pt) (hl : T'.length = T.length)
    (h : ∀ i, i < T.length → (rsem (rowAt T' i) x ↔ rsem (rowAt T i) x)) : Sol T' x ↔ Sol T x := by
  unfold Sol
  rw [hl]
  constructor
  · intro hs i hi; exact (h i hi).mp (hs i hi)
  · intro hs i hi; exact (h i hi).mpr (hs i hi)

theorem Scaled.rsem {c c' : CRow} {f : Int} (h : Scaled c c' f) (hf : f ≠ 0) (x : Pt) : rsem c' x ↔ rsem c x :=
  rsem_scaled c c' f x hf (evalRow_smul _ _ f x h.elen (fun i => by rw [h.get i]; ring)) h.m

/-- `multiply_grid` keeps the solution set -/
theorem multiplyGridCg_sol (mult : Int) (hm : 0 < mult) (T : List CRow) (r N : Nat) (hN : T.length ≤ N) (x : Pt) :
    Sol (multiplyGridCg mult T r N) x ↔ Sol T x := by
  obtain ⟨hl, g, _, hrows⟩ := multiplyGridCg_spec mult hm T r N hN
  refine Sol_congr_rowwise T _ x hl (fun i hi => ?_)
  obtain ⟨gi, hgi, _, _, hsc⟩ := hrows i hi
  exact hsc.rsem (by omega) x

theorem multiplyGridCg_sem (n : Nat) (mult : Int) (hm : 0 < mult) (T : List CRow) (r N : Nat) (hN : T.length ≤ N)
    (x : Pt) : cgsSem n (multiplyGridCg mult T r N) x ↔ cgsSem n T x := by
  rw [cgsSem_iff, cgsSem_iff, multiplyGridCg_sol mult hm T r N hN x]

section
variable (source : List GRow) (dk : List Nat) (dims : Nat)

/-- one row reduced by the pivot: the pivot row is kept, the solution set is kept -/
theorem rowReduce_sol (M L : Int) (P : Row) (dim : Nat) (hd : dim < dims) (hdl : nlB dk dim = true)
    (T : List CRow) (hT : FinalOK source dk dims M L T) (hP : (rowAt T (pos dk dims dim)).e = P)
    (q : Nat) (hq : q < dims) (hql : nlB dk q = true) (hdq : dim < q)
    (hpm : (rowAt T (pos dk dims dim)).m = 0 ∨ (rowAt T (pos dk dims dim)).m = (rowAt T (pos dk dims q)).m)
    (num : Int) (x : Pt) :
    rowAt (if num ≠ 0 then
        T.set (pos dk dims q) (HasExpr.setExpr (rowAt T (pos dk dims q))
          (linearCombine (HasExpr.expr (rowAt T (pos dk dims q))) P 1 (-num) 0 (dim + 1)))
       else T) (pos dk dims dim) = rowAt T (pos dk dims dim) ∧
    (Sol (if num ≠ 0 then
        T.set (pos dk dims q) (HasExpr.setExpr (rowAt T (pos dk dims q))
          (linearCombine (HasExpr.expr (rowAt T (pos dk dims q))) P 1 (-num) 0 (dim + 1)))
       else T) x ↔ Sol T x) := by
  by_cases hn : num ≠ 0
  · rw [if_pos hn, expr_crow, setExpr_crow]
    have hne : pos dk dims dim ≠ pos dk dims q := fun h => by
      have := pos_inj dk dims dim q hd hq hdl hql h; omega
    have Rq := hT.rows q hq hql
    have Rd := hT.rows dim hd hdl
    refine ⟨by rw [rowAt_set, if_neg (fun h => hne h.1)], ?_⟩
    refine Sol_set_iff T _ (pos dk dims dim) _ x (by rw [hT.len]; exact pos_lt dk dims dim hd hdl) hne (fun hp => ?_)
    refine rsem_add_mul (rowAt T (pos dk dims q)) (rowAt T (pos dk dims dim)) _ (-num) x ?_ rfl hpm hp
    have hPtri : ∀ k, dim < k → get P k = 0 := fun k hk => by rw [← hP]; exact Rd.tri k hk
    have := evalRow_lin (linearCombine (rowAt T (pos dk dims q)).e P 1 (-num) 0 (dim + 1)) (rowAt T (pos dk dims q)).e P
      1 (-num) x (by simp) (by rw [← hP, Rd.len, Rq.len]) (fun k => by
        rw [get_linearCombine]
        by_cases hc : k < (rowAt T (pos dk dims q)).e.length ∧ 0 ≤ k ∧ k < dim + 1
        · rw [if_pos hc]
        · rw [if_neg hc]
          by_cases hk : k < dim + 1
          · have h1 : (rowAt T (pos dk dims q)).e.length ≤ k := by omega
            rw [Rq.len] at h1
            omega
          · rw [hPtri k (by omega)]; ring)
    simp only []
    rw [this, hP]; push_cast; ring
  · rw [if_neg hn]; exact ⟨rfl, Iff.rfl⟩

/-- `num_rows_to_subtract` -/
def gcRRNum (rowDim pd half : Int) : Int :=
  let q := Int.tdiv rowDim pd
  let rem := Int.tmod rowDim pd
  if rem < 0 then (if rem ≤ -half then q - 1 else q)
  else if rem > 0 ∧ rem > half then q + 1 else q

/-- the treatment of row `ri` (of dimension `ki'`) in the loop of `reduce_reduced` -/
def gcRRStep (dk : List Nat) (P : Row) (pd half : Int) (dim : Nat) (rie : Bool) (rk : Nat) (T : List CRow)
    (ri ki' : Nat) : List CRow :=
  if (rie || (rk == PARAMETER && kind dk ki' == PARAMETER)) = true then
    (if gcRRNum (get (HasExpr.expr (rowAt T ri)) dim) pd half ≠ 0 then
      T.set ri (HasExpr.setExpr (rowAt T ri) (linearCombine (HasExpr.expr (rowAt T ri)) P 1
        (-(gcRRNum (get (HasExpr.expr (rowAt T ri)) dim) pd half)) 0 (dim + 1)))
     else T)
  else T

theorem gcRRLoop_succ (dk : List Nat) (P : Row) (pd half : Int) (dim : Nat) (rie : Bool) (rk : Nat) (T : List CRow)
    (ri ki : Nat) :
    reduceReducedLoop false dk P pd half dim 0 dim rie rk (ri + 1) ki T =
      reduceReducedLoop false dk P pd half dim 0 dim rie rk ri (skipUp dk ki)
        (gcRRStep dk P pd half dim rie rk T ri (skipUp dk ki)) := rfl

/-- the loop of `reduce_reduced` keeps the pivot row and the solution set -/
theorem reduceReducedLoop_sol (hdk : dk.length = dims) (M L : Int) (P : Row) (pd half : Int) (dim : Nat) (rie : Bool)
    (rk : Nat) (hd : dim < dims) (hdl : nlB dk dim = true)
    (hrie : rie = true → nvB dk dim = false) (hrk : (rk == PARAMETER) = true → nvB dk dim = true) (x : Pt) (pivot : CRow)
    (hpe : pivot.e = P) :
    ∀ (ri ki : Nat) (T : List CRow), ki < dims → nlB dk ki = true → dim ≤ ki → ri = pos dk dims ki →
      FinalOK source dk dims M L T → rowAt T (pos dk dims dim) = pivot →
      rowAt (reduceReducedLoop false dk P pd half dim 0 dim rie rk ri ki T) (pos dk dims dim) = pivot ∧
      (Sol (reduceReducedLoop false dk P pd half dim 0 dim rie rk ri ki T) x ↔ Sol T x)
  | 0, ki, T, _, _, _, _, _, hpv => by
    rw [reduceReducedLoop]; exact ⟨hpv, Iff.rfl⟩
  | ri + 1, ki, T, hki, hl, hdim, hri, hT, hpv => by
    rw [gcRRLoop_succ]
    obtain ⟨s1, s2, s3, s4⟩ := skipUp_spec dk dims hdk ki ri hki hl hri
    have Rd := hT.rows dim hd hdl
    have hPe : (rowAt T (pos dk dims dim)).e = P := by rw [hpv, hpe]
    have hPtri : ∀ k, dim < k → get P k = 0 := fun k hk => by rw [← hPe]; exact Rd.tri k hk
    have hPprod : ∀ p, p < dims → nvB dk p = true →
        (kind dk p = LINE → dotUpto P (rowAt source (nv dk p)).e dims = 0) ∧ L ∣ dotUpto P (rowAt source (nv dk p)).e dims :=
      fun p hp hpv' => by rw [← hPe]; exact ⟨(Rd.prod p hp hpv').1, (Rd.prod p hp hpv').2.2⟩
    have hP0 : rie = true → ∀ p, p < dims → nvB dk p = true → dotUpto P (rowAt source (nv dk p)).e dims = 0 :=
      fun h p hp hpv' => by rw [← hPe]; exact (Rd.prod p hp hpv').2.1 (hrie h)
    -- the state after this row
    have step : FinalOK source dk dims M L (gcRRStep dk P pd half dim rie rk T ri (skipUp dk ki)) ∧
        rowAt (gcRRStep dk P pd half dim rie rk T ri (skipUp dk ki)) (pos dk dims dim) = pivot ∧
        (Sol (gcRRStep dk P pd half dim rie rk T ri (skipUp dk ki)) x ↔ Sol T x) := by
      unfold gcRRStep
      subst s4
      by_cases hcond : (rie || (rk == PARAMETER && kind dk (skipUp dk ki) == PARAMETER)) = true
      · rw [if_pos hcond]
        have hzero : nvB dk (skipUp dk ki) = false → ∀ p, p < dims → nvB dk p = true →
            dotUpto P (rowAt source (nv dk p)).e dims = 0 := by
          intro hv
          rcases (Bool.or_eq_true _ _).mp hcond with h | h
          · exact hP0 h
          · exfalso
            simp only [Bool.and_eq_true, beq_iff_eq] at h
            simp [nvB, h.2, PARAMETER, GEN_VIRTUAL] at hv
        have hpm : (rowAt T (pos dk dims dim)).m = 0 ∨
            (rowAt T (pos dk dims dim)).m = (rowAt T (pos dk dims (skipUp dk ki))).m := by
          rcases (Bool.or_eq_true _ _).mp hcond with h | h
          · exact Or.inl (Rd.mv (hrie h))
          · simp only [Bool.and_eq_true] at h
            right
            rw [Rd.mp (hrk h.1), (hT.rows _ s2 s3).mp (by
              have h2 := h.2
              simp only [beq_iff_eq] at h2
              simp [nvB, h2, PARAMETER, GEN_VIRTUAL])]
        refine ⟨rowReduce_final source dk dims M L P dim hPtri hPprod T hT (skipUp dk ki) s2 s3 (by omega) hzero _, ?_⟩
        have := rowReduce_sol source dk dims M L P dim hd hdl T hT hPe (skipUp dk ki) s2 s3 (by omega) hpm
          (gcRRNum (get (HasExpr.expr (rowAt T (pos dk dims (skipUp dk ki)))) dim) pd half) x
        exact ⟨this.1.trans hpv, this.2⟩
      · rw [if_neg hcond]; exact ⟨hT, hpv, Iff.rfl⟩
    obtain ⟨st1, st2, st3⟩ := step
    obtain ⟨r1, r2⟩ := reduceReducedLoop_sol hdk M L P pd half dim rie rk hd hdl hrie hrk x pivot hpe ri (skipUp dk ki) _ s2 s3
      (by omega) s4 st1 st2
    exact ⟨r1, r2.trans st3⟩

end

/-- `reduce_reduced` (congruences) on final rows keeps the solution set -/
theorem gcReduceReduced_sol (source : List GRow) (dk : List Nat) (dims : Nat) (hdk : dk.length = dims) (M L : Int)
    (T : List CRow) (hT : FinalOK source dk dims M L T) (d : Nat) (hd : d < dims) (hl : nlB dk d = true) (x : Pt) :
    Sol (reduceReduced T d (pos dk dims d) 0 d dk false) x ↔ Sol T x := by
  unfold reduceReduced
  simp only [expr_crow]
  split
  · exact Iff.rfl
  · refine (reduceReducedLoop_sol source dk dims hdk M L _ _ _ d _ _ hd hl ?_ ?_ x (rowAt T (pos dk dims d)) rfl
      (pos dk dims d) d T hd hl (Nat.le_refl _) rfl hT rfl).2
    · intro hrie
      simp only [Bool.false_eq_true, if_false, beq_iff_eq] at hrie
      simp [nvB, hrie, EQUALITY, GEN_VIRTUAL]
    · intro hrk
      simp only [beq_iff_eq] at hrk
      simp [nvB, hrk, PARAMETER, GEN_VIRTUAL]

/-- the final loop keeps the solution set -/
theorem gcReduce_sol (source : List GRow) (dk : List Nat) (dims : Nat) (hdk : dk.length = dims) (M L : Int)
    (T : List CRow) (hT : FinalOK source dk dims M L T) (x : Pt) : Sol (gcReduce dk dims T) x ↔ Sol T x := by
  rw [gcReduce_eq]
  have key := foldl_dimsDown_inv (gcReduceStep dk)
    (fun d st => st.1 = nl dk dims - nl dk d ∧ FinalOK source dk dims M L st.2 ∧ (Sol st.2 x ↔ Sol T x)) dims (0, T)
    ⟨by simp, hT, Iff.rfl⟩ ?_
  · exact key.2.2
  · rintro d st hd ⟨h1, h2, h3⟩
    have hm := cntBelow_mono (nlB dk) (show d + 1 ≤ dims from hd)
    unfold gcReduceStep
    by_cases hl : kind dk d = CON_VIRTUAL
    · have hlb : nlB dk d = false := by simp [nlB, hl, CON_VIRTUAL, LINE]
      have e1 := cntBelow_succ_neg (nlB dk) d hlb
      simp only [hl, ne_eq, not_true_eq_false, if_false]
      exact ⟨by simp only [nl] at *; omega, h2, h3⟩
    · have hlb : nlB dk d = true := by simpa [nlB, CON_VIRTUAL, LINE] using hl
      have e1 := cntBelow_succ_pos (nlB dk) d hlb
      simp only [hl, ne_eq, not_false_eq_true, if_true]
      have : st.1 = pos dk dims d := by rw [h1]; rfl
      rw [this]
      exact ⟨by simp only [nl] at *; omega, reduceReduced_final source dk dims hdk M L st.2 h2 d hd hlb,
        (gcReduceReduced_sol source dk dims hdk M L st.2 h2 d hd hlb x).trans h3⟩

theorem gcReduce_sem (n : Nat) (source : List GRow) (dk : List Nat) (hdk : dk.length = n + 1) (M L : Int)
    (T : List CRow) (hT : FinalOK source dk (n + 1) M L T) (x : Pt) :
    cgsSem n (gcReduce dk (n + 1) T) x ↔ cgsSem n T x := by
  rw [cgsSem_iff, cgsSem_iff, gcReduce_sol source dk (n + 1) hdk M L T hT x]

end PPLV.Lattice.Red
