import PPLV.Lattice.ProofsGridOpsLazy19

/-!
# Adding dimensions — part 20: `add_space_dimensions_and_embed` (Grid_chdims.cc:71) with up-to-date generators
-/
namespace PPLV.Lattice.GO
open PPLV.Lattice PPLV.Lattice.Red

theorem lz_gs_embedRows (g : Grid) (m : Nat) (hgd : g.genDim = g.spaceDim) :
    g.gs.addUniverseRowsAndColumns m = ⟨g.spaceDim + m, lz_embedRows g.spaceDim m g.gen⟩ := by
  have hgs : g.gs = ⟨g.spaceDim, g.gen⟩ := by show GSys.mk g.genDim g.gen = _; rw [hgd]
  rw [hgs, lz_addUniverse_eq]; rfl

/-- **embed, both descriptions up to date**: no hypothesis left -/
theorem embed_both_full (g : Grid) (m : Nat) (hI : GridInv g) (hm : 0 < m) (he : g.st.empty = false)
    (hpos : 0 < g.spaceDim) (hc : g.st.cUp = true) (hg : g.st.gUp = true) :
    GridInv (addSpaceDimensionsAndEmbed g m) ∧
      (addSpaceDimensionsAndEmbed g m).sem = cn_embedSet g.spaceDim m g.sem ∧
      (addSpaceDimensionsAndEmbed g m).spaceDim = g.spaceDim + m := by
  obtain ⟨hgd, hgw, hgn⟩ := hI.gwf he hpos hg
  obtain ⟨_, hcw⟩ := hI.cwf he hpos hc
  have hrows := lz_gs_embedRows g m hgd
  obtain ⟨_, a, b, c⟩ := lz_embed_gen m hgw hgn
  rw [lz_addUniverse_eq] at a b c
  refine cn_embed_both_partial g m hI hm he hpos hc hg ?_ (fun hcm => ?_) (fun hgm => ?_)
  · rw [hrows]
    exact ⟨a, lz_gnorm_firstPointDiv b, c⟩
  · obtain ⟨hlen, htri, _⟩ := hI.cmin he hpos hcm
    have := cn_lowerTriangular_pad g.spaceDim m g.con g.dk hcw hlen htri
    rwa [show g.spaceDim + m + 1 = g.spaceDim + 1 + m by omega] at this
  · obtain ⟨hlen, htri, _⟩ := hI.gmin he hpos hgm
    have := lz_upperTriangular_embed g.spaceDim m g.gen g.dk hgw hlen hm htri
    rw [hrows]
    rwa [show g.spaceDim + m + 1 = g.spaceDim + 1 + m by omega] at this

/-- the result of embed when only the generators are up to date -/
def lz_embedGen (g : Grid) (m : Nat) : Grid :=
  { ({ g.withGs (g.gs.addUniverseRowsAndColumns m) with
        dk := if g.generatorsAreMinimized then resizeKindsWith g.dk ((g.gs.addUniverseRowsAndColumns m).dim + 1) LINE else g.dk } : Grid)
    with spaceDim := g.spaceDim + m }

theorem lz_embed_eq_gen (g : Grid) (m : Nat) (hm : 0 < m) (he : g.st.empty = false) (hpos : 0 < g.spaceDim)
    (hc : g.st.cUp = false) : addSpaceDimensionsAndEmbed g m = lz_embedGen g m := by
  unfold addSpaceDimensionsAndEmbed
  rw [if_neg (by omega), if_neg (show ¬ (g.markedEmpty = true) by simpa [Grid.markedEmpty] using he),
    if_neg (by omega)]
  dsimp only
  rw [if_neg (show ¬ (g.congruencesAreUpToDate = true) by simpa [Grid.congruencesAreUpToDate] using hc)]
  rfl

/-- **embed, generators only** (minimized or not) -/
theorem embed_gen_full (g : Grid) (m : Nat) (hI : GridInv g) (hm : 0 < m) (he : g.st.empty = false)
    (hpos : 0 < g.spaceDim) (hc : g.st.cUp = false) :
    GridInv (addSpaceDimensionsAndEmbed g m) ∧
      (addSpaceDimensionsAndEmbed g m).sem = cn_embedSet g.spaceDim m g.sem ∧
      (addSpaceDimensionsAndEmbed g m).spaceDim = g.spaceDim + m := by
  have hg := lz_gUp_of_not_cUp hI he hpos hc
  rw [lz_embed_eq_gen g m hm he hpos hc]
  obtain ⟨hgd, hgw, hgn⟩ := hI.gwf he hpos hg
  have hrows := lz_gs_embedRows g m hgd
  obtain ⟨_, a, b, c⟩ := lz_embed_gen m hgw hgn
  rw [lz_addUniverse_eq] at a b c
  have hcm : g.st.cMin = false := by
    cases h : g.st.cMin
    · rfl
    · have := hI.cminUp h; rw [hc] at this; cases this
  have hgen : (lz_embedGen g m).gen = lz_embedRows g.spaceDim m g.gen := by
    show (g.gs.addUniverseRowsAndColumns m).rows = _; rw [hrows]
  have hgdim : (lz_embedGen g m).genDim = g.spaceDim + m := by
    show (g.gs.addUniverseRowsAndColumns m).dim = _; rw [hrows]
  have hdk : g.st.gMin = true → (lz_embedGen g m).dk = resizeKindsWith g.dk (g.spaceDim + m + 1) LINE := by
    intro hgm
    show (if g.generatorsAreMinimized = true then _ else _) = _
    rw [if_pos (show g.generatorsAreMinimized = true from hgm), hrows]
  have hpos' : 0 < (lz_embedGen g m).spaceDim := by show 0 < g.spaceDim + m; omega
  have hI' : GridInv (lz_embedGen g m) := by
    refine lz_inv_of_pos _ he hpos' (hI.hi0 he) (Or.inr hg) (fun h => by rw [show (lz_embedGen g m).st.cMin = g.st.cMin from rfl, hcm] at h; cases h)
      (fun _ => hg) (fun h => by rw [show (lz_embedGen g m).st.cUp = g.st.cUp from rfl, hc] at h; cases h)
      (fun _ => ?_) (fun h => by rw [show (lz_embedGen g m).st.cUp = g.st.cUp from rfl, hc] at h; cases h)
      (fun h => by rw [show (lz_embedGen g m).st.cMin = g.st.cMin from rfl, hcm] at h; cases h)
      (fun h => by rw [show (lz_embedGen g m).st.cMin = g.st.cMin from rfl, hcm] at h; cases h)
      (fun hgm => ?_) (fun hgm _ => ?_)
    · show _ = g.spaceDim + m ∧ GWf (g.spaceDim + m) _ ∧ GNorm (g.spaceDim + m) _ _
      rw [hgdim, hgen]
      exact ⟨rfl, a, lz_gnorm_firstPointDiv b⟩
    · have hgm' : g.st.gMin = true := hgm
      obtain ⟨hlen, htri, hk0⟩ := hI.gmin he hpos hgm'
      show _ = g.spaceDim + m + 1 ∧ upperTriangular (g.spaceDim + m) _ _ = true ∧ _
      rw [hdk hgm', hgen]
      refine ⟨cn_resizeKindsWith_length _ _ _, lz_upperTriangular_embed g.spaceDim m g.gen g.dk hgw hlen hm htri, ?_⟩
      rw [lz_kind_old g.spaceDim m g.dk hlen LINE 0 (by omega)]; exact hk0
    · have hgm' : g.st.gMin = true := hgm
      obtain ⟨hlen, _, _⟩ := hI.gmin he hpos hgm'
      show ConvG (g.spaceDim + m) _ _
      rw [hdk hgm', hgen]
      exact lz_convG_embed g.spaceDim m g.gen g.dk hgw hlen hm (hI.gminConv he hpos hgm' hc)
  refine ⟨hI', ?_, rfl⟩
  rw [lz_sem_of_gUp (g := lz_embedGen g m) he hpos' hg, lz_sem_of_gUp he hpos hg]
  show gensSet (g.spaceDim + m) (lz_embedGen g m).gen = _
  rw [hgen]; exact c

/-- **`add_space_dimensions_and_embed(m)`**, `m > 0`, positive dimension, not marked empty: every state -/
theorem embed_pos_full (g : Grid) (m : Nat) (hI : GridInv g) (hm : 0 < m) (he : g.st.empty = false)
    (hpos : 0 < g.spaceDim) :
    GridInv (addSpaceDimensionsAndEmbed g m) ∧
      (addSpaceDimensionsAndEmbed g m).sem = cn_embedSet g.spaceDim m g.sem ∧
      (addSpaceDimensionsAndEmbed g m).spaceDim = g.spaceDim + m := by
  cases hc : g.st.cUp
  · exact embed_gen_full g m hI hm he hpos hc
  · cases hg : g.st.gUp
    · exact cn_embed_con_full g m hI hm he hpos hc hg
    · exact embed_both_full g m hI hm he hpos hc hg

/-- point `1/2`, parameter `3/2` (minimized generators only) embedded into dimension 2 -/
example :
    let g : Grid := Grid.mk 1 { gUp := true, gMin := true } 1 [] 1 [⟨false, [2, 1, 0]⟩, ⟨false, [0, 3, 2]⟩] [0, 0]
    invB g = true ∧ (addSpaceDimensionsAndEmbed g 1).gen = [⟨false, [2, 1, 0, 0]⟩, ⟨false, [0, 3, 0, 2]⟩, ⟨true, [0, 0, 1, 0]⟩] ∧
      (addSpaceDimensionsAndEmbed g 1).dk = [0, 0, 1] ∧ invB (addSpaceDimensionsAndEmbed g 1) = true := by decide +kernel

end PPLV.Lattice.GO
