import PPLV.Lattice.ProofsGridOpsCon9
import PPLV.Lattice.ProofsGridOpsCon10

/-!
# `Grid` stage 3, congruence-side mutators, part 11: `operator=` (as `concatenate_assign` uses it),
# `concatenate_assign(y)` (Grid_chdims.cc:218)
-/
namespace PPLV.Lattice.GO
open PPLV.Lattice PPLV.Lattice.Red

/-- `set_zero_dim_univ()` establishes the invariant -/
theorem cn_setZeroDimUniv_inv (g : Grid) : GridInv (setZeroDimUniv g) ∧ (setZeroDimUniv g).sem = spaceSet 0 ∧
    (setZeroDimUniv g).spaceDim = 0 := by
  refine ⟨?_, rfl, rfl⟩
  exact {
    emp := fun h => by cases h
    zdim := fun _ _ => ⟨rfl, rfl, rfl, rfl, rfl⟩
    hi0 := fun _ => rfl
    some := fun _ h => absurd h (Nat.lt_irrefl 0)
    cminUp := fun h => by cases h
    gminUp := fun h => by cases h
    cwf := fun _ h => absurd h (Nat.lt_irrefl 0)
    gwf := fun _ h => absurd h (Nat.lt_irrefl 0)
    agree := fun _ h => absurd h (Nat.lt_irrefl 0)
    cmin := fun _ h => absurd h (Nat.lt_irrefl 0)
    cminConv := fun _ h => absurd h (Nat.lt_irrefl 0)
    gmin := fun _ h => absurd h (Nat.lt_irrefl 0)
    gminConv := fun _ h => absurd h (Nat.lt_irrefl 0) }

/-- Grid_public.cc:255 `operator=`: the receiver denotes the grid of `y`, whatever it held -/
theorem cn_assign (x y : Grid) (hy : GridInv y) :
    GridInv (assign x y) ∧ (assign x y).sem = y.sem ∧ (assign x y).spaceDim = y.spaceDim := by
  unfold assign
  by_cases hemp : y.st.empty = true
  · rw [if_pos (show y.markedEmpty = true from hemp)]
    exact ⟨cn_setEmpty_inv _, by rw [cn_setEmpty_sem, cn_sem_empty y hemp], rfl⟩
  · have hne : y.st.empty = false := by simpa using hemp
    rw [if_neg (show ¬ (y.markedEmpty = true) from hemp)]
    by_cases h0 : y.spaceDim = 0
    · rw [if_pos h0]
      obtain ⟨a, b, c⟩ := cn_setZeroDimUniv_inv { x with spaceDim := y.spaceDim, dk := y.dk }
      exact ⟨a, by rw [b, cn_sem_zdim y hne h0], by rw [c, h0]⟩
    · rw [if_neg h0]
      dsimp only
      have hpos : 0 < y.spaceDim := by omega
      by_cases hc : y.st.cUp = true <;> by_cases hg : y.st.gUp = true
      · rw [if_pos (show y.congruencesAreUpToDate = true from hc), if_pos (show y.generatorsAreUpToDate = true from hg)]
        exact cn_inv_transfer _ y hy hne hpos rfl rfl rfl (fun _ => ⟨rfl, rfl⟩) (fun _ => ⟨rfl, rfl⟩)
      · rw [if_pos (show y.congruencesAreUpToDate = true from hc),
          if_neg (show ¬ (y.generatorsAreUpToDate = true) from hg)]
        exact cn_inv_transfer _ y hy hne hpos rfl rfl rfl (fun _ => ⟨rfl, rfl⟩) (fun h => absurd h hg)
      · rw [if_neg (show ¬ (y.congruencesAreUpToDate = true) from hc),
          if_pos (show y.generatorsAreUpToDate = true from hg)]
        exact cn_inv_transfer _ y hy hne hpos rfl rfl rfl (fun h => absurd h hc) (fun _ => ⟨rfl, rfl⟩)
      · exact absurd (hy.some hne hpos) (by simp [hc, hg])

/-! ### products with an empty or a 0-dimensional factor -/

theorem cn_prodSet_empty_left (n m : Nat) (B : Set Pt) : cn_prodSet n m ∅ B = ∅ := by
  ext z; simp [cn_prodSet]
theorem cn_prodSet_empty_right (n m : Nat) (A : Set Pt) : cn_prodSet n m A ∅ = ∅ := by
  ext z; simp [cn_prodSet]

theorem cn_prodSet_zero_right (n : Nat) (A : Set Pt) (hA : A ⊆ spaceSet n) : cn_prodSet n 0 A (spaceSet 0) = A := by
  ext z
  simp only [cn_prodSet, Set.mem_ofPred_eq, spaceSet, Nat.add_zero]
  constructor
  · rintro ⟨hz, h1, _⟩; rwa [cn_fst_of_supp n z hz] at h1
  · intro h
    have hz : Supp n z := hA h
    exact ⟨hz, by rwa [cn_fst_of_supp n z hz], cn_snd_supp n 0 z hz⟩

theorem cn_prodSet_zero_left (m : Nat) (B : Set Pt) (hB : B ⊆ spaceSet m) : cn_prodSet 0 m (spaceSet 0) B = B := by
  ext z
  simp only [cn_prodSet, Set.mem_ofPred_eq, spaceSet, Nat.zero_add, cn_snd_zero]
  constructor
  · rintro ⟨_, _, h⟩; exact h
  · intro h; exact ⟨hB h, cn_fst_supp 0 z, h⟩

/-! ### `concatenate_assign(y)` -/

/-- the receiver of `concatenate_assign` in the general case -/
def cn_concatBody (x1 y1 : Grid) (added : Nat) : Grid :=
  (({ x1.withCs (x1.cs.concatenate y1.cs) with spaceDim := x1.spaceDim + added } : Grid).clearCongruencesMinimized).clearGeneratorsUpToDate

theorem cn_concatBody_spec (x1 y1 : Grid) (hx : GridInv x1) (hy : GridInv y1)
    (hposx : 0 < x1.spaceDim) (hposy : 0 < y1.spaceDim) (hex : x1.st.empty = false) (hey : y1.st.empty = false)
    (hcx : x1.st.cUp = true) (hcy : y1.st.cUp = true) :
    GridInv (cn_concatBody x1 y1 y1.spaceDim) ∧
      (cn_concatBody x1 y1 y1.spaceDim).sem = cn_prodSet x1.spaceDim y1.spaceDim x1.sem y1.sem ∧
      (cn_concatBody x1 y1 y1.spaceDim).spaceDim = x1.spaceDim + y1.spaceDim := by
  obtain ⟨hcdx, hwx⟩ := hx.cwf hex hposx hcx
  obtain ⟨hcdy, hwy⟩ := hy.cwf hey hposy hcy
  have hwx' : CWf x1.cs.dim x1.cs.rows := by show CWf x1.conDim x1.con; rw [hcdx]; exact hwx
  have hwy' : CWf y1.cs.dim y1.cs.rows := by show CWf y1.conDim y1.con; rw [hcdy]; exact hwy
  have hm : 0 < y1.cs.dim := by show 0 < y1.conDim; omega
  have hdim := (cn_concatenate_eq x1.cs y1.cs hm).1
  have hcons := cn_concatenate_consSet x1.cs y1.cs hm hwx' hwy'
  have hcwf := cn_concatenate_CWf x1.cs y1.cs hm hwx' hwy'
  have hxd : x1.cs.dim = x1.spaceDim := hcdx
  have hyd : y1.cs.dim = y1.spaceDim := hcdy
  rw [hxd, hyd] at hdim hcons hcwf
  have := cn_inv_of_conOnly (cn_concatBody x1 y1 y1.spaceDim) (show 0 < x1.spaceDim + y1.spaceDim by omega)
    hex hcx rfl rfl rfl (hx.hi0 hex) hdim hcwf
  refine ⟨this.1, ?_, rfl⟩
  rw [this.2]
  show consSet (x1.spaceDim + y1.spaceDim) (x1.cs.concatenate y1.cs).rows = _
  rw [hcons, cn_sem_of_cUp x1 hx hex hposx hcx, cn_sem_of_cUp y1 hy hey hposy hcy]; rfl

/-- Grid_chdims.cc:218 `concatenate_assign(y)`: the receiver becomes the product `x × y` in the space of dimension
    `x.space_dimension() + y.space_dimension()`; the argument keeps its grid -/
theorem cn_concatenateAssign (hUC : UpdateCongruencesSpec) (x y : Grid) (hx : GridInv x) (hy : GridInv y) :
    (concatenateAssign x y).thrown = false ∧ GridInv (concatenateAssign x y).x ∧ GridInv (concatenateAssign x y).y ∧
    (concatenateAssign x y).x.spaceDim = x.spaceDim + y.spaceDim ∧
    (concatenateAssign x y).x.sem = cn_prodSet x.spaceDim y.spaceDim x.sem y.sem ∧
    (concatenateAssign x y).y.sem = y.sem ∧ (concatenateAssign x y).y.spaceDim = y.spaceDim := by
  unfold concatenateAssign
  by_cases hemp : x.markedEmpty = true ∨ y.markedEmpty = true
  · rw [if_pos hemp]
    refine ⟨rfl, cn_setEmpty_inv _, hy, rfl, ?_, rfl, rfl⟩
    rw [cn_setEmpty_sem]
    rcases hemp with h | h
    · rw [cn_sem_empty x h, cn_prodSet_empty_left]
    · rw [cn_sem_empty y h, cn_prodSet_empty_right]
  · rw [if_neg hemp]
    have hnx : x.st.empty = false := by
      by_contra h; exact hemp (Or.inl (show x.st.empty = true by simpa using h))
    have hny : y.st.empty = false := by
      by_contra h; exact hemp (Or.inr (show y.st.empty = true by simpa using h))
    by_cases hy0 : y.spaceDim = 0
    · rw [if_pos hy0]
      refine ⟨rfl, hx, hy, by rw [hy0]; rfl, ?_, rfl, rfl⟩
      rw [hy0, cn_sem_zdim y hny hy0, cn_prodSet_zero_right _ _ (cn_sem_subset_space x hx)]
    · rw [if_neg hy0]
      have hposy : 0 < y.spaceDim := by omega
      by_cases hx0 : x.spaceDim = 0
      · rw [if_pos hx0]
        obtain ⟨a, b, c⟩ := cn_assign x y hy
        refine ⟨rfl, a, hy, by rw [c, hx0, Nat.zero_add], ?_, rfl, rfl⟩
        rw [b, hx0, cn_sem_zdim x hnx hx0, cn_prodSet_zero_left _ _ (cn_sem_subset_space y hy)]
      · rw [if_neg hx0]
        have hposx : 0 < x.spaceDim := by omega
        have hcong : congruences y = if !y.congruencesAreUpToDate then updateCongruences y else y := by
          unfold congruences
          rw [if_neg (show ¬ (y.markedEmpty = true) by simpa [Grid.markedEmpty] using hny), if_neg hy0]
        rw [hcong]
        obtain ⟨hI1, hs1, hd1, he1, hc1⟩ := cn_ensureCon hUC x hx hnx hposx
        obtain ⟨hI2, hs2, hd2, he2, hc2⟩ := cn_ensureCon hUC y hy hny hposy
        generalize (if !x.congruencesAreUpToDate then updateCongruences x else x) = x1 at hI1 hs1 hd1 he1 hc1 ⊢
        generalize (if !y.congruencesAreUpToDate then updateCongruences y else y) = y1 at hI2 hs2 hd2 he2 hc2 ⊢
        obtain ⟨b1, b2, b3⟩ := cn_concatBody_spec x1 y1 hI1 hI2 (by omega) (by omega) he1 he2 hc1 hc2
        rw [hd2] at b1 b2 b3
        rw [hs1, hs2, hd1] at b2
        rw [hd1] at b3
        exact ⟨rfl, b1, hI2, b3, b2, hs2, hd2⟩

example : (concatenateAssign cn_exGrid cn_exGrid3).x.con = [{ e := [0, 1, 0], m := 2 }, { e := [0, 0, 1], m := 3 }] ∧
    (concatenateAssign cn_exGrid cn_exGrid3).x.spaceDim = 2 := by decide

end PPLV.Lattice.GO
