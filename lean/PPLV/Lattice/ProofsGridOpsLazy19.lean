import PPLV.Lattice.ProofsGridOpsLazy18
import PPLV.Lattice.ProofsGridOpsCon18

/-!
# Adding dimensions, generator side — part 19: the triangular form after `add_universe_rows_and_columns`;
# `add_space_dimensions_and_embed` on every state with up-to-date generators
-/
namespace PPLV.Lattice.GO
open PPLV.Lattice PPLV.Lattice.Red

theorem lz_rowAt_append_left {R : Type} [Inhabited R] (a b : List R) (i : Nat) (h : i < a.length) :
    rowAt (a ++ b) i = rowAt a i := by
  simp [rowAt, List.getElem?_append_left h]

theorem lz_rowAt_append_right {R : Type} [Inhabited R] (a b : List R) (i : Nat) :
    rowAt (a ++ b) (a.length + i) = rowAt b i := by
  simp [rowAt, List.getElem?_append_right]

/-- the rows of `add_universe_rows_and_columns` -/
def lz_embedRows (n m : Nat) (rows : List GRow) : List GRow :=
  rows.map (·.setSpaceDim (n + m)) ++ (List.range m).map (lz_newLine n m)

section
variable (n m : Nat) (dk : List Nat) (hdk : dk.length = n + 1)
include hdk

theorem lz_kind_old (val d : Nat) (hd : d < n + 1) : kind (resizeKindsWith dk (n + m + 1) val) d = kind dk d :=
  cn_resizeKindsWith_kind dk _ val d (by omega) (by omega)

theorem lz_kind_new (val d : Nat) (hd1 : n + 1 ≤ d) (hd2 : d < n + m + 1) : kind (resizeKindsWith dk (n + m + 1) val) d = val :=
  cn_resizeKindsWith_kind_new dk _ val d (by omega) hd2

theorem lz_nv_old (val k : Nat) (hk : k ≤ n + 1) : nv (resizeKindsWith dk (n + m + 1) val) k = nv dk k := by
  unfold nv
  apply cn_cntBelow_congr
  intro i hi
  unfold nvB
  rw [lz_kind_old n m dk hdk val i (by omega)]

theorem lz_nv_new (i : Nat) (hi : i ≤ m) : nv (resizeKindsWith dk (n + m + 1) LINE) (n + 1 + i) = nv dk (n + 1) + i := by
  induction i with
  | zero => exact lz_nv_old n m dk hdk LINE (n + 1) (le_refl _)
  | succ i ih =>
    have hb : nvB (resizeKindsWith dk (n + m + 1) LINE) (n + 1 + i) = true := by
      rw [nvB_iff, lz_kind_new n m dk hdk LINE _ (by omega) (by omega)]; decide
    have := ih (by omega)
    simp only [nv] at this ⊢
    show cntBelow _ (n + 1 + i + 1) = _
    rw [cntBelow_succ_pos _ _ hb]
    omega

end

/-- **the triangular form after the embedding**: the new dimensions are `LINE` dimensions -/
theorem lz_upperTriangular_embed (n m : Nat) (rows : List GRow) (dk : List Nat) (hw : GWf n rows) (hdk : dk.length = n + 1)
    (hm : 0 < m) (h : upperTriangular n rows dk = true) :
    upperTriangular (n + m) (lz_embedRows n m rows) (resizeKindsWith dk (n + m + 1) LINE) = true := by
  have hs := upperTriangular_spec n rows dk h
  refine cg_upperTriangular_of_rows (n + m) _ _ ?_ (fun q hq hqv => ?_)
  · have h2 : nv (resizeKindsWith dk (n + m + 1) LINE) (n + m + 1) = nv dk (n + 1) + m := by
      have := lz_nv_new n m dk hdk m (le_refl m)
      rwa [show n + 1 + m = n + m + 1 by omega] at this
    rw [h2, ← hs.len]
    simp [lz_embedRows]
  · by_cases hqo : q < n + 1
    · have hqv' : nvB dk q = true := by
        unfold nvB at hqv ⊢; rwa [lz_kind_old n m dk hdk LINE q hqo] at hqv
      rw [lz_nv_old n m dk hdk LINE q (by omega)]
      have hidx : nv dk q < rows.length := by rw [hs.len]; exact cntBelow_lt (nvB dk) hqo hqv'
      have hrow : rowAt (lz_embedRows n m rows) (nv dk q) = (rowAt rows (nv dk q)).setSpaceDim (n + m) := by
        unfold lz_embedRows
        rw [lz_rowAt_append_left _ _ _ (by simpa using hidx), gc_rowAt_map _ _ _ hidx]
      have hlen := hw _ (rowAt_mem rows _ hidx)
      have hd := hs.diag q hqo hqv'
      have hz := hs.zeros q hqo hqv'
      simp only [sEnt] at hd hz
      rw [hrow]
      refine ⟨?_, fun k hk => ?_⟩
      · rw [gn_get_setSpaceDim_pad hlen (by omega), if_pos (by omega)]; exact hd
      · rw [gn_get_setSpaceDim_pad hlen (by omega), if_pos (by omega)]; exact hz k hk
    · obtain ⟨i, rfl⟩ : ∃ i, q = n + 1 + i := ⟨q - (n + 1), by omega⟩
      have him : i < m := by omega
      rw [lz_nv_new n m dk hdk i (by omega), ← hs.len]
      have hrow : rowAt (lz_embedRows n m rows) (rows.length + i) = lz_newLine n m i := by
        unfold lz_embedRows
        have := lz_rowAt_append_right (rows.map (·.setSpaceDim (n + m))) ((List.range m).map (lz_newLine n m)) i
        rw [List.length_map] at this
        rw [this]
        simp [rowAt, him]
      rw [hrow]
      refine ⟨?_, fun k hk => ?_⟩
      · rw [lz_newLine_get n m i _ him, if_pos (by omega)]; decide
      · rw [lz_newLine_get n m i _ him, if_neg (by omega)]

/-- the agreement of kinds and line flags after the embedding -/
theorem lz_convG_embed (n m : Nat) (rows : List GRow) (dk : List Nat) (hw : GWf n rows) (hdk : dk.length = n + 1)
    (hm : 0 < m) (hcv : ConvG n rows dk) : ConvG (n + m) (lz_embedRows n m rows) (resizeKindsWith dk (n + m + 1) LINE) := by
  obtain ⟨hk, hla, hpa⟩ := hcv
  have hkind : ∀ d, d < n + m + 1 → kind (resizeKindsWith dk (n + m + 1) LINE) d = if d < n + 1 then kind dk d else LINE := by
    intro d hd
    split
    · rename_i h; exact lz_kind_old n m dk hdk LINE d h
    · exact lz_kind_new n m dk hdk LINE d (by omega) hd
  have hmem : ∀ g ∈ lz_embedRows n m rows, (∃ r ∈ rows, g = r.setSpaceDim (n + m)) ∨ ∃ i, i < m ∧ g = lz_newLine n m i := by
    intro g hg
    rcases List.mem_append.mp hg with h | h
    · obtain ⟨r, hr, rfl⟩ := List.mem_map.mp h; exact Or.inl ⟨r, hr, rfl⟩
    · obtain ⟨i, hi, rfl⟩ := List.mem_map.mp h; exact Or.inr ⟨i, List.mem_range.mp hi, rfl⟩
  -- the first non-zero column of a padded row is an old column
  have hold : ∀ r ∈ rows, ∀ d, d < n + m + 1 → (∀ k, k < d → get (r.setSpaceDim (n + m)).e k = 0) →
      get (r.setSpaceDim (n + m)).e d ≠ 0 → d < n + 1 ∧ (∀ k, k < d → get r.e k = 0) ∧ get r.e d ≠ 0 := by
    intro r hr d hd hz hnz
    have hlen := hw r hr
    have hd' : d < n + 1 := by
      by_contra hc
      rw [gn_get_setSpaceDim_pad hlen (by omega), if_neg (by omega), if_neg (by omega)] at hnz
      exact hnz rfl
    refine ⟨hd', fun k hk' => ?_, ?_⟩
    · have := hz k hk'
      rwa [gn_get_setSpaceDim_pad hlen (by omega), if_pos (by omega)] at this
    · rwa [gn_get_setSpaceDim_pad hlen (by omega), if_pos (by omega)] at hnz
  refine ⟨fun d hd => ?_, fun g hg hl d hd hz hnz => ?_, fun g hg hl d hd hz hnz => ?_⟩
  · rw [hkind d hd]; split
    · rename_i h; exact hk d h
    · decide
  · rcases hmem g hg with ⟨r, hr, rfl⟩ | ⟨i, hi, rfl⟩
    · obtain ⟨h1, h2, h3⟩ := hold r hr d hd hz hnz
      rw [hkind d hd, if_pos h1]
      exact hla r hr (by rw [← gn_line_setSpaceDim r (n + m)]; exact hl) d h1 h2 h3
    · have hdq : d = n + i + 1 := by
        by_contra hc
        rw [lz_newLine_get n m i d hi, if_neg hc] at hnz; exact hnz rfl
      rw [hkind d hd, if_neg (by omega)]
  · rcases hmem g hg with ⟨r, hr, rfl⟩ | ⟨i, hi, rfl⟩
    · obtain ⟨h1, h2, h3⟩ := hold r hr d hd hz hnz
      rw [hkind d hd, if_pos h1]
      exact hpa r hr (by rw [← gn_line_setSpaceDim r (n + m)]; exact hl) d h1 h2 h3
    · cases hl

end PPLV.Lattice.GO
