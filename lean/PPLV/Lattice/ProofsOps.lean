import PPLV.Lattice.ModelOps
import PPLV.Lattice.ProofsDecide

/-!
# K2: specifications of the reference operations (join, images, preimages, …)
-/
set_option linter.unusedSimpArgs false
namespace PPLV.Lattice
open List

/-! ### adding generators -/

theorem addLine_sem (G : GridGens) (l : Vec) (y : Pt) :
    Gen.sem (addLine G l) y ↔ ∃ x c, Gen.sem G x ∧ y = x + (c : Rat) • l.toFun := by
  cases G with
  | empty => simp [addLine, Gen.sem]
  | gens g =>
    simp only [addLine, Gen.sem]
    constructor
    · intro h
      induction h with
      | pt => exact ⟨_, 0, Gens.Mem.pt, by simp⟩
      | @param z q k hq _ ih =>
        obtain ⟨x, c, hx, rfl⟩ := ih
        refine ⟨x.axpy k q.toFun, c, Gens.Mem.param k hq hx, ?_⟩
        simp only [axpy_eq]; module
      | @line z m d hm _ ih =>
        obtain ⟨x, c, hx, rfl⟩ := ih
        rcases List.mem_cons.mp hm with rfl | hm
        · exact ⟨x, c + d, hx, by simp only [axpy_eq]; module⟩
        · refine ⟨x.axpy d m.toFun, c, Gens.Mem.line d hm hx, ?_⟩
          simp only [axpy_eq]; module
    · rintro ⟨x, c, hx, rfl⟩
      have h1 : Gens.Mem { g with lines := l :: g.lines } x := by
        induction hx with
        | pt => exact Gens.Mem.pt
        | param k hq _ ih => exact Gens.Mem.param k hq ih
        | line d hm _ ih => exact Gens.Mem.line d (List.mem_cons_of_mem _ hm) ih
      have := Gens.Mem.line (g := { g with lines := l :: g.lines }) c (List.mem_cons_self) h1
      rwa [axpy_eq] at this

theorem addParam_sem (G : GridGens) (q : Vec) (y : Pt) :
    Gen.sem (addParam G q) y ↔ ∃ x, ∃ k : Int, Gen.sem G x ∧ y = x + (k : Rat) • q.toFun := by
  cases G with
  | empty => simp [addParam, Gen.sem]
  | gens g =>
    simp only [addParam, Gen.sem]
    constructor
    · intro h
      induction h with
      | pt => exact ⟨_, 0, Gens.Mem.pt, by simp⟩
      | @param z r k hr _ ih =>
        obtain ⟨x, j, hx, rfl⟩ := ih
        rcases List.mem_cons.mp hr with rfl | hr
        · exact ⟨x, j + k, hx, by simp only [axpy_eq]; push_cast; module⟩
        · refine ⟨x.axpy k r.toFun, j, Gens.Mem.param k hr hx, ?_⟩
          simp only [axpy_eq]; module
      | @line z m d hm _ ih =>
        obtain ⟨x, j, hx, rfl⟩ := ih
        refine ⟨x.axpy d m.toFun, j, Gens.Mem.line d hm hx, ?_⟩
        simp only [axpy_eq]; module
    · rintro ⟨x, k, hx, rfl⟩
      have h1 : Gens.Mem { g with params := q :: g.params } x := by
        induction hx with
        | pt => exact Gens.Mem.pt
        | param k hq _ ih => exact Gens.Mem.param k (List.mem_cons_of_mem _ hq) ih
        | line d hm _ ih => exact Gens.Mem.line d hm ih
      have := Gens.Mem.param (g := { g with params := q :: g.params }) k (List.mem_cons_self) h1
      rwa [axpy_eq] at this

/-! ### join -/

theorem sem_affine (K : GridGens) {x y z : Pt} (k : Int) (hx : Gen.sem K x) (hy : Gen.sem K y) (hz : Gen.sem K z) :
    Gen.sem K (x + (k : Rat) • (y - z)) := by
  cases K with
  | empty => exact absurd hx (by simp [Gen.sem])
  | gens h => exact gens_affine h k hx hy hz

theorem join_left (G H : GridGens) (x : Pt) (h : Gen.sem G x) : Gen.sem (join G H) x := by
  cases G with
  | empty => exact absurd h (by simp [Gen.sem])
  | gens g =>
    cases H with
    | empty => simpa [join] using h
    | gens hh =>
      simp only [join, Gen.sem] at h ⊢
      induction h with
      | pt => exact Gens.Mem.pt
      | param k hq _ ih =>
        exact Gens.Mem.param k (by simp only [List.mem_cons, List.mem_append]; tauto) ih
      | line d hm _ ih => exact Gens.Mem.line d (by simp only [List.mem_append]; tauto) ih

theorem join_right (G H : GridGens) (x : Pt) (h : Gen.sem H x) : Gen.sem (join G H) x := by
  cases H with
  | empty => exact absurd h (by simp [Gen.sem])
  | gens hh =>
    cases G with
    | empty => simpa [join] using h
    | gens g =>
      simp only [join, Gen.sem] at h ⊢
      induction h with
      | pt =>
        have := Gens.Mem.param (g := ⟨g.pt, vsub hh.pt g.pt :: (g.params ++ hh.params), g.lines ++ hh.lines⟩) 1 (List.mem_cons_self) Gens.Mem.pt
        rw [axpy_eq, toFun_vsub] at this
        have e : g.pt.toFun + ((1 : Int) : Rat) • (hh.pt.toFun - g.pt.toFun) = hh.pt.toFun := by
          push_cast; module
        rwa [e] at this
      | param k hq _ ih =>
        exact Gens.Mem.param k (by simp only [List.mem_cons, List.mem_append]; tauto) ih
      | line d hm _ ih => exact Gens.Mem.line d (by simp only [List.mem_append]; tauto) ih

/-- the join is below every grid that contains both arguments -/
theorem join_least (G H K : GridGens) (hG : ∀ x, Gen.sem G x → Gen.sem K x) (hH : ∀ x, Gen.sem H x → Gen.sem K x)
    (x : Pt) (h : Gen.sem (join G H) x) : Gen.sem K x := by
  cases G with
  | empty => exact hH x (by simpa [join] using h)
  | gens g =>
    cases H with
    | empty => exact hG x (by simpa [join] using h)
    | gens hh =>
      simp only [join, Gen.sem] at h
      have hp : Gen.sem K g.pt.toFun := hG _ Gens.Mem.pt
      have hp' : Gen.sem K hh.pt.toFun := hH _ Gens.Mem.pt
      induction h with
      | pt => exact hp
      | @param z q k hq _ ih =>
        rw [axpy_eq]
        simp only [List.mem_cons, List.mem_append] at hq
        rcases hq with rfl | hq | hq
        · have := sem_affine K k ih hp' hp
          rwa [toFun_vsub]
        · have hq' : Gen.sem K (g.pt.toFun + ((1:Int):Rat) • q.toFun) := by
            apply hG; rw [← axpy_eq]; exact Gens.Mem.param 1 hq Gens.Mem.pt
          have := sem_affine K k ih hq' hp
          have e : z + (k:Rat) • (g.pt.toFun + ((1:Int):Rat) • q.toFun - g.pt.toFun) = z + (k:Rat) • q.toFun := by
            push_cast; module
          rwa [e] at this
        · have hq' : Gen.sem K (hh.pt.toFun + ((1:Int):Rat) • q.toFun) := by
            apply hH; rw [← axpy_eq]; exact Gens.Mem.param 1 hq Gens.Mem.pt
          have := sem_affine K k ih hq' hp'
          have e : z + (k:Rat) • (hh.pt.toFun + ((1:Int):Rat) • q.toFun - hh.pt.toFun) = z + (k:Rat) • q.toFun := by
            push_cast; module
          rwa [e] at this
      | @line z l d hl _ ih =>
        rw [axpy_eq]
        simp only [List.mem_append] at hl
        rcases hl with hl | hl
        · have hl' : Gen.sem K (g.pt.toFun + d • l.toFun) := by
            apply hG; rw [← axpy_eq]; exact Gens.Mem.line d hl Gens.Mem.pt
          have := sem_affine K 1 ih hl' hp
          have e : z + ((1:Int):Rat) • (g.pt.toFun + d • l.toFun - g.pt.toFun) = z + d • l.toFun := by
            push_cast; module
          rwa [e] at this
        · have hl' : Gen.sem K (hh.pt.toFun + d • l.toFun) := by
            apply hH; rw [← axpy_eq]; exact Gens.Mem.line d hl Gens.Mem.pt
          have := sem_affine K 1 ih hl' hp'
          have e : z + ((1:Int):Rat) • (hh.pt.toFun + d • l.toFun - hh.pt.toFun) = z + d • l.toFun := by
            push_cast; module
          rwa [e] at this

/-- adding a point is the join with that point -/
theorem addPoint_eq_join (G : GridGens) (p : Vec) (x : Pt) :
    Gen.sem (addPoint G p) x ↔ Gen.sem (join G (.gens { pt := p, params := [], lines := [] })) x := by
  cases G with
  | empty => simp [addPoint, join]
  | gens g => simp [addPoint, join]

/-! ### images under affine maps -/

/-- `M` acts on list vectors as the linear map `φ` on valuations -/
def Represents (M : Vec → Vec) (φ : Pt →ₗ[ℚ] Pt) : Prop := ∀ v : Vec, (M v).toFun = φ v.toFun

theorem mapG_sem (M : Vec → Vec) (φ : Pt →ₗ[ℚ] Pt) (hM : Represents M φ) (t : Vec) (G : GridGens) (y : Pt) :
    Gen.sem (mapG M t G) y ↔ ∃ x, Gen.sem G x ∧ y = φ x + t.toFun := by
  cases G with
  | empty => simp [mapG, Gen.sem]
  | gens g =>
    simp only [mapG, Gen.sem]
    constructor
    · intro h
      induction h with
      | pt => exact ⟨_, Gens.Mem.pt, by simp [toFun_vadd, hM g.pt]⟩
      | @param z q k hq _ ih =>
        obtain ⟨x, hx, rfl⟩ := ih
        obtain ⟨q0, hq0, rfl⟩ := List.mem_map.mp hq
        refine ⟨x.axpy k q0.toFun, Gens.Mem.param k hq0 hx, ?_⟩
        simp only [axpy_eq, hM q0, map_add, map_smul]; module
      | @line z l d hl _ ih =>
        obtain ⟨x, hx, rfl⟩ := ih
        obtain ⟨l0, hl0, rfl⟩ := List.mem_map.mp hl
        refine ⟨x.axpy d l0.toFun, Gens.Mem.line d hl0 hx, ?_⟩
        simp only [axpy_eq, hM l0, map_add, map_smul]; module
    · rintro ⟨x, hx, rfl⟩
      induction hx with
      | pt =>
        have := Gens.Mem.pt (g := { pt := vadd (M g.pt) t, params := g.params.map M, lines := g.lines.map M })
        simpa [toFun_vadd, hM g.pt] using this
      | @param z q k hq _ ih =>
        have := Gens.Mem.param (g := { pt := vadd (M g.pt) t, params := g.params.map M, lines := g.lines.map M })
          k (List.mem_map_of_mem hq) ih
        rw [axpy_eq, hM q] at this
        have e : φ (z.axpy k q.toFun) + t.toFun = φ z + t.toFun + (k:Rat) • φ q.toFun := by
          simp only [axpy_eq, map_add, map_smul]; module
        rwa [e]
      | @line z l d hl _ ih =>
        have := Gens.Mem.line (g := { pt := vadd (M g.pt) t, params := g.params.map M, lines := g.lines.map M })
          d (List.mem_map_of_mem hl) ih
        rw [axpy_eq, hM l] at this
        have e : φ (z.axpy d l.toFun) + t.toFun = φ z + t.toFun + d • φ l.toFun := by
          simp only [axpy_eq, map_add, map_smul]; module
        rwa [e]

/-! ### `setCoord` and the single-update affine map -/

theorem getD_vecOfFn (n : Nat) (f : Nat → Rat) (j : Nat) : (vecOfFn n f).getD j 0 = if j < n then f j else 0 := by
  unfold vecOfFn
  by_cases h : j < n
  · simp [h, List.getD_eq_getElem?_getD, List.getElem?_map, List.getElem?_range h]
  · simp [h, List.getD_eq_getElem?_getD, List.getElem?_map]

theorem toFun_vecOfFn (n : Nat) (f : Nat → Rat) : (vecOfFn n f).toFun = fun j => if j < n then f j else 0 := by
  funext j; exact getD_vecOfFn n f j

theorem toFun_setCoord (v : Vec) (i : Nat) (r : Rat) : (setCoord v i r).toFun = Function.update v.toFun i r := by
  funext j
  simp only [setCoord, toFun_vecOfFn, Function.update_apply]
  by_cases hj : j = i
  · subst hj; simp
  · simp only [hj, if_false]
    by_cases h : j < max v.length (i + 1)
    · simp [h]; rfl
    · simp only [h, if_false]
      exact (toFun_of_length_le v j (by omega)).symm

theorem toFun_padTo (n : Nat) (v : Vec) : (padTo n v).toFun = fun j => if j < n then v.toFun j else 0 := by
  simp only [padTo, toFun_vecOfFn]; rfl

/-- `x ↦ x[v := α x]` for a linear form `α` -/
def updLin (v : Nat) (α : Pt →ₗ[ℚ] ℚ) : Pt →ₗ[ℚ] Pt where
  toFun x := Function.update x v (α x)
  map_add' x y := by
    funext j
    by_cases h : j = v
    · subst h; simp
    · simp [Function.update_of_ne h]
  map_smul' c x := by
    funext j
    by_cases h : j = v
    · subst h; simp
    · simp [Function.update_of_ne h]

theorem updLin_apply (v : Nat) (α : Pt →ₗ[ℚ] ℚ) (x : Pt) : updLin v α x = Function.update x v (α x) := rfl

/-- the documented single-update affine map `x ↦ x[v := (⟨e,x⟩ + b)/d]` -/
def affMap (v : Nat) (e : Vec) (b d : Rat) (x : Pt) : Pt := Function.update x v ((dotF e x + b) / d)

theorem affineImage_sem (G : GridGens) (v : Nat) (e : Vec) (b d : Rat) (y : Pt) :
    Gen.sem (affineImage G v e b d) y ↔ ∃ x, Gen.sem G x ∧ y = affMap v e b d x := by
  unfold affineImage
  have hM : Represents (fun x => setCoord x v (dot e x / d)) (updLin v ((1 / d) • alphaOf e)) := by
    intro x
    rw [toFun_setCoord, updLin_apply]
    simp [dot_eq_dotF, div_eq_inv_mul]
  rw [mapG_sem _ _ hM]
  constructor
  · rintro ⟨x, hx, rfl⟩
    refine ⟨x, hx, ?_⟩
    rw [toFun_setCoord, updLin_apply]
    funext j
    by_cases h : j = v
    · subst h; simp [affMap]; ring
    · simp [affMap, Function.update_of_ne h]
  · rintro ⟨x, hx, rfl⟩
    refine ⟨x, hx, ?_⟩
    rw [toFun_setCoord, updLin_apply]
    funext j
    by_cases h : j = v
    · subst h; simp [affMap]; ring
    · simp [affMap, Function.update_of_ne h]

theorem dotF_update (a : Vec) (x : Pt) (i : Nat) (r : Rat) :
    dotF a (Function.update x i r) = dotF a x + a.toFun i * (r - x i) := by
  induction a generalizing x i with
  | nil => simp
  | cons c a ih =>
    cases i with
    | zero =>
      have : Pt.tail (Function.update x 0 r) = Pt.tail x := by
        funext j; simp [Pt.tail]
      simp only [dotF_cons, this, Function.update_self, toFun_cons_zero]; ring
    | succ i =>
      have : Pt.tail (Function.update x (i+1) r) = Function.update (Pt.tail x) i r := by
        funext j
        simp only [Pt.tail, Function.update_apply]
        by_cases h : j = i
        · simp [h]
        · simp [h]
      simp only [dotF_cons, this, ih, toFun_cons_succ]
      have : Function.update x (i+1) r 0 = x 0 := by simp [Function.update_apply]
      rw [this]; simp [Pt.tail]; ring

theorem dotF_vadd (a b : Vec) (x : Pt) : dotF (vadd a b) x = dotF a x + dotF b x := by
  induction a generalizing b x with
  | nil => simp [vadd]
  | cons c a ih =>
    cases b with
    | nil => simp [vadd]
    | cons d b => simp only [vadd, dotF_cons, ih]; ring

theorem dotF_vsmul (c : Rat) (b : Vec) (x : Pt) : dotF (vsmul c b) x = c * dotF b x := by
  induction b generalizing x with
  | nil => simp [vsmul]
  | cons d b ih =>
    have := ih x.tail
    simp only [vsmul] at this
    simp only [vsmul, List.map_cons, dotF_cons, this]; ring

theorem dotF_vsub (a b : Vec) (x : Pt) : dotF (vsub a b) x = dotF a x - dotF b x := by
  rw [vsub, dotF_vadd, dotF_vsmul]; ring

theorem affMap_apply_self (v : Nat) (e : Vec) (b d : Rat) (x : Pt) : affMap v e b d x v = (dotF e x + b) / d := by
  simp [affMap]

theorem affMap_apply_ne (v : Nat) (e : Vec) (b d : Rat) (x : Pt) (j : Nat) (h : j ≠ v) : affMap v e b d x j = x j := by
  simp [affMap, Function.update_of_ne h]

/-- `affinePreimage` is the preimage under the documented map (for `d ≠ 0`) -/
theorem affinePreimage_sem (G : GridGens) (v : Nat) (e : Vec) (b d : Rat) (hd : d ≠ 0) (y : Pt) :
    Gen.sem (affinePreimage G v e b d) y ↔ Gen.sem G (affMap v e b d y) := by
  unfold affinePreimage
  have hevd : e.getD v 0 = e.toFun v := rfl
  by_cases hev : e.getD v 0 = 0
  · -- non-invertible: the new value of x_v does not depend on the old one
    simp only [hev, ne_eq, not_true_eq_false, if_false]
    rw [addLine_sem]
    have hev' : e.toFun v = 0 := hev
    have hfree : ∀ (z : Pt) (r : Rat), dotF e (Function.update z v r) = dotF e z := by
      intro z r; rw [dotF_update, hev']; ring
    constructor
    · rintro ⟨z, c, hz, rfl⟩
      rw [intersectCon_sem] at hz
      obtain ⟨hz1, t, ht⟩ := hz
      simp only [mul_zero, dotF_vsub, dotF_vsmul, dotF_unit] at ht
      have hzv : z v = (dotF e z + b) / d := by field_simp; linarith
      have : affMap v e b d (z + c • (unit v).toFun) = z := by
        funext j
        by_cases hj : j = v
        · subst hj
          rw [affMap_apply_self]
          have : z + c • (unit j).toFun = Function.update z j (z j + c) := by
            funext i
            by_cases hi : i = j
            · subst hi; simp [toFun_unit]
            · simp [toFun_unit, hi, Function.update_of_ne hi]
          rw [this, hfree, hzv]
        · rw [affMap_apply_ne _ _ _ _ _ _ hj]; simp [toFun_unit, hj]
      rw [this]; exact hz1
    · intro h
      refine ⟨affMap v e b d y, y v - (dotF e y + b) / d, ?_, ?_⟩
      · rw [intersectCon_sem]
        refine ⟨h, 0, ?_⟩
        simp only [mul_zero, dotF_vsub, dotF_vsmul, dotF_unit, affMap_apply_self]
        simp only [affMap, hfree]
        field_simp; ring
      · funext j
        by_cases hj : j = v
        · subst hj; simp [affMap_apply_self, toFun_unit]
        · simp [affMap_apply_ne _ _ _ _ _ _ hj, toFun_unit, hj]
  · -- invertible
    simp only [ne_eq, hev, not_false_eq_true, if_true]
    rw [affineImage_sem]
    rw [hevd] at hev ⊢
    set ev := e.toFun v with hevdef
    have hinv : ∀ x : Pt, dotF (vsub (vsmul d (unit v)) (vsub e (vsmul ev (unit v)))) x = d * x v - dotF e x + ev * x v := by
      intro x; simp only [dotF_vsub, dotF_vsmul, dotF_unit]; ring
    constructor
    · rintro ⟨x, hx, rfl⟩
      have : affMap v e b d (affMap v (vsub (vsmul d (unit v)) (vsub e (vsmul ev (unit v)))) (-b) ev x) = x := by
        funext j
        by_cases hj : j = v
        · subst hj
          rw [affMap_apply_self]
          conv_lhs => rw [affMap, dotF_update, hinv]
          field_simp; ring
        · rw [affMap_apply_ne _ _ _ _ _ _ hj, affMap_apply_ne _ _ _ _ _ _ hj]
      rw [this]; exact hx
    · intro h
      refine ⟨affMap v e b d y, h, ?_⟩
      funext j
      by_cases hj : j = v
      · subst hj
        rw [affMap_apply_self, hinv, affMap_apply_self]
        conv_rhs => rw [affMap, dotF_update]
        field_simp; ring
      · rw [affMap_apply_ne _ _ _ _ _ _ hj, affMap_apply_ne _ _ _ _ _ _ hj]

end PPLV.Lattice
