import PPLV.Lattice.ProofsGridOpsGen26

/-!
# Generator side of the `Grid` object, part 27 — `Grid::relation_with(const Congruence&)` (Grid_public.cc:390), the object
-/
namespace PPLV.Lattice.GO
open PPLV.Lattice PPLV.Lattice.Red

/-- a congruence without variables on a point of the 0-dimensional space -/
theorem gn_set_dim0 (cg : CRow) (hl : cg.e.length ≤ 1) (x : Pt) : x ∈ CRow.set cg ↔ cg.m ∣ get cg.e 0 := by
  show cg.toCg.sem x ↔ _
  rw [gn_toCg_sem_iff]
  have ht : (ratRow cg.e).tail = [] := by
    cases h : cg.e with
    | nil => rfl
    | cons a l =>
      rw [h] at hl
      have : l = [] := by
        cases l with
        | nil => rfl
        | cons b l' => simp at hl
      rw [this]; rfl
  rw [ht, dotF_nil, zero_add]
  constructor
  · rintro ⟨t, h⟩; exact ⟨t, by rw [mul_comm]; exact_mod_cast h⟩
  · rintro ⟨t, h⟩; exact ⟨t, by rw [h]; push_cast; ring⟩

theorem gn_isInconsistent_dim0 (cg : CRow) (hl : cg.e.length ≤ 1) : cg.isInconsistent = true ↔ ¬ cg.m ∣ get cg.e 0 := by
  have hz : allZ cg.e 1 cg.e.length = true := by
    unfold allZ
    have : cg.e.length - 1 = 0 := by omega
    rw [this]; rfl
  unfold CRow.isInconsistent
  rw [hz, Bool.and_true]
  by_cases hm : cg.m = 0
  · rw [if_pos hm, hm]; simp [zero_dvd_iff]
  · rw [if_neg hm]
    simp only [bne_iff_ne, ne_eq]
    exact ⟨fun h hd => h (Int.tmod_eq_zero_of_dvd hd), fun h ht => h (Int.dvd_of_tmod_eq_zero ht)⟩

/-- **`Grid::relation_with(const Congruence&)`** for a congruence of the space with a non-negative modulus: the invariant
    and the denotation are kept; `is_disjoint` ↔ empty intersection, `is_included` ↔ inclusion, `strictly_intersects` ↔
    neither, `saturates` only with `is_included`, and on a non-empty grid of positive dimension exactly for an included
    equality -/
theorem gn_relationWithCg (g : Grid) (hI : GridInv g) (cg : CRow) (hd : cg.spaceDim ≤ g.spaceDim) (hm : 0 ≤ cg.m) :
    GridInv (relationWithCg g cg).1 ∧ (relationWithCg g cg).1.sem = g.sem ∧
    (relationWithCg g cg).1.spaceDim = g.spaceDim ∧
    ∃ rel, (relationWithCg g cg).2 = some rel ∧ gn_RelOK rel g.sem (CRow.set cg) ∧
      (0 < g.spaceDim → g.sem.Nonempty → (rel.saturates = true ↔ rel.included = true ∧ cg.isEquality = true)) := by
  have hlen : cg.e.length ≤ g.spaceDim + 1 := by unfold CRow.spaceDim at hd; omega
  unfold relationWithCg
  rw [if_neg (by omega)]
  cases he : g.markedEmpty with
  | true =>
    rw [if_pos rfl]
    refine ⟨hI, rfl, rfl, Rel.all3, rfl, ?_, fun _ h => ?_⟩
    · rw [gn_sem_of_empty (g := g) he]; exact gn_relOK_all3 _
    · rw [gn_sem_of_empty (g := g) he] at h; exact absurd h Set.not_nonempty_empty
  | false =>
  rw [if_neg (by simp)]
  by_cases h0 : g.spaceDim = 0
  · have hl1 : cg.e.length ≤ 1 := by omega
    have hS := gn_sem_dim0 (g := g) he h0
    have hne : g.sem.Nonempty := by rw [hS]; exact ⟨0, fun _ _ => rfl⟩
    by_cases hinc : cg.isInconsistent = true
    · rw [if_pos ⟨h0, hinc⟩]
      refine ⟨hI, rfl, rfl, _, rfl, ?_, fun h => by omega⟩
      refine gn_relOK_disj hne ?_
      ext x
      constructor
      · rintro ⟨_, hc⟩
        exact absurd ((gn_set_dim0 cg hl1 x).mp hc) ((gn_isInconsistent_dim0 cg hl1).mp hinc)
      · intro h; cases h
    · rw [if_neg (fun h => hinc h.2)]
      have hdv : cg.m ∣ get cg.e 0 := by
        by_contra h; exact hinc ((gn_isInconsistent_dim0 cg hl1).mpr h)
      have hcond : cg.isEquality = true ∨ Int.tmod (get cg.e 0) cg.m = 0 := Or.inr (Int.tmod_eq_zero_of_dvd hdv)
      rw [if_pos ⟨h0, hcond⟩]
      refine ⟨hI, rfl, rfl, _, rfl, ?_, fun h => by omega⟩
      exact gn_relOK_incl hne (fun x _ => (gn_set_dim0 cg hl1 x).mpr hdv) true
  · have hn : 0 < g.spaceDim := by omega
    rw [if_neg (fun h => h0 h.1), if_neg (fun h => h0 h.1)]
    simp only [show (if (!g.generatorsAreUpToDate) = true then updateGenerators g else (g, true)) = gn_incX g from rfl]
    obtain ⟨a, b, c, d, e⟩ := gn_incX_spec updateGenerators_spec g hI he hn
    cases h2 : (gn_incX g).2 with
    | false =>
      simp only [Bool.not_false, if_true]
      refine ⟨a, b, c, Rel.all3, rfl, ?_, fun _ h => ?_⟩
      · rw [e h2]; exact gn_relOK_all3 _
      · rw [e h2] at h; exact absurd h Set.not_nonempty_empty
    | true =>
      simp only [Bool.not_true, Bool.false_eq_true, if_false]
      obtain ⟨g1, g2⟩ := d h2
      obtain ⟨_, q, r, s⟩ := gn_sem_of_gUp a (by rw [c]; exact hn) g1 g2
      rw [c] at q r
      obtain ⟨fp, hfp, hdiv⟩ := gn_find_isPoint r
      obtain ⟨rel, erel, ok, sat⟩ := gn_relCg_rows r q cg hlen hm
      rw [hfp]
      simp only [hdiv]
      rw [← b, s]
      cases hres : relCgLoop cg { div := cg.m * firstPointDiv (gn_incX g).1.gen } (gn_incX g).1.gen with
      | inr rel' =>
        rw [hres] at erel
        simp only at erel
        exact ⟨a, s, c, rel', rfl, by rw [erel]; exact ok, fun _ _ => by rw [erel]; exact sat⟩
      | inl st =>
        rw [hres] at erel
        simp only at erel
        by_cases hp0 : st.pointSp = 0
        · simp only [hp0, if_true] at erel ⊢
          exact ⟨a, s, c, _, rfl, by rw [erel]; exact ok, fun _ _ => by rw [erel]; exact sat⟩
        · simp only [hp0, if_false] at erel ⊢
          exact ⟨a, s, c, _, rfl, by rw [erel]; exact ok, fun _ _ => by rw [erel]; exact sat⟩

/-- the hypotheses are satisfiable: the grid `{0}` of the line and `x ≡ 1 (mod 2)` -/
example : ∃ (g : Grid) (cg : CRow), GridInv g ∧ cg.spaceDim ≤ g.spaceDim ∧ 0 ≤ cg.m :=
  ⟨{ spaceDim := 1, st := { gUp := true }, conDim := 1, con := [], genDim := 1, gen := [⟨false, [1, 0, 0]⟩], dk := [] },
   ⟨[-1, 1], 2⟩,
   (gn_inv_gens (D := 1) (by decide) rfl rfl rfl rfl rfl rfl rfl (by intro r hr; rw [List.mem_singleton.mp hr]; rfl)
      ⟨by decide, ⟨_, List.mem_singleton.mpr rfl, rfl, rfl⟩, by decide, by decide, by decide⟩).1,
   by decide, by decide⟩

end PPLV.Lattice.GO
