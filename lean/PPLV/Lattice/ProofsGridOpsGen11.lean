import PPLV.Lattice.ProofsGridOpsGen10

/-!
# Generator side of the `Grid` object, part 11 — `set_empty()`, points turned into parameters, the time-elapse of two
# generated grids
-/
namespace PPLV.Lattice.GO
open PPLV.Lattice PPLV.Lattice.Red

/-! ### `set_empty()` -/

theorem gn_csys_setSpaceDim_dim (s : CSys) (n : Nat) : (s.setSpaceDim n).dim = n := by
  unfold CSys.setSpaceDim
  split
  · rfl
  · rename_i h; exact not_not.mp h

theorem gn_inv_setEmpty (g : Grid) : GridInv (setEmpty g) ∧ (setEmpty g).sem = ∅ ∧ (setEmpty g).spaceDim = g.spaceDim := by
  refine ⟨⟨?_, ?_, ?_, ?_, ?_, ?_, ?_, ?_, ?_, ?_, ?_, ?_, ?_⟩, gn_sem_of_empty rfl, rfl⟩
  · intro _
    exact ⟨rfl, rfl, rfl, gn_csys_setSpaceDim_dim _ _, rfl⟩
  all_goals (intro h; cases h)

/-! ### `set_is_parameter()` on the points of a normalised system -/

/-- the row map of `time_elapse_assign` -/
def gn_toPar (r : GRow) : GRow := if r.isPoint then r.setIsParameter else r

theorem gn_toPar_spec {n : Nat} {D : Int} {rows : List GRow} (hN : GNorm n D rows) (hw : GWf n rows) {r : GRow}
    (hr : r ∈ rows) :
    (gn_toPar r).line = r.line ∧ (gn_toPar r).e.length = n + 2 ∧ get (gn_toPar r).e 0 = 0 ∧
    (r.line = false → get (gn_toPar r).e (n + 1) = D) ∧ gn_vecOf (gn_toPar r) = gn_vecOf r := by
  have hlen := hw r hr
  unfold gn_toPar
  cases hp : r.isPoint with
  | false =>
    rw [if_neg (by simp)]
    cases hl : r.line with
    | true => exact ⟨rfl, hlen, hN.lin r hr hl, fun h => (by cases h), rfl⟩
    | false =>
      have h0 : get r.e 0 = 0 := by simpa [GRow.isPoint, hl] using hp
      exact ⟨rfl, hlen, h0, fun _ => hN.par r hr hl h0, rfl⟩
  | true =>
    rw [if_pos rfl]
    have hp' : r.line = false ∧ get r.e 0 ≠ 0 := by simpa [GRow.isPoint] using hp
    have h0 : get r.e 0 = D := by
      rcases hN.col0 r hr hp'.1 with q | q
      · exact absurd q hp'.2
      · exact q
    have e : r.setIsParameter = { r with e := (r.e.set (n + 1) (get r.e 0)).set 0 0 } := by
      unfold GRow.setIsParameter
      rw [if_neg (by rw [hp'.1]; simp), if_pos hp'.2, hlen]; rfl
    have hg : ∀ i, get r.setIsParameter.e i = if i = 0 then 0 else if i = n + 1 then get r.e 0 else get r.e i := by
      intro i
      rw [e]
      show get ((r.e.set (n + 1) (get r.e 0)).set 0 0) i = _
      rw [get_set, get_set, List.length_set, hlen]
      by_cases h1 : i = 0
      · simp [h1]
      · by_cases h2 : i = n + 1
        · simp [h2]
        · simp [h1, h2]
    have hl' : r.setIsParameter.line = false := by rw [e]; exact hp'.1
    have hlen' : r.setIsParameter.e.length = n + 2 := by rw [e]; simp [hlen]
    have hz : get r.setIsParameter.e 0 = 0 := by rw [hg]; simp
    refine ⟨by rw [hl', hp'.1], hlen', hz, fun _ => by rw [hg, if_neg (by omega), if_pos rfl]; exact h0, ?_⟩
    funext i
    unfold gn_vecOf
    rw [gn_spaceDim_of_len hlen', gn_spaceDim_of_len hlen, hl', hp'.1,
      divisor_param n _ hlen' hz, divisor_point r hp'.2]
    by_cases hi : i < n
    · rw [if_pos hi, if_pos hi, hg (n + 1), hg (i + 1)]
      have a3 : ¬ (i = n) := by omega
      simp [a3]
    · rw [if_neg hi, if_neg hi]

/-! ### the time-elapse of two generated grids -/

/-- `S` is the least closed set containing all `p + μ q`, `p ∈ X`, `q ∈ Y`, `μ ∈ ℤ` -/
def gn_IsTE (S X Y : Set Pt) : Prop :=
  (∀ p ∈ X, ∀ q ∈ Y, ∀ μ : Int, p + (μ : ℚ) • q ∈ S) ∧
  ∀ K : Set Pt, gn_Closed K → (∀ p ∈ X, ∀ q ∈ Y, ∀ μ : Int, p + (μ : ℚ) • q ∈ K) → S ⊆ K

theorem gn_IsTE.least {S X Y : Set Pt} (h : gn_IsTE S X Y) (K : GridGens)
    (hK : ∀ p ∈ X, ∀ q ∈ Y, ∀ μ : Int, Gen.sem K (p + (μ : ℚ) • q)) : S ⊆ {p | Gen.sem K p} :=
  h.2 _ (gn_closed_sem K) hK

theorem gn_isTE_empty_left (Y : Set Pt) : gn_IsTE ∅ ∅ Y :=
  ⟨fun _ h => absurd h (Set.notMem_empty _), fun _ _ _ => Set.empty_subset _⟩
theorem gn_isTE_empty_right (X : Set Pt) : gn_IsTE ∅ X ∅ :=
  ⟨fun _ _ _ h => absurd h (Set.notMem_empty _), fun _ _ _ => Set.empty_subset _⟩

/-- **the rows of `X` together with the rows of `Y`, points read as parameters, generate the time-elapse** -/
theorem gn_set_te {X Y : List GRow} (f : GRow → GRow) (hX : ∃ r ∈ X, gn_isPt r = true)
    (hY : ∃ r ∈ Y, gn_isPt r = true) (hline : ∀ r ∈ Y, (f r).line = r.line)
    (hvec : ∀ r ∈ Y, gn_vecOf (f r) = gn_vecOf r) (hpar : ∀ r ∈ Y, r.line = false → gn_isPar (f r) = true) :
    gn_IsTE (gn_set (X ++ Y.map f)) (gn_set X) (gn_set Y) := by
  have hfm : ∀ r ∈ Y, f r ∈ X ++ Y.map f := fun r hr => List.mem_append_right _ (List.mem_map_of_mem hr)
  have hparDir : ∀ r ∈ Y, r.line = false → gn_Dir (X ++ Y.map f) (gn_vecOf r) := by
    intro r hr hl; rw [← hvec r hr]; exact gn_dir_par (hfm r hr) (hpar r hr hl)
  constructor
  · intro p hp q hq μ
    obtain ⟨b, hb, pb, wb⟩ := hq
    have hdirY : gn_Dir (X ++ Y.map f) (q - gn_vecOf b) := by
      refine gn_dir_le (S := gn_Dir (X ++ Y.map f)) (gn_dir_zero _) (fun _ _ => gn_dir_add)
        (fun k _ => gn_dir_zsmul k) ?_ ?_ ?_ wb
      · intro r1 h1 p1 r2 h2 p2
        exact gn_dir_sub (hparDir r1 h1 ((gn_isPt_iff r1).mp p1).1) (hparDir r2 h2 ((gn_isPt_iff r2).mp p2).1)
      · intro r h1 p1; exact hparDir r h1 ((gn_isPar_iff r).mp p1).1
      · intro r h1 p1 c; rw [← hvec r h1]; exact gn_dir_line (hfm r h1) (by rw [hline r h1]; exact p1) c
    have : gn_Dir (X ++ Y.map f) ((μ : ℚ) • q) := by
      have e : q = gn_vecOf b + (q - gn_vecOf b) := by module
      rw [e]
      exact gn_dir_zsmul μ (gn_dir_add (hparDir b hb ((gn_isPt_iff b).mp pb).1) hdirY)
    exact gn_mem_add_dir (gn_mem_append_left hp) this
  · intro K hK hall
    obtain ⟨a0, ha0⟩ := gn_mem_nonempty hX
    obtain ⟨b0, hb0⟩ := gn_mem_nonempty hY
    have hXK : gn_set X ⊆ K := by
      intro p hp
      have := hall p hp b0 hb0 0
      simpa using this
    obtain ⟨px, lx⟩ := gn_absorb hK hXK hX
    -- a direction `v` with `b + v ∈ Y` for some `b ∈ Y` is absorbed by `K`
    have habs : ∀ b ∈ gn_set Y, ∀ v : Pt, b + v ∈ gn_set Y → ∀ a ∈ K, ∀ k : Int, a + (k : ℚ) • v ∈ K := by
      intro b hb v hbv a ha k
      have := hK a ha _ (hall a0 ha0 (b + v) hbv 1) _ (hall a0 ha0 b hb 1) k
      have e : a + (k : ℚ) • (a0 + ((1 : Int) : ℚ) • (b + v) - (a0 + ((1 : Int) : ℚ) • b)) = a + (k : ℚ) • v := by
        push_cast; module
      rwa [e] at this
    refine gn_mem_least hK ?_ ?_ ?_
    · intro r hr p
      rcases List.mem_append.mp hr with hr | hr
      · exact hXK (gn_mem_pt hr p)
      · obtain ⟨r0, hr0, rfl⟩ := List.mem_map.mp hr
        exfalso
        cases hl : r0.line with
        | true => have := hline r0 hr0; rw [hl] at this; simp [gn_isPt, this] at p
        | false =>
          have := (gn_isPar_iff _).mp (hpar r0 hr0 hl)
          simp [gn_isPt, this.2] at p
    · intro r hr p
      rcases List.mem_append.mp hr with hr | hr
      · exact px r hr p
      · obtain ⟨r0, hr0, rfl⟩ := List.mem_map.mp hr
        have hl0 : r0.line = false := by rw [← hline r0 hr0]; exact ((gn_isPar_iff _).mp p).1
        rw [hvec r0 hr0]
        by_cases h0 : get r0.e 0 = 0
        · exact habs b0 hb0 _ (by
            have := gn_mem_par_step hr0 ((gn_isPar_iff r0).mpr ⟨hl0, h0⟩) hb0 1
            show gn_Mem Y (b0 + gn_vecOf r0)
            simpa using this)
        · intro a ha k
          have hp0 := gn_mem_pt hr0 ((gn_isPt_iff r0).mpr ⟨hl0, h0⟩)
          have := hK a ha _ (hall a0 ha0 _ hp0 1) _ (hall a0 ha0 _ hp0 0) k
          have e : a + (k : ℚ) • (a0 + ((1 : Int) : ℚ) • gn_vecOf r0 - (a0 + ((0 : Int) : ℚ) • gn_vecOf r0))
              = a + (k : ℚ) • gn_vecOf r0 := by push_cast; module
          rwa [e] at this
    · intro r hr p
      rcases List.mem_append.mp hr with hr | hr
      · exact lx r hr p
      · obtain ⟨r0, hr0, rfl⟩ := List.mem_map.mp hr
        have hl0 : r0.line = true := by rw [← hline r0 hr0]; exact p
        rw [hvec r0 hr0]
        intro a ha c
        have := habs b0 hb0 (c • gn_vecOf r0) (gn_mem_line_step hr0 hl0 hb0 c) a ha 1
        simpa using this

end PPLV.Lattice.GO
